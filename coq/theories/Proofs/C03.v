(* C03: the views of a complex always describe its current rotation.
   Invariant ViewOK over the object state machine of Model/Canon.v + Model/Views.v. *)
From Coq Require Import List Arith ZArith Lia Bool NArith.
From DSD Require Import Base.Str Base.Errors Base.Val Model.ComplexUtils Model.Rotation Model.Compare Model.Canon
  Model.Loops Model.DispatchCU Model.Views
  Proofs.RotTree Proofs.RotOnce Proofs.RotOrbit Proofs.RotStrands Proofs.RotGen Proofs.C02.
Import ListNotations.

Definition rep (o : cobj) : cplx := (o_seq o, o_struct o).

(* every populated cache holds the function of the CURRENT representation it caches *)
Definition cache_ok (o : cobj) : Prop :=
  (forall s, c_stab o = Some s -> s = make_strand_table_list sPlus (o_seq o)) /\
  (forall t, c_ptab o = Some t -> make_pair_table cP [cD] (o_struct o) = Ok t) /\
  (forall le, c_li o = Some le -> loop_index_of (o_struct o) = Ok le) /\
  (forall xe, c_ext o = Some xe -> ext_enc (o_struct o) = Ok xe) /\
  (* the exterior scan reads self._pair_table directly: it is populated whenever the loop index is *)
  (forall le, c_li o = Some le -> exists t, c_ptab o = Some t).

Definition ViewOK (o : cobj) : Prop :=
  goodNE (rep o) /\
  (0 <= o_turns o < Z.of_nat (nstr (o_struct o)))%Z /\
  Nat.iter (Z.to_nat (o_turns o)) rotT (o_canon o) = rep o /\
  good (o_canon o) /\
  cache_ok o.

Definition same_core (a b : cobj) : Prop :=
  o_canon a = o_canon b /\ o_turns a = o_turns b /\ o_seq a = o_seq b /\ o_struct a = o_struct b.

(* the freshly built object at the same rotation *)
Definition fresh (o : cobj) : cobj := new_obj (o_canon o) (o_turns o) (o_seq o) (o_struct o).

Lemma same_core_refl o : same_core o o.
Proof. repeat split. Qed.

Lemma same_core_sym a b : same_core a b -> same_core b a.
Proof. intros (A & B & C & D). repeat split; congruence. Qed.

Lemma same_core_trans a b c : same_core a b -> same_core b c -> same_core a c.
Proof. intros (A & B & C & D) (A' & B' & C' & D'). repeat split; congruence. Qed.

Lemma same_core_fresh o : same_core (fresh o) o.
Proof. repeat split. Qed.

Lemma cache_ok_none cn t s st : cache_ok (mkc cn t s st None None None None).
Proof. repeat split; cbn; intros; discriminate. Qed.

Lemma cache_ok_fresh o : cache_ok (fresh o).
Proof. apply cache_ok_none. Qed.

Lemma ViewOK_same_core a b : same_core a b -> cache_ok a -> ViewOK b -> ViewOK a.
Proof.
  intros (A & B & C & D) K (V1 & V2 & V3 & V4 & _). unfold ViewOK, rep in *.
  rewrite A, B, C, D. auto.
Qed.

Lemma ViewOK_fresh o : ViewOK o -> ViewOK (fresh o).
Proof. apply ViewOK_same_core; [apply same_core_fresh|apply cache_ok_fresh]. Qed.

(* ---- the getters return the function of the current representation ---- *)
Lemma get_stab_spec o : cache_ok o ->
  snd (get_stab o) = make_strand_table_list sPlus (o_seq o) /\
  cache_ok (fst (get_stab o)) /\ same_core (fst (get_stab o)) o /\
  c_ptab (fst (get_stab o)) = c_ptab o /\ c_li (fst (get_stab o)) = c_li o /\ c_ext (fst (get_stab o)) = c_ext o.
Proof.
  destruct o as [cn tu sq st cs cp cl ce]. unfold cache_ok, get_stab, same_core. cbn [o_canon o_turns o_seq o_struct c_stab c_ptab c_li c_ext].
  intros (C1 & C2 & C3 & C4 & C5).
  destruct cs as [[|x s]|]; cbn [truthy fst snd o_canon o_turns o_seq o_struct c_stab c_ptab c_li c_ext].
  - repeat split; auto. intros s H; injection H as <-. reflexivity.
  - repeat split; auto.
  - repeat split; auto. intros s H; injection H as <-. reflexivity.
Qed.

Ltac fields := cbn [o_canon o_turns o_seq o_struct c_stab c_ptab c_li c_ext fst snd] in *.

Ltac fin := repeat split; auto;
  try (intros ? H; injection H as <-; (reflexivity || assumption)); try (intros ? H; discriminate H);
  try (intros; eauto; fail).

Lemma get_ptab_spec o : cache_ok o ->
  snd (get_ptab o) = make_pair_table cP [cD] (o_struct o) /\
  cache_ok (fst (get_ptab o)) /\ same_core (fst (get_ptab o)) o /\
  (forall t, snd (get_ptab o) = Ok t -> c_ptab (fst (get_ptab o)) = Some t) /\
  c_stab (fst (get_ptab o)) = c_stab o /\ c_li (fst (get_ptab o)) = c_li o /\ c_ext (fst (get_ptab o)) = c_ext o.
Proof.
  destruct o as [cn tu sq st cs cp cl ce]. unfold cache_ok, get_ptab, same_core. fields.
  intros (C1 & C2 & C3 & C4 & C5).
  destruct cp as [[|r t]|]; cbn [truthy]; fields.
  - pose proof (C2 _ eq_refl) as P. rewrite P. fields. fin.
  - fin. symmetry. apply C2. reflexivity.
  - destruct (make_pair_table cP [cD] st) as [t|k] eqn:P; fields; fin.
Qed.

Definition li_fill (o1 : cobj) (r : res tab) : cobj * res (list (list nat) * list nat) :=
  match r with
  | Err e => (o1, Err e)
  | Ok t => match make_loop_index t with
            | Ok le => (mkc (o_canon o1) (o_turns o1) (o_seq o1) (o_struct o1) (c_stab o1) (c_ptab o1)
                            (Some le) (c_ext o1), Ok le)
            | Err e => (o1, Err e)
            end
  end.

Lemma get_li_unfold o :
  get_li o = match c_li o with
             | Some (x :: l, e) => (o, Ok (x :: l, e))
             | _ => li_fill (fst (get_ptab o)) (snd (get_ptab o))
             end.
Proof.
  unfold get_li, li_fill. destruct (get_ptab o) as [o1 r]. reflexivity.
Qed.

Lemma get_li_spec o : cache_ok o ->
  snd (get_li o) = loop_index_of (o_struct o) /\
  cache_ok (fst (get_li o)) /\ same_core (fst (get_li o)) o /\
  (forall le, snd (get_li o) = Ok le -> c_li (fst (get_li o)) = Some le) /\
  c_stab (fst (get_li o)) = c_stab o /\ c_ext (fst (get_li o)) = c_ext o.
Proof.
  intros K. rewrite get_li_unfold.
  assert (Main : let res := li_fill (fst (get_ptab o)) (snd (get_ptab o)) in
    snd res = loop_index_of (o_struct o) /\ cache_ok (fst res) /\ same_core (fst res) o /\
    (forall le, snd res = Ok le -> c_li (fst res) = Some le) /\
    c_stab (fst res) = c_stab o /\ c_ext (fst res) = c_ext o).
  { pose proof (get_ptab_spec o K) as (P1 & P2 & P3 & P4 & P5 & P6 & P7).
    destruct (get_ptab o) as [o1 r]. fields. unfold li_fill, loop_index_of, pair_table_of. rewrite <- P1.
    destruct r as [t|e]; cbn [rbind].
    - destruct (make_loop_index t) as [le|e] eqn:L; fields.
      + destruct P2 as (C1 & C2 & C3 & C4 & C5). destruct P3 as (S1 & S2 & S3 & S4).
        split; [reflexivity|]. split.
        { unfold cache_ok. fields. repeat split; auto.
          - intros le0 H; injection H as <-. unfold loop_index_of, pair_table_of.
            rewrite S4, <- P1. cbn [rbind]. exact L.
          - intros le0 H. exists t. apply P4. reflexivity. }
        split; [repeat split; assumption|].
        split; [intros le0 H; injection H as <-; reflexivity|]. auto.
      + split; [reflexivity|]. split; [exact P2|]. split; [exact P3|]. split; [intros ? H; discriminate H|]. auto.
    - split; [reflexivity|]. split; [exact P2|]. split; [exact P3|]. split; [intros ? H; discriminate H|]. auto. }
  destruct (c_li o) as [[[|x l] e]|] eqn:E; try exact Main.
  fields. destruct K as (C1 & C2 & C3 & C4 & C5).
  split; [symmetry; apply C3; exact E|].
  split; [repeat split; auto|]. split; [apply same_core_refl|].
  split; [intros le H; injection H as <-; exact E|]. auto.
Qed.

Lemma ext_enc_li s :
  ext_enc s = match loop_index_of s with
              | Err e => Err e
              | Ok le => match make_pair_table cP [cD] s with
                         | Ok t => Ok (scan_rows (snd le) 0 (fst le) t)
                         | Err e => Err e
                         end
              end.
Proof.
  unfold ext_enc, loop_index_of, pair_table_of.
  destruct (make_pair_table cP [cD] s) as [t|e]; cbn [rbind]; [|reflexivity].
  destruct (make_loop_index t) as [le|e]; reflexivity.
Qed.

Definition ext_fill (o1 : cobj) (r : res (list (list nat) * list nat)) : cobj * res (list loc * list loc) :=
  match r with
  | Err e => (o1, Err e)
  | Ok le =>
      match c_ptab o1 with
      | Some t =>
          let xe := scan_rows (snd le) 0 (fst le) t in
          (mkc (o_canon o1) (o_turns o1) (o_seq o1) (o_struct o1) (c_stab o1) (c_ptab o1) (c_li o1) (Some xe), Ok xe)
      | None => (o1, Err eType)
      end
  end.

Lemma get_ext_unfold o :
  get_ext o = match c_ext o with
              | Some (x :: l, e) => (o, Ok (x :: l, e))
              | _ => ext_fill (fst (get_li o)) (snd (get_li o))
              end.
Proof.
  unfold get_ext, ext_fill. destruct (get_li o) as [o1 r]. reflexivity.
Qed.

Lemma get_ext_spec o : cache_ok o ->
  snd (get_ext o) = ext_enc (o_struct o) /\
  cache_ok (fst (get_ext o)) /\ same_core (fst (get_ext o)) o.
Proof.
  intros K. rewrite get_ext_unfold.
  assert (Main : let res := ext_fill (fst (get_li o)) (snd (get_li o)) in
    snd res = ext_enc (o_struct o) /\ cache_ok (fst res) /\ same_core (fst res) o).
  { pose proof (get_li_spec o K) as (L1 & L2 & L3 & L4 & L5 & L6).
    destruct (get_li o) as [o1 r]. fields. unfold ext_fill. rewrite ext_enc_li, <- L1.
    destruct r as [le|e]; [|fields; auto].
    pose proof (L4 le eq_refl) as Hli.
    pose proof L2 as (C1 & C2 & C3 & C4 & C5). destruct L3 as (S1 & S2 & S3 & S4).
    destruct (C5 le Hli) as [t Ht]. rewrite Ht. fields.
    pose proof (C2 t Ht) as Hp. rewrite S4 in Hp. rewrite Hp.
    split; [reflexivity|]. split; [|repeat split; assumption].
    unfold cache_ok. fields. repeat split; auto.
    - intros t0 H; injection H as <-. rewrite S4. exact Hp.
    - intros xe H; injection H as <-. rewrite S4, ext_enc_li, <- L1, Hp. reflexivity.
    - intros le0 _. eauto. }
  destruct (c_ext o) as [[[|x l] e]|] eqn:E; try exact Main.
  fields. pose proof K as (C1 & C2 & C3 & C4 & C5).
  split; [symmetry; apply C4; exact E|]. split; [exact K|apply same_core_refl].
Qed.

(* ---- size, rotate() ---- *)
Lemma size_spec o : cache_ok o ->
  snd (size o) = n_strands (o_seq o) /\ cache_ok (fst (size o)) /\ same_core (fst (size o)) o.
Proof.
  intros K. pose proof (get_stab_spec o K) as (S1 & S2 & S3 & _). unfold size.
  destruct (get_stab o) as [o1 s]. fields. subst s. auto.
Qed.

Lemma size_nstr_view o : ViewOK o -> snd (size o) = nstr (o_struct o).
Proof.
  intros (GN & _ & _ & _ & K). destruct (size_spec o K) as (-> & _).
  apply (n_strands_nstr (rep o) GN).
Qed.

Lemma rot_list_spec k : forall x, good x ->
  rot_list k x = Ok (map (fun j => Nat.iter j rotT x) (seq 1 k)).
Proof.
  induction k as [|k IH]; intros x G; [reflexivity|].
  cbn [rot_list]. destruct (rotT_ok x G) as [E Gy]. unfold once in E. unfold rot1. rewrite E. cbn [rbind].
  rewrite IH by exact Gy. cbn [rbind]. rewrite seq_S. cbn [map]. f_equal. f_equal.
  rewrite <- (seq_shift k 1), map_map. apply map_ext. intros j. rewrite iter_succ_r. reflexivity.
Qed.

(* rotate(k), k >= 1: the current representation and its next k-1 rotations *)
Lemma cobj_rotate_spec o k : good (rep o) ->
  cobj_rotate o (S k) = Ok (map (fun j => Nat.iter j rotT (rep o)) (seq 0 (S k))).
Proof.
  intros G. unfold cobj_rotate. replace (S k - 1) with k by lia.
  fold (rep o). rewrite rot_list_spec by exact G. cbn [rbind]. rewrite seq_S. reflexivity.
Qed.

Lemma cobj_rotate_core a b k : o_seq a = o_seq b -> o_struct a = o_struct b ->
  cobj_rotate a k = cobj_rotate b k.
Proof. intros E1 E2. unfold cobj_rotate. rewrite E1, E2. reflexivity. Qed.

Lemma nstr_iter_rotT k x : good x -> nstr (snd (Nat.iter k rotT x)) = nstr (snd x).
Proof.
  intros G. induction k as [|k IH]; [reflexivity|].
  rewrite iter_S, nstr_rotT by (apply iter_rotT_good, G). exact IH.
Qed.

Lemma wrap_mod x m : (0 < m)%Z -> wrap x m = (x mod m)%Z.
Proof.
  intros H. unfold wrap. pose proof (Z.mod_pos_bound x m H).
  replace (x mod m + m)%Z with (x mod m + 1 * m)%Z by lia.
  rewrite Z.mod_add by lia. apply Z.mod_small. lia.
Qed.

Lemma wrap_bound x m : (0 < m)%Z -> (0 <= wrap x m < m)%Z.
Proof. intros H. rewrite wrap_mod by exact H. apply Z.mod_pos_bound, H. Qed.

(* ---- the turns setter ---- *)
Theorem set_turns_spec o v : ViewOK o ->
  let n := nstr (o_struct o) in
  exists o', set_turns o v = Ok o' /\
    o_turns o' = wrap v (Z.of_nat n) /\
    o_canon o' = o_canon o /\
    (o_seq o', o_struct o') = Nat.iter (Z.to_nat (wrap v (Z.of_nat n))) rotT (o_canon o) /\
    c_stab o' = None /\ c_ptab o' = None /\ c_li o' = None /\ c_ext o' = None.
Proof.
  intros V n. pose proof V as (GN & T1 & T2 & Gc & K). pose proof GN as [G _].
  pose proof (size_nstr_view o V) as SZ. destruct (size_spec o K) as (_ & K1 & (S1 & S2 & S3 & S4)).
  unfold set_turns. destruct (size o) as [o1 tot]. fields. subst tot. fold n.
  assert (Hn : 0 < n) by (unfold n, nstr; lia).
  destruct (Nat.eqb_spec n 0) as [|_]; [lia|].
  set (t := wrap (- o_turns o1 + v) (Z.of_nat n)).
  assert (Ht : (0 <= t < Z.of_nat n)%Z) by (apply wrap_bound; lia).
  assert (R : rep o1 = rep o) by (unfold rep; rewrite S3, S4; reflexivity).
  rewrite cobj_rotate_spec by (rewrite R; exact G). cbn [rbind].
  rewrite (nth_error_map_seq _ (S (Z.to_nat t)) 0 (Z.to_nat t)) by lia. cbn [Nat.add].
  rewrite R. destruct (Nat.iter (Z.to_nat t) rotT (rep o)) as [s st] eqn:E.
  eexists. split; [reflexivity|]. fields. split; [reflexivity|]. split; [exact S1|].
  split; [|auto]. rewrite <- E, <- T2, <- iter_add.
  rewrite (iter_rotT_mod (Z.to_nat t + Z.to_nat (o_turns o)) (o_canon o) Gc).
  f_equal.
  assert (NC : nstr (snd (o_canon o)) = n).
  { pose proof (nstr_iter_rotT (Z.to_nat (o_turns o)) (o_canon o) Gc) as H. rewrite T2 in H.
    symmetry. exact H. }
  rewrite NC. apply Nat2Z.inj. rewrite Nat2Z.inj_mod, Nat2Z.inj_add, !Z2Nat.id by lia.
  rewrite wrap_mod by lia. unfold t. rewrite wrap_mod by lia. rewrite S2.
  rewrite Zplus_mod_idemp_l. rewrite Z2Nat.id by (apply Z.mod_pos_bound; lia). f_equal. lia.
Qed.

(* ---- T1: the invariant holds after construction ---- *)
Theorem viewok_after_construction sq st canon turns rots :
  goodNE (sq, st) -> identifiers_fresh sq st = Ok (canon, turns, rots) ->
  ViewOK (new_obj canon turns sq st).
Proof.
  intros GN H. pose proof GN as [G _].
  destruct (turns_correct (sq, st) canon turns rots GN H) as [B E].
  destruct (identifiers_fresh_total (sq, st) GN) as (c & e & E' & _ & Hc & _).
  cbn [fst snd] in *. rewrite E' in H. injection H as H _ _. subst c.
  unfold ViewOK, rep, new_obj. fields.
  split; [exact GN|]. split; [exact B|]. split; [exact E|].
  split; [rewrite Hc; apply iter_rotT_good, G|apply cache_ok_none].
Qed.

(* ---- T2: every operation preserves the invariant ---- *)
Lemma ViewOK_nstr_canon o : ViewOK o -> nstr (snd (o_canon o)) = nstr (o_struct o).
Proof.
  intros (_ & _ & T2 & Gc & _).
  pose proof (nstr_iter_rotT (Z.to_nat (o_turns o)) (o_canon o) Gc) as H. rewrite T2 in H.
  symmetry. exact H.
Qed.

Lemma ViewOK_goodNE_canon o : ViewOK o -> goodNE (o_canon o).
Proof.
  intros V. pose proof (ViewOK_nstr_canon o V) as NC. destruct V as (GN & T1 & T2 & Gc & _).
  assert (E : o_canon o = Nat.iter (nstr (o_struct o) - Z.to_nat (o_turns o)) rotT (rep o)).
  { rewrite <- T2, <- iter_add.
    replace (nstr (o_struct o) - Z.to_nat (o_turns o) + Z.to_nat (o_turns o)) with (nstr (snd (o_canon o))) by lia.
    symmetry. apply rotT_orbit, Gc. }
  rewrite E. apply iter_rotT_goodNE, GN.
Qed.

Lemma set_turns_viewok o v o' : ViewOK o -> set_turns o v = Ok o' -> ViewOK o'.
Proof.
  intros V H. destruct (set_turns_spec o v V) as (o2 & E & A1 & A2 & A3 & A4 & A5 & A6 & A7).
  rewrite E in H. injection H as <-.
  pose proof (ViewOK_goodNE_canon o V) as GNc. pose proof (ViewOK_nstr_canon o V) as NC.
  pose proof V as (_ & _ & _ & Gc & _).
  assert (Hn : (0 < Z.of_nat (nstr (o_struct o)))%Z) by (unfold nstr; lia).
  assert (NS : nstr (o_struct o2) = nstr (o_struct o)).
  { change (o_struct o2) with (snd (o_seq o2, o_struct o2)). rewrite A3, nstr_iter_rotT by exact Gc. exact NC. }
  unfold ViewOK, rep. rewrite A1, A2, A3, NS.
  split; [apply iter_rotT_goodNE, GNc|]. split; [apply wrap_bound, Hn|]. split; [reflexivity|].
  split; [exact Gc|]. destruct o2. fields. subst. apply cache_ok_none.
Qed.

Definition is_query (op : vop) : Prop := match op with VSetTurns _ => False | _ => True end.

(* queries only fill caches: identity, turns and the representation are untouched *)
Lemma vstep_query_core o op : cache_ok o -> is_query op ->
  cache_ok (fst (vstep o op)) /\ same_core (fst (vstep o op)) o.
Proof.
  intros K Q.
  pose proof (get_stab_spec o K) as (_ & A1 & A2 & _).
  pose proof (get_ptab_spec o K) as (_ & B1 & B2 & _).
  pose proof (get_li_spec o K) as (_ & C1 & C2 & _).
  pose proof (get_ext_spec o K) as (_ & D1 & D2).
  pose proof (size_spec o K) as (_ & E1 & E2).
  pose proof (same_core_refl o) as R.
  destruct op; cbn [vstep]; try (split; [exact K|exact R]); try contradiction.
  - destruct (size o); auto.
  - destruct (get_stab o); auto.
  - unfold with_ptab. destruct (get_ptab o) as [o1 [t|e]]; auto.
  - destruct (get_stab o); auto.
  - destruct (get_stab o); auto.
  - destruct ((a <? 0)%Z || (b <? 0)%Z); [auto|].
    unfold with_ptab. destruct (get_ptab o) as [o1 [t|e]]; auto.
  - destruct (get_li o); auto.
  - destruct (get_ext o); auto.
  - destruct (c_ext o) as [[a [|x l]]|]; try (destruct (get_ext o); auto); auto.
  - destruct (c_li o) as [[[|x l] e]|]; try (destruct (get_li o); auto); auto.
  - destruct (size o); auto.
  - destruct (size o); auto.
Qed.

Theorem viewok_preserved o op : ViewOK o -> ViewOK (fst (vstep o op)).
Proof.
  intros V. destruct op as [v| | | | | | | | | | | | | | | | |];
    try (pose proof V as (_ & _ & _ & _ & K);
         match goal with |- ViewOK (fst (vstep o ?op)) =>
           destruct (vstep_query_core o op K I) as [K1 S1];
           exact (ViewOK_same_core _ _ S1 K1 V) end).
  cbn [vstep]. destruct (set_turns o v) as [o'|e] eqn:E; cbn [fst]; [|exact V].
  exact (set_turns_viewok o v o' V E).
Qed.

(* the object after a list of operations *)
Fixpoint vstate (o : cobj) (ops : list vop) : cobj :=
  match ops with
  | [] => o
  | op :: r => vstate (fst (vstep o op)) r
  end.

Theorem viewok_run ops : forall o, ViewOK o -> ViewOK (vstate o ops).
Proof.
  induction ops as [|op r IH]; intros o V; [exact V|].
  cbn [vstate]. apply IH, viewok_preserved, V.
Qed.

(* ---- T4: no stale cache can be observed ---- *)
(* the value of every view as a function of the current representation only *)
Lemma vstep_stab_val o (f : list (list pstr) -> val) : cache_ok o ->
  snd (let '(o1, s) := get_stab o in (o1, f s)) = f (make_strand_table_list sPlus (o_seq o)).
Proof. intros K. destruct (get_stab_spec o K) as (A & _). destruct (get_stab o). fields. subst. reflexivity. Qed.

Lemma with_ptab_val o (f : tab -> val) : cache_ok o ->
  snd (with_ptab o (fun o1 t => (o1, f t)))
  = match make_pair_table cP [cD] (o_struct o) with Ok t => f t | Err e => err e end.
Proof.
  intros K. destruct (get_ptab_spec o K) as (A & _). unfold with_ptab.
  destruct (get_ptab o) as [o1 r]. fields. subst r.
  destruct (make_pair_table cP [cD] (o_struct o)); reflexivity.
Qed.

Lemma vstep_li_val o (f : res (list (list nat) * list nat) -> val) : cache_ok o ->
  snd (let '(o1, r) := get_li o in (o1, f r)) = f (loop_index_of (o_struct o)).
Proof. intros K. destruct (get_li_spec o K) as (A & _). destruct (get_li o). fields. subst. reflexivity. Qed.

Lemma vstep_ext_val o (f : res (list loc * list loc) -> val) : cache_ok o ->
  snd (let '(o1, r) := get_ext o in (o1, f r)) = f (ext_enc (o_struct o)).
Proof. intros K. destruct (get_ext_spec o K) as (A & _). destruct (get_ext o). fields. subst. reflexivity. Qed.

Lemma vstep_size_val o (f : cobj -> nat -> val) : cache_ok o ->
  (forall a b n, o_seq a = o_seq b -> o_struct a = o_struct b -> f a n = f b n) ->
  snd (let '(o1, n) := size o in (o1, f o1 n)) = f o (n_strands (o_seq o)).
Proof.
  intros K Hf. destruct (size_spec o K) as (A & _ & (_ & _ & S3 & S4)). destruct (size o) as [o1 n].
  fields. subst n. apply Hf; assumption.
Qed.

Definition enc_val (r : res (list loc * list loc)) : val :=
  match r with Ok xe => of_locs (snd xe) | Err e => err e end.
Definition conn_val (r : res (list (list nat) * list nat)) : val :=
  match r with Ok _ => VBool true | Err e => if str_eqb e eSSE then VBool false else err e end.

Lemma vstep_enc_val o : cache_ok o -> snd (vstep o VEnc) = enc_val (ext_enc (o_struct o)).
Proof.
  intros K. cbn [vstep]. pose proof K as (_ & _ & _ & C4 & _).
  pose proof (vstep_ext_val o enc_val K) as G. unfold enc_val in *.
  destruct (c_ext o) as [[a [|x l]]|] eqn:E; try exact G.
  rewrite (C4 _ eq_refl). reflexivity.
Qed.

Lemma vstep_conn_val o : cache_ok o -> snd (vstep o VConnected) = conn_val (loop_index_of (o_struct o)).
Proof.
  intros K. cbn [vstep]. pose proof K as (_ & _ & C3 & _).
  pose proof (vstep_li_val o conn_val K) as G. unfold conn_val in *.
  destruct (c_li o) as [[[|x l] e]|] eqn:E; try exact G.
  rewrite (C3 _ eq_refl). reflexivity.
Qed.

(* two objects with the same core fields and consistent caches are observationally equal *)
Lemma vstep_obs_core a b op : ViewOK a -> ViewOK b -> same_core a b ->
  snd (vstep a op) = snd (vstep b op).
Proof.
  intros Va Vb (S1 & S2 & S3 & S4).
  pose proof Va as (_ & _ & _ & _ & Ka). pose proof Vb as (_ & _ & _ & _ & Kb).
  destruct op.
  - cbn [vstep]. destruct (set_turns_spec a v Va) as (a' & -> & _). destruct (set_turns_spec b v Vb) as (b' & -> & _).
    reflexivity.
  - cbn [vstep snd]. rewrite S2. reflexivity.
  - cbn [vstep snd]. rewrite S3. reflexivity.
  - cbn [vstep snd]. rewrite S4. reflexivity.
  - cbn [vstep snd]. rewrite S3, S4. reflexivity.
  - cbn [vstep]. rewrite (vstep_size_val a (fun _ n => of_nat n) Ka), (vstep_size_val b (fun _ n => of_nat n) Kb), S3 by reflexivity.
    reflexivity.
  - cbn [vstep]. rewrite !vstep_stab_val, S3 by assumption. reflexivity.
  - cbn [vstep]. rewrite !with_ptab_val, S4 by assumption. reflexivity.
  - cbn [vstep].
    rewrite (vstep_stab_val a (fun s => match nth_error s p with Some r => of_nat (length r) | None => err eIndex end) Ka).
    rewrite (vstep_stab_val b (fun s => match nth_error s p with Some r => of_nat (length r) | None => err eIndex end) Kb).
    rewrite S3. reflexivity.
  - cbn [vstep].
    rewrite (vstep_stab_val a (fun s => of_res VStr (nth2r s l)) Ka), (vstep_stab_val b (fun s => of_res VStr (nth2r s l)) Kb), S3.
    reflexivity.
  - cbn [vstep]. destruct ((a0 <? 0)%Z || (b0 <? 0)%Z); [reflexivity|].
    rewrite !with_ptab_val, S4 by assumption. reflexivity.
  - cbn [vstep].
    rewrite (vstep_li_val a (fun r => match r with Ok le => of_res of_nat (nth2r (fst le) l) | Err e => err e end) Ka).
    rewrite (vstep_li_val b (fun r => match r with Ok le => of_res of_nat (nth2r (fst le) l) | Err e => err e end) Kb).
    rewrite S4. reflexivity.
  - cbn [vstep].
    rewrite (vstep_ext_val a (fun r => match r with Ok xe => of_locs (fst xe) | Err e => err e end) Ka).
    rewrite (vstep_ext_val b (fun r => match r with Ok xe => of_locs (fst xe) | Err e => err e end) Kb).
    rewrite S4. reflexivity.
  - rewrite !vstep_enc_val, S4 by assumption. reflexivity.
  - rewrite !vstep_conn_val, S4 by assumption. reflexivity.
  - cbn [vstep].
    rewrite (vstep_size_val a (fun o1 n => of_res of_ckeys (cobj_rotate o1 n)) Ka)
      by (intros x y n E1 E2; rewrite (cobj_rotate_core x y n E1 E2); reflexivity).
    rewrite (vstep_size_val b (fun o1 n => of_res of_ckeys (cobj_rotate o1 n)) Kb)
      by (intros x y n E1 E2; rewrite (cobj_rotate_core x y n E1 E2); reflexivity).
    rewrite (cobj_rotate_core a b _ S3 S4), S3. reflexivity.
  - cbn [vstep].
    match goal with |- snd (let '(o1, n) := size a in (o1, match cobj_rotate o1 n with Err e => _ | Ok l => ?g l [] end)) = _ =>
      rewrite (vstep_size_val a (fun o1 n => match cobj_rotate o1 n with Err e => err e | Ok l => g l [] end) Ka)
        by (intros x y n E1 E2; rewrite (cobj_rotate_core x y n E1 E2); reflexivity);
      rewrite (vstep_size_val b (fun o1 n => match cobj_rotate o1 n with Err e => err e | Ok l => g l [] end) Kb)
        by (intros x y n E1 E2; rewrite (cobj_rotate_core x y n E1 E2); reflexivity)
    end.
    rewrite (cobj_rotate_core a b _ S3 S4), S3. reflexivity.
  - cbn [vstep snd]. rewrite S1. reflexivity.
Qed.

Theorem views_describe_current_rotation o op : ViewOK o ->
  snd (vstep o op) = snd (vstep (new_obj (o_canon o) (o_turns o) (o_seq o) (o_struct o)) op).
Proof.
  intros V. apply vstep_obs_core; [exact V|exact (ViewOK_fresh o V)|].
  apply same_core_sym, (same_core_fresh o).
Qed.

(* ---- histories: vrun lists the observations made along vstate ---- *)
Lemma vrun_app o : forall pre op,
  vrun o (pre ++ [op]) = vrun o pre ++ [snd (vstep (vstate o pre) op)].
Proof.
  intros pre. revert o. induction pre as [|p r IH]; intros o op; cbn [app vrun vstate].
  - destruct (vstep o op); reflexivity.
  - destruct (vstep o p) as [o1 v] eqn:E. cbn [fst app]. rewrite IH. reflexivity.
Qed.

(* after any history, any further observation is the one a freshly built object
   at the current rotation gives *)
Theorem history_views_current o pre op : ViewOK o ->
  let o' := vstate o pre in
  snd (vstep o' op) = snd (vstep (new_obj (o_canon o') (o_turns o') (o_seq o') (o_struct o')) op).
Proof. intros V. apply views_describe_current_rotation, viewok_run, V. Qed.

(* identity and canonical form never change; the representation is always the
   turns-th rotation of the canonical form *)
Theorem history_canon_fixed ops : forall o, ViewOK o -> o_canon (vstate o ops) = o_canon o.
Proof.
  induction ops as [|op r IH]; intros o V; [reflexivity|]. cbn [vstate].
  rewrite IH by (apply viewok_preserved, V).
  destruct op as [v| | | | | | | | | | | | | | | | |];
    try (pose proof V as (_ & _ & _ & _ & K);
         match goal with |- o_canon (fst (vstep o ?op)) = _ =>
           destruct (vstep_query_core o op K I) as [_ (S1 & _)]; exact S1 end).
  cbn [vstep]. destruct (set_turns_spec o v V) as (o' & -> & _ & A & _). exact A.
Qed.

(* ---- the values of the views, spelt out ---- *)
Lemma cobj_rotate_all o : ViewOK o ->
  cobj_rotate o (nstr (o_struct o)) = Ok (rotations (rep o)).
Proof.
  intros (GN & _). pose proof GN as [G _]. unfold nstr at 1.
  rewrite cobj_rotate_spec by exact G. reflexivity.
Qed.

Theorem view_values o : ViewOK o ->
  let sq := o_seq o in let st := o_struct o in
  let stab := make_strand_table_list sPlus sq in
  (sq, st) = Nat.iter (Z.to_nat (o_turns o)) rotT (o_canon o) /\
  snd (vstep o VSize) = of_nat (nstr st) /\
  snd (vstep o VStab) = of_stab stab /\
  snd (vstep o VPtab) = of_tab (tabT st) /\
  make_pair_table cP [cD] st = Ok (tabT st) /\
  (forall p, snd (vstep o (VStrandLen p))
             = match nth_error stab p with Some r => of_nat (length r) | None => err eIndex end) /\
  (forall l, snd (vstep o (VDomain l)) = of_res VStr (nth2r stab l)) /\
  (forall a b, snd (vstep o (VPaired a b))
               = if (a <? 0)%Z || (b <? 0)%Z then err eIndex
                 else of_res (of_opt of_loc) (nth2r (tabT st) (Z.to_nat a, Z.to_nat b))) /\
  (forall l, snd (vstep o (VLoop l))
             = match loop_index_of st with Ok le => of_res of_nat (nth2r (fst le) l) | Err e => err e end) /\
  snd (vstep o VExt) = match ext_enc st with Ok xe => of_locs (fst xe) | Err e => err e end /\
  snd (vstep o VEnc) = match ext_enc st with Ok xe => of_locs (snd xe) | Err e => err e end /\
  snd (vstep o VConnected) = conn_val (loop_index_of st) /\
  snd (vstep o VRotate) = of_ckeys (rotations (sq, st)).
Proof.
  intros V sq st stab. pose proof V as (GN & _ & T2 & _ & K). pose proof GN as [[_ W] _]. cbn [rep snd] in W.
  pose proof (tabT_ok _ W) as PT. fold st in PT.
  split; [symmetry; exact T2|].
  split. { cbn [vstep]. rewrite (vstep_size_val o (fun _ n => of_nat n) K) by reflexivity.
           pose proof (n_strands_nstr (rep o) GN) as NS. cbn [rep fst snd] in NS. rewrite NS. reflexivity. }
  split. { cbn [vstep]. rewrite vstep_stab_val by exact K. reflexivity. }
  split. { cbn [vstep]. rewrite with_ptab_val by exact K. fold st. rewrite PT. reflexivity. }
  split; [exact PT|].
  split. { intros p. cbn [vstep].
           apply (vstep_stab_val o (fun s => match nth_error s p with Some r => of_nat (length r) | None => err eIndex end) K). }
  split. { intros l. cbn [vstep]. apply (vstep_stab_val o (fun s => of_res VStr (nth2r s l)) K). }
  split. { intros a b. cbn [vstep]. destruct ((a <? 0)%Z || (b <? 0)%Z); [reflexivity|].
           rewrite with_ptab_val by exact K. fold st. rewrite PT. reflexivity. }
  split. { intros l. cbn [vstep].
           apply (vstep_li_val o (fun r => match r with Ok le => of_res of_nat (nth2r (fst le) l) | Err e => err e end) K). }
  split. { cbn [vstep].
           apply (vstep_ext_val o (fun r => match r with Ok xe => of_locs (fst xe) | Err e => err e end) K). }
  split; [apply (vstep_enc_val o K)|]. split; [apply (vstep_conn_val o K)|].
  cbn [vstep]. rewrite (vstep_size_val o (fun o1 n => of_res of_ckeys (cobj_rotate o1 n)) K)
    by (intros x y n E1 E2; rewrite (cobj_rotate_core x y n E1 E2); reflexivity).
  pose proof (n_strands_nstr (rep o) GN) as NS. cbn [rep fst snd] in NS. rewrite NS.
  rewrite cobj_rotate_all by exact V. reflexivity.
Qed.

(* ---- non-vacuity: "g h + a b + c d e f", "(.+)(+()).": two rotations away from its canonical form ---- *)
Example ex_views :
  let sq := [[103%N]; [104%N]; sPlus; [97%N]; [98%N]; sPlus; [99%N]; [100%N]; [101%N]; [102%N]] in
  let st := [cO; cD; cP; cC; cO; cP; cO; cC; cC; cD] in
  goodNE (sq, st) /\
  exists canon turns rots,
    identifiers_fresh sq st = Ok (canon, turns, rots) /\ turns = 2%Z /\
    let o := new_obj canon turns sq st in
    ViewOK o /\
    (exists t1 t2, vrun o [VPtab; VSetTurns 1; VPtab; VTurns; VSize] = [t1; VNone; t2; VInt 1; VInt 3] /\ t1 <> t2) /\
    (* any integer is accepted: -5 = 1 (mod 3) *)
    o_turns (vstate o [VPtab; VExt; VSetTurns (-5)]) = 1%Z /\
    rep (vstate o [VPtab; VExt; VSetTurns (-5)]) = rep (vstate o [VSetTurns 1]) /\
    c_ptab (vstate o [VPtab; VExt]) <> None /\ c_ptab (vstate o [VPtab; VExt; VSetTurns (-5)]) = None.
Proof.
  cbn zeta.
  assert (GN : goodNE ([[103%N]; [104%N]; sPlus; [97%N]; [98%N]; sPlus; [99%N]; [100%N]; [101%N]; [102%N]],
                       [cO; cD; cP; cC; cO; cP; cO; cC; cC; cD])).
  { split; [split; reflexivity|]. unfold NE. cbn. repeat constructor; discriminate. }
  split; [exact GN|].
  do 3 eexists. split; [vm_compute; reflexivity|]. split; [reflexivity|].
  split.
  { eapply viewok_after_construction; [exact GN|]. vm_compute. reflexivity. }
  split.
  { do 2 eexists. split; [vm_compute; reflexivity|]. discriminate. }
  split; [vm_compute; reflexivity|]. split; [vm_compute; reflexivity|].
  split; [vm_compute; discriminate|vm_compute; reflexivity].
Qed.
