(* C03: the views of a complex always describe its current rotation.
   Invariant ViewOK over the object state machine of Model/Canon.v + Model/Views.v. *)
From Coq Require Import List Arith ZArith Lia Bool NArith.
From DSD Require Import Base.Str Base.Errors Base.Val Model.ComplexUtils Model.Rotation Model.Compare Model.Canon
  Model.Loops Model.DispatchCU Model.Views
  Proofs.RotTree Proofs.RotOnce Proofs.RotOrbit Proofs.RotStrands Proofs.RotGen Proofs.C02.
Import ListNotations.

Definition rep (o : cobj) : cplx := (o_seq o, o_struct o).

(* every populated cache holds the function of the CURRENT representation it caches *)
Definition cache_ok (o : cobj) : Prop :=
  (forall s, c_stab o = Some s -> s = make_strand_table_list sPlus (o_seq o)) /\
  (forall t, c_ptab o = Some t -> make_pair_table cP [cD] (o_struct o) = Ok t) /\
  (forall le, c_li o = Some le -> loop_index_of (o_struct o) = Ok le) /\
  (forall xe, c_ext o = Some xe -> ext_enc (o_struct o) = Ok xe) /\
  (* the exterior scan reads self._pair_table directly: it is populated whenever the loop index is *)
  (forall le, c_li o = Some le -> exists t, c_ptab o = Some t).

Definition ViewOK (o : cobj) : Prop :=
  goodNE (rep o) /\
  (0 <= o_turns o < Z.of_nat (nstr (o_struct o)))%Z /\
  Nat.iter (Z.to_nat (o_turns o)) rotT (o_canon o) = rep o /\
  good (o_canon o) /\
  cache_ok o.

Definition same_core (a b : cobj) : Prop :=
  o_canon a = o_canon b /\ o_turns a = o_turns b /\ o_seq a = o_seq b /\ o_struct a = o_struct b.

(* the freshly built object at the same rotation *)
Definition fresh (o : cobj) : cobj := new_obj (o_canon o) (o_turns o) (o_seq o) (o_struct o).

Lemma same_core_refl o : same_core o o.
Proof. repeat split. Qed.

Lemma same_core_sym a b : same_core a b -> same_core b a.
Proof. intros (A & B & C & D). repeat split; congruence. Qed.

Lemma same_core_trans a b c : same_core a b -> same_core b c -> same_core a c.
Proof. intros (A & B & C & D) (A' & B' & C' & D'). repeat split; congruence. Qed.

Lemma same_core_fresh o : same_core (fresh o) o.
Proof. repeat split. Qed.

Lemma cache_ok_none cn t s st : cache_ok (mkc cn t s st None None None None).
Proof. repeat split; cbn; intros; discriminate. Qed.

Lemma cache_ok_fresh o : cache_ok (fresh o).
Proof. apply cache_ok_none. Qed.

Lemma ViewOK_same_core a b : same_core a b -> cache_ok a -> ViewOK b -> ViewOK a.
Proof.
  intros (A & B & C & D) K (V1 & V2 & V3 & V4 & _). unfold ViewOK, rep in *.
  rewrite A, B, C, D. auto.
Qed.

Lemma ViewOK_fresh o : ViewOK o -> ViewOK (fresh o).
Proof. apply ViewOK_same_core; [apply same_core_fresh|apply cache_ok_fresh]. Qed.

(* ---- the getters return the function of the current representation ---- *)
Lemma get_stab_spec o : cache_ok o ->
  snd (get_stab o) = make_strand_table_list sPlus (o_seq o) /\
  cache_ok (fst (get_stab o)) /\ same_core (fst (get_stab o)) o /\
  c_ptab (fst (get_stab o)) = c_ptab o /\ c_li (fst (get_stab o)) = c_li o /\ c_ext (fst (get_stab o)) = c_ext o.
Proof.
  destruct o as [cn tu sq st cs cp cl ce]. unfold cache_ok, get_stab, same_core. cbn [o_canon o_turns o_seq o_struct c_stab c_ptab c_li c_ext].
  intros (C1 & C2 & C3 & C4 & C5).
  destruct cs as [[|x s]|]; cbn [truthy fst snd o_canon o_turns o_seq o_struct c_stab c_ptab c_li c_ext].
  - repeat split; auto. intros s H; injection H as <-. reflexivity.
  - repeat split; auto.
  - repeat split; auto. intros s H; injection H as <-. reflexivity.
Qed.
