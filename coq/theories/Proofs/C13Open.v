(* C13: a kernel complex whose pattern contains an opening bracket attached to a name that is never
   closed (`X = a( b`, `X = a b( c( d`, ...) is refused: the loop alternative fails at the missing ')',
   the name is then read as a plain domain, the pattern stops in front of '(' and nothing in the
   statement accepts '(' there. *)
From Coq Require Import List NArith Bool Arith Lia.
From DSD Require Import Base.Str Base.Errors Base.Val Model.Peg Model.DispatchPeg Proofs.PegMono Proofs.PegRules Proofs.PegStd
  Proofs.PegDoc Proofs.PegKw Proofs.PegTabs Proofs.C13Doc Proofs.PilLex Proofs.C13Kc Proofs.C13Kc2.
From DSDGen Require Import PilGrammar.
Import ListNotations.

(* ---------------------------------------------------------------- blanks, line ends and comments only *)
Inductive wsc : pstr -> Prop :=
| wsc_nil : wsc []
| wsc_ws c z : memc c pil_cs6 = true -> wsc z -> wsc (c :: z)
| wsc_cm_eof cm : no_nl cm -> wsc (HASH :: cm)
| wsc_cm cm z : no_nl cm -> wsc z -> wsc (HASH :: cm ++ NL :: z).

Lemma wsc_blanks b z : blanks WS b -> wsc z -> wsc (b ++ z).
Proof.
  intros Hb Hz. induction b as [|c b IH]; [exact Hz|]. unfold blanks in Hb. cbn in Hb. apply andb_prop in Hb as [Hc Hb].
  cbn [app]. constructor; [exact (memc_forallb WS (fun w => memc w pil_cs6) c ws_white Hc)|exact (IH Hb)].
Qed.
Lemma wsc_blank_line l z : pil_blank_line l -> wsc z -> wsc (l ++ z).
Proof.
  intros Hl Hz. destruct (blank_line_inv pil_nodes pil_c pil_ws pil_comment_ok l Hl) as (b & Hb & [->|(cm & -> & Hcm)]).
  - rewrite <- app_assoc. apply wsc_blanks; [exact Hb|]. cbn. constructor; [reflexivity|exact Hz].
  - rewrite <- app_assoc. apply wsc_blanks; [exact Hb|]. cbn [app]. rewrite <- app_assoc. cbn [app]. apply wsc_cm; assumption.
Qed.
Lemma stmt_end_wsc E : stmt_end E [] -> wsc E.
Proof.
  intros [(l & ls & -> & Hl & Hls & _)|(_ & HE)].
  - apply wsc_blank_line; [exact Hl|]. induction Hls as [|x r Hx Hr IH]; [constructor|]. cbn. apply wsc_blank_line; assumption.
  - destruct (final_line_inv pil_nodes pil_c pil_ws pil_comment_ok E HE) as (b & Hb & [->|(cm & -> & Hcm)]).
    + rewrite <- (app_nil_r b). apply wsc_blanks; [exact Hb|constructor].
    + apply wsc_blanks; [exact Hb|]. apply wsc_cm_eof. exact Hcm.
Qed.

Lemma wsc_cons_inv d r : wsc (d :: r) ->
  (memc d pil_cs6 = true /\ wsc r) \/ (d = HASH /\ (no_nl r \/ exists cm z, r = cm ++ NL :: z /\ no_nl cm /\ wsc z)).
Proof. inversion 1; subst; [left; auto|right; auto|right; split; [reflexivity|right; eauto]]. Qed.
Lemma hash_not_white : memc HASH pil_cs6 = false. Proof. reflexivity. Qed.
Lemma white_not_ws d : memc d pil_cs6 = true -> memc d WS = false -> d = NL.
Proof.
  intros H1 H2. assert (H : (memc d WS || N.eqb d NL) = true).
  { revert H1. apply (memc_forallb pil_cs6 (fun d => memc d WS || N.eqb d NL)). reflexivity. }
  rewrite H2 in H. apply N.eqb_eq in H. exact H.
Qed.
Lemma wsc_skip_ws z : wsc z -> wsc (skip_ws WS z).
Proof.
  induction 1 as [|c z Hc Hz IH|cm Hcm|cm z Hcm Hz IH]; cbn [skip_ws].
  - constructor.
  - destruct (memc c WS); [exact IH|constructor; assumption].
  - change (memc HASH WS) with false. cbv iota. apply wsc_cm_eof. exact Hcm.
  - change (memc HASH WS) with false. cbv iota. apply wsc_cm; assumption.
Qed.
(* after preParse: the end of the input or a line end *)
Lemma wsc_spre z : wsc z -> spre z = [] \/ exists z', spre z = NL :: z' /\ wsc z'.
Proof.
  intros Hz. unfold std_pre, std_skip_ign. pose proof (wsc_skip_ws z Hz) as H1. pose proof (skip_ws_head WS z) as Hh.
  destruct (skip_ws WS z) as [|d r] eqn:E.
  - left. exact E.
  - cbn in Hh. apply wsc_cons_inv in H1 as [[Hc Hz0]|[-> [Hcm|(cm & z0 & -> & Hcm & Hz0)]]].
    + pose proof (white_not_ws d Hc Hh) as ->. cbn [N.eqb NL HASH Pos.eqb]. rewrite E. right. exists r. split; [reflexivity|exact Hz0].
    + rewrite N.eqb_refl. rewrite (upto_nl_all r Hcm). left. reflexivity.
    + rewrite N.eqb_refl. rewrite (upto_nl_app cm z0 Hcm). cbn [snd]. right. exists z0. split; [|exact Hz0].
      apply skip_ws_stop. reflexivity.
Qed.
Lemma wsc_nohead cs z : wsc z -> memc NL cs = false -> nohead cs (spre z).
Proof. intros Hz Hc. destruct (wsc_spre z Hz) as [->|(z' & -> & _)]; [exact I|exact Hc]. Qed.
Lemma wsc_pat_stop z : wsc z -> pat_stop z.
Proof. intros Hz. unfold pat_stop. apply wsc_nohead; [exact Hz|reflexivity]. Qed.

Lemma wsc_span z : wsc z -> wsc (snd (span pil_cs6 None z)).
Proof.
  induction 1 as [|c z Hc Hz IH|cm Hcm|cm z Hcm Hz IH]; cbn [span].
  - constructor.
  - rewrite Hc. cbn [option_map]. destruct (span pil_cs6 None z). cbn in *. exact IH.
  - rewrite hash_not_white. cbn. apply wsc_cm_eof. exact Hcm.
  - rewrite hash_not_white. cbn. apply wsc_cm; assumption.
Qed.

(* Suppress(White()) on such a text: fails, or skips to another such text *)
Definition white_res (z : pstr) : pres :=
  match std_skip_ign WS z with
  | [] => PFail
  | c :: rest => if memc c pil_cs6 then POk (At (snd (span pil_cs6 None rest))) [] else PFail
  end.
Lemma ev_white_wsc full z : wsc z -> evals G full 226 true (At z) (white_res z).
Proof.
  intros Hz.
  assert (Hw0 : wsc (std_skip_ign WS z) /\ match std_skip_ign WS z with [] => True | d :: _ => memc d pil_cs5 = false end).
  { unfold std_skip_ign. pose proof (wsc_skip_ws z Hz) as H1. destruct (skip_ws WS z) as [|d r] eqn:E.
    - split; [exact Hz|]. destruct Hz; try exact I; [|reflexivity|reflexivity].
      apply negb_true_iff. revert H. apply (memc_forallb pil_cs6 (fun d => negb (memc d pil_cs5))). reflexivity.
    - destruct (N.eqb d HASH) eqn:Ed.
      + apply N.eqb_eq in Ed. subst d. apply wsc_cons_inv in H1 as [[Hc _]|[_ [Hcm|(cm & z0 & -> & Hcm & Hz0)]]].
        * discriminate Hc.
        * rewrite (upto_nl_all r Hcm). split; [constructor|exact I].
        * rewrite (upto_nl_app cm z0 Hcm). cbn [snd]. split; [constructor; [reflexivity|exact Hz0]|reflexivity].
      + split; [exact Hz|]. destruct Hz as [|c z Hc Hz|cm Hcm|cm z Hcm Hz]; try exact I.
        * apply negb_true_iff. revert Hc. apply (memc_forallb pil_cs6 (fun d => negb (memc d pil_cs5))). reflexivity.
        * cbn in E. injection E as <- _. discriminate Ed.
        * cbn in E. injection E as <- _. discriminate Ed. }
  destruct Hw0 as [Hw0 Hh].
  assert (Hpre : pre_fn pil_c WS (mkNode KSuppress [227] true pil_cs5 [pil_c] true []) z = Some (std_skip_ign WS z)).
  { unfold pre_fn. cbn [nign nskip nws]. rewrite Nat.eqb_refl. f_equal.
    destruct (std_skip_ign WS z) as [|d r]; [reflexivity|]. apply skip_ws_stop. exact Hh. }
  eapply evals_eq.
  - eapply evals_node; [lk|cbn; apply (pre_to_fn G full pil_c WS pil_comment_ok); exact Hpre|].
    eapply impls_wrap; [reflexivity|reflexivity|].
    eapply evals_node; [lk|cbn; reflexivity|]. apply impls_leaf. cbv [leaf_impl nkind]. reflexivity.
  - unfold white_res. destruct (std_skip_ign WS z) as [|c rest]; [reflexivity|].
    unfold run_token. destruct (memc c pil_cs6); [|reflexivity].
    destruct (span pil_cs6 None rest) as [a b]. cbn. reflexivity.
Qed.
Lemma white_res_cases z : wsc z -> white_res z = PFail \/ exists q, white_res z = POk (At q) [] /\ wsc q.
Proof.
  intros Hz. unfold white_res.
  assert (Hw0 : wsc (std_skip_ign WS z)).
  { unfold std_skip_ign. pose proof (wsc_skip_ws z Hz) as H1. destruct (skip_ws WS z) as [|d r] eqn:E; [exact Hz|].
    destruct (N.eqb d HASH) eqn:Ed; [|exact Hz]. apply N.eqb_eq in Ed. subst d.
    apply wsc_cons_inv in H1 as [[Hc _]|[_ [Hcm|(cm & z0 & -> & Hcm & Hz0)]]].
    - discriminate Hc.
    - rewrite (upto_nl_all r Hcm). constructor.
    - rewrite (upto_nl_app cm z0 Hcm). cbn [snd]. constructor; [reflexivity|exact Hz0]. }
  destruct (std_skip_ign WS z) as [|c rest]; [left; reflexivity|]. destruct (memc c pil_cs6) eqn:Ec; [|left; reflexivity].
  right. eexists. split; [reflexivity|]. apply wsc_span.
  apply wsc_cons_inv in Hw0 as [[_ Hr]|[-> _]]; [exact Hr|discriminate Ec].
Qed.

(* the closing bracket is not there *)
Lemma ev_close_fail full q : nohead [RPAR] (spre q) -> evals G full 228 true (At q) PFail.
Proof.
  intros H. eapply evals_eq; [apply (evals_slit G full pil_c WS pil_comment_ok 228 229 true true true); lk|].
  cbn [andb]. unfold lit_res. rw_alias (starts_with_nohead RPAR [] _ H). reflexivity.
Qed.

(* ---------------------------------------------------------------- the text after an unclosed `name(` *)
(* items, then the end of the statement, or items and another unclosed `name(` *)
Inductive dangling : pstr -> Prop :=
| dg_end l E : items_wf l E -> stmt_end E [] -> dangling (items_text l E)
| dg_open l b n0 ns c s Y :
    items_wf l (b ++ sense_text n0 ns c s ++ LPAR :: Y) -> blanks WS b -> memc n0 idch = true -> all_in idch ns ->
    dangling Y -> dangling (items_text l (b ++ sense_text n0 ns c s ++ LPAR :: Y)).

Lemma lpar_stop Y : spre (LPAR :: Y) = LPAR :: Y.
Proof. apply spre_stop. reflexivity. Qed.

(* the name in front of '(' read as a plain domain *)
Lemma ev_sense_lpar full x n0 ns c s Y :
  spre x = sense_text n0 ns c s ++ LPAR :: Y -> memc n0 idch = true -> all_in idch ns ->
  evals G full 231 true (At x) (POk (At (LPAR :: Y)) [TStr (sense_text n0 ns c s)]).
Proof.
  intros Hx H0 Hns. eapply evals_eq.
  - eapply evals_node_ok; [lk|apply (pre_premise G full pil_c WS pil_comment_ok); repeat split|].
    unfold pre_pos. cbn [andb ncallpre]. rewrite Hx.
    eapply impls_wrap; [reflexivity|reflexivity|].
    apply (ev_sense_seq full 232 233 234 235 236 237 n0 ns c s (LPAR :: Y)); try lk; try assumption; reflexivity.
  - cbn [finish post add_tags fold_left nkind ntags]. rewrite join_sense. reflexivity.
Qed.
(* an item: the loop alternative fails, '+' fails, the name matches *)
Lemma ev_item_open full x n0 ns c s Y :
  spre x = sense_text n0 ns c s ++ LPAR :: Y -> memc n0 idch = true -> all_in idch ns ->
  evals G full 211 true (At x) PFail ->
  evals G full 210 true (At x) (POk (At (LPAR :: Y)) [TStr (sense_text n0 ns c s)]).
Proof.
  intros Hx H0 Hns Hfail. eapply evals_eq.
  - eapply evals_node_ok; [lk|cbn; reflexivity|]. apply impls_first; [reflexivity|]. cbn [nkids].
    eapply firsts_miss; [exact Hfail|].
    eapply firsts_miss.
    { eapply evals_eq; [apply (evals_lit G full pil_c WS pil_comment_ok 230 true true); lk|].
      cbn [andb]. rewrite Hx. unfold lit_res, sense_text. cbn [app starts_with].
      destruct (N.eqb_spec PLUS n0) as [e|]; [rewrite <- e in H0; discriminate|reflexivity]. }
    apply firsts_hit. apply (ev_sense_lpar full x n0 ns c s Y Hx H0 Hns).
  - reflexivity.
Qed.
Lemma ev_item_at_lpar full x Y : spre x = LPAR :: Y -> evals G full 210 true (At x) PFail.
Proof. intros Hx. apply ev_item_stop; rewrite Hx; reflexivity. Qed.

Section Open.
  Variable full : pstr.
  Variables (b : pstr) (n0 : chr) (ns : pstr) (c s : bool) (Y : pstr).
  Hypothesis Hb : blanks WS b.
  Hypothesis H0 : memc n0 idch = true.
  Hypothesis Hns : all_in idch ns.
  Hypothesis Hfail : forall x, spre x = sense_text n0 ns c s ++ LPAR :: Y -> evals G full 211 true (At x) PFail.
  Notation Z := (b ++ sense_text n0 ns c s ++ LPAR :: Y).
  Notation SN := (sense_text n0 ns c s).

  Lemma spre_Z : spre Z = SN ++ LPAR :: Y.
  Proof. unfold sense_text. cbn [app]. apply spre_blanks_stop; [exact Hb|apply idch_stop; exact H0]. Qed.

  Lemma loops_items_open l : forall acc, items_wf l Z ->
    loops G full [pil_c] 210 (At (items_text l Z)) acc (POk (At (LPAR :: Y)) (acc ++ items_toks l ++ [TStr SN])).
  Proof.
    induction l as [|i l IH]; intros acc Hwf.
    - cbn [items_text fold_right items_toks flat_map app].
      eapply loops_step; [apply (skips_std G full pil_c WS pil_comment_ok)| |].
      + apply (ev_item_open full _ n0 ns c s Y); [rewrite spre_skip_ign; exact spre_Z|exact H0|exact Hns|].
        apply Hfail. rewrite spre_skip_ign. exact spre_Z.
      + eapply loops_stop; [apply (skips_std G full pil_c WS pil_comment_ok)|].
        apply (ev_item_at_lpar full _ Y). rewrite spre_skip_ign. apply lpar_stop.
    - destruct Hwf as (Hi & Hl). cbn [items_text fold_right items_toks flat_map].
      fold (items_text l Z). fold (items_toks l).
      eapply loops_step; [apply (skips_std G full pil_c WS pil_comment_ok)| |].
      + apply (item_parses_any i full (items_text l Z)); [exact Hi|].
        rewrite spre_skip_ign. apply spre_item_text. exact Hi.
      + replace (acc ++ (item_toks i ++ items_toks l) ++ [TStr SN]) with ((acc ++ item_toks i) ++ items_toks l ++ [TStr SN])
          by (rewrite <- !app_assoc; reflexivity).
        apply IH. exact Hl.
  Qed.

  (* OneOrMore [item] on items l followed by the open name: stops in front of '(' *)
  Lemma ev_many_open cp l y : items_wf l Z -> spre y = spre (items_text l Z) ->
    evals G full 209 cp (At y) (POk (At (LPAR :: Y)) (items_toks l ++ [TStr SN])).
  Proof.
    intros Hwf Hy. destruct l as [|i l].
    - cbn [items_text fold_right items_toks flat_map app] in *. rewrite spre_Z in Hy.
      eapply evals_eq.
      + eapply evals_node_ok; [lk|rewrite andb_false_r; reflexivity|].
        eapply impls_many; [reflexivity|reflexivity| |].
        * apply (ev_item_open full y n0 ns c s Y Hy H0 Hns). apply Hfail. exact Hy.
        * cbn [nign]. eapply loops_stop; [apply (skips_std G full pil_c WS pil_comment_ok)|].
          apply (ev_item_at_lpar full _ Y). rewrite spre_skip_ign. apply lpar_stop.
      + reflexivity.
    - destruct Hwf as (Hi & Hl). cbn [items_text fold_right] in Hy. fold (items_text l Z) in Hy.
      rewrite (spre_item_text i _ Hi) in Hy.
      eapply evals_eq.
      + eapply evals_node_ok; [lk|rewrite andb_false_r; reflexivity|].
        eapply impls_many; [reflexivity|reflexivity| |].
        * apply (item_parses_any i full (items_text l Z) y Hi Hy).
        * cbn [nign]. apply (loops_items_open l _ Hl).
      + cbn [items_toks flat_map]. fold (items_toks l). rewrite <- app_assoc. reflexivity.
  Qed.
  (* the Forward above it *)
  Lemma ev_forward_open cp l : items_wf l Z ->
    evals G full 208 cp (At (if cp then items_text l Z else spre (items_text l Z)))
      (POk (At (LPAR :: Y)) (items_toks l ++ [TStr SN])).
  Proof.
    intros Hwf. eapply evals_eq.
    - eapply evals_node_ok; [lk|apply (pre_premise G full pil_c WS pil_comment_ok); repeat split|].
      unfold pre_pos. cbn [ncallpre]. rewrite andb_true_r.
      replace (if cp then spre (if cp then items_text l Z else spre (items_text l Z)) else if cp then items_text l Z else spre (items_text l Z))
        with (spre (items_text l Z)) by (destruct cp; reflexivity).
      eapply impls_wrap; [reflexivity|reflexivity|].
      apply (ev_many_open false l _ Hwf). apply spre_idem.
    - reflexivity.
  Qed.
End Open.

(* Group [Opt [pattern | White]] given what the pattern alternative does *)
Lemma ev_223_pattern full X q t : evals G full 208 true (At X) (POk (At q) t) ->
  evals G full 223 true (At X) (POk (At q) [TList t]).
Proof.
  intros H. eapply evals_eq.
  - eapply evals_node_ok; [lk|cbn; reflexivity|].
    eapply impls_wrap; [reflexivity|reflexivity|].
    eapply evals_node_ok; [lk|cbn; reflexivity|].
    eapply impls_opt_some; [reflexivity|reflexivity|].
    eapply evals_node_ok; [lk|cbn; reflexivity|]. apply impls_first; [reflexivity|]. cbn [nkids].
    apply firsts_hit. exact H.
  - reflexivity.
Qed.
Lemma ev_223_wsc full E : wsc E -> exists q, wsc q /\ evals G full 223 true (At E) (POk (At q) [TList []]).
Proof.
  intros HE.
  assert (Hpat : evals G full 208 true (At E) PFail).
  { apply (ev_pattern_stop full true E); apply wsc_nohead; try exact HE; reflexivity. }
  pose proof (ev_white_wsc full E HE) as Hwh.
  destruct (white_res_cases E HE) as [Hw|(q & Hw & Hq)]; rewrite Hw in Hwh.
  - exists E. split; [exact HE|]. eapply evals_eq.
    + eapply evals_node_ok; [lk|cbn; reflexivity|].
      eapply impls_wrap; [reflexivity|reflexivity|].
      eapply evals_node_ok; [lk|cbn; reflexivity|].
      eapply impls_opt_none; [reflexivity|reflexivity|].
      eapply evals_node_fail; [lk|cbn; reflexivity|]. apply impls_first; [reflexivity|]. cbn [nkids].
      eapply firsts_miss; [exact Hpat|]. eapply firsts_miss; [exact Hwh|]. apply firsts_nil.
    + reflexivity.
  - exists q. split; [exact Hq|]. eapply evals_eq.
    + eapply evals_node_ok; [lk|cbn; reflexivity|].
      eapply impls_wrap; [reflexivity|reflexivity|].
      eapply evals_node_ok; [lk|cbn; reflexivity|].
      eapply impls_opt_some; [reflexivity|reflexivity|].
      eapply evals_node_ok; [lk|cbn; reflexivity|]. apply impls_first; [reflexivity|]. cbn [nkids].
      eapply firsts_miss; [exact Hpat|]. apply firsts_hit. exact Hwh.
    + reflexivity.
Qed.

(* the loop alternative fails on `name( Y` when Y dangles *)
Theorem loop_fails Y : dangling Y -> forall full x n0 ns c s,
  spre x = sense_text n0 ns c s ++ LPAR :: Y -> memc n0 idch = true -> all_in idch ns ->
  evals G full 211 true (At x) PFail.
Proof.
  induction 1 as [l E Hwf HE|l b m0 ms mc mst Y' Hwf Hb Hm0 Hms HY IH]; intros full x n0 ns c s Hx H0 Hns.
  - (* items, then the end of the statement *)
    pose proof (stmt_end_wsc E HE) as Hw.
    assert (H223 : exists q t, nohead [RPAR] (spre q) /\ evals G full 223 true (At (items_text l E)) (POk (At q) t)).
    { destruct l as [|i l].
      - destruct (ev_223_wsc full E Hw) as (q & Hq & Hev). exists q, [TList []]. split; [|exact Hev].
        apply wsc_nohead; [exact Hq|reflexivity].
      - exists E, [TList (items_toks (i :: l))]. split; [apply wsc_nohead; [exact Hw|reflexivity]|].
        apply ev_223_pattern. apply (ev_forward_gen full i l E).
        + apply item_parses_any.
        + intros it _. apply item_parses_any.
        + exact Hwf.
        + exact (wsc_pat_stop E Hw). }
    destruct H223 as (q & t & Hq & H223).
    eapply evals_node_fail; [lk|apply (pre_premise G full pil_c WS pil_comment_ok); repeat split|].
    unfold pre_pos. cbn [andb ncallpre].
    eapply impls_and; [reflexivity|reflexivity|apply (ev_loop_head full x n0 ns c s _ Hx H0 Hns)|].
    eapply seqs_cons; [exact H223|]. apply seqs_fail. exact (ev_close_fail full q Hq).
  - (* items, then another unclosed name( *)
    pose proof (ev_forward_open full b m0 ms mc mst Y' Hb Hm0 Hms (fun x' Hx' => IH full x' m0 ms mc mst Hx' Hm0 Hms) true l Hwf) as H208.
    cbv iota in H208. apply ev_223_pattern in H208.
    eapply evals_node_fail; [lk|apply (pre_premise G full pil_c WS pil_comment_ok); repeat split|].
    unfold pre_pos. cbn [andb ncallpre].
    eapply impls_and; [reflexivity|reflexivity|apply (ev_loop_head full x n0 ns c s _ Hx H0 Hns)|].
    eapply seqs_cons; [exact H208|]. apply seqs_fail. apply ev_close_fail. rewrite lpar_stop. reflexivity.
Qed.

(* ---------------------------------------------------------------- the statement *)
Section Stmt.
  Variable full : pstr.
  Variables (s : kc_stmt) (b1 : pstr) (n0 : chr) (ns : pstr) (c st : bool) (Y : pstr).
  Notation SN := (sense_text n0 ns c st).
  Notation Z := (b1 ++ sense_text n0 ns c st ++ LPAR :: Y).
  Hypothesis Hs : kc_stmt_ok s Z.
  Hypothesis Hb1 : blanks WS b1.
  Hypothesis H0 : memc n0 idch = true.
  Hypothesis Hns : all_in idch ns.
  Hypothesis HY : dangling Y.

  Lemma kernel_alt_202_open b : blanks WS b -> evals G full 202 true (At (b ++ kc_text s Z)) PFail.
  Proof.
    intros Hb. destruct Hs as (H0s & Hnss & Hnk & Hb2 & Hwf). unfold kc_text.
    remember (items_text (kc_first s :: kc_more s) Z) as R eqn:ER.
    assert (Hx : spre (b ++ kc_n0 s :: kc_ns s ++ kc_b2 s ++ 61%N :: R) = (kc_n0 s :: kc_ns s) ++ kc_b2 s ++ 61%N :: R)
      by (apply spre_blanks_stop; [exact Hb|apply idch_stop; exact H0s]).
    assert (Hfol : nohead idch (kc_b2 s ++ 61%N :: R))
      by (apply nohead_blanks; [vm_compute; reflexivity|exact Hb2|reflexivity]).
    assert (Hfail : forall x, spre x = SN ++ LPAR :: Y -> evals G full 211 true (At x) PFail).
    { intros x Hxx. exact (loop_fails Y HY full x n0 ns c st Hxx H0 Hns). }
    eapply evals_node_fail; [lk|apply (pre_premise G full pil_c WS pil_comment_ok); repeat split|].
    unfold pre_pos. cbn [andb ncallpre]. rewrite Hx.
    eapply impls_wrap; [reflexivity|reflexivity|].
    eapply evals_node_fail; [lk|cbn; reflexivity|].
    eapply impls_and; [reflexivity|reflexivity| |].
    - apply (ev_ident full false _ (kc_n0 s) (kc_ns s) _ eq_refl H0s Hnss Hfol).
    - eapply seqs_cons.
      { eapply evals_eq; [apply (evals_slit G full pil_c WS pil_comment_ok 204 205 true true true); lk|].
        cbn [andb]. rewrite spre_blanks_stop by (try exact Hb2; reflexivity).
        unfold lit_res. cbn [starts_with]. rewrite N.eqb_refl. reflexivity. }
      eapply seqs_cons.
      { eapply evals_eq.
        - eapply evals_node_ok; [lk|apply (pre_premise G full pil_c WS pil_comment_ok); repeat split|].
          unfold pre_pos. cbn [andb ncallpre].
          eapply impls_many; [reflexivity|reflexivity| |].
          + eapply evals_node_ok; [lk|apply (pre_premise G full pil_c WS pil_comment_ok); repeat split|].
            unfold pre_pos. cbn [andb ncallpre]. rewrite spre_idem.
            eapply impls_wrap; [reflexivity|reflexivity|].
            eapply evals_node_ok; [lk|cbn; reflexivity|].
            eapply impls_wrap; [reflexivity|reflexivity|].
            apply (ev_many_open full b1 n0 ns c st Y Hb1 H0 Hns Hfail false (kc_first s :: kc_more s) (spre R) Hwf).
            rewrite spre_idem, ER. reflexivity.
          + cbn [nign]. eapply loops_stop; [apply (skips_std G full pil_c WS pil_comment_ok)|].
            eapply evals_node_fail; [lk|apply (pre_premise G full pil_c WS pil_comment_ok); repeat split|].
            unfold pre_pos. cbn [andb ncallpre]. rewrite spre_skip_ign.
            eapply impls_wrap; [reflexivity|reflexivity|].
            apply (ev_pattern_stop full false (LPAR :: Y)); rewrite lpar_stop; reflexivity.
        - reflexivity. }
      eapply seqs_cons; [apply (ev_noconc full (LPAR :: Y)); rewrite lpar_stop; reflexivity|].
      apply seqs_fail.
      assert (H260 : nth_error G 260 = Some (mkNode (KMany true) [261] true WS [pil_c] true [])) by lk.
      assert (H261 : nth_error G 261 = Some (mkNode KSuppress [262] true WS [pil_c] true [])) by lk.
      assert (H262 : exists cp, nth_error G 262 = Some (mkNode KLineEnd [] true WS [pil_c] cp [])) by (exists true; lk).
      apply (evals_eol_fail G pil_c 261 262 WS pil_comment_ok H261 H262 full 260 true _ LPAR Y H260 (lpar_stop Y)). reflexivity.
  Qed.

  Theorem unclosed_loop_refused b :
    blanks WS b -> is_prefix kw_state (kc_n0 s :: kc_ns s) = false -> is_prefix kw_macrostate (kc_n0 s :: kc_ns s) = false ->
    evals G full 8 true (At (b ++ kc_text s Z)) PFail.
  Proof.
    intros Hb Hst Hms. pose proof Hs as (H0s & Hnss & Hnk & Hb2 & Hwf).
    assert (Hx : spre (b ++ kc_text s Z) = kc_text s Z)
      by (unfold kc_text; apply spre_blanks_stop; [exact Hb|apply idch_stop; exact H0s]).
    assert (Hfol : nohead idch (kc_b2 s ++ 61%N :: items_text (kc_first s :: kc_more s) Z))
      by (apply nohead_blanks; [vm_compute; reflexivity|exact Hb2|reflexivity]).
    eapply evals_node_fail; [lk|cbn; reflexivity|]. apply impls_first; [reflexivity|]. cbn [nkids].
    apply (kernel_keyword_alts_fail s full b _ _ _ Hb Hs).
    eapply firsts_miss; [exact (kernel_alt_202_open b Hb)|].
    eapply firsts_miss.
    { eapply (evals_kw_alt_fail G full pil_c WS pil_comment_ok 263 264 265 266); [lk|lk|lk|lk|].
      rewrite Hx. unfold kc_text. rewrite app_comm_cons. apply starts_with_not_prefix; [exact Hst|reflexivity|exact Hfol]. }
    eapply firsts_miss; [|apply firsts_nil].
    eapply (evals_kw_alt_fail G full pil_c WS pil_comment_ok 283 284 285 286); [lk|lk|lk|lk|].
    rewrite Hx. unfold kc_text. rewrite app_comm_cons. apply starts_with_not_prefix; [exact Hms|reflexivity|exact Hfol].
  Qed.
End Stmt.

Theorem reject_unclosed_loop s b1 n0 ns c st Y pls b :
  dangling Y -> kc_stmt_ok s (b1 ++ sense_text n0 ns c st ++ LPAR :: Y) -> blanks WS b1 ->
  memc n0 idch = true -> all_in idch ns -> Forall pil_blank_line pls -> blanks WS b ->
  is_prefix kw_state (kc_n0 s :: kc_ns s) = false -> is_prefix kw_macrostate (kc_n0 s :: kc_ns s) = false ->
  no_tab (concat pls ++ b ++ kc_text s (b1 ++ sense_text n0 ns c st ++ LPAR :: Y)) ->
  exists f0, forall f, f0 <= f ->
    parse_pil_fuel f (concat pls ++ b ++ kc_text s (b1 ++ sense_text n0 ns c st ++ LPAR :: Y)) = err eParse.
Proof.
  intros HY Hs Hb1 H0 Hns Hp Hb Hst Hms Hnt. apply pil_document_reject; try assumption.
  - unfold kc_text. destruct Hs as (H0s & _). apply idch_stop in H0s. apply stopc_elim in H0s. exact H0s.
  - intros full b' Hb'. apply unclosed_loop_refused; assumption.
Qed.

(* the first opening bracket of the pattern itself: `X = a( ...` *)
Definition open_first_text (x0 : chr) (xs b2 b1 : pstr) (n0 : chr) (ns : pstr) (c st : bool) (Y : pstr) : pstr :=
  x0 :: xs ++ b2 ++ 61%N :: b1 ++ sense_text n0 ns c st ++ LPAR :: Y.

(* non-vacuity:  "X = a( b\n",  "X = a b( c( d\n",  "X = q a( b( c ) d\n" *)
Example unclosed_examples :
  let sX i := mkKc 88%N [] [32%N] i [] in
  let nm ch := ISense [32%N] ch [] false false in
  (* X = q a( b *)
  dangling (items_text [nm 98%N] [NL]) /\
  kc_stmt_ok (sX (nm 113%N)) ([32%N] ++ sense_text 97%N [] false false ++ LPAR :: items_text [nm 98%N] [NL]) /\
  parse_pil (kc_text (sX (nm 113%N)) ([32%N] ++ sense_text 97%N [] false false ++ LPAR :: items_text [nm 98%N] [NL])) = err eParse /\
  (* X = q a( b( c ) d   (the inner loop is closed, the outer one is not) *)
  dangling (items_text [ILoop [32%N] 98%N [] false false [nm 99%N] [32%N]; nm 100%N] [NL]) /\
  parse_pil (kc_text (sX (nm 113%N)) ([32%N] ++ sense_text 97%N [] false false ++ LPAR ::
               items_text [ILoop [32%N] 98%N [] false false [nm 99%N] [32%N]; nm 100%N] [NL])) = err eParse /\
  (* X = q a( b c( d   (two unclosed loops) *)
  dangling (items_text [nm 98%N] ([32%N] ++ sense_text 99%N [] false false ++ LPAR :: items_text [nm 100%N] [NL])) /\
  parse_pil (kc_text (sX (nm 113%N)) ([32%N] ++ sense_text 97%N [] false false ++ LPAR ::
               items_text [nm 98%N] ([32%N] ++ sense_text 99%N [] false false ++ LPAR :: items_text [nm 100%N] [NL]))) = err eParse /\
  (* directly after the '=':  X = a( b *)
  parse_pil [88; 32; 61; 32; 97; 40; 32; 98; 10]%N = err eParse.
Proof.
  assert (HE : stmt_end [NL] []).
  { change [NL] with (([] ++ [NL]) ++ concat []). apply pil_stmt_end_lines; [apply pil_blank_line_plain; reflexivity|constructor]. }
  cbn zeta. repeat split; try (vm_compute; reflexivity).
  - apply dg_end; [cbn; repeat split; reflexivity|exact HE].
  - apply dg_end; [|exact HE]. cbn [items_wf]. split; [apply item_wf_loop; cbn; repeat split; reflexivity|cbn; repeat split; reflexivity].
  - apply dg_open; try reflexivity; [cbn; repeat split; reflexivity|]. apply dg_end; [cbn; repeat split; reflexivity|exact HE].
Qed.

(* ---------------------------------------------------------------- the unclosed bracket on the first item: `X = a( ...` *)
Section First.
  Variable full : pstr.
  Variables (x0 : chr) (xs b2 b1 : pstr) (n0 : chr) (ns : pstr) (c st : bool) (Y : pstr).
  Notation SN := (sense_text n0 ns c st).
  Notation R := (b1 ++ sense_text n0 ns c st ++ LPAR :: Y).
  Notation T := (open_first_text x0 xs b2 b1 n0 ns c st Y).
  Hypothesis Hx0 : memc x0 idch = true.
  Hypothesis Hxs : all_in idch xs.
  Hypothesis Hnk : not_keyword_led (x0 :: xs).
  Hypothesis Hst : is_prefix kw_state (x0 :: xs) = false.
  Hypothesis Hms : is_prefix kw_macrostate (x0 :: xs) = false.
  Hypothesis Hb2 : blanks WS b2.
  Hypothesis Hb1 : blanks WS b1.
  Hypothesis H0 : memc n0 idch = true.
  Hypothesis Hns : all_in idch ns.
  Hypothesis HY : dangling Y.

  Lemma first_fol : nohead idch (b2 ++ 61%N :: R).
  Proof. apply nohead_blanks; [vm_compute; reflexivity|exact Hb2|reflexivity]. Qed.
  Lemma first_spre b : blanks WS b -> spre (b ++ T) = (x0 :: xs) ++ b2 ++ 61%N :: R.
  Proof. intros Hb. unfold open_first_text. apply spre_blanks_stop; [exact Hb|apply idch_stop; exact Hx0]. Qed.

  Lemma first_kw_fail b kw i j k l : blanks WS b -> is_prefix kw (x0 :: xs) = false -> all_in idch kw ->
    nth_error G i = Some (mkNode KGroup [j] true WS [pil_c] true []) ->
    (exists ks tags, nth_error G j = Some (mkNode KAnd (k :: ks) true WS [pil_c] true tags)) ->
    nth_error G k = Some (mkNode KSuppress [l] true WS [pil_c] true []) ->
    nth_error G l = Some (mkNode (KLit kw) [] true WS [pil_c] true []) ->
    evals G full i true (At (b ++ T)) PFail.
  Proof.
    intros Hb Hp Hkw Hi (ks & tags & Hj) Hk Hl.
    eapply (evals_kw_alt_fail G full pil_c WS pil_comment_ok i j k l); [exact Hi|exact Hj|exact Hk|exact Hl|].
    rewrite (first_spre b Hb). apply starts_with_not_prefix; [exact Hp|exact Hkw|exact first_fol].
  Qed.

  Lemma first_alt_202 b : blanks WS b -> evals G full 202 true (At (b ++ T)) PFail.
  Proof.
    intros Hb.
    assert (Hfail : forall x, spre x = SN ++ LPAR :: Y -> evals G full 211 true (At x) PFail).
    { intros x Hxx. exact (loop_fails Y HY full x n0 ns c st Hxx H0 Hns). }
    eapply evals_node_fail; [lk|apply (pre_premise G full pil_c WS pil_comment_ok); repeat split|].
    unfold pre_pos. cbn [andb ncallpre]. rewrite (first_spre b Hb).
    eapply impls_wrap; [reflexivity|reflexivity|].
    eapply evals_node_fail; [lk|cbn; reflexivity|].
    eapply impls_and; [reflexivity|reflexivity| |].
    - apply (ev_ident full false _ x0 xs _ eq_refl Hx0 Hxs first_fol).
    - eapply seqs_cons.
      { eapply evals_eq; [apply (evals_slit G full pil_c WS pil_comment_ok 204 205 true true true); lk|].
        cbn [andb]. rewrite spre_blanks_stop by (try exact Hb2; reflexivity).
        unfold lit_res. cbn [starts_with]. rewrite N.eqb_refl. reflexivity. }
      eapply seqs_cons.
      { eapply evals_eq.
        - eapply evals_node_ok; [lk|apply (pre_premise G full pil_c WS pil_comment_ok); repeat split|].
          unfold pre_pos. cbn [andb ncallpre].
          eapply impls_many; [reflexivity|reflexivity| |].
          + eapply evals_node_ok; [lk|apply (pre_premise G full pil_c WS pil_comment_ok); repeat split|].
            unfold pre_pos. cbn [andb ncallpre]. rewrite spre_idem.
            eapply impls_wrap; [reflexivity|reflexivity|].
            eapply evals_node_ok; [lk|cbn; reflexivity|].
            eapply impls_wrap; [reflexivity|reflexivity|].
            apply (ev_many_open full b1 n0 ns c st Y Hb1 H0 Hns Hfail false [] (spre R) I).
            rewrite spre_idem. reflexivity.
          + cbn [nign]. eapply loops_stop; [apply (skips_std G full pil_c WS pil_comment_ok)|].
            eapply evals_node_fail; [lk|apply (pre_premise G full pil_c WS pil_comment_ok); repeat split|].
            unfold pre_pos. cbn [andb ncallpre]. rewrite spre_skip_ign.
            eapply impls_wrap; [reflexivity|reflexivity|].
            apply (ev_pattern_stop full false (LPAR :: Y)); rewrite lpar_stop; reflexivity.
        - reflexivity. }
      eapply seqs_cons; [apply (ev_noconc full (LPAR :: Y)); rewrite lpar_stop; reflexivity|].
      apply seqs_fail.
      assert (H260 : nth_error G 260 = Some (mkNode (KMany true) [261] true WS [pil_c] true [])) by lk.
      assert (H261 : nth_error G 261 = Some (mkNode KSuppress [262] true WS [pil_c] true [])) by lk.
      assert (H262 : exists cp, nth_error G 262 = Some (mkNode KLineEnd [] true WS [pil_c] cp [])) by (exists true; lk).
      apply (evals_eol_fail G pil_c 261 262 WS pil_comment_ok H261 H262 full 260 true _ LPAR Y H260 (lpar_stop Y)). reflexivity.
  Qed.

  Theorem unclosed_first_refused b : blanks WS b -> evals G full 8 true (At (b ++ T)) PFail.
  Proof.
    intros Hb.
    assert (Hk : forall kw, In kw pil_keywords -> is_prefix kw (x0 :: xs) = false /\ all_in idch kw).
    { intros kw Hin. split.
      - unfold not_keyword_led in Hnk. rewrite forallb_forall in Hnk. apply negb_true_iff. apply Hnk. exact Hin.
      - pose proof keywords_idch as Hi. rewrite forallb_forall in Hi. apply Hi. exact Hin. }
    assert (Hkw : forall kw i j k l, In kw pil_keywords ->
              nth_error G i = Some (mkNode KGroup [j] true WS [pil_c] true []) ->
              (exists ks tags, nth_error G j = Some (mkNode KAnd (k :: ks) true WS [pil_c] true tags)) ->
              nth_error G k = Some (mkNode KSuppress [l] true WS [pil_c] true []) ->
              nth_error G l = Some (mkNode (KLit kw) [] true WS [pil_c] true []) ->
              evals G full i true (At (b ++ T)) PFail).
    { intros kw i j k l Hin. destruct (Hk kw Hin) as [Hp Ha]. apply (first_kw_fail b kw i j k l Hb Hp Ha). }
    eapply evals_node_fail; [lk|cbn; reflexivity|]. apply impls_first; [reflexivity|]. cbn [nkids].
    eapply firsts_miss; [eapply (Hkw _ 9 10 11 12); cycle 1; [lk|eexists _, _; lk|lk|lk|cbn; auto 12]|].
    eapply firsts_miss; [eapply (Hkw _ 30 31 32 33); cycle 1; [lk|eexists _, _; lk|lk|lk|cbn; auto 12]|].
    eapply firsts_miss; [eapply (Hkw _ 41 42 43 44); cycle 1; [lk|eexists _, _; lk|lk|lk|cbn; auto 12]|].
    eapply firsts_miss; [eapply (Hkw _ 49 50 51 52); cycle 1; [lk|eexists _, _; lk|lk|lk|cbn; auto 12]|].
    eapply firsts_miss; [eapply (Hkw _ 57 58 59 60); cycle 1; [lk|eexists _, _; lk|lk|lk|cbn; auto 12]|].
    eapply firsts_miss; [eapply (Hkw _ 71 72 73 74); cycle 1; [lk|eexists _, _; lk|lk|lk|cbn; auto 12]|].
    eapply firsts_miss; [eapply (Hkw _ 84 85 86 87); cycle 1; [lk|eexists _, _; lk|lk|lk|cbn; auto 12]|].
    eapply firsts_miss; [eapply (Hkw _ 101 102 103 104); cycle 1; [lk|eexists _, _; lk|lk|lk|cbn; auto 12]|].
    eapply firsts_miss; [eapply (Hkw _ 115 116 117 118); cycle 1; [lk|eexists _, _; lk|lk|lk|cbn; auto 12]|].
    eapply firsts_miss; [eapply (Hkw _ 189 190 191 192); cycle 1; [lk|eexists _, _; lk|lk|lk|cbn; auto 12]|].
    eapply firsts_miss; [exact (first_alt_202 b Hb)|].
    eapply firsts_miss; [eapply (first_kw_fail b kw_state 263 264 265 266 Hb Hst eq_refl); [lk|eexists _, _; lk|lk|lk]|].
    eapply firsts_miss; [|apply firsts_nil].
    eapply (first_kw_fail b kw_macrostate 283 284 285 286 Hb Hms eq_refl); [lk|eexists _, _; lk|lk|lk].
  Qed.
End First.

Theorem reject_unclosed_first x0 xs b2 b1 n0 ns c st Y pls b :
  dangling Y -> memc x0 idch = true -> all_in idch xs -> not_keyword_led (x0 :: xs) ->
  is_prefix kw_state (x0 :: xs) = false -> is_prefix kw_macrostate (x0 :: xs) = false ->
  blanks WS b2 -> blanks WS b1 -> memc n0 idch = true -> all_in idch ns ->
  Forall pil_blank_line pls -> blanks WS b ->
  no_tab (concat pls ++ b ++ open_first_text x0 xs b2 b1 n0 ns c st Y) ->
  exists f0, forall f, f0 <= f ->
    parse_pil_fuel f (concat pls ++ b ++ open_first_text x0 xs b2 b1 n0 ns c st Y) = err eParse.
Proof.
  intros HY Hx0 Hxs Hnk Hst Hms Hb2 Hb1 H0 Hns Hp Hb Hnt. apply pil_document_reject; try assumption.
  - unfold open_first_text. apply idch_stop in Hx0. apply stopc_elim in Hx0. exact Hx0.
  - intros full b' Hb'. apply unclosed_first_refused; assumption.
Qed.

Example unclosed_first_example :     (* "X = a( b\n"  and  "X = a(\n" *)
  dangling (items_text [ISense [32%N] 98%N [] false false] [NL]) /\
  parse_pil (open_first_text 88%N [] [32%N] [32%N] 97%N [] false false (items_text [ISense [32%N] 98%N [] false false] [NL])) = err eParse /\
  dangling (items_text [] [NL]) /\
  parse_pil (open_first_text 88%N [] [32%N] [32%N] 97%N [] false false [NL]) = err eParse.
Proof.
  assert (HE : stmt_end [NL] []).
  { change [NL] with (([] ++ [NL]) ++ concat []). apply pil_stmt_end_lines; [apply pil_blank_line_plain; reflexivity|constructor]. }
  repeat split; try (vm_compute; reflexivity).
  - apply dg_end; [cbn; repeat split; reflexivity|exact HE].
  - apply dg_end; [exact I|exact HE].
Qed.
