(* mpt_syms on a rendered tree equals the tree's entry list. *)
From Coq Require Import List Arith Lia Bool NArith.
From DSD Require Import Base.Str Base.Errors Model.ComplexUtils Dyck.Dyck.
Import ListNotations.

(* ---- specification on dyck trees ---- *)
Inductive entry := EB | EP (v : option loc).

Fixpoint adv (d : dyck) (p : loc) : loc :=
  match d with
  | DNil => p
  | DU r => adv r (fst p, S (snd p))
  | DB r => adv r (S (fst p), 0)
  | DP i r => let q := adv i (fst p, S (snd p)) in adv r (fst q, S (snd q))
  end.

Fixpoint ents (d : dyck) (p : loc) : list entry :=
  match d with
  | DNil => []
  | DU r => EP None :: ents r (fst p, S (snd p))
  | DB r => EB :: ents r (S (fst p), 0)
  | DP i r => let q := adv i (fst p, S (snd p)) in
              EP (Some q) :: ents i (fst p, S (snd p)) ++ EP (Some p) :: ents r (fst q, S (snd q))
  end.

Fixpoint appE (pc : tab * row) (es : list entry) : tab * row :=
  match es with
  | [] => pc
  | EB :: r => appE (fst pc ++ [snd pc], []) r
  | EP v :: r => appE (fst pc, snd pc ++ [v]) r
  end.

Definition posOf (pc : tab * row) : loc := (length (fst pc), length (snd pc)).

Lemma appE_app pc es1 es2 : appE pc (es1 ++ es2) = appE (appE pc es1) es2.
Proof. revert pc; induction es1 as [|[|v] r IH]; intros pc; cbn; auto. Qed.

Lemma posOf_appE_ents d : forall pc, posOf (appE pc (ents d (posOf pc))) = adv d (posOf pc).
Proof.
  induction d as [|r IH|r IH|i IHi r IHr]; intros pc; cbn [ents adv appE]; auto.
  - specialize (IH (fst pc, snd pc ++ [None])). unfold posOf in *. cbn [fst snd] in *.
    rewrite app_length in IH. cbn in IH. rewrite Nat.add_1_r in IH. exact IH.
  - specialize (IH (fst pc ++ [snd pc], [])). unfold posOf in *. cbn [fst snd] in *.
    rewrite app_length in IH. cbn in IH. rewrite Nat.add_1_r in IH. exact IH.
  - rewrite appE_app. cbn [appE].
    set (pc1 := (fst pc, snd pc ++ [Some (adv i (fst (posOf pc), S (snd (posOf pc))))])).
    assert (H1 : posOf pc1 = (fst (posOf pc), S (snd (posOf pc)))).
    { unfold pc1, posOf. cbn [fst snd]. rewrite app_length. cbn. f_equal. lia. }
    rewrite <- H1. specialize (IHi pc1).
    set (pc2 := appE pc1 (ents i (posOf pc1))) in *.
    set (pc3 := (fst pc2, snd pc2 ++ [Some (posOf pc)])).
    assert (H3 : posOf pc3 = (fst (adv i (posOf pc1)), S (snd (adv i (posOf pc1))))).
    { rewrite <- IHi. unfold pc3, posOf. cbn [fst snd]. rewrite app_length. cbn. f_equal. lia. }
    rewrite <- H3. apply IHr.
Qed.

(* update commutes with later appends *)
Lemma upd_app {A} n (v : A) l l' : n < length l -> upd n v (l ++ l') = upd n v l ++ l'.
Proof.
  revert n; induction l as [|x l IH]; intros n H; cbn in *; [lia|].
  destruct n; cbn; [reflexivity|]. f_equal. apply IH. lia.
Qed.

Lemma upd_length {A} n (v : A) l : length (upd n v l) = length l.
Proof. revert n; induction l; intros [|n]; cbn; auto. Qed.

Definition validPos (pc : tab * row) (p : loc) : Prop :=
  fst p < length (fst pc) \/ (fst p = length (fst pc) /\ snd p < length (snd pc)).

Lemma upd_last_row (t : tab) (r : row) k v :
  upd2 (t ++ [r]) (length t, k) v = t ++ [upd k v r].
Proof.
  unfold upd2. cbn [fst snd]. rewrite nth_error_app2, Nat.sub_diag by lia. cbn.
  induction t; cbn; [reflexivity|]. f_equal. exact IHt.
Qed.

Lemma upd2_app (t : tab) (r : row) p v : fst p < length t -> upd2 (t ++ [r]) p v = upd2 t p v ++ [r].
Proof.
  intros H. unfold upd2. rewrite nth_error_app1 by exact H.
  destruct (nth_error t (fst p)); [|reflexivity]. apply upd_app. exact H.
Qed.

Lemma upd2_length t p v : length (upd2 t p v) = length t.
Proof. unfold upd2. destruct (nth_error t (fst p)); [apply upd_length|reflexivity]. Qed.

Lemma updPC_appE es : forall pc p v, validPos pc p ->
  updPC (appE pc es) p v = appE (updPC pc p v) es.
Proof.
  induction es as [|[|x] r IH]; intros pc p v Hv; cbn [appE]; [reflexivity| |].
  - (* EB *) rewrite IH.
    + f_equal. unfold updPC. cbn [fst snd]. rewrite app_length. cbn [length].
      destruct Hv as [Hv|[Hv1 Hv2]].
      * assert (E1 : (fst p <? length (fst pc) + 1) = true) by (apply Nat.ltb_lt; lia).
        assert (E2 : (fst p <? length (fst pc)) = true) by (apply Nat.ltb_lt; lia).
        rewrite E1, E2. cbn [fst snd]. rewrite upd2_app by exact Hv. reflexivity.
      * assert (E1 : (fst p <? length (fst pc) + 1) = true) by (apply Nat.ltb_lt; lia).
        assert (E2 : (fst p <? length (fst pc)) = false) by (apply Nat.ltb_ge; lia).
        rewrite E1, E2. cbn [fst snd]. destruct p as [a b]. cbn [fst snd] in *. subst a.
        rewrite upd_last_row. reflexivity.
    + unfold validPos in *. cbn [fst snd]. rewrite app_length. cbn. lia.
  - (* EP *) rewrite IH.
    + f_equal. unfold updPC. cbn [fst snd].
      destruct (fst p <? length (fst pc)) eqn:E; cbn [fst snd]; [reflexivity|].
      apply Nat.ltb_ge in E. destruct Hv as [Hv|[_ Hv]]; [lia|].
      rewrite upd_app by exact Hv. reflexivity.
    + unfold validPos in *. cbn [fst snd]. rewrite app_length. cbn. lia.
Qed.

Lemma upd_end {A} (l : list A) x v : upd (length l) v (l ++ [x]) = l ++ [v].
Proof. induction l as [|a l IHl]; cbn; [reflexivity|]. f_equal. exact IHl. Qed.

Lemma updPC_here pc x v :
  updPC (fst pc, snd pc ++ [x]) (posOf pc) v = (fst pc, snd pc ++ [v]).
Proof.
  unfold updPC, posOf. cbn [fst snd]. rewrite Nat.ltb_irrefl. f_equal. apply upd_end.
Qed.

(* main simulation lemma *)
Lemma run_render d : forall s t,
  run s (render d ++ t) =
  let pc := appE (pre s, cur s) (ents d (length (pre s), length (cur s))) in
  run (mk (fst pc) (snd pc) (stk s)) t.
Proof.
  induction d as [|r IH|r IH|i IHi r IHr]; intros s t; cbn [render app run step ents appE].
  - destruct s; reflexivity.
  - rewrite IH. cbn [pre cur stk fst snd]. rewrite app_length. cbn [length]. rewrite Nat.add_1_r. reflexivity.
  - rewrite IH. cbn [pre cur stk fst snd]. rewrite app_length. cbn [length]. rewrite Nat.add_1_r. reflexivity.
  - rewrite <- app_assoc. rewrite IHi. cbn [pre cur stk fst snd app run step].
    rewrite app_length. cbn [length]. rewrite Nat.add_1_r.
    set (here := (length (pre s), length (cur s))).
    set (pc0 := (pre s, cur s)).
    set (pcN := (pre s, cur s ++ [None])).
    set (esi := ents i (length (pre s), S (length (cur s)))).
    set (pc2 := appE pcN esi).
    (* position after inner *)
    assert (HposN : posOf pcN = (length (pre s), S (length (cur s)))).
    { unfold pcN, posOf. cbn [fst snd]. rewrite app_length. cbn. f_equal. lia. }
    assert (Hpos2 : posOf pc2 = adv i (length (pre s), S (length (cur s)))).
    { unfold pc2, esi. rewrite <- HposN. apply posOf_appE_ents. }
    change (length (fst pc2), length (snd pc2)) with (posOf pc2).
    (* the update of the opening entry *)
    assert (Hupd : updPC (fst pc2, snd pc2 ++ [Some here]) here (Some (posOf pc2))
                   = appE (pre s, cur s ++ [Some (posOf pc2)]) (esi ++ [EP (Some here)])).
    { change (fst pc2, snd pc2 ++ [Some here]) with (appE pc2 [EP (Some here)]).
      unfold pc2. rewrite <- appE_app.
      rewrite updPC_appE.
      - f_equal. change here with (posOf pc0). unfold pcN. apply (updPC_here pc0).
      - right. unfold pcN, here. cbn [fst snd]. rewrite app_length. cbn. lia. }
    match goal with |- run {| pre := fst ?X; cur := snd ?X; stk := _ |} _ = _ =>
      replace X with (appE (pre s, cur s ++ [Some (posOf pc2)]) (esi ++ [EP (Some here)]))
        by (symmetry; exact Hupd) end.
    rewrite Hpos2.
    set (q := adv i (length (pre s), S (length (cur s)))) in *.
    set (PC := appE (pre s, cur s ++ [Some q]) (esi ++ [EP (Some here)])).
    assert (HPC : posOf PC = (fst q, S (snd q))).
    { unfold PC. rewrite appE_app. cbn [appE]. unfold posOf. cbn [fst snd].
      rewrite app_length. cbn [length].
      set (pcQ := (pre s, cur s ++ [Some q])).
      assert (HposQ : posOf pcQ = (length (pre s), S (length (cur s)))).
      { unfold pcQ, posOf. cbn [fst snd]. rewrite app_length. cbn. f_equal. lia. }
      pose proof (posOf_appE_ents i pcQ) as HH. rewrite HposQ in HH. fold esi in HH. fold q in HH.
      unfold posOf in HH. rewrite <- HH. cbn [fst snd]. f_equal. lia. }
    rewrite IHr. cbn [pre cur stk].
    replace (length (fst PC), length (snd PC)) with (fst q, S (snd q)) by (symmetry; exact HPC).
    replace (fst PC, snd PC) with PC by (destruct PC; reflexivity).
    unfold PC. rewrite <- appE_app. rewrite <- app_assoc. reflexivity.
Qed.

Theorem mpt_syms_render d :
  mpt_syms (render d) = Some (let pc := appE ([], []) (ents d (0, 0)) in fst pc ++ [snd pc]).
Proof.
  unfold mpt_syms. rewrite <- (app_nil_r (render d)). rewrite run_render. cbn. reflexivity.
Qed.
