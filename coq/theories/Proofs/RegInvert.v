(* C04: in a Good state the complement operation is never refused (any length, names with an
   unstarred non-empty base, non-failing class). *)
From Coq Require Import List NArith ZArith Bool Arith Lia.
From DSD Require Import Base.Str Base.Errors Model.ComplexUtils Model.RegStr Model.Heap Model.Registry
  Proofs.RegHeap Proofs.RegInv Proofs.RegCalls Proofs.RegExt Proofs.RegC04 Proofs.RegStep Proofs.RegC01 Proofs.RegC05
  Proofs.RegExamples Proofs.RegFull Proofs.RegRelease.
Import ListNotations.

(* collecting a collected state changes nothing at all *)
Theorem collect_id ct st : Inv ct st -> Collected st -> collect st = st.
Proof.
  intros I C. destruct st as [h cls rs]. unfold collect. cbn [heap classes roots] in *.
  assert (Eh : sweep h (root_ids rs) = h) by (apply sweep_collected; [apply (hk_older _ (proj2 I)) | exact C]).
  rewrite Eh. f_equal. rewrite <- (map_id cls) at 2. apply map_ext_in. intros cs Hin.
  destruct (In_nth _ _ (mkCstate [] [] None) Hin) as [c [Hc Ec]].
  assert (Hc' : c < length ct) by (rewrite <- (ok_len _ _ (proj1 I)); exact Hc).
  pose proof (ok_cls _ _ (proj1 I) c Hc') as K. unfold cget in K. cbn [classes heap] in K. rewrite Ec in K.
  destruct cs as [ns cn idd]. unfold purge_class, purge. cbn [cs_names cs_canon cs_id]. f_equal.
  - apply filter_all. intros [n i] Hi. cbn. destruct (ok_nv _ _ _ K n i Hi) as [o [Ho _]]. eapply live_obj_is_live; eauto.
  - apply filter_all. intros [k i] Hi. cbn. destruct (ok_cv _ _ _ K k i Hi) as [o [Ho _]]. eapply live_obj_is_live; eauto.
Qed.

(* ---- evaluation of the look-ups the complement performs ---- *)
Lemma eval_lookup_unst f ct c ci st x p :
  nth_error ct c = Some ci -> starred x = false -> nonempty x = true ->
  nlookup x (cs_names (cget st c)) = Some p ->
  dom_call (S f) ct c st (Some x) None None None = (st, CRet p false).
Proof.
  intros Eci Hs Hne N. rewrite dom_call_S. unfold dom_body. rewrite Eci. cbn [resolve_name]. rewrite dom_len1_none, Hne. cbn [negb].
  unfold dom_nested. rewrite Hs. unfold dom_finish. cbn [option_map]. unfold sing_lookup. rewrite Hne, N. reflexivity.
Qed.

(* the live domain i named n in class c of length l *)
Record Dom (ct : ctable) (st : state) (c i : nat) (n : pstr) (l : Z) : Prop := mkDom {
  dm_obj : exists ob, live_obj (heap st) i ob /\ o_cls ob = c /\ o_name ob = n /\ o_data ob = DDom l;
  dm_kind : class_kind ct c = Some KindD
}.

Lemma dom_registered ct st c i n l : Inv ct st -> Dom ct st c i n l ->
  nlookup n (cs_names (cget st c)) = Some i /\ klookup (KDom n l) (cs_canon (cget st c)) = Some i.
Proof.
  intros I [[ob [Hl [Ec [En Ed]]]] _]. destruct (live_registered ct st i ob I Hl) as [N [K OK]].
  unfold ObjOK in OK. rewrite Ed in OK. destruct OK as [O1 _]. rewrite Ec, En in N. rewrite Ec, O1, En in K. auto.
Qed.

Lemma dom_len ct st c i n l : Dom ct st c i n l -> obj_length (heap st) i = Ok l.
Proof.
  intros [[ob [[Hg _] [_ [_ Ed]]]] _]. unfold obj_length. rewrite Hg, Ed. reflexivity.
Qed.

(* a live partner has the same length *)
Lemma partner_len ct st c i n l p :
  Good ct st -> Dom ct st c i n l -> base_unstarred n ->
  nlookup (cname_of n) (cs_names (cget st c)) = Some p ->
  Dom ct st c p (cname_of n) l.
Proof.
  intros G Di Hb N. pose proof Di as [[ob [Hl [Ec [En Ed]]]] Hk]. pose proof G as [I _ D].
  pose proof (class_kind_lt _ _ _ Hk) as Hc.
  destruct (found_by_name ct st c _ p I Hc N) as [op [Hlp [Ecp Enp]]].
  destruct (dom_data ct st p op D Hlp) as [lp Edp]; [rewrite Ecp; exact Hk|].
  assert (lp = l).
  { destruct D as [Cm _]. destruct (starred n) eqn:ES.
    - assert (Hcs : starred (cname_of n) = false) by (destruct Hb as [Hb|Hb]; congruence).
      apply (Cm p i op ob lp l Hlp Hl); [congruence | exact Edp | exact Ed | rewrite Enp; exact Hcs|].
      rewrite En, Enp. apply cname_starred. exact ES.
    - symmetry. apply (Cm i p ob op l lp Hl Hlp); [congruence | exact Ed | exact Edp | rewrite En; exact ES|].
      rewrite En, Enp. apply cname_unstarred. exact ES. }
  subst lp. constructor; [exists op; auto | exact Hk].
Qed.

Lemma eval_lookup_star f ct c ci st i n l :
  Good ct st -> nth_error ct c = Some ci -> Dom ct st c i n l ->
  starred n = true -> starred (cname_of n) = false -> nonempty (cname_of n) = true ->
  dom_call (S (S f)) ct c st (Some n) None None None = (st, CRet i false).
Proof.
  intros G Eci Di Hs Hcs Hnc. pose proof G as [I C D]. pose proof (collect_id ct st I C) as CI.
  assert (Hb : base_unstarred n) by (right; exact Hcs).
  assert (Hne : nonempty n = true) by (destruct n; [discriminate | reflexivity]).
  destruct (dom_registered ct st c i n l I Di) as [Nn Kn].
  rewrite dom_call_S. unfold dom_body. rewrite Eci. cbn [resolve_name]. rewrite dom_len1_none, Hne. cbn [negb].
  unfold dom_nested. rewrite Hs.
  destruct (nlookup (cname_of n) (cs_names (cget st c))) as [p|] eqn:Np.
  - rewrite (eval_lookup_unst f ct c ci st (cname_of n) p Eci Hcs Hnc Np).
    pose proof (partner_len ct st c i n l p G Di Hb Np) as Dp. rewrite (dom_len ct st c p _ l Dp), CI.
    unfold dom_finish. cbn [option_map]. unfold sing_lookup. rewrite Hne, Nn, Kn, Nat.eqb_refl. reflexivity.
  - assert (A : absent st c (cname_of n)).
    { intros j oj Hj Ecj Enj. destruct (live_registered ct st j oj I Hj) as [N _]. rewrite Ecj, Enj in N. congruence. }
    rewrite (lookup_unstarred_absent f ct c ci st (cname_of n) I Eci Hcs Hnc A), sing_true, CI.
    unfold dom_finish. cbn [option_map]. unfold sing_lookup. rewrite Hne, Nn. reflexivity.
Qed.

Lemma eval_request_star f ct c ci st i n l :
  Good ct st -> nth_error ct c = Some ci -> Dom ct st c i n l ->
  starred n = true -> starred (cname_of n) = false -> nonempty (cname_of n) = true ->
  dom_call (S (S f)) ct c st (Some n) (Some l) None None = (st, CRet i false).
Proof.
  intros G Eci Di Hs Hcs Hnc. pose proof G as [I C D]. pose proof (collect_id ct st I C) as CI.
  assert (Hb : base_unstarred n) by (right; exact Hcs).
  assert (Hne : nonempty n = true) by (destruct n; [discriminate | reflexivity]).
  destruct (dom_registered ct st c i n l I Di) as [Nn Kn].
  rewrite dom_call_S. unfold dom_body. rewrite Eci. cbn [resolve_name]. rewrite dom_len1_none, Hne. cbn [negb].
  unfold dom_nested. rewrite Hs.
  assert (Fin : dom_finish ct c st (is_none (Some n)) n (Some l) = (st, CRet i false)).
  { unfold dom_finish. cbn [option_map]. unfold sing_lookup. rewrite Hne, Nn, Kn, Nat.eqb_refl. reflexivity. }
  destruct (nlookup (cname_of n) (cs_names (cget st c))) as [p|] eqn:Np.
  - rewrite (eval_lookup_unst f ct c ci st (cname_of n) p Eci Hcs Hnc Np).
    pose proof (partner_len ct st c i n l p G Di Hb Np) as Dp. rewrite (dom_len ct st c p _ l Dp), CI, Z.eqb_refl. exact Fin.
  - assert (A : absent st c (cname_of n)).
    { intros j oj Hj Ecj Enj. destruct (live_registered ct st j oj I Hj) as [N _]. rewrite Ecj, Enj in N. congruence. }
    rewrite (lookup_unstarred_absent f ct c ci st (cname_of n) I Eci Hcs Hnc A), sing_true, CI. exact Fin.
Qed.

(* Singleton.__call__ for the complement's (name, length): found or created, never refused *)
Lemma finish_partner ct c ci st i n l auto :
  Good ct st -> nth_error ct c = Some ci -> c_fail ci = FNone -> Dom ct st c i n l ->
  base_unstarred n -> nonempty (cname_of n) = true ->
  exists o b, snd (dom_finish ct c st auto (cname_of n) (Some l)) = CRet o b.
Proof.
  intros G Eci Ef Di Hb Hnc. pose proof G as [I C D]. pose proof Di as [_ Hk].
  pose proof (class_kind_lt _ _ _ Hk) as Hc.
  unfold dom_finish. cbn [option_map]. unfold sing_lookup. rewrite Hnc.
  destruct (nlookup (cname_of n) (cs_names (cget st c))) as [p|] eqn:Np.
  - pose proof (partner_len ct st c i n l p G Di Hb Np) as Dp.
    destruct (dom_registered ct st c p _ l I Dp) as [_ Kp]. rewrite Kp, Nat.eqb_refl. exists p, false. reflexivity.
  - assert (A : absent st c (cname_of n)).
    { intros j oj Hj Ecj Enj. destruct (live_registered ct st j oj I Hj) as [N _]. rewrite Ecj, Enj in N. congruence. }
    rewrite (absent_klookup ct st c (cname_of n) l I D Hk A). eexists. eexists. apply (create_fnone ct st c ci); assumption.
Qed.

Theorem complement_never_refused ct st c ci i n l :
  Good ct st -> nth_error ct c = Some ci -> c_fail ci = FNone -> Dom ct st c i n l ->
  base_unstarred n -> nonempty (cname_of n) = true ->
  exists o b, snd (dom_call dom_fuel ct c st (Some (cname_of n)) (Some l) None None) = CRet o b.
Proof.
  intros G Eci Ef Di Hb Hnc. pose proof G as [I C D]. pose proof (collect_id ct st I C) as CI.
  pose proof Di as [[ob [Hl [Ec [En Ed]]]] Hk].
  assert (Hne : nonempty n = true) by (destruct D as [_ [Z _]]; rewrite <- En; apply (Z i ob l Hl Ed)).
  destruct (dom_registered ct st c i n l I Di) as [Nn Kn].
  assert (E2 : cname_of (cname_of n) = n) by (apply cname_involutive; exact Hb).
  unfold dom_fuel. rewrite (dom_call_S 7). unfold dom_body. rewrite Eci. cbn [resolve_name]. rewrite dom_len1_none, Hnc. cbn [negb].
  unfold dom_nested. rewrite E2. destruct (starred (cname_of n)) eqn:ESc.
  - (* n unstarred: the complement x* looks n up *)
    assert (ES : starred n = false).
    { destruct Hb as [Hb|Hb]; [exact Hb | congruence]. }
    rewrite (eval_lookup_unst 6 ct c ci st n i Eci ES Hne Nn), (dom_len ct st c i n l Di), CI, Z.eqb_refl.
    apply (finish_partner ct c ci st i n l _ G Eci Ef Di Hb Hnc).
  - (* n = x*: the complement x looks n up, then requests (n, l) *)
    assert (ES : starred n = true).
    { destruct (starred n) eqn:E; [reflexivity|]. rewrite (cname_unstarred n E), starred_app in ESc. discriminate. }
    rewrite (eval_lookup_star 5 ct c ci st i n l G Eci Di ES ESc Hnc), (dom_len ct st c i n l Di), CI.
    rewrite (eval_request_star 5 ct c ci st i n l G Eci Di ES ESc Hnc), CI.
    apply (finish_partner ct c ci st i n l _ G Eci Ef Di Hb Hnc).
Qed.

(* as an operation *)
Theorem invert_never_refused ct st dst src i ob l ci :
  Good ct st -> get_root st src = Some i -> live_obj (heap st) i ob -> o_data ob = DDom l ->
  base_unstarred (o_name ob) -> nonempty (cname_of (o_name ob)) = true ->
  nth_error ct (o_cls ob) = Some ci -> c_fail ci = FNone ->
  exists o, snd (step ct st (OComplement dst src)) = Returned o \/ snd (step ct st (OComplement dst src)) = Created o.
Proof.
  intros G Hr Hl Ed Hb Hnc Eci Ef. pose proof G as [I C D].
  assert (Hk : class_kind ct (o_cls ob) = Some KindD).
  { destruct D as [_ [_ K]]. rewrite (K i ob Hl), Ed. reflexivity. }
  assert (Di : Dom ct st (o_cls ob) i (o_name ob) l) by (constructor; [exists ob; auto | exact Hk]).
  destruct (complement_never_refused ct st (o_cls ob) ci i (o_name ob) l G Eci Ef Di Hb Hnc) as [o [b E]].
  exists o. cbn [step]. rewrite Hr. destruct Hl as [Hg _]. rewrite Hg, Ed. unfold dom_complement. rewrite Hg, Ed.
  unfold finish. rewrite E. destruct b; auto.
Qed.
