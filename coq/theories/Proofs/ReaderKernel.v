(* Reader model, C14: what a kernel-notation statement builds - the sequence and structure
   of the filed complex, with and without composite-domain expansion. *)
From Coq Require Import List NArith ZArith Bool Arith Lia.
From DSD Require Import Base.Str Base.Errors Model.ComplexUtils Model.RegStr Model.ReaderStr Model.PyNum
  Model.Peg Model.Kernel Model.DispatchKernel Model.Heap Model.Registry Model.Reader Model.ReaderShape
  Proofs.RegHeap Proofs.RegInv Proofs.RegCalls Proofs.ReaderBasic Proofs.ReaderStmt Proofs.ReaderHeap
  Proofs.ReaderInv Proofs.ReaderHoare Proofs.ReaderNoFault Proofs.ReaderThms Proofs.ReaderBuilds.
From DSD Require Proofs.C12.
Import ListNotations.

Lemma Forall2_impl' {A B} (R1 R2 : A -> B -> Prop) l l' :
  (forall a b, R1 a b -> R2 a b) -> Forall2 R1 l l' -> Forall2 R2 l l'.
Proof. intros H F. induction F; constructor; auto. Qed.

(* ---- the objects a sub-program creates, by the kind of their data ---- *)
Definition dom_data (o : obj) : Prop := match o_data o with DDom _ => True | _ => False end.
Lemma dom_data_kill : kill_closed dom_data. Proof. intros o H. exact H. Qed.

Definition NewDom (h0 : list obj) (r : rstate) : Prop := HExt dom_data h0 (heap (r_st r)).

Lemma newdom_call h0 f : (forall st, SExt dom_data st (fst (f st))) -> Keeps (NewDom h0) (call f).
Proof.
  intros Hf r H. unfold call. destruct (Hf (r_st r)) as [_ X].
  destruct (f (r_st r)) as [st' [id b|k e]]; cbn [fst] in *; unfold NewDom; cbn [r_st with_st hold heap];
    eapply hext_trans; eauto using dom_data_kill.
Qed.

Lemma newdom_release h0 n keep : Keeps (NewDom h0) (release n keep).
Proof.
  intros r H. unfold release, NewDom. cbn [fst r_st with_st].
  eapply hext_trans; [apply dom_data_kill | exact H |]. apply (hext_collect dom_data (cut_roots (r_st r) n keep)).
Qed.

Lemma sext_domdata_dom ct c fuel st nm len : SExt dom_data st (fst (dom_call fuel ct c st (Some nm) len None None)).
Proof.
  apply (sext_dom_call dom_data ct c (fun _ => True) (fun _ => True)); auto using dom_data_kill; unfold HeapLen; intros; exact I.
Qed.

Lemma newdom_domain_by_name ct g h0 nm : Keeps (NewDom h0) (domain_by_name ct g nm).
Proof.
  unfold domain_by_name. apply keeps_bind; [apply keeps_slot | intros c].
  apply newdom_call. intros st. apply sext_domdata_dom.
Qed.

Lemma newdom_invert ct h0 i : Keeps (NewDom h0) (invert ct i).
Proof.
  unfold invert. apply newdom_call. intros st. unfold dom_complement.
  destruct (hget (heap st) i) as [o|]; [|apply sext_refl]. destruct (o_data o); try apply sext_refl.
  apply sext_domdata_dom.
Qed.

Lemma newdom_strand_by_name ct g h0 nm : Keeps (NewDom h0) (strand_by_name ct g nm).
Proof.
  unfold strand_by_name. apply keeps_bind; [apply keeps_slot | intros c].
  apply newdom_call. intros st. apply sext_strand_call; [apply dom_data_kill | intros es n E; discriminate].
Qed.

Ltac nd_step :=
  first [ apply keeps_ret | apply keeps_fail | apply keeps_lift | apply keeps_get_state | apply keeps_nroots
        | apply keeps_slot | apply newdom_domain_by_name | apply newdom_invert | apply newdom_strand_by_name
        | apply newdom_release
        | apply keeps_bind; [|intros ?] | apply keeps_catch | apply keeps_mapM; intros ? ].
Ltac nd_all :=
  repeat first [ nd_step
               | match goal with |- Keeps _ (if ?b then _ else _) => destruct b end
               | match goal with |- Keeps _ (match ?x with _ => _ end) => destruct x end ].

Lemma newdom_expand_loop ct g h0 todo : forall done, Keeps (NewDom h0) (expand_loop ct g todo done).
Proof.
  induction todo as [|[d s] todo IH]; intros done; cbn [expand_loop]; [apply keeps_ret|].
  destruct (str_eqb d sPlus); [apply IH|].
  apply keeps_bind; [|intros cl; apply IH].
  unfold expand_one, strand_seq, invert_elem, assert_domain. nd_all.
Qed.

Lemma newdom_kernel_sequence ct g h0 names sst : Keeps (NewDom h0) (kernel_sequence ct g names sst).
Proof.
  unfold kernel_sequence, first_attempt.
  apply keeps_bind; [apply keeps_nroots | intros n1].
  apply keeps_catch; [nd_all|].
  apply keeps_bind; [apply newdom_release | intros ?].
  destruct (negb _); [apply keeps_fail|]. apply keeps_bind; [apply newdom_expand_loop | intros ?; apply keeps_ret].
Qed.

Section Kernel.
  Variable ct : ctable.
  Variables cd cs cc cm cr : nat.
  Hypothesis CO : cfg_okb ct cd cs cc cm cr = true.
  Notation G := (g cd cs cc cm cr).
  Notation KI := (KInv cd cs cc cm cr).
  Notation RGood := (RGood ct cd cs cc cm cr).
  Notation Op := (@Op ct cd cs cc cm cr).
  Let SO := co_slots ct cd cs cc cm cr CO.
  Let IO := co_io ct cd cs cc cm cr CO.

  (* ---- facts with values ---- *)
  Definition DomAt (j : nat) (d : pstr) (r : rstate) : Prop := IsDom cd (heap (r_st r)) j d None.
  Definition NameAt (i : nat) (nm : pstr) (r : rstate) : Prop :=
    exists o, hget (heap (r_st r)) i = Some o /\ o_name o = nm.

  Lemma stable_domat j d : Stable (DomAt j d).
  Proof. intros r r' [_ X] H. eapply isdom_ext; eauto. Qed.
  Lemma stable_nameat i nm : Stable (NameAt i nm).
  Proof.
    intros r r' [_ X] [o [Ho En]]. destruct (hx_old _ _ _ X i o Ho) as [o' [Ho' [E|E]]]; subst o'.
    - exists o. auto.
    - exists (kill o). auto.
  Qed.

  (* strengthening a triple by what an inversion lemma says about the same run *)
  Lemma op_strengthen {A} (P : rstate -> Prop) (m : M A) (Q Q' : A -> rstate -> Prop) :
    Op P m Q ->
    (forall r r' a, RGood r -> P r -> m r = (r', Ok a) -> RGood r' -> Q a r' -> Q' a r') ->
    Op P m (fun a r => Q a r /\ Q' a r).
  Proof.
    intros H HQ r GD Pr. specialize (H r GD Pr). destruct (m r) as [r' [a|k]] eqn:E; [|exact H].
    destruct H as [G1 [X1 Qa]]. split; [exact G1|]. split; [exact X1|]. split; [exact Qa|]. eapply HQ; eauto.
  Qed.

  Lemma op_domain_by_name_x (P : rstate -> Prop) d :
    nm_ok d -> Op P (domain_by_name ct G d) (fun j r => RetQ cd j r /\ DomAt j d r).
  Proof.
    intros Hd. apply op_strengthen; [apply op_domain_by_name; [exact SO | exact Hd]|].
    intros r r' j GD _ E _ _. unfold domain_by_name in E. cbn [gD g slot] in E. rewrite bind_ret in E.
    apply (call_dom_inv ct cd cs cc cm cr CO d None r r' j GD Hd ltac:(discriminate) E).
  Qed.

  Lemma isdom_some h i nm : IsDom cd h i nm None -> exists l, IsDom cd h i nm (Some l).
  Proof.
    intros [ob [H1 [H2 [H3 [l [H4 _]]]]]]. exists l, ob. repeat split; auto. exists l. split; [exact H4|].
    intros z Ez. congruence.
  Qed.
  Lemma isdom_none h i nm len : IsDom cd h i nm len -> IsDom cd h i nm None.
  Proof.
    intros [ob [H1 [H2 [H3 [l [H4 _]]]]]]. exists ob. repeat split; auto. exists l. split; [exact H4 | discriminate].
  Qed.

  Lemma isdom_nonneg r i nm l : RGood r -> IsDom cd (heap (r_st r)) i nm (Some l) -> (0 <= l)%Z /\ nm_ok nm.
  Proof.
    intros [_ K] [ob [H1 [H2 [H3 [l0 [H4 H5]]]]]].
    destruct (kinv_dom ct cd cs cc cm cr _ i ob K SO H1 H2) as [l1 [E1 [Hl Hn]]].
    rewrite H4 in E1. injection E1 as <-. rewrite <- (H5 l eq_refl). rewrite <- H3. auto.
  Qed.

  Lemma op_invert_x (P : rstate -> Prop) i d :
    (forall r, P r -> DomAt i d r) ->
    Op P (invert ct i) (fun j r => RetQ cd j r /\ DomAt j (cname_of d) r).
  Proof.
    intros HP. apply op_strengthen.
    - apply op_invert; [exact SO|]. intros r Pr. destruct (HP r Pr) as [ob [A [B _]]].
      unfold ClsAt, cls_at. rewrite A. cbn. rewrite B. reflexivity.
    - intros r r' j GD Pr E _ _. destruct (isdom_some _ _ _ (HP r Pr)) as [l Dl].
      destruct (isdom_nonneg r i d l GD Dl) as [Hl Hn].
      destruct (invert_inv ct cd cs cc cm cr CO i d l r r' j GD Hn Hl Dl E) as [Dj _].
      eapply isdom_none; eauto.
  Qed.

  (* ---- strands by name ---- *)
  Definition SeqN (nm : pstr) (es : list elem) (r : rstate) : Prop :=
    exists i, Held i r /\ ClsAt i cs r /\ DataAt i (DStrand es) r /\ NameAt i nm r.

  Lemma stable_seqn nm es : Stable (SeqN nm es).
  Proof.
    intros r r' X [i [H1 [H2 [H3 H4]]]]. exists i. split; [eapply stable_held; eauto|].
    split; [eapply stable_cls; eauto|]. split; [eapply stable_data; eauto | eapply stable_nameat; eauto].
  Qed.

  Lemma seqn_seqq nm es r : SeqN nm es r -> SeqQ cs es r.
  Proof. intros [i [H1 [H2 [H3 _]]]]. exists i. auto. Qed.

  Lemma strand_by_name_inv nm r r1 i :
    RGood r -> nonempty nm = true -> strand_by_name ct G nm r = (r1, Ok i) -> NameAt i nm r1.
  Proof.
    intros [I1 K1] Hne E. unfold strand_by_name in E. cbn [gS g slot] in E. rewrite bind_ret in E.
    unfold call in E. pose proof (cs_lt ct cd cs cc cm cr SO) as Hc.
    unfold strand_call in E. destruct (nth_error ct cs) as [ci|] eqn:Ec; [|apply nth_error_None in Ec; lia].
    destruct (sing_lookup (cget (r_st r) cs) nm None) as [o| |e] eqn:EL; try discriminate.
    injection E as <- <-. unfold NameAt. cbn [r_st with_st hold heap].
    eapply lookup_name; eauto.
  Qed.

  Lemma op_strand_seq_x (P : rstate -> Prop) nm :
    Stable P -> nonempty nm = true -> Op P (strand_seq ct G nm) (SeqN nm).
  Proof.
    intros SP Hne. unfold strand_seq.
    eapply op_bind with (Q1 := fun i r => RetQ cs i r /\ NameAt i nm r); [| exact SP | intros i].
    { apply op_strengthen; [apply op_strand_by_name; exact SO|].
      intros r r' i GD _ E _ _. eapply strand_by_name_inv; eauto. }
    eapply op_bind; [apply op_get_state' |
                     apply stable_and; [exact SP | apply stable_and; [apply stable_retq | apply stable_nameat]] | intros st].
    apply op_lift'. intros r GD [[Pr [[Hh Hc] Hn]] ->].
    destruct (clsat_obj _ _ _ Hc) as [o [Ho Eo]].
    destruct (kinv_strand ct cd cs cc cm cr _ i o (rg_kinv _ _ _ _ _ _ _ GD) SO Ho Eo) as [es [Ed _]].
    unfold seq_of. rewrite Ho, Ed. exists i. split; [exact Hh|]. split; [exact Hc|]. split; [|exact Hn].
    unfold DataAt, data_at. rewrite Ho. cbn. rewrite Ed. reflexivity.
  Qed.

  (* an element of a held strand: the domain object of that name, kept alive by the strand *)
  Definition ElemD (e : elem) (r : rstate) : Prop :=
    exists j, snd e = Some j /\ DomAt j (fst e) r /\ Kept j r.

  Lemma stable_elemd e : Stable (ElemD e).
  Proof.
    intros r r' X [j [H1 [H2 H3]]]. exists j. split; [exact H1|].
    split; [eapply stable_domat; eauto | eapply stable_kept; eauto].
  Qed.

  Lemma elemd_elemq e r : ElemD e r -> ElemQ cd e r.
  Proof.
    intros [j [H1 [[ob [A [B _]]] H3]]]. exists j. split; [exact H1|]. split; [|exact H3].
    unfold ClsAt, cls_at. rewrite A. cbn. rewrite B. reflexivity.
  Qed.

  Lemma seqn_elems nm es r : RGood r -> SeqN nm es r -> Forall (fun e => ElemD e r) es.
  Proof.
    intros GD [i [Hh [Hc [Hd _]]]]. destruct (clsat_obj _ _ _ Hc) as [o [Ho Eo]].
    pose proof (rg_kinv _ _ _ _ _ _ _ GD) as K.
    destruct (kinv_strand ct cd cs cc cm cr _ i o K SO Ho Eo) as [es' [Ed [Ech [_ [_ F]]]]].
    unfold DataAt, data_at in Hd. rewrite Ho in Hd. cbn in Hd. rewrite Ed in Hd. injection Hd as ->.
    apply Forall_forall. intros e He. rewrite Forall_forall in F. destruct (F e He) as [j [E1 [E2 E3]]].
    exists j. split; [exact E1|]. split.
    - unfold cls_at in E2. destruct (hget (heap (r_st r)) j) as [oj|] eqn:Ej; [|discriminate].
      cbn in E2. injection E2 as Ecj. destruct (kinv_dom ct cd cs cc cm cr _ j oj K SO Ej Ecj) as [l [Edj _]].
      exists oj. split; [exact Ej|]. split; [exact Ecj|]. split; [unfold obj_name in E3; rewrite Ej in E3; exact E3|].
      exists l. split; [exact Edj | discriminate].
    - right. exists i, (elem_ids es). split; [exact Hh|].
      split; [unfold children_at; rewrite Ho; cbn; rewrite Ech; reflexivity | eapply in_elem_ids; eauto].
  Qed.

  (* ---- what replaces a name of the kernel string ---- *)
  (* the for-loop over subseq: each element becomes its domain object; an empty subseq leaves the name *)
  Definition Expand1 (d : pstr) (es : list elem) (cells : list cell) (r : rstate) : Prop :=
    match es with
    | [] => cells = [CStr d]
    | _ => Forall2 (fun e c => exists j, snd e = Some j /\ c = CDom j /\ DomAt j (fst e) r) es cells
    end.

  Definition CellFor (d : pstr) (cells : list cell) (r : rstate) : Prop :=
    (* a domain of that name *)
    (exists j, cells = [CDom j] /\ DomAt j d r) \/
    (* a composite domain (strand) of that name: its elements *)
    (exists es, SeqN d es r /\ Expand1 d es cells r) \/
    (* the complement of a composite domain: the complements of its elements, reversed *)
    (exists cn compl subseq, complement_name d = Ok cn /\ SeqN cn compl r /\
        Forall2 (fun e e' => exists j', snd e' = Some j' /\ fst e' = cname_of (fst e) /\ DomAt j' (cname_of (fst e)) r)
                (rev compl) subseq /\
        Expand1 d subseq cells r).

  Lemma stable_expand1 d es cells : Stable (Expand1 d es cells).
  Proof.
    unfold Expand1. destruct es as [|e0 es]; [apply stable_const|].
    apply stable_forall2. intros e c r r' X [j [H1 [H2 H3]]]. exists j. split; [exact H1|]. split; [exact H2|].
    eapply stable_domat; eauto.
  Qed.

  Lemma stable_cellfor d cells : Stable (CellFor d cells).
  Proof.
    intros r r' X [[j [E D]]|[[es [S1 E1]]|[cn [compl [subseq [Ec [S1 [F E1]]]]]]]].
    - left. exists j. split; [exact E | eapply stable_domat; eauto].
    - right. left. exists es. split; [eapply stable_seqn; eauto | eapply stable_expand1; eauto].
    - right. right. exists cn, compl, subseq. split; [exact Ec|]. split; [eapply stable_seqn; eauto|].
      split; [|eapply stable_expand1; eauto].
      revert F. apply (stable_forall2 (fun e e' r0 => exists j', snd e' = Some j' /\ fst e' = cname_of (fst e) /\
                                                     DomAt j' (cname_of (fst e)) r0)); [|exact X].
      intros e e' r0 r0' X0 [j' [A [B C]]]. exists j'. split; [exact A|]. split; [exact B | eapply stable_domat; eauto].
  Qed.

  (* ~d for an element of a strand's sequence *)
  Definition InvQ (e e' : elem) (r : rstate) : Prop :=
    exists j', snd e' = Some j' /\ fst e' = cname_of (fst e) /\ DomAt j' (cname_of (fst e)) r /\ Held j' r.

  Lemma stable_invq e e' : Stable (InvQ e e').
  Proof.
    intros r r' X [j' [A [B [C D]]]]. exists j'. split; [exact A|]. split; [exact B|].
    split; [eapply stable_domat; eauto | eapply stable_held; eauto].
  Qed.

  Lemma op_invert_elem_x (P : rstate -> Prop) e :
    Stable P -> (forall r, P r -> ElemD e r) -> Op P (invert_elem ct e) (InvQ e).
  Proof.
    intros SP HP. unfold invert_elem. destruct (snd e) as [i|] eqn:E.
    - eapply op_bind; [apply (op_invert_x P i (fst e)) | exact SP | intros j].
      { intros r Pr. destruct (HP r Pr) as [i' [Ei [Hd _]]]. rewrite E in Ei. injection Ei as <-. exact Hd. }
      eapply op_bind; [apply op_get_state' |
                       apply stable_and; [exact SP | apply stable_and; [apply stable_retq | apply stable_domat]] | intros st].
      apply op_ret. intros r [[_ [[Hh Hc] Hd]] ->]. exists j. cbn [elem_of fst snd].
      split; [reflexivity|]. split; [unfold oname; apply (isdom_name cd _ _ _ _ Hd)|]. split; [exact Hd | exact Hh].
    - intros r GD Pr. destruct (HP r Pr) as [j [Ej _]]. congruence.
  Qed.

  Lemma op_assert_domain_x (P : rstate -> Prop) e :
    (forall r, P r -> exists j, snd e = Some j /\ DomAt j (fst e) r /\ Kept j r) ->
    Op P (assert_domain ct G e)
       (fun c r => CellQ c r /\ exists j, snd e = Some j /\ c = CDom j /\ DomAt j (fst e) r).
  Proof.
    intros HP r GD Pr. unfold assert_domain. cbn [gD g slot]. rewrite bind_ret. unfold bind, get_state.
    destruct (HP r Pr) as [j [Ej [Dj Kj]]]. rewrite Ej.
    destruct (isinst ct (r_st r) j cd); cbn.
    - split; [exact GD|]. split; [apply rext_refl|]. split; [exact Kj | eauto].
    - split; [exact GD|]. split; [apply rext_refl | reflexivity].
  Qed.

  (* the for-loop over a non-empty subseq *)
  Lemma op_assert_all (P : rstate -> Prop) d subseq :
    Stable P -> (forall r, P r -> Forall (fun e => exists j, snd e = Some j /\ DomAt j (fst e) r /\ Kept j r) subseq) ->
    Op P (match subseq with [] => ret [CStr d] | _ => mapM (assert_domain ct G) subseq end)
       (fun cells r => CellsQ cells r /\ Expand1 d subseq cells r).
  Proof.
    intros SP HP. destruct subseq as [|e0 rest].
    - apply op_ret. intros r _. split; [constructor; [exact I | constructor] | reflexivity].
    - eapply op_conseq with (P := P)
        (Q := fun ys r => Forall2 (fun x y => CellQ y r /\ exists j, snd x = Some j /\ y = CDom j /\ DomAt j (fst x) r) (e0 :: rest) ys).
      + apply op_mapM with (Qx := fun x y r => CellQ y r /\ exists j, snd x = Some j /\ y = CDom j /\ DomAt j (fst x) r).
        * intros x Hx. apply op_assert_domain_x. intros r Pr. specialize (HP r Pr). rewrite Forall_forall in HP. auto.
        * exact SP.
        * intros x y r r' X [H1 [j [A [B C]]]]. split; [eapply stable_cellq; eauto|].
          exists j. split; [exact A|]. split; [exact B | eapply stable_domat; eauto].
      + auto.
      + intros ys r _ F. split.
        * unfold CellsQ. clear -F. induction F as [|x y l l' [H _] F IH]; constructor; auto.
        * unfold Expand1. clear -F. induction F as [|x y l l' [_ H] F IH]; constructor; auto.
  Qed.

  Lemma op_keep {A} (P : rstate -> Prop) (m : M A) Q :
    Op P m Q -> Stable P -> Op P m (fun a r => Q a r /\ P r).
  Proof.
    intros H SP r GD Pr. specialize (H r GD Pr). destruct (m r) as [r' [a|k]]; [|exact H].
    destruct H as [G1 [X1 Qa]]. split; [exact G1|]. split; [exact X1|]. split; [exact Qa | eapply SP; eauto].
  Qed.

  Definition KeptDom (e : elem) (r : rstate) : Prop := exists j, snd e = Some j /\ DomAt j (fst e) r /\ Kept j r.
  Lemma stable_keptdom e : Stable (KeptDom e). Proof. apply stable_elemd. Qed.

  Definition InvRel (e e' : elem) (r : rstate) : Prop :=
    exists j', snd e' = Some j' /\ fst e' = cname_of (fst e) /\ DomAt j' (cname_of (fst e)) r.
  Lemma stable_invrel e e' : Stable (InvRel e e').
  Proof.
    intros r r' X [j' [A [B C]]]. exists j'. split; [exact A|]. split; [exact B | eapply stable_domat; eauto].
  Qed.

  Definition SubFrom (d : pstr) (subseq : list elem) (r : rstate) : Prop :=
    SeqN d subseq r \/
    exists cn compl, complement_name d = Ok cn /\ SeqN cn compl r /\ Forall2 (fun e e' => InvRel e e' r) (rev compl) subseq.
  Lemma stable_subfrom d subseq : Stable (SubFrom d subseq).
  Proof.
    intros r r' X [H|[cn [compl [A [B C]]]]]; [left; eapply stable_seqn; eauto|].
    right. exists cn, compl. split; [exact A|]. split; [eapply stable_seqn; eauto|].
    revert C. apply (stable_forall2 InvRel); [intros; apply stable_invrel | exact X].
  Qed.

  Lemma complement_name_nonempty d cn : nm_ok d -> complement_name d = Ok cn -> nonempty cn = true.
  Proof.
    intros Hd Ecn. unfold complement_name in Ecn. unfold Loops.cStar in Ecn.
    destruct (rev d) as [|c0 r0] eqn:Er; [discriminate|].
    injection Ecn as <-. destruct (N.eqb c0 42) eqn:Es.
    - destruct Hd as [_ [H2 _]]. unfold cname_of, starred in H2. rewrite Er in H2.
      unfold Registry.cStar in H2. rewrite Es in H2.
      assert (Ed : d = rev r0 ++ [c0]) by (rewrite <- (rev_involutive d), Er; reflexivity).
      rewrite Ed, removelast_last in H2. destruct (rev r0); [congruence | reflexivity].
    - destruct d; [discriminate | reflexivity].
  Qed.

  Lemma op_subseq (P : rstate -> Prop) d :
    Stable P -> nm_ok d ->
    Op P (catch (strand_seq ct G d) (is_sing)
            (catch (dm cn <- lift (complement_name d); dm compl <- strand_seq ct G cn; mapM (invert_elem ct) (rev compl))
                   is_sing (fail ePilFormat)))
       (fun subseq r => Forall (fun e => KeptDom e r) subseq /\ SubFrom d subseq r).
  Proof.
    intros SP Hd. assert (Hne : nonempty d = true) by (destruct Hd as [H _]; destruct d; [congruence | reflexivity]).
    apply op_catch; [| exact SP |].
    - eapply op_conseq; [apply op_strand_seq_x; [exact SP | exact Hne] | auto |].
      intros es r GD H. split; [apply (seqn_elems d es r GD H) | left; exact H].
    - apply op_catch; [| exact SP | apply op_fail; reflexivity].
      destruct (complement_name_ok d (proj1 Hd)) as [cn Ecn]. rewrite Ecn. rewrite bind_lift_Ok.
      pose proof (complement_name_nonempty d cn Hd Ecn) as Hcn.
      eapply op_bind; [apply op_strand_seq_x; [exact SP | exact Hcn] | exact SP | intros compl].
      assert (SP2 : Stable (fun r => (P r /\ SeqN cn compl r) /\ Forall (fun e => ElemD e r) (rev compl))).
      { apply stable_and; [apply stable_and; [exact SP | apply stable_seqn]|]. apply stable_forall. apply stable_elemd. }
      eapply op_conseq with (P := fun r => (P r /\ SeqN cn compl r) /\ Forall (fun e => ElemD e r) (rev compl)).
      + apply op_keep; [|exact SP2].
        apply op_mapM with (Qx := InvQ); [| exact SP2 | intros x y; apply stable_invq].
        intros x Hx. apply op_invert_elem_x; [exact SP2|]. intros r [_ F]. rewrite Forall_forall in F. auto.
      + intros r GD H. split; [exact H|]. apply Forall_rev. apply (seqn_elems cn compl r GD (proj2 H)).
      + intros ys r _ [F [[_ Sq] _]]. split.
        * clear -F. induction F as [|x y l l' [j' [A [B [C D]]]] F IH]; constructor; [|exact IH].
          exists j'. split; [exact A|]. split; [rewrite B; exact C | left; exact D].
        * right. exists cn, compl. split; [exact Ecn|]. split; [exact Sq|].
          clear -F. induction F as [|x y l l' [j' [A [B [C D]]]] F IH]; constructor; [|exact IH].
          exists j'. auto.
  Qed.

  Lemma op_expand_one_x (P : rstate -> Prop) d :
    Stable P -> nm_ok d ->
    Op P (expand_one ct G d) (fun cells r => CellsQ cells r /\ CellFor d cells r).
  Proof.
    intros SP Hd. unfold expand_one. apply op_catch; [| exact SP |].
    - eapply op_bind; [apply op_domain_by_name_x; exact Hd | exact SP | intros i].
      apply op_ret. intros r [_ [[Hh _] Dd]]. split; [constructor; [left; exact Hh | constructor]|].
      left. exists i. auto.
    - eapply op_bind; [apply op_subseq; assumption | exact SP | intros subseq].
      assert (SP2 : Stable (fun r => P r /\ (Forall (fun e => KeptDom e r) subseq /\ SubFrom d subseq r))).
      { apply stable_and; [exact SP|]. apply stable_and; [apply stable_forall; apply stable_keptdom | apply stable_subfrom]. }
      eapply op_conseq; [apply op_keep; [apply (op_assert_all _ d subseq SP2) | exact SP2] | auto |].
      + intros r [_ [F _]]. exact F.
      + intros cells r _ [[Hc He] [_ [_ Hs]]]. split; [exact Hc|].
        destruct Hs as [Hs|[cn [compl [A [B C]]]]].
        * right. left. exists subseq. auto.
        * right. right. exists cn, compl, subseq. auto.
  Qed.

  (* ---- the whole kernel string: every name replaced, its structure character repeated ---- *)
  Inductive Expn (r : rstate) : list (pstr * chr) -> list (cell * chr) -> Prop :=
  | ex_nil : Expn r [] []
  | ex_plus s rest out : Expn r rest out -> Expn r ((sPlus, s) :: rest) ((CStr sPlus, s) :: out)
  | ex_name d s rest cells out :
      d <> sPlus -> CellFor d cells r -> Expn r rest out ->
      Expn r ((d, s) :: rest) (map (fun c => (c, s)) cells ++ out).

  Lemma stable_expn todo out : Stable (fun r => Expn r todo out).
  Proof.
    intros r r' X H. induction H; [constructor | constructor; assumption |].
    constructor; [assumption | eapply stable_cellfor; eauto | assumption].
  Qed.

  Lemma str_eqb_plus d : str_eqb d sPlus = false -> d <> sPlus.
  Proof. intros E ->. unfold sPlus in E. cbn in E. discriminate. Qed.
  Lemma str_eqb_plus_t d : str_eqb d sPlus = true -> d = sPlus.
  Proof. apply str_eqb_iff. Qed.

  Lemma op_expand_loop_x (P : rstate -> Prop) todo :
    Stable P -> Forall (fun x => kname_ok (fst x)) todo ->
    forall done, Op (fun r => P r /\ CellsQ (map fst done) r) (expand_loop ct G todo done)
                    (fun cl r => CellsQ (map fst cl) r /\ exists out, cl = rev done ++ out /\ Expn r todo out).
  Proof.
    intros SP. revert P SP. induction todo as [|[d s] todo IH]; intros P SP Ht done; cbn [expand_loop].
    - apply op_ret. intros r [_ H]. split; [rewrite map_rev; apply Forall_rev; exact H|].
      exists []. rewrite app_nil_r. split; [reflexivity | constructor].
    - inversion Ht as [|? ? Hd Ht']; subst. cbn [fst] in Hd.
      destruct (str_eqb d sPlus) eqn:E.
      + apply str_eqb_plus_t in E. subst d.
        eapply op_conseq; [apply (IH P SP Ht' ((CStr sPlus, s) :: done)) | |].
        * intros r _ [Pr H]. split; [exact Pr|]. cbn [map fst]. constructor; [exact I | exact H].
        * intros cl r _ [Hc [out [E1 E2]]]. split; [exact Hc|]. exists ((CStr sPlus, s) :: out).
          split; [rewrite E1; cbn [rev]; rewrite <- app_assoc; reflexivity | constructor; exact E2].
      + pose proof (str_eqb_plus d E) as Hne.
        assert (Hn : nm_ok d) by (destruct Hd as [->|H]; [congruence | exact H]).
        assert (SP2 : Stable (fun r => P r /\ CellsQ (map fst done) r))
          by (apply stable_and; [exact SP | apply stable_cellsq]).
        eapply op_bind; [apply op_expand_one_x; [exact SP2 | exact Hn] | exact SP2 | intros cl].
        assert (SP3 : Stable (fun r => P r /\ CellFor d cl r)) by (apply stable_and; [exact SP | apply stable_cellfor]).
        eapply op_conseq; [apply op_keep; [apply (IH _ SP3 Ht' (rev (map (fun c => (c, s)) cl) ++ done))|] | |].
        * apply stable_and; [exact SP3 | apply stable_cellsq].
        * intros r _ [[Pr H] [Hc Hf]]. split; [split; assumption|]. unfold CellsQ. rewrite map_app, map_rev, map_map. cbn [fst].
          rewrite map_id. apply Forall_app. split; [apply Forall_rev; exact Hc | exact H].
        * intros res r _ [[Hc [out [E1 E2]]] [[_ Hf] _]]. split; [exact Hc|].
          exists (map (fun c => (c, s)) cl ++ out). split.
          -- rewrite E1, rev_app_distr, rev_involutive, <- app_assoc. reflexivity.
          -- constructor; assumption.
  Qed.

  (* the first attempt: every name a domain *)
  Definition FirstQ (x : pstr) (c : cell) (r : rstate) : Prop :=
    (x = sPlus /\ c = CStr sPlus) \/ (x <> sPlus /\ exists j, c = CDom j /\ DomAt j x r).

  Lemma op_first_attempt_x (P : rstate -> Prop) names :
    Stable P -> Forall kname_ok names ->
    Op P (first_attempt ct G names) (fun cl r => CellsQ cl r /\ Forall2 (fun x c => FirstQ x c r) names cl).
  Proof.
    intros SP Hn. unfold first_attempt.
    eapply op_conseq with (P := P) (Q := fun ys r => Forall2 (fun x y => CellQ y r /\ FirstQ x y r) names ys); [| auto |].
    - apply op_mapM with (Qx := fun x y r => CellQ y r /\ FirstQ x y r); [| exact SP |].
      + intros x Hx. rewrite Forall_forall in Hn. specialize (Hn x Hx).
        destruct (str_eqb x sPlus) eqn:E.
        * apply str_eqb_plus_t in E. subst x. apply op_ret. intros r _. split; [exact I | left; auto].
        * pose proof (str_eqb_plus x E) as Hne.
          assert (Hx' : nm_ok x) by (destruct Hn as [->|H]; [congruence | exact H]).
          eapply op_bind; [apply op_domain_by_name_x; exact Hx' | exact SP | intros i].
          apply op_ret. intros r [_ [[Hh _] Dd]]. split; [left; exact Hh|]. right. split; [exact Hne|]. eauto.
      + intros x y r r' X [H1 [H2|[H2 [j [A B]]]]]; (split; [eapply stable_cellq; eauto|]); [left; exact H2|].
        right. split; [exact H2|]. exists j. split; [exact A | eapply stable_domat; eauto].
    - intros ys r _ F. split.
      + unfold CellsQ. clear -F. induction F as [|x y l l' [H _] F IH]; constructor; auto.
      + clear -F. induction F as [|x y l l' [_ H] F IH]; constructor; auto.
  Qed.

  Lemma first_expn r : forall names cl sst,
    Forall2 (fun x c => FirstQ x c r) names cl -> length names = length sst ->
    Expn r (combine names sst) (combine cl sst).
  Proof.
    intros names cl sst F. revert sst. induction F as [|x c names cl H F IH]; intros [|s sst] EL; try discriminate; cbn [combine].
    - constructor.
    - injection EL as EL. destruct H as [[-> ->]|[Hne [j [-> Dj]]]].
      + constructor. apply IH. exact EL.
      + change ((CDom j, s) :: combine cl sst) with (map (fun c0 => (c0, s)) [CDom j] ++ combine cl sst).
        constructor; [exact Hne | left; eauto | apply IH; exact EL].
  Qed.

  Lemma combine_fst {A B} (l : list A) (l' : list B) : length l = length l' -> map fst (combine l l') = l.
  Proof. revert l'. induction l as [|x l IH]; intros [|y l'] E; try discriminate; cbn; [reflexivity|]. f_equal. apply IH. cbn in E. lia. Qed.
  Lemma combine_snd {A B} (l : list A) (l' : list B) : length l = length l' -> map snd (combine l l') = l'.
  Proof. revert l'. induction l as [|x l IH]; intros [|y l'] E; try discriminate; cbn; [reflexivity|]. f_equal. apply IH. cbn in E. lia. Qed.

  (* kernel_sequence: (cells, structure) is an expansion of (names, structure) *)
  Definition KSeqQ (names : list pstr) (sst : list chr) (x : list cell * list chr) (r : rstate) : Prop :=
    CellsQ (fst x) r /\ exists out, Expn r (combine names sst) out /\ fst x = map fst out /\ snd x = map snd out.

  Lemma op_kernel_sequence_x (P : rstate -> Prop) names sst :
    Stable P -> Forall kname_ok names -> length names = length sst ->
    Op P (kernel_sequence ct G names sst) (KSeqQ names sst).
  Proof.
    intros SP Hn EL r GD Pr. unfold kernel_sequence. unfold bind at 1. unfold nroots at 1. cbv beta iota.
    unfold catch.
    assert (H1 : Op P (dm cl <- first_attempt ct G names; ret (cl, sst)) (KSeqQ names sst)).
    { eapply op_bind; [apply op_first_attempt_x; assumption | exact SP | intros cl].
      apply op_ret. intros r0 [_ [Hc F]]. split; [exact Hc|]. exists (combine cl sst). cbn [fst snd].
      assert (ELc : length cl = length sst).
      { rewrite <- EL. symmetry. clear -F. induction F; cbn; auto. }
      split; [apply first_expn; assumption|]. split; [symmetry; apply combine_fst; exact ELc | symmetry; apply combine_snd; exact ELc]. }
    specialize (H1 r GD Pr).
    destruct ((dm cl <- first_attempt ct G names; ret (cl, sst)) r) as [r1 [a|k]]; [exact H1|].
    destruct H1 as [G1 [X1 NF]]. destruct (is_sing k); [|auto].
    unfold bind at 1.
    destruct (release_good ct cd cs cc cm cr r r1 [] G1 X1 ltac:(intros i [])) as [G2 [Er Xh]].
    set (r2 := fst (release (length (roots (r_st r))) [] r1)) in *.
    assert (E2 : release (length (roots (r_st r))) [] r1 = (r2, Ok tt)) by reflexivity.
    rewrite E2.
    assert (X2 : RExt r r2).
    { constructor; [rewrite Er; cbn; rewrite app_nil_r; apply prefix_refl | exact Xh]. }
    assert (P2 : P r2) by (eapply SP; eauto).
    assert (H3 : Op P (if negb (length names =? length sst) then fail eBadLine
                       else dm cl <- expand_loop ct G (combine names sst) []; ret (map fst cl, map snd cl))
                      (KSeqQ names sst)).
    { destruct (negb (length names =? length sst)); [apply op_fail; reflexivity|].
      eapply op_bind; [| exact SP | intros cl; apply op_ret; intros r0 [_ H]; exact H].
      eapply op_conseq; [apply (op_expand_loop_x P (combine names sst) SP) with (done := []) | |].
      - apply forall_combine. exact Hn.
      - intros r0 _ Pr0. split; [exact Pr0 | constructor].
      - intros cl r0 _ [Hc [out [E1 E3]]]. cbn [rev app] in E1. subst out. split; [exact Hc|]. exists cl. auto. }
    specialize (H3 r2 G2 P2).
    match goal with |- match ?m r2 with _ => _ end => destruct (m r2) as [r3 [a|k3]] end;
      destruct H3 as [G3 [X3 R3]]; (split; [exact G3|]; split; [eapply rext_trans; eauto | exact R3]).
  Qed.

  (* ---- names stay free while only objects of other kinds are created ---- *)
  Lemma live_was_registered c (Pn : obj -> Prop) r r1 i o :
    RGood r -> RGood r1 -> HExt Pn (heap (r_st r)) (heap (r_st r1)) ->
    (forall x, Pn x -> obj_ok cd cs cc cm cr (heap (r_st r1)) x -> o_cls x <> c) ->
    hget (heap (r_st r1)) i = Some o -> o_live o = true -> o_cls o = c ->
    nlookup (o_name o) (cs_names (cget (r_st r) c)) = Some i.
  Proof.
    intros [[R0 _] _] [_ K1] X HP Ho Hl Hc.
    destruct (Nat.lt_ge_cases i (length (heap (r_st r)))) as [L|L].
    - destruct (proj1 (hget_some_iff _ i) L) as [o0 Ho0].
      destruct (hx_old _ _ _ X i o0 Ho0) as [o' [Ho' Kl]]. rewrite Ho in Ho'. injection Ho' as <-.
      assert (o = o0) by (destruct Kl as [E|E]; [exact E | subst o; cbn in Hl; discriminate]). subst o0.
      destruct (ok_obj _ _ R0 i o (conj Ho0 Hl)) as [_ [[N1 _] _]]. rewrite Hc in N1. exact N1.
    - exfalso. apply (HP o (hx_new _ _ _ X i o L Ho) (K1 i o Ho)). exact Hc.
  Qed.

  Lemma fresh_name_carry c (Pn : obj -> Prop) r r1 nm :
    RGood r -> RGood r1 -> c < length ct -> HExt Pn (heap (r_st r)) (heap (r_st r1)) ->
    (forall x, Pn x -> obj_ok cd cs cc cm cr (heap (r_st r1)) x -> o_cls x <> c) ->
    nlookup nm (cs_names (cget (r_st r) c)) = None -> nlookup nm (cs_names (cget (r_st r1) c)) = None.
  Proof.
    intros GD G1 Hc X HP Hn. destruct (nlookup nm (cs_names (cget (r_st r1) c))) as [i|] eqn:E; [|reflexivity].
    exfalso. pose proof G1 as [[R1 _] _]. apply (alookup_in str_eqb str_eqb_iff) in E.
    destruct (ok_nv _ _ _ (ok_cls _ _ R1 c Hc) nm i E) as [o [[Ho Hl] [Ec En]]].
    pose proof (live_was_registered c Pn r r1 i o GD G1 X HP Ho Hl Ec) as H. rewrite En in H. congruence.
  Qed.

  Lemma dom_not_other x h c : c <> cd -> dom_data x -> obj_ok cd cs cc cm cr h x -> o_cls x <> c.
  Proof.
    intros Hc Hd [[E _]|[[_ [es [E _]]]|[[_ E]|[[_ E]|[_ [a [b [t [m [rr [pp [E _]]]]]]]]]]]]; unfold dom_data in Hd.
    - congruence.
    - rewrite E in Hd. contradiction.
    - destruct (o_data x); cbn in E; contradiction.
    - destruct (o_data x); cbn in E; contradiction.
    - rewrite E in Hd. contradiction.
  Qed.

  (* ---- a complex under a free name is created with exactly the requested sequence and structure ---- *)
  Lemma cplx_call_fresh st es ss nm id b :
    nonempty nm = true -> nlookup nm (cs_names (cget st cc)) = None ->
    snd (cplx_call ct cc st (Some es) (Some ss) (Some nm) None) = CRet id b ->
    exists ob t, hget (heap (fst (cplx_call ct cc st (Some es) (Some ss) (Some nm) None))) id = Some ob /\
                 o_cls ob = cc /\ o_name ob = nm /\ o_data ob = DCplx es ss t.
  Proof.
    intros Hne Hn. unfold cplx_call.
    destruct (nth_error ct cc) as [ci|] eqn:Ec; [|cbn; discriminate]. cbn [resolve_name].
    destruct (negb _); [cbn; discriminate|]. destruct (Nat.eqb _ 0); [cbn; discriminate|].
    destruct (rot_loop _ 0 _ _ ss []) as [[ex cdict]|k]; [|cbn; discriminate].
    match goal with |- snd (match ?x with _ => _ end) = _ -> _ => destruct x as [[cn e]|k] end; [|cbn; discriminate].
    unfold sing_lookup. rewrite Hne, Hn.
    destruct (klookup (KCplx cn) (cs_canon (cget st cc))); [cbn; discriminate|].
    unfold create. rewrite Ec. destruct (c_fail ci); cbn [alloc fst snd]; try (intros E; discriminate).
    intros E. injection E as <- _. rewrite heap_register. cbn [heap]. rewrite hget_new.
    eexists. eexists. repeat split; reflexivity.
  Qed.

  (* the names of the cells never change *)
  Lemma cell_elem_ext (P0 : obj -> Prop) st st' c :
    HExt P0 (heap st) (heap st') -> (match c with CDom j => exists o, hget (heap st) j = Some o | CStr _ => True end) ->
    cell_elem st' c = cell_elem st c.
  Proof.
    intros X H. destruct c as [s0|j]; [reflexivity|]. destruct H as [o Ho]. cbn [cell_elem]. unfold elem_of, oname, obj_name.
    rewrite Ho. destruct (hx_old _ _ _ X j o Ho) as [o' [Ho' [->| ->]]]; rewrite Ho'; reflexivity.
  Qed.

  Definition cplx_data (o : obj) : Prop := match o_data o with DCplx _ _ _ => True | _ => False end.
  Definition dc_data (o : obj) : Prop := dom_data o \/ cplx_data o.
  Lemma dc_data_kill : kill_closed dc_data. Proof. intros o H. exact H. Qed.

  (* ---- the same relations on a heap alone (no reference to what the reader holds) ---- *)
  Definition SeqH (h : list obj) (nm : pstr) (es : list elem) : Prop :=
    exists i ob, hget h i = Some ob /\ o_cls ob = cs /\ o_name ob = nm /\ o_data ob = DStrand es.
  Definition Expand1H (h : list obj) (d : pstr) (es : list elem) (cells : list cell) : Prop :=
    match es with
    | [] => cells = [CStr d]
    | _ => Forall2 (fun e c => exists j, snd e = Some j /\ c = CDom j /\ IsDom cd h j (fst e) None) es cells
    end.
  Definition CellForH (h : list obj) (d : pstr) (cells : list cell) : Prop :=
    (exists j, cells = [CDom j] /\ IsDom cd h j d None) \/
    (exists es, SeqH h d es /\ Expand1H h d es cells) \/
    (exists cn compl subseq, complement_name d = Ok cn /\ SeqH h cn compl /\
        Forall2 (fun e e' => exists j', snd e' = Some j' /\ fst e' = cname_of (fst e) /\ IsDom cd h j' (cname_of (fst e)) None)
                (rev compl) subseq /\
        Expand1H h d subseq cells).
  Inductive ExpnH (h : list obj) : list (pstr * chr) -> list (cell * chr) -> Prop :=
  | exh_nil : ExpnH h [] []
  | exh_plus s rest out : ExpnH h rest out -> ExpnH h ((sPlus, s) :: rest) ((CStr sPlus, s) :: out)
  | exh_name d s rest cells out :
      d <> sPlus -> CellForH h d cells -> ExpnH h rest out ->
      ExpnH h ((d, s) :: rest) (map (fun c => (c, s)) cells ++ out).

  Lemma seqh_ext P0 h h' nm es : HExt P0 h h' -> SeqH h nm es -> SeqH h' nm es.
  Proof.
    intros X [i [ob [H1 H2]]]. destruct (hx_old _ _ _ X i ob H1) as [o' [H' [E|E]]]; subst o'.
    - exists i, ob. auto.
    - exists i, (kill ob). auto.
  Qed.
  Lemma expand1h_ext P0 h h' d es cells : HExt P0 h h' -> Expand1H h d es cells -> Expand1H h' d es cells.
  Proof.
    intros X. unfold Expand1H. destruct es as [|e0 es0]; [auto|]. apply Forall2_impl'.
    intros e c [j [A [B C]]]. exists j. split; [exact A|]. split; [exact B | eapply isdom_ext; eauto].
  Qed.
  Lemma cellforh_ext P0 h h' d cells : HExt P0 h h' -> CellForH h d cells -> CellForH h' d cells.
  Proof.
    intros X [[j [E D]]|[[es [S1 E1]]|[cn [compl [subseq [Ec [S1 [F E1]]]]]]]].
    - left. exists j. split; [exact E | eapply isdom_ext; eauto].
    - right. left. exists es. split; [eapply seqh_ext; eauto | eapply expand1h_ext; eauto].
    - right. right. exists cn, compl, subseq. split; [exact Ec|]. split; [eapply seqh_ext; eauto|].
      split; [|eapply expand1h_ext; eauto].
      revert F. apply Forall2_impl'. intros e e' [j' [A [B C]]].
      exists j'. split; [exact A|]. split; [exact B | eapply isdom_ext; eauto].
  Qed.
  Lemma expnh_ext P0 h h' todo out : HExt P0 h h' -> ExpnH h todo out -> ExpnH h' todo out.
  Proof.
    intros X H. induction H; [constructor | constructor; assumption |].
    constructor; [assumption | eapply cellforh_ext; eauto | assumption].
  Qed.

  Lemma seqn_seqh nm es r : SeqN nm es r -> SeqH (heap (r_st r)) nm es.
  Proof.
    intros [i [_ [Hc [Hd [o [Ho En]]]]]]. exists i, o. split; [exact Ho|].
    unfold ClsAt, cls_at in Hc. rewrite Ho in Hc. cbn in Hc. unfold DataAt, data_at in Hd. rewrite Ho in Hd. cbn in Hd.
    split; [congruence|]. split; [exact En | congruence].
  Qed.
  Lemma expand1_h d es cells r : Expand1 d es cells r -> Expand1H (heap (r_st r)) d es cells.
  Proof. unfold Expand1, Expand1H. destruct es; auto. Qed.
  Lemma cellfor_h d cells r : CellFor d cells r -> CellForH (heap (r_st r)) d cells.
  Proof.
    intros [[j [E D]]|[[es [S1 E1]]|[cn [compl [subseq [Ec [S1 [F E1]]]]]]]].
    - left. eauto.
    - right. left. exists es. split; [apply seqn_seqh; exact S1 | apply expand1_h; exact E1].
    - right. right. exists cn, compl, subseq. split; [exact Ec|]. split; [apply seqn_seqh; exact S1|].
      split; [exact F | apply expand1_h; exact E1].
  Qed.
  Lemma expn_h r todo out : Expn r todo out -> ExpnH (heap (r_st r)) todo out.
  Proof. intros H. induction H; constructor; auto. apply cellfor_h. assumption. Qed.

  (* C14, kernel notation: sequence and structure of the filed complex.
     `names` / `sst` are what resolve_kernel_loops gives for the pattern; the complex name is not yet
     taken (a consistent system declares every complex once).  Then the complex filed under the name
     is new, and its sequence and structure are the expansion of (names, sst): `+` stays, a domain
     name becomes the domain singleton of that name, a composite-domain (strand) name becomes the
     strand's elements, the complement of a composite-domain name becomes the complements of the
     elements in reverse order, and the structure character of the name is repeated for every
     element it expands to. *)
  Theorem reader_builds_kernel_complex line nm names sst cc0 acc r r' acc' :
    decode line = Ok (SKer nm names sst cc0) -> Forall kname_ok names -> length names = length sst ->
    nonempty nm = true -> RGood r ->
    nlookup nm (cs_names (cget (r_st r) cc)) = None ->
    read_one ct G None (TList line) acc r = (r', Ok acc') ->
    exists i ob out t ra,
      hget (heap (r_st r')) i = Some ob /\ o_live ob = true /\ o_cls ob = cc /\ o_name ob = nm /\
      acc' = with_complexes acc (dset nm i (po_complexes acc)) /\
      ExpnH (heap (r_st r')) (combine names sst) out /\
      o_data ob = DCplx (map (cell_elem (r_st r')) (map fst out)) (map snd out) t /\
      (* ra: the state in which all names were resolved; only domain objects were created up to it,
         afterwards only this complex *)
      RGood ra /\ Expn ra (combine names sst) out /\
      HExt dom_data (heap (r_st r)) (heap (r_st ra)) /\ HExt cplx_data (heap (r_st ra)) (heap (r_st r')) /\
      RGood r' /\ RExt r r'.
  Proof.
    intros Hd Hn EL Hne GD Hfree E.
    pose proof (read_one_good ct cd cs cc cm cr SO IO (TList line) acc r
                  ltac:(exists line, (SKer nm names sst cc0); cbn; auto) GD) as HG.
    rewrite E in HG. destruct HG as [G' X'].
    unfold read_one in E. cbn [t_list] in E. rewrite bind_lift_Ok in E. cbn [ignored] in E.
    rewrite bind_lift_Ok in E. unfold bind at 1 in E. unfold nroots at 1 in E. cbv beta iota in E.
    unfold bind at 1 in E. rewrite (read_pil_line_decode ct G line _ (g_full cd cs cc cm cr) Hd r) in E.
    cbn [exec_stmt] in E. unfold bind at 1 in E.
    pose proof (op_kernel_sequence_x (fun _ => True) names sst stable_true Hn EL r GD I) as HK.
    pose proof (newdom_kernel_sequence ct G (heap (r_st r)) names sst r (hext_refl _ _)) as HN.
    destruct (kernel_sequence ct G names sst r) as [ra [[cl ss]|k0]]; [|discriminate].
    destruct HK as [Ga [Xa [Fa [out [Ex [E1 E2]]]]]]. cbn [fst snd] in Fa, E1, E2, HN. unfold NewDom in HN.
    cbn [gC g slot] in E. rewrite bind_ret in E. unfold bind at 1 in E. unfold get_state at 1 in E. cbv beta iota in E.
    cbn [fst snd] in E. unfold bind at 1 in E.
    assert (HO : Op (fun r0 => r0 = ra)
                    (call (fun st' => cplx_call ct cc st' (Some (map (cell_elem (r_st ra)) cl)) (Some ss) (Some nm) None)) (RetQ cc)).
    { apply (op_cplx_new ct cd cs cc cm cr SO). intros r0 GD0 -> x Hx.
      destruct (elem_ids_in _ x Hx) as [e [He Ee]]. apply in_map_iff in He. destruct He as [c0 [<- Hc0]].
      unfold CellsQ in Fa. rewrite Forall_forall in Fa. specialize (Fa c0 Hc0).
      destruct c0 as [s0|j]; cbn in Ee; [discriminate|]. injection Ee as <-. exact Fa. }
    specialize (HO ra Ga eq_refl).
    destruct (call (fun st' => cplx_call ct cc st' (Some (map (cell_elem (r_st ra)) cl)) (Some ss) (Some nm) None) ra)
      as [rb [i|k0]] eqn:Ec; [|discriminate].
    destruct HO as [Gb [Xb [Hi Hc]]].
    (* the name is still free at the call: the complex is created *)
    assert (Hfree_a : nlookup nm (cs_names (cget (r_st ra) cc)) = None).
    { apply (fresh_name_carry cc dom_data r ra nm GD Ga (cc_lt ct cd cs cc cm cr SO) HN); [|exact Hfree].
      intros x Hx Ho. apply (dom_not_other x (heap (r_st ra)) cc); [|exact Hx | exact Ho].
      pose proof (slots_neq ct cd cs cc cm cr SO) as [_ [N2 _]]. congruence. }
    assert (Dn : exists ob t, hget (heap (r_st rb)) i = Some ob /\ o_cls ob = cc /\ o_name ob = nm /\
                              o_data ob = DCplx (map (cell_elem (r_st ra)) cl) ss t).
    { unfold call in Ec.
      destruct (cplx_call ct cc (r_st ra) (Some (map (cell_elem (r_st ra)) cl)) (Some ss) (Some nm) None) as [st' [id b|k0 e0]] eqn:Es;
        [|discriminate].
      injection Ec as <- <-. cbn [r_st with_st hold heap].
      pose proof (cplx_call_fresh (r_st ra) (map (cell_elem (r_st ra)) cl) ss nm id b Hne Hfree_a (f_equal snd Es)) as H0.
      exact (eq_ind _ (fun z => exists ob t, hget (heap (fst z)) id = Some ob /\ o_cls ob = cc /\ o_name ob = nm /\
                                             o_data ob = DCplx (map (cell_elem (r_st ra)) cl) ss t) H0 _ Es). }
    assert (Xab : HExt cplx_data (heap (r_st ra)) (heap (r_st rb))).
    { unfold call in Ec.
      pose proof (sext_cplx_call cplx_data ct cc (r_st ra) (Some (map (cell_elem (r_st ra)) cl)) (Some ss) (Some nm) None
                    ltac:(intros o H; exact H) ltac:(intros; exact I)) as [_ XS].
      destruct (cplx_call ct cc (r_st ra) (Some (map (cell_elem (r_st ra)) cl)) (Some ss) (Some nm) None) as [st' [id b|k0 e0]];
        [|discriminate].
      injection Ec as <- _. exact XS. }
    set (rc := match cc0 with
               | Some x => mkR (r_st rb) (r_seq rb) (attr_set i x (r_conc rb)) (r_rate rb)
               | None => rb
               end).
    assert (EC : (dm _ <- match cc0 with Some x => set_conc i x | None => ret tt end; ret (RObj i)) rb = (rc, Ok (RObj i))).
    { unfold rc. destruct cc0; reflexivity. }
    rewrite EC in E. unfold bind at 1 in E.
    assert (Erc : r_st rc = r_st rb) by (unfold rc; destruct cc0; reflexivity).
    assert (Hcc : ClsAt i cc rc) by (unfold ClsAt; rewrite Erc; exact Hc).
    rewrite (file_obj_cplx ct cd cs cc cm cr CO i acc rc Hcc) in E. cbn [snd fst] in E.
    destruct Dn as [ob0 [t [Ho0 [Ecl [En0 Ed0]]]]].
    assert (Eon : oname (r_st rc) i = nm) by (unfold oname, obj_name; rewrite Erc, Ho0; exact En0).
    rewrite Eon in E.
    unfold bind, release, ret in E. injection E as <- <-.
    pose proof (hext_collect anyobj (cut_roots (r_st rc) (length (roots (r_st r))) [i])) as XC.
    assert (Ho0' : hget (heap (r_st rc)) i = Some ob0) by (rewrite Erc; exact Ho0).
    destruct (hx_old _ _ _ XC i ob0 Ho0') as [ob [Ho Kl]].
    set (st' := collect (cut_roots (r_st rc) (length (roots (r_st r))) [i])) in *.
    assert (Li : is_live (heap st') i = true).
    { destruct G' as [[_ H'] _]. cbn [r_st with_st] in H'.
      assert (Hr : In (Some i) (roots st')).
      { unfold st'. cbn [roots collect cut_roots]. apply in_or_app. right. left. reflexivity. }
      apply In_nth_error in Hr. destruct Hr as [s0 Hs0]. apply (hk_roots _ H' s0 i Hs0). }
    assert (Xar : HExt cplx_data (heap (r_st ra)) (heap st')).
    { eapply hext_trans; [intros o H; exact H | exact Xab |].
      rewrite <- Erc. apply (hext_collect cplx_data (cut_roots (r_st rc) (length (roots (r_st r))) [i])). }
    exists i, ob, out, t, ra. cbn [r_st with_st].
    split; [exact Ho|]. split; [unfold is_live in Li; rewrite Ho in Li; exact Li|].
    split; [destruct Kl as [->| ->]; exact Ecl|]. split; [destruct Kl as [->| ->]; exact En0|].
    split; [reflexivity|].
    split; [eapply expnh_ext; [exact Xar | apply expn_h; exact Ex]|].
    split.
    { replace (o_data ob) with (o_data ob0) by (destruct Kl as [->| ->]; reflexivity). rewrite Ed0, <- E1, <- E2.
      f_equal. apply map_ext_in. intros c0 Hc0. symmetry. apply (cell_elem_ext cplx_data (r_st ra) st' c0 Xar).
      unfold CellsQ in Fa. rewrite Forall_forall in Fa. specialize (Fa c0 Hc0). destruct c0 as [s0|j]; [exact I|].
      apply live_hget. apply (kept_live ct cd cs cc cm cr j ra Ga Fa). }
    split; [exact Ga|]. split; [exact Ex|]. split; [exact HN|]. split; [exact Xar|]. split; assumption.
  Qed.

  (* ---- without composite domains: no strand carries one of the names or its complement ---- *)
  Definition no_strand (r : rstate) (d : pstr) : Prop :=
    d = sPlus \/ (nlookup d (cs_names (cget (r_st r) cs)) = None /\
                  forall cn, complement_name d = Ok cn -> nlookup cn (cs_names (cget (r_st r) cs)) = None).

  Lemma seqn_registered r ra nm es :
    RGood r -> RGood ra -> HExt dom_data (heap (r_st r)) (heap (r_st ra)) -> SeqN nm es ra ->
    nlookup nm (cs_names (cget (r_st r) cs)) <> None.
  Proof.
    intros GD Ga X [i [Hh [Hc [_ [o [Ho En]]]]]].
    pose proof (held_live ct cd cs cc cm cr i ra Ga Hh) as L. unfold is_live in L. rewrite Ho in L.
    assert (Ec : o_cls o = cs) by (unfold ClsAt, cls_at in Hc; rewrite Ho in Hc; cbn in Hc; congruence).
    pose proof (slots_neq ct cd cs cc cm cr SO) as [N1 _].
    rewrite <- En.
    rewrite (live_was_registered cs dom_data r ra i o GD Ga X
               ltac:(intros x Hx Hok; apply (dom_not_other x (heap (r_st ra)) cs); [congruence | exact Hx | exact Hok]) Ho L Ec).
    discriminate.
  Qed.

  Lemma cellfor_plain r ra d cells :
    RGood r -> RGood ra -> HExt dom_data (heap (r_st r)) (heap (r_st ra)) -> no_strand r d -> d <> sPlus ->
    CellFor d cells ra -> exists j, cells = [CDom j] /\ DomAt j d ra.
  Proof.
    intros GD Ga X [->|[N1 N2]] Hne; [congruence|].
    intros [H|[[es [S1 _]]|[cn [compl [subseq [Ec [S1 _]]]]]]]; [exact H | |]; exfalso.
    - apply (seqn_registered r ra d es GD Ga X S1). exact N1.
    - apply (seqn_registered r ra cn compl GD Ga X S1). apply N2. exact Ec.
  Qed.

  Lemma expn_plain r ra : forall names sst out,
    RGood r -> RGood ra -> HExt dom_data (heap (r_st r)) (heap (r_st ra)) ->
    Forall (no_strand r) names -> length names = length sst ->
    Expn ra (combine names sst) out ->
    exists cells, out = combine cells sst /\ Forall2 (fun x c => FirstQ x c ra) names cells.
  Proof.
    induction names as [|x names IH]; intros [|s sst] out GD Ga X Hn EL Ex; try discriminate; cbn [combine] in Ex.
    - inversion Ex; subst. exists []. split; [reflexivity | constructor].
    - injection EL as EL. inversion Hn as [|? ? Hx Hn']; subst.
      inversion Ex as [|s0 rest out0 Ex'|d s0 rest cells out0 Hne Hc Ex']; subst.
      + destruct (IH sst out0 GD Ga X Hn' EL Ex') as [cells [-> F]].
        exists (CStr sPlus :: cells). split; [reflexivity|]. constructor; [left; auto | exact F].
      + destruct (cellfor_plain r ra x cells GD Ga X Hx Hne Hc) as [j [-> Dj]].
        destruct (IH sst out0 GD Ga X Hn' EL Ex') as [cells' [-> F]].
        exists (CDom j :: cells'). split; [reflexivity|]. constructor; [right; split; [exact Hne | eauto] | exact F].
  Qed.

  (* the sequence element the complex stores for a name: `+` itself, or the domain singleton of that name *)
  Definition PlainElem (h : list obj) (x : pstr) (e : elem) : Prop :=
    (x = sPlus /\ e = (sPlus, None)) \/ (x <> sPlus /\ exists j, e = (x, Some j) /\ IsDom cd h j x None).

  (* C14, kernel notation over declared domains (no composite-domain names in the string): the filed
     complex has exactly the sequence and the structure that resolve_kernel_loops gives for the pattern *)
  Theorem reader_builds_kernel_complex_plain line nm names sst cc0 acc r r' acc' :
    decode line = Ok (SKer nm names sst cc0) -> Forall kname_ok names -> length names = length sst ->
    nonempty nm = true -> RGood r ->
    nlookup nm (cs_names (cget (r_st r) cc)) = None -> Forall (no_strand r) names ->
    read_one ct G None (TList line) acc r = (r', Ok acc') ->
    exists i ob es t,
      hget (heap (r_st r')) i = Some ob /\ o_live ob = true /\ o_cls ob = cc /\ o_name ob = nm /\
      acc' = with_complexes acc (dset nm i (po_complexes acc)) /\
      o_data ob = DCplx es sst t /\ Forall2 (PlainElem (heap (r_st r'))) names es /\ map fst es = names /\
      RGood r' /\ RExt r r'.
  Proof.
    intros Hd Hn EL Hne GD Hfree Hns E.
    destruct (reader_builds_kernel_complex line nm names sst cc0 acc r r' acc' Hd Hn EL Hne GD Hfree E)
      as [i [ob [out [t [ra [Ho [Hl [Ec [En [Ea [_ [Ed [Ga [Ex [X1 [X2 [G' X']]]]]]]]]]]]]]]]].
    destruct (expn_plain r ra names sst out GD Ga X1 Hns EL Ex) as [cells [-> F]].
    assert (ELc : length cells = length sst).
    { rewrite <- EL. symmetry. clear -F. induction F; cbn; auto. }
    rewrite (combine_fst cells sst ELc), (combine_snd cells sst ELc) in Ed.
    exists i, ob, (map (cell_elem (r_st r')) cells), t.
    split; [exact Ho|]. split; [exact Hl|]. split; [exact Ec|]. split; [exact En|]. split; [exact Ea|]. split; [exact Ed|].
    assert (FP : Forall2 (PlainElem (heap (r_st r'))) names (map (cell_elem (r_st r')) cells)).
    { clear -F X2. induction F as [|x c names cells H F IH]; cbn [map]; constructor; [|exact IH].
      destruct H as [[-> ->]|[Hne [j [-> Dj]]]]; [left; auto|]. right. split; [exact Hne|]. exists j.
      assert (Dj' : IsDom cd (heap (r_st r')) j x None) by (eapply isdom_ext; [exact X2 | exact Dj]).
      split; [|exact Dj']. cbn [cell_elem]. unfold elem_of, oname. rewrite (isdom_name cd _ _ _ _ Dj'). reflexivity. }
    split; [exact FP|]. split; [|split; assumption].
    clear -FP. induction FP as [|x e names es H F IH]; cbn; [reflexivity|]. f_equal; [|exact IH].
    destruct H as [[-> ->]|[_ [j [-> _]]]]; reflexivity.
  Qed.
End Kernel.

(* ---- phrased on kernel trees (C12): the pattern is the token list of a tree ---- *)
Fixpoint tok_of_ktok (t : ktok) : tok :=
  match t with
  | KS s => TStr s
  | KL l => TList (map tok_of_ktok l)
  end.

Lemma ktok_tok_id : forall t, ktok_of_tok (tok_of_ktok t) = t.
Proof.
  fix IH 1. intros [s|l]; cbn; [reflexivity|]. f_equal. rewrite map_map.
  induction l as [|x l IHl]; cbn; [reflexivity|]. rewrite IH, IHl. reflexivity.
Qed.

Lemma ktoks_toks_id l : map ktok_of_tok (map tok_of_ktok l) = l.
Proof. rewrite map_map. induction l as [|x l IH]; cbn; [reflexivity|]. rewrite ktok_tok_id, IH. reflexivity. Qed.

(* the parsed line of `name = <kernel string of t>` *)
Definition kernel_line (nm : pstr) (t : ktree) : list tok :=
  [TStr tKernel; TStr nm; TList (map tok_of_ktok (to_tokens t))].

Lemma decode_kernel_line nm t :
  names_ok t = true -> decode (kernel_line nm t) = Ok (SKer nm (fst (flatten t)) (snd (flatten t)) None).
Proof.
  intros Hn. unfold decode, kernel_line. cbn [tnth nth_error rbind].
  replace (tag_is (TStr tKernel) tDl) with false by reflexivity.
  replace (tag_is (TStr tKernel) tSl) with false by reflexivity.
  replace (tag_is (TStr tKernel) tComposite) with false by reflexivity.
  replace (tag_is (TStr tKernel) tStrandCplx) with false by reflexivity.
  replace (tag_is (TStr tKernel) tKernel) with true by reflexivity.
  cbn [t_list t_str rbind]. rewrite ktoks_toks_id, (C12.resolve_inverts_tree t Hn). reflexivity.
Qed.

Section KernelTree.
  Variable ct : ctable.
  Variables cd cs cc cm cr : nat.
  Hypothesis CO : cfg_okb ct cd cs cc cm cr = true.

  (* C14 + C12: `name = kernel_string(t)` over declared domains files a new complex whose sequence and
     structure are exactly the flattening of the kernel tree t (closing domains synthesised as complements) *)
  Theorem reader_builds_kernel_tree nm t acc r r' acc' :
    names_ok t = true -> Forall kname_ok (fst (flatten t)) -> nonempty nm = true ->
    RGood ct cd cs cc cm cr r ->
    nlookup nm (cs_names (cget (r_st r) cc)) = None -> Forall (no_strand cs r) (fst (flatten t)) ->
    read_one ct (g cd cs cc cm cr) None (TList (kernel_line nm t)) acc r = (r', Ok acc') ->
    exists i ob es tu,
      hget (heap (r_st r')) i = Some ob /\ o_live ob = true /\ o_cls ob = cc /\ o_name ob = nm /\
      acc' = with_complexes acc (dset nm i (po_complexes acc)) /\
      o_data ob = DCplx es (snd (flatten t)) tu /\ map fst es = fst (flatten t) /\
      Forall2 (PlainElem cd (heap (r_st r'))) (fst (flatten t)) es /\
      RGood ct cd cs cc cm cr r' /\ RExt r r'.
  Proof.
    intros Hn Hk Hne GD Hfree Hns E.
    destruct (reader_builds_kernel_complex_plain ct cd cs cc cm cr CO (kernel_line nm t) nm
                (fst (flatten t)) (snd (flatten t)) None acc r r' acc'
                (decode_kernel_line nm t Hn) Hk (C12.flatten_lengths t) Hne GD Hfree Hns E)
      as [i [ob [es [tu [H1 [H2 [H3 [H4 [H5 [H6 [H7 [H8 [H9 H10]]]]]]]]]]]]].
    exists i, ob, es, tu. split; [exact H1|]. split; [exact H2|]. split; [exact H3|]. split; [exact H4|]. split; [exact H5|].
    split; [exact H6|]. split; [exact H8|]. split; [exact H7|]. split; assumption.
  Qed.
End KernelTree.
