(* Shape of the token trees the PIL grammar returns: every line of a successful parse
   satisfies ReaderShape.line_okb (it decodes as a typed statement; domain names are
   x / x* with x non-empty and unstarred; numbers convert).  Token-level inversion through
   the token language of PegShape, plus one text-level fact: the kernel-complex
   alternative's OneOrMore(Group(pattern)) matches exactly one group. *)
From Coq Require Import List NArith ZArith Bool Arith Lia.
From DSD Require Import Base.Str Base.Errors Model.ComplexUtils Model.Loops Model.RegStr Model.ReaderStr Model.PyNum
  Model.Peg Model.Kernel Model.DispatchKernel Model.Heap Model.Registry Model.Reader Model.ReaderShape
  Proofs.PegMono Proofs.PegRules Proofs.PegStd Proofs.PegShape Proofs.C13Base Proofs.C13Doc Proofs.C12.
From DSDGen Require Import PilGrammar ReaderConsts.
Import ListNotations.

Notation GP := (G pil_nodes).
Ltac plk := cbv [pil_nodes nth_error]; reflexivity.

(* invert G at a concrete node index: H : GP i t  becomes the node's own equations *)
Ltac ginv H :=
  eapply G_inv in H; [|plk];
  cbn [ntags nkind nkids post add_tags fold_left genk seqR] in H.

(* ---------------------------------------------------------------- names *)
Lemma starred_snoc b c : starred (b ++ [c]) = N.eqb c cStar.
Proof. unfold starred. rewrite rev_app_distr. reflexivity. Qed.
Lemma nm_okb_plain b : b <> [] -> starred b = false -> nm_okb b = true.
Proof.
  intros Hne Hs. unfold nm_okb, cname_of. rewrite Hs, starred_snoc. cbn [N.eqb cStar Pos.eqb].
  rewrite removelast_last. rewrite (proj2 (str_eqb_iff b b) eq_refl).
  destruct b; [contradiction|]. reflexivity.
Qed.
Lemma nm_okb_star b : b <> [] -> starred b = false -> nm_okb (b ++ [cStar]) = true.
Proof.
  intros Hne Hs. unfold nm_okb, cname_of. rewrite starred_snoc. cbn [N.eqb cStar Pos.eqb]. rewrite removelast_last, Hs.
  rewrite (proj2 (str_eqb_iff (b ++ [cStar]) (b ++ [cStar])) eq_refl).
  destruct b; [contradiction|]. reflexivity.
Qed.

(* last character in a class that excludes '*' *)
Lemma starred_class cs (w : pstr) : forallb (fun c => negb (N.eqb c cStar)) cs = true ->
  forallb (fun x => memc x cs) w = true -> starred w = false.
Proof.
  intros Hcs Hw. unfold starred. destruct (rev w) as [|c r] eqn:E; [reflexivity|].
  assert (Hin : In c w). { apply in_rev. rewrite E. left. reflexivity. }
  rewrite forallb_forall in Hw. specialize (Hw c Hin).
  pose proof (memc_forallb cs _ c Hcs Hw) as Hc. apply negb_true_iff in Hc. exact Hc.
Qed.

Definition identS (w : pstr) : Prop := w <> [] /\ forallb (fun x => memc x pil_cs1) w = true.
Lemma identS_unstarred w : identS w -> starred w = false.
Proof. intros [_ H]. apply (starred_class pil_cs1); [reflexivity|exact H]. Qed.
Lemma word_identS w : word_ok pil_cs1 pil_cs1 w -> identS w.
Proof. destruct w as [|c a]; [contradiction|]. intros [Hc Ha]. split; [discriminate|]. cbn [forallb]. rewrite Hc. exact Ha. Qed.

(* ---------------------------------------------------------------- leaves *)
Lemma sh_ident t : GP 61 t -> exists w, t = [TStr w] /\ identS w.
Proof. intros H. ginv H. destruct H as (t0 & -> & w & -> & Hw). exists w. split; [reflexivity|exact (word_identS w Hw)]. Qed.

Definition digitsS (w : pstr) : Prop := all_digits w = true.
Lemma word_digitsS w : word_ok pil_cs3 pil_cs3 w -> digitsS w.
Proof.
  destruct w as [|c a]; [contradiction|]. intros [Hc Ha]. unfold digitsS, all_digits. cbn [forallb].
  assert (Hd : forall x, memc x pil_cs3 = true -> is_digit x = true).
  { intros x. apply (memc_forallb pil_cs3 is_digit). reflexivity. }
  rewrite (Hd c Hc). cbn. rewrite forallb_forall in *. intros x Hx. apply Hd. exact (Ha x Hx).
Qed.
Lemma sh_number t : GP 26 t -> exists w, t = [TStr w] /\ digitsS w.
Proof. intros H. ginv H. destruct H as (t0 & -> & w & -> & Hw). exists w. split; [reflexivity|exact (word_digitsS w Hw)]. Qed.

Lemma py_int_digits w : digitsS w -> exists z, py_int w = Ok z /\ (0 <= z)%Z.
Proof.
  intros H. unfold py_int. rewrite H. eexists. split; [reflexivity|].
  assert (forall s acc, (0 <= acc)%Z -> (0 <= digits_val acc s)%Z) as Hg.
  { induction s as [|c s IH]; intros acc Ha; cbn [digits_val]; [exact Ha|]. apply IH. unfold digit_val. pose proof (N2Z.is_nonneg (c - 48)). lia. }
  apply Hg. lia.
Qed.

(* domain = Combine(identifier + Optional('*')) *)
Lemma sh_domain t : GP 13 t -> exists w, t = [TStr w] /\ nm_okb w = true.
Proof.
  intros H. ginv H. destruct H as (t0 & -> & H). ginv H. destruct H as (t1 & -> & a & b & -> & Ha & b' & e & -> & Hb & ->).
  ginv Ha. destruct Ha as (t2 & -> & w & -> & Hw). apply word_identS in Hw.
  ginv Hb. destruct Hb as (t3 & -> & [->|Hb]).
  - exists w. split; [cbn; rewrite ?app_nil_r; reflexivity|]. apply nm_okb_plain; [exact (proj1 Hw)|exact (identS_unstarred w Hw)].
  - ginv Hb. destruct Hb as (t4 & -> & ->). exists (w ++ [cStar]). split; [cbn; rewrite ?app_nil_r; reflexivity|].
    apply nm_okb_star; [exact (proj1 Hw)|exact (identS_unstarred w Hw)].
Qed.

(* ---------------------------------------------------------------- silent nodes *)
(* nodes that can only return the empty token list (suppressed ends of line, brackets, ...) *)
Fixpoint silent (g : list node) (n : nat) (i : nat) : bool :=
  match n with
  | 0 => false
  | S m =>
      match nth_error g i with
      | Some nd =>
          match ntags nd with
          | [] =>
              match nkind nd with
              | KSuppress | KStringStart | KStringEnd => true
              | KMany _ | KOpt | KPass => match nkids nd with k :: _ => silent g m k | [] => true end
              | KAnd => forallb (silent g m) (nkids nd)
              | _ => false
              end
          | _ => false
          end
      | None => true
      end
  end.
Lemma seqR_silent (R : nat -> list tok -> Prop) (ok : nat -> bool) :
  (forall k t, ok k = true -> R k t -> t = []) -> forall ks t, forallb ok ks = true -> seqR R ks t -> t = [].
Proof.
  intros H ks. induction ks as [|k r IH]; intros t Hs Hq; cbn in *; [exact Hq|].
  apply andb_true_iff in Hs as [Hk Hr]. destruct Hq as (a & b & -> & Ha & Hb).
  rewrite (H k a Hk Ha), (IH b Hr Hb). reflexivity.
Qed.
Lemma silent_sound g n : forall i t, silent g n i = true -> G g i t -> t = [].
Proof.
  induction n as [|n IH]; intros i t Hs Hg; [discriminate|]. cbn in Hs.
  destruct (nth_error g i) as [nd|] eqn:En.
  - apply (G_inv g i nd t En) in Hg as (t0 & -> & Hk). destruct (ntags nd); [|discriminate]. cbn [add_tags fold_left].
    unfold genk in Hk. destruct (nkind nd); try discriminate; cbn [post]; try reflexivity.
    + apply (seqR_silent (G g) (silent g n) IH _ _ Hs Hk).
    + destruct Hk as [->|Hk]; [reflexivity|]. destruct (nkids nd) as [|k ks]; [contradiction|]. exact (IH k t0 Hs Hk).
    + destruct (nkids nd) as [|k ks]; [contradiction|]. destruct Hk as (ts & -> & Hf & _).
      induction Hf as [|x l Hx Hl IHl]; [reflexivity|]. cbn. rewrite (IH k x Hs Hx), IHl. reflexivity.
    + destruct (nkids nd) as [|k ks]; [contradiction|]. exact (IH k t0 Hs Hk).
    + exact Hk.
    + exact Hk.
  - destruct Hg as [m Hg]. destruct m; cbn in Hg; [contradiction|]. rewrite En in Hg. contradiction.
Qed.
Ltac silent_in H := apply (silent_sound pil_nodes 4) in H; [|vm_compute; reflexivity].

(* the optional `= number` tail (nodes 23, 65, 78) *)
Lemma sh_optnum i k : nth_error pil_nodes i = Some (mkNode KOpt [k] true pil_cs0 [2] true []) ->
  (exists s, nth_error pil_nodes k = Some (mkNode KAnd [s; 26] true pil_cs0 [2] true []) /\ silent pil_nodes 4 s = true) ->
  forall t, GP i t -> t = [] \/ exists w, t = [TStr w] /\ digitsS w.
Proof.
  intros Ei (s & Ek & Hs) t H. apply (G_inv _ _ _ _ Ei) in H. cbn [ntags nkind nkids post add_tags fold_left genk] in H.
  destruct H as (t0 & -> & [->|H]); [left; reflexivity|]. right.
  apply (G_inv _ _ _ _ Ek) in H. cbn [ntags nkind nkids post add_tags fold_left genk seqR] in H.
  destruct H as (t1 & -> & a & b & -> & Ha & b' & e & -> & Hb & ->).
  apply (silent_sound pil_nodes 4 _ _ Hs) in Ha. subst a. apply sh_number in Hb as (w & -> & Hw).
  exists w. split; [reflexivity|exact Hw].
Qed.

(* lists of domains: OneOrMore(domain) (64, 77, 93) *)
Definition domsS (t : list tok) : Prop := exists ws, t = map TStr ws /\ forallb nm_okb ws = true.
Lemma domsS_app a b : domsS a -> domsS b -> domsS (a ++ b).
Proof. intros (x & -> & Hx) (y & -> & Hy). exists (x ++ y). rewrite map_app, forallb_app, Hx, Hy. split; reflexivity. Qed.
Lemma sh_doms i : nth_error pil_nodes i = Some (mkNode (KMany true) [13] true pil_cs0 [2] true []) ->
  forall t, GP i t -> domsS t.
Proof.
  intros Ei t H. apply (G_inv _ _ _ _ Ei) in H. cbn [ntags nkind nkids post add_tags fold_left genk] in H.
  destruct H as (t0 & -> & ts & -> & Hf & _). induction Hf as [|x l Hx Hl IH]; [exists []; split; reflexivity|].
  cbn [concat]. apply domsS_app; [|exact IH]. apply sh_domain in Hx as (w & -> & Hw). exists [w]. cbn. rewrite Hw. split; reflexivity.
Qed.
Lemma t_strs_map ws : t_strs (map TStr ws) = Ok ws.
Proof. induction ws as [|w r IH]; cbn; [reflexivity|]. rewrite IH. reflexivity. Qed.

(* ---------------------------------------------------------------- statement tags *)
Definition tagDl : pstr := [100; 108; 45; 100; 111; 109; 97; 105; 110]%N.
Definition tagSl : pstr := [115; 108; 45; 100; 111; 109; 97; 105; 110]%N.

Definition lineS (t : list tok) : Prop := exists line, t = [TList line] /\ line_okb (TList line) = true.

(* dlength = number | 'short' | 'long' *)
Definition dlenS (v : pstr) : Prop :=
  exists z, (if str_eqb v sShort then Ok reader_short_len
             else if str_eqb v sLong then Ok reader_long_len else py_int v) = Ok z /\ (0 <= z)%Z.
Lemma sh_dlength t : GP 35 t -> exists v, t = [TStr v] /\ dlenS v.
Proof.
  intros H. ginv H. destruct H as (t0 & -> & k & Hi & Hk). cbn [In] in Hi.
  destruct Hi as [<-|[<-|[<-|[]]]].
  - apply sh_number in Hk as (w & -> & Hw). exists w. split; [reflexivity|].
    destruct (py_int_digits w Hw) as (z & Ez & Hz). unfold dlenS.
    destruct (str_eqb w sShort); [exists reader_short_len; split; [reflexivity|vm_compute; discriminate]|].
    destruct (str_eqb w sLong); [exists reader_long_len; split; [reflexivity|vm_compute; discriminate]|].
    exists z. split; assumption.
  - ginv Hk. destruct Hk as (t1 & -> & ->). eexists. split; [reflexivity|]. exists reader_short_len. split; [reflexivity|vm_compute; discriminate].
  - ginv Hk. destruct Hk as (t1 & -> & ->). eexists. split; [reflexivity|]. exists reader_long_len. split; [reflexivity|vm_compute; discriminate].
Qed.

Lemma line_dl nm v : nm_okb nm = true -> dlenS v -> line_okb (TList [TStr tagDl; TStr nm; TStr v]) = true.
Proof.
  intros Hn (z & Ez & Hz). unfold line_okb, decode. cbn [tnth nth_error rbind t_str].
  change (tag_is (TStr tagDl) tDl) with true. cbv iota. rewrite Ez. cbn [rbind stmt_okb]. rewrite Hn.
  apply Z.leb_le in Hz. rewrite Hz. reflexivity.
Qed.

Lemma sh_dl i j k1 k3 k5 :
  nth_error pil_nodes i = Some (mkNode KGroup [j] true pil_cs0 [2] true []) ->
  nth_error pil_nodes j = Some (mkNode KAnd [k1; 13; k3; 35; k5] true pil_cs0 [2] true [tagDl]) ->
  silent pil_nodes 4 k1 = true -> silent pil_nodes 4 k3 = true -> silent pil_nodes 4 k5 = true ->
  forall t, GP i t -> lineS t.
Proof.
  intros Ei Ej S1 S3 S5 t H.
  apply (G_inv _ _ _ _ Ei) in H. cbn [ntags nkind nkids post add_tags fold_left genk] in H. destruct H as (t0 & -> & H).
  apply (G_inv _ _ _ _ Ej) in H. cbn [ntags nkind nkids post add_tags fold_left genk seqR] in H.
  destruct H as (t1 & -> & a1 & b1 & -> & H1 & a2 & b2 & -> & H2 & a3 & b3 & -> & H3 & a4 & b4 & -> & H4 & a5 & b5 & -> & H5 & ->).
  apply (silent_sound _ _ _ _ S1) in H1. apply (silent_sound _ _ _ _ S3) in H3. apply (silent_sound _ _ _ _ S5) in H5. subst.
  apply sh_domain in H2 as (nm & -> & Hn). apply sh_dlength in H4 as (v & -> & Hv).
  eexists. split; [reflexivity|]. exact (line_dl nm v Hn Hv).
Qed.
Lemma sh_alt30 t : GP 30 t -> lineS t.
Proof. apply (sh_dl 30 31 32 34 38); try plk; vm_compute; reflexivity. Qed.
Lemma sh_alt41 t : GP 41 t -> lineS t.
Proof. apply (sh_dl 41 42 43 45 46); try plk; vm_compute; reflexivity. Qed.
Lemma sh_alt49 t : GP 49 t -> lineS t.
Proof. apply (sh_dl 49 50 51 53 54); try plk; vm_compute; reflexivity. Qed.

(* ---------------------------------------------------------------- sl-domain (9 / 10) *)
Lemma line_sl3 nm sq : nm_okb nm = true -> line_okb (TList [TStr tagSl; TStr nm; TStr sq]) = true.
Proof.
  intros Hn. unfold line_okb, decode. cbn [tnth nth_error rbind t_str length Nat.eqb].
  change (tag_is (TStr tagSl) tDl) with false. change (tag_is (TStr tagSl) tSl) with true. cbv iota.
  cbn [rbind stmt_okb]. exact Hn.
Qed.
Lemma line_sl4 nm sq w : nm_okb nm = true -> digitsS w -> line_okb (TList [TStr tagSl; TStr nm; TStr sq; TStr w]) = true.
Proof.
  intros Hn Hw. destruct (py_int_digits w Hw) as (z & Ez & _).
  unfold line_okb, decode. cbn [tnth nth_error rbind t_str length Nat.eqb].
  change (tag_is (TStr tagSl) tDl) with false. change (tag_is (TStr tagSl) tSl) with true. cbv iota.
  rewrite Ez. cbn [rbind stmt_okb]. exact Hn.
Qed.
Lemma sh_alt9 t : GP 9 t -> lineS t.
Proof.
  intros H. ginv H. destruct H as (t0 & -> & H). ginv H.
  destruct H as (t1 & -> & a1 & b1 & -> & H1 & a2 & b2 & -> & H2 & a3 & b3 & -> & H3 & a4 & b4 & -> & H4 & a5 & b5 & -> & H5 & a6 & b6 & -> & H6 & ->).
  silent_in H1. silent_in H3. silent_in H6. subst.
  apply sh_domain in H2 as (nm & -> & Hn).
  ginv H4. destruct H4 as (t2 & -> & sq & -> & _).
  apply (sh_optnum 23 24) in H5; [|plk|exists 25; split; [plk|vm_compute; reflexivity]].
  eexists. split; [reflexivity|]. destruct H5 as [->|(w & -> & Hw)]; cbn [app].
  - exact (line_sl3 nm sq Hn).
  - exact (line_sl4 nm sq w Hn Hw).
Qed.

(* ---------------------------------------------------------------- composite-domain (57, 71) *)
Definition tagComp : pstr := [99; 111; 109; 112; 111; 115; 105; 116; 101; 45; 100; 111; 109; 97; 105; 110]%N.
Lemma line_comp nm ws rest : forallb nm_okb ws = true ->
  line_okb (TList (TStr tagComp :: TStr nm :: TList (map TStr ws) :: rest)) = true.
Proof.
  intros Hw. unfold line_okb, decode. cbn [tnth nth_error rbind t_str t_list].
  change (tag_is (TStr tagComp) tDl) with false. change (tag_is (TStr tagComp) tSl) with false.
  change (tag_is (TStr tagComp) tComposite) with true. cbv iota.
  rewrite t_strs_map. cbn [rbind stmt_okb]. exact Hw.
Qed.
Lemma sh_comp i j k1 k3 k4 k5 k6 k7 :
  nth_error pil_nodes i = Some (mkNode KGroup [j] true pil_cs0 [2] true []) ->
  nth_error pil_nodes j = Some (mkNode KAnd [k1; 61; k3; k4; k5; k6] true pil_cs0 [2] true [tagComp]) ->
  nth_error pil_nodes k4 = Some (mkNode KGroup [k7] true pil_cs0 [2] true []) ->
  nth_error pil_nodes k7 = Some (mkNode (KMany true) [13] true pil_cs0 [2] true []) ->
  silent pil_nodes 4 k1 = true -> silent pil_nodes 4 k3 = true -> silent pil_nodes 4 k6 = true ->
  (forall t, GP k5 t -> t = [] \/ exists w, t = [TStr w] /\ digitsS w) ->
  forall t, GP i t -> lineS t.
Proof.
  intros Ei Ej E4 E7 S1 S3 S6 H5' t H.
  apply (G_inv _ _ _ _ Ei) in H. cbn [ntags nkind nkids post add_tags fold_left genk] in H. destruct H as (t0 & -> & H).
  apply (G_inv _ _ _ _ Ej) in H. cbn [ntags nkind nkids post add_tags fold_left genk seqR] in H.
  destruct H as (t1 & -> & a1 & b1 & -> & H1 & a2 & b2 & -> & H2 & a3 & b3 & -> & H3 & a4 & b4 & -> & H4 & a5 & b5 & -> & H5 & a6 & b6 & -> & H6 & ->).
  apply (silent_sound _ _ _ _ S1) in H1. apply (silent_sound _ _ _ _ S3) in H3. apply (silent_sound _ _ _ _ S6) in H6. subst.
  apply sh_ident in H2 as (nm & -> & _).
  apply (G_inv _ _ _ _ E4) in H4. cbn [ntags nkind nkids post add_tags fold_left genk] in H4. destruct H4 as (t2 & -> & H4).
  apply (sh_doms _ E7) in H4 as (ws & -> & Hws).
  eexists. split; [reflexivity|]. cbn [app]. apply line_comp. exact Hws.
Qed.
Lemma sh_alt57 t : GP 57 t -> lineS t.
Proof.
  apply (sh_comp 57 58 59 62 63 65 68 64); try plk; try (vm_compute; reflexivity).
  apply (sh_optnum 65 66); [plk|exists 67; split; [plk|vm_compute; reflexivity]].
Qed.
Lemma sh_alt71 t : GP 71 t -> lineS t.
Proof.
  apply (sh_comp 71 72 73 75 76 78 81 77); try plk; try (vm_compute; reflexivity).
  apply (sh_optnum 78 79); [plk|exists 80; split; [plk|vm_compute; reflexivity]].
Qed.

(* ---------------------------------------------------------------- strand-complex (84, 101) *)
Definition tagSC : pstr := [115; 116; 114; 97; 110; 100; 45; 99; 111; 109; 112; 108; 101; 120]%N.
Lemma tagSC_ok : nth_error pil_nodes 85 = Some (mkNode KAnd [86; 61; 88; 89; 92; 94; 97; 98] true pil_cs0 [2] true [tagSC]).
Proof. plk. Qed.
Lemma line_sc nm ws sst rest :
  line_okb (TList (TStr tagSC :: TStr nm :: TList (map TStr ws) :: TStr sst :: rest)) = true.
Proof.
  unfold line_okb, decode. cbn [tnth nth_error rbind t_str t_list].
  change (tag_is (TStr tagSC) tDl) with false. change (tag_is (TStr tagSC) tSl) with false.
  change (tag_is (TStr tagSC) tComposite) with false. change (tag_is (TStr tagSC) tStrandCplx) with true. cbv iota.
  rewrite t_strs_map. reflexivity.
Qed.
Lemma sh_alt84 t : GP 84 t -> lineS t.
Proof.
  intros H. ginv H. destruct H as (t0 & -> & H). ginv H.
  destruct H as (t1 & -> & a1 & b1 & -> & H1 & a2 & b2 & -> & H2 & a3 & b3 & -> & H3 & a4 & b4 & -> & H4 & a5 & b5 & -> & H5
                 & a6 & b6 & -> & H6 & a7 & b7 & -> & H7 & a8 & b8 & -> & H8 & ->).
  silent_in H1. silent_in H3. silent_in H4. silent_in H6. silent_in H8. subst.
  apply sh_ident in H2 as (nm & -> & _).
  ginv H5. destruct H5 as (t2 & -> & H5). apply (sh_doms 93) in H5; [|plk]. destruct H5 as (ws & -> & _).
  ginv H7. destruct H7 as (t3 & -> & sst & -> & _).
  eexists. split; [reflexivity|]. cbn [app]. apply line_sc.
Qed.
Lemma sh_alt101 t : GP 101 t -> lineS t.
Proof.
  intros H. ginv H. destruct H as (t0 & -> & H). ginv H.
  destruct H as (t1 & -> & a1 & b1 & -> & H1 & a2 & b2 & -> & H2 & a3 & b3 & -> & H3 & a4 & b4 & -> & H4 & a5 & b5 & -> & H5
                 & a6 & b6 & -> & H6 & a7 & b7 & -> & H7 & ->).
  silent_in H1. silent_in H3. silent_in H5. silent_in H7. subst.
  apply sh_ident in H2 as (nm & -> & _).
  ginv H4. destruct H4 as (t2 & -> & H4). ginv H4. destruct H4 as (t3 & -> & ts & -> & Hf & _).
  assert (Hs : exists ws, concat ts = map TStr ws).
  { induction Hf as [|x l Hx Hl IH]; [exists []; reflexivity|]. destruct IH as (ws & Ews).
    ginv Hx. destruct Hx as (t4 & -> & k & Hi & Hk). cbn [In] in Hi. destruct Hi as [<-|[<-|[]]].
    - apply sh_domain in Hk as (w & -> & _). exists (w :: ws). cbn. rewrite Ews. reflexivity.
    - silent_in Hk. subst. exists ws. exact Ews. }
  destruct Hs as (ws & ->).
  ginv H6. destruct H6 as (t5 & -> & sst & -> & _).
  eexists. split; [reflexivity|]. cbn [app]. apply line_sc.
Qed.

(* ---------------------------------------------------------------- delimited lists of identifiers *)
Lemma sh_dlist p a z m s :
  nth_error pil_nodes p = Some (mkNode KPass [a] true pil_cs0 [2] true []) ->
  nth_error pil_nodes a = Some (mkNode KAnd [61; z] true pil_cs0 [2] true []) ->
  nth_error pil_nodes z = Some (mkNode (KMany false) [m] true pil_cs0 [2] true []) ->
  nth_error pil_nodes m = Some (mkNode KAnd [s; 61] true pil_cs0 [2] true []) ->
  silent pil_nodes 4 s = true ->
  forall t, GP p t -> exists ws, t = map TStr ws.
Proof.
  intros Ep Ea Ez Em Ss t H.
  apply (G_inv _ _ _ _ Ep) in H. cbn [ntags nkind nkids post add_tags fold_left genk] in H. destruct H as (t0 & -> & H).
  apply (G_inv _ _ _ _ Ea) in H. cbn [ntags nkind nkids post add_tags fold_left genk seqR] in H.
  destruct H as (t1 & -> & a1 & b1 & -> & H1 & a2 & b2 & -> & H2 & ->).
  apply sh_ident in H1 as (w & -> & _).
  apply (G_inv _ _ _ _ Ez) in H2. cbn [ntags nkind nkids post add_tags fold_left genk] in H2. destruct H2 as (t2 & -> & ts & -> & Hf & _).
  assert (Hs : exists ws, concat ts = map TStr ws).
  { induction Hf as [|x l Hx Hl IH]; [exists []; reflexivity|]. destruct IH as (ws & Ews).
    apply (G_inv _ _ _ _ Em) in Hx. cbn [ntags nkind nkids post add_tags fold_left genk seqR] in Hx.
    destruct Hx as (t3 & -> & c1 & d1 & -> & Hc & c2 & d2 & -> & Hd & ->).
    apply (silent_sound _ _ _ _ Ss) in Hc. subst. apply sh_ident in Hd as (w' & -> & _).
    exists (w' :: ws). cbn. rewrite Ews. reflexivity. }
  destruct Hs as (ws & Ews). exists (w :: ws). cbn. rewrite app_nil_r, Ews. reflexivity.
Qed.

(* ---------------------------------------------------------------- resting-macrostate (263, 283) *)
Definition tagMac : pstr := [114; 101; 115; 116; 105; 110; 103; 45; 109; 97; 99; 114; 111; 115; 116; 97; 116; 101]%N.
Lemma line_mac nm ws rest : line_okb (TList (TStr tagMac :: TStr nm :: TList (map TStr ws) :: rest)) = true.
Proof.
  unfold line_okb, decode. cbn [tnth nth_error rbind t_str t_list].
  change (tag_is (TStr tagMac) tDl) with false. change (tag_is (TStr tagMac) tSl) with false.
  change (tag_is (TStr tagMac) tComposite) with false. change (tag_is (TStr tagMac) tStrandCplx) with false.
  change (tag_is (TStr tagMac) tKernel) with false. change (tag_is (TStr tagMac) tMacro) with true. cbv iota.
  rewrite t_strs_map. reflexivity.
Qed.
Lemma sh_mac i j k1 k3 k4 k5 k6 k7 p :
  nth_error pil_nodes i = Some (mkNode KGroup [j] true pil_cs0 [2] true []) ->
  nth_error pil_nodes j = Some (mkNode KAnd [k1; 61; k3; k4; k5; k6; k7] true pil_cs0 [2] true [tagMac]) ->
  nth_error pil_nodes k5 = Some (mkNode KGroup [p] true pil_cs0 [2] true []) ->
  (forall t, GP p t -> exists ws, t = map TStr ws) ->
  silent pil_nodes 4 k1 = true -> silent pil_nodes 4 k3 = true -> silent pil_nodes 4 k4 = true ->
  silent pil_nodes 4 k6 = true -> silent pil_nodes 4 k7 = true ->
  forall t, GP i t -> lineS t.
Proof.
  intros Ei Ej E5 Hp S1 S3 S4 S6 S7 t H.
  apply (G_inv _ _ _ _ Ei) in H. cbn [ntags nkind nkids post add_tags fold_left genk] in H. destruct H as (t0 & -> & H).
  apply (G_inv _ _ _ _ Ej) in H. cbn [ntags nkind nkids post add_tags fold_left genk seqR] in H.
  destruct H as (t1 & -> & a1 & b1 & -> & H1 & a2 & b2 & -> & H2 & a3 & b3 & -> & H3 & a4 & b4 & -> & H4 & a5 & b5 & -> & H5
                 & a6 & b6 & -> & H6 & a7 & b7 & -> & H7 & ->).
  apply (silent_sound _ _ _ _ S1) in H1. apply (silent_sound _ _ _ _ S3) in H3. apply (silent_sound _ _ _ _ S4) in H4.
  apply (silent_sound _ _ _ _ S6) in H6. apply (silent_sound _ _ _ _ S7) in H7. subst.
  apply sh_ident in H2 as (nm & -> & _).
  apply (G_inv _ _ _ _ E5) in H5. cbn [ntags nkind nkids post add_tags fold_left genk] in H5. destruct H5 as (t2 & -> & H5).
  apply Hp in H5 as (ws & ->).
  eexists. split; [reflexivity|]. cbn [app]. apply line_mac.
Qed.
Lemma sh_alt263 t : GP 263 t -> lineS t.
Proof.
  apply (sh_mac 263 264 265 267 269 271 278 280 272); try plk; try (vm_compute; reflexivity).
  apply (sh_dlist 272 273 274 275 276); try plk; try (vm_compute; reflexivity).
Qed.
Lemma sh_alt283 t : GP 283 t -> lineS t.
Proof.
  apply (sh_mac 283 284 285 287 289 291 298 300 292); try plk; try (vm_compute; reflexivity).
  apply (sh_dlist 292 293 294 295 296); try plk; try (vm_compute; reflexivity).
Qed.

(* ---------------------------------------------------------------- numbers: gorf and ginf *)
Lemma join_nil l : join_strs [] l = concat l.
Proof.
  induction l as [|s l IH]; [reflexivity|]. destruct l as [|t l]; [cbn; rewrite app_nil_r; reflexivity|].
  change (join_strs [] (s :: t :: l)) with (s ++ [] ++ join_strs [] (t :: l)). rewrite IH. reflexivity.
Qed.
Lemma split_at_none p a : forallb (fun c => negb (p c)) a = true -> split_at p a = (a, None).
Proof.
  induction a as [|c a IH]; cbn; [reflexivity|]. intros H. apply andb_true_iff in H as [Hc Ha].
  apply negb_true_iff in Hc. rewrite Hc, (IH Ha). reflexivity.
Qed.
Lemma split_at_hit p a c r : forallb (fun c => negb (p c)) a = true -> p c = true -> split_at p (a ++ c :: r) = (a, Some r).
Proof.
  induction a as [|d a IH]; cbn; intros H Hc; [rewrite Hc; reflexivity|]. apply andb_true_iff in H as [Hd Ha].
  apply negb_true_iff in Hd. rewrite Hd, (IH Ha Hc). reflexivity.
Qed.
Lemma digits_forall w : digitsS w -> forallb is_digit w = true.
Proof. unfold digitsS, all_digits. destruct w; [discriminate|auto]. Qed.
Lemma digits_not (x : chr) w : is_digit x = false -> digitsS w -> forallb (fun c => negb (N.eqb x c)) w = true.
Proof.
  intros Hx Hw. apply digits_forall in Hw. rewrite forallb_forall in *. intros c Hc. specialize (Hw c Hc).
  apply negb_true_iff. apply N.eqb_neq. intros <-. congruence.
Qed.

Definition floatS (w : pstr) : Prop := exists v, py_float w = Ok v.
Definition fracS (fr : pstr) : Prop := fr = [] \/ exists f, fr = cDot :: f /\ digitsS f.
Definition signS (sg : pstr) : Prop := sg = [] \/ sg = [cMinus] \/ sg = [cPlusSign].

Lemma py_float_core ip (fp : option pstr) (ex : option Z) :
  digitsS ip -> match fp with Some f => digitsS f | None => True end ->
  exists v,
  (if negb (all_digits ip) then Err eValue else
   if (match fp with Some f => negb (all_digits f) | None => false end) then Err eValue else
   match ex with
   | None => Err eValue
   | Some x =>
       let fpd := match fp with Some f => f | None => [] end in
       let ds := strip_zeros (ip ++ fpd) in
       match ds with
       | [] => Ok fl_zero
       | _ => Ok (dec_to_fl (digits_val 0 ds) (x - Z.of_nat (length fpd)) (Z.of_nat (length ds)))
       end
   end) = Ok v \/ ex = None.
Proof.
  intros Hi Hf. unfold digitsS in *. rewrite Hi. cbn [negb].
  assert (Hf' : match fp with Some f => negb (all_digits f) | None => false end = false).
  { destruct fp; [rewrite Hf; reflexivity|reflexivity]. }
  rewrite Hf'. destruct ex as [x|]; [|exists fl_zero; right; reflexivity].
  cbv zeta. destruct (strip_zeros _); eexists; left; reflexivity.
Qed.

Lemma mant_split i fr : digitsS i -> fracS fr ->
  exists fp, split_at (N.eqb cDot) (i ++ fr) = (i, fp) /\ match fp with Some f => digitsS f | None => True end /\
             forallb (fun c => negb (N.eqb cE c)) (i ++ fr) = true.
Proof.
  intros Hi [->|(f & -> & Hf)].
  - exists None. rewrite app_nil_r. split; [apply split_at_none; apply digits_not; [reflexivity|exact Hi]|].
    split; [exact I|apply digits_not; [reflexivity|exact Hi]].
  - exists (Some f). split; [apply split_at_hit; [apply digits_not; [reflexivity|exact Hi]|reflexivity]|].
    split; [exact Hf|]. rewrite forallb_app. apply andb_true_iff. split; [apply digits_not; [reflexivity|exact Hi]|].
    cbn [forallb]. apply andb_true_iff. split; [reflexivity|apply digits_not; [reflexivity|exact Hf]].
Qed.

Lemma py_float_flt i fr : digitsS i -> fracS fr -> floatS (i ++ fr).
Proof.
  intros Hi Hfr. destruct (mant_split i fr Hi Hfr) as (fp & Esp & Hfp & Hne).
  unfold floatS, py_float. destruct (str_eqb _ _); [eexists; reflexivity|].
  rewrite (split_at_none _ _ Hne), Esp.
  destruct (py_float_core i fp (Some 0%Z) Hi Hfp) as (v & [E|E]); [|discriminate]. exists v. exact E.
Qed.
Lemma py_float_sci i fr sg ds : digitsS i -> fracS fr -> signS sg -> digitsS ds -> floatS ((i ++ fr) ++ cE :: sg ++ ds).
Proof.
  intros Hi Hfr Hsg Hds. destruct (mant_split i fr Hi Hfr) as (fp & Esp & Hfp & Hne).
  unfold floatS, py_float. destruct (str_eqb _ _); [eexists; reflexivity|].
  rewrite (split_at_hit _ _ cE _ Hne eq_refl), Esp.
  assert (Hex : exists x, match sg ++ ds with
       | c :: r => if N.eqb c cMinus then (if all_digits r then Some (- digits_val 0 r)%Z else None)
                   else if N.eqb c cPlusSign then (if all_digits r then Some (digits_val 0 r) else None)
                   else if all_digits (sg ++ ds) then Some (digits_val 0 (sg ++ ds)) else None
       | [] => None end = Some x).
  { unfold digitsS in Hds. destruct Hsg as [->|[->| ->]]; cbn [app].
    - destruct ds as [|c r] eqn:Ed; [discriminate|]. rewrite <- Ed in *.
      assert (Hc : is_digit c = true). { subst ds. cbn in Hds. apply andb_true_iff in Hds. tauto. }
      assert (N.eqb c cMinus = false) as ->. { apply N.eqb_neq. intros ->. discriminate. }
      assert (N.eqb c cPlusSign = false) as ->. { apply N.eqb_neq. intros ->. discriminate. }
      rewrite Hds. eexists. reflexivity.
    - cbn. rewrite Hds. eexists. reflexivity.
    - cbn. rewrite Hds. eexists. reflexivity. }
  destruct Hex as (x & Ex). rewrite Ex.
  destruct (py_float_core i fp (Some x) Hi Hfp) as (v & [E|E]); [|discriminate]. exists v. exact E.
Qed.

Lemma sh_digits_word i : nth_error pil_nodes i = Some (mkNode (KWord pil_cs3 pil_cs3 1 0) [] false pil_cs0 [] true []) ->
  forall t, GP i t -> exists w, t = [TStr w] /\ digitsS w.
Proof.
  intros Ei t H. apply (G_inv _ _ _ _ Ei) in H. cbn [ntags nkind nkids post add_tags fold_left genk] in H.
  destruct H as (t0 & -> & w & -> & Hw). exists w. split; [reflexivity|exact (word_digitsS w Hw)].
Qed.
Lemma sh_frac o a d w :
  nth_error pil_nodes o = Some (mkNode KOpt [a] false pil_cs0 [] true []) ->
  nth_error pil_nodes a = Some (mkNode KAnd [d; w] false pil_cs0 [] true []) ->
  nth_error pil_nodes d = Some (mkNode (KLit [cDot]) [] false pil_cs0 [] true []) ->
  nth_error pil_nodes w = Some (mkNode (KWord pil_cs3 pil_cs3 1 0) [] false pil_cs0 [] true []) ->
  forall t, GP o t -> exists fr, concat (flat_strs t) = fr /\ fracS fr.
Proof.
  intros Eo Ea Ed Ew t H. apply (G_inv _ _ _ _ Eo) in H. cbn [ntags nkind nkids post add_tags fold_left genk] in H.
  destruct H as (t0 & -> & [->|H]); [exists []; split; [reflexivity|left; reflexivity]|].
  apply (G_inv _ _ _ _ Ea) in H. cbn [ntags nkind nkids post add_tags fold_left genk seqR] in H.
  destruct H as (t1 & -> & a1 & b1 & -> & H1 & a2 & b2 & -> & H2 & ->).
  apply (G_inv _ _ _ _ Ed) in H1. cbn [ntags nkind nkids post add_tags fold_left genk] in H1. destruct H1 as (t2 & -> & ->).
  apply (sh_digits_word _ Ew) in H2 as (f & -> & Hf).
  exists (cDot :: f). split; [cbn; rewrite !app_nil_r; reflexivity|]. right. exists f. split; [reflexivity|exact Hf].
Qed.

Lemma flat_strs_app a b : flat_strs (a ++ b) = flat_strs a ++ flat_strs b.
Proof. unfold flat_strs. apply flat_map_app. Qed.

Lemma sh_flt t : GP 144 t -> exists w, t = [TStr w] /\ floatS w.
Proof.
  intros H. ginv H. destruct H as (t0 & -> & H). ginv H. destruct H as (t1 & -> & a1 & b1 & -> & H1 & a2 & b2 & -> & H2 & ->).
  apply (sh_digits_word 146) in H1; [|plk]. destruct H1 as (i & -> & Hi).
  apply (sh_frac 147 148 149 150) in H2; try plk. destruct H2 as (fr & Efr & Hfr).
  eexists. split; [reflexivity|]. rewrite join_nil, !flat_strs_app, !concat_app, Efr. cbn. rewrite !app_nil_r.
  exact (py_float_flt i fr Hi Hfr).
Qed.
Lemma sh_sci t : GP 131 t -> exists w, t = [TStr w] /\ floatS w.
Proof.
  intros H. ginv H. destruct H as (t0 & -> & H). ginv H.
  destruct H as (t1 & -> & a1 & b1 & -> & H1 & a2 & b2 & -> & H2 & a3 & b3 & -> & H3 & a4 & b4 & -> & H4 & a5 & b5 & -> & H5 & ->).
  apply (sh_digits_word 133) in H1; [|plk]. destruct H1 as (i & -> & Hi).
  apply (sh_frac 134 135 136 137) in H2; try plk. destruct H2 as (fr & Efr & Hfr).
  ginv H3. destruct H3 as (t2 & -> & ->).
  apply (sh_digits_word 143) in H5; [|plk]. destruct H5 as (ds & -> & Hds).
  assert (Hsg : exists sg, concat (flat_strs a4) = sg /\ signS sg).
  { ginv H4. destruct H4 as (t3 & -> & [->|H4]); [exists []; split; [reflexivity|left; reflexivity]|].
    ginv H4. destruct H4 as (t4 & -> & k & Hi' & Hk). cbn [In] in Hi'. destruct Hi' as [<-|[<-|[]]].
    - ginv Hk. destruct Hk as (t5 & -> & ->). exists [cMinus]. split; [reflexivity|right; left; reflexivity].
    - ginv Hk. destruct Hk as (t5 & -> & ->). exists [cPlusSign]. split; [reflexivity|right; right; reflexivity]. }
  destruct Hsg as (sg & Esg & Hsg).
  eexists. split; [reflexivity|]. rewrite join_nil, !flat_strs_app, !concat_app, Efr, Esg. cbn. rewrite !app_nil_r.
  pose proof (py_float_sci i fr sg ds Hi Hfr Hsg Hds) as Hf. rewrite <- app_assoc in Hf. exact Hf.
Qed.
Lemma sh_gorf t : GP 130 t -> exists w, t = [TStr w] /\ floatS w.
Proof.
  intros H. ginv H. destruct H as (t0 & -> & k & Hi & Hk). cbn [In] in Hi. destruct Hi as [<-|[<-|[]]].
  - exact (sh_sci _ Hk).
  - exact (sh_flt _ Hk).
Qed.
Lemma sh_ginf t : GP 155 t -> exists w, t = [TStr w] /\ floatS w.
Proof.
  intros H. ginv H. destruct H as (t0 & -> & k & Hi & Hk). cbn [In] in Hi. destruct Hi as [<-|[<-|[<-|[]]]].
  - exact (sh_sci _ Hk).
  - exact (sh_flt _ Hk).
  - ginv Hk. destruct Hk as (t1 & -> & ->). eexists. split; [reflexivity|]. eexists. reflexivity.
Qed.

(* ---------------------------------------------------------------- reaction (115, 189) *)
Definition tagRxn : pstr := [114; 101; 97; 99; 116; 105; 111; 110]%N.

(* the infobox  [ name = rate +/- error /units ]  as three groups *)
Definition iboxS (t : list tok) : Prop :=
  exists n g e u, t = [TList n; TList (TStr g :: e); TList [TStr u]] /\
    (n = [] \/ exists nm, n = [TStr nm]) /\ floatS g /\ (e = [] \/ exists gi, e = [TStr gi] /\ floatS gi).
Lemma sh_infobox t : GP 121 t -> iboxS t.
Proof.
  intros H. ginv H.
  destruct H as (t1 & -> & a1 & b1 & -> & H1 & a2 & b2 & -> & H2 & a3 & b3 & -> & H3 & a4 & b4 & -> & H4 & a5 & b5 & -> & H5 & ->).
  silent_in H1. silent_in H5. subst.
  ginv H2. destruct H2 as (t2 & -> & H2). ginv H2. destruct H2 as (t3 & -> & H2).
  assert (Hn : t3 = [] \/ exists nm, t3 = [TStr nm]).
  { destruct H2 as [->|H2]; [left; reflexivity|right]. ginv H2. destruct H2 as (t4 & -> & c1 & d1 & -> & Hc & c2 & d2 & -> & Hd & ->).
    apply sh_ident in Hc as (nm & -> & _). silent_in Hd. subst. exists nm. reflexivity. }
  ginv H3. destruct H3 as (t5 & -> & H3). ginv H3. destruct H3 as (t6 & -> & c1 & d1 & -> & Hc & c2 & d2 & -> & Hd & ->).
  apply sh_gorf in Hc as (g & -> & Hg).
  assert (He : c2 = [] \/ exists gi, c2 = [TStr gi] /\ floatS gi).
  { ginv Hd. destruct Hd as (t7 & -> & [->|Hd]); [left; reflexivity|right]. ginv Hd.
    destruct Hd as (t8 & -> & e1 & f1 & -> & He & e2 & f2 & -> & Hf & ->). silent_in He. subst.
    apply sh_ginf in Hf as (gi & -> & Hgi). exists gi. split; [reflexivity|exact Hgi]. }
  ginv H4. destruct H4 as (t9 & -> & H4). ginv H4. destruct H4 as (t10 & -> & _).
  exists t3, g, c2, (join_strs [] (flat_strs t10)). split; [cbn; rewrite !app_nil_r; reflexivity|]. auto.
Qed.

Lemma line_rxn ib re pr : ib = [] \/ iboxS ib ->
  line_okb (TList [TStr tagRxn; TList ib; TList (map TStr re); TList (map TStr pr)]) = true.
Proof.
  intros Hib. unfold line_okb, decode. cbn [tnth nth_error rbind].
  change (tag_is (TStr tagRxn) tDl) with false. change (tag_is (TStr tagRxn) tSl) with false.
  change (tag_is (TStr tagRxn) tComposite) with false. change (tag_is (TStr tagRxn) tStrandCplx) with false.
  change (tag_is (TStr tagRxn) tKernel) with false. change (tag_is (TStr tagRxn) tMacro) with false.
  change (tag_is (TStr tagRxn) tReaction) with true. cbv iota.
  assert (Hr : exists ri, read_reaction [TStr tagRxn; TList ib; TList (map TStr re); TList (map TStr pr)] = Ok ri).
  { unfold read_reaction. cbn [tnth nth_error rbind t_list]. rewrite !t_strs_map.
    destruct Hib as [->|(n & g & e & u & -> & Hn & (vg & Eg) & He)]; [eexists; reflexivity|].
    cbn [tnth nth_error rbind t_list t_str]. rewrite Eg. cbn [rbind].
    destruct Hn as [->|(nm & ->)]; destruct He as [->|(gi & -> & (vi & Ei))]; cbn [rbind t_str]; rewrite ?Ei; cbn [rbind];
      eexists; reflexivity. }
  destruct Hr as (ri & ->). cbn [rbind]. destruct (reaction_ignored ri); reflexivity.
Qed.

Lemma sh_species i : nth_error pil_nodes i = Some (mkNode KGroup [177] true pil_cs0 [2] true []) ->
  forall t, GP i t -> exists ws, t = [TList (map TStr ws)].
Proof.
  intros Ei t H. apply (G_inv _ _ _ _ Ei) in H. cbn [ntags nkind nkids post add_tags fold_left genk] in H.
  destruct H as (t0 & -> & H). apply (sh_dlist 177 178 179 180 181) in H; try plk; try (vm_compute; reflexivity).
  destruct H as (ws & ->). exists ws. reflexivity.
Qed.
Lemma sh_rxn i j k1 k2 k3 k4 k5 k6 o :
  nth_error pil_nodes i = Some (mkNode KGroup [j] true pil_cs0 [2] true []) ->
  nth_error pil_nodes j = Some (mkNode KAnd [k1; k2; k3; k4; k5; k6] true pil_cs0 [2] true [tagRxn]) ->
  nth_error pil_nodes k2 = Some (mkNode KGroup [o] true pil_cs0 [2] true []) ->
  nth_error pil_nodes o = Some (mkNode KOpt [121] true pil_cs0 [2] true []) ->
  nth_error pil_nodes k3 = Some (mkNode KGroup [177] true pil_cs0 [2] true []) ->
  nth_error pil_nodes k5 = Some (mkNode KGroup [177] true pil_cs0 [2] true []) ->
  silent pil_nodes 4 k1 = true -> silent pil_nodes 4 k4 = true -> silent pil_nodes 4 k6 = true ->
  forall t, GP i t -> lineS t.
Proof.
  intros Ei Ej E2 Eo E3 E5 S1 S4 S6 t H.
  apply (G_inv _ _ _ _ Ei) in H. cbn [ntags nkind nkids post add_tags fold_left genk] in H. destruct H as (t0 & -> & H).
  apply (G_inv _ _ _ _ Ej) in H. cbn [ntags nkind nkids post add_tags fold_left genk seqR] in H.
  destruct H as (t1 & -> & a1 & b1 & -> & H1 & a2 & b2 & -> & H2 & a3 & b3 & -> & H3 & a4 & b4 & -> & H4 & a5 & b5 & -> & H5
                 & a6 & b6 & -> & H6 & ->).
  apply (silent_sound _ _ _ _ S1) in H1. apply (silent_sound _ _ _ _ S4) in H4. apply (silent_sound _ _ _ _ S6) in H6. subst.
  apply (G_inv _ _ _ _ E2) in H2. cbn [ntags nkind nkids post add_tags fold_left genk] in H2. destruct H2 as (t2 & -> & H2).
  apply (G_inv _ _ _ _ Eo) in H2. cbn [ntags nkind nkids post add_tags fold_left genk] in H2. destruct H2 as (t3 & -> & H2).
  assert (Hib : t3 = [] \/ iboxS t3). { destruct H2 as [->|H2]; [left; reflexivity|right; exact (sh_infobox _ H2)]. }
  apply (sh_species _ E3) in H3 as (re & ->). apply (sh_species _ E5) in H5 as (pr & ->).
  eexists. split; [reflexivity|]. cbn [app]. exact (line_rxn t3 re pr Hib).
Qed.
Lemma sh_alt115 t : GP 115 t -> lineS t.
Proof. apply (sh_rxn 115 116 117 119 176 183 185 186 120); try plk; try (vm_compute; reflexivity). Qed.
Lemma sh_alt189 t : GP 189 t -> lineS t.
Proof. apply (sh_rxn 189 190 191 193 195 196 198 199 194); try plk; try (vm_compute; reflexivity). Qed.

(* ---------------------------------------------------------------- kernel notation *)
(* sense = Combine(identifier + Optional('^') + Optional('*')) *)
Definition senseS (w : pstr) : Prop :=
  exists b, (w = b \/ w = b ++ [cStar]) /\ b <> [] /\ starred b = false /\ str_eqb w sPlus = false.

Lemma toggle_plain b : b <> [] -> starred b = false -> toggle b = b ++ [cStar].
Proof.
  intros Hne Hs. unfold toggle. unfold starred in Hs. destruct (rev b) as [|c r] eqn:E.
  - apply (f_equal (@rev _)) in E. rewrite rev_involutive in E. contradiction.
  - change (N.eqb c Loops.cStar = false) in Hs. cbv iota. rewrite Hs. reflexivity.
Qed.
Lemma toggle_star b : toggle (b ++ [cStar]) = b.
Proof. unfold toggle. rewrite rev_app_distr. cbn. apply rev_involutive. Qed.

Lemma senseS_name_ok w : senseS w -> name_ok w = true.
Proof.
  intros (b & Hw & Hne & _ & Hp). unfold name_ok. rewrite Hp. cbn.
  destruct Hw as [->| ->]; destruct b; try contradiction; reflexivity.
Qed.
Lemma senseS_kname w : senseS w -> kname_okb w = true.
Proof.
  intros (b & Hw & Hne & Hs & _). unfold kname_okb. apply orb_true_iff. right.
  destruct Hw as [->| ->]; [apply nm_okb_plain|apply nm_okb_star]; assumption.
Qed.
Lemma senseS_toggle w : senseS w -> kname_okb (toggle w) = true.
Proof.
  intros (b & Hw & Hne & Hs & _). unfold kname_okb. apply orb_true_iff. right. destruct Hw as [->| ->].
  - rewrite (toggle_plain b Hne Hs). apply nm_okb_star; assumption.
  - rewrite toggle_star. apply nm_okb_plain; assumption.
Qed.

Lemma sh_sense_and i w c s :
  nth_error pil_nodes i = Some (mkNode KAnd [w; c; s] false pil_cs0 [] true []) ->
  nth_error pil_nodes w = Some (mkNode (KWord pil_cs1 pil_cs1 1 0) [] false pil_cs0 [] true []) ->
  (exists c', nth_error pil_nodes c = Some (mkNode KOpt [c'] false pil_cs0 [] true []) /\
              nth_error pil_nodes c' = Some (mkNode (KLit [94%N]) [] false pil_cs0 [] true [])) ->
  (exists s', nth_error pil_nodes s = Some (mkNode KOpt [s'] false pil_cs0 [] true []) /\
              nth_error pil_nodes s' = Some (mkNode (KLit [cStar]) [] false pil_cs0 [] true [])) ->
  forall t, GP i t -> senseS (concat (flat_strs t)).
Proof.
  intros Ei Ew (c' & Ec & Ec') (s' & Es & Es') t H.
  apply (G_inv _ _ _ _ Ei) in H. cbn [ntags nkind nkids post add_tags fold_left genk seqR] in H.
  destruct H as (t1 & -> & a1 & b1 & -> & H1 & a2 & b2 & -> & H2 & a3 & b3 & -> & H3 & ->).
  apply (G_inv _ _ _ _ Ew) in H1. cbn [ntags nkind nkids post add_tags fold_left genk] in H1.
  destruct H1 as (t2 & -> & x & -> & Hx). apply word_identS in Hx.
  apply (G_inv _ _ _ _ Ec) in H2. cbn [ntags nkind nkids post add_tags fold_left genk] in H2. destruct H2 as (t3 & -> & H2).
  apply (G_inv _ _ _ _ Es) in H3. cbn [ntags nkind nkids post add_tags fold_left genk] in H3. destruct H3 as (t4 & -> & H3).
  assert (Hb : exists b, concat (flat_strs ([TStr x] ++ t3)) = b /\ b <> [] /\ starred b = false /\ exists c0 r, b = c0 :: r /\ memc c0 pil_cs1 = true).
  { destruct Hx as [Hne Hall]. destruct x as [|c0 r]; [contradiction|]. cbn in Hall. apply andb_true_iff in Hall as [Hc0 Hr].
    destruct H2 as [->|H2].
    - exists (c0 :: r). cbn. rewrite ?app_nil_r. split; [reflexivity|]. split; [discriminate|]. split; [|eauto].
      apply (starred_class pil_cs1); [reflexivity|]. cbn. rewrite Hc0. exact Hr.
    - apply (G_inv _ _ _ _ Ec') in H2. cbn [ntags nkind nkids post add_tags fold_left genk] in H2. destruct H2 as (t5 & -> & ->).
      exists (c0 :: r ++ [94%N]). cbn. rewrite ?app_nil_r. split; [reflexivity|]. split; [discriminate|]. split; [|eauto].
      change (c0 :: r ++ [94%N]) with ((c0 :: r) ++ [94%N]). rewrite starred_snoc. reflexivity. }
  destruct Hb as (b & Eb & Hne & Hs & c0 & r & Ebr & Hc0).
  assert (Hplus : forall z, str_eqb (b ++ z) sPlus = false).
  { intros z. rewrite Ebr. cbn. destruct (N.eqb c0 cP) eqn:E; [|reflexivity]. apply N.eqb_eq in E. subst c0. discriminate. }
  rewrite !flat_strs_app, !concat_app in *. rewrite app_assoc, Eb.
  destruct H3 as [->|H3].
  - exists b. cbn. rewrite ?app_nil_r. split; [left; reflexivity|]. split; [exact Hne|]. split; [exact Hs|].
    rewrite <- (app_nil_r b). apply Hplus.
  - apply (G_inv _ _ _ _ Es') in H3. cbn [ntags nkind nkids post add_tags fold_left genk] in H3. destruct H3 as (t5 & -> & ->).
    exists b. cbn. split; [right; reflexivity|]. split; [exact Hne|]. split; [exact Hs|apply Hplus].
Qed.

Lemma sh_sense231 t : GP 231 t -> exists w, t = [TStr w] /\ senseS w.
Proof.
  intros H. ginv H. destruct H as (t0 & -> & H). eexists. split; [reflexivity|]. rewrite join_nil.
  apply (sh_sense_and 232 233 234 236) in H; try plk; [exact H|exists 235; split; plk|exists 237; split; plk].
Qed.
Lemma sh_head212 t : GP 212 t -> exists w, t = [TStr w] /\ senseS w.
Proof.
  intros H. ginv H. destruct H as (t0 & -> & H). ginv H. destruct H as (t1 & -> & a1 & b1 & -> & H1 & a2 & b2 & -> & H2 & ->).
  silent_in H2. subst. ginv H1. destruct H1 as (t2 & -> & H1).
  apply (sh_sense_and 215 216 217 219) in H1; try plk; [|exists 218; split; plk|exists 220; split; plk].
  eexists. split; [reflexivity|]. rewrite !join_nil in *. cbn. rewrite !app_nil_r. exact H1.
Qed.

(* kernel trees: concatenation of sibling chains *)
Fixpoint tapp (a b : ktree) : ktree :=
  match a with
  | KNil => b
  | KD d r => KD d (tapp r b)
  | KB r => KB (tapp r b)
  | KP d i r => KP d i (tapp r b)
  end.
Lemma to_tokens_tapp a b : to_tokens (tapp a b) = to_tokens a ++ to_tokens b.
Proof. induction a; cbn; rewrite ?IHa, ?IHa2; reflexivity. Qed.
Fixpoint tree_ok (t : ktree) : Prop :=
  match t with
  | KNil => True
  | KD d r => senseS d /\ tree_ok r
  | KB r => tree_ok r
  | KP d i r => senseS d /\ tree_ok i /\ tree_ok r
  end.
Lemma tree_ok_tapp a b : tree_ok a -> tree_ok b -> tree_ok (tapp a b).
Proof. induction a; cbn; tauto. Qed.
Lemma tree_ok_names t : tree_ok t -> names_ok t = true.
Proof.
  induction t; cbn; intros H; try tauto.
  - destruct H as [Hd Hr]. rewrite (senseS_name_ok _ Hd), (IHt Hr). reflexivity.
  - destruct H as (Hd & Hi & Hr). rewrite (senseS_name_ok _ Hd), (IHt1 Hi), (IHt2 Hr). reflexivity.
Qed.
Lemma tree_ok_knames t : tree_ok t -> forallb kname_okb (fst (flatten t)) = true.
Proof.
  induction t; cbn [flatten fst tree_ok]; intros H; [reflexivity| | |].
  - destruct H as [Hd Hr]. cbn [forallb]. rewrite (senseS_kname _ Hd), (IHt Hr). reflexivity.
  - cbn [forallb]. rewrite (IHt H). reflexivity.
  - destruct H as (Hd & Hi & Hr). cbn [forallb]. rewrite forallb_app. cbn [forallb].
    rewrite (senseS_kname _ Hd), (IHt1 Hi), (senseS_toggle _ Hd), (IHt2 Hr). reflexivity.
Qed.

Definition patS (t : list tok) : Prop := exists tr, map ktok_of_tok t = to_tokens tr /\ tree_ok tr.
Lemma patS_app a b : patS a -> patS b -> patS (a ++ b).
Proof.
  intros (x & Ex & Hx) (y & Ey & Hy). exists (tapp x y). rewrite map_app, to_tokens_tapp, Ex, Ey.
  split; [reflexivity|apply tree_ok_tapp; assumption].
Qed.

Lemma genf_inv g i nd n t : nth_error g i = Some nd -> genf g n i t ->
  exists m t0, n = S m /\ t = add_tags (ntags nd) (post (nkind nd) t0) /\ genk (genf g m) nd t0.
Proof.
  intros En H. destruct n as [|m]; [contradiction|]. cbn in H. rewrite En in H. destruct H as (t0 & -> & H).
  exists m, t0. auto.
Qed.
Ltac finv H :=
  eapply genf_inv in H; [|plk];
  cbn [ntags nkind nkids post add_tags fold_left genk seqR] in H.

(* the recursive pattern (Forward 208): every token list it returns is the token list of a kernel tree *)
Lemma sh_pattern_f : forall n t, genf pil_nodes n 208 t -> patS t.
Proof.
  induction n as [n IH] using lt_wf_ind. intros t H.
  finv H. destruct H as (m1 & t1 & -> & -> & H).
  finv H. destruct H as (m2 & t2 & -> & -> & ts & -> & Hf & _).
  induction Hf as [|x l Hx Hl IHl]; [exists KNil; split; [reflexivity|exact I]|].
  cbn [concat]. apply patS_app; [|exact IHl]. clear IHl Hl.
  finv Hx. destruct Hx as (m3 & t3 & -> & -> & k & Hi & Hk). cbn [In] in Hi. destruct Hi as [<-|[<-|[<-|[]]]].
  - finv Hk. destruct Hk as (m4 & t4 & -> & -> & a1 & b1 & -> & H1 & a2 & b2 & -> & H2 & a3 & b3 & -> & H3 & ->).
    assert (G1 : GP 212 a1) by (eexists; exact H1). apply sh_head212 in G1 as (w & -> & Hw).
    assert (G3 : GP 228 a3) by (eexists; exact H3). silent_in G3. subst.
    finv H2. destruct H2 as (m5 & t5 & -> & -> & H2). finv H2. destruct H2 as (m6 & t6 & -> & -> & H2).
    assert (Hin : patS t6).
    { destruct H2 as [->|H2]; [exists KNil; split; [reflexivity|exact I]|].
      finv H2. destruct H2 as (m7 & t7 & -> & -> & k' & Hi' & Hk'). cbn [In] in Hi'. destruct Hi' as [<-|[<-|[]]].
      - apply (IH m7); [lia|exact Hk'].
      - assert (G6 : GP 226 t7) by (eexists; exact Hk'). silent_in G6. subst. exists KNil. split; [reflexivity|exact I]. }
    destruct Hin as (ti & Eti & Hti). exists (KP w ti KNil). cbn. rewrite Eti. split; [reflexivity|]. tauto.
  - finv Hk. destruct Hk as (m4 & t4 & -> & -> & ->). exists (KB KNil). split; [reflexivity|exact I].
  - assert (G1 : GP 231 t3) by (eexists; exact Hk). apply sh_sense231 in G1 as (w & -> & Hw).
    exists (KD w KNil). cbn. split; [reflexivity|]. tauto.
Qed.
Lemma sh_pattern t : GP 208 t -> patS t.
Proof. intros [n H]. exact (sh_pattern_f n t H). Qed.

(* concentration  @ (initial|i|constant|c) gorf unit *)
Definition concS (t : list tok) : Prop := exists mode g u, t = [TList [mode; TStr g; u]] /\ floatS g.
Lemma sh_lit_choice i : (exists ks, nth_error pil_nodes i = Some (mkNode KFirst ks true pil_cs0 [2] false []) /\
    Forall (fun k => exists s, nth_error pil_nodes k = Some (mkNode (KLit s) [] true pil_cs0 [2] true [])) ks) ->
  forall t, GP i t -> exists w, t = [TStr w].
Proof.
  intros (ks & Ei & Hks) t H. apply (G_inv _ _ _ _ Ei) in H. cbn [ntags nkind nkids post add_tags fold_left genk] in H.
  destruct H as (t0 & -> & k & Hi & Hk). rewrite Forall_forall in Hks. destruct (Hks k Hi) as (s & Ek).
  apply (G_inv _ _ _ _ Ek) in Hk. cbn [ntags nkind nkids post add_tags fold_left genk] in Hk. destruct Hk as (t1 & -> & ->).
  eexists. reflexivity.
Qed.
Lemma sh_cunit247 t : GP 247 t -> exists w, t = [TStr w].
Proof.
  apply sh_lit_choice. eexists. split; [plk|]. repeat constructor; eexists; plk.
Qed.
Lemma sh_conc_group i j a m :
  nth_error pil_nodes i = Some (mkNode KGroup [j] true pil_cs0 [2] true []) ->
  nth_error pil_nodes j = Some (mkNode KAnd [a; m; 130; 247] true pil_cs0 [2] true []) ->
  silent pil_nodes 4 a = true -> (forall t, GP m t -> exists w, t = [TStr w]) ->
  forall t, GP i t -> concS t.
Proof.
  intros Ei Ej Sa Hm t H.
  apply (G_inv _ _ _ _ Ei) in H. cbn [ntags nkind nkids post add_tags fold_left genk] in H. destruct H as (t0 & -> & H).
  apply (G_inv _ _ _ _ Ej) in H. cbn [ntags nkind nkids post add_tags fold_left genk seqR] in H.
  destruct H as (t1 & -> & a1 & b1 & -> & H1 & a2 & b2 & -> & H2 & a3 & b3 & -> & H3 & a4 & b4 & -> & H4 & ->).
  apply (silent_sound _ _ _ _ Sa) in H1. subst. apply Hm in H2 as (mo & ->). apply sh_gorf in H3 as (g & -> & Hg).
  apply sh_cunit247 in H4 as (u & ->). exists (TStr mo), g, (TStr u). split; [reflexivity|exact Hg].
Qed.
Lemma sh_conc t : GP 238 t -> t = [] \/ concS t.
Proof.
  intros H. ginv H. destruct H as (t0 & -> & [->|H]); [left; reflexivity|right].
  ginv H. destruct H as (t1 & -> & k & Hi & Hk). cbn [In] in Hi. destruct Hi as [<-|[<-|[]]].
  - apply (sh_conc_group 240 241 242 244) in Hk; try plk; [exact Hk|].
    apply sh_lit_choice. eexists. split; [plk|]. repeat constructor; eexists; plk.
  - apply (sh_conc_group 253 254 255 257) in Hk; try plk; [exact Hk|].
    apply sh_lit_choice. eexists. split; [plk|]. repeat constructor; eexists; plk.
Qed.

Definition tagKer : pstr := [107; 101; 114; 110; 101; 108; 45; 99; 111; 109; 112; 108; 101; 120]%N.
Lemma line_kernel nm pat cc : patS pat -> cc = [] \/ concS cc ->
  line_okb (TList (TStr tagKer :: TStr nm :: TList pat :: cc)) = true.
Proof.
  intros (tr & Etr & Htr) Hcc. unfold line_okb, decode. cbn [tnth nth_error rbind t_str t_list].
  change (tag_is (TStr tagKer) tDl) with false. change (tag_is (TStr tagKer) tSl) with false.
  change (tag_is (TStr tagKer) tComposite) with false. change (tag_is (TStr tagKer) tStrandCplx) with false.
  change (tag_is (TStr tagKer) tKernel) with true. cbv iota.
  rewrite Etr, (resolve_inverts_tree tr (tree_ok_names tr Htr)). cbn [rbind].
  destruct Hcc as [->|(mode & g & u & -> & (v & Eg))].
  - cbn [length Nat.ltb Nat.leb rbind stmt_okb fst]. apply tree_ok_knames. exact Htr.
  - cbn [length Nat.ltb Nat.leb rbind tnth nth_error t_list t_str]. rewrite Eg. cbn [rbind stmt_okb fst].
    apply tree_ok_knames. exact Htr.
Qed.

(* ---------------------------------------------------------------- text level: one pattern group *)
Section Text.
  Variable full : pstr.
  Notation PP := (parse pil_nodes full).

  Definition sign (p : pos) : pos := match p with At x => At (std_skip_ign pil_ws x) | Past => Past end.
  Definition spre (p : pos) : pos := match p with At x => At (std_pre pil_ws x) | Past => Past end.
  Lemma spre_idem p : spre (spre p) = spre p.
  Proof. destruct p; cbn; [rewrite (std_pre_idem pil_nodes pil_c pil_ws pil_comment_ok)|]; reflexivity. Qed.

  Lemma skip_ign_det f n p q : skip_ign (PP f) n [2] p = Some q -> q = sign p.
  Proof.
    intros H.
    assert (Hs : skips pil_nodes full [2] p (sign p)).
    { destruct p; [apply (skips_std pil_nodes full pil_c pil_ws pil_comment_ok)|apply (skips_std_Past pil_nodes full pil_c pil_ws pil_comment_ok)]. }
    destruct Hs as (f0 & Hs). specialize (Hs (Nat.max f f0) (Nat.max n f0) ltac:(lia) ltac:(lia)).
    destruct (skip_ign_mono (PP f) (PP (Nat.max f f0)) (parse_mono pil_nodes full f (Nat.max f f0) ltac:(lia)) n (Nat.max n f0) [2] p ltac:(lia)) as [E|E];
      congruence.
  Qed.
  Lemma pre_parse_det f n nd p q : nign nd = [2] -> nskip nd = true -> nws nd = pil_cs0 ->
    pre_parse (PP f) n nd p = Some q -> q = spre p.
  Proof.
    intros Hi Hk Hw H.
    assert (Hs : pre_to pil_nodes full nd p (spre p)).
    { destruct p; [|apply (pre_to_Past pil_nodes full pil_c pil_ws pil_comment_ok); right; exact Hi].
      apply (pre_to_fn pil_nodes full pil_c pil_ws pil_comment_ok). unfold pre_fn. rewrite Hi, Hk, Hw. reflexivity. }
    destruct Hs as (f0 & Hs). specialize (Hs (Nat.max f f0) (Nat.max n f0) ltac:(lia) ltac:(lia)).
    destruct (pre_parse_mono (PP f) (PP (Nat.max f f0)) (parse_mono pil_nodes full f (Nat.max f f0) ltac:(lia)) n (Nat.max n f0) nd p ltac:(lia)) as [E|E];
      congruence.
  Qed.

  (* invert a successful run at a concrete node *)
  Ltac pinv H f' p1 t0 Ep Ei :=
    let nd := fresh "nd" in let En := fresh "En" in
    let Ef := fresh "Ef" in let Et := fresh "Et" in
    apply parse_ok_inv in H; destruct H as (f' & nd & p1 & t0 & Ef & En & Ep & Ei & Et);
    try (injection Ef as Ef); subst;
    cbv [pil_nodes nth_error] in En; injection En as <-;
    cbn [ncallpre andb] in Ep; unfold impl in Ei; cbn [nkind nkids nign ntags post add_tags fold_left] in *.

  (* a std node (ignorables [2], skipping pil_cs0, callPreParse) that fails at q cannot succeed at spre q *)
  Lemma std_kid_pre k nd fa fb q a b :
    nth_error pil_nodes k = Some nd -> nign nd = [2] -> nskip nd = true -> nws nd = pil_cs0 -> ncallpre nd = true ->
    PP fa k true q = PFail -> PP fb k true (spre q) = POk a b -> False.
  Proof.
    intros En Hi Hk Hw Hc A B.
    set (F := Nat.max fa fb).
    apply (parse_more_fuel _ _ _ F) in A; [|discriminate|unfold F; lia].
    apply (parse_more_fuel _ _ _ F) in B; [|discriminate|unfold F; lia].
    destruct F as [|F1]; [discriminate|]. rewrite parse_S, En, Hc in A, B. cbn [andb] in A, B.
    destruct (pre_parse (PP F1) F1 nd q) as [y0|] eqn:E0; [|discriminate].
    destruct (pre_parse (PP F1) F1 nd (spre q)) as [y2|] eqn:E2; [|discriminate].
    apply (pre_parse_det _ _ _ _ _ Hi Hk Hw) in E0. apply (pre_parse_det _ _ _ _ _ Hi Hk Hw) in E2.
    rewrite spre_idem in E2. subst y0 y2. destruct (impl (PP F1) full F1 nd (spre q)); discriminate.
  Qed.

  Lemma first_of_ok_inv P ks : forall p p' t, first_of P ks p = POk p' t -> exists k, In k ks /\ P k true p = POk p' t.
  Proof.
    induction ks as [|k r IH]; intros p p' t H; cbn in H; [discriminate|].
    destruct (P k true p) as [q tk| |] eqn:E; try discriminate.
    - injection H as <- <-. exists k. split; [left; reflexivity|exact E].
    - apply IH in H as (k' & Hi & Hk). exists k'. split; [right; exact Hi|exact Hk].
  Qed.
  Lemma first_of_fail_inv P ks : forall p, first_of P ks p = PFail -> forall k, In k ks -> P k true p = PFail.
  Proof.
    induction ks as [|k r IH]; intros p H k' Hi; [contradiction|]. cbn in H.
    destruct (P k true p) as [q tk| |] eqn:E; try discriminate. destruct Hi as [<-|Hi]; [exact E|exact (IH p H k' Hi)].
  Qed.

  Lemma item_pre fa fb q a b : PP fa 210 true q = PFail -> PP fb 210 true (spre q) = POk a b -> False.
  Proof.
    intros A B.
    set (F := Nat.max fa fb).
    apply (parse_more_fuel _ _ _ F) in A; [|discriminate|unfold F; lia].
    apply (parse_more_fuel _ _ _ F) in B; [|discriminate|unfold F; lia].
    destruct F as [|F1]; [discriminate|].
    assert (En : nth_error pil_nodes 210 = Some (mkNode KFirst [211; 230; 231] true pil_cs0 [2] false [])) by plk.
    rewrite parse_S, En in A, B. cbn [ncallpre andb] in A, B. unfold impl in A, B. cbn [nkind nkids] in A, B.
    revert A. destruct (first_of (PP F1) [211; 230; 231] q) eqn:FA; intros A; try discriminate A.
    revert B. destruct (first_of (PP F1) [211; 230; 231] (spre q)) as [p2 t2| |] eqn:FB; intros B; try discriminate B.
    apply first_of_ok_inv in FB as (k & Hi & Hk). pose proof (first_of_fail_inv _ _ _ FA k Hi) as Hf.
    cbn [In] in Hi. destruct Hi as [<-|[<-|[<-|[]]]].
    - exact (std_kid_pre 211 _ _ _ _ _ _ ltac:(plk) eq_refl eq_refl eq_refl eq_refl Hf Hk).
    - exact (std_kid_pre 230 _ _ _ _ _ _ ltac:(plk) eq_refl eq_refl eq_refl eq_refl Hf Hk).
    - exact (std_kid_pre 231 _ _ _ _ _ _ ltac:(plk) eq_refl eq_refl eq_refl eq_refl Hf Hk).
  Qed.

  (* OneOrMore(Group(pattern)) of the kernel-complex alternative returns exactly one group *)
  Lemma kernel_one_group f cp p p' t : PP f 206 cp p = POk p' t -> exists pat, t = [TList pat] /\ GP 208 pat.
  Proof.
    intros H. pinv H f1 p1 t0 Ep Ei.
    destruct (PP f1 207 true p1) as [q t1| |] eqn:E1; try discriminate Ei.
    (* the first group, and where its inner loop stopped *)
    pose proof E1 as E1'. pinv E1' f2 p2 pat Ep2 Ei2.
    assert (Hpat : GP 208 pat) by exact (parse_gen _ _ _ _ _ _ _ _ Ei2).
    pose proof Ei2 as E208. pinv E208 f3 p3 t3 Ep3 Ei3. injection Ep3 as <-.
    pinv Ei3 f4 p4 t4 Ep4 Ei4. injection Ep4 as <-.
    destruct (PP f4 210 true p2) as [qb tb| |] eqn:E210; try discriminate Ei4.
    apply many_loop_end in Ei4 as (n' & q0 & Hs0 & Hfail). apply skip_ign_det in Hs0. subst q0.
    (* the outer loop *)
    cbn [many_loop] in Ei.
    destruct (skip_ign _ _ [2] q) as [q1|] eqn:Es1; [|discriminate Ei]. apply skip_ign_det in Es1. subst q1.
    destruct (PP _ 207 true (sign q)) as [q2 t2| |] eqn:E2; [|injection Ei as <- <-; eexists; split; [reflexivity|exact Hpat]|discriminate Ei].
    exfalso. clear Ei.
    pinv E2 g2 r2 u2 Fp2 Fi2. apply pre_parse_det in Fp2; [|reflexivity|reflexivity|reflexivity]. subst r2.
    pinv Fi2 g3 r3 u3 Fp3 Fi3. injection Fp3 as <-.
    pinv Fi3 g4 r4 u4 Fp4 Fi4. injection Fp4 as <-.
    destruct (PP g4 210 true (spre (sign q))) as [qc tc| |] eqn:F210; try discriminate Fi4.
    exact (item_pre _ _ _ _ _ Hfail F210).
  Qed.

  (* the kernel-complex alternative *)
  Lemma sh_alt202 f cp p p' t : PP f 202 cp p = POk p' t -> lineS t.
  Proof.
    intros H. pinv H f1 p1 t0 Ep Ei. pinv Ei f2 p2 t2 Ep2 Ei2. injection Ep2 as <-.
    destruct (PP f2 61 false p1) as [q0 a0| |] eqn:E0; try discriminate Ei2.
    apply seq_rest_inv in Ei2 as (q1 & a1 & E1 & Ei2). apply seq_rest_inv in Ei2 as (q2 & a2 & E2 & Ei2).
    apply seq_rest_inv in Ei2 as (q3 & a3 & E3 & Ei2). apply seq_rest_inv in Ei2 as (q4 & a4 & E4 & Ei2).
    cbn [seq_rest] in Ei2. injection Ei2 as <- <-.
    apply parse_gen in E0. apply sh_ident in E0 as (nm & -> & _).
    apply parse_gen in E1. silent_in E1. subst a1.
    apply kernel_one_group in E2 as (pat & -> & Hpat). apply sh_pattern in Hpat.
    apply parse_gen in E3. apply sh_conc in E3.
    apply parse_gen in E4. silent_in E4. subst a4.
    eexists. split; [reflexivity|]. cbn [app]. rewrite app_nil_r. exact (line_kernel nm pat a3 Hpat E3).
  Qed.

  Lemma sh_stmt f cp p p' t : PP f 8 cp p = POk p' t -> lineS t.
  Proof.
    intros H. pinv H f1 p1 t0 Ep Ei. apply first_of_ok_inv in Ei as (k & Hi & Hk).
    cbn [In] in Hi.
    destruct Hi as [<-|[<-|[<-|[<-|[<-|[<-|[<-|[<-|[<-|[<-|[<-|[<-|[<-|[]]]]]]]]]]]]]].
    - exact (sh_alt9 _ (parse_gen _ _ _ _ _ _ _ _ Hk)).
    - exact (sh_alt30 _ (parse_gen _ _ _ _ _ _ _ _ Hk)).
    - exact (sh_alt41 _ (parse_gen _ _ _ _ _ _ _ _ Hk)).
    - exact (sh_alt49 _ (parse_gen _ _ _ _ _ _ _ _ Hk)).
    - exact (sh_alt57 _ (parse_gen _ _ _ _ _ _ _ _ Hk)).
    - exact (sh_alt71 _ (parse_gen _ _ _ _ _ _ _ _ Hk)).
    - exact (sh_alt84 _ (parse_gen _ _ _ _ _ _ _ _ Hk)).
    - exact (sh_alt101 _ (parse_gen _ _ _ _ _ _ _ _ Hk)).
    - exact (sh_alt115 _ (parse_gen _ _ _ _ _ _ _ _ Hk)).
    - exact (sh_alt189 _ (parse_gen _ _ _ _ _ _ _ _ Hk)).
    - exact (sh_alt202 _ _ _ _ _ Hk).
    - exact (sh_alt263 _ (parse_gen _ _ _ _ _ _ _ _ Hk)).
    - exact (sh_alt283 _ (parse_gen _ _ _ _ _ _ _ _ Hk)).
  Qed.

  Definition linesS (t : list tok) : Prop := forallb line_okb t = true.
  Lemma lineS_lines t : lineS t -> linesS t.
  Proof. intros (line & -> & H). unfold linesS. cbn [forallb]. rewrite H. reflexivity. Qed.
  Lemma linesS_app a b : linesS a -> linesS b -> linesS (a ++ b).
  Proof. unfold linesS. intros Ha Hb. rewrite forallb_app, Ha, Hb. reflexivity. Qed.

  Lemma sh_document f cp p p' t : PP f 0 cp p = POk p' t -> linesS t.
  Proof.
    intros H. pinv H f1 p1 t0 Ep Ei.
    destruct (PP f1 1 false p1) as [q0 a0| |] eqn:E0; try discriminate Ei.
    apply seq_rest_inv in Ei as (q1 & a1 & E1 & Ei). apply seq_rest_inv in Ei as (q2 & a2 & E2 & Ei).
    apply seq_rest_inv in Ei as (q3 & a3 & E3 & Ei). cbn [seq_rest] in Ei. injection Ei as <- <-.
    apply parse_gen in E0. silent_in E0. apply parse_gen in E1. silent_in E1. apply parse_gen in E3. silent_in E3. subst.
    cbn [app]. rewrite app_nil_r.
    pinv E2 f2 p2 t2 Ep2 Ei2.
    destruct (PP f2 8 true p2) as [q8 a8| |] eqn:E8; try discriminate Ei2.
    apply many_loop_runs in Ei2 as (ts & -> & Hf).
    apply linesS_app; [exact (lineS_lines _ (sh_stmt _ _ _ _ _ E8))|].
    induction Hf as [|x l (qa & qb & Hx) Hl IH]; [reflexivity|]. cbn [concat].
    apply linesS_app; [exact (lineS_lines _ (sh_stmt _ _ _ _ _ Hx))|exact IH].
  Qed.
End Text.

(* every line of every successful parse of the PIL grammar has the shape the reader relies on *)
Theorem pil_grammar_shape : forall f text p toks,
  parse_string_fuel pil_grammar f text = POk p toks -> forallb line_okb toks = true.
Proof. intros f text p toks H. exact (sh_document _ _ _ _ _ _ H). Qed.
