(* C13: rejections.  A domain-length statement without assignment sign, or with
   junk after its number, is refused by every one of the 13 statement alternatives,
   hence the document raises ParseException.  Refuted: "a missing name is rejected". *)
From Coq Require Import List NArith Bool Arith Lia.
From DSD Require Import Base.Str Base.Errors Base.Val Model.Peg Model.DispatchPeg Proofs.PegMono Proofs.PegRules Proofs.PegStd
  Proofs.PegDoc Proofs.PegKw Proofs.C13Doc Proofs.PilLex Proofs.C13Ms Proofs.C13Dl.
From DSDGen Require Import PilGrammar.
Import ListNotations.

Lemma dlkw_idch k : exists k0 ks, dlkw_text k = k0 :: ks /\ memc k0 idch = true /\ all_in idch ks.
Proof. destruct k; eexists _, _; (split; [reflexivity|split; reflexivity]). Qed.

(* a text led by one of the three domain-length keywords on which the keyword's own
   alternative (and, for `sequence`, the sequence-constraint alternative) fails after the
   keyword is refused by the statement node *)
Lemma dl_keyword_text_refused full b kw T :
  blanks WS b -> nohead idch T -> nohead [61%N] (spre T) ->
  (forall a m, In (a, m) [(34, 38); (45, 46); (53, 54)] -> seqs G full [13; a; 35; m] (At T) [] PFail) ->
  seqs G full [13; 18; 22; 23; 27] (At T) [] PFail ->
  evals G full 8 true (At (b ++ dlkw_text kw ++ T)) PFail.
Proof.
  intros Hb HT HT' Hdl Hsl.
  destruct (dlkw_idch kw) as (k0 & ks & Ek & Hk0 & Hks).
  assert (Hcplx : evals G full 202 true (At (b ++ dlkw_text kw ++ T)) PFail).
  { apply (cplx_alt_fails full _ k0 ks T); try assumption. rewrite Ek. cbn [app].
    apply spre_blanks_stop; [exact Hb|apply idch_stop; exact Hk0]. }
  eapply evals_node_fail; [lk|cbn; reflexivity|]. apply impls_first; [reflexivity|]. cbn [nkids].
  destruct kw; cbn [dlkw_text app] in *.
  - eapply firsts_miss; [kwfail 9 10 11 12 Hb|].
    eapply firsts_miss.
    { eapply (evals_kw_alt_late_fail G full pil_c WS pil_comment_ok 30 31 32 33); [lk|lk|lk|lk| |apply Hdl; cbn; auto].
      rewrite spre_blanks_stop by (try exact Hb; reflexivity). cbn. reflexivity. }
    eapply firsts_miss; [kwfail 41 42 43 44 Hb|].
    eapply firsts_miss; [kwfail 49 50 51 52 Hb|].
    eapply firsts_miss; [kwfail 57 58 59 60 Hb|].
    eapply firsts_miss; [kwfail 71 72 73 74 Hb|].
    eapply firsts_miss; [kwfail 84 85 86 87 Hb|].
    eapply firsts_miss; [kwfail 101 102 103 104 Hb|].
    eapply firsts_miss; [kwfail 115 116 117 118 Hb|].
    eapply firsts_miss; [kwfail 189 190 191 192 Hb|].
    eapply firsts_miss; [exact Hcplx|].
    eapply firsts_miss; [kwfail 263 264 265 266 Hb|].
    eapply firsts_miss; [kwfail 283 284 285 286 Hb|]. apply firsts_nil.
  - eapply firsts_miss; [kwfail 9 10 11 12 Hb|].
    eapply firsts_miss; [kwfail 30 31 32 33 Hb|].
    eapply firsts_miss.
    { eapply (evals_kw_alt_late_fail G full pil_c WS pil_comment_ok 41 42 43 44); [lk|lk|lk|lk| |apply Hdl; cbn; auto].
      rewrite spre_blanks_stop by (try exact Hb; reflexivity). cbn. reflexivity. }
    eapply firsts_miss; [kwfail 49 50 51 52 Hb|].
    eapply firsts_miss; [kwfail 57 58 59 60 Hb|].
    eapply firsts_miss; [kwfail 71 72 73 74 Hb|].
    eapply firsts_miss; [kwfail 84 85 86 87 Hb|].
    eapply firsts_miss; [kwfail 101 102 103 104 Hb|].
    eapply firsts_miss; [kwfail 115 116 117 118 Hb|].
    eapply firsts_miss; [kwfail 189 190 191 192 Hb|].
    eapply firsts_miss; [exact Hcplx|].
    eapply firsts_miss; [kwfail 263 264 265 266 Hb|].
    eapply firsts_miss; [kwfail 283 284 285 286 Hb|]. apply firsts_nil.
  - eapply firsts_miss.
    { eapply (evals_kw_alt_late_fail G full pil_c WS pil_comment_ok 9 10 11 12); [lk|lk|lk|lk| |exact Hsl].
      rewrite spre_blanks_stop by (try exact Hb; reflexivity). cbn. reflexivity. }
    eapply firsts_miss; [kwfail 30 31 32 33 Hb|].
    eapply firsts_miss; [kwfail 41 42 43 44 Hb|].
    eapply firsts_miss.
    { eapply (evals_kw_alt_late_fail G full pil_c WS pil_comment_ok 49 50 51 52); [lk|lk|lk|lk| |apply Hdl; cbn; auto].
      rewrite spre_blanks_stop by (try exact Hb; reflexivity). cbn. reflexivity. }
    eapply firsts_miss; [kwfail 57 58 59 60 Hb|].
    eapply firsts_miss; [kwfail 71 72 73 74 Hb|].
    eapply firsts_miss; [kwfail 84 85 86 87 Hb|].
    eapply firsts_miss; [kwfail 101 102 103 104 Hb|].
    eapply firsts_miss; [kwfail 115 116 117 118 Hb|].
    eapply firsts_miss; [kwfail 189 190 191 192 Hb|].
    eapply firsts_miss; [exact Hcplx|].
    eapply firsts_miss; [kwfail 263 264 265 266 Hb|].
    eapply firsts_miss; [kwfail 283 284 285 286 Hb|]. apply firsts_nil.
Qed.

Lemma assign_nodes a m : In (a, m) [(34, 38); (45, 46); (53, 54)] ->
  nth_error G a = Some (mkNode KSuppress [19] true WS [pil_c] false []) /\
  exists sl le, nth_error G m = Some (mkNode (KMany true) [sl] true WS [pil_c] true []) /\
    nth_error G sl = Some (mkNode KSuppress [le] true WS [pil_c] true []) /\
    nth_error G le = Some (mkNode KLineEnd [] true WS [pil_c] true []).
Proof.
  cbn. intros [E|[E|[E|[]]]]; injection E as <- <-; (split; [lk|eexists _, _; repeat split; lk]).
Qed.

(* ---- missing assignment sign:  KEYWORD blanks NAME[*] blanks X...  with X no sign ---- *)
Record noassign := mkNoassign { na_kw : dlkw; na_b1 : pstr; na_n0 : chr; na_ns : pstr; na_star : bool;
                                na_b2 : pstr; na_x0 : chr; na_rest : pstr }.
Definition noassign_ok (s : noassign) : Prop :=
  blanks WS (na_b1 s) /\ na_b1 s <> [] /\ memc (na_n0 s) idch = true /\ all_in idch (na_ns s) /\
  blanks WS (na_b2 s) /\ na_b2 s <> [] /\ stopc (na_x0 s) = true /\ na_x0 s <> 61%N /\ na_x0 s <> 58%N.
Definition noassign_text (s : noassign) : pstr :=
  dlkw_text (na_kw s) ++ na_b1 s ++ na_n0 s :: na_ns s ++ star_s (na_star s) ++ na_b2 s ++ na_x0 s :: na_rest s.

Lemma blanks_head_not cs w b r : forallb (fun w => negb (memc w cs)) WS = true ->
  blanks WS (w :: b) -> nohead cs ((w :: b) ++ r).
Proof.
  intros Hd Hb. cbn. unfold blanks in Hb. cbn in Hb. apply andb_prop in Hb as [Hw _].
  apply negb_true_iff. apply (memc_forallb WS (fun w => negb (memc w cs)) w Hd Hw).
Qed.

Theorem missing_assign_refused s full b :
  noassign_ok s -> blanks WS b -> evals G full 8 true (At (b ++ noassign_text s)) PFail.
Proof.
  intros (Hb1 & Hb1ne & H0 & Hns & Hb2 & Hb2ne & Hx & Hx1 & Hx2) Hb. unfold noassign_text.
  set (T := na_b1 s ++ na_n0 s :: na_ns s ++ star_s (na_star s) ++ na_b2 s ++ na_x0 s :: na_rest s).
  assert (Hdom : evals G full 13 true (At T)
            (POk (At (na_b2 s ++ na_x0 s :: na_rest s)) [TStr (na_n0 s :: na_ns s ++ star_s (na_star s))])).
  { eapply (ev_domain full true _ (na_n0 s) (na_ns s) (na_star s)); [|exact H0|exact Hns|].
    - apply spre_blanks_stop; [exact Hb1|apply idch_stop; exact H0].
    - intros _. destruct (na_b2 s) as [|w b2]; [congruence|].
      split; apply blanks_head_not; try exact Hb2; vm_compute; reflexivity. }
  assert (Hnosign : nohead [61; 58]%N (spre (na_b2 s ++ na_x0 s :: na_rest s))).
  { rewrite spre_blanks_stop by (try exact Hb2; exact Hx). cbn.
    destruct (N.eqb_spec (na_x0 s) 61); [congruence|]. destruct (N.eqb_spec (na_x0 s) 58); [congruence|]. reflexivity. }
  apply dl_keyword_text_refused; [exact Hb| | | |].
  - unfold T. destruct (na_b1 s) as [|w b1]; [congruence|]. apply blanks_head_not; [vm_compute; reflexivity|exact Hb1].
  - unfold T. rewrite spre_blanks_stop; [|exact Hb1|apply idch_stop; exact H0]. cbn.
    destruct (N.eqb_spec (na_n0 s) 61) as [e|]; [rewrite e in H0; discriminate|reflexivity].
  - intros a m Hin. destruct (assign_nodes a m Hin) as (Ha & _).
    eapply seqs_cons; [exact Hdom|]. apply seqs_fail. apply (ev_assign_fail full a true _ Ha). exact Hnosign.
  - eapply seqs_cons; [exact Hdom|]. apply seqs_fail. apply (ev_assign_fail full 18 true); [lk|exact Hnosign].
Qed.

Theorem reject_missing_assign s pls b :
  noassign_ok s -> Forall pil_blank_line pls -> blanks WS b ->
  no_tab (concat pls ++ b ++ noassign_text s) ->
  exists f0, forall f, f0 <= f -> parse_pil_fuel f (concat pls ++ b ++ noassign_text s) = err eParse.
Proof.
  intros Hs Hp Hb Hnt. apply pil_document_reject; try assumption.
  - unfold noassign_text. destruct (na_kw s); cbn; repeat split; reflexivity.
  - intros full b' Hb'. apply missing_assign_refused; assumption.
Qed.

(* ---- malformed number: digits followed by junk that is not a statement end (`5x`, `1.`, `1e`, `1_000`, `1,5`) ---- *)
Record badnum := mkBadnum { bn_kw : dlkw; bn_n0 : chr; bn_ns : pstr; bn_star : bool; bn_d0 : chr; bn_ds : pstr;
                            bn_j0 : chr; bn_junk : pstr }.
Definition badnum_ok (s : badnum) (y : dl_layout) : Prop :=
  dl_layout_ok y /\ dl_b1 y <> [] /\ memc (bn_n0 s) idch = true /\ all_in idch (bn_ns s) /\
  memc (bn_d0 s) digit = true /\ all_in digit (bn_ds s) /\
  stopc (bn_j0 s) = true /\ memc (bn_j0 s) digit = false.
Definition badnum_text (s : badnum) (y : dl_layout) : pstr :=
  dlkw_text (bn_kw s) ++ dl_b1 y ++ bn_n0 s :: bn_ns s ++ star_s (bn_star s) ++ dl_b2 y ++ dl_sgn y :: dl_b3 y ++
  bn_d0 s :: bn_ds s ++ bn_j0 s :: bn_junk s.

Theorem malformed_number_refused s y full b :
  badnum_ok s y -> blanks WS b -> evals G full 8 true (At (b ++ badnum_text s y)) PFail.
Proof.
  intros ((Hb1 & Hb2 & Hb3 & Hsgn) & Hb1ne & H0 & Hns & Hd0 & Hds & Hj & Hjd) Hb. unfold badnum_text.
  set (J := bn_j0 s :: bn_junk s).
  set (T := dl_b1 y ++ bn_n0 s :: bn_ns s ++ star_s (bn_star s) ++ dl_b2 y ++ dl_sgn y :: dl_b3 y ++ bn_d0 s :: bn_ds s ++ J).
  assert (Hsg : stopc (dl_sgn y) = true) by (destruct Hsgn as [-> | ->]; reflexivity).
  assert (Hdom : evals G full 13 true (At T)
            (POk (At (dl_b2 y ++ dl_sgn y :: dl_b3 y ++ bn_d0 s :: bn_ds s ++ J)) [TStr (bn_n0 s :: bn_ns s ++ star_s (bn_star s))])).
  { eapply (ev_domain full true _ (bn_n0 s) (bn_ns s) (bn_star s)); [|exact H0|exact Hns|].
    - apply spre_blanks_stop; [exact Hb1|apply idch_stop; exact H0].
    - intros _. split; (apply nohead_blanks; [|exact Hb2|]).
      + vm_compute; reflexivity.
      + destruct Hsgn as [-> | ->]; reflexivity.
      + vm_compute; reflexivity.
      + destruct Hsgn as [-> | ->]; reflexivity. }
  assert (Hasg : forall a, nth_error G a = Some (mkNode KSuppress [19] true WS [pil_c] false []) ->
            evals G full a true (At (dl_b2 y ++ dl_sgn y :: dl_b3 y ++ bn_d0 s :: bn_ds s ++ J))
              (POk (At (dl_b3 y ++ bn_d0 s :: bn_ds s ++ J)) [])).
  { intros a Ha. eapply (ev_assign full a true _ (dl_sgn y)); [exact Ha| |exact Hsgn].
    apply spre_blanks_stop; [exact Hb2|exact Hsg]. }
  apply dl_keyword_text_refused; [exact Hb| | | |].
  - unfold T. destruct (dl_b1 y) as [|w b1]; [congruence|]. apply blanks_head_not; [vm_compute; reflexivity|exact Hb1].
  - unfold T. rewrite spre_blanks_stop; [|exact Hb1|apply idch_stop; exact H0]. cbn.
    destruct (N.eqb_spec (bn_n0 s) 61) as [e|]; [rewrite e in H0; discriminate|reflexivity].
  - intros a m Hin. destruct (assign_nodes a m Hin) as (Ha & sl & le & Hm & Hsl & Hle).
    eapply seqs_cons; [exact Hdom|]. eapply seqs_cons; [apply Hasg; exact Ha|].
    eapply seqs_cons.
    { apply (ev_dlength full true _ (DNum (bn_d0 s) (bn_ds s)) J).
      - cbn [dlen_text app]. apply spre_blanks_stop; [exact Hb3|apply idch_stop, digit_idch; exact Hd0].
      - cbn. repeat split; assumption. }
    apply seqs_fail.
    apply (evals_eol_fail G pil_c sl le WS pil_comment_ok Hsl (ex_intro _ true Hle) full m true J (bn_j0 s) (bn_junk s) Hm).
    + apply spre_stop. exact Hj.
    + apply stopc_elim in Hj. apply Hj.
  - eapply seqs_cons; [exact Hdom|]. eapply seqs_cons; [apply Hasg; lk|].
    apply seqs_fail.
    eapply (evals_word_fail G full pil_c WS pil_comment_ok 22 true true); [lk|].
    cbn [andb]. rewrite spre_blanks_stop; [|exact Hb3|apply idch_stop, digit_idch; exact Hd0].
    apply digit_not_alpha. exact Hd0.
Qed.

Theorem reject_malformed_number s y pls b :
  badnum_ok s y -> Forall pil_blank_line pls -> blanks WS b ->
  no_tab (concat pls ++ b ++ badnum_text s y) ->
  exists f0, forall f, f0 <= f -> parse_pil_fuel f (concat pls ++ b ++ badnum_text s y) = err eParse.
Proof.
  intros Hs Hp Hb Hnt. apply pil_document_reject; try assumption.
  - unfold badnum_text. destruct (bn_kw s); cbn; repeat split; reflexivity.
  - intros full b' Hb'. apply malformed_number_refused; assumption.
Qed.

(* non-vacuity *)
Example noassign_example :
  noassign_ok (mkNoassign KwLength [32%N] 97%N [] false [32%N] 53%N [10%N]) /\
  parse_pil (noassign_text (mkNoassign KwLength [32%N] 97%N [] false [32%N] 53%N [10%N])) = err eParse.
Proof. split; [cbn; repeat split; try reflexivity; discriminate|vm_compute; reflexivity]. Qed.
Example badnum_example :
  let s := mkBadnum KwSequence 97%N [] true 49%N [] 46%N [10%N] in          (* sequence a* = 1.\n *)
  let y := mkDlLayout [32%N] [32%N] 61%N [32%N] in
  badnum_ok s y /\ parse_pil (badnum_text s y) = err eParse.
Proof.
  cbn zeta. split; [|vm_compute; reflexivity].
  cbn. repeat split; try reflexivity; try discriminate. left. reflexivity.
Qed.

(* ---- REFUTED on the faithful model: "a statement with a missing name is rejected".
   `length = 5` is a kernel-notation complex called `length` (the same text is the
   rendering of that tree; keywords are not reserved words of the dialect). ---- *)
Theorem missing_name_refuted :
  parse_pil ([108; 101; 110; 103; 116; 104; 32; 61; 32; 53; 10]%N)
  = vals [TList [TStr [107; 101; 114; 110; 101; 108; 45; 99; 111; 109; 112; 108; 101; 120]%N;   (* kernel-complex *)
                 TStr [108; 101; 110; 103; 116; 104]%N; TList [TStr [53%N]]]].
Proof. vm_compute. reflexivity. Qed.
