(* One application of rotate_complex_once on a well-formed, aligned
   (sequence, structure) pair: it succeeds, the result is again well-formed and
   aligned, the strands are cyclically shifted, and the pair table is the
   relabelled, shifted pair table of the input. *)
From Coq Require Import List Arith ZArith Lia Bool NArith.
From DSD Require Import Base.Str Base.Errors Model.ComplexUtils Dyck.Dyck
  Proofs.Mpt Proofs.Acc Proofs.Db Proofs.Assoc Proofs.C06 Proofs.RotLoc Proofs.RotScan
  Proofs.RotTree Proofs.RotPairs.
Import ListNotations.

(* well-formed dot-bracket structure over ( ) . + *)
Definition wf (sst : list chr) : Prop := wfc cP [cD] sst = true.

(* ---- well-formed strings are exactly the renderings of trees ---- *)
Lemma wfc_alphabet s : forall k, wfc_aux cP [cD] s k = true -> over_alphabet cP s.
Proof.
  induction s as [|c r IH]; intros k H; [constructor|]. cbn [wfc_aux] in H.
  destruct (N.eqb_spec c cP) as [->|Np].
  { constructor; [tauto|eapply IH, H]. }
  destruct (N.eqb_spec c cO) as [->|No].
  { constructor; [tauto|eapply IH, H]. }
  destruct (N.eqb_spec c cC) as [->|Nc].
  { destruct k; [discriminate|]. constructor; [tauto|eapply IH, H]. }
  cbn [existsb] in H. rewrite orb_false_r in H.
  destruct (N.eqb_spec c cD) as [->|Nd]; [|discriminate].
  constructor; [tauto|eapply IH, H].
Qed.

Lemma brk_ok_P : brk_ok cP.
Proof. repeat split; discriminate. Qed.

Theorem wf_rc sst : wf sst -> exists d, sst = rc d.
Proof.
  intros H. unfold wf, wfc in H. pose proof (wfc_alphabet _ _ H) as Ha.
  rewrite wfc_classify in H. fold (wfb (map (classify cP [cD]) sst)) in H.
  apply wfb_iff_render in H. destruct H as [d Hd]. exists d.
  unfold rc. rewrite Hd. symmetry. apply unsym_classify; [apply brk_ok_P|reflexivity|exact Ha].
Qed.

Theorem rc_wf d : wf (rc d).
Proof. unfold wf, wfc. rewrite wfc_classify, classify_rc. apply wfb_render. Qed.

Theorem mpt_rc d : make_pair_table cP [cD] (rc d) = Ok (tab_of d).
Proof. unfold make_pair_table. cbn [existsb negb N.eqb orb]. rewrite classify_rc, mpt_syms_render. reflexivity. Qed.

(* ---- alignment of the result ---- *)
Lemma isP_segs ls : map isP (segs cO ls) = map isP (segs cC ls).
Proof. induction ls as [|L r IH]; cbn [segs map]; [reflexivity|]. rewrite !map_app, IH. reflexivity. Qed.
Lemma isP_jt ds : map isP (jt cO ds) = map isP (jt cC ds).
Proof. destruct ds; [reflexivity|]. cbn [jt]. rewrite !map_app, isP_segs. reflexivity. Qed.

Lemma aligned_rot seq fs : fs <> [] -> aligned seq (rc (plug fs)) ->
  let p := length (jt cO (map fst fs)) in
  aligned (skipn (S p) seq ++ [sPlus] ++ firstn p seq) (rc (rotZ fs)).
Proof.
  intros Hne Hal p. unfold aligned in *. rewrite rc_rotZ by exact Hne. rewrite rc_plug in Hal by exact Hne.
  rewrite !map_app. cbn [map]. rewrite <- skipn_map, <- firstn_map, Hal.
  rewrite map_app. cbn [map].
  replace p with (length (map isP (jt cO (map fst fs)))) by (rewrite map_length; reflexivity).
  rewrite skipn_exact, firstn_exact. rewrite isP_jt. rewrite <- isP_jt. reflexivity.
Qed.

(* ---- the case analysis shared by all theorems about one step ---- *)
Inductive once_spec (seq : list pstr) (sst : list chr) : Prop :=
| once_single d :
    sst = rc d -> has_break d = false ->
    rotate_complex_once seq sst = Ok (seq, sst) -> once_spec seq sst
| once_multi fs :
    fs <> [] -> lefts_break_free fs -> sst = rc (plug fs) ->
    rotate_complex_once seq sst
    = Ok (skipn (S (length (jt cO (map fst fs)))) seq ++ [sPlus] ++ firstn (length (jt cO (map fst fs))) seq,
          rc (rotZ fs)) -> once_spec seq sst.

Theorem once_cases seq sst : aligned seq sst -> wf sst -> once_spec seq sst.
Proof.
  intros Hal Hwf. destruct (wf_rc sst Hwf) as [d ->]. destruct (has_break d) eqn:Hb.
  - destruct (zipper_exists d Hb) as (fs & Hne & -> & Hbf).
    apply (once_multi _ _ fs Hne Hbf eq_refl). apply rot_once_tree; assumption.
  - apply (once_single _ _ d eq_refl Hb). apply rot_once_no_break; assumption.
Qed.

(* ---- rot_once_wf ---- *)
Theorem rot_once_wf_lemma seq sst : aligned seq sst -> wf sst ->
  exists seq' sst', rotate_complex_once seq sst = Ok (seq', sst') /\ aligned seq' sst' /\ wf sst'.
Proof.
  intros Hal Hwf. destruct (once_cases seq sst Hal Hwf) as [d -> Hb E|fs Hne Hbf -> E].
  - exists seq, (rc d). auto.
  - eexists _, _. split; [exact E|]. split; [apply aligned_rot; assumption|apply rc_wf].
Qed.

(* ---- rot_once_strands ---- *)
(* the sequence: the first strand moves behind the others, content unchanged *)
Lemma neq_plus_eqb x : x <> sPlus -> str_eqb sPlus x = false.
Proof. intros Hx. destruct (str_eqb sPlus x) eqn:E; [|reflexivity]. apply str_eqb_iff in E. congruence. Qed.

Lemma all_not_plus s : Forall (fun x => x <> sPlus) s -> Forall (fun b => b = false) (map (str_eqb sPlus) s).
Proof. intros H. apply Forall_map. eapply Forall_impl; [|exact H]. intros x Hx. apply neq_plus_eqb, Hx. Qed.

Lemma index_of_app s0 rest : Forall (fun x => x <> sPlus) s0 ->
  index_of sPlus (s0 ++ sPlus :: rest) = Some (length s0).
Proof.
  intros H. rewrite index_of_first_true, map_app. cbn [map].
  rewrite (proj2 (str_eqb_iff sPlus sPlus) eq_refl).
  rewrite first_true_app_false; [rewrite map_length; reflexivity|].
  apply all_not_plus, H.
Qed.

Theorem rot_once_seq s0 rest sst seq' sst' :
  Forall (fun x => x <> sPlus) s0 ->
  rotate_complex_once (s0 ++ sPlus :: rest) sst = Ok (seq', sst') ->
  seq' = rest ++ sPlus :: s0.
Proof.
  intros H E. rewrite rotate_complex_once_unfold, (index_of_app s0 rest H) in E.
  destruct (rot_struct (length s0) sst) as [s'|k]; [|discriminate]. cbn [rbind] in E.
  rewrite skipn_exact, firstn_exact in E. injection E as <- _. reflexivity.
Qed.

Theorem rot_once_seq_single seq sst seq' sst' :
  Forall (fun x => x <> sPlus) seq -> rotate_complex_once seq sst = Ok (seq', sst') ->
  seq' = seq /\ sst' = sst.
Proof.
  intros H E. rewrite rotate_complex_once_unfold, index_of_first_true in E.
  rewrite first_true_none in E.
  - injection E as <- <-. auto.
  - apply all_not_plus, H.
Qed.

(* ... and so does the strand table *)
Lemma mst_aux_snoc x s0 : s0 <> [] -> break_free sPlus s0 -> forall cur,
  mst_list_aux sPlus (x ++ sPlus :: s0) cur = mst_list_aux sPlus x cur ++ [s0].
Proof.
  intros Hne Hbf.
  assert (Hs0 : mst_list_aux sPlus s0 [] = [s0]).
  { rewrite <- (app_nil_r s0) at 1. rewrite mst_aux_run by exact Hbf. cbn [mst_list_aux].
    rewrite app_nil_r. destruct (rev s0) eqn:E.
    - apply (f_equal (@rev _)) in E. rewrite rev_involutive in E. cbn in E. contradiction.
    - rewrite <- E, rev_involutive. reflexivity. }
  induction x as [|y x IH]; intros cur.
  - cbn [app mst_list_aux]. rewrite (proj2 (str_eqb_iff sPlus sPlus) eq_refl).
    destruct cur; rewrite Hs0; reflexivity.
  - cbn [app mst_list_aux]. destruct (str_eqb y sPlus).
    + destruct cur; rewrite IH; reflexivity.
    + apply IH.
Qed.

Theorem rot_once_strand_table s0 rest :
  s0 <> [] -> break_free sPlus s0 ->
  make_strand_table_list sPlus (s0 ++ sPlus :: rest) = s0 :: make_strand_table_list sPlus rest /\
  make_strand_table_list sPlus (rest ++ sPlus :: s0) = make_strand_table_list sPlus rest ++ [s0].
Proof.
  intros Hne Hbf. unfold make_strand_table_list. split.
  - rewrite mst_aux_run by exact Hbf. cbn [mst_list_aux].
    rewrite (proj2 (str_eqb_iff sPlus sPlus) eq_refl). rewrite app_nil_r.
    destruct (rev s0) eqn:E.
    + apply (f_equal (@rev _)) in E. rewrite rev_involutive in E. cbn in E. contradiction.
    + rewrite <- E, rev_involutive. reflexivity.
  - apply mst_aux_snoc; assumption.
Qed.

Theorem rot_once_strands_lemma s0 rest sst seq' sst' :
  Forall (fun x => x <> sPlus) s0 ->
  rotate_complex_once (s0 ++ sPlus :: rest) sst = Ok (seq', sst') ->
  seq' = rest ++ sPlus :: s0 /\
  (s0 <> [] ->
   make_strand_table_list sPlus seq' = rot_left (make_strand_table_list sPlus (s0 ++ sPlus :: rest))).
Proof.
  intros H E. pose proof (rot_once_seq _ _ _ _ _ H E) as ->. split; [reflexivity|].
  intros Hne. destruct (rot_once_strand_table s0 rest Hne H) as [-> ->]. reflexivity.
Qed.

(* ---- rot_once_pairs ---- *)
Lemma tab_vals_below d : Forall (vals_below (length (tab_of d))) (ents d (0, 0)).
Proof.
  apply Forall_forall. intros [|[v|]] H; cbn [vals_below]; try exact I.
  apply ents_vals_strand in H. rewrite tableE_length_plug. lia.
Qed.

Lemma relabel_id_below n k t es :
  t = tableE es -> Forall (vals_below n) es ->
  (forall l, fst l < n -> rloc n k l = l) -> relabel n k t = t.
Proof.
  intros -> V Hid. unfold relabel.
  rewrite (map_ext _ (map (option_map (rloc n k)))) by (intros r; apply map_ext; intros x; apply rotate_locus_rloc).
  rewrite <- tableE_map. f_equal. rewrite <- (map_id es) at 2. apply map_ext_in. intros e He.
  rewrite Forall_forall in V. specialize (V e He). destruct e as [|[v|]]; cbn [emap option_map]; try reflexivity.
  cbn [vals_below] in V. rewrite Hid by exact V. reflexivity.
Qed.

Lemma rloc_single k l : fst l < 1 -> rloc 1 k l = l.
Proof.
  intros H. unfold rloc. destruct l as [s j]. cbn [fst snd] in *. f_equal.
  assert (s = 0) by lia. subst s.
  pose proof (wrap_range (Z.of_nat 0 + k) (Z.of_nat 1) ltac:(lia)). lia.
Qed.

Theorem tab_single d : has_break d = false ->
  let T := tab_of d in length T = 1 /\ relabel (length T) (-1) (rot_left T) = T.
Proof.
  intros Hb T. assert (HL : length T = 1).
  { unfold T. rewrite tableE_length_plug, adv_break_free by exact Hb. reflexivity. }
  split; [exact HL|]. rewrite HL.
  destruct T as [|r [|r2 T']] eqn:ET; cbn in HL; try lia. cbn [rot_left app].
  apply (relabel_id_below 1 (-1) [r] (ents d (0, 0))).
  - rewrite <- ET. reflexivity.
  - pose proof (tab_vals_below d) as V. fold T in V. rewrite ET in V. exact V.
  - apply rloc_single.
Qed.

Theorem rot_once_pairs_lemma seq sst : aligned seq sst -> wf sst ->
  exists seq' sst' T,
    rotate_complex_once seq sst = Ok (seq', sst') /\
    make_pair_table cP [cD] sst = Ok T /\
    make_pair_table cP [cD] sst' = Ok (relabel (length T) (-1) (rot_left T)).
Proof.
  intros Hal Hwf. destruct (once_cases seq sst Hal Hwf) as [d -> Hb E|fs Hne Hbf -> E].
  - exists seq, (rc d), (tab_of d). split; [exact E|]. split; [apply mpt_rc|].
    rewrite (proj2 (tab_single d Hb)). apply mpt_rc.
  - eexists _, _, (tab_of (plug fs)). split; [exact E|]. split; [apply mpt_rc|].
    rewrite mpt_rc. f_equal. apply tab_rotZ; assumption.
Qed.

(* ---- non-vacuity ---- *)
(* a( b( + c( ) ) + ) d : three strands, path depth 2, pairs within and across strands *)
Example ex_once :
  let seq := [[97%N]; [98%N]; sPlus; [99%N]; [100%N]; [101%N]; [102%N]; sPlus; [103%N]; [104%N]] in
  let sst := [cO; cO; cP; cO; cC; cC; cD; cP; cC; cD] in          (* "((+()).+)." *)
  aligned seq sst /\ wf sst /\
  rotate_complex_once seq sst
  = Ok ([[99%N]; [100%N]; [101%N]; [102%N]; sPlus; [103%N]; [104%N]; sPlus; [97%N]; [98%N]],
        [cO; cC; cO; cD; cP; cO; cD; cP; cC; cC]) /\                 (* "()(.+(.+))" *)
  make_pair_table cP [cD] sst
  = Ok [[Some (2, 0); Some (1, 2)]; [Some (1, 1); Some (1, 0); Some (0, 1); None]; [Some (0, 0); None]] /\
  make_pair_table cP [cD] [cO; cC; cO; cD; cP; cO; cD; cP; cC; cC]
  = Ok [[Some (0, 1); Some (0, 0); Some (2, 1); None]; [Some (2, 0); None]; [Some (1, 0); Some (0, 2)]].
Proof. cbn zeta. repeat split. Qed.

(* the hypotheses of rot_once_strands_lemma on the same complex: first strand a b *)
Example ex_strands :
  let s0 := [[97%N]; [98%N]] in
  let rest := [[99%N]; [100%N]; [101%N]; [102%N]; sPlus; [103%N]; [104%N]] in
  let sst := [cO; cO; cP; cO; cC; cC; cD; cP; cC; cD] in
  Forall (fun x => x <> sPlus) s0 /\ s0 <> [] /\
  (exists seq' sst', rotate_complex_once (s0 ++ sPlus :: rest) sst = Ok (seq', sst') /\
     make_strand_table_list sPlus (s0 ++ sPlus :: rest)
       = [[[97%N]; [98%N]]; [[99%N]; [100%N]; [101%N]; [102%N]]; [[103%N]; [104%N]]] /\
     make_strand_table_list sPlus seq'
       = [[[99%N]; [100%N]; [101%N]; [102%N]]; [[103%N]; [104%N]]; [[97%N]; [98%N]]]).
Proof.
  cbn zeta. split; [repeat constructor; discriminate|]. split; [discriminate|].
  eexists _, _. split; [reflexivity|]. split; reflexivity.
Qed.
