(* C13: round trip of the strand / sup-sequence statement
     (strand | sup-sequence) NAME (=|:) DOMAIN+ [(=|:) DIGITS]
   for all names, domain lists, numbers and layouts. *)
From Coq Require Import List NArith Bool Arith Lia.
From DSD Require Import Base.Str Base.Val Model.Peg Model.DispatchPeg Proofs.PegMono Proofs.PegRules Proofs.PegStd
  Proofs.PegDoc Proofs.PegKw Proofs.C13Doc Proofs.PilLex Proofs.C13Ms.
From DSDGen Require Import PilGrammar.
Import ListNotations.

(* ---- OneOrMore(domain): domain names separated by blanks ---- *)
Record dom := mkDom { d_b : pstr; d_n0 : chr; d_ns : pstr; d_star : bool }.
Definition d_name (d : dom) : pstr := d_n0 d :: d_ns d ++ star_s (d_star d).
Definition dom_ok (d : dom) : Prop :=
  blanks WS (d_b d) /\ d_b d <> [] /\ memc (d_n0 d) idch = true /\ all_in idch (d_ns d).
Fixpoint doms_text (ds : list dom) (r : pstr) : pstr :=
  match ds with
  | [] => r
  | d :: ds' => d_b d ++ d_n0 d :: d_ns d ++ star_s (d_star d) ++ doms_text ds' r
  end.
(* what may follow a domain name: neither an identifier character nor a star *)
Definition dom_follow (r : pstr) : Prop := nohead idch r /\ nohead [42%N] r.

Lemma doms_follow ds r : Forall dom_ok ds -> dom_follow r -> dom_follow (doms_text ds r).
Proof.
  intros Hds Hr. destruct ds as [|d ds]; [exact Hr|]. cbn [doms_text].
  inversion Hds as [|? ? (Hb & Hne & _) _]; subst. destruct (d_b d) as [|w b]; [congruence|].
  unfold blanks in Hb. cbn in Hb. apply andb_prop in Hb as [Hw _]. split; cbn; apply negb_true_iff.
  - apply (memc_forallb WS (fun w => negb (memc w idch)) w); [vm_compute; reflexivity|exact Hw].
  - apply (memc_forallb WS (fun w => negb (memc w [42%N])) w); [vm_compute; reflexivity|exact Hw].
Qed.

Lemma loops_doms full ds : forall r acc, Forall dom_ok ds -> dom_follow r -> nohead idch (spre r) ->
  loops G full [pil_c] 13 (At (doms_text ds r)) acc (POk (At r) (acc ++ map (fun d => TStr (d_name d)) ds)).
Proof.
  induction ds as [|d ds IH]; intros r acc Hds Hr Hstop.
  - cbn [doms_text map]. rewrite app_nil_r.
    eapply loops_stop; [apply (skips_std G full pil_c WS pil_comment_ok)|].
    apply ev_domain_fail. rewrite spre_skip_ign. exact Hstop.
  - inversion Hds as [|? ? Hd Hds']; subst. cbn [doms_text map].
    pose proof Hd as (Hb & Hne & H0 & Hns).
    eapply loops_step; [apply (skips_std G full pil_c WS pil_comment_ok)| |].
    + eapply (ev_domain full true _ (d_n0 d) (d_ns d) (d_star d) (doms_text ds r)); [|exact H0|exact Hns|].
      * rewrite spre_skip_ign. apply spre_blanks_stop; [exact Hb|apply idch_stop; exact H0].
      * intros _. apply doms_follow; assumption.
    + replace (acc ++ TStr (d_name d) :: map (fun d0 => TStr (d_name d0)) ds)
        with ((acc ++ [TStr (d_name d)]) ++ map (fun d0 => TStr (d_name d0)) ds)
        by (rewrite <- app_assoc; reflexivity).
      apply IH; assumption.
Qed.

(* Group [OneOrMore [domain]] : first domain after any blanks, the others after at least one *)
Lemma ev_domain_group full gr om b n0 ns star ds r :
  nth_error G gr = Some (mkNode KGroup [om] true WS [pil_c] true []) ->
  nth_error G om = Some (mkNode (KMany true) [13] true WS [pil_c] true []) ->
  blanks WS b -> memc n0 idch = true -> all_in idch ns -> Forall dom_ok ds ->
  dom_follow r -> nohead idch (spre r) ->
  evals G full gr true (At (b ++ n0 :: ns ++ star_s star ++ doms_text ds r))
    (POk (At r) [TList (TStr (n0 :: ns ++ star_s star) :: map (fun d => TStr (d_name d)) ds)]).
Proof.
  intros Hgr Hom Hb H0 Hns Hds Hr Hstop.
  assert (Hx : spre (b ++ n0 :: ns ++ star_s star ++ doms_text ds r) = n0 :: ns ++ star_s star ++ doms_text ds r)
    by (apply spre_blanks_stop; [exact Hb|apply idch_stop; exact H0]).
  eapply evals_eq.
  - eapply evals_node_ok; [exact Hgr|apply (pre_premise G full pil_c WS pil_comment_ok); repeat split|].
    unfold pre_pos. cbn [andb ncallpre]. rewrite Hx.
    eapply impls_wrap; [reflexivity|reflexivity|].
    eapply evals_node_ok; [exact Hom|cbn; reflexivity|].
    eapply impls_many; [reflexivity|reflexivity| |].
    + eapply (ev_domain full true _ n0 ns star (doms_text ds r)); [|exact H0|exact Hns|].
      * apply spre_stop. apply idch_stop. exact H0.
      * intros _. apply doms_follow; assumption.
    + cbn [nign]. apply (loops_doms full ds r _ Hds Hr Hstop).
  - reflexivity.
Qed.

(* ---- the statement ---- *)
Inductive cdkw := KwSupSequence | KwStrand.
Definition cdkw_text (k : cdkw) : pstr :=
  match k with
  | KwSupSequence => [115; 117; 112; 45; 115; 101; 113; 117; 101; 110; 99; 101]%N
  | KwStrand => [115; 116; 114; 97; 110; 100]%N
  end.
Definition tag_cd : pstr :=
  [99; 111; 109; 112; 111; 115; 105; 116; 101; 45; 100; 111; 109; 97; 105; 110]%N.   (* composite-domain *)

Record cd_stmt := mkCd { cd_kw : cdkw; cd_n0 : chr; cd_ns : pstr;
                         cd_d0 : chr; cd_ds0 : pstr; cd_star0 : bool; cd_doms : list dom; cd_num : option optnum }.
Record cd_layout := mkCdLayout { cd_b1 : pstr; cd_b2 : pstr; cd_sgn : chr; cd_b3 : pstr }.
Definition cd_stmt_ok (s : cd_stmt) : Prop :=
  memc (cd_n0 s) idch = true /\ all_in idch (cd_ns s) /\
  memc (cd_d0 s) idch = true /\ all_in idch (cd_ds0 s) /\ Forall dom_ok (cd_doms s) /\
  match cd_num s with Some o => optnum_ok o | None => True end.
Definition cd_layout_ok (y : cd_layout) : Prop :=
  blanks WS (cd_b1 y) /\ blanks WS (cd_b2 y) /\ blanks WS (cd_b3 y) /\ (cd_sgn y = 61%N \/ cd_sgn y = 58%N).
Definition cd_first (s : cd_stmt) : pstr := cd_d0 s :: cd_ds0 s ++ star_s (cd_star0 s).

Definition cd_render (s : cd_stmt) (y : cd_layout) : pstr :=
  cdkw_text (cd_kw s) ++ cd_b1 y ++ (cd_n0 s :: cd_ns s) ++ cd_b2 y ++ cd_sgn y :: cd_b3 y ++
  cd_first s ++ doms_text (cd_doms s) (optnum_text (cd_num s)).
Definition cd_tree (s : cd_stmt) : tok :=
  TList ([TStr tag_cd; TStr (cd_n0 s :: cd_ns s);
          TList (TStr (cd_first s) :: map (fun d => TStr (d_name d)) (cd_doms s))] ++ optnum_toks (cd_num s)).

Lemma doms_text_app ds r k : doms_text ds r ++ k = doms_text ds (r ++ k).
Proof. induction ds as [|d ds IH]; cbn [doms_text]; [reflexivity|]. norm_text. rewrite IH. reflexivity. Qed.

Definition cd_tail_text (s : cd_stmt) (y : cd_layout) (Ek : pstr) : pstr :=
  cd_b1 y ++ cd_n0 s :: cd_ns s ++ cd_b2 y ++ cd_sgn y :: cd_b3 y ++
  cd_d0 s :: cd_ds0 s ++ star_s (cd_star0 s) ++ doms_text (cd_doms s) (optnum_text (cd_num s) ++ Ek).

Lemma seqs_cd_tail full sa gr om op an sa2 m sl le s y E k :
  nth_error G sa = Some (mkNode KSuppress [19] true WS [pil_c] false []) ->
  nth_error G gr = Some (mkNode KGroup [om] true WS [pil_c] true []) ->
  nth_error G om = Some (mkNode (KMany true) [13] true WS [pil_c] true []) ->
  nth_error G op = Some (mkNode KOpt [an] true WS [pil_c] true []) ->
  nth_error G an = Some (mkNode KAnd [sa2; 26] true WS [pil_c] true []) ->
  nth_error G sa2 = Some (mkNode KSuppress [19] true WS [pil_c] false []) ->
  nth_error G m = Some (mkNode (KMany true) [sl] true WS [pil_c] true []) ->
  nth_error G sl = Some (mkNode KSuppress [le] true WS [pil_c] true []) ->
  (exists cpl, nth_error G le = Some (mkNode KLineEnd [] true WS [pil_c] cpl [])) ->
  cd_stmt_ok s -> cd_layout_ok y -> stmt_end E k ->
  seqs G full [61; sa; gr; op; m] (At (cd_tail_text s y (E ++ k))) []
    (POk (after WS k) ([TStr (cd_n0 s :: cd_ns s);
                        TList (TStr (cd_first s) :: map (fun d => TStr (d_name d)) (cd_doms s))] ++ optnum_toks (cd_num s))).
Proof.
  intros Hsa Hgr Hom Hop Han Hsa2 Hm Hsl Hle (H0 & Hns & Hd0 & Hds0 & Hdoms & Hnum) (Hb1 & Hb2 & Hb3 & Hsgn) Hk.
  unfold cd_tail_text.
  assert (Hsg : stopc (cd_sgn y) = true) by (destruct Hsgn as [-> | ->]; reflexivity).
  (* what follows the domain list *)
  assert (Hfollow : dom_follow (optnum_text (cd_num s) ++ E ++ k) /\ nohead idch (spre (optnum_text (cd_num s) ++ E ++ k))).
  { destruct (cd_num s) as [o|]; cbn [optnum_text app].
    - destruct Hnum as (Ho1 & Ho2 & _). norm_text.
      assert (Hso : stopc (on_sgn o) = true) by (destruct Ho2 as [-> | ->]; reflexivity).
      split; [split|].
      + apply nohead_blanks; [vm_compute; reflexivity|exact Ho1|]. destruct Ho2 as [-> | ->]; reflexivity.
      + apply nohead_blanks; [vm_compute; reflexivity|exact Ho1|]. destruct Ho2 as [-> | ->]; reflexivity.
      + rewrite spre_blanks_stop by (try exact Ho1; exact Hso). destruct Ho2 as [-> | ->]; reflexivity.
    - split; [split|].
      + apply pil_end_nohead; [exact Hk|vm_compute; reflexivity].
      + apply pil_end_nohead; [exact Hk|vm_compute; reflexivity].
      + apply end_nohead_spre; [exact Hk|reflexivity]. }
  destruct Hfollow as (Hfollow & Hstop).
  eapply seqs_cons.
  { apply (ev_ident full true _ (cd_n0 s) (cd_ns s)); [|exact H0|exact Hns|].
    - apply spre_blanks_stop; [exact Hb1|apply idch_stop; exact H0].
    - apply nohead_blanks; [vm_compute; reflexivity|exact Hb2|]. destruct Hsgn as [-> | ->]; reflexivity. }
  eapply seqs_cons.
  { eapply (ev_assign full sa true _ (cd_sgn y)); [exact Hsa| |exact Hsgn].
    apply spre_blanks_stop; [exact Hb2|exact Hsg]. }
  eapply seqs_cons.
  { apply (ev_domain_group full gr om (cd_b3 y) (cd_d0 s) (cd_ds0 s) (cd_star0 s) (cd_doms s)); assumption. }
  apply (seqs_optnum_end full op an sa2 m sl le (cd_num s) E k); assumption.
Qed.

Theorem roundtrip_composite_domain s y :
  cd_stmt_ok s -> cd_layout_ok y -> pil_body_ok (cd_render s y) [cd_tree s].
Proof.
  intros Hs Hy full b E k Hb Hk. unfold cd_render, cd_first. norm_text. rewrite doms_text_app. norm_text.
  fold (cd_tail_text s y (E ++ k)).
  eapply evals_eq.
  - eapply evals_node_ok; [lk|cbn; reflexivity|]. apply impls_first; [reflexivity|]. cbn [nkids].
    destruct (cd_kw s) eqn:Ekw; cbn [cdkw_text app].
    + eapply firsts_miss; [kwfail 9 10 11 12 Hb|].
      eapply firsts_miss; [kwfail 30 31 32 33 Hb|].
      eapply firsts_miss; [kwfail 41 42 43 44 Hb|].
      eapply firsts_miss; [kwfail 49 50 51 52 Hb|].
      apply firsts_hit.
      eapply (evals_kw_alt_ok G full pil_c WS pil_comment_ok 57 58 59 60); [lk|lk|lk|lk| |].
      { rewrite spre_blanks_stop by (try exact Hb; reflexivity). cbn. reflexivity. }
      apply (seqs_cd_tail full 62 63 64 65 66 67 68 69 70 s y E k); try lk; try (eexists; lk); assumption.
    + eapply firsts_miss; [kwfail 9 10 11 12 Hb|].
      eapply firsts_miss; [kwfail 30 31 32 33 Hb|].
      eapply firsts_miss; [kwfail 41 42 43 44 Hb|].
      eapply firsts_miss; [kwfail 49 50 51 52 Hb|].
      eapply firsts_miss; [kwfail 57 58 59 60 Hb|].
      apply firsts_hit.
      eapply (evals_kw_alt_ok G full pil_c WS pil_comment_ok 71 72 73 74); [lk|lk|lk|lk| |].
      { rewrite spre_blanks_stop by (try exact Hb; reflexivity). cbn. reflexivity. }
      apply (seqs_cd_tail full 75 76 77 78 79 80 81 82 83 s y E k); try lk; try (eexists; lk); assumption.
  - unfold cd_tree, cd_first. destruct (cd_kw s); reflexivity.
Qed.

Theorem roundtrip_composite_domain_parse s y b E :
  cd_stmt_ok s -> cd_layout_ok y -> blanks WS b -> stmt_end E [] ->
  no_tab (b ++ cd_render s y ++ E) ->
  exists f0, forall f, f0 <= f -> parse_pil_fuel f (b ++ cd_render s y ++ E) = vals [cd_tree s].
Proof.
  intros Hs Hy Hb HE Hnt. apply pil_statement_parse; try assumption.
  - unfold cd_render. destruct (cd_kw s); cbn; repeat split; reflexivity.
  - apply roundtrip_composite_domain; assumption.
Qed.

(* non-vacuity: `strand q = a b-seq* z : 20` *)
Example cd_example :
  let s := mkCd KwStrand 113%N [] 97%N [] false
             [mkDom [32%N] 98%N [45; 115; 101; 113]%N true; mkDom [32; 32]%N 122%N [] false]
             (Some (mkOptnum [32%N] 58%N [32%N] 50%N [48%N])) in
  let y := mkCdLayout [32%N] [32%N] 61%N [32%N] in
  cd_stmt_ok s /\ cd_layout_ok y /\ parse_pil (cd_render s y ++ [NL]) = vals [cd_tree s].
Proof.
  cbn zeta. split; [|split].
  - cbn. repeat split; try reflexivity; try discriminate.
    + repeat constructor; discriminate.
    + right. reflexivity.
  - cbn. repeat split; try reflexivity. left. reflexivity.
  - vm_compute. reflexivity.
Qed.
