(* Pair preservation: the pair table of the rotated tree is the relabelled,
   cyclically shifted pair table of the original tree,
       tab_of (rotZ fs) = map (map (rotate_locus n (-1))) (rot_left (tab_of (plug fs))).
   Both trees consist of two "tracks" (the first strand A0 ( A1 ( ... Ak and the
   rest B0 ) B1 ) ... Bk); a track's entries depend only on its own start
   position and on the positions of the partner brackets on the other track. *)
From Coq Require Import List Arith ZArith Lia Bool NArith.
From DSD Require Import Base.Str Base.Errors Model.ComplexUtils Dyck.Dyck
  Proofs.Mpt Proofs.Db Proofs.Assoc Proofs.C06 Proofs.RotLoc Proofs.RotScan Proofs.RotTree.
Import ListNotations.

Definition nextp (p : loc) : loc := (fst p, S (snd p)).
Definition nexts (p : loc) : loc := (S (fst p), 0).
Definition lshift (c : nat) (l : loc) : loc := (fst l + c, snd l).
Definition emap (g : loc -> loc) (e : entry) : entry :=
  match e with EB => EB | EP v => EP (option_map g v) end.

Lemma ents_DP i r p :
  ents (DP i r) p = EP (Some (adv i (nextp p))) :: ents i (nextp p)
                    ++ EP (Some p) :: ents r (nextp (adv i (nextp p))).
Proof. reflexivity. Qed.
Lemma adv_DP i r p : adv (DP i r) p = adv r (nextp (adv i (nextp p))).
Proof. reflexivity. Qed.
Lemma ents_DB r p : ents (DB r) p = EB :: ents r (nexts p).
Proof. reflexivity. Qed.
Lemma adv_DB r p : adv (DB r) p = adv r (nexts p).
Proof. reflexivity. Qed.

(* ---- strand-level bounds ---- *)
Lemma adv_fst_ge d : forall p, fst p <= fst (adv d p).
Proof. intros p. pose proof (adv_ge d p) as H. unfold le_loc in H. lia. Qed.

Lemma adv_break_free d : has_break d = false -> forall p, fst (adv d p) = fst p.
Proof.
  induction d as [|r IH|r IH|i IHi r IHr]; cbn [has_break]; intros H p.
  - reflexivity.
  - cbn [adv]. rewrite IH by exact H. reflexivity.
  - discriminate.
  - apply orb_false_iff in H. destruct H as [Hi Hr]. rewrite adv_DP.
    rewrite IHr by exact Hr. cbn [nextp fst]. rewrite IHi by exact Hi. reflexivity.
Qed.

Lemma ents_vals_strand d : forall p v, In (EP (Some v)) (ents d p) ->
  fst p <= fst v <= fst (adv d p).
Proof.
  induction d as [|r IH|r IH|i IHi r IHr]; intros p v H.
  - contradiction.
  - cbn [ents adv] in *. destruct H as [H|H]; [discriminate|].
    apply IH in H. cbn [fst] in H. exact H.
  - cbn [ents adv] in *. destruct H as [H|H]; [discriminate|].
    apply IH in H. cbn [fst] in H. lia.
  - rewrite ents_DP in H. rewrite adv_DP.
    pose proof (adv_fst_ge i (nextp p)) as G1.
    pose proof (adv_fst_ge r (nextp (adv i (nextp p)))) as G2. cbn [nextp fst] in *.
    destruct H as [H|H]; [injection H as <-; lia|].
    apply in_app_or in H. destruct H as [H|[H|H]].
    + apply IHi in H. cbn [nextp fst] in H. lia.
    + injection H as <-. lia.
    + apply IHr in H. cbn [nextp fst] in H. lia.
Qed.

Definition noEB (e : entry) : Prop := e <> EB.

Lemma ents_noEB d : has_break d = false -> forall p, Forall noEB (ents d p).
Proof.
  induction d as [|r IH|r IH|i IHi r IHr]; cbn [has_break]; intros H p.
  - constructor.
  - cbn [ents]. constructor; [discriminate|apply IH, H].
  - discriminate.
  - apply orb_false_iff in H. destruct H as [Hi Hr]. rewrite ents_DP.
    constructor; [discriminate|]. apply Forall_app. split; [apply IHi, Hi|].
    constructor; [discriminate|apply IHr, Hr].
Qed.

(* ---- strand shifts ---- *)
Lemma adv_shift d c : forall p, adv d (lshift c p) = lshift c (adv d p).
Proof.
  induction d as [|r IH|r IH|i IHi r IHr]; intros p.
  - reflexivity.
  - cbn [adv]. apply (IH (fst p, S (snd p))).
  - cbn [adv]. apply (IH (S (fst p), 0)).
  - rewrite !adv_DP.
    change (nextp (lshift c p)) with (lshift c (nextp p)). rewrite IHi.
    change (nextp (lshift c (adv i (nextp p)))) with (lshift c (nextp (adv i (nextp p)))).
    apply IHr.
Qed.

Lemma ents_shift d c : forall p, ents d (lshift c p) = map (emap (lshift c)) (ents d p).
Proof.
  induction d as [|r IH|r IH|i IHi r IHr]; intros p.
  - reflexivity.
  - cbn [ents map emap option_map]. f_equal. apply (IH (fst p, S (snd p))).
  - cbn [ents map emap]. f_equal. apply (IH (S (fst p), 0)).
  - rewrite !ents_DP. cbn [map emap option_map]. rewrite map_app. cbn [map emap option_map].
    change (nextp (lshift c p)) with (lshift c (nextp p)). rewrite adv_shift, IHi.
    change (nextp (lshift c (adv i (nextp p)))) with (lshift c (nextp (adv i (nextp p)))).
    rewrite IHr. reflexivity.
Qed.

(* ---- tracks: trees separated by single (path) brackets ---- *)
Fixpoint tend (ds : list dyck) (p : loc) : loc :=
  match ds with
  | [] => p
  | d :: r => match r with [] => adv d p | _ :: _ => tend r (nextp (adv d p)) end
  end.

Fixpoint parens (ds : list dyck) (p : loc) : list loc :=
  match ds with
  | [] => []
  | d :: r => match r with [] => [] | _ :: _ => adv d p :: parens r (nextp (adv d p)) end
  end.

(* qs: the partner positions of the separating brackets *)
Fixpoint track (ds : list dyck) (p : loc) (qs : list loc) : list entry :=
  match ds with
  | [] => []
  | d :: r =>
      match r with
      | [] => ents d p
      | _ :: _ =>
          match qs with
          | [] => ents d p
          | q :: qs' => ents d p ++ EP (Some q) :: track r (nextp (adv d p)) qs'
          end
      end
  end.

Lemma tend_cons d e r p : tend (d :: e :: r) p = tend (e :: r) (nextp (adv d p)).
Proof. reflexivity. Qed.
Lemma parens_cons d e r p : parens (d :: e :: r) p = adv d p :: parens (e :: r) (nextp (adv d p)).
Proof. reflexivity. Qed.
Lemma track_cons d e r p q qs :
  track (d :: e :: r) p (q :: qs) = ents d p ++ EP (Some q) :: track (e :: r) (nextp (adv d p)) qs.
Proof. reflexivity. Qed.

Lemma tend_snoc ds d : ds <> [] -> forall p, tend (ds ++ [d]) p = adv d (nextp (tend ds p)).
Proof.
  induction ds as [|e r IH]; [congruence|]. intros _ p. destruct r as [|e2 r].
  - reflexivity.
  - change ((e :: e2 :: r) ++ [d]) with (e :: (e2 :: r) ++ [d]).
    change ((e2 :: r) ++ [d]) with (e2 :: r ++ [d]) at 1. rewrite tend_cons.
    change (e2 :: r ++ [d]) with ((e2 :: r) ++ [d]). rewrite IH by discriminate. reflexivity.
Qed.

Lemma parens_snoc ds d : ds <> [] -> forall p, parens (ds ++ [d]) p = parens ds p ++ [tend ds p].
Proof.
  induction ds as [|e r IH]; [congruence|]. intros _ p. destruct r as [|e2 r].
  - reflexivity.
  - change ((e :: e2 :: r) ++ [d]) with (e :: (e2 :: r) ++ [d]).
    change ((e2 :: r) ++ [d]) with (e2 :: r ++ [d]) at 1. rewrite parens_cons.
    change (e2 :: r ++ [d]) with ((e2 :: r) ++ [d]). rewrite IH by discriminate. reflexivity.
Qed.

Lemma parens_length ds : forall p, S (length (parens ds p)) = length ds \/ ds = [].
Proof.
  induction ds as [|e r IH]; intros p; [right; reflexivity|left]. destruct r as [|e2 r].
  - reflexivity.
  - rewrite parens_cons. cbn [length]. destruct (IH (nextp (adv e p))) as [H|H]; [|discriminate].
    cbn [length] in H. lia.
Qed.

Lemma track_snoc ds d q : ds <> [] -> forall p qs, S (length qs) = length ds ->
  track (ds ++ [d]) p (qs ++ [q]) = track ds p qs ++ EP (Some q) :: ents d (nextp (tend ds p)).
Proof.
  induction ds as [|e r IH]; [congruence|]. intros _ p qs Hl. destruct r as [|e2 r].
  - destruct qs; [|cbn in Hl; lia]. reflexivity.
  - destruct qs as [|q0 qs]; [cbn in Hl; lia|].
    change ((e :: e2 :: r) ++ [d]) with (e :: (e2 :: r) ++ [d]).
    change ((e2 :: r) ++ [d]) with (e2 :: r ++ [d]) at 1.
    change ((q0 :: qs) ++ [q]) with (q0 :: qs ++ [q]). rewrite !track_cons.
    change (e2 :: r ++ [d]) with ((e2 :: r) ++ [d]). rewrite IH by (try discriminate; cbn [length] in *; lia).
    rewrite tend_cons. lnorm. reflexivity.
Qed.

Lemma tend_fst_ge ds : forall p, fst p <= fst (tend ds p).
Proof.
  induction ds as [|d r IH]; intros p; [cbn; lia|]. destruct r as [|e r].
  - apply adv_fst_ge.
  - rewrite tend_cons. pose proof (IH (nextp (adv d p))) as H. pose proof (adv_fst_ge d p).
    cbn [nextp fst] in H. lia.
Qed.

Lemma tend_break_free ds : Forall (fun d => has_break d = false) ds -> forall p, fst (tend ds p) = fst p.
Proof.
  induction 1 as [|d r Hd Hr IH]; intros p; [reflexivity|]. destruct r as [|e r].
  - apply adv_break_free, Hd.
  - rewrite tend_cons, IH. cbn [nextp fst]. apply adv_break_free, Hd.
Qed.

Lemma parens_fst_le ds : forall p q, In q (parens ds p) -> fst p <= fst q <= fst (tend ds p).
Proof.
  induction ds as [|d r IH]; intros p q H; [contradiction|]. destruct r as [|e r]; [contradiction|].
  rewrite parens_cons in H. rewrite tend_cons.
  pose proof (adv_fst_ge d p). pose proof (tend_fst_ge (e :: r) (nextp (adv d p))) as G. cbn [nextp fst] in G.
  destruct H as [<-|H]; [lia|]. apply IH in H. cbn [nextp fst] in H. lia.
Qed.

Lemma track_noEB ds : Forall (fun d => has_break d = false) ds -> forall p qs, Forall noEB (track ds p qs).
Proof.
  induction 1 as [|d r Hd Hr IH]; intros p qs; [constructor|]. destruct r as [|e r].
  - apply ents_noEB, Hd.
  - destruct qs as [|q qs]; [apply ents_noEB, Hd|]. rewrite track_cons. apply Forall_app. split.
    + apply ents_noEB, Hd.
    + constructor; [discriminate|apply IH].
Qed.

Lemma tend_shift ds c : forall p, tend ds (lshift c p) = lshift c (tend ds p).
Proof.
  induction ds as [|d r IH]; intros p; [reflexivity|]. destruct r as [|e r].
  - apply adv_shift.
  - rewrite !tend_cons, adv_shift. apply (IH (nextp (adv d p))).
Qed.

Lemma parens_shift ds c : forall p, parens ds (lshift c p) = map (lshift c) (parens ds p).
Proof.
  induction ds as [|d r IH]; intros p; [reflexivity|]. destruct r as [|e r]; [reflexivity|].
  rewrite !parens_cons, adv_shift. cbn [map]. f_equal. apply (IH (nextp (adv d p))).
Qed.

(* a relabelling g that acts as the shift by c on the track's own strands *)
Lemma ents_map_shift g c M d p :
  (forall l, fst l <= M -> g l = lshift c l) -> fst (adv d p) <= M ->
  ents d (lshift c p) = map (emap g) (ents d p).
Proof.
  intros Hg HM. rewrite ents_shift. apply map_ext_in. intros e He.
  destruct e as [|[v|]]; cbn [emap option_map]; try reflexivity.
  apply ents_vals_strand in He. rewrite Hg by lia. reflexivity.
Qed.

Lemma track_map g c M : (forall l, fst l <= M -> g l = lshift c l) ->
  forall ds p qs, fst (tend ds p) <= M ->
  track ds (lshift c p) (map g qs) = map (emap g) (track ds p qs).
Proof.
  intros Hg. induction ds as [|d r IH]; intros p qs HM; [reflexivity|]. destruct r as [|e r].
  - cbn [track]. apply (ents_map_shift g c M); assumption.
  - rewrite tend_cons in HM.
    pose proof (tend_fst_ge (e :: r) (nextp (adv d p))) as G. cbn [nextp fst] in G.
    destruct qs as [|q qs].
    + cbn [track map]. apply (ents_map_shift g c M); [assumption|lia].
    + cbn [map]. rewrite !track_cons. rewrite map_app. cbn [map emap option_map].
      rewrite (ents_map_shift g c M) by (assumption || lia). rewrite adv_shift.
      change (nextp (lshift c (adv d p))) with (lshift c (nextp (adv d p))).
      rewrite IH by exact HM. reflexivity.
Qed.

(* ---- entries of a plugged zipper ---- *)
Theorem ents_plug fs : fs <> [] -> forall p,
  let As := map fst fs in
  let Bs := rev (map snd fs) in
  let pb := nexts (tend As p) in
  ents (plug fs) p = track As p (rev (parens Bs pb)) ++ EB :: track Bs pb (rev (parens As p))
  /\ adv (plug fs) p = tend Bs pb.
Proof.
  induction fs as [|f fs IH]; [congruence|]. intros _ p. destruct fs as [|g fs].
  - cbn zeta. rewrite plug_one, ents_dapp, adv_dapp, ents_DB, adv_DB. split; reflexivity.
  - cbn zeta. rewrite plug_cons, ents_dapp, adv_dapp, ents_DP, adv_DP.
    destruct (IH ltac:(discriminate) (nextp (adv (fst f) p))) as [IHe IHa]. cbn zeta in IHe, IHa.
    change (map fst (g :: fs)) with (fst g :: map fst fs) in *.
    set (A1 := fst g) in *. set (Ar := map fst fs) in *.
    set (Bs' := rev (map snd (g :: fs))) in *.
    assert (HB : Bs' <> []) by (unfold Bs'; apply rev_nonnil; discriminate).
    assert (HlA : length (A1 :: Ar) = length (g :: fs)) by (unfold Ar; cbn [length]; rewrite map_length; reflexivity).
    assert (HlB : length Bs' = length (g :: fs)) by (unfold Bs'; rewrite rev_length; apply map_length).
    change (map fst (f :: g :: fs)) with (fst f :: A1 :: Ar).
    change (rev (map snd (f :: g :: fs))) with (Bs' ++ [snd f]).
    rewrite tend_cons. set (po := adv (fst f) p) in *.
    set (pb := nexts (tend (A1 :: Ar) (nextp po))) in *.
    rewrite IHa, IHe. rewrite parens_cons. fold po.
    rewrite parens_snoc by exact HB. rewrite tend_snoc by exact HB.
    rewrite rev_app_distr. cbn [rev app]. rewrite track_cons. fold po.
    rewrite track_snoc.
    + split; [|reflexivity]. lnorm. reflexivity.
    + exact HB.
    + rewrite rev_length. destruct (parens_length (A1 :: Ar) (nextp po)) as [H|H]; [|discriminate].
      rewrite H, HlA, HlB. reflexivity.
Qed.

(* ---- from entries to tables ---- *)
Definition tableE (es : list entry) : tab := let pc := appE ([], []) es in fst pc ++ [snd pc].

Lemma tab_of_tableE d : tab_of d = tableE (ents d (0, 0)).
Proof. reflexivity. Qed.

Lemma appE_prefix es : forall pre cur,
  appE (pre, cur) es = (pre ++ fst (appE ([], cur) es), snd (appE ([], cur) es)).
Proof.
  induction es as [|[|v] r IH]; intros pre cur; cbn [appE fst snd].
  - rewrite app_nil_r. reflexivity.
  - rewrite (IH (pre ++ [cur])), (IH ([] ++ [cur])). cbn [fst snd app]. rewrite <- app_assoc. reflexivity.
  - apply IH.
Qed.

Lemma tableE_app_EB es1 es2 : tableE (es1 ++ EB :: es2) = tableE es1 ++ tableE es2.
Proof.
  unfold tableE. cbn zeta. rewrite appE_app. cbn [appE].
  destruct (appE ([], []) es1) as [pre cur]. cbn [fst snd].
  rewrite appE_prefix. cbn [fst snd]. rewrite <- app_assoc. reflexivity.
Qed.

Definition mapPC (g : loc -> loc) (pc : tab * row) : tab * row :=
  (map (map (option_map g)) (fst pc), map (option_map g) (snd pc)).

Lemma appE_map g es : forall pc, appE (mapPC g pc) (map (emap g) es) = mapPC g (appE pc es).
Proof.
  induction es as [|[|v] r IH]; intros pc; cbn [map emap appE]; [reflexivity| |].
  - rewrite <- IH. unfold mapPC. cbn [fst snd]. rewrite map_app. reflexivity.
  - rewrite <- IH. unfold mapPC. cbn [fst snd]. rewrite map_app. reflexivity.
Qed.

Lemma tableE_map g es : tableE (map (emap g) es) = map (map (option_map g)) (tableE es).
Proof.
  unfold tableE. cbn zeta. change (([], []) : tab * row) with (mapPC g ([], [])).
  rewrite appE_map. unfold mapPC. cbn [fst snd]. rewrite map_app. reflexivity.
Qed.

Lemma appE_noEB es : Forall noEB es -> forall pre cur, fst (appE (pre, cur) es) = pre.
Proof.
  induction 1 as [|e r He _ IH]; intros pre cur; [reflexivity|].
  destruct e as [|v]; [exfalso; apply He; reflexivity|]. cbn [appE fst snd]. apply IH.
Qed.

Lemma tableE_noEB es : Forall noEB es -> exists r, tableE es = [r].
Proof. intros H. unfold tableE. cbn zeta. rewrite (appE_noEB es H). eexists. reflexivity. Qed.

Lemma tableE_length_plug d : length (tab_of d) = S (fst (adv d (0, 0))).
Proof.
  unfold tab_of. cbn zeta. rewrite app_length. cbn [length]. rewrite Nat.add_1_r. f_equal.
  pose proof (posOf_appE_ents d ([], [])) as H. unfold posOf in H at 1. cbn [fst snd length] in H.
  change (posOf ([], [])) with ((0, 0) : loc) in H.
  apply (f_equal fst) in H. cbn [fst] in H. exact H.
Qed.

(* ---- the relabelling ---- *)
Definition rot_left {A} (l : list A) : list A := match l with [] => [] | x :: r => r ++ [x] end.

Definition rloc (n : nat) (k : Z) (p : loc) : loc :=
  (Z.to_nat (wrap (Z.of_nat (fst p) + k) (Z.of_nat n)), snd p).
Lemma rotate_locus_rloc n k x : rotate_locus n k x = option_map (rloc n k) x.
Proof. reflexivity. Qed.

Definition relabel (n : nat) (k : Z) (t : tab) : tab := map (map (rotate_locus n k)) t.

Lemma rloc_pred_zero n l : 0 < n -> fst l = 0 -> rloc n (-1) l = lshift (n - 1) l.
Proof.
  intros Hn H. unfold rloc, lshift. rewrite H. f_equal.
  rewrite (wrap_pred 0 n Hn). reflexivity.
Qed.

Lemma rloc_pred_succ n l : S (fst l) < n -> rloc n (-1) (lshift 1 l) = l.
Proof.
  intros H. unfold rloc, lshift. cbn [fst snd]. destruct l as [s j]. cbn [fst snd] in *. f_equal.
  replace (s + 1) with (S s) by lia. rewrite (wrap_pred (S s) n H). reflexivity.
Qed.

Lemma rloc_succ n l : S (fst l) < n -> rloc n 1 l = lshift 1 l.
Proof.
  intros H. unfold rloc, lshift. f_equal. rewrite wrap_succ by lia.
  destruct (Nat.eqb_spec (S (fst l)) n); lia.
Qed.

Lemma rloc_succ_last n l : 0 < n -> fst l = 0 -> rloc n 1 (lshift (n - 1) l) = l.
Proof.
  intros Hn H. unfold rloc, lshift. destruct l as [s j]. cbn [fst snd] in *. subst s. f_equal.
  rewrite wrap_succ by lia. cbn [Nat.add]. destruct (Nat.eqb_spec (S (n - 1)) n); lia.
Qed.

Lemma rloc_inv n l : fst l < n -> rloc n (-1) (rloc n 1 l) = l.
Proof.
  intros H. pose proof (rotate_locus_compose n (-1) 1 (Some l) ltac:(lia)) as C.
  change (1 + -1)%Z with 0%Z in C. rewrite (rotate_locus_zero n (Some l) H) in C.
  rewrite !rotate_locus_rloc in C. cbn [option_map] in C. injection C as C. exact C.
Qed.

Definition vals_below (n : nat) (e : entry) : Prop :=
  match e with EP (Some v) => fst v < n | _ => True end.

Lemma track_vals ds n : forall p qs,
  fst (tend ds p) < n -> Forall (fun q => fst q < n) qs -> Forall (vals_below n) (track ds p qs).
Proof.
  induction ds as [|d r IH]; intros p qs HM Hq; [constructor|].
  assert (He : forall p', fst (adv d p') < n -> Forall (vals_below n) (ents d p')).
  { intros p' Hp. apply Forall_forall. intros [|[v|]] Hin; cbn [vals_below]; try exact I.
    apply ents_vals_strand in Hin. lia. }
  destruct r as [|e r].
  - apply He, HM.
  - rewrite tend_cons in HM.
    pose proof (tend_fst_ge (e :: r) (nextp (adv d p))) as G. cbn [nextp fst] in G.
    destruct qs as [|q qs]; [apply He; lia|]. rewrite track_cons.
    inversion Hq; subst. apply Forall_app. split; [apply He; lia|].
    constructor; [assumption|]. apply IH; assumption.
Qed.

Theorem tab_rotZ fs : fs <> [] -> lefts_break_free fs ->
  let T := tab_of (plug fs) in
  tab_of (rotZ fs) = relabel (length T) (-1) (rot_left T).
Proof.
  intros Hne Hbf T.
  set (As := map fst fs). set (Bs := rev (map snd fs)).
  assert (HAbf : Forall (fun d => has_break d = false) As) by (apply lefts_map, Hbf).
  set (m := fst (tend Bs (0, 0))).
  set (n := m + 2).
  (* entries of the original *)
  destruct (ents_plug fs Hne (0, 0)) as [E Ea]. cbn zeta in E, Ea. fold As Bs in E, Ea.
  assert (Hpb : nexts (tend As (0, 0)) = lshift 1 (0, 0)).
  { unfold nexts, lshift. rewrite (tend_break_free As HAbf). reflexivity. }
  rewrite Hpb in E, Ea.
  (* length of the table *)
  assert (Hn : length T = n).
  { unfold T. rewrite tableE_length_plug, Ea, tend_shift. unfold lshift, n, m. cbn [fst]. lia. }
  rewrite Hn.
  (* entries of the rotation *)
  assert (Hne' : rev (map swap fs) <> []) by (apply rev_nonnil, map_nonnil, Hne).
  destruct (ents_plug (rev (map swap fs)) Hne' (0, 0)) as [E' _]. cbn zeta in E'.
  rewrite map_fst_rev_swap, rev_map_snd_rev_swap in E'. fold As Bs in E'.
  assert (Hpa : nexts (tend Bs (0, 0)) = lshift (n - 1) (0, 0)).
  { unfold nexts, lshift, n. fold m. cbn [fst snd]. f_equal. lia. }
  rewrite Hpa in E'.
  set (rho := rloc n (-1)). set (sig := rloc n 1).
  set (A := track As (0, 0) (rev (parens Bs (lshift 1 (0, 0))))) in *.
  set (B := track Bs (lshift 1 (0, 0)) (rev (parens As (0, 0)))) in *.
  set (A' := track As (lshift (n - 1) (0, 0)) (rev (parens Bs (0, 0)))) in *.
  set (B' := track Bs (0, 0) (rev (parens As (lshift (n - 1) (0, 0))))) in *.
  (* A' = rho A *)
  assert (HA' : A' = map (emap rho) A).
  { unfold A', A.
    replace (rev (parens Bs (0, 0))) with (map rho (rev (parens Bs (lshift 1 (0, 0))))).
    - apply (track_map rho (n - 1) 0).
      + intros l Hl. apply rloc_pred_zero; unfold n; lia.
      + rewrite (tend_break_free As HAbf). cbn. lia.
    - rewrite parens_shift, <- map_rev, map_map. rewrite <- (map_id (rev (parens Bs (0, 0)))) at 2.
      apply map_ext_in. intros q Hq. apply in_rev in Hq. apply parens_fst_le in Hq. fold m in Hq.
      apply rloc_pred_succ. unfold n. lia. }
  (* B = sig B' *)
  assert (HB : B = map (emap sig) B').
  { unfold B, B'.
    replace (rev (parens As (0, 0))) with (map sig (rev (parens As (lshift (n - 1) (0, 0))))).
    - apply (track_map sig 1 m).
      + intros l Hl. apply rloc_succ. unfold n. lia.
      + fold m. lia.
    - rewrite parens_shift, <- map_rev, map_map. rewrite <- (map_id (rev (parens As (0, 0)))) at 2.
      apply map_ext_in. intros q Hq. apply in_rev in Hq. apply parens_fst_le in Hq.
      rewrite (tend_break_free As HAbf) in Hq. cbn [fst] in Hq.
      apply rloc_succ_last; unfold n; lia. }
  (* B' = rho B *)
  assert (HB' : B' = map (emap rho) B).
  { rewrite HB, map_map. rewrite <- (map_id B') at 1. apply map_ext_in. intros e He.
    assert (V : Forall (vals_below n) B').
    { unfold B'. apply track_vals.
      - fold m. unfold n. lia.
      - apply Forall_forall. intros q Hq. apply in_rev in Hq. rewrite parens_shift in Hq.
        apply in_map_iff in Hq. destruct Hq as (q0 & <- & Hq0). apply parens_fst_le in Hq0.
        rewrite (tend_break_free As HAbf) in Hq0. unfold lshift, n. cbn [fst] in *. lia. }
    rewrite Forall_forall in V. specialize (V e He).
    destruct e as [|[v|]]; cbn [emap option_map]; try reflexivity.
    cbn [vals_below] in V. unfold rho, sig. rewrite rloc_inv by exact V. reflexivity. }
  (* tables *)
  rewrite !tab_of_tableE. unfold T. rewrite tab_of_tableE. unfold rotZ. rewrite E, E'.
  rewrite HA'. rewrite HB' at 1.
  change (EB :: map (emap rho) A) with (map (emap rho) (EB :: A)).
  rewrite <- map_app, tableE_map.
  rewrite !tableE_app_EB.
  destruct (tableE_noEB A) as [rA HrA]; [apply track_noEB, HAbf|].
  rewrite HrA. cbn [app rot_left]. unfold relabel.
  apply map_ext. intros r. apply map_ext. intros x. symmetry. apply rotate_locus_rloc.
Qed.
