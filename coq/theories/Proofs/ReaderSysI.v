(* Reader model, C14: a consistent system is never refused.
   Part 10: a new reaction keeps the session invariant; reading a reaction statement. *)
From Coq Require Import List NArith ZArith Bool Arith Lia Permutation.
From DSD Require Import Base.Str Base.Errors Model.ComplexUtils Model.RegStr Model.ReaderStr Model.PyNum
  Model.Peg Model.Kernel Model.DispatchKernel Model.Heap Model.Registry Model.Reader Model.ReaderShape Model.ReaderConsistent
  Proofs.RegHeap Proofs.RegInv Proofs.RegCalls Proofs.RegExt Proofs.ReaderBasic Proofs.ReaderStmt Proofs.ReaderHeap
  Proofs.ReaderInv Proofs.ReaderHoare Proofs.ReaderNoFault Proofs.ReaderThms Proofs.ReaderBuilds Proofs.ReaderKernel
  Proofs.ReaderMore Proofs.ReaderSys Proofs.ReaderSysA Proofs.ReaderSysB Proofs.ReaderSysD Proofs.ReaderSysE
  Proofs.ReaderSysF Proofs.ReaderSysG Proofs.ReaderSysH.
From DSD Require Model.Iupac.
Import ListNotations.

Lemma forall2_map_r {A B C} (R : A -> C -> Prop) (f : B -> C) xs ys :
  Forall2 (fun x y => R x (f y)) xs ys -> Forall2 R xs (map f ys).
Proof. induction 1; cbn; constructor; assumption. Qed.

Lemma forall2_forall_r {A B} (P : B -> Prop) (R : A -> B -> Prop) xs ys :
  Forall2 R xs ys -> (forall x y, R x y -> P y) -> Forall P ys.
Proof. induction 1; intros H'; constructor; eauto. Qed.

Section AddRxn.
  Variable ct : ctable.
  Variables cd cs cc cm cr : nat.
  Hypothesis CO : cfg_okb ct cd cs cc cm cr = true.
  Hypothesis PL : forall c, In c [cd; cs; cc; cm; cr] -> exists ci, nth_error ct c = Some ci /\ c_fail ci = FNone.
  Notation G := (g cd cs cc cm cr).
  Notation cls_of := (cls_of cd cs cc cm cr).
  Notation Core := (Core cd cs cc cm cr ct).
  Notation SInv := (SInv cd cs cc cm cr ct).
  Notation Built := (Built cd cs cc cm cr).
  Notation BuiltRxn := (BuiltRxn cr).

  Definition add_rxn (cond : bool) (acc : pilout) (i : nat) : pilout :=
    if cond then with_rxns acc (po_det acc) (po_con acc ++ [i]) else with_rxns acc (po_det acc ++ [i]) (po_con acc).

  Lemma add_rxn_dict cond acc i k : dict_of k (add_rxn cond acc i) = dict_of k acc.
  Proof. destruct cond, k; reflexivity. Qed.
  Lemma add_rxn_in cond acc i j :
    In j (po_det (add_rxn cond acc i) ++ po_con (add_rxn cond acc i)) <-> j = i \/ In j (po_det acc ++ po_con acc).
  Proof.
    destruct cond; cbn [add_rxn with_rxns po_det po_con]; rewrite !in_app_iff; cbn [In]; intuition.
  Qed.

  Lemma core_add_rxn prev r acc ri cond nm key ch d rt' :
    Core prev r acc ->
    Fresh (r_st r) cr nm key [] ->
    (forall x, In x ch -> is_live (heap (r_st r)) x = true) ->
    ObjOK (new_obj cr nm key [] ch d) ->
    (forall j, j <> length (heap (r_st r)) -> attr_get j rt' = attr_get j (r_rate r)) ->
    let i := length (heap (r_st r)) in
    let r' := mkR (hold (mk_new (r_st r) cr nm key [] ch d) i) (r_seq r) (r_conc r) rt' in
    let acc' := add_rxn cond acc i in
    (Later r acc r' acc' -> BuiltRxn r' acc' ri i) ->
    Core (prev ++ [SRxn ri]) r' acc' /\ Later r acc r' acc'.
  Proof.
    intros C F Hch HO Hattr i r' acc' HB.
    destruct C as [Csok Cattr Cheld Cdom Creg CrR Ckeys Cdecl CkR Ccplx Crot].
    pose proof (proj1 Csok) as I0. pose proof (ok_len _ _ (proj1 I0)) as Lc.
    pose proof (cls_of_lt ct cd cs cc cm cr CO) as Hlt.
    assert (Hneq : forall k, k <> KindR -> cr <> cls_of k).
    { intros k Hk E. change cr with (cls_of KindR) in E. apply (cls_of_inj ct cd cs cc cm cr CO) in E. congruence. }
    assert (L : Later r acc r' acc').
    { constructor.
      - exists [new_obj cr nm key [] ch d]. reflexivity.
      - intros k n j H. subst acc'. rewrite add_rxn_dict. exact H.
      - intros j H. subst acc'. destruct cond; cbn [add_rxn with_rxns po_det]; [exact H | apply in_or_app; left; exact H].
      - intros j H. subst acc'. destruct cond; cbn [add_rxn with_rxns po_con]; [apply in_or_app; left; exact H | exact H].
      - intros j H. reflexivity.
      - intros j H. reflexivity.
      - intros j H. cbn [r_rate r']. apply Hattr. fold i. lia.
      - subst acc'. destruct cond; reflexivity. }
    split; [|exact L]. constructor.
    - cbn [r_st r']. apply sok_mk_new; [exact Csok | apply (Hlt KindR) | exact F | exact Hch | exact HO].
    - intros j Hj. cbn [r_st r' hold heap] in Hj. rewrite heap_mk_new in Hj. cbn [length] in Hj. fold i in Hj.
      cbn [r_seq r_conc r_rate r']. rewrite Hattr by (fold i; lia). apply Cattr. fold i. lia.
    - intros j Hj. cbn [r_st r' hold roots]. rewrite roots_mk_new. apply in_or_app.
      assert (Hj' : j = i \/ In j (acc_ids acc)).
      { unfold acc_ids in *. subst acc'. destruct cond; cbn [add_rxn with_rxns po_domains po_strands po_complexes
          po_macrostates po_det po_con] in Hj; rewrite !in_app_iff in *; cbn [In] in Hj; intuition. }
      destruct Hj' as [->|Hj']; [right; left; reflexivity | left; apply Cheld; exact Hj'].
    - intros j o Hj Hc. cbn [r_st r' hold heap] in Hj. rewrite heap_mk_new in Hj.
      destruct (Nat.eq_dec j (length (heap (r_st r)))) as [->|Dj].
      + rewrite hget_new in Hj. injection Hj as <-. cbn in Hc. exfalso. apply (Hneq KindD); [discriminate | exact Hc].
      + rewrite hget_old in Hj by exact Dj. eapply Cdom; eauto.
    - intros k Hk n. cbn [r_st r']. change (cget (hold ?s ?j) ?c) with (cget s c).
      rewrite cget_mk_new_other by (apply Hneq; exact Hk). subst acc'. rewrite add_rxn_dict. apply Creg. exact Hk.
    - intros n j. cbn [r_st r']. change (cget (hold ?s ?j) ?c) with (cget s c).
      rewrite names_mk_new by (rewrite Lc; apply (Hlt KindR)). intros H. apply add_rxn_in.
      destruct (str_eqb n nm); [left; fold i in H; congruence | right; eapply CrR; eauto].
    - intros k n Hn. subst acc'. rewrite add_rxn_dict in Hn. apply declared_app. left. apply Ckeys. exact Hn.
    - intros x l Hx. rewrite decl_doms_app in Hx. cbn in Hx. rewrite app_nil_r in Hx. apply (Cdecl x l Hx).
    - intros j Hj. apply add_rxn_in in Hj. destruct Hj as [->|Hj].
      + exists ri. split; [apply in_or_app; right; left; reflexivity | apply HB; exact L].
      + destruct (CkR j Hj) as [ri' [H1 H2]]. exists ri'. split; [apply in_or_app; left; exact H1|].
        eapply builtrxn_later; eauto.
    - intros n0 names0 sst0 Hin. rewrite decl_cplx_snoc in Hin. cbn [cplx_entry] in Hin. rewrite app_nil_r in Hin.
      destruct (Ccplx n0 names0 sst0 Hin) as [conc Hb]. exists conc. eapply builtcplx_later; eauto.
    - intros n0 i0 o0 Hd Ho k0 Hk0. cbn [r_st r' hold heap] in Ho. rewrite heap_mk_new in Ho.
      cbn [r_st r']. change (cget (hold ?s ?j) ?c) with (cget s c).
      rewrite cget_mk_new_other by (apply (Hneq KindC); discriminate).
      subst acc'. change (po_complexes (add_rxn cond acc i)) with (dict_of KindC (add_rxn cond acc i)) in Hd.
      rewrite add_rxn_dict in Hd. cbn [dict_of] in Hd.
      assert (Hl0 : i0 < length (heap (r_st r))) by
        (destruct (reg_live ct _ _ n0 i0 I0 (Hlt KindC) (eq_trans (Creg KindC ltac:(discriminate) n0) Hd)) as [ox [Hox _]];
         eapply hget_lt; eauto).
      rewrite hget_old in Ho by lia. exact (Crot n0 i0 o0 Hd Ho k0 Hk0).
  Qed.

  (* the two signatures differ in both components *)
  Definition sig_differs (a b : option (key * pstr)) : Prop :=
    forall k1 n1 k2 n2, a = Some (k1, n1) -> b = Some (k2, n2) -> k1 <> k2 /\ n1 <> n2.

  Theorem step_rxn prev r acc line ri k :
    SInv prev r acc -> decode line = Ok (SRxn ri) -> ri_rate ri = Some k ->
    ri_reactants ri <> [] ->
    Forall (fun x => In x (mdecl (is_cond (ri_type ri)) prev)) (ri_reactants ri) ->
    Forall (fun x => In x (mdecl (is_cond (ri_type ri)) prev)) (ri_products ri) ->
    (forall ri', In ri' (decl_rxns prev) -> sig_differs (rxn_sig prev ri') (rxn_sig prev ri)) ->
    exists r' i, (forall accR, read_one ct G None (TList line) accR r =
                                 (r', Ok (apply_delta (FRxn (is_cond (ri_type ri)) (r_st r') i) accR))) /\
      SInv (prev ++ [SRxn ri]) r' (apply_delta (FRxn (is_cond (ri_type ri)) (r_st r') i) acc) /\
      Later r acc r' (apply_delta (FRxn (is_cond (ri_type ri)) (r_st r') i) acc) /\
      (forall l, (forall j, In j l -> In j (po_det acc ++ po_con acc)) -> set_add (r_st r') i l = l ++ [i]).
  Proof.
    intros SI Hdec Hrate Hne HR HP Hsig. pose proof SI as [C B].
    set (cond := is_cond (ri_type ri)) in *. set (t := ri_type ri) in *.
    set (st := r_st r). set (i := length (heap st)). set (h := heap st).
    pose proof (si_sok _ _ _ _ _ _ _ _ _ C) as OK. pose proof (proj1 OK) as I.
    assert (Hcr : cr < length ct) by apply (cls_of_lt ct cd cs cc cm cr CO KindR).
    destruct (side_facts ct cd cs cc cm cr prev r acc cond _ SI HR) as [R3 FR].
    destruct (side_facts ct cd cs cc cm cr prev r acc cond _ SI HP) as [P3 FP].
    fold st in FR, FP. fold h in FR, FP.
    set (idsR := map m_id R3). set (idsP := map m_id P3).
    (* the look-ups *)
    assert (FR1 : Forall2 (MemReg cc cm cond (r_st r)) (ri_reactants ri) idsR).
    { unfold idsR. apply forall2_map_r. eapply Forall2_impl'; [|exact FR]. cbn. intros a b [_ [_ [_ [_ [_ H]]]]]. exact H. }
    assert (FP1 : Forall2 (MemReg cc cm cond (r_st r)) (ri_products ri) idsP).
    { unfold idsP. apply forall2_map_r. eapply Forall2_impl'; [|exact FP]. cbn. intros a b [_ [_ [_ [_ [_ H]]]]]. exact H. }
    set (by_name := if cond then macro_by_name ct G else complex_by_name ct G).
    destruct (mapM_lookup ct by_name (MemReg cc cm cond) (fun st j x i H => H)
                (byname_exact ct cd cs cc cm cr CO PL cond) _ idsR r OK FR1) as [EmR LvR]. fold st in EmR.
    set (r1 := with_st r (holds st idsR)) in EmR.
    assert (OK1 : SOK ct (r_st r1)) by (apply sok_holds; assumption).
    destruct (mapM_lookup ct by_name (MemReg cc cm cond) (fun st j x i H => H)
                (byname_exact ct cd cs cc cm cr CO PL cond) _ idsP r1 OK1 FP1) as [EmP LvP].
    set (temps := idsR ++ idsP).
    assert (Emem : key_to_pil (dm re <- mapM by_name (ri_reactants ri);
                               dm pr <- mapM by_name (ri_products ri); ret (re, pr)) r =
                   (with_st r (holds st temps), Ok (idsR, idsP))).
    { unfold key_to_pil, catch. rewrite (bind_ok _ _ _ _ _ EmR), (bind_ok _ _ _ _ _ EmP). unfold ret.
      unfold r1. cbn [r_st with_st]. rewrite holds_app. reflexivity. }
    (* the object *)
    set (sr := sort_by m_keys mkey_cmp R3). set (sp := sort_by m_keys mkey_cmp P3).
    set (nm := rxn_name t (map m_name sr) (map m_name sp)).
    set (key := KRxn cond (map m_keys sr) (map m_keys sp) t).
    set (d := DRxn (map m_id sr) (map m_id sp) t).
    assert (FRm : Forall2 (fun x m => m_name m = x /\ mform prev cond x = Some (m_keys m)) (ri_reactants ri) R3)
      by (eapply Forall2_impl'; [|exact FR]; cbn; tauto).
    assert (FPm : Forall2 (fun x m => m_name m = x /\ mform prev cond x = Some (m_keys m)) (ri_products ri) P3)
      by (eapply Forall2_impl'; [|exact FP]; cbn; tauto).
    pose proof (rxn_sig_members prev ri R3 P3 FRm FPm) as Esig. fold cond in Esig. fold t in Esig.
    fold sr in Esig. fold sp in Esig. fold nm in Esig. fold key in Esig.
    (* name and canonical form are new *)
    assert (Hold : forall j, In j (po_det acc ++ po_con acc) ->
              exists ri' k' nm' ch' d', In ri' (decl_rxns prev) /\ rxn_sig prev ri' = Some (k', nm') /\
                hget h j = Some (new_obj cr nm' k' [] ch' d')).
    { intros j Hj. destruct (si_kR _ _ _ _ _ _ _ _ _ C j Hj) as [ri' [H1 H2]].
      destruct (rxn_sig_built ct cd cs cc cm cr prev r acc ri' j SI H2) as [k' [nm' [ch' [d' [E1 E2]]]]].
      exists ri', k', nm', ch', d'. split; [apply decl_rxns_in; exact H1|]. split; assumption. }
    assert (Nn : nlookup nm (cs_names (cget st cr)) = None).
    { destruct (nlookup nm (cs_names (cget st cr))) as [j|] eqn:E; [|reflexivity]. exfalso.
      destruct (reg_live ct _ cr nm j I Hcr E) as [o [Ho [_ [_ Hnm]]]].
      destruct (Hold j (si_rR _ _ _ _ _ _ _ _ _ C nm j E)) as [ri' [k' [nm' [ch' [d' [H1 [H2 H3]]]]]]].
      pose proof (eq_trans (eq_sym Ho) H3) as Eo. injection Eo as ->.
      destruct (Hsig ri' H1 k' nm' key nm H2 Esig) as [_ D]. exact (D Hnm). }
    assert (Kn : klookup key (cs_canon (cget st cr)) = None).
    { destruct (klookup key (cs_canon (cget st cr))) as [j|] eqn:E; [|reflexivity]. exfalso.
      destruct (kreg_live ct _ cr _ j I Hcr E) as [o [Ho [Hl [Hc Hk]]]].
      destruct (live_reg ct _ j o I Ho Hl) as [N1 _]. rewrite Hc in N1.
      destruct (Hold j (si_rR _ _ _ _ _ _ _ _ _ C _ j N1)) as [ri' [k' [nm' [ch' [d' [H1 [H2 H3]]]]]]].
      pose proof (eq_trans (eq_sym Ho) H3) as Eo. injection Eo as ->. destruct Hk as [Hk|[]].
      destruct (Hsig ri' H1 k' nm' key nm H2 Esig) as [D _]. exact (D Hk). }
    assert (Fall : Forall (fun m => member_form h (m_id m) = Some (cond, m_keys m) /\ obj_name h (m_id m) = m_name m) (R3 ++ P3)).
    { apply Forall_app. split.
      - eapply forall2_forall_r; [exact FR|]. cbn. intros x m [H1 [_ [H3 [_ [H5 _]]]]]. split; [exact H3 | congruence].
      - eapply forall2_forall_r; [exact FP|]. cbn. intros x m [H1 [_ [H3 [_ [H5 _]]]]]. split; [exact H3 | congruence]. }
    assert (HR3 : R3 <> []).
    { intros ->. inversion FR as [E|]; subst. apply Hne. symmetry. assumption. }
    pose proof (rxn_new_exact ct cd cs cc cm cr PL (holds st temps) cond t R3 P3 Fall HR3 Nn Kn) as Ec.
    cbv zeta in Ec. fold sr in Ec. fold sp in Ec. fold nm in Ec. fold key in Ec. fold d in Ec.
    fold idsR in Ec. fold idsP in Ec. fold temps in Ec.
    change (length (heap (holds st temps))) with i in Ec.
    set (rt' := attr_set i (k, ri_units ri) (r_rate r)).
    set (r1x := mkR (hold (mk_new (holds st temps) cr nm key [] temps d) i) (r_seq r) (r_conc r) rt').
    assert (Ex : exec_stmt ct G line (SRxn ri) r = (r1x, Ok (RObj i))).
    { cbn [exec_stmt]. fold t. fold cond. change (is_s t sCondensed) with cond. fold by_name.
      rewrite (bind_ok _ _ _ _ _ Emem). cbn [gR g slot]. rewrite bind_ret.
      assert (Ecall : call (fun st' => reaction_call ct cr st' (Some (idsR, idsP)) t None) (with_st r (holds st temps)) =
                      (with_st r (hold (mk_new (holds st temps) cr nm key [] temps d) i), Ok i)).
      { unfold call. cbn [r_st with_st]. rewrite Ec. reflexivity. }
      rewrite (bind_ok _ _ _ _ _ Ecall), Hrate. reflexivity. }
    (* the invariant *)
    set (r' := mkR (hold (mk_new st cr nm key [] temps d) i) (r_seq r) (r_conc r) rt').
    set (acc' := add_rxn cond acc i).
    assert (Lvt : forall x, In x temps -> is_live (heap st) x = true).
    { intros x Hx. apply in_app_or in Hx. destruct Hx as [Hx|Hx]; [apply LvR; exact Hx | apply (LvP x Hx)]. }
    assert (HBr : Later r acc r' acc' -> BuiltRxn r' acc' ri i).
    { intros L0. unfold ReaderSysA.BuiltRxn. exists R3, P3, k.
      fold t. fold cond. fold acc'.
      assert (Hin : In i (if cond then po_con acc' else po_det acc')).
      { unfold acc', add_rxn. destruct cond; cbn; apply in_or_app; right; left; reflexivity. }
      split; [exact Hin|].
      assert (Hmem : forall xs M3,
                Forall2 (fun x m => m_name m = x /\ dlookup x (mdict cond acc) = Some (m_id m) /\
                          member_form h (m_id m) = Some (cond, m_keys m) /\ mform prev cond x = Some (m_keys m) /\
                          obj_name h (m_id m) = x /\ MemReg cc cm cond st x (m_id m)) xs M3 ->
                Forall2 (fun x m => m_name m = x /\
                          dlookup x (if cond then po_macrostates acc' else po_complexes acc') = Some (m_id m) /\
                          member_form (heap (hold (mk_new st cr nm key [] temps d) i)) (m_id m) = Some (cond, m_keys m)) xs M3).
      { intros xs M3 F. eapply Forall2_impl'; [|exact F]. cbn. intros x m [A1 [A2 [A3 _]]].
        split; [exact A1|]. split.
        - unfold acc', add_rxn, mdict in *. destruct cond; exact A2.
        - exact (later_member_form _ _ _ _ _ _ L0 A3). }
      split; [apply Hmem; exact FR|]. split; [apply Hmem; exact FP|]. cbv zeta. fold sr. fold sp.
      split; [exact (hget_new _ (heap st))|].
      split; [exact Hrate|]. unfold r'. cbn [r_rate]. unfold rt'. rewrite attr_get_set, Nat.eqb_refl. reflexivity. }
    destruct (core_add_rxn prev r acc ri cond nm key temps d rt' C) as [C' L'].
    { split; [exact Nn|]. split; [exact Kn|]. intros k' []. }
    { exact Lvt. }
    { exact Logic.I. }
    { intros j Hj. unfold rt'. rewrite attr_get_set. apply Nat.eqb_neq in Hj. fold st in Hj. fold i in Hj. rewrite Hj. reflexivity. }
    { exact HBr. }
    fold st in C', L'. fold i in C', L'. fold r' in C', L'. fold acc' in C', L'.
    (* the if/elif chain *)
    assert (Hoi : hget (heap (r_st r1x)) i = Some (new_obj cr nm key [] temps d)) by apply hget_new.
    assert (Esa : forall l, (forall j, In j l -> In j (po_det acc ++ po_con acc)) -> set_add (r_st r') i l = l ++ [i]).
    { intros l Hl.
      apply (set_add_new ct (r_st r') i (new_obj cr nm key [] temps d) l (proj1 (si_sok _ _ _ _ _ _ _ _ _ C')) Hoi eq_refl).
      intros j Hj. destruct (Hold j (Hl j Hj)) as [ri' [k' [nm' [ch' [d' [_ [_ H3]]]]]]].
      split; [assert (Hji : j < i) by (apply hget_lt in H3; exact H3); lia|].
      exists (new_obj cr nm' k' [] ch' d'). split; [|split; reflexivity].
      exact (hget_old_some _ _ _ _ H3). }
    assert (Eacc : apply_delta (FRxn cond (r_st r') i) acc = acc').
    { unfold acc', add_rxn, apply_delta. destruct cond.
      - rewrite Esa; [reflexivity | intros j Hj; apply in_or_app; right; exact Hj].
      - rewrite Esa; [reflexivity | intros j Hj; apply in_or_app; left; exact Hj]. }
    assert (Ecut : cut_roots (r_st r1x) (length (roots st)) [i] = r_st r').
    { unfold r1x, r', cut_roots, holds, hold. cbn [r_st]. rewrite mk_new_with_roots.
      unfold with_roots. cbn [heap classes roots map]. rewrite roots_mk_new, <- app_assoc, firstn_roots. reflexivity. }
    assert (E3 : forall accR, read_one ct G None (TList line) accR r = (r', Ok (apply_delta (FRxn cond (r_st r') i) accR))).
    { intros accR.
      assert (Ef : file_obj ct G (RObj i) accR r1x = (r1x, Ok (apply_delta (FRxn cond (r_st r') i) accR, [i]))).
      { rewrite (file_obj_rxn ct cd cs cc cm cr CO i accR r1x t).
        - reflexivity.
        - unfold ClsAt, cls_at. rewrite Hoi. reflexivity.
        - unfold rtype_of. rewrite Hoi. reflexivity. }
      pose proof (read_one_ok ct cd cs cc cm cr line (SRxn ri) accR r r1x (RObj i) r1x _ Hdec Ex Ef) as E3.
      cbn [fst snd] in E3. fold st in E3.
      rewrite Ecut, (collect_id ct _ (si_sok _ _ _ _ _ _ _ _ _ C')) in E3. exact E3. }
    exists r', i. split; [exact E3|]. rewrite Eacc.
    split; [|split; [exact L' | exact Esa]].
    split; [exact C'|].
    intros s0 Hs0. apply in_app_or in Hs0. destruct Hs0 as [Hs0|[<-|[]]].
    - eapply built_later; [exact L' | apply B; exact Hs0].
    - cbn [Built ReaderSysA.Built]. exists i.
      apply HBr. exact L'.
  Qed.
End AddRxn.
