(* C13: kernel-notation complex with concentration  @ (initial|i|constant|c) NUMBER UNIT,
   and rejection of an unmatched ')' after a kernel pattern. *)
From Coq Require Import List NArith Bool Arith Lia.
From DSD Require Import Base.Str Base.Errors Base.Val Model.Peg Model.DispatchPeg Proofs.PegMono Proofs.PegRules Proofs.PegStd
  Proofs.PegDoc Proofs.PegKw Proofs.PegNum Proofs.C13Doc Proofs.PilLex Proofs.C13Ms Proofs.C13Kc.
From DSDGen Require Import PilGrammar.
Import ListNotations.

Lemma starts_with_cons_same d s x : starts_with (d :: s) (d :: x) = starts_with s x.
Proof. cbn [starts_with]. rewrite N.eqb_refl. reflexivity. Qed.
Ltac lk' := try unfold plainW, plainL; lk.
Notation pgnum_ok := (gnum_ok digit).

(* ---------------------------------------------------------------- gorf on the PIL table (node 130) *)
Lemma pil_firsts_gorf full more x n r : spre x = gnum_text n ++ r -> pgnum_ok n -> num_follow digit r ->
  firsts G full (131 :: 144 :: more) (At x) (POk (At r) [TStr (gnum_text n)]).
Proof.
  intros Hx Hn Hr.
  eapply (firsts_gorf G full pil_c WS pil_comment_ok digit eq_refl eq_refl eq_refl eq_refl
            131 132 133 134 135 136 137 138 139 140 141 142 143 144 145 146 147 148 149 150); try lk'; [exact Hx|exact Hn|exact Hr].
Qed.
Lemma pil_gorf full x n r : spre x = gnum_text n ++ r -> pgnum_ok n -> num_follow digit r ->
  evals G full 130 true (At x) (POk (At r) [TStr (gnum_text n)]).
Proof.
  intros Hx Hn Hr. eapply evals_eq.
  - eapply evals_node_ok; [lk|cbn; reflexivity|]. apply impls_first; [reflexivity|]. cbn [nkids].
    apply (pil_firsts_gorf full [] x n r Hx Hn Hr).
  - reflexivity.
Qed.
Lemma pgnum_head n : pgnum_ok n -> stopc (g_i0 n) = true.
Proof. intros (H0 & _). apply idch_stop, digit_idch. exact H0. Qed.
Lemma ws_not_numfollow : forallb (fun w => negb (memc w (46%N :: 101%N :: digit))) WS = true.
Proof. vm_compute. reflexivity. Qed.

(* ---------------------------------------------------------------- concentration units (node 247) *)
Inductive cunit := UM | UmM | UuM | UnM | UpM.
Definition cunit_text (u : cunit) : pstr :=
  match u with UM => [77] | UmM => [109; 77] | UuM => [117; 77] | UnM => [110; 77] | UpM => [112; 77] end%N.
Lemma ev_cunit full x u r : spre x = cunit_text u ++ r ->
  evals G full 247 true (At x) (POk (At r) [TStr (cunit_text u)]).
Proof.
  intros Hx.
  assert (Hl : forall i s, nth_error G i = Some (mkNode (KLit s) [] true WS [pil_c] true []) ->
            evals G full i true (At x) (lit_res s true (spre x))).
  { intros i s Hi. apply (evals_lit G full pil_c WS pil_comment_ok i true true s x Hi). }
  eapply evals_eq.
  - eapply evals_node_ok; [lk|cbn; reflexivity|]. apply impls_first; [reflexivity|]. cbn [nkids].
    instantiate (1 := [TStr (cunit_text u)]). instantiate (1 := At r).
    destruct u; cbn [cunit_text] in *.
    + apply firsts_hit. eapply evals_eq; [apply (Hl 248); lk|]. rewrite Hx. reflexivity.
    + eapply firsts_miss; [eapply evals_eq; [apply (Hl 248); lk|]; rewrite Hx; reflexivity|].
      apply firsts_hit. eapply evals_eq; [apply (Hl 249); lk|]. rewrite Hx. unfold lit_res. rewrite starts_with_app. reflexivity.
    + eapply firsts_miss; [eapply evals_eq; [apply (Hl 248); lk|]; rewrite Hx; reflexivity|].
      eapply firsts_miss; [eapply evals_eq; [apply (Hl 249); lk|]; rewrite Hx; reflexivity|].
      apply firsts_hit. eapply evals_eq; [apply (Hl 250); lk|]. rewrite Hx. unfold lit_res. rewrite starts_with_app. reflexivity.
    + eapply firsts_miss; [eapply evals_eq; [apply (Hl 248); lk|]; rewrite Hx; reflexivity|].
      eapply firsts_miss; [eapply evals_eq; [apply (Hl 249); lk|]; rewrite Hx; reflexivity|].
      eapply firsts_miss; [eapply evals_eq; [apply (Hl 250); lk|]; rewrite Hx; reflexivity|].
      apply firsts_hit. eapply evals_eq; [apply (Hl 251); lk|]. rewrite Hx. unfold lit_res. rewrite starts_with_app. reflexivity.
    + eapply firsts_miss; [eapply evals_eq; [apply (Hl 248); lk|]; rewrite Hx; reflexivity|].
      eapply firsts_miss; [eapply evals_eq; [apply (Hl 249); lk|]; rewrite Hx; reflexivity|].
      eapply firsts_miss; [eapply evals_eq; [apply (Hl 250); lk|]; rewrite Hx; reflexivity|].
      eapply firsts_miss; [eapply evals_eq; [apply (Hl 251); lk|]; rewrite Hx; reflexivity|].
      apply firsts_hit. eapply evals_eq; [apply (Hl 252); lk|]. rewrite Hx. unfold lit_res. rewrite starts_with_app. reflexivity.
  - reflexivity.
Qed.

(* ---------------------------------------------------------------- @ keyword NUMBER UNIT *)
Inductive conckw := CInitial | CI | CConstant | CC.
Definition conckw_text (k : conckw) : pstr :=
  match k with
  | CInitial => [105; 110; 105; 116; 105; 97; 108] | CI => [105]
  | CConstant => [99; 111; 110; 115; 116; 97; 110; 116] | CC => [99]
  end%N.
Record conc := mkConc { c_kw : conckw; c_num : gnum; c_unit : cunit; c_b1 : pstr; c_b2 : pstr; c_b3 : pstr; c_b4 : pstr }.
Definition conc_text (c : conc) : pstr :=
  c_b1 c ++ 64%N :: c_b2 c ++ conckw_text (c_kw c) ++ c_b3 c ++ gnum_text (c_num c) ++ c_b4 c ++ cunit_text (c_unit c).
Definition conc_ok (c : conc) : Prop :=
  blanks WS (c_b1 c) /\ blanks WS (c_b2 c) /\ blanks WS (c_b3 c) /\ blanks WS (c_b4 c) /\ pgnum_ok (c_num c).
Definition conc_toks (c : conc) : tok :=
  TList [TStr (conckw_text (c_kw c)); TStr (gnum_text (c_num c)); TStr (cunit_text (c_unit c))].

(* NUMBER UNIT after the keyword *)
Lemma seqs_conc_value full c r acc :
  conc_ok c ->
  seqs G full [130; 247] (At (c_b3 c ++ gnum_text (c_num c) ++ c_b4 c ++ cunit_text (c_unit c) ++ r)) acc
    (POk (At r) ((acc ++ [TStr (gnum_text (c_num c))]) ++ [TStr (cunit_text (c_unit c))])).
Proof.
  intros (Hb1 & Hb2 & Hb3 & Hb4 & Hn).
  assert (Hu : exists d z, cunit_text (c_unit c) = d :: z /\ stopc d = true /\ memc d (46%N :: 101%N :: digit) = false).
  { destruct (c_unit c); cbn; eexists _, _; repeat split; reflexivity. }
  destruct Hu as (ud & uz & Eu & Hud & Hunf).
  eapply seqs_cons.
  { apply (pil_gorf full _ (c_num c) (c_b4 c ++ cunit_text (c_unit c) ++ r)); [|exact Hn|].
    - unfold gnum_text. norm_text. apply spre_blanks_stop; [exact Hb3|apply pgnum_head; exact Hn].
    - unfold num_follow. apply nohead_blanks; [exact ws_not_numfollow|exact Hb4|]. rewrite Eu. exact Hunf. }
  eapply seqs_cons; [|apply seqs_nil].
  apply (ev_cunit full _ (c_unit c) r). rewrite Eu. cbn [app]. apply spre_blanks_stop; [exact Hb4|exact Hud].
Qed.

Lemma conckw_follow c r : conc_ok c ->
  nohead [110%N] (c_b3 c ++ gnum_text (c_num c) ++ r) /\ nohead [111%N] (c_b3 c ++ gnum_text (c_num c) ++ r).
Proof.
  intros (_ & _ & Hb3 & _ & (H0 & _)). unfold gnum_text. norm_text.
  split; (apply nohead_blanks; [vm_compute; reflexivity|exact Hb3|]); cbn.
  - rewrite (memc_neq digit _ 110%N H0 eq_refl). reflexivity.
  - rewrite (memc_neq digit _ 111%N H0 eq_refl). reflexivity.
Qed.

(* one of the two groups  Group [And [Suppress '@'; kw1 | kw2; gorf; cunit]] *)
Section ConcGroup.
  Variables gi ga sa la mf l1 l2 : nat.
  Hypothesis Hgi : nth_error G gi = Some (mkNode KGroup [ga] true WS [pil_c] true []).
  Hypothesis Hga : nth_error G ga = Some (mkNode KAnd [sa; mf; 130; 247] true WS [pil_c] true []).
  Hypothesis Hsa : nth_error G sa = Some (mkNode KSuppress [la] true WS [pil_c] true []).
  Hypothesis Hla : nth_error G la = Some (mkNode (KLit [64%N]) [] true WS [pil_c] true []).
  Hypothesis Hmf : nth_error G mf = Some (mkNode KFirst [l1; l2] true WS [pil_c] false []).

  Lemma conc_group_ok full c r :
    conc_ok c ->
    firsts G full [l1; l2] (At (c_b2 c ++ conckw_text (c_kw c) ++ c_b3 c ++ gnum_text (c_num c) ++ c_b4 c ++ cunit_text (c_unit c) ++ r))
      (POk (At (c_b3 c ++ gnum_text (c_num c) ++ c_b4 c ++ cunit_text (c_unit c) ++ r)) [TStr (conckw_text (c_kw c))]) ->
    evals G full gi true (At (conc_text c ++ r)) (POk (At r) [conc_toks c]).
  Proof.
    intros Hc Hf. pose proof Hc as (Hb1 & _). unfold conc_text. norm_text.
    eapply evals_eq.
    - eapply evals_node_ok; [exact Hgi|apply (pre_premise G full pil_c WS pil_comment_ok); repeat split|].
      unfold pre_pos. cbn [andb ncallpre]. rewrite spre_blanks_stop by (try exact Hb1; reflexivity).
      eapply impls_wrap; [reflexivity|reflexivity|].
      eapply evals_node_ok; [exact Hga|cbn; reflexivity|].
      eapply impls_and; [reflexivity|reflexivity| |].
      + eapply evals_eq; [apply (evals_slit G full pil_c WS pil_comment_ok sa la false true true _ _ Hsa Hla)|].
        cbn [andb]. unfold lit_res. cbn [starts_with]. rewrite N.eqb_refl. reflexivity.
      + eapply seqs_cons.
        { eapply evals_node_ok; [exact Hmf|rewrite andb_false_r; reflexivity|]. apply impls_first; [reflexivity|exact Hf]. }
        cbn [app]. apply (seqs_conc_value full c r _ Hc).
    - reflexivity.
  Qed.
  Lemma conc_group_fail full c r :
    conc_ok c ->
    firsts G full [l1; l2] (At (c_b2 c ++ conckw_text (c_kw c) ++ c_b3 c ++ gnum_text (c_num c) ++ c_b4 c ++ cunit_text (c_unit c) ++ r)) PFail ->
    evals G full gi true (At (conc_text c ++ r)) PFail.
  Proof.
    intros Hc Hf. pose proof Hc as (Hb1 & _). unfold conc_text. norm_text.
    eapply evals_node_fail; [exact Hgi|apply (pre_premise G full pil_c WS pil_comment_ok); repeat split|].
    unfold pre_pos. cbn [andb ncallpre]. rewrite spre_blanks_stop by (try exact Hb1; reflexivity).
    eapply impls_wrap; [reflexivity|reflexivity|].
    eapply evals_node_fail; [exact Hga|cbn; reflexivity|].
    eapply impls_and; [reflexivity|reflexivity| |].
    + eapply evals_eq; [apply (evals_slit G full pil_c WS pil_comment_ok sa la false true true _ _ Hsa Hla)|].
      cbn [andb]. unfold lit_res. cbn [starts_with]. rewrite N.eqb_refl. reflexivity.
    + apply seqs_fail.
      eapply evals_node_fail; [exact Hmf|rewrite andb_false_r; reflexivity|]. apply impls_first; [reflexivity|exact Hf].
  Qed.
End ConcGroup.

(* Opt [ conc-initial | conc-constant ], node 238 *)
Lemma ev_conc full c r : conc_ok c -> evals G full 238 true (At (conc_text c ++ r)) (POk (At r) [conc_toks c]).
Proof.
  intros Hc. pose proof Hc as (Hb1 & Hb2 & Hb3 & Hb4 & Hn).
  destruct (conckw_follow c (c_b4 c ++ cunit_text (c_unit c) ++ r) Hc) as (Hn110 & Hn111).
  remember (c_b3 c ++ gnum_text (c_num c) ++ c_b4 c ++ cunit_text (c_unit c) ++ r) as V eqn:EV.
  assert (Hl : forall i s x, nth_error G i = Some (mkNode (KLit s) [] true WS [pil_c] true []) ->
            evals G full i true (At x) (lit_res s true (spre x))).
  { intros i s x Hi. apply (evals_lit G full pil_c WS pil_comment_ok i true true s x Hi). }
  assert (Hpos : spre (c_b2 c ++ conckw_text (c_kw c) ++ V) = conckw_text (c_kw c) ++ V)
    by (destruct (c_kw c); cbn [conckw_text app]; apply spre_blanks_stop; try exact Hb2; reflexivity).
  assert (H239 : firsts G full [240; 253] (At (conc_text c ++ r)) (POk (At r) [conc_toks c])).
  { destruct (c_kw c) eqn:Ek; rewrite ?Ek in Hpos.
    - apply firsts_hit. apply (conc_group_ok 240 241 242 243 244 245 246 ltac:(lk) ltac:(lk) ltac:(lk) ltac:(lk) ltac:(lk) full c r Hc).
      rewrite Ek, <- EV. apply firsts_hit.
      eapply evals_eq; [apply (Hl 245); lk|]. rewrite Hpos.
      unfold lit_res. cbn [conckw_text]. rewrite starts_with_app. reflexivity.
    - apply firsts_hit. apply (conc_group_ok 240 241 242 243 244 245 246 ltac:(lk) ltac:(lk) ltac:(lk) ltac:(lk) ltac:(lk) full c r Hc).
      rewrite Ek, <- EV. eapply firsts_miss.
      { eapply evals_eq; [apply (Hl 245); lk|]. rewrite Hpos.
        unfold lit_res. cbn [conckw_text app]. rewrite starts_with_cons_same.
        rw_alias (starts_with_nohead 110%N [105; 116; 105; 97; 108]%N _ Hn110). reflexivity. }
      apply firsts_hit.
      eapply evals_eq; [apply (Hl 246); lk|]. rewrite Hpos.
      unfold lit_res. cbn [conckw_text]. rewrite starts_with_app. reflexivity.
    - eapply firsts_miss.
      { apply (conc_group_fail 240 241 242 243 244 245 246 ltac:(lk) ltac:(lk) ltac:(lk) ltac:(lk) ltac:(lk) full c r Hc).
        rewrite Ek, <- EV.
        eapply firsts_miss; [eapply evals_eq; [apply (Hl 245); lk|]; rewrite Hpos; reflexivity|].
        eapply firsts_miss; [eapply evals_eq; [apply (Hl 246); lk|]; rewrite Hpos; reflexivity|].
        apply firsts_nil. }
      apply firsts_hit. apply (conc_group_ok 253 254 255 256 257 258 259 ltac:(lk) ltac:(lk) ltac:(lk) ltac:(lk) ltac:(lk) full c r Hc).
      rewrite Ek, <- EV. apply firsts_hit.
      eapply evals_eq; [apply (Hl 258); lk|]. rewrite Hpos.
      unfold lit_res. cbn [conckw_text]. rewrite starts_with_app. reflexivity.
    - eapply firsts_miss.
      { apply (conc_group_fail 240 241 242 243 244 245 246 ltac:(lk) ltac:(lk) ltac:(lk) ltac:(lk) ltac:(lk) full c r Hc).
        rewrite Ek, <- EV.
        eapply firsts_miss; [eapply evals_eq; [apply (Hl 245); lk|]; rewrite Hpos; reflexivity|].
        eapply firsts_miss; [eapply evals_eq; [apply (Hl 246); lk|]; rewrite Hpos; reflexivity|].
        apply firsts_nil. }
      apply firsts_hit. apply (conc_group_ok 253 254 255 256 257 258 259 ltac:(lk) ltac:(lk) ltac:(lk) ltac:(lk) ltac:(lk) full c r Hc).
      rewrite Ek, <- EV. eapply firsts_miss.
      { eapply evals_eq; [apply (Hl 258); lk|]. rewrite Hpos.
        unfold lit_res. cbn [conckw_text app]. rewrite starts_with_cons_same.
        rw_alias (starts_with_nohead 111%N [110; 115; 116; 97; 110; 116]%N _ Hn111). reflexivity. }
      apply firsts_hit.
      eapply evals_eq; [apply (Hl 259); lk|]. rewrite Hpos.
      unfold lit_res. cbn [conckw_text]. rewrite starts_with_app. reflexivity. }
  eapply evals_eq.
  - eapply evals_node_ok; [lk|rewrite andb_false_r; reflexivity|].
    eapply impls_opt_some; [reflexivity|reflexivity|].
    eapply evals_node_ok; [lk|cbn; reflexivity|]. apply impls_first; [reflexivity|exact H239].
  - reflexivity.
Qed.

(* ---------------------------------------------------------------- the statement with concentration *)
Definition kcc_render (s : kc_stmt) (c : conc) : pstr :=
  (kc_n0 s :: kc_ns s) ++ kc_b2 s ++ 61%N :: items_text (kc_first s :: kc_more s) (conc_text c).
Definition kcc_tree (s : kc_stmt) (c : conc) : tok :=
  TList [TStr tag_kc; TStr (kc_n0 s :: kc_ns s); TList (items_toks (kc_first s :: kc_more s)); conc_toks c].

Theorem roundtrip_kernel_concentration s c :
  forall full b E k, blanks WS b -> stmt_end E k -> conc_ok c -> kc_stmt_ok s (conc_text c ++ E ++ k) ->
  evals G full 8 true (At (b ++ kcc_render s c ++ E ++ k)) (POk (after WS k) [kcc_tree s c]).
Proof.
  intros full b E k Hb Hk Hc Hs. pose proof Hc as (Hb1 & _).
  assert (ET : b ++ kcc_render s c ++ E ++ k = b ++ kc_text s (conc_text c ++ E ++ k)).
  { unfold kcc_render, kc_text. norm_text. rewrite items_text_app. reflexivity. }
  rewrite ET.
  assert (HT : spre (conc_text c ++ E ++ k) = 64%N :: c_b2 c ++ conckw_text (c_kw c) ++ c_b3 c ++ gnum_text (c_num c) ++
                                              c_b4 c ++ cunit_text (c_unit c) ++ E ++ k).
  { unfold conc_text. norm_text. apply spre_blanks_stop; [exact Hb1|reflexivity]. }
  eapply evals_eq.
  - eapply evals_node_ok; [lk|cbn; reflexivity|]. apply impls_first; [reflexivity|]. cbn [nkids].
    apply (kernel_keyword_alts_fail s full b _ _ _ Hb Hs).
    apply firsts_hit.
    eapply evals_eq.
    + apply (kernel_alt_202 s full b _ (POk (after WS k) (kc_head_toks s ++ [conc_toks c])) Hb Hs).
      * rewrite HT. reflexivity.
      * rewrite HT. reflexivity.
      * eapply seqs_cons; [apply (ev_conc full c (E ++ k) Hc)|].
        eapply seqs_cons; [|rewrite app_nil_r; apply seqs_nil].
        apply (ev_end full 260 261 262 true); try lk; try (eexists; lk). exact Hk.
    + reflexivity.
  - unfold kcc_tree. reflexivity.
Qed.

Theorem roundtrip_kernel_concentration_parse s c b E :
  blanks WS b -> stmt_end E [] -> conc_ok c -> kc_stmt_ok s (conc_text c ++ E) -> no_tab (b ++ kcc_render s c ++ E) ->
  exists f0, forall f, f0 <= f -> parse_pil_fuel f (b ++ kcc_render s c ++ E) = vals [kcc_tree s c].
Proof.
  intros Hb HE Hc Hs Hnt.
  pose proof (pil_document_items_evals [] [mkItem b (kcc_render s c ++ E) [kcc_tree s c]] []) as H. cbn in H.
  rewrite !app_nil_r in H.
  assert (Hits : pil_items_ok [mkItem b (kcc_render s c ++ E) [kcc_tree s c]] []).
  { cbn. split; [split; [exact Hb|]|split; [|exact I]].
    - unfold kcc_render. cbn. destruct Hs as (H0 & _). apply idch_stop in H0. apply stopc_elim in H0. exact H0.
    - intros full b' Hb'. cbn. rewrite <- app_assoc.
      apply roundtrip_kernel_concentration; [exact Hb'|exact HE|exact Hc|rewrite app_nil_r; exact Hs]. }
  specialize (H (Forall_nil _) Hits ltac:(discriminate) eq_refl).
  destruct (evals_parse_fuel pil_grammar _ _ Hnt H) as [f0 Hf]. exists f0. intros f Hle.
  unfold parse_pil_fuel. rewrite (Hf f Hle). unfold vals. cbn. rewrite ?app_nil_r. reflexivity.
Qed.

(* ---------------------------------------------------------------- unbalanced brackets at top level *)
(* a kernel pattern followed (after blanks) by a character that neither continues the pattern nor starts a
   concentration nor ends the line -- an unmatched ')', or a '(' that is not attached to a name -- is refused *)
Definition kw_state : pstr := [115; 116; 97; 116; 101]%N.
Definition kw_macrostate : pstr := [109; 97; 99; 114; 111; 115; 116; 97; 116; 101]%N.
Definition junk_char (d : chr) : Prop :=
  stopc d = true /\ memc d idch = false /\ d <> 43%N /\ d <> 64%N.

Theorem kernel_trailing_junk_refused s bT d junk full b :
  blanks WS b -> blanks WS bT -> junk_char d -> kc_stmt_ok s (bT ++ d :: junk) ->
  is_prefix kw_state (kc_n0 s :: kc_ns s) = false -> is_prefix kw_macrostate (kc_n0 s :: kc_ns s) = false ->
  evals G full 8 true (At (b ++ kc_text s (bT ++ d :: junk))) PFail.
Proof.
  intros Hb HbT (Hd1 & Hd2 & Hd3 & Hd4) Hs Hst Hms.
  pose proof Hs as (H0 & Hns & Hnk & Hb2 & Hwf).
  assert (HT : spre (bT ++ d :: junk) = d :: junk) by (apply spre_blanks_stop; assumption).
  assert (Hne : forall e, e <> d -> nohead [e] (spre (bT ++ d :: junk))).
  { intros e He. rewrite HT. cbn. destruct (N.eqb_spec d e) as [E|]; [congruence|reflexivity]. }
  assert (Hx : spre (b ++ kc_text s (bT ++ d :: junk)) = kc_text s (bT ++ d :: junk))
    by (unfold kc_text; apply spre_blanks_stop; [exact Hb|apply idch_stop; exact H0]).
  assert (Hfol : nohead idch (kc_b2 s ++ 61%N :: items_text (kc_first s :: kc_more s) (bT ++ d :: junk)))
    by (apply nohead_blanks; [vm_compute; reflexivity|exact Hb2|reflexivity]).
  eapply evals_node_fail; [lk|cbn; reflexivity|]. apply impls_first; [reflexivity|]. cbn [nkids].
  apply (kernel_keyword_alts_fail s full b _ _ _ Hb Hs).
  eapply firsts_miss.
  { eapply evals_eq.
    - apply (kernel_alt_202 s full b _ PFail Hb Hs).
      + rewrite HT. exact Hd2.
      + apply Hne. congruence.
      + eapply seqs_cons; [apply (ev_noconc full); apply Hne; congruence|].
        apply seqs_fail.
        assert (H260 : nth_error G 260 = Some (mkNode (KMany true) [261] true WS [pil_c] true [])) by lk.
        assert (H261 : nth_error G 261 = Some (mkNode KSuppress [262] true WS [pil_c] true [])) by lk.
        assert (H262 : exists cp, nth_error G 262 = Some (mkNode KLineEnd [] true WS [pil_c] cp [])) by (exists true; lk).
        apply (evals_eol_fail G pil_c 261 262 WS pil_comment_ok H261 H262 full 260 true _ d junk H260 HT).
        apply stopc_elim in Hd1. apply Hd1.
    - reflexivity. }
  eapply firsts_miss.
  { eapply (evals_kw_alt_fail G full pil_c WS pil_comment_ok 263 264 265 266); [lk|lk|lk|lk|].
    rewrite Hx. unfold kc_text. rewrite app_comm_cons. apply starts_with_not_prefix; [exact Hst|reflexivity|exact Hfol]. }
  eapply firsts_miss; [|apply firsts_nil].
  eapply (evals_kw_alt_fail G full pil_c WS pil_comment_ok 283 284 285 286); [lk|lk|lk|lk|].
  rewrite Hx. unfold kc_text. rewrite app_comm_cons. apply starts_with_not_prefix; [exact Hms|reflexivity|exact Hfol].
Qed.

Theorem reject_unbalanced_kernel s bT d junk pls b :
  (d = 41%N \/ d = 40%N) ->
  blanks WS b -> blanks WS bT -> kc_stmt_ok s (bT ++ d :: junk) -> Forall pil_blank_line pls ->
  is_prefix kw_state (kc_n0 s :: kc_ns s) = false -> is_prefix kw_macrostate (kc_n0 s :: kc_ns s) = false ->
  no_tab (concat pls ++ b ++ kc_text s (bT ++ d :: junk)) ->
  exists f0, forall f, f0 <= f -> parse_pil_fuel f (concat pls ++ b ++ kc_text s (bT ++ d :: junk)) = err eParse.
Proof.
  intros Hd Hb HbT Hs Hp Hst Hms Hnt. apply pil_document_reject; try assumption.
  - unfold kc_text. destruct Hs as (H0 & _). apply idch_stop in H0. apply stopc_elim in H0. exact H0.
  - intros full b' Hb'. apply kernel_trailing_junk_refused; try assumption.
    destruct Hd as [-> | ->]; repeat split; try reflexivity; discriminate.
Qed.

(* non-vacuity *)
Example kcc_example :
  let s := mkKc 67%N [] [32%N] (ISense [32%N] 97%N [] false true) [] in
  let c := mkConc CI (mkGnum 49%N [] None (Some (Some 45%N, 55%N, []))) UnM [32%N] [] [32%N] [32%N] in
  conc_ok c /\ kc_stmt_ok s (conc_text c ++ [NL]) /\ parse_pil (kcc_render s c ++ [NL]) = vals [kcc_tree s c].
Proof.
  cbn zeta. split; [|split; [|vm_compute; reflexivity]].
  - unfold conc_ok, gnum_ok. cbn. repeat split; try reflexivity. right. reflexivity.
  - unfold kc_stmt_ok. cbn [kc_n0 kc_ns kc_b2 kc_first kc_more]. repeat split; try reflexivity.
Qed.
Example unbalanced_example :
  let s := mkKc 120%N [] [32%N] (ISense [32%N] 97%N [] false false) [ISense [32%N] 98%N [] false false] in
  kc_stmt_ok s ([32%N] ++ 41%N :: [10%N]) /\ parse_pil (kc_text s ([32%N] ++ 41%N :: [10%N])) = err eParse.
Proof.
  cbn zeta. split; [|vm_compute; reflexivity].
  unfold kc_stmt_ok. cbn [kc_n0 kc_ns kc_b2 kc_first kc_more]. repeat split; try reflexivity.
Qed.
