(* Reader model, C14: a consistent system is never refused.
   Part 2: what a list of statements declares, what each statement builds (exact objects),
   and the invariant of a reading session started in the empty state. *)
From Coq Require Import List NArith ZArith Bool Arith Lia.
From DSD Require Import Base.Str Base.Errors Model.ComplexUtils Model.RegStr Model.ReaderStr Model.PyNum
  Model.Peg Model.Kernel Model.DispatchKernel Model.Heap Model.Registry Model.Reader Model.ReaderShape Model.ReaderConsistent
  Proofs.RegHeap Proofs.RegInv Proofs.RegCalls Proofs.RegExt Proofs.ReaderBasic Proofs.ReaderStmt Proofs.ReaderHeap
  Proofs.ReaderInv Proofs.ReaderHoare Proofs.ReaderNoFault Proofs.ReaderThms Proofs.ReaderBuilds Proofs.ReaderKernel
  Proofs.ReaderMore Proofs.ReaderSys.
From DSD Require Model.Iupac.
Import ListNotations.

Lemma star_starred x : starred (star x) = true.
Proof. apply starred_app. Qed.
Lemma star_inj x y : star x = star y -> x = y.
Proof. unfold star. intros H. apply app_inj_tail in H. tauto. Qed.
Lemma star_nonempty x : nonempty (star x) = true.
Proof. unfold star. destruct x; reflexivity. Qed.
Lemma cname_unstarred' x : starred x = false -> cname_of x = star x.
Proof. unfold cname_of, star. intros ->. reflexivity. Qed.

(* d[k] = v is the registries' aset *)
Lemma dset_aset k v l : dset k v l = aset str_eqb k v l.
Proof. induction l as [|[k' v'] r IH]; cbn; [reflexivity|]. rewrite IH. reflexivity. Qed.

Notation dlookup := (alookup str_eqb).

Lemma dlookup_dset n k v l : dlookup n (dset k v l) = if str_eqb n k then Some v else dlookup n l.
Proof.
  rewrite dset_aset. destruct (str_eqb n k) eqn:E.
  - apply str_eqb_iff in E. subst n. apply (alookup_aset_same str_eqb str_eqb_iff).
  - apply (alookup_aset_other str_eqb str_eqb_iff). intros ->.
    rewrite (proj2 (str_eqb_iff k k) eq_refl) in E. discriminate.
Qed.

Lemma dlookup_dset_keep n i k v l : dlookup n l = Some i -> dlookup k l = None -> dlookup n (dset k v l) = Some i.
Proof.
  intros H Hk. rewrite dlookup_dset. destruct (str_eqb n k) eqn:E; [|exact H].
  apply str_eqb_iff in E. subst n. congruence.
Qed.

Lemma dset_keys k v l x : In x (map fst (dset k v l)) -> x = k \/ In x (map fst l).
Proof.
  rewrite dset_aset, (aset_keys str_eqb str_eqb_iff). destruct (alookup str_eqb k l); [tauto|].
  rewrite in_app_iff. cbn. intuition.
Qed.

Lemma dset_vals k v l x : In x (map snd (dset k v l)) -> x = v \/ In x (map snd l).
Proof.
  induction l as [|[k' v'] r IH]; cbn; [intuition|].
  destruct (str_eqb k k'); cbn; intuition.
Qed.

Lemma dlookup_in_keys n i l : dlookup n l = Some i -> In n (map fst l).
Proof. intros H. apply (alookup_in str_eqb str_eqb_iff) in H. apply (in_map fst) in H. exact H. Qed.
Lemma dlookup_in_vals n i l : dlookup n l = Some i -> In i (map snd l).
Proof. intros H. apply (alookup_in str_eqb str_eqb_iff) in H. apply (in_map snd) in H. exact H. Qed.
Lemma dlookup_notin n (l : list (pstr * nat)) : ~ In n (map fst l) -> dlookup n l = None.
Proof. apply (alookup_none str_eqb str_eqb_iff). Qed.

Lemma assoc_in {A} n (v : A) l : assoc n l = Some v -> In (n, v) l.
Proof.
  induction l as [|[k w] r IH]; cbn; [discriminate|]. destruct (str_eqb n k) eqn:E.
  - apply str_eqb_iff in E. subst k. intros H. injection H as ->. left. reflexivity.
  - intros H. right. apply IH. exact H.
Qed.
Lemma assoc_some {A} n (l : list (pstr * A)) : In n (map fst l) -> exists v, assoc n l = Some v.
Proof.
  induction l as [|[k w] r IH]; cbn; [tauto|]. destruct (str_eqb n k) eqn:E; [eauto|].
  intros [H|H]; [subst k; rewrite (proj2 (str_eqb_iff n n) eq_refl) in E; discriminate | apply IH; exact H].
Qed.
Lemma assoc_app {A} n (l l' : list (pstr * A)) v : assoc n l = Some v -> assoc n (l ++ l') = Some v.
Proof.
  induction l as [|[k w] r IH]; cbn; [discriminate|]. destruct (str_eqb n k); [auto | exact IH].
Qed.

Lemma omap'_forall2 {A B} (f : A -> option B) xs ys :
  Forall2 (fun x y => f x = Some y) xs ys -> omap' f xs = Some ys.
Proof. induction 1 as [|x y xs ys H F IH]; cbn; [reflexivity|]. rewrite H, IH. reflexivity. Qed.

Lemma omap'_forall2_inv {A B} (f : A -> option B) xs ys :
  omap' f xs = Some ys -> Forall2 (fun x y => f x = Some y) xs ys.
Proof.
  revert ys. induction xs as [|x xs IH]; cbn; intros ys H.
  - injection H as <-. constructor.
  - destruct (f x) as [y|] eqn:E; [|discriminate]. destruct (omap' f xs) as [ys'|]; [|discriminate].
    injection H as <-. constructor; [exact E | apply IH; reflexivity].
Qed.


Lemma decl_doms_app a b : decl_doms (a ++ b) = decl_doms a ++ decl_doms b.
Proof. apply flat_map_app. Qed.
Lemma decl_strands_app a b : decl_strands (a ++ b) = decl_strands a ++ decl_strands b.
Proof. apply flat_map_app. Qed.
Lemma dcf_app pre a b : decl_cplx_from pre (a ++ b) = decl_cplx_from pre a ++ decl_cplx_from (pre ++ a) b.
Proof.
  revert pre. induction a as [|s a IH]; intros pre; cbn [app decl_cplx_from]; [rewrite app_nil_r; reflexivity|].
  rewrite IH, <- !app_assoc. reflexivity.
Qed.
Lemma decl_cplx_snoc prev s : decl_cplx (prev ++ [s]) = decl_cplx prev ++ cplx_entry prev s.
Proof. unfold decl_cplx. rewrite dcf_app. cbn. rewrite app_nil_r. reflexivity. Qed.
Lemma cplx_entry_names pre pre' s : map fst (cplx_entry pre s) = map fst (cplx_entry pre' s).
Proof. destruct s; reflexivity. Qed.
Lemma dcf_names pre pre' l : map fst (decl_cplx_from pre l) = map fst (decl_cplx_from pre' l).
Proof.
  revert pre pre'. induction l as [|s l IH]; intros pre pre'; cbn [decl_cplx_from]; [reflexivity|].
  rewrite !map_app, (cplx_entry_names pre pre' s), (IH (pre ++ [s]) (pre' ++ [s])). reflexivity.
Qed.
Lemma decl_cplx_names_app a b : map fst (decl_cplx (a ++ b)) = map fst (decl_cplx a) ++ map fst (decl_cplx b).
Proof. unfold decl_cplx. rewrite dcf_app, map_app. cbn [app]. rewrite (dcf_names a [] b). reflexivity. Qed.
Lemma decl_macs_app a b : decl_macs (a ++ b) = decl_macs a ++ decl_macs b.
Proof. apply flat_map_app. Qed.
Lemma decl_rxns_app a b : decl_rxns (a ++ b) = decl_rxns a ++ decl_rxns b.
Proof. apply flat_map_app. Qed.

Lemma decl_doms_in prev x l :
  In (x, l) (decl_doms prev) <->
  (In (SDl x l) prev \/ exists sq chk, In (SSl x sq chk) prev /\ l = Z.of_nat (length sq)).
Proof.
  unfold decl_doms. rewrite in_flat_map. split.
  - intros [s [Hs Hx]]. destruct s; cbn in Hx; try tauto.
    + destruct Hx as [E|[]]. injection E as <- <-. left. exact Hs.
    + destruct Hx as [E|[]]. injection E as <- <-. right. eauto.
  - intros [H|[sq [chk [H ->]]]]; eexists; (split; [exact H|]); left; reflexivity.
Qed.
Lemma decl_strands_in prev n ds : In (n, ds) (decl_strands prev) <-> In (SComp n ds) prev.
Proof.
  unfold decl_strands. rewrite in_flat_map. split.
  - intros [s [Hs Hx]]. destruct s; cbn in Hx; try tauto. destruct Hx as [E|[]]. injection E as <- <-. exact Hs.
  - intros H. eexists. split; [exact H|]. left. reflexivity.
Qed.
Lemma decl_macs_in prev n xs : In (n, xs) (decl_macs prev) <-> In (SMac n xs) prev.
Proof.
  unfold decl_macs. rewrite in_flat_map. split.
  - intros [s [Hs Hx]]. destruct s; cbn in Hx; try tauto. destruct Hx as [E|[]]. injection E as <- <-. exact Hs.
  - intros H. eexists. split; [exact H|]. left. reflexivity.
Qed.
Lemma decl_rxns_in prev ri : In ri (decl_rxns prev) <-> In (SRxn ri) prev.
Proof.
  unfold decl_rxns. rewrite in_flat_map. split.
  - intros [s [Hs Hx]]. destruct s; cbn in Hx; try tauto. destruct Hx as [E|[]]. subst. exact Hs.
  - intros H. eexists. split; [exact H|]. left. reflexivity.
Qed.

(* members of a reaction: name, object, canonical form *)
Definition mem3 := (pstr * (nat * list ckey))%type.
Definition m_name (m : mem3) : pstr := fst m.
Definition m_id (m : mem3) : nat := fst (snd m).
Definition m_keys (m : mem3) : list ckey := snd (snd m).

Section Built.
  Variables cd cs cc cm cr : nat.

  Definition dobj (n : pstr) (l : Z) : obj := new_obj cd n (KDom n l) [] [] (DDom l).

  (* the element that a name of a sequence becomes *)
  Definition ElemOf (D : list (pstr * nat)) (x : pstr) (e : elem) : Prop :=
    if str_eqb x sPlus then e = (x, None) else exists j, dlookup x D = Some j /\ e = (x, Some j).

  Definition BuiltRxn (r : rstate) (acc : pilout) (ri : rinfo) (i : nat) : Prop :=
    let h := heap (r_st r) in
    let dict := if is_cond (ri_type ri) then po_macrostates acc else po_complexes acc in
    exists (R3 P3 : list mem3) k,
      In i (if is_cond (ri_type ri) then po_con acc else po_det acc) /\
      Forall2 (fun x m => m_name m = x /\ dlookup x dict = Some (m_id m) /\
                          member_form h (m_id m) = Some (is_cond (ri_type ri), m_keys m)) (ri_reactants ri) R3 /\
      Forall2 (fun x m => m_name m = x /\ dlookup x dict = Some (m_id m) /\
                          member_form h (m_id m) = Some (is_cond (ri_type ri), m_keys m)) (ri_products ri) P3 /\
      let sr := sort_by m_keys mkey_cmp R3 in
      let sp := sort_by m_keys mkey_cmp P3 in
      hget h i = Some (new_obj cr (rxn_name (ri_type ri) (map m_name sr) (map m_name sp))
                               (KRxn (is_cond (ri_type ri)) (map m_keys sr) (map m_keys sp) (ri_type ri)) []
                               (map m_id R3 ++ map m_id P3)
                               (DRxn (map m_id sr) (map m_id sp) (ri_type ri))) /\
      ri_rate ri = Some k /\ attr_get i (r_rate r) = Some (k, ri_units ri).

  (* a complex object with this sequence of names and this structure, filed under its name *)
  Definition BuiltCplx (r : rstate) (acc : pilout) (n : pstr) (names : list pstr) (sst : list chr) (conc : option conc) : Prop :=
    let h := heap (r_st r) in
    exists i es cdict cn e, dlookup n (po_complexes acc) = Some i /\ nonempty n = true /\
      Forall2 (ElemOf (po_domains acc)) names es /\
      rot_dict names sst = Some cdict /\ canon_of cdict = Some (cn, e) /\
      hget h i = Some (new_obj cc n (KCplx cn) (map (fun kv => KCplx (fst kv)) cdict) (elem_ids es)
                               (DCplx es sst (wrap (- Z.of_nat e) (Z.of_nat (nstrands names))))) /\
      attr_get i (r_conc r) = conc.

  Definition strand_obj (n : pstr) (ds : list pstr) (ids : list nat) : obj :=
    new_obj cs n (KCplx (ds, map (fun _ => Registry.cStar) ds)) [] ids (DStrand (combine ds (map Some ids))).

  (* the named strands and their domain names *)
  Definition StrandsOf (r : rstate) (acc : pilout) (ss : list pstr) (dss : list (list pstr)) : Prop :=
    Forall2 (fun s ds => exists j ids, dlookup s (po_strands acc) = Some j /\ nonempty s = true /\
                           Forall2 (fun d i => dlookup d (po_domains acc) = Some i) ds ids /\
                           hget (heap (r_st r)) j = Some (strand_obj s ds ids)) ss dss.

  Definition Built (r : rstate) (acc : pilout) (s : stmt) : Prop :=
    let h := heap (r_st r) in
    match s with
    | SDl x l =>
        exists i j, dlookup x (po_domains acc) = Some i /\ dlookup (star x) (po_domains acc) = Some j /\
          hget h i = Some (dobj x l) /\ hget h j = Some (dobj (star x) l) /\
          attr_get i (r_seq r) = None /\ attr_get j (r_seq r) = None
    | SSl x sq _ =>
        exists i j sq', dlookup x (po_domains acc) = Some i /\ dlookup (star x) (po_domains acc) = Some j /\
          hget h i = Some (dobj x (Z.of_nat (length sq))) /\ hget h j = Some (dobj (star x) (Z.of_nat (length sq))) /\
          Iupac.reverse_wc_complement false sq = Ok sq' /\
          attr_get i (r_seq r) = Some sq /\ attr_get j (r_seq r) = Some sq'
    | SComp n ds =>
        exists i ids, dlookup n (po_strands acc) = Some i /\ nonempty n = true /\ starred n = false /\
          Forall2 (fun d j => dlookup d (po_domains acc) = Some j) ds ids /\
          hget h i = Some (strand_obj n ds ids)
    | SKer n names sst conc => exists names' sst', BuiltCplx r acc n names' sst' conc
    | SMac n xs =>
        exists i (mks : list (nat * ckey)) rep, dlookup n (po_macrostates acc) = Some i /\ nonempty n = true /\
          Forall2 (fun x mk => dlookup x (po_complexes acc) = Some (fst mk) /\ member_ckey h (fst mk) = Some (snd mk)) xs mks /\
          hget h i = Some (new_obj cm n (KMac (map snd (sort_by snd ckey_cmp mks))) [] (map fst mks)
                                   (DMac (map fst mks) rep))
    | SRxn ri => exists i, BuiltRxn r acc ri i
    | SSC n ss sst => exists names, BuiltCplx r acc n names (no_space sst) None
    | SOther => True
    end.

  Definition dict_of (k : kind) (acc : pilout) : list (pstr * nat) :=
    match k with
    | KindD => po_domains acc | KindS => po_strands acc | KindC => po_complexes acc
    | KindM => po_macrostates acc | KindR => []
    end.
  Definition cls_of (k : kind) : nat :=
    match k with KindD => cd | KindS => cs | KindC => cc | KindM => cm | KindR => cr end.
  Definition with_dict (k : kind) (acc : pilout) (d : list (pstr * nat)) : pilout :=
    match k with
    | KindD => with_domains acc d | KindS => with_strands acc d | KindC => with_complexes acc d
    | KindM => with_macros acc d | KindR => acc
    end.
  (* what only grows while a document is read *)
  Record Later (r : rstate) (acc : pilout) (r' : rstate) (acc' : pilout) : Prop := mkLater {
    lt_heap : exists top, heap (r_st r') = top ++ heap (r_st r);
    lt_dict : forall k n i, dlookup n (dict_of k acc) = Some i -> dlookup n (dict_of k acc') = Some i;
    lt_det : forall i, In i (po_det acc) -> In i (po_det acc');
    lt_con : forall i, In i (po_con acc) -> In i (po_con acc');
    lt_seq : forall i, i < length (heap (r_st r)) -> attr_get i (r_seq r') = attr_get i (r_seq r);
    lt_conc : forall i, i < length (heap (r_st r)) -> attr_get i (r_conc r') = attr_get i (r_conc r);
    lt_rate : forall i, i < length (heap (r_st r)) -> attr_get i (r_rate r') = attr_get i (r_rate r);
    lt_other : po_other acc' = po_other acc
  }.

  Lemma lt_D r acc r' acc' : Later r acc r' acc' ->
    forall n i, dlookup n (po_domains acc) = Some i -> dlookup n (po_domains acc') = Some i.
  Proof. intros L. apply (lt_dict _ _ _ _ L KindD). Qed.
  Lemma lt_S r acc r' acc' : Later r acc r' acc' ->
    forall n i, dlookup n (po_strands acc) = Some i -> dlookup n (po_strands acc') = Some i.
  Proof. intros L. apply (lt_dict _ _ _ _ L KindS). Qed.
  Lemma lt_C r acc r' acc' : Later r acc r' acc' ->
    forall n i, dlookup n (po_complexes acc) = Some i -> dlookup n (po_complexes acc') = Some i.
  Proof. intros L. apply (lt_dict _ _ _ _ L KindC). Qed.
  Lemma lt_M r acc r' acc' : Later r acc r' acc' ->
    forall n i, dlookup n (po_macrostates acc) = Some i -> dlookup n (po_macrostates acc') = Some i.
  Proof. intros L. apply (lt_dict _ _ _ _ L KindM). Qed.

  Lemma later_hget r acc r' acc' :
    Later r acc r' acc' -> forall i o, hget (heap (r_st r)) i = Some o -> hget (heap (r_st r')) i = Some o.
  Proof.
    intros L i o H. destruct (lt_heap _ _ _ _ L) as [top E]. rewrite E.
    rewrite hget_app_old; [exact H | eapply hget_lt; eauto].
  Qed.

  Lemma later_member_ckey r acc r' acc' j k :
    Later r acc r' acc' -> member_ckey (heap (r_st r)) j = Some k -> member_ckey (heap (r_st r')) j = Some k.
  Proof.
    intros L. unfold member_ckey. destruct (hget (heap (r_st r)) j) as [o|] eqn:E; [|discriminate].
    rewrite (later_hget _ _ _ _ L _ _ E). auto.
  Qed.
  Lemma later_member_form r acc r' acc' j k :
    Later r acc r' acc' -> member_form (heap (r_st r)) j = Some k -> member_form (heap (r_st r')) j = Some k.
  Proof.
    intros L. unfold member_form. destruct (hget (heap (r_st r)) j) as [o|] eqn:E; [|discriminate].
    rewrite (later_hget _ _ _ _ L _ _ E). auto.
  Qed.

  Lemma elemof_later D D' x e :
    (forall n i, dlookup n D = Some i -> dlookup n D' = Some i) -> ElemOf D x e -> ElemOf D' x e.
  Proof.
    intros H. unfold ElemOf. destruct (str_eqb x sPlus); [auto|]. intros [j [H1 H2]]. exists j. auto.
  Qed.

  Lemma builtrxn_later r acc r' acc' ri i : Later r acc r' acc' -> BuiltRxn r acc ri i -> BuiltRxn r' acc' ri i.
  Proof.
    intros L. pose proof (later_hget _ _ _ _ L) as HG. unfold BuiltRxn.
    intros [R3 [P3 [k [H1 [H2 [H3 [H4 [H5 H6]]]]]]]]. exists R3, P3, k.
      assert (LD : forall n j, dlookup n (if is_cond (ri_type ri) then po_macrostates acc else po_complexes acc) = Some j ->
                   dlookup n (if is_cond (ri_type ri) then po_macrostates acc' else po_complexes acc') = Some j).
      { destruct (is_cond (ri_type ri)); [apply (lt_M _ _ _ _ L) | apply (lt_C _ _ _ _ L)]. }
      split; [destruct (is_cond (ri_type ri)); [apply (lt_con _ _ _ _ L) | apply (lt_det _ _ _ _ L)]; exact H1|].
      split; [eapply Forall2_impl'; [|exact H2]; cbn; intros a b [A1 [A2 A3]];
              split; [exact A1|]; split; [apply LD; exact A2 | eapply later_member_form; eauto]|].
      split; [eapply Forall2_impl'; [|exact H3]; cbn; intros a b [A1 [A2 A3]];
              split; [exact A1|]; split; [apply LD; exact A2 | eapply later_member_form; eauto]|].
      cbv zeta in *. split; [apply HG; exact H4|]. split; [exact H5|].
      rewrite (lt_rate _ _ _ _ L) by (eapply hget_lt; eauto). exact H6.
  Qed.

  Lemma builtcplx_later r acc r' acc' n names sst conc :
    Later r acc r' acc' -> BuiltCplx r acc n names sst conc -> BuiltCplx r' acc' n names sst conc.
  Proof.
    intros L. pose proof (later_hget _ _ _ _ L) as HG.
    intros [i [es [cdict [cn [e [H1 [Hne [H2 [H3 [H4 [H5 H6]]]]]]]]]]]. exists i, es, cdict, cn, e.
    split; [apply (lt_C _ _ _ _ L); exact H1|]. split; [exact Hne|].
    split; [eapply Forall2_impl'; [|exact H2]; intros a b; apply elemof_later; apply (lt_D _ _ _ _ L)|].
    split; [exact H3|]. split; [exact H4|]. split; [apply HG; exact H5|].
    rewrite (lt_conc _ _ _ _ L) by (eapply hget_lt; eauto). exact H6.
  Qed.

  Lemma strandsof_later r acc r' acc' ss dss : Later r acc r' acc' -> StrandsOf r acc ss dss -> StrandsOf r' acc' ss dss.
  Proof.
    intros L F. pose proof (later_hget _ _ _ _ L) as HG. eapply Forall2_impl'; [|exact F]. cbn.
    intros s ds [j [ids [H1 [H2 [H3 H4]]]]]. exists j, ids. split; [apply (lt_S _ _ _ _ L); exact H1|].
    split; [exact H2|]. split; [|apply HG; exact H4].
    eapply Forall2_impl'; [|exact H3]. cbn. intros a b. apply (lt_D _ _ _ _ L).
  Qed.

  Theorem built_later r acc r' acc' s : Later r acc r' acc' -> Built r acc s -> Built r' acc' s.
  Proof.
    intros L. pose proof (later_hget _ _ _ _ L) as HG. destruct s as [x l|x sq chk|n ds|n ss sst|n names sst conc|n xs|ri|]; cbn [Built].
    - intros [i [j [H1 [H2 [H3 [H4 [H5 H6]]]]]]]. exists i, j.
      split; [apply (lt_D _ _ _ _ L); exact H1|]. split; [apply (lt_D _ _ _ _ L); exact H2|].
      split; [apply HG; exact H3|]. split; [apply HG; exact H4|].
      rewrite (lt_seq _ _ _ _ L) by (eapply hget_lt; eauto). rewrite (lt_seq _ _ _ _ L) by (eapply hget_lt; eauto). auto.
    - intros [i [j [sq' [H1 [H2 [H3 [H4 [H5 [H6 H7]]]]]]]]]. exists i, j, sq'.
      split; [apply (lt_D _ _ _ _ L); exact H1|]. split; [apply (lt_D _ _ _ _ L); exact H2|].
      split; [apply HG; exact H3|]. split; [apply HG; exact H4|]. split; [exact H5|].
      rewrite (lt_seq _ _ _ _ L) by (eapply hget_lt; eauto). rewrite (lt_seq _ _ _ _ L) by (eapply hget_lt; eauto). auto.
    - intros [i [ids [H1 [Hne [Hst [H2 H3]]]]]]. exists i, ids. split; [apply (lt_S _ _ _ _ L); exact H1|]. split; [exact Hne|]. split; [exact Hst|].
      split; [|apply HG; exact H3]. eapply Forall2_impl'; [|exact H2]. cbn. intros a b. apply (lt_D _ _ _ _ L).
    - intros [names H]. exists names. eapply builtcplx_later; eauto.
    - intros [names' [sst' H]]. exists names', sst'. eapply builtcplx_later; eauto.
    - intros [i [mks [rep [H1 [Hne [H2 H3]]]]]]. exists i, mks, rep. split; [apply (lt_M _ _ _ _ L); exact H1|].
      split; [exact Hne|].
      split; [|apply HG; exact H3]. eapply Forall2_impl'; [|exact H2]. cbn. intros a b [A1 A2].
      split; [apply (lt_C _ _ _ _ L); exact A1 | eapply later_member_ckey; eauto].
    - intros [i H]. exists i. eapply builtrxn_later; eauto.
    - auto.
  Qed.

  Lemma later_refl r acc : Later r acc r acc.
  Proof. constructor; auto. exists []. reflexivity. Qed.

  Lemma later_trans r1 a1 r2 a2 r3 a3 : Later r1 a1 r2 a2 -> Later r2 a2 r3 a3 -> Later r1 a1 r3 a3.
  Proof.
    intros A B. destruct (lt_heap _ _ _ _ A) as [t1 E1]. destruct (lt_heap _ _ _ _ B) as [t2 E2].
    assert (Hl : length (heap (r_st r1)) <= length (heap (r_st r2))) by (rewrite E1, app_length; lia).
    constructor.
    - exists (t2 ++ t1). rewrite E2, E1. apply app_assoc.
    - intros k n i H. apply (lt_dict _ _ _ _ B). apply (lt_dict _ _ _ _ A). exact H.
    - intros i H. apply (lt_det _ _ _ _ B). apply (lt_det _ _ _ _ A). exact H.
    - intros i H. apply (lt_con _ _ _ _ B). apply (lt_con _ _ _ _ A). exact H.
    - intros i H. rewrite (lt_seq _ _ _ _ B) by lia. apply (lt_seq _ _ _ _ A). exact H.
    - intros i H. rewrite (lt_conc _ _ _ _ B) by lia. apply (lt_conc _ _ _ _ A). exact H.
    - intros i H. rewrite (lt_rate _ _ _ _ B) by lia. apply (lt_rate _ _ _ _ A). exact H.
    - rewrite (lt_other _ _ _ _ B). apply (lt_other _ _ _ _ A).
  Qed.

  (* ---- the invariant between two statements of the document ---- *)
  Definition acc_ids (acc : pilout) : list nat :=
    map snd (po_domains acc) ++ map snd (po_strands acc) ++ map snd (po_complexes acc) ++
    map snd (po_macrostates acc) ++ po_det acc ++ po_con acc.

  Variable ct : ctable.

  Record Core (prev : list stmt) (r : rstate) (acc : pilout) : Prop := mkCore {
    si_sok : SOK ct (r_st r);
    si_attr : forall i, length (heap (r_st r)) <= i ->
              attr_get i (r_seq r) = None /\ attr_get i (r_conc r) = None /\ attr_get i (r_rate r) = None;
    si_held : forall i, In i (acc_ids acc) -> In (Some i) (roots (r_st r));
    si_dom : forall j o, hget (heap (r_st r)) j = Some o -> o_cls o = cd -> exists l, o_data o = DDom l;
    si_reg : forall k, k <> KindR ->
             forall n, nlookup n (cs_names (cget (r_st r) (cls_of k))) = dlookup n (dict_of k acc);
    si_rR : forall n j, nlookup n (cs_names (cget (r_st r) cr)) = Some j -> In j (po_det acc ++ po_con acc);
    si_keys : forall k n, In n (map fst (dict_of k acc)) -> In n (declared k prev);
    si_decl : forall x l, In (x, l) (decl_doms prev) ->
              starred x = false /\ nonempty x = true /\ (0 <= l)%Z /\ str_eqb x sPlus = false;
    si_kR : forall j, In j (po_det acc ++ po_con acc) ->
            exists ri, In (SRxn ri) prev /\ BuiltRxn r acc ri j;
    (* every declared complex is built with the sequence and structure its statement denotes *)
    si_cplx : forall n names sst, In (n, (names, sst)) (decl_cplx prev) -> exists conc, BuiltCplx r acc n names sst conc;
    (* every rotation key of a filed complex is registered *)
    si_rot : forall n i o, dlookup n (po_complexes acc) = Some i -> hget (heap (r_st r)) i = Some o ->
             forall k, In k (o_keys o) -> klookup k (cs_canon (cget (r_st r) cc)) = Some i
  }.

  Definition SInv (prev : list stmt) (r : rstate) (acc : pilout) : Prop :=
    Core prev r acc /\ forall s, In s prev -> Built r acc s.

  Lemma dict_with_same k acc d : k <> KindR -> dict_of k (with_dict k acc d) = d.
  Proof. destruct k; intros H; try reflexivity. congruence. Qed.
  Lemma dict_with_other k k' acc d : k <> k' -> dict_of k' (with_dict k acc d) = dict_of k' acc.
  Proof. destruct k, k'; intros H; try reflexivity; congruence. Qed.
  Lemma det_with k acc d : po_det (with_dict k acc d) = po_det acc.
  Proof. destruct k; reflexivity. Qed.
  Lemma con_with k acc d : po_con (with_dict k acc d) = po_con acc.
  Proof. destruct k; reflexivity. Qed.
  Lemma other_with k acc d : po_other (with_dict k acc d) = po_other acc.
  Proof. destruct k; reflexivity. Qed.

  Lemma acc_ids_with k acc nm i j :
    In j (acc_ids (with_dict k acc (dset nm i (dict_of k acc)))) -> j = i \/ In j (acc_ids acc).
  Proof.
    unfold acc_ids. destruct k; cbn [with_dict with_domains with_strands with_complexes with_macros dict_of
      po_domains po_strands po_complexes po_macrostates po_det po_con]; rewrite !in_app_iff; intros H;
      repeat (destruct H as [H|H]); try (apply dset_vals in H; destruct H as [H|H]); tauto.
  Qed.
End Built.

Lemma declared_app k a b n : In n (declared k (a ++ b)) <-> In n (declared k a) \/ In n (declared k b).
Proof.
  destruct k; cbn [declared].
  - unfold dom_names. rewrite decl_doms_app, flat_map_app, in_app_iff. tauto.
  - rewrite decl_cplx_names_app, in_app_iff. tauto.
  - rewrite decl_strands_app, map_app, in_app_iff. tauto.
  - rewrite decl_macs_app, map_app, in_app_iff. tauto.
  - tauto.
Qed.

Lemma declared_dom_in prev n :
  In n (declared KindD prev) <-> exists x, In x (map fst (decl_doms prev)) /\ (n = x \/ n = star x).
Proof.
  cbn [declared]. unfold dom_names. rewrite in_flat_map. split.
  - intros [[x l] [H1 H2]]. cbn in H2. exists x. split; [apply (in_map fst) in H1; exact H1|]. intuition.
  - intros [x [H1 H2]]. apply in_map_iff in H1. destruct H1 as [[x0 l] [E H1]]. cbn in E. subst x0.
    exists (x, l). split; [exact H1|]. cbn. intuition.
Qed.

(* what one statement adds to a result dictionary: the document loop files the same object under the same
   name whatever the dictionary holds already *)
Inductive fdelta :=
| FDom (x : pstr) (i j : nat)                 (* a domain and its complement *)
| FKind (k : kind) (n : pstr) (i : nat)       (* a strand, complex or macrostate *)
| FRxn (cond : bool) (st : state) (i : nat).  (* a reaction, by s.add *)
Definition apply_delta (d : fdelta) (a : pilout) : pilout :=
  match d with
  | FDom x i j => with_domains a (dset (star x) j (dset x i (po_domains a)))
  | FKind k n i => with_dict k a (dset n i (dict_of k a))
  | FRxn cond st i =>
      if cond then with_rxns a (po_det a) (set_add st i (po_con a))
      else with_rxns a (set_add st i (po_det a)) (po_con a)
  end.
