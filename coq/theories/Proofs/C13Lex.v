(* C13: the lexical classes of the PIL dialect, as a specification independent of
   the code, compared with the character sets of the regenerated table. *)
From Coq Require Import List NArith Bool Arith.
From DSD Require Import Base.Str Model.Peg Proofs.C13Doc Proofs.PilLex.
From DSDGen Require Import PilGrammar.
Import ListNotations.

(* identifiers: letters, digits, underscore, hyphen *)
Definition spec_idch : list chr := [45; 48; 49; 50; 51; 52; 53; 54; 55; 56; 57; 65; 66; 67; 68; 69; 70; 71; 72; 73; 74; 75; 76; 77; 78; 79; 80; 81; 82; 83; 84; 85; 86; 87; 88; 89; 90; 95; 97; 98; 99; 100; 101; 102; 103; 104; 105; 106; 107; 108; 109; 110; 111; 112; 113; 114; 115; 116; 117; 118; 119; 120; 121; 122]%N.
(* sequence constraints: letters *)
Definition spec_alpha : list chr := [65; 66; 67; 68; 69; 70; 71; 72; 73; 74; 75; 76; 77; 78; 79; 80; 81; 82; 83; 84; 85; 86; 87; 88; 89; 90; 97; 98; 99; 100; 101; 102; 103; 104; 105; 106; 107; 108; 109; 110; 111; 112; 113; 114; 115; 116; 117; 118; 119; 120; 121; 122]%N.
(* numbers: ASCII digits *)
Definition spec_digit : list chr := [48; 49; 50; 51; 52; 53; 54; 55; 56; 57]%N.
(* blanks: tab, carriage return, space (the newline ends a statement) *)
Definition spec_blank : list chr := [9; 13; 32]%N.
(* dot-bracket strings: ( ) . + and the space *)
Definition spec_dotbracket : list chr := [32; 40; 41; 43; 46]%N.

Lemma pil_lexical_classes :
  idch = spec_idch /\ alpha = spec_alpha /\ digit = spec_digit /\ pil_ws = spec_blank /\ pil_cs4 = spec_dotbracket.
Proof. repeat split; reflexivity. Qed.

(* which nodes use them: every Word of the table is over one of these classes *)
Definition word_class_ok (nd : node) : bool :=
  match nkind nd with
  | KWord init body wmin wmax =>
      Nat.eqb wmin 1 && Nat.eqb wmax 0 && list_eqb N.eqb init body &&
      (list_eqb N.eqb init spec_idch || list_eqb N.eqb init spec_alpha || list_eqb N.eqb init spec_digit ||
       list_eqb N.eqb init spec_dotbracket)
  | _ => true
  end.
Lemma pil_words_over_classes : forallb word_class_ok pil_nodes = true.
Proof. vm_compute. reflexivity. Qed.
