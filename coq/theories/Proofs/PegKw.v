(* Generic derived rules for recurring shapes: terminals under standard flags,
   Suppress(Literal), keyword-led alternatives Group(And(Suppress(Literal kw), ...)). *)
From Coq Require Import List NArith Bool Arith Lia.
From DSD Require Import Base.Str Model.Peg Proofs.PegMono Proofs.PegRules Proofs.PegStd Proofs.PegDoc.
Import ListNotations.

Section Kw.
  Variable g : list node.
  Variable full : pstr.
  Variable c : nat.
  Variable WS : list chr.
  Hypothesis Hc : comment_ok g c WS = true.
  Notation evals := (evals g full).
  Notation std_pre := (std_pre WS).

  (* position reached by preParse of a node with standard flags, or no move *)
  Definition pre_pos (cp : bool) (nd : node) (x : pstr) : pstr :=
    if cp && ncallpre nd then std_pre x else x.

  Lemma pre_premise cp nd x : std_flags c WS nd ->
    if cp && ncallpre nd then pre_to g full nd (At x) (At (pre_pos cp nd x)) else At (pre_pos cp nd x) = At x.
  Proof.
    intros Hf. unfold pre_pos. destruct (cp && ncallpre nd); [|reflexivity].
    apply (pre_to_std g full c WS); [exact Hc|exact Hf|reflexivity].
  Qed.

  (* a node without ignorables that does not skip whitespace (inside Combine) *)
  Definition plain_flags (nd : node) : Prop := nskip nd = false /\ nign nd = [].
  Lemma pre_premise_plain cp nd x : plain_flags nd ->
    if cp && ncallpre nd then pre_to g full nd (At x) (At x) else At x = At x.
  Proof.
    intros (Hs & Hi). destruct (cp && ncallpre nd); [|reflexivity].
    apply (pre_to_fn g full c WS Hc). unfold pre_fn. rewrite Hi, Hs. reflexivity.
  Qed.

  (* a node with standard flags that pre-parses sees x and std_pre x alike *)
  Lemma evals_spre_inv i nd x r :
    nth_error g i = Some nd -> std_flags c WS nd -> ncallpre nd = true ->
    evals i true (At x) r -> evals i true (At (std_pre x)) r.
  Proof.
    intros Hn Hf Hcp [a Ha].
    destruct (pre_to_std g full c WS nd x (std_pre x) Hc Hf eq_refl) as [p1 Hp1].
    destruct (pre_to_std g full c WS nd (std_pre x) (std_pre x) Hc Hf (std_pre_idem g c WS Hc x)) as [p2 Hp2].
    exists (S (Nat.max a (Nat.max p1 p2))). intros f Hle. destruct f as [|f]; [lia|].
    rewrite <- (Ha (S f)) by lia. rewrite !parse_S, Hn, Hcp. cbn [andb].
    rewrite (Hp1 f f), (Hp2 f f) by lia. reflexivity.
  Qed.

  (* ---- terminals ---- *)
  Lemma evals_leaf_std i cp nd x r :
    nth_error g i = Some nd -> std_flags c WS nd ->
    leaf_impl nd (At (pre_pos cp nd x)) = Some r ->
    evals i cp (At x) (finish nd r).
  Proof.
    intros Hn Hf Hl. eapply evals_node; [exact Hn|apply pre_premise; exact Hf|apply impls_leaf; exact Hl].
  Qed.
  Lemma evals_leaf_plain i cp nd x r :
    nth_error g i = Some nd -> plain_flags nd ->
    leaf_impl nd (At x) = Some r ->
    evals i cp (At x) (finish nd r).
  Proof.
    intros Hn Hf Hl. eapply evals_node; [exact Hn|apply pre_premise_plain; exact Hf|apply impls_leaf; exact Hl].
  Qed.

  (* Literal with standard flags, no tag *)
  Definition lit_res (s : pstr) (keep : bool) (y : pstr) : pres :=
    match starts_with s y with
    | Some r => POk (At r) (if keep then [TStr s] else [])
    | None => PFail
    end.
  Lemma evals_lit i cp cpn s x :
    nth_error g i = Some (mkNode (KLit s) [] true WS [c] cpn []) ->
    evals i cp (At x) (lit_res s true (if cp && cpn then std_pre x else x)).
  Proof.
    intros Hn. eapply evals_eq.
    - eapply evals_leaf_std; [exact Hn|repeat split|cbv [leaf_impl nkind]; reflexivity].
    - unfold pre_pos, lit_res. cbn. destruct (starts_with s _); reflexivity.
  Qed.
  (* Suppress(Literal) *)
  Lemma evals_slit i l cp cpi cpl s x :
    nth_error g i = Some (mkNode KSuppress [l] true WS [c] cpi []) ->
    nth_error g l = Some (mkNode (KLit s) [] true WS [c] cpl []) ->
    evals i cp (At x) (lit_res s false (if cp && cpi then std_pre x else x)).
  Proof.
    intros Hi Hl. eapply evals_eq.
    - eapply evals_node; [exact Hi|apply pre_premise; repeat split|].
      eapply impls_wrap; [reflexivity|reflexivity|]. apply (evals_lit l false cpl s _ Hl).
    - unfold pre_pos, lit_res. cbn. destruct (starts_with s _); reflexivity.
  Qed.

  (* Word with standard flags *)
  Lemma evals_word i cp cpn init body x c0 a r :
    nth_error g i = Some (mkNode (KWord init body 1 0) [] true WS [c] cpn []) ->
    (if cp && cpn then std_pre x else x) = c0 :: a ++ r ->
    memc c0 init = true -> all_in body a -> nohead body r ->
    evals i cp (At x) (POk (At r) [TStr (c0 :: a)]).
  Proof.
    intros Hn Hx H0 Ha Hr. eapply evals_eq.
    - eapply evals_leaf_std; [exact Hn|repeat split|cbv [leaf_impl nkind]; reflexivity].
    - unfold pre_pos. cbn. rewrite Hx. pose proof (run_token_word init body c0 a r H0 Ha Hr) as E.
      unfold chr, pstr in *. rewrite E. reflexivity.
  Qed.
  Lemma evals_word_fail i cp cpn init body wmin wmax x :
    nth_error g i = Some (mkNode (KWord init body wmin wmax) [] true WS [c] cpn []) ->
    nohead init (if cp && cpn then std_pre x else x) ->
    evals i cp (At x) PFail.
  Proof.
    intros Hn Hx. eapply evals_eq.
    - eapply evals_leaf_std; [exact Hn|repeat split|cbv [leaf_impl nkind]; reflexivity].
    - unfold pre_pos. cbn. destruct (if cp && cpn then std_pre x else x) as [|d r]; [reflexivity|].
      cbn in Hx. rewrite (run_token_fail _ _ _ _ _ d r Hx). reflexivity.
  Qed.
  (* Word without whitespace skipping (inside Combine) *)
  Lemma evals_word_plain i cp cpn init body c0 a r :
    nth_error g i = Some (mkNode (KWord init body 1 0) [] false WS [] cpn []) ->
    memc c0 init = true -> all_in body a -> nohead body r ->
    evals i cp (At (c0 :: a ++ r)) (POk (At r) [TStr (c0 :: a)]).
  Proof.
    intros Hn H0 Ha Hr. eapply evals_eq.
    - eapply evals_leaf_plain; [exact Hn|split; reflexivity|cbv [leaf_impl nkind]; reflexivity].
    - pose proof (run_token_word init body c0 a r H0 Ha Hr) as E.
      unfold chr, pstr in *. rewrite E. reflexivity.
  Qed.
  Lemma evals_word_plain_fail i cp cpn init body wmin wmax x :
    nth_error g i = Some (mkNode (KWord init body wmin wmax) [] false WS [] cpn []) ->
    nohead init x -> evals i cp (At x) PFail.
  Proof.
    intros Hn Hx. eapply evals_eq.
    - eapply evals_leaf_plain; [exact Hn|split; reflexivity|cbv [leaf_impl nkind]; reflexivity].
    - cbn. destruct x as [|d r]; [reflexivity|]. cbn in Hx. rewrite (run_token_fail _ _ _ _ _ d r Hx). reflexivity.
  Qed.
  Lemma evals_lit_plain i cp cpn s x :
    nth_error g i = Some (mkNode (KLit s) [] false WS [] cpn []) ->
    evals i cp (At x) (lit_res s true x).
  Proof.
    intros Hn. eapply evals_eq.
    - eapply evals_leaf_plain; [exact Hn|split; reflexivity|cbv [leaf_impl nkind]; reflexivity].
    - unfold lit_res. cbn. destruct (starts_with s x); reflexivity.
  Qed.

  (* ---- keyword-led statement alternative: Group [ And (Suppress [Lit kw] :: ks) ] ---- *)
  Lemma evals_kw_alt_fail i j a l ks s cpj cpa cpl tags x :
    nth_error g i = Some (mkNode KGroup [j] true WS [c] true []) ->
    nth_error g j = Some (mkNode KAnd (a :: ks) true WS [c] cpj tags) ->
    nth_error g a = Some (mkNode KSuppress [l] true WS [c] cpa []) ->
    nth_error g l = Some (mkNode (KLit s) [] true WS [c] cpl []) ->
    starts_with s (std_pre x) = None ->
    evals i true (At x) PFail.
  Proof.
    intros Hi Hj Ha Hl Hs.
    eapply evals_node_fail; [exact Hi|apply pre_premise; repeat split|].
    eapply impls_wrap; [reflexivity|reflexivity|].
    eapply evals_node_fail; [exact Hj|cbn; reflexivity|].
    eapply impls_and_fail; [reflexivity|reflexivity|].
    eapply evals_eq; [apply (evals_slit a l false cpa cpl s _ Ha Hl)|].
    unfold pre_pos, lit_res. cbn. rewrite Hs. reflexivity.
  Qed.
  Lemma evals_kw_alt_ok i j a l ks s cpj cpa cpl tags x r p t :
    nth_error g i = Some (mkNode KGroup [j] true WS [c] true []) ->
    nth_error g j = Some (mkNode KAnd (a :: ks) true WS [c] cpj tags) ->
    nth_error g a = Some (mkNode KSuppress [l] true WS [c] cpa []) ->
    nth_error g l = Some (mkNode (KLit s) [] true WS [c] cpl []) ->
    starts_with s (std_pre x) = Some r ->
    seqs g full ks (At r) [] (POk p t) ->
    evals i true (At x) (POk p [TList (add_tags tags t)]).
  Proof.
    intros Hi Hj Ha Hl Hs Hk.
    eapply evals_eq.
    - eapply evals_node_ok; [exact Hi|apply pre_premise; repeat split|].
      eapply impls_wrap; [reflexivity|reflexivity|].
      eapply evals_node_ok; [exact Hj|cbn; reflexivity|].
      eapply impls_and; [reflexivity|reflexivity| |exact Hk].
      eapply evals_eq; [apply (evals_slit a l false cpa cpl s _ Ha Hl)|].
      unfold pre_pos, lit_res. cbn. rewrite Hs. reflexivity.
    - reflexivity.
  Qed.
  (* the keyword matches but a later element of the sequence fails *)
  Lemma evals_kw_alt_late_fail i j a l ks s cpj cpa cpl tags x r :
    nth_error g i = Some (mkNode KGroup [j] true WS [c] true []) ->
    nth_error g j = Some (mkNode KAnd (a :: ks) true WS [c] cpj tags) ->
    nth_error g a = Some (mkNode KSuppress [l] true WS [c] cpa []) ->
    nth_error g l = Some (mkNode (KLit s) [] true WS [c] cpl []) ->
    starts_with s (std_pre x) = Some r ->
    seqs g full ks (At r) [] PFail ->
    evals i true (At x) PFail.
  Proof.
    intros Hi Hj Ha Hl Hs Hk.
    eapply evals_node_fail; [exact Hi|apply pre_premise; repeat split|].
    eapply impls_wrap; [reflexivity|reflexivity|].
    eapply evals_node_fail; [exact Hj|cbn; reflexivity|].
    eapply impls_and; [reflexivity|reflexivity| |exact Hk].
    eapply evals_eq; [apply (evals_slit a l false cpa cpl s _ Ha Hl)|].
    unfold pre_pos, lit_res. cbn. rewrite Hs. reflexivity.
  Qed.
End Kw.
