(* Tabs: parse_string expands tabs before parsing.  `tabx T X` relates a text to what it can
   become when tabs are replaced by non-empty runs of spaces (or kept); expandtabs is one such
   X.  Decomposition lemmas turn "T is a rendering" into "X is a rendering with other blank runs". *)
From Coq Require Import List NArith Bool Arith Lia.
From DSD Require Import Base.Str Model.Peg Proofs.PegMono Proofs.PegRules Proofs.PegStd Proofs.PegDoc.
Import ListNotations.

Definition TAB : chr := 9%N.
Definition SP : chr := 32%N.
Definition no_tabs (s : pstr) : Prop := forallb (fun c => negb (N.eqb c TAB)) s = true.

Inductive tabx : pstr -> pstr -> Prop :=
| tx_nil : tabx [] []
| tx_keep c x x' : tabx x x' -> tabx (c :: x) (c :: x')
| tx_tab k x x' : tabx x x' -> tabx (TAB :: x) (repeat SP (S k) ++ x').

Lemma tabx_refl x : tabx x x.
Proof. induction x; constructor; assumption. Qed.
Lemma tabx_app a a' b b' : tabx a a' -> tabx b b' -> tabx (a ++ b) (a' ++ b').
Proof.
  induction 1 as [|c x x' H IH|k x x' H IH]; intros Hb; cbn [app]; [exact Hb|constructor; auto|].
  rewrite <- app_assoc. constructor. auto.
Qed.

Lemma tabx_expand s : forall col, tabx s (expandtabs_from col s).
Proof.
  induction s as [|c s IH]; intros col; cbn [expandtabs_from]; [constructor|].
  destruct (N.eqb c 9) eqn:E.
  - apply N.eqb_eq in E. subst c. pose proof (Nat.mod_upper_bound col 8 ltac:(lia)) as Hm.
    destruct (8 - col mod 8) as [|k] eqn:Ek; [lia|]. apply (tx_tab k). apply IH.
  - destruct (N.eqb c 10 || N.eqb c 13); constructor; apply IH.
Qed.
Lemma expandtabs_from_no_tabs s : forall col, no_tabs (expandtabs_from col s).
Proof.
  unfold no_tabs. induction s as [|c s IH]; intros col; cbn [expandtabs_from]; [reflexivity|].
  destruct (N.eqb c 9) eqn:E.
  - rewrite forallb_app. rewrite IH, andb_true_r. clear. induction (8 - col mod 8); cbn; auto.
  - destruct (N.eqb c 10 || N.eqb c 13); cbn; unfold TAB; rewrite E, IH; reflexivity.
Qed.
Lemma expandtabs_from_id s : no_tabs s -> forall col, expandtabs_from col s = s.
Proof.
  unfold no_tabs. induction s as [|c s IH]; intros H col; cbn; [reflexivity|].
  cbn in H. apply andb_prop in H as [Hc H]. unfold TAB in Hc. destruct (N.eqb c 9); [discriminate|].
  destruct (N.eqb c 10 || N.eqb c 13); rewrite (IH H); reflexivity.
Qed.
Lemma parse_string_fuel_expand G f text : parse_string_fuel G f text = parse_string_fuel G f (expandtabs text).
Proof.
  unfold parse_string_fuel.
  assert (E : expandtabs (expandtabs text) = expandtabs text).
  { unfold expandtabs at 1. apply expandtabs_from_id. apply expandtabs_from_no_tabs. }
  cbv zeta. rewrite E. reflexivity.
Qed.

(* ---- inversion ---- *)
Lemma tabx_nil_inv X : tabx [] X -> X = [].
Proof. inversion 1. reflexivity. Qed.
Lemma tabx_cons_inv c r X : N.eqb c TAB = false -> tabx (c :: r) X -> exists X', X = c :: X' /\ tabx r X'.
Proof.
  intros Hc H. inversion H; subst.
  - eexists. split; [reflexivity|assumption].
  - discriminate.
Qed.
Lemma tabx_app_inv a : forall r X, tabx (a ++ r) X -> exists a' X', X = a' ++ X' /\ tabx a a' /\ tabx r X'.
Proof.
  induction a as [|c a IH]; intros r X H; cbn [app] in H.
  - exists [], X. split; [reflexivity|]. split; [constructor|exact H].
  - inversion H as [|c' x x' Hx|k x x' Hx]; subst.
    + destruct (IH _ _ Hx) as (a' & X' & -> & Ha & Hr). exists (c :: a'), X'. split; [reflexivity|]. split; [constructor; exact Ha|exact Hr].
    + destruct (IH _ _ Hx) as (a' & X' & -> & Ha & Hr). exists (repeat SP (S k) ++ a'), X'. rewrite <- app_assoc.
      split; [reflexivity|]. split; [constructor; exact Ha|exact Hr].
Qed.
Lemma tabx_lex a a' : no_tabs a -> tabx a a' -> a' = a.
Proof.
  intros Hn H. induction H as [|c x x' H IH|k x x' H IH]; [reflexivity| |discriminate].
  unfold no_tabs in Hn. cbn in Hn. apply andb_prop in Hn as [_ Hn]. rewrite (IH Hn). reflexivity.
Qed.
Lemma tabx_lex_app a r X : no_tabs a -> tabx (a ++ r) X -> exists X', X = a ++ X' /\ tabx r X'.
Proof.
  intros Hn H. apply tabx_app_inv in H as (a' & X' & -> & Ha & Hr). rewrite (tabx_lex a a' Hn Ha). eauto.
Qed.

Section WS.
  Variable WS : list chr.
  Hypothesis Htab : memc TAB WS = true.
  Hypothesis Hsp : memc SP WS = true.

  Lemma repeat_sp_blanks k : blanks WS (repeat SP k).
  Proof. unfold blanks. induction k; cbn; [reflexivity|]. rewrite Hsp. exact IHk. Qed.
  Lemma tabx_blanks b b' : blanks WS b -> tabx b b' -> blanks WS b' /\ (b = [] <-> b' = []).
  Proof.
    intros Hb H. induction H as [|c x x' H IH|k x x' H IH].
    - split; [reflexivity|tauto].
    - unfold blanks in *. cbn in *. apply andb_prop in Hb as [Hc Hx]. destruct (IH Hx) as [IH1 _]. rewrite Hc, IH1.
      split; [reflexivity|split; discriminate].
    - unfold blanks in Hb. cbn in Hb. apply andb_prop in Hb as [_ Hx]. destruct (IH Hx) as [IH1 _].
      split; [apply blanks_app; [apply repeat_sp_blanks|exact IH1]|split; discriminate].
  Qed.
  Lemma tabx_blanks_app b r X : blanks WS b -> tabx (b ++ r) X ->
    exists b' X', X = b' ++ X' /\ blanks WS b' /\ (b = [] <-> b' = []) /\ tabx r X'.
  Proof.
    intros Hb H. apply tabx_app_inv in H as (b' & X' & -> & Hbb & Hr). destruct (tabx_blanks b b' Hb Hbb) as [H1 H2].
    exists b', X'. auto.
  Qed.

  (* the first character: unchanged, or a tab that became a blank *)
  Lemma tabx_head r r' : tabx r r' ->
    match r, r' with
    | [], [] => True
    | c :: _, c' :: _ => c' = c \/ (c = TAB /\ c' = SP)
    | _, _ => False
    end.
  Proof. destruct 1; cbn; auto. Qed.
  Lemma tabx_nohead cs r r' : memc SP cs = false -> nohead cs r -> tabx r r' -> nohead cs r'.
  Proof.
    intros Hs Hn H. pose proof (tabx_head r r' H) as Hh. unfold nohead in *.
    destruct r as [|c x], r' as [|c' x']; try contradiction; [exact I|]. destruct Hh as [->|[_ ->]]; [exact Hn|exact Hs].
  Qed.
  Lemma tabx_skip_ws x x' : tabx x x' -> tabx (skip_ws WS x) (skip_ws WS x').
  Proof.
    induction 1 as [|c x x' H IH|k x x' H IH]; [constructor| |].
    - cbn. destruct (memc c WS); [exact IH|constructor; exact H].
    - cbn [skip_ws]. rewrite Htab. rewrite (skip_ws_blanks WS (repeat SP (S k)) x' (repeat_sp_blanks _)). exact IH.
  Qed.
  Lemma tabx_no_nl a a' : no_nl a -> tabx a a' -> no_nl a'.
  Proof.
    intros Hn H. induction H as [|c x x' H IH|k x x' H IH]; [reflexivity| |].
    - unfold no_nl in *. cbn in *. apply andb_prop in Hn as [Hc Hx]. rewrite Hc, (IH Hx). reflexivity.
    - unfold no_nl in *. cbn in Hn. rewrite forallb_app. apply andb_true_iff. split; [|exact (IH Hn)].
      clear. induction (S k); cbn; auto.
  Qed.
End WS.

Lemma tabx_concat_inv ls : forall X, tabx (concat ls) X -> exists ls', X = concat ls' /\ Forall2 tabx ls ls'.
Proof.
  induction ls as [|l ls IH]; intros X H; cbn in H.
  - apply tabx_nil_inv in H. subst. exists []. split; [reflexivity|constructor].
  - apply tabx_app_inv in H as (l' & X' & -> & Hl & Hr). destruct (IH _ Hr) as (ls' & -> & Hf).
    exists (l' :: ls'). split; [reflexivity|constructor; assumption].
Qed.

(* ---- statement ends are stable under tab expansion ---- *)
Section Ends.
  Variable g : list node.
  Variable c : nat.
  Variable WS : list chr.
  Hypothesis Hc : comment_ok g c WS = true.
  Hypothesis Htab : memc TAB WS = true.
  Hypothesis Hsp : memc SP WS = true.

  Lemma skip_ws_split s : exists b, s = b ++ skip_ws WS s /\ blanks WS b.
  Proof.
    induction s as [|d s (b & E & Hb)]; [exists []; split; reflexivity|]. cbn.
    destruct (memc d WS) eqn:Ed; [|exists []; split; reflexivity].
    exists (d :: b). unfold blanks in *. cbn. rewrite Ed, Hb. split; [f_equal; exact E|reflexivity].
  Qed.
  Lemma upto_nl_parts s : s = fst (upto_nl s) ++ snd (upto_nl s) /\ no_nl (fst (upto_nl s)).
  Proof.
    unfold no_nl. induction s as [|d s [E H]]; cbn; [split; reflexivity|]. destruct (N.eqb d NL) eqn:Ed; cbn; [split; reflexivity|].
    destruct (upto_nl s) as [a b]. cbn in *. rewrite Ed, H. split; [f_equal; exact E|reflexivity].
  Qed.

  (* the shapes of a blank line and of a final line *)
  Lemma blank_line_inv l : blank_line WS l ->
    exists b, blanks WS b /\ (l = b ++ [NL] \/ exists cm, l = b ++ HASH :: cm ++ [NL] /\ no_nl cm).
  Proof.
    intros H. specialize (H []). rewrite app_nil_r in H.
    destruct (skip_ws_split l) as (b & El & Hb). exists b. split; [exact Hb|].
    pose proof (skip_ws_head WS l) as Hh. set (l1 := skip_ws WS l) in *. rewrite El in H. rewrite (std_pre_blanks WS b l1 Hb) in H.
    destruct l1 as [|d r]; [discriminate|]. cbn in Hh. destruct (N.eqb d HASH) eqn:Ed.
    - apply N.eqb_eq in Ed. subst d. right. unfold std_pre, std_skip_ign in H. rewrite (skip_ws_stop WS HASH r Hh) in H.
      cbv beta iota in H. rewrite N.eqb_refl in H. destruct (upto_nl_parts r) as [Er Hcm].
      pose proof (upto_nl_head r) as Hd. destruct (snd (upto_nl r)) as [|d s] eqn:Es; [discriminate|]. subst d.
      rewrite (skip_ws_stop WS NL s (ws_no_nl g c WS Hc)) in H. injection H as ->.
      exists (fst (upto_nl r)). split; [rewrite El; f_equal; f_equal; exact Er|exact Hcm].
    - left. rewrite (std_pre_stop WS d r Hh Ed) in H. injection H as -> ->. exact El.
  Qed.
  Lemma final_line_inv E : std_pre WS E = [] ->
    exists b, blanks WS b /\ (E = b \/ exists cm, E = b ++ HASH :: cm /\ no_nl cm).
  Proof.
    intros H. destruct (skip_ws_split E) as (b & El & Hb). exists b. split; [exact Hb|].
    pose proof (skip_ws_head WS E) as Hh. set (l1 := skip_ws WS E) in *. rewrite El in H. rewrite (std_pre_blanks WS b l1 Hb) in H.
    destruct l1 as [|d r]; [left; rewrite El, app_nil_r; reflexivity|]. cbn in Hh. destruct (N.eqb d HASH) eqn:Ed.
    - apply N.eqb_eq in Ed. subst d. right. unfold std_pre, std_skip_ign in H. rewrite (skip_ws_stop WS HASH r Hh) in H.
      cbv beta iota in H. rewrite N.eqb_refl in H. destruct (upto_nl_parts r) as [Er Hcm].
      pose proof (upto_nl_head r) as Hd. destruct (snd (upto_nl r)) as [|d s] eqn:Es.
      + exists (fst (upto_nl r)). rewrite app_nil_r in Er. split; [rewrite El; f_equal; f_equal; exact Er|exact Hcm].
      + subst d. rewrite (skip_ws_stop WS NL s (ws_no_nl g c WS Hc)) in H. discriminate.
    - rewrite (std_pre_stop WS d r Hh Ed) in H. discriminate.
  Qed.

  Lemma tabx_blank_line l l' : blank_line WS l -> tabx l l' -> blank_line WS l'.
  Proof.
    intros H Hx. destruct (blank_line_inv l H) as (b & Hb & [->|(cm & -> & Hcm)]).
    - apply (tabx_blanks_app WS Hsp) in Hx as (b' & X' & -> & Hb' & _ & Hr); [|exact Hb].
      apply tabx_lex in Hr; [|reflexivity]. subst. apply (blank_line_plain g c WS Hc). exact Hb'.
    - apply (tabx_blanks_app WS Hsp) in Hx as (b' & X' & -> & Hb' & _ & Hr); [|exact Hb].
      apply tabx_cons_inv in Hr as (X2 & -> & Hr); [|reflexivity].
      apply tabx_app_inv in Hr as (cm' & X3 & -> & Hcm' & Hr). apply tabx_lex in Hr; [|reflexivity]. subst.
      apply (blank_line_comment g c WS Hc); [exact Hb'|exact (tabx_no_nl cm cm' Hcm Hcm')].
  Qed.
  Lemma tabx_stmt_end E E' : stmt_end WS E [] -> tabx E E' -> stmt_end WS E' [].
  Proof.
    intros [(l & ls & -> & Hl & Hls & Hk)|(_ & HE)] Hx.
    - left. apply tabx_app_inv in Hx as (l' & X' & -> & Hl' & Hr). apply tabx_concat_inv in Hr as (ls' & -> & Hf).
      exists l', ls'. split; [reflexivity|]. split; [exact (tabx_blank_line l l' Hl Hl')|]. split; [|exact Hk].
      clear - Hls Hf Hc Htab Hsp. induction Hf as [|x x' r r' Hx Hr IH]; [constructor|]. inversion Hls; subst.
      constructor; [exact (tabx_blank_line x x' H1 Hx)|exact (IH H2)].
    - right. split; [reflexivity|]. destruct (final_line_inv E HE) as (b & Hb & [->|(cm & -> & Hcm)]).
      + destruct (tabx_blanks WS Hsp b E' Hb Hx) as [Hb' _]. rewrite <- (app_nil_r E'). rewrite (std_pre_blanks WS E' [] Hb'). reflexivity.
      + apply (tabx_blanks_app WS Hsp) in Hx as (b' & X' & -> & Hb' & _ & Hr); [|exact Hb].
        apply tabx_cons_inv in Hr as (X2 & -> & Hr); [|reflexivity].
        rewrite (std_pre_blanks WS b' _ Hb'). apply (std_pre_comment_eof g c WS Hc). exact (tabx_no_nl cm X2 Hcm Hr).
  Qed.
End Ends.
