(* C19: argument forms of the seesaw dialect as derived rules: number sets {N, N, ...},
   output sets {N|f, ...}, concentrations  NUMBER * c, gates g[..], thresholds th[..], Fluor[N]. *)
From Coq Require Import List NArith Bool Arith Lia.
From DSD Require Import Base.Str Base.Errors Base.Val Model.Peg Model.DispatchPeg Proofs.PegMono Proofs.PegRules Proofs.PegStd
  Proofs.PegDoc Proofs.PegKw Proofs.PegNum Proofs.PegList Proofs.C13Doc Proofs.C19Doc Proofs.C19Lex Proofs.C19Io.
From DSDGen Require Import SeesawGrammar.
Import ListNotations.

Ltac norm_text := repeat (rewrite <- app_assoc || rewrite <- app_comm_cons).
Ltac slk' := try unfold plainW, plainL; slk.

(* ---------------------------------------------------------------- number | f at any such node *)
Lemma sw_nf_at full mf lf (cp : bool) x m r :
  nth_error GS mf = Some (mkNode KFirst [17; lf] true WSs [ssw_c] false []) ->
  nth_error GS lf = Some (mkNode (KLit [102%N]) [] true WSs [ssw_c] true []) ->
  nf_ok m -> sspre x = nf_text m ++ r -> nohead sdigit r ->
  evals GS full mf cp (At x) (POk (At r) [TStr (nf_text m)]).
Proof.
  intros Hmf Hlf Hm Hx Hr. destruct m as [n|]; cbn [nf_text nf_ok] in *.
  - destruct Hm as (H0 & Hs). eapply evals_eq.
    + eapply evals_node_ok; [exact Hmf|rewrite andb_false_r; reflexivity|]. apply impls_first; [reflexivity|]. cbn [nkids].
      apply firsts_hit. apply (sw_number full true x (n_d0 n) (n_ds n) r Hx H0 Hs Hr).
    + reflexivity.
  - eapply evals_eq.
    + eapply evals_node_ok; [exact Hmf|rewrite andb_false_r; reflexivity|]. apply impls_first; [reflexivity|]. cbn [nkids].
      eapply firsts_miss; [apply (sw_number_fail full true x); cbn beta iota; rewrite Hx; reflexivity|].
      apply firsts_hit.
      eapply evals_eq; [apply (evals_lit GS full ssw_c WSs ssw_comment_ok lf true true _ _ Hlf)|].
      cbn [andb]. rewrite Hx. unfold lit_res. cbn [starts_with app]. rewrite N.eqb_refl. reflexivity.
    + reflexivity.
Qed.

(* ---------------------------------------------------------------- sets *)
Section SetOf.
  Variable elem : Type.
  Variable elem_text : elem -> pstr.
  Variable elem_ok : elem -> Prop.
  Variable el : nat.
  Hypothesis Hel : forall full (cp : bool) x e rest, elem_ok e ->
    (if cp then sspre x else x) = elem_text e ++ rest -> nohead sdigit rest ->
    evals GS full el cp (At x) (POk (At rest) [TStr (elem_text e)]).
  Hypothesis Hel_head : forall e, elem_ok e -> exists d0 z, elem_text e = d0 :: z /\ sstopc d0 = true.
  Variables gr ga so lo dl an zm an2 sc lit scl lcl : nat.
  Hypothesis Hgr : nth_error GS gr = Some (mkNode KGroup [ga] true WSs [ssw_c] true []).
  Hypothesis Hga : nth_error GS ga = Some (mkNode KAnd [so; dl; scl] true WSs [ssw_c] true []).
  Hypothesis Hso : nth_error GS so = Some (mkNode KSuppress [lo] true WSs [ssw_c] true []).
  Hypothesis Hlo : nth_error GS lo = Some (mkNode (KLit [123%N]) [] true WSs [ssw_c] true []).
  Hypothesis Hdl : nth_error GS dl = Some (mkNode KPass [an] true WSs [ssw_c] true []).
  Hypothesis Han : nth_error GS an = Some (mkNode KAnd [el; zm] true WSs [ssw_c] true []).
  Hypothesis Hzm : nth_error GS zm = Some (mkNode (KMany false) [an2] true WSs [ssw_c] true []).
  Hypothesis Han2 : nth_error GS an2 = Some (mkNode KAnd [sc; el] true WSs [ssw_c] true []).
  Hypothesis Hsc : nth_error GS sc = Some (mkNode KSuppress [lit] true WSs [ssw_c] true []).
  Hypothesis Hlit : nth_error GS lit = Some (mkNode (KLit [44%N]) [] true WSs [ssw_c] true []).
  Hypothesis Hscl : nth_error GS scl = Some (mkNode KSuppress [lcl] true WSs [ssw_c] true []).
  Hypothesis Hlcl : nth_error GS lcl = Some (mkNode (KLit [125%N]) [] true WSs [ssw_c] true []).

  Record eset := mkEset { es_bo : pstr; es_e0 : elem; es_ms : list (lmember elem); es_bc : pstr }.
  Definition eset_ok (s : eset) : Prop :=
    blanks WSs (es_bo s) /\ elem_ok (es_e0 s) /\ Forall (lmember_ok WSs elem elem_ok) (es_ms s) /\ blanks WSs (es_bc s).
  Definition eset_text (s : eset) : pstr :=
    123%N :: es_bo s ++ elem_text (es_e0 s) ++ lmembers_text elem elem_text 44%N (es_ms s) (es_bc s ++ [125%N]).
  Definition eset_tok (s : eset) : tok :=
    TList (TStr (elem_text (es_e0 s)) :: map (fun m => TStr (elem_text (lm_e elem m))) (es_ms s)).

  Lemma sw_eset full x s r : eset_ok s -> sspre x = eset_text s ++ r ->
    evals GS full gr true (At x) (POk (At r) [eset_tok s]).
  Proof.
    intros (Hbo & He0 & Hms & Hbc) Hx. unfold eset_text in Hx. revert Hx. norm_text.
    rewrite (lmembers_text_app elem elem_text 44%N). norm_text. intros Hx.
    eapply evals_eq.
    - eapply evals_node_ok; [exact Hgr|apply (pre_premise GS full ssw_c WSs ssw_comment_ok); repeat split|].
      unfold pre_pos. cbn [andb ncallpre]. rewrite Hx.
      eapply impls_wrap; [reflexivity|reflexivity|].
      eapply evals_node_ok; [exact Hga|cbn; reflexivity|].
      eapply impls_and; [reflexivity|reflexivity| |].
      + eapply evals_eq; [apply (evals_slit GS full ssw_c WSs ssw_comment_ok so lo false true true _ _ Hso Hlo)|].
        cbn [andb]. unfold lit_res. cbn [starts_with]. rewrite N.eqb_refl. reflexivity.
      + eapply seqs_cons.
        { apply (ev_dlist GS ssw_c WSs ssw_comment_ok elem elem_text (fun e => TStr (elem_text e)) elem_ok (nohead sdigit) el
                   Hel Hel_head dl an zm an2 sc lit 44%N Hdl Han Hzm Han2 Hsc Hlit eq_refl
                   ltac:(intros b z Hb; apply snohead_blanks; [vm_compute; reflexivity|exact Hb|reflexivity])
                   full true _ (es_e0 s) (es_ms s) (es_bc s ++ 125%N :: r)); [|exact He0|exact Hms|].
          - destruct (Hel_head _ He0) as (d0 & z & E & Hd0). rewrite E. cbn [app].
            apply sspre_blanks_stop; [exact Hbo|exact Hd0].
          - split.
            + apply snohead_blanks; [vm_compute; reflexivity|exact Hbc|reflexivity].
            + rewrite sspre_blanks_stop by (try exact Hbc; reflexivity). reflexivity. }
        eapply seqs_cons; [|apply seqs_nil].
        eapply (sw_slit full scl lcl [125%N]); [exact Hscl|exact Hlcl|].
        rewrite (spre_lzpos GS ssw_c WSs ssw_comment_ok). apply sspre_blanks_stop; [exact Hbc|reflexivity].
    - cbn. rewrite ?app_nil_r. reflexivity.
  Qed.
End SetOf.

(* {N, N, ...} : node 62 *)
Definition nset := eset num.
Definition nset_ok := eset_ok num num_ok.
Definition nset_text := eset_text num num_text.
Definition nset_tok := eset_tok num num_text.
Lemma num_head n : num_ok n -> exists d0 z, num_text n = d0 :: z /\ sstopc d0 = true.
Proof. intros (H0 & _). eexists _, _. split; [reflexivity|apply sdigit_stop; exact H0]. Qed.
Lemma sw_number_elem full (cp : bool) x n rest : num_ok n ->
  (if cp then sspre x else x) = num_text n ++ rest -> nohead sdigit rest ->
  evals GS full 17 cp (At x) (POk (At rest) [TStr (num_text n)]).
Proof. intros (H0 & Hs) Hx Hr. apply (sw_number full cp x (n_d0 n) (n_ds n) rest Hx H0 Hs Hr). Qed.
Lemma sw_nset full x s r : nset_ok s -> sspre x = nset_text s ++ r ->
  evals GS full 62 true (At x) (POk (At r) [nset_tok s]).
Proof.
  apply (sw_eset num num_text num_ok 17 sw_number_elem num_head 62 63 64 65 66 67 68 69 70 71 72 73); slk.
Qed.

(* {N|f, ...} : node 76 *)
Definition oset := eset nf.
Definition oset_ok := eset_ok nf nf_ok.
Definition oset_text := eset_text nf nf_text.
Definition oset_tok := eset_tok nf nf_text.
Lemma nf_head m : nf_ok m -> exists d0 z, nf_text m = d0 :: z /\ sstopc d0 = true.
Proof.
  destruct m as [n|]; cbn; [intros (H0 & _)|intros _]; eexists _, _; (split; [reflexivity|]); [apply sdigit_stop; exact H0|reflexivity].
Qed.
Lemma sw_nf_elem full (cp : bool) x m rest : nf_ok m ->
  (if cp then sspre x else x) = nf_text m ++ rest -> nohead sdigit rest ->
  evals GS full 82 cp (At x) (POk (At rest) [TStr (nf_text m)]).
Proof.
  intros Hm Hx Hr. destruct cp.
  - apply (sw_nf_at full 82 83 true x m rest); try slk; assumption.
  - (* called without preParse at a position that is already pre-parsed *)
    assert (Hsp : sspre x = nf_text m ++ rest).
    { rewrite Hx. destruct (nf_head m Hm) as (d0 & z & E & Hd0). rewrite E. cbn [app].
      apply PegStd.stopc_elim in Hd0 as (H1 & H2 & _). apply (std_pre_stop WSs); assumption. }
    apply (sw_nf_at full 82 83 false x m rest); try slk; assumption.
Qed.
Lemma sw_oset full x s r : oset_ok s -> sspre x = oset_text s ++ r ->
  evals GS full 76 true (At x) (POk (At r) [oset_tok s]).
Proof.
  apply (sw_eset nf nf_text nf_ok 82 sw_nf_elem nf_head 76 77 78 79 80 81 84 85 86 87 88 89); slk.
Qed.

(* ---------------------------------------------------------------- concentrations: NUMBER * c *)
Notation sgnum_ok := (gnum_ok sdigit).
Lemma sw_gorf full x n r : sspre x = gnum_text n ++ r -> sgnum_ok n -> num_follow sdigit r ->
  evals GS full 98 true (At x) (POk (At r) [TStr (gnum_text n)]).
Proof.
  intros Hx Hn Hr. eapply evals_eq.
  - eapply evals_node_ok; [slk|cbn; reflexivity|]. apply impls_first; [reflexivity|]. cbn [nkids].
    apply (firsts_gorf GS full ssw_c WSs ssw_comment_ok sdigit eq_refl eq_refl eq_refl eq_refl
             99 100 101 102 103 104 105 106 107 108 109 110 111 112 113 114 115 116 117 118); try slk'; [exact Hx|exact Hn|exact Hr].
  - reflexivity.
Qed.
Lemma sw_gorf_fail full x : nohead sdigit (sspre x) -> evals GS full 98 true (At x) PFail.
Proof.
  intros Hx.
  destruct (firsts_gorf_fail GS full ssw_c WSs ssw_comment_ok sdigit 99 100 101 102 106 107 111 112 113 114 115
              ltac:(slk') ltac:(slk') ltac:(slk') ltac:(slk') ltac:(slk') ltac:(slk') x Hx) as (H1 & H2).
  eapply evals_node_fail; [slk|cbn; reflexivity|]. apply impls_first; [reflexivity|]. cbn [nkids].
  eapply firsts_miss; [exact H1|]. eapply firsts_miss; [exact H2|apply firsts_nil].
Qed.

Record sconc := mkSconc { sc_n : gnum; sc_b1 : pstr; sc_b2 : pstr }.
Definition sconc_ok (q : sconc) : Prop := sgnum_ok (sc_n q) /\ blanks WSs (sc_b1 q) /\ blanks WSs (sc_b2 q).
Definition sconc_text (q : sconc) : pstr := gnum_text (sc_n q) ++ sc_b1 q ++ 42%N :: sc_b2 q ++ [99%N].
Lemma gnum_head n : sgnum_ok n -> sstopc (g_i0 n) = true.
Proof. intros (H0 & _). apply sdigit_stop. exact H0. Qed.

(* gorf ; Suppress('*' 'c') *)
Lemma seqs_sconc full b q r ks acc res :
  blanks WSs b -> sconc_ok q ->
  seqs GS full ks (At r) (acc ++ [TStr (gnum_text (sc_n q))]) res ->
  seqs GS full (98 :: 119 :: ks) (At (b ++ sconc_text q ++ r)) acc res.
Proof.
  intros Hb (Hn & Hb1 & Hb2) Hks. unfold sconc_text. norm_text.
  eapply seqs_cons.
  { apply (sw_gorf full _ (sc_n q) (sc_b1 q ++ 42%N :: sc_b2 q ++ 99%N :: r)); [|exact Hn|].
    - unfold gnum_text. norm_text. apply sspre_blanks_stop; [exact Hb|apply gnum_head; exact Hn].
    - unfold num_follow. apply snohead_blanks; [vm_compute; reflexivity|exact Hb1|reflexivity]. }
  eapply seqs_cons.
  { eapply evals_eq.
    - eapply evals_node_ok; [slk|apply (pre_premise GS full ssw_c WSs ssw_comment_ok); repeat split|].
      unfold pre_pos. cbn [andb ncallpre]. rewrite sspre_blanks_stop by (try exact Hb1; reflexivity).
      eapply impls_wrap; [reflexivity|reflexivity|].
      eapply evals_node_ok; [slk|cbn; reflexivity|].
      eapply impls_and; [reflexivity|reflexivity| |].
      + eapply evals_eq; [apply (evals_lit GS full ssw_c WSs ssw_comment_ok 121 false true); slk|].
        cbn [andb]. unfold lit_res. cbn [starts_with]. rewrite N.eqb_refl. reflexivity.
      + eapply seqs_cons; [|apply seqs_nil].
        eapply evals_eq; [apply (evals_lit GS full ssw_c WSs ssw_comment_ok 122 true true); slk|].
        cbn [andb]. rewrite sspre_blanks_stop by (try exact Hb2; reflexivity).
        unfold lit_res. cbn [starts_with]. rewrite N.eqb_refl. reflexivity.
    - reflexivity. }
  rewrite app_nil_r. exact Hks.
Qed.

(* ---------------------------------------------------------------- gates and thresholds *)
Lemma sw_wire_fail full x : nohead [119%N] (sspre x) -> evals GS full 23 true (At x) PFail.
Proof.
  intros Hx.
  eapply evals_node_fail; [slk|apply (pre_premise GS full ssw_c WSs ssw_comment_ok); repeat split|].
  unfold pre_pos. cbn [andb ncallpre].
  eapply impls_wrap; [reflexivity|reflexivity|].
  eapply evals_node_fail; [slk|cbn; reflexivity|].
  eapply impls_and_fail; [reflexivity|reflexivity|].
  eapply evals_eq; [apply (evals_lit GS full ssw_c WSs ssw_comment_ok 25 false true); slk|].
  cbn [andb]. unfold lit_res. rw_alias (starts_with_nohead' 119%N [] _ Hx). reflexivity.
Qed.

Record gate := mkGate { gt_wire_first : bool; gt_w : wire; gt_n : num;
                        gt_b1 : pstr; gt_b2 : pstr; gt_b3 : pstr; gt_b4 : pstr; gt_b5 : pstr }.
Definition gate_ok (t : gate) : Prop :=
  wire_ok (gt_w t) /\ num_ok (gt_n t) /\
  blanks WSs (gt_b1 t) /\ blanks WSs (gt_b2 t) /\ blanks WSs (gt_b3 t) /\ blanks WSs (gt_b4 t) /\ blanks WSs (gt_b5 t).
Definition gate_text (kw : pstr) (t : gate) : pstr :=
  kw ++ gt_b1 t ++ 91%N :: gt_b2 t ++
  (if gt_wire_first t then wire_text (gt_w t) else num_text (gt_n t)) ++ gt_b3 t ++ 44%N :: gt_b4 t ++
  (if gt_wire_first t then num_text (gt_n t) else wire_text (gt_w t)) ++ gt_b5 t ++ [93%N].
Definition gate_tok (kw : pstr) (t : gate) : tok :=
  TList [TStr kw; TList (if gt_wire_first t then [wire_tree (gt_w t); TStr (num_text (gt_n t))]
                         else [TStr (num_text (gt_n t)); wire_tree (gt_w t)])].

Section Gate.
  Variable kw : pstr.
  Variable k0 : chr. Variable krest : pstr.
  Hypothesis Hkw : kw = k0 :: krest.
  Hypothesis Hk0 : sstopc k0 = true.
  Variables gr ga lk so lo gi gia e1 sc lit e2 scl lcl : nat.
  Hypothesis Hgr : nth_error GS gr = Some (mkNode KGroup [ga] true WSs [ssw_c] true []).
  Hypothesis Hga : nth_error GS ga = Some (mkNode KAnd [lk; so; gi; scl] true WSs [ssw_c] true []).
  Hypothesis Hlk : nth_error GS lk = Some (mkNode (KLit kw) [] true WSs [ssw_c] true []).
  Hypothesis Hso : nth_error GS so = Some (mkNode KSuppress [lo] true WSs [ssw_c] true []).
  Hypothesis Hlo : nth_error GS lo = Some (mkNode (KLit [91%N]) [] true WSs [ssw_c] true []).
  Hypothesis Hgi : nth_error GS gi = Some (mkNode KGroup [gia] true WSs [ssw_c] true []).
  Hypothesis Hgia : nth_error GS gia = Some (mkNode KAnd [e1; sc; e2] true WSs [ssw_c] true []).
  Hypothesis Hsc : nth_error GS sc = Some (mkNode KSuppress [lit] true WSs [ssw_c] true []).
  Hypothesis Hlit : nth_error GS lit = Some (mkNode (KLit [44%N]) [] true WSs [ssw_c] true []).
  Hypothesis Hscl : nth_error GS scl = Some (mkNode KSuppress [lcl] true WSs [ssw_c] true []).
  Hypothesis Hlcl : nth_error GS lcl = Some (mkNode (KLit [93%N]) [] true WSs [ssw_c] true []).

  (* the form g[wire, N]: e1 = wire (23), e2 = number (17) *)
  Lemma sw_gate_wn full x t r : e1 = 23 -> e2 = 17 -> gt_wire_first t = true -> gate_ok t ->
    sspre x = gate_text kw t ++ r -> evals GS full gr true (At x) (POk (At r) [gate_tok kw t]).
  Proof.
    intros -> -> Hwf (Hw & (Hn0 & Hns) & Hb1 & Hb2 & Hb3 & Hb4 & Hb5) Hx.
    unfold gate_text, gate_tok in *. rewrite Hwf in *. revert Hx. unfold num_text. norm_text. cbn [app]. intros Hx.
    eapply evals_eq.
    - eapply evals_node_ok; [exact Hgr|apply (pre_premise GS full ssw_c WSs ssw_comment_ok); repeat split|].
      unfold pre_pos. cbn [andb ncallpre]. rewrite Hx.
      eapply impls_wrap; [reflexivity|reflexivity|].
      eapply evals_node_ok; [exact Hga|cbn; reflexivity|].
      eapply impls_and; [reflexivity|reflexivity| |].
      + eapply evals_eq; [apply (evals_lit GS full ssw_c WSs ssw_comment_ok lk false true kw _ Hlk)|].
        cbn [andb]. unfold lit_res. rewrite starts_with_app. reflexivity.
      + eapply seqs_cons.
        { eapply (sw_slit full so lo [91%N]); [exact Hso|exact Hlo|]. apply sspre_blanks_stop; [exact Hb1|reflexivity]. }
        eapply seqs_cons.
        { eapply evals_eq.
          - eapply evals_node_ok; [exact Hgi|apply (pre_premise GS full ssw_c WSs ssw_comment_ok); repeat split|].
            unfold pre_pos. cbn [andb ncallpre].
            eapply impls_wrap; [reflexivity|reflexivity|].
            eapply evals_node_ok; [exact Hgia|cbn; reflexivity|].
            eapply impls_and; [reflexivity|reflexivity| |].
            + eapply (sw_wire full false _ (gt_w t)); [exact Hw|]. cbn beta iota.
              rewrite (std_pre_blanks WSs _ _ Hb2). unfold wire_text. cbn [app].
              apply (std_pre_stop WSs); reflexivity.
            + eapply seqs_cons.
              { eapply (sw_slit full sc lit [44%N]); [exact Hsc|exact Hlit|]. apply sspre_blanks_stop; [exact Hb3|reflexivity]. }
              eapply seqs_cons; [|apply seqs_nil].
              eapply (sw_number full true _ (n_d0 (gt_n t)) (n_ds (gt_n t))); [|exact Hn0|exact Hns|].
              * apply sspre_blanks_stop; [exact Hb4|apply sdigit_stop; exact Hn0].
              * apply snohead_blanks; [vm_compute; reflexivity|exact Hb5|reflexivity].
          - reflexivity. }
        eapply seqs_cons; [|apply seqs_nil].
        eapply (sw_slit full scl lcl [93%N]); [exact Hscl|exact Hlcl|]. apply sspre_blanks_stop; [exact Hb5|reflexivity].
    - reflexivity.
  Qed.

  (* the form g[N, wire]: e1 = number (17), e2 = wire (23) *)
  Lemma sw_gate_nw full x t r : e1 = 17 -> e2 = 23 -> gt_wire_first t = false -> gate_ok t ->
    sspre x = gate_text kw t ++ r -> evals GS full gr true (At x) (POk (At r) [gate_tok kw t]).
  Proof.
    intros -> -> Hwf (Hw & (Hn0 & Hns) & Hb1 & Hb2 & Hb3 & Hb4 & Hb5) Hx.
    unfold gate_text, gate_tok in *. rewrite Hwf in *. revert Hx. unfold num_text. norm_text. cbn [app]. intros Hx.
    eapply evals_eq.
    - eapply evals_node_ok; [exact Hgr|apply (pre_premise GS full ssw_c WSs ssw_comment_ok); repeat split|].
      unfold pre_pos. cbn [andb ncallpre]. rewrite Hx.
      eapply impls_wrap; [reflexivity|reflexivity|].
      eapply evals_node_ok; [exact Hga|cbn; reflexivity|].
      eapply impls_and; [reflexivity|reflexivity| |].
      + eapply evals_eq; [apply (evals_lit GS full ssw_c WSs ssw_comment_ok lk false true kw _ Hlk)|].
        cbn [andb]. unfold lit_res. rewrite starts_with_app. reflexivity.
      + eapply seqs_cons.
        { eapply (sw_slit full so lo [91%N]); [exact Hso|exact Hlo|]. apply sspre_blanks_stop; [exact Hb1|reflexivity]. }
        eapply seqs_cons.
        { eapply evals_eq.
          - eapply evals_node_ok; [exact Hgi|apply (pre_premise GS full ssw_c WSs ssw_comment_ok); repeat split|].
            unfold pre_pos. cbn [andb ncallpre].
            rewrite sspre_blanks_stop by (try exact Hb2; apply sdigit_stop; exact Hn0).
            eapply impls_wrap; [reflexivity|reflexivity|].
            eapply evals_node_ok; [exact Hgia|cbn; reflexivity|].
            eapply impls_and; [reflexivity|reflexivity| |].
            + apply (sw_number full false _ (n_d0 (gt_n t)) (n_ds (gt_n t)) _ eq_refl Hn0 Hns).
              apply snohead_blanks; [vm_compute; reflexivity|exact Hb3|reflexivity].
            + eapply seqs_cons.
              { eapply (sw_slit full sc lit [44%N]); [exact Hsc|exact Hlit|]. apply sspre_blanks_stop; [exact Hb3|reflexivity]. }
              eapply seqs_cons; [|apply seqs_nil].
              eapply (sw_wire full true _ (gt_w t)); [exact Hw|]. cbn beta iota.
              rewrite (std_pre_blanks WSs _ _ Hb4). unfold wire_text. cbn [app]. apply (std_pre_stop WSs); reflexivity.
          - reflexivity. }
        eapply seqs_cons; [|apply seqs_nil].
        eapply (sw_slit full scl lcl [93%N]); [exact Hscl|exact Hlcl|]. apply sspre_blanks_stop; [exact Hb5|reflexivity].
    - reflexivity.
  Qed.

  (* the wire-first form refuses a text whose first argument is a number; both forms refuse another keyword *)
  Lemma sw_gate_wn_fail full x t r : e1 = 23 -> gt_wire_first t = false -> gate_ok t ->
    sspre x = gate_text kw t ++ r -> evals GS full gr true (At x) PFail.
  Proof.
    intros -> Hwf (Hw & (Hn0 & Hns) & Hb1 & Hb2 & Hb3 & Hb4 & Hb5) Hx.
    unfold gate_text in *. rewrite Hwf in *. revert Hx. unfold num_text. norm_text. cbn [app]. intros Hx.
    eapply evals_node_fail; [exact Hgr|apply (pre_premise GS full ssw_c WSs ssw_comment_ok); repeat split|].
    unfold pre_pos. cbn [andb ncallpre]. rewrite Hx.
    eapply impls_wrap; [reflexivity|reflexivity|].
    eapply evals_node_fail; [exact Hga|cbn; reflexivity|].
    eapply impls_and; [reflexivity|reflexivity| |].
    - eapply evals_eq; [apply (evals_lit GS full ssw_c WSs ssw_comment_ok lk false true kw _ Hlk)|].
      cbn [andb]. unfold lit_res. rewrite starts_with_app. reflexivity.
    - eapply seqs_cons.
      { eapply (sw_slit full so lo [91%N]); [exact Hso|exact Hlo|]. apply sspre_blanks_stop; [exact Hb1|reflexivity]. }
      apply seqs_fail.
      eapply evals_node_fail; [exact Hgi|apply (pre_premise GS full ssw_c WSs ssw_comment_ok); repeat split|].
      unfold pre_pos. cbn [andb ncallpre].
      rewrite sspre_blanks_stop by (try exact Hb2; apply sdigit_stop; exact Hn0).
      eapply impls_wrap; [reflexivity|reflexivity|].
      eapply evals_node_fail; [exact Hgia|cbn; reflexivity|].
      eapply impls_and_fail; [reflexivity|reflexivity|].
      (* the wire, called without preParse, fails at 'w' *)
      eapply evals_node_fail; [slk|cbn; reflexivity|].
      eapply impls_wrap; [reflexivity|reflexivity|].
      eapply evals_node_fail; [slk|cbn; reflexivity|].
      eapply impls_and_fail; [reflexivity|reflexivity|].
      eapply evals_eq; [apply (evals_lit GS full ssw_c WSs ssw_comment_ok 25 false true); slk|].
      cbn [andb]. unfold lit_res. cbn [starts_with].
      destruct (N.eqb_spec 119 (n_d0 (gt_n t))) as [e|]; [rewrite <- e in Hn0; discriminate|reflexivity].
  Qed.
  Lemma sw_gate_kw_fail full x : starts_with kw (sspre x) = None -> evals GS full gr true (At x) PFail.
  Proof.
    intros Hx.
    eapply evals_node_fail; [exact Hgr|apply (pre_premise GS full ssw_c WSs ssw_comment_ok); repeat split|].
    unfold pre_pos. cbn [andb ncallpre].
    eapply impls_wrap; [reflexivity|reflexivity|].
    eapply evals_node_fail; [exact Hga|cbn; reflexivity|].
    eapply impls_and_fail; [reflexivity|reflexivity|].
    eapply evals_eq; [apply (evals_lit GS full ssw_c WSs ssw_comment_ok lk false true kw _ Hlk)|].
    cbn [andb]. unfold lit_res. rewrite Hx. reflexivity.
  Qed.
End Gate.

(* ---------------------------------------------------------------- Fluor[N] *)
Record fluor := mkFluor { fl_n : num; fl_b1 : pstr; fl_b2 : pstr; fl_b3 : pstr }.
Definition fluor_ok (f : fluor) : Prop := num_ok (fl_n f) /\ blanks WSs (fl_b1 f) /\ blanks WSs (fl_b2 f) /\ blanks WSs (fl_b3 f).
Definition fluor_text (f : fluor) : pstr :=
  kw_fluor ++ fl_b1 f ++ 91%N :: fl_b2 f ++ num_text (fl_n f) ++ fl_b3 f ++ [93%N].
Definition fluor_tok (f : fluor) : tok := TList [TStr kw_fluor; TStr (num_text (fl_n f))].
Lemma sw_fluor full x f r : fluor_ok f -> sspre x = fluor_text f ++ r ->
  evals GS full 47 true (At x) (POk (At r) [fluor_tok f]).
Proof.
  intros ((Hn0 & Hns) & Hb1 & Hb2 & Hb3) Hx. unfold fluor_text, kw_fluor, num_text in Hx. revert Hx. norm_text. cbn [app]. intros Hx.
  eapply evals_eq.
  - eapply evals_node_ok; [slk|apply (pre_premise GS full ssw_c WSs ssw_comment_ok); repeat split|].
    unfold pre_pos. cbn [andb ncallpre]. rewrite Hx.
    eapply impls_wrap; [reflexivity|reflexivity|].
    eapply evals_node_ok; [slk|cbn; reflexivity|].
    eapply impls_and; [reflexivity|reflexivity| |].
    + eapply evals_eq; [apply (evals_lit GS full ssw_c WSs ssw_comment_ok 49 false true); slk|].
      cbn [andb]. unfold lit_res. cbn [starts_with]. rewrite !N.eqb_refl. reflexivity.
    + eapply seqs_cons.
      { eapply (sw_slit full 50 51 [91%N]); [slk|slk|]. apply sspre_blanks_stop; [exact Hb1|reflexivity]. }
      eapply seqs_cons.
      { eapply (sw_number full true _ (n_d0 (fl_n f)) (n_ds (fl_n f))); [|exact Hn0|exact Hns|].
        - apply sspre_blanks_stop; [exact Hb2|apply sdigit_stop; exact Hn0].
        - apply snohead_blanks; [vm_compute; reflexivity|exact Hb3|reflexivity]. }
      eapply seqs_cons; [|apply seqs_nil].
      eapply (sw_slit full 52 53 [93%N]); [slk|slk|]. apply sspre_blanks_stop; [exact Hb3|reflexivity].
  - reflexivity.
Qed.
Lemma sw_fluor_fail full x : nohead [70%N] (sspre x) -> evals GS full 47 true (At x) PFail.
Proof.
  intros Hx.
  eapply evals_node_fail; [slk|apply (pre_premise GS full ssw_c WSs ssw_comment_ok); repeat split|].
  unfold pre_pos. cbn [andb ncallpre].
  eapply impls_wrap; [reflexivity|reflexivity|].
  eapply evals_node_fail; [slk|cbn; reflexivity|].
  eapply impls_and_fail; [reflexivity|reflexivity|].
  eapply evals_eq; [apply (evals_lit GS full ssw_c WSs ssw_comment_ok 49 false true); slk|].
  cbn [andb]. unfold lit_res. rw_alias (starts_with_nohead' 70%N [108; 117; 111; 114]%N _ Hx). reflexivity.
Qed.
