(* The fuel of the DomainS recursion: a request whose (resolved) name has k trailing stars never runs
   out of fuel when fuel >= k + 3; in particular dom_fuel = 8 suffices for names with at most 5. *)
From Coq Require Import List NArith ZArith Bool Arith Lia.
From DSD Require Import Base.Str Base.Errors Model.ComplexUtils Model.RegStr Model.Heap Model.Registry
  Proofs.RegHeap Proofs.RegInv Proofs.RegCalls Proofs.RegExt Proofs.RegC04 Proofs.RegStep Proofs.RegExamples Proofs.RegFull.
Import ListNotations.

Fixpoint lead (l : list chr) : nat :=
  match l with
  | c :: r => if N.eqb c cStar then S (lead r) else 0
  | [] => 0
  end.
(* number of trailing stars *)
Definition stars (n : pstr) : nat := lead (rev n).

Lemma starred_stars n : starred n = true <-> 1 <= stars n.
Proof.
  unfold starred, stars. destruct (rev n) as [|c r]; cbn [lead]; [split; [discriminate | lia]|].
  destruct (N.eqb c cStar); split; try discriminate; try lia; auto.
Qed.

Lemma stars_cname_starred n : starred n = true -> stars (cname_of n) = stars n - 1.
Proof.
  intros H. unfold cname_of. rewrite H. pose proof (starred_split n H) as E. unfold stars. rewrite E at 2.
  rewrite rev_app_distr. cbn [rev app lead]. rewrite N.eqb_refl. lia.
Qed.

Lemma stars_cname_unstarred n : starred n = false -> stars (cname_of n) = 1.
Proof.
  intros H. rewrite (cname_unstarred n H). unfold stars. rewrite rev_app_distr. cbn [rev app lead]. rewrite N.eqb_refl.
  assert (Z : lead (rev n) = 0).
  { destruct (lead (rev n)) eqn:E; [reflexivity|]. exfalso. assert (S : starred n = true) by (apply starred_stars; unfold stars; lia). congruence. }
  rewrite Z. reflexivity.
Qed.

(* the depth of the recursion for a request (name, length after the dtype defaults) *)
Definition need (nm : pstr) (len1 : option Z) : nat :=
  stars nm + (if negb (starred nm) && negb (is_none len1) then 3 else 1).

Ltac nf := let H := fresh in intros H; vm_compute in H; discriminate H.

Lemma not_fuel_sing : eSingleton <> eFuel. Proof. nf. Qed.
Lemma sing_not_fuel k : is_singleton_err k = true -> k <> eFuel.
Proof. intros H ->. vm_compute in H. discriminate. Qed.

Lemma obj_len_not_fuel h o k : obj_length h o = Err k -> k <> eFuel.
Proof.
  unfold obj_length. destruct (hget h o) as [ob|]; [|intros H; injection H as <-; nf].
  destruct (o_data ob) as [l| | | |]; try (intros H; injection H as <-; nf).
  discriminate.
Qed.

Lemma create_not_fuel ct st c auto name k0 extra children d k e :
  snd (create ct st c auto name k0 extra children d) = CErr k e -> k <> eFuel.
Proof.
  unfold create. destruct (nth_error ct c) as [ci|]; [|cbn [snd]; intros H; injection H as <- _; nf].
  destruct (c_fail ci); unfold alloc; cbn [fst snd]; intros H; try discriminate; injection H as <- _; nf.
Qed.

Lemma finish_not_fuel ct c st auto nm len2 k e : snd (dom_finish ct c st auto nm len2) = CErr k e -> k <> eFuel.
Proof.
  unfold dom_finish. destruct (sing_lookup _ _ _); cbn [snd]; try discriminate.
  - destruct len2; [apply create_not_fuel | cbn [snd]; intros H; injection H as <- _; nf].
  - intros H. injection H as <- _. apply not_fuel_sing.
Qed.

Lemma nested_not_fuel rec st nm len1 k :
  (forall s l' k' e, snd (rec s (cname_of nm) l') = CErr k' e ->
       ((l' = None /\ (starred nm = true \/ len1 <> None)) \/ (starred nm = false /\ l' <> None /\ len1 <> None)) ->
       k' <> eFuel) ->
  snd (dom_nested rec st nm len1) = Err k -> k <> eFuel.
Proof.
  intros HR. unfold dom_nested.
  assert (R1 : (starred nm = true \/ len1 <> None) ->
               forall s k' e, snd (rec s (cname_of nm) None) = CErr k' e -> k' <> eFuel)
    by (intros Hc s k' e E; eapply HR; eauto).
  destruct len1 as [l|]; destruct (starred nm) eqn:ES.
  4:{ cbn [snd]. intros H. discriminate H. }
  1: specialize (R1 (or_introl eq_refl)).
  2: (assert (Hq : Some l <> None) by discriminate; specialize (R1 (or_intror Hq))).
  3: specialize (R1 (or_introl eq_refl)).
  - pose proof (R1 st) as R. destruct (rec st (cname_of nm) None) as [s1 r]. cbn [snd] in R.
    destruct r as [o b|k' e].
    + destruct (obj_length (heap s1) o) eqn:EL; cbn [snd].
      * destruct (Z.eqb a l); [discriminate|]. intros H. injection H as <-. apply not_fuel_sing.
      * intros H. injection H as <-. eapply obj_len_not_fuel; eauto.
    + destruct (is_singleton_err k'); cbn [snd]; [discriminate|]. intros H. injection H as <-. eapply R; eauto.
  - pose proof (R1 st) as R. destruct (rec st (cname_of nm) None) as [s1 r]. cbn [snd] in R.
    destruct r as [o b|k' e].
    + destruct (obj_length (heap s1) o) eqn:EL; cbn [snd]; [|intros H; injection H as <-; eapply obj_len_not_fuel; eauto].
      pose proof (HR (collect s1) (Some l)) as R2. destruct (rec (collect s1) (cname_of nm) (Some l)) as [s2 r2]. cbn [snd] in R2.
      destruct r2 as [o2 b2|k2 e2]; cbn [snd]; [discriminate|].
      destruct (is_singleton_err k2); cbn [snd].
      * destruct (Z.eqb a l); [discriminate|]. intros H. injection H as <-. apply not_fuel_sing.
      * intros H. injection H as <-. apply (R2 k2 e2 eq_refl). right. split; [reflexivity | split; discriminate].
    + destruct (is_singleton_err k'); cbn [snd]; [discriminate|]. intros H. injection H as <-. eapply R; eauto.
  - pose proof (R1 st) as R. destruct (rec st (cname_of nm) None) as [s1 r]. cbn [snd] in R. destruct r as [o b|k' e].
    + destruct (obj_length (heap s1) o) eqn:EL; cbn [snd]; [discriminate|]. intros H. injection H as <-. eapply obj_len_not_fuel; eauto.
    + destruct (is_singleton_err k'); cbn [snd]; [discriminate|]. intros H. injection H as <-. eapply R; eauto.
Qed.

Theorem no_fuel f : forall ct c st name len prefix dtype k e,
  (forall ci nm len1, nth_error ct c = Some ci -> resolve_name ct st c ci name prefix = Ok nm ->
                      dom_len1 ci len dtype = Ok len1 -> need nm len1 <= S f) ->
  snd (dom_call (S f) ct c st name len prefix dtype) = CErr k e -> k <> eFuel.
Proof.
  induction f as [|f IH]; intros ct c st name len prefix dtype k e HN.
  - (* fuel 1: only requests without a nested call *)
    rewrite dom_call_S. unfold dom_body. destruct (nth_error ct c) as [ci|] eqn:Eci; [|cbn [snd]; intros H; injection H as <- _; nf].
    destruct (resolve_name ct st c ci name prefix) as [nm|kk] eqn:En.
    2:{ cbn [snd]. intros H. injection H as <- _. unfold resolve_name in En. destruct name; [discriminate|].
        destruct (class_id ct st c); [discriminate|]. injection En as <-. nf. }
    destruct (dom_len1 ci len dtype) as [len1|kk] eqn:El.
    2:{ cbn [snd]. intros H. injection H as <- _. unfold dom_len1 in El. destruct len; [|discriminate].
        destruct (_ && _); [|discriminate]. injection El as <-. nf. }
    destruct (negb (nonempty nm)); [cbn [snd]; intros H; injection H as <- _; nf|].
    pose proof (HN ci nm len1 eq_refl En El) as Hn. unfold need in Hn.
    assert (S0 : starred nm = false).
    { destruct (starred nm) eqn:E; [|reflexivity]. apply starred_stars in E. destruct (negb true && _); lia. }
    rewrite S0 in Hn. cbn [negb andb] in Hn. destruct len1 as [l|]; [cbn in Hn; lia|].
    unfold dom_nested. rewrite S0. cbn [fst snd]. apply finish_not_fuel.
  - rewrite dom_call_S. unfold dom_body. destruct (nth_error ct c) as [ci|] eqn:Eci; [|cbn [snd]; intros H; injection H as <- _; nf].
    destruct (resolve_name ct st c ci name prefix) as [nm|kk] eqn:En.
    2:{ cbn [snd]. intros H. injection H as <- _. unfold resolve_name in En. destruct name; [discriminate|].
        destruct (class_id ct st c); [discriminate|]. injection En as <-. nf. }
    destruct (dom_len1 ci len dtype) as [len1|kk] eqn:El.
    2:{ cbn [snd]. intros H. injection H as <- _. unfold dom_len1 in El. destruct len; [|discriminate].
        destruct (_ && _); [|discriminate]. injection El as <-. nf. }
    destruct (negb (nonempty nm)); [cbn [snd]; intros H; injection H as <- _; nf|].
    pose proof (HN ci nm len1 eq_refl En El) as Hn.
    set (rec := fun st' n l => dom_call (S f) ct c st' (Some n) l None None).
    assert (HR : forall s l' k' e', snd (rec s (cname_of nm) l') = CErr k' e' ->
                   ((l' = None /\ (starred nm = true \/ len1 <> None)) \/ (starred nm = false /\ l' <> None /\ len1 <> None)) ->
                   k' <> eFuel).
    { intros s l' k' e' E Hl. unfold rec in E. apply (IH ct c s (Some (cname_of nm)) l' None None k' e'); [|exact E].
      intros ci' nm' len1' Eci' En' El'. cbn [resolve_name] in En'. injection En' as <-. rewrite dom_len1_none in El'. injection El' as <-.
      unfold need in *. destruct (starred nm) eqn:ES.
      - rewrite (stars_cname_starred nm ES). apply starred_stars in ES.
        destruct Hl as [[-> _]|[Hc _]]; [|discriminate]. cbn [is_none negb andb] in *.
        destruct (negb (starred (cname_of nm))); cbn [andb]; cbn [negb andb] in Hn; lia.
      - rewrite (stars_cname_unstarred nm ES).
        assert (Sc : starred (cname_of nm) = true) by (rewrite (cname_unstarred nm ES); apply starred_app).
        rewrite Sc. cbn [negb andb]. cbn [negb andb] in Hn.
        assert (L1 : is_none len1 = false).
        { destruct Hl as [[_ [Hx|Hx]]|[_ [_ Hx]]]; [discriminate | |]; destruct len1; try reflexivity; contradiction. }
        rewrite L1 in Hn. cbn [negb] in Hn. lia. }
    pose proof (nested_not_fuel rec st nm len1) as NF.
    destruct (dom_nested rec st nm len1) as [st1 rl]. cbn [snd] in NF.
    destruct rl as [len2|kk]; [apply finish_not_fuel|].
    cbn [snd]. intros H. injection H as <- _. apply (NF kk HR eq_refl).
Qed.

(* dom_fuel = 8 suffices for (resolved) names with at most 5 trailing stars *)
Corollary fuel_suffices ct c st name len prefix dtype k e :
  (forall ci nm, nth_error ct c = Some ci -> resolve_name ct st c ci name prefix = Ok nm -> stars nm <= 5) ->
  snd (dom_call dom_fuel ct c st name len prefix dtype) = CErr k e -> k <> eFuel.
Proof.
  intros H. unfold dom_fuel. apply no_fuel. intros ci nm len1 Eci En _. specialize (H ci nm Eci En). unfold need.
  destruct (negb (starred nm) && negb (is_none len1)); lia.
Qed.

(* the statement `no_fuel_exhaustion_full` of RegExamples.v bounds the wrong quantity (its premise also
   holds for names with more than five stars); as stated it fails: nine stars exhaust fuel 8 *)
Theorem no_fuel_exhaustion_full_refuted : ~ no_fuel_exhaustion_full.
Proof.
  intros H.
  apply (H ctD 0 (init ctD 1) (Some (nA ++ repeat cStar 9)) None None None eFuel None); [| |reflexivity].
  - intros n E. injection E as <-. vm_compute. lia.
  - vm_compute. reflexivity.
Qed.
