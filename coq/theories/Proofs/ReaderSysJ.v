(* Reader model, C14: a consistent system is never refused, and what read_pil returns for it.
   Part 11: lines that are returned as they are; consistent systems; the document loop. *)
From Coq Require Import List NArith ZArith Bool Arith Lia Permutation.
From DSD Require Import Base.Str Base.Errors Model.ComplexUtils Model.RegStr Model.ReaderStr Model.PyNum
  Model.Peg Model.Kernel Model.DispatchKernel Model.Heap Model.Registry Model.Reader Model.ReaderShape Model.ReaderConsistent
  Proofs.RegHeap Proofs.RegInv Proofs.RegCalls Proofs.RegExt Proofs.ReaderBasic Proofs.ReaderStmt Proofs.ReaderHeap
  Proofs.ReaderInv Proofs.ReaderHoare Proofs.ReaderNoFault Proofs.ReaderThms Proofs.ReaderBuilds Proofs.ReaderKernel
  Proofs.ReaderMore Proofs.ReaderSys Proofs.ReaderSysA Proofs.ReaderSysB Proofs.ReaderSysC Proofs.ReaderSysD
  Proofs.ReaderSysE Proofs.ReaderSysF Proofs.ReaderSysS Proofs.ReaderSysX Proofs.ReaderSysY Proofs.ReaderSysG Proofs.ReaderSysH Proofs.ReaderSysI.
From DSD Require Model.Iupac.
Import ListNotations.

Section Doc.
  Variable ct : ctable.
  Variables cd cs cc cm cr : nat.
  Hypothesis CO : cfg_okb ct cd cs cc cm cr = true.
  Hypothesis PL : forall c, In c [cd; cs; cc; cm; cr] -> exists ci, nth_error ct c = Some ci /\ c_fail ci = FNone.
  Notation G := (g cd cs cc cm cr).
  Notation Core := (Core cd cs cc cm cr ct).
  Notation SInv := (SInv cd cs cc cm cr ct).
  Notation Built := (Built cd cs cc cm cr).
  Notation BuiltRxn := (BuiltRxn cr).

  Definition add_other (acc : pilout) (l : list tok) : pilout :=
    mkOut (po_domains acc) (po_strands acc) (po_complexes acc) (po_macrostates acc)
          (po_det acc) (po_con acc) (po_other acc ++ [l]).

  Lemma built_add_other r acc l s : Built r acc s -> Built r (add_other acc l) s.
  Proof. intros H. destruct s; exact H. Qed.

  (* a line that read_pil_line returns as it is *)
  Theorem step_other prev r acc line :
    SInv prev r acc -> decode line = Ok SOther ->
    (forall accR, read_one ct G None (TList line) accR r = (r, Ok (add_other accR line))) /\
    SInv (prev ++ [SOther]) r (add_other acc line).
  Proof.
    intros [C B] Hdec.
    assert (Ex : exec_stmt ct G line SOther r = (r, Ok (RLine line))) by reflexivity.
    assert (Ecut : cut_roots (r_st r) (length (roots (r_st r))) [] = r_st r).
    { unfold cut_roots. cbn [map]. rewrite firstn_all, app_nil_r. destruct (r_st r); reflexivity. }
    assert (E3 : forall accR, read_one ct G None (TList line) accR r = (r, Ok (add_other accR line))).
    { intros accR.
      assert (Ef : file_obj ct G (RLine line) accR r = (r, Ok (add_other accR line, []))) by reflexivity.
      pose proof (read_one_ok ct cd cs cc cm cr line SOther accR r r (RLine line) r _ Hdec Ex Ef) as E3.
      cbn [fst snd] in E3.
      rewrite Ecut, (collect_id ct _ (si_sok _ _ _ _ _ _ _ _ _ C)), with_st_id in E3. exact E3. }
    split; [exact E3|]. split.
    - destruct C as [Csok Cattr Cheld Cdom Creg CrR Ckeys Cdecl CkR Ccplx Crot]. constructor.
      + exact Csok.
      + exact Cattr.
      + exact Cheld.
      + exact Cdom.
      + intros k Hk n. rewrite (Creg k Hk n). destruct k; reflexivity.
      + exact CrR.
      + intros k n Hn. apply declared_app. left. apply Ckeys. destruct k; exact Hn.
      + intros x l Hx. rewrite decl_doms_app in Hx. cbn in Hx. rewrite app_nil_r in Hx. apply (Cdecl x l Hx).
      + intros j Hj. destruct (CkR j Hj) as [ri [H1 H2]]. exists ri. split; [apply in_or_app; left; exact H1 | exact H2].
      + intros n0 names0 sst0 Hin. rewrite decl_cplx_snoc in Hin. cbn [cplx_entry] in Hin. rewrite app_nil_r in Hin.
        destruct (Ccplx n0 names0 sst0 Hin) as [conc Hb]. exists conc. exact Hb.
      + exact Crot.
    - intros s Hs. apply in_app_or in Hs. destruct Hs as [Hs|[<-|[]]]; [|exact Logic.I].
      apply built_add_other. apply B. exact Hs.
  Qed.

  (* ---- consistent systems ---- *)
  (* a statement may follow the statements `prev`: its name is new, what it uses is declared, and
     the object it denotes differs from the earlier ones of its kind *)
  Definition adm (prev : list stmt) (s : stmt) : Prop :=
    match s with
    | SDl x l =>
        starred x = false /\ nonempty x = true /\ str_eqb x sPlus = false /\ (0 <= l)%Z /\ ~ In x (map fst (decl_doms prev))
    | SSl x sq chk =>
        starred x = false /\ nonempty x = true /\ str_eqb x sPlus = false /\ ~ In x (map fst (decl_doms prev)) /\
        match chk with Some n => Z.eqb n (Z.of_nat (length sq)) = true | None => True end /\
        exists sq', Iupac.reverse_wc_complement false sq = Ok sq'
    | SComp n ds =>
        nonempty n = true /\ starred n = false /\
        ~ In n (map fst (decl_strands prev)) /\ ~ In ds (map snd (decl_strands prev)) /\
        Forall (fun d => In d (declared KindD prev)) ds
    | SKer n names sst _ =>
        nonempty n = true /\ ~ In n (map fst (decl_cplx prev)) /\
        exists names' sst' cdict cn e, expand_ker prev names sst = Some (names', sst') /\
          rot_dict names' sst' = Some cdict /\ canon_of cdict = Some (cn, e) /\ rot_disjoint prev cdict
    | SMac n xs =>
        nonempty n = true /\ In n xs /\ ~ In n (map fst (decl_macs prev)) /\
        Forall (fun x => In x (map fst (decl_cplx prev))) xs /\
        (forall n' xs', In (n', xs') (decl_macs prev) -> mac_sig prev xs' <> mac_sig prev xs)
    | SRxn ri =>
        (exists k, ri_rate ri = Some k) /\ ri_reactants ri <> [] /\
        Forall (fun x => In x (mdecl (is_cond (ri_type ri)) prev)) (ri_reactants ri) /\
        Forall (fun x => In x (mdecl (is_cond (ri_type ri)) prev)) (ri_products ri) /\
        (forall ri', In ri' (decl_rxns prev) -> sig_differs (rxn_sig prev ri') (rxn_sig prev ri))
    | SSC n ss sst =>
        nonempty n = true /\ ~ In n (map fst (decl_cplx prev)) /\
        Forall (fun s => In s (map fst (decl_strands prev))) ss /\
        exists names cdict cn e, ssc_names prev ss = Some names /\ length names = length (no_space sst) /\
          rot_dict names (no_space sst) = Some cdict /\ canon_of cdict = Some (cn, e) /\ rot_disjoint prev cdict
    | SOther => True
    end.

  Fixpoint consistent_from (prev ss : list stmt) : Prop :=
    match ss with
    | [] => True
    | s :: rest => adm prev s /\ consistent_from (prev ++ [s]) rest
    end.
  Definition Consistent (ss : list stmt) : Prop := consistent_from [] ss.

  (* what a statement adds to a result dictionary *)
  Inductive delta2 := D1 (d : fdelta) | DOther (l : list tok).
  Definition apply2 (d : delta2) (a : pilout) : pilout :=
    match d with D1 d1 => apply_delta d1 a | DOther l => add_other a l end.

  (* the shape of the addition for each kind of statement *)
  Definition DeltaOf (s : stmt) (line : list tok) (acc : pilout) (d : delta2) : Prop :=
    match s with
    | SDl x _ | SSl x _ _ => exists i j, d = D1 (FDom x i j)
    | SComp n _ => exists i, d = D1 (FKind KindS n i)
    | SSC n _ _ | SKer n _ _ _ => exists i, d = D1 (FKind KindC n i)
    | SMac n _ => exists i, d = D1 (FKind KindM n i)
    | SRxn ri => exists st i, d = D1 (FRxn (is_cond (ri_type ri)) st i) /\
                   (forall l, (forall j, In j l -> In j (po_det acc ++ po_con acc)) -> set_add st i l = l ++ [i])
    | SOther => d = DOther line
    end.

  Lemma other_apply_delta d a : po_other (apply_delta d a) = po_other a.
  Proof. destruct d as [x i j|k n i|cond st i]; cbn [apply_delta]; [reflexivity | apply other_with | destruct cond; reflexivity]. Qed.

  (* one statement, filed into any result dictionary *)
  Theorem step_stmt_gen prev r acc line s :
    SInv prev r acc -> decode line = Ok s -> adm prev s ->
    exists r' d, (forall accR, read_one ct G None (TList line) accR r = (r', Ok (apply2 d accR))) /\
      SInv (prev ++ [s]) r' (apply2 d acc) /\ DeltaOf s line acc d /\
      (forall d1, d = D1 d1 -> Later r acc r' (apply_delta d1 acc)) /\ (s = SOther -> r' = r).
  Proof.
    intros SI Hdec Ha.
    destruct s as [x l|x sq chk|n ds|n ss sst|n names sst conc|n xs|ri|]; cbn [adm] in Ha.
    - destruct Ha as [H1 [H2 [Hp [H3 H4]]]].
      destruct (step_dom ct cd cs cc cm cr CO PL prev r acc line (SDl x l) x l None SI Hdec) as [r' [i [j [E [S1 L1]]]]]; auto.
      + left. auto.
      + exists r', (D1 (FDom x i j)). split; [exact E|]. split; [exact S1|]. split; [cbn; eauto|].
        split; [intros d1 Ed; injection Ed as <-; exact L1 | discriminate].
    - destruct Ha as [H1 [H2 [Hp [H3 [H4 [sq' H5]]]]]].
      destruct (step_dom ct cd cs cc cm cr CO PL prev r acc line (SSl x sq chk) x (Z.of_nat (length sq)) (Some (sq, sq'))
                  SI Hdec) as [r' [i [j [E [S1 L1]]]]]; auto.
      + right. exists sq, chk, sq'. auto 10.
      + lia.
      + exists r', (D1 (FDom x i j)). split; [exact E|]. split; [exact S1|]. split; [cbn; eauto|].
        split; [intros d1 Ed; injection Ed as <-; exact L1 | discriminate].
    - destruct Ha as [H1 [Hu [H2 [H3 H4]]]].
      destruct (step_strand ct cd cs cc cm cr CO PL prev r acc line n ds SI Hdec H1 Hu H2 H3 H4) as [r' [i [E [S1 L1]]]].
      exists r', (D1 (FKind KindS n i)). split; [exact E|]. split; [exact S1|]. split; [cbn; eauto|].
      split; [intros d1 Ed; injection Ed as <-; exact L1 | discriminate].
    - destruct Ha as [H1 [H2 [H3 [names [cdict [cn [e [H4 [H5 [H6 [H7 H8]]]]]]]]]]].
      destruct (step_ssc ct cd cs cc cm cr CO PL prev r acc line n ss sst names cdict cn e SI Hdec H1 H2 H3 H4 H5 H6 H7 H8)
        as [r' [i [E [S1 L1]]]].
      exists r', (D1 (FKind KindC n i)). split; [exact E|]. split; [exact S1|]. split; [cbn; eauto|].
      split; [intros d1 Ed; injection Ed as <-; exact L1 | discriminate].
    - destruct Ha as [H1 [H2 [names' [sst' [cdict [cn [e [H3 [H4 [H5 H6]]]]]]]]]].
      destruct (step_kernel ct cd cs cc cm cr CO PL prev r acc line n names sst conc names' sst' cdict cn e SI Hdec H1 H2 H3 H4 H5 H6)
        as [r' [i [E [S1 L1]]]].
      exists r', (D1 (FKind KindC n i)). split; [exact E|]. split; [exact S1|]. split; [cbn; eauto|].
      split; [intros d1 Ed; injection Ed as <-; exact L1 | discriminate].
    - destruct Ha as [H1 [H2 [H3 [H4 H5]]]].
      destruct (step_macro ct cd cs cc cm cr CO PL prev r acc line n xs SI Hdec H1 H2 H3 H4 H5) as [r' [i [E [S1 L1]]]].
      exists r', (D1 (FKind KindM n i)). split; [exact E|]. split; [exact S1|]. split; [cbn; eauto|].
      split; [intros d1 Ed; injection Ed as <-; exact L1 | discriminate].
    - destruct Ha as [[k H1] [H2 [H3 [H4 H5]]]].
      destruct (step_rxn ct cd cs cc cm cr CO PL prev r acc line ri k SI Hdec H1 H2 H3 H4 H5) as [r' [i [E [S1 [L1 Esa]]]]].
      exists r', (D1 (FRxn (is_cond (ri_type ri)) (r_st r') i)). split; [exact E|]. split; [exact S1|].
      split; [cbn; eauto|]. split; [intros d1 Ed; injection Ed as <-; exact L1 | discriminate].
    - destruct (step_other prev r acc line SI Hdec) as [H1 H2].
      exists r, (DOther line). split; [exact H1|]. split; [exact H2|]. split; [reflexivity|]. split; [discriminate | reflexivity].
  Qed.

  (* one statement *)
  Theorem step_stmt prev r acc line s :
    SInv prev r acc -> decode line = Ok s -> adm prev s ->
    exists r' acc', read_one ct G None (TList line) acc r = (r', Ok acc') /\ SInv (prev ++ [s]) r' acc' /\
      po_other acc' = po_other acc ++ match s with SOther => [line] | _ => [] end.
  Proof.
    intros SI Hdec Ha. destruct (step_stmt_gen prev r acc line s SI Hdec Ha) as [r' [d [E [S1 [Hd _]]]]].
    exists r', (apply2 d acc). split; [apply E|]. split; [exact S1|].
    destruct s; cbn [DeltaOf] in Hd;
      try (destruct Hd as [i [j ->]]; cbn [apply2]; rewrite other_apply_delta, app_nil_r; reflexivity);
      try (destruct Hd as [i ->]; cbn [apply2]; rewrite other_apply_delta, app_nil_r; reflexivity).
    - destruct Hd as [st [i [-> _]]]. cbn [apply2]. rewrite other_apply_delta, app_nil_r. reflexivity.
    - subst d. reflexivity.
  Qed.

  (* the lines that are returned as they are *)
  Fixpoint other_lines (lines : list (list tok)) (ss : list stmt) : list (list tok) :=
    match lines, ss with
    | l :: lr, SOther :: sr => l :: other_lines lr sr
    | _ :: lr, _ :: sr => other_lines lr sr
    | _, _ => []
    end.

  Theorem read_lines_consistent lines ss :
    Forall2 (fun l s => decode l = Ok s) lines ss ->
    forall prev r acc, consistent_from prev ss -> SInv prev r acc ->
    exists r' acc', read_lines ct G None (map TList lines) acc r = (r', Ok acc') /\ SInv (prev ++ ss) r' acc' /\
      po_other acc' = po_other acc ++ other_lines lines ss.
  Proof.
    induction 1 as [|line s lines ss Hd F IH]; intros prev r acc Hc SI.
    - exists r, acc. cbn. rewrite !app_nil_r. auto.
    - destruct Hc as [Ha Hc]. cbn [map read_lines].
      destruct (step_stmt prev r acc line s SI Hd Ha) as [r1 [acc1 [E1 [SI1 O1]]]].
      destruct (IH (prev ++ [s]) r1 acc1 Hc SI1) as [r2 [acc2 [E2 [SI2 O2]]]].
      exists r2, acc2. rewrite (bind_ok _ _ _ _ _ E1). split; [exact E2|].
      rewrite <- app_assoc in SI2. split; [exact SI2|].
      rewrite O2, O1, <- app_assoc. f_equal. destruct s; reflexivity.
  Qed.

  Lemma sinv_init : SInv [] (rinit (init ct 0)) empty_out.
  Proof.
    split; [|intros s []]. constructor.
    - apply sok_init.
    - intros i _. auto.
    - intros i [].
    - intros j o H. discriminate.
    - intros k Hk n. cbn [r_st rinit].
      destruct (cget_init ct 0 _ (cls_of_lt ct cd cs cc cm cr CO k)) as [ci [_ ->]]. destruct k; reflexivity.
    - intros n j. cbn [r_st rinit].
      destruct (cget_init ct 0 cr (cls_of_lt ct cd cs cc cm cr CO KindR)) as [ci [_ E]]. rewrite E. discriminate.
    - intros k n Hn. destruct k; destruct Hn.
    - intros x l [].
    - intros j [].
    - intros n0 names0 sst0 [].
    - intros n0 i0 o0 H. discriminate.
  Qed.

  (* what read_pil returns: every statement has built its objects, and nothing else is in the result *)
  Record Reads (lines : list (list tok)) (ss : list stmt) (r : rstate) (out : pilout) : Prop := mkReads {
    rd_built : forall s, In s ss -> Built r out s;
    rd_keys : forall k n, In n (map fst (dict_of k out)) -> In n (declared k ss);
    rd_rxns : forall j, In j (po_det out ++ po_con out) -> exists ri, In (SRxn ri) ss /\ BuiltRxn r out ri j;
    rd_cplx : forall n names sst, In (n, (names, sst)) (decl_cplx ss) -> exists conc, BuiltCplx cc r out n names sst conc;
    rd_other : po_other out = other_lines lines ss
  }.

  (* C14: a consistent system, written as well-shaped lines, is never refused, and every field of the result
     is what the system says *)
  Theorem consistent_system_never_refused lines ss :
    Forall2 (fun l s => decode l = Ok s) lines ss -> Consistent ss ->
    exists r out, read_pil ct G None (map TList lines) (rinit (init ct 0)) = (r, Ok out) /\ Reads lines ss r out.
  Proof.
    intros F Hc.
    destruct (read_lines_consistent lines ss F [] _ _ Hc sinv_init) as [r [out [E [[C B] O]]]].
    exists r, out. split; [unfold read_pil; rewrite E; reflexivity|].
    constructor.
    - exact B.
    - apply (si_keys _ _ _ _ _ _ _ _ _ C).
    - apply (si_kR _ _ _ _ _ _ _ _ _ C).
    - apply (si_cplx _ _ _ _ _ _ _ _ _ C).
    - exact O.
  Qed.
End Doc.
