(* rotate_complex_once on a text of the shape
       A0 ( A1 ( ... ( Ak + B0 ) B1 ) ... ) Bk
   with balanced pieces Ai (break-free) and Bi: the two scanning loops leave
   exactly the k path brackets on their stacks, these are flipped, and the
   result is
       B0 ( B1 ( ... ( Bk + A0 ) A1 ) ... ) Ak .
   Everything here is at the character level (the literal transcription of the
   Python function); trees only provide "balanced piece". *)
From Coq Require Import List Arith Lia Bool NArith.
From DSD Require Import Base.Str Base.Errors Model.ComplexUtils Dyck.Dyck
  Proofs.Mpt Proofs.Db Proofs.Assoc Proofs.C06.
Import ListNotations.

(* ---- character rendering of a tree, break character '+' ---- *)
Definition rc (d : dyck) : list chr := map (unsym cP) (render d).

Lemma rc_nil : rc DNil = []. Proof. reflexivity. Qed.
Lemma rc_DU r : rc (DU r) = cD :: rc r. Proof. reflexivity. Qed.
Lemma rc_DB r : rc (DB r) = cP :: rc r. Proof. reflexivity. Qed.
Lemma rc_DP i r : rc (DP i r) = cO :: rc i ++ cC :: rc r.
Proof. unfold rc. cbn [render map]. rewrite map_app. reflexivity. Qed.

Lemma classify_rc d : map (classify cP [cD]) (rc d) = render d.
Proof.
  induction d as [|r IH|r IH|i IHi r IHr].
  - reflexivity.
  - rewrite rc_DU. cbn [map render]. rewrite IH. reflexivity.
  - rewrite rc_DB. cbn [map render]. rewrite IH. reflexivity.
  - rewrite rc_DP. cbn [map render]. rewrite map_app. cbn [map]. rewrite IHi, IHr. reflexivity.
Qed.

(* ---- one step of each scanning loop ---- *)
Lemma scanL_O r i st : scanL (cO :: r) i st = scanL r (S i) (i :: st).
Proof. reflexivity. Qed.
Lemma scanL_C r i x st : scanL (cC :: r) i (x :: st) = scanL r (S i) st.
Proof. reflexivity. Qed.
Lemma scanL_D r i st : scanL (cD :: r) i st = scanL r (S i) st.
Proof. reflexivity. Qed.
Lemma scanL_P r i st : scanL (cP :: r) i st = scanL r (S i) st.
Proof. reflexivity. Qed.

Lemma scanR_C r i st : scanR (cC :: r) i st = scanR r (i - 1) (i :: st).
Proof. reflexivity. Qed.
Lemma scanR_O r i x st : scanR (cO :: r) i (x :: st) = scanR r (i - 1) st.
Proof. reflexivity. Qed.
Lemma scanR_D r i st : scanR (cD :: r) i st = scanR r (i - 1) st.
Proof. reflexivity. Qed.
Lemma scanR_P r i st : scanR (cP :: r) i st = scanR r (i - 1) st.
Proof. reflexivity. Qed.

(* a balanced piece returns the stack it was given *)
Lemma scanL_rc d : forall rest i st,
  scanL (rc d ++ rest) i st = scanL rest (i + length (rc d)) st.
Proof.
  induction d as [|r IH|r IH|x IHx r IHr]; intros rest i st.
  - rewrite rc_nil. cbn [app length]. rewrite Nat.add_0_r. reflexivity.
  - rewrite rc_DU. cbn [app length]. rewrite scanL_D, IH. f_equal. lia.
  - rewrite rc_DB. cbn [app length]. rewrite scanL_P, IH. f_equal. lia.
  - rewrite rc_DP. cbn [app]. rewrite scanL_O, <- app_assoc, IHx. cbn [app].
    rewrite scanL_C, IHr. f_equal. cbn [length]. rewrite app_length. cbn [length]. lia.
Qed.

Lemma rev_rc_DP x r : rev (rc (DP x r)) = rev (rc r) ++ cC :: rev (rc x) ++ [cO].
Proof.
  rewrite rc_DP. cbn [rev]. rewrite rev_app_distr. cbn [rev]. rewrite <- !app_assoc. reflexivity.
Qed.

Lemma scanR_rc d : forall rest i st,
  scanR (rev (rc d) ++ rest) i st = scanR rest (i - length (rc d)) st.
Proof.
  induction d as [|r IH|r IH|x IHx r IHr]; intros rest i st.
  - rewrite rc_nil. cbn [rev app length]. rewrite Nat.sub_0_r. reflexivity.
  - rewrite rc_DU. cbn [rev length]. rewrite <- app_assoc, IH. cbn [app]. rewrite scanR_D. f_equal. lia.
  - rewrite rc_DB. cbn [rev length]. rewrite <- app_assoc, IH. cbn [app]. rewrite scanR_P. f_equal. lia.
  - rewrite rev_rc_DP. rewrite <- app_assoc, IHr. cbn [app]. rewrite scanR_C.
    rewrite <- app_assoc, IHx. cbn [app]. rewrite scanR_O. f_equal.
    rewrite rc_DP. cbn [length]. rewrite app_length. cbn [length]. lia.
Qed.

(* ---- pieces separated by one bracket character ---- *)
(* c L1 c L2 ... c Lk *)
Fixpoint segs (c : chr) (ls : list dyck) : list chr :=
  match ls with [] => [] | L :: r => c :: rc L ++ segs c r end.
(* absolute positions of the separators when the text starts at index i *)
Fixpoint spos (i : nat) (ls : list dyck) : list nat :=
  match ls with [] => [] | L :: r => i :: spos (S (i + length (rc L))) r end.

Lemma segs_length c c' ls : length (segs c ls) = length (segs c' ls).
Proof. induction ls as [|L r IH]; cbn [segs length]; [reflexivity|]. rewrite !app_length, IH. reflexivity. Qed.

Lemma scanL_segs ls : forall rest i st,
  scanL (segs cO ls ++ rest) i st = scanL rest (i + length (segs cO ls)) (rev (spos i ls) ++ st).
Proof.
  induction ls as [|L r IH]; intros rest i st.
  - cbn [segs spos rev app length]. rewrite Nat.add_0_r. reflexivity.
  - cbn [segs spos app]. rewrite scanL_O, <- app_assoc, scanL_rc, IH.
    cbn [rev length]. rewrite <- app_assoc. cbn [app]. f_equal.
    rewrite app_length. lia.
Qed.

Lemma rev_segs c L r : rev (segs c (L :: r)) = rev (segs c r) ++ rev (rc L) ++ [c].
Proof. cbn [segs rev]. rewrite rev_app_distr, <- app_assoc. reflexivity. Qed.

Lemma scanR_segs rs : forall rest base st,
  scanR (rev (segs cC rs) ++ rest) (base + length (segs cC rs) - 1) st
  = scanR rest (base - 1) (spos base rs ++ st).
Proof.
  induction rs as [|R r IH]; intros rest base st.
  - cbn [segs rev app length spos]. rewrite Nat.add_0_r. reflexivity.
  - rewrite rev_segs. rewrite <- app_assoc.
    replace (base + length (segs cC (R :: r)) - 1)
      with (S (base + length (rc R)) + length (segs cC r) - 1)
      by (cbn [segs length]; rewrite app_length; lia).
    rewrite IH. rewrite <- app_assoc, scanR_rc. cbn [app]. rewrite scanR_C.
    cbn [spos app]. f_equal; [|f_equal]; lia.
Qed.

Ltac lnorm := repeat first [rewrite <- app_assoc | progress cbn [app]].

(* ---- the assignments nstr[i] = c for i in stack ---- *)
Lemma upd_at {A} (pre : list A) c v rest : upd (length pre) v (pre ++ c :: rest) = pre ++ v :: rest.
Proof. induction pre as [|x pre IH]; cbn; [reflexivity|]. f_equal. exact IH. Qed.

Lemma set_all_app {A} l1 l2 (v : A) x : set_all (l1 ++ l2) v x = set_all l2 v (set_all l1 v x).
Proof. unfold set_all. apply fold_left_app. Qed.

Lemma set_all_cons {A} i l (v : A) x : set_all (i :: l) v x = set_all l v (upd i v x).
Proof. reflexivity. Qed.

Lemma set_all_spos c v ls : forall pre rest,
  set_all (spos (length pre) ls) v (pre ++ segs c ls ++ rest) = pre ++ segs v ls ++ rest.
Proof.
  induction ls as [|L r IH]; intros pre rest.
  - reflexivity.
  - cbn [spos segs]. rewrite set_all_cons. cbn [app]. rewrite upd_at.
    replace (pre ++ v :: (rc L ++ segs c r) ++ rest) with ((pre ++ v :: rc L) ++ segs c r ++ rest)
      by (lnorm; reflexivity).
    replace (S (length pre + length (rc L))) with (length (pre ++ v :: rc L))
      by (rewrite app_length; cbn [length]; lia).
    rewrite IH. rewrite <- !app_assoc. reflexivity.
Qed.

Lemma set_all_rev_spos c v ls : forall pre rest,
  set_all (rev (spos (length pre) ls)) v (pre ++ segs c ls ++ rest) = pre ++ segs v ls ++ rest.
Proof.
  induction ls as [|L r IH]; intros pre rest.
  - reflexivity.
  - cbn [spos segs rev]. rewrite set_all_app.
    replace (pre ++ (c :: rc L ++ segs c r) ++ rest) with ((pre ++ c :: rc L) ++ segs c r ++ rest)
      by (lnorm; reflexivity).
    replace (S (length pre + length (rc L))) with (length (pre ++ c :: rc L))
      by (rewrite app_length; cbn [length]; lia).
    rewrite IH. unfold set_all. cbn [fold_left]. lnorm.
    rewrite upd_at. reflexivity.
Qed.

(* ---- the whole structure part of rotate_complex_once ---- *)
Definition rot_struct (p : nat) (sst : list chr) : res (list chr) :=
  dor st1 <- scanL (firstn p sst) 0 [];
  if length sst <? p then Err eIndex else
  let n1 := set_all st1 cC sst in
  dor st2 <- scanR (rev (skipn (S p) n1)) (length n1 - 1) [];
  let n2 := set_all st2 cO n1 in
  Ok (skipn (S p) n2 ++ [cP] ++ firstn p n2).

Lemma rotate_complex_once_unfold seq sst :
  rotate_complex_once seq sst =
  match index_of sPlus seq with
  | None => Ok (seq, sst)
  | Some p => dor s' <- rot_struct p sst; Ok (skipn (S p) seq ++ [sPlus] ++ firstn p seq, s')
  end.
Proof.
  unfold rotate_complex_once, rot_struct. destruct (index_of sPlus seq) as [p|]; [|reflexivity].
  destruct (scanL (firstn p sst) 0 []) as [st1|k]; cbn [rbind]; [|reflexivity].
  destruct (length sst <? p); [reflexivity|].
  destruct (scanR _ _ _) as [st2|k]; cbn [rbind]; reflexivity.
Qed.

Lemma firstn_exact {A} (a b : list A) : firstn (length a) (a ++ b) = a.
Proof. rewrite firstn_app, Nat.sub_diag, firstn_all. cbn. apply app_nil_r. Qed.
Lemma skipn_exact {A} (a : list A) c b : skipn (S (length a)) (a ++ c :: b) = b.
Proof. induction a as [|x a IH]; cbn; [reflexivity|exact IH]. Qed.

Theorem rot_struct_zip A0 As B0 Bs :
  let a := rc A0 ++ segs cO As in
  let b := rc B0 ++ segs cC Bs in
  rot_struct (length a) (a ++ cP :: b)
  = Ok ((rc B0 ++ segs cO Bs) ++ cP :: (rc A0 ++ segs cC As)).
Proof.
  intros a b. unfold rot_struct.
  rewrite firstn_exact.
  (* first loop *)
  unfold a at 1. rewrite scanL_rc. rewrite <- (app_nil_r (segs cO As)) at 1. rewrite scanL_segs.
  cbn [scanL rbind]. rewrite app_nil_r.
  assert (Hlen : (length (a ++ cP :: b) <? length a) = false).
  { apply Nat.ltb_ge. rewrite app_length. lia. }
  rewrite Hlen. cbn zeta.
  (* first flip *)
  assert (E1 : set_all (rev (spos (0 + length (rc A0)) As)) cC (a ++ cP :: b)
               = (rc A0 ++ segs cC As) ++ cP :: b).
  { unfold a. rewrite <- !app_assoc. cbn [Nat.add].
    rewrite (set_all_rev_spos cO cC As (rc A0) (cP :: b)). reflexivity. }
  rewrite E1.
  set (a' := rc A0 ++ segs cC As).
  assert (La : length a' = length a).
  { unfold a', a. rewrite !app_length. f_equal. apply segs_length. }
  rewrite <- La. rewrite skipn_exact.
  (* second loop *)
  unfold b at 1. rewrite rev_app_distr.
  set (base := length a' + 1 + length (rc B0)).
  replace (length (a' ++ cP :: b) - 1) with (base + length (segs cC Bs) - 1)
    by (unfold base, b; rewrite !app_length; cbn [length]; rewrite app_length; lia).
  rewrite scanR_segs. rewrite <- (app_nil_r (rev (rc B0))). rewrite scanR_rc.
  cbn [scanR rbind]. rewrite app_nil_r.
  (* second flip *)
  assert (E2 : set_all (spos base Bs) cO (a' ++ cP :: b) = a' ++ cP :: (rc B0 ++ segs cO Bs)).
  { unfold b.
    replace (a' ++ cP :: rc B0 ++ segs cC Bs) with ((a' ++ cP :: rc B0) ++ segs cC Bs ++ [])
      by (rewrite app_nil_r, <- app_assoc; reflexivity).
    replace base with (length (a' ++ cP :: rc B0))
      by (unfold base; rewrite app_length; cbn [length]; lia).
    rewrite (set_all_spos cC cO Bs). rewrite app_nil_r, <- app_assoc. reflexivity. }
  rewrite E2. rewrite skipn_exact, firstn_exact. reflexivity.
Qed.
