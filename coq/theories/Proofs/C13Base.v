(* C13/C19: finite facts about the regenerated grammar tables. *)
From Coq Require Import List NArith Bool Arith.
From DSD Require Import Base.Str Base.Errors Base.Val Model.Peg Model.DispatchPeg.
From DSDGen Require Import PilGrammar SeesawGrammar.
Import ListNotations.

Lemma pil_grammar_closed : grammar_ok pil_grammar = true.
Proof. vm_compute. reflexivity. Qed.
Lemma seesaw_grammar_closed : grammar_ok seesaw_grammar = true.
Proof. vm_compute. reflexivity. Qed.
