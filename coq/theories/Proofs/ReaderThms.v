(* Reader model: the statements of C14 / C15 / C16 in closed form (no section hypotheses
   left), and their instance for the five base classes set_io_objects() configures. *)
From Coq Require Import List NArith ZArith Bool Arith Lia.
From DSD Require Import Base.Str Base.Errors Model.ComplexUtils Model.RegStr Model.ReaderStr Model.PyNum
  Model.Peg Model.Kernel Model.DispatchKernel Model.Heap Model.Registry Model.Reader Model.ReaderShape
  Proofs.RegHeap Proofs.RegInv Proofs.RegCalls Proofs.ReaderBasic Proofs.ReaderStmt Proofs.ReaderHeap
  Proofs.ReaderInv Proofs.ReaderHoare Proofs.ReaderNoFault.
From DSD Require Model.Iupac.
From DSDGen Require Import ReaderConsts.
Import ListNotations.

(* ---- boolean shape predicate => the hypotheses of the proofs ---- *)
Lemma kname_okb_ok x : kname_okb x = true -> kname_ok x.
Proof.
  unfold kname_okb, kname_ok. rewrite orb_true_iff, str_eqb_iff, nm_okb_iff. tauto.
Qed.

Lemma stmt_okb_ok s : stmt_okb s = true -> stmt_ok s.
Proof.
  destruct s; cbn; auto.
  - rewrite andb_true_iff, nm_okb_iff, Z.leb_le. tauto.
  - apply nm_okb_iff.
  - intros H. apply Forall_forall. intros x Hx. apply nm_okb_iff. rewrite forallb_forall in H. auto.
  - intros H. apply Forall_forall. intros x Hx. apply kname_okb_ok. rewrite forallb_forall in H. auto.
Qed.

Lemma line_okb_ok lt : line_okb lt = true -> line_ok lt.
Proof.
  destruct lt as [s|line]; cbn; [discriminate|].
  destruct (decode line) as [s|k] eqn:E; [|discriminate].
  intros H. exists line, s. split; [reflexivity|]. split; [exact E | apply stmt_okb_ok; exact H].
Qed.

Lemma lines_okb_ok lines : forallb line_okb lines = true -> Forall line_ok lines.
Proof. intros H. apply Forall_forall. intros x Hx. apply line_okb_ok. rewrite forallb_forall in H. auto. Qed.

(* ---- hypotheses on the class configuration, decidable ---- *)
Definition slots_okb (ct : ctable) (cd cs cc cm cr : nat) : bool :=
  let l := [cd; cs; cc; cm; cr] in
  forallb (fun x => x <? length ct) l &&
  negb (Nat.eqb cd cs) && negb (Nat.eqb cd cc) && negb (Nat.eqb cd cm) && negb (Nat.eqb cd cr) &&
  negb (Nat.eqb cs cc) && negb (Nat.eqb cs cm) && negb (Nat.eqb cs cr) &&
  negb (Nat.eqb cc cm) && negb (Nat.eqb cc cr) && negb (Nat.eqb cm cr).

Lemma slots_okb_ok ct cd cs cc cm cr : slots_okb ct cd cs cc cm cr = true -> slots_ok ct cd cs cc cm cr.
Proof.
  unfold slots_okb. rewrite !andb_true_iff, !negb_true_iff, !Nat.eqb_neq, forallb_forall.
  intros [[[[[[[[[[F N1] N2] N3] N4] N5] N6] N7] N8] N9] N10]. split.
  - repeat constructor; cbn; intuition congruence.
  - apply Forall_forall. intros x Hx. apply Nat.ltb_lt. apply F. exact Hx.
Qed.

Definition isinstance_okb (ct : ctable) (cd cs cc cm cr : nat) : bool :=
  let sub := subclass (length ct) ct in
  negb (sub cs cd) && negb (sub cc cd) && negb (sub cc cs) && negb (sub cm cd) && negb (sub cm cs) &&
  negb (sub cm cc) && negb (sub cr cd) && negb (sub cr cs) && negb (sub cr cc) && negb (sub cr cm).

Lemma isinstance_okb_ok ct cd cs cc cm cr :
  isinstance_okb ct cd cs cc cm cr = true -> isinstance_ok ct cd cs cc cm cr.
Proof.
  unfold isinstance_okb, isinstance_ok. cbv zeta. rewrite !andb_true_iff, !negb_true_iff. tauto.
Qed.

(* the configuration is usable: five different classes of the table, and an instance of a
   later slot's class is never an instance of an earlier slot's class *)
Definition cfg_okb (ct : ctable) (cd cs cc cm cr : nat) : bool :=
  slots_okb ct cd cs cc cm cr && isinstance_okb ct cd cs cc cm cr.

Lemma rgood_init ct cd cs cc cm cr n : RGood ct cd cs cc cm cr (rinit (init ct n)).
Proof. constructor; cbn; [apply inv_init | apply kinv_nil]. Qed.

Section Closed.
  Variable ct : ctable.
  Variables cd cs cc cm cr : nat.
  Hypothesis CO : cfg_okb ct cd cs cc cm cr = true.
  Notation G := (g cd cs cc cm cr).
  Notation RGood := (RGood ct cd cs cc cm cr).

  Lemma co_slots : slots_ok ct cd cs cc cm cr.
  Proof. apply slots_okb_ok. unfold cfg_okb in CO. apply andb_true_iff in CO. tauto. Qed.
  Lemma co_io : isinstance_ok ct cd cs cc cm cr.
  Proof. apply isinstance_okb_ok. unfold cfg_okb in CO. apply andb_true_iff in CO. tauto. Qed.

  (* C16, reader clause 1: no interpreter-level fault *)
  Theorem reader_no_fault ig lines r :
    forallb line_okb lines = true -> RGood r ->
    forall r' k, read_pil ct G ig lines r = (r', Err k) -> is_fault k = false.
  Proof.
    intros HL GD r' k E.
    pose proof (read_pil_good ct cd cs cc cm cr co_slots co_io ig lines r (lines_okb_ok _ HL) GD) as H.
    rewrite E in H. tauto.
  Qed.

  (* the session invariant survives every read, successful or not *)
  Theorem reader_keeps_good ig lines r :
    forallb line_okb lines = true -> RGood r -> RGood (fst (read_pil ct G ig lines r)).
  Proof.
    intros HL GD.
    pose proof (read_pil_good ct cd cs cc cm cr co_slots co_io ig lines r (lines_okb_ok _ HL) GD) as H.
    destruct (read_pil ct G ig lines r) as [r' [o|k]]; cbn; tauto.
  Qed.

  (* C16, reader clause 3: after a failed read every object the user held is the same object,
     alive, and registered under its name and canonical form; the user's references are untouched *)
  Theorem failed_read_keeps_held ig lines r r' k :
    forallb line_okb lines = true -> RGood r ->
    read_pil ct G ig lines r = (r', Err k) ->
    roots (r_st r') = roots (r_st r) /\
    forall s i, nth_error (roots (r_st r)) s = Some (Some i) ->
      exists o o', hget (heap (r_st r)) i = Some o /\ hget (heap (r_st r')) i = Some o' /\ okill o o' /\
                   o_live o' = true /\ Registered (r_st r') i o'.
  Proof.
    intros HL GD E.
    pose proof (read_pil_good ct cd cs cc cm cr co_slots co_io ig lines r (lines_okb_ok _ HL) GD) as H.
    rewrite E in H. destruct H as [[[R' H'] _] [Er [Xh _]]]. split; [exact Er|].
    intros s i Hs. destruct GD as [[_ H0] _].
    pose proof (hk_roots _ H0 s i Hs) as L0. unfold is_live in L0.
    destruct (hget (heap (r_st r)) i) as [o|] eqn:Eo; [|discriminate].
    destruct (hx_old _ _ _ Xh i o Eo) as [o' [Eo' Kl]].
    rewrite <- Er in Hs. pose proof (hk_roots _ H' s i Hs) as L1. unfold is_live in L1. rewrite Eo' in L1.
    exists o, o'. repeat split; auto.
    - apply (ok_obj _ _ R' i o'). split; assumption.
    - apply (ok_obj _ _ R' i o'). split; assumption.
  Qed.

  (* C15, reader clause: after any read every object of the session is an instance of exactly the
     configured class of its kind ... *)
  Definition cls_kind_ok (o : obj) : Prop :=
    (o_cls o = cd /\ exists l, o_data o = DDom l) \/ (o_cls o = cs /\ is_strand (o_data o)) \/
    (o_cls o = cc /\ is_cplx (o_data o)) \/ (o_cls o = cm /\ is_mac (o_data o)) \/
    (o_cls o = cr /\ is_rxn (o_data o)).

  Theorem reader_classes ig lines r :
    forallb line_okb lines = true -> RGood r ->
    let st' := r_st (fst (read_pil ct G ig lines r)) in
    (forall i o, hget (heap st') i = Some o -> cls_kind_ok o) /\
    (* ... and is registered in the registries of its own class only *)
    (forall c n i, c < length ct -> In (n, i) (cs_names (cget st' c)) -> cls_at (heap st') i = Some c) /\
    (forall c k i, c < length ct -> In (k, i) (cs_canon (cget st' c)) -> cls_at (heap st') i = Some c).
  Proof.
    intros HL GD st'. pose proof (reader_keeps_good ig lines r HL GD) as [[R' _] K']. fold st' in R', K'.
    split; [|split].
    - intros i o H. destruct (K' i o H) as [[E [l [D _]]]|[[E [es [D _]]]|[H1|[H1|H1]]]]; unfold cls_kind_ok.
      + left. eauto.
      + right. left. split; [exact E|]. rewrite D. exact I.
      + right. right. left. exact H1.
      + right. right. right. left. exact H1.
      + right. right. right. right. destruct H1 as [E [a [b [t [m [rr [pp [D _]]]]]]]]. split; [exact E|]. rewrite D. exact I.
    - intros c n i Hc Hin. destruct (ok_nv _ _ _ (ok_cls _ _ R' c Hc) n i Hin) as [o [[Ho _] [Ec _]]].
      unfold cls_at. rewrite Ho. cbn. rewrite Ec. reflexivity.
    - intros c k i Hc Hin. destruct (ok_cv _ _ _ (ok_cls _ _ R' c Hc) k i Hin) as [o [[Ho _] [Ec _]]].
      unfold cls_at. rewrite Ho. cbn. rewrite Ec. reflexivity.
  Qed.

  (* C16, reader clause 2: a line the reader announces as ignored (a reaction without a rate or
     with an unknown type; any statement of an unknown kind) does not abort the read: it is
     returned under `other`, nothing else changes *)
  Lemma cut_roots_all st : cut_roots st (length (roots st)) [] = st.
  Proof. unfold cut_roots. rewrite firstn_all. cbn. rewrite app_nil_r. destruct st; reflexivity. Qed.

  Theorem ignored_line_survives line acc r :
    decode line = Ok SOther ->
    read_one ct G None (TList line) acc r =
      (with_st r (collect (r_st r)),
       Ok (mkOut (po_domains acc) (po_strands acc) (po_complexes acc) (po_macrostates acc)
                 (po_det acc) (po_con acc) (po_other acc ++ [line]))).
  Proof.
    intros Hd. unfold read_one. cbn [t_list]. rewrite bind_lift_Ok. cbn [ignored]. rewrite bind_lift_Ok.
    unfold bind at 1. unfold nroots at 1. cbv beta iota.
    unfold bind at 1. rewrite (read_pil_line_decode ct G line SOther (g_full cd cs cc cm cr) Hd r).
    cbn [exec_stmt]. unfold ret at 1. cbv beta iota.
    cbn [file_obj gD gS gC gM gR g slot]. rewrite !bind_ret.
    unfold bind, ret, release. cbn [snd fst]. rewrite cut_roots_all. reflexivity.
  Qed.

  Theorem ignored_reactions_survive line ri :
    tnth line 0 = Ok (TStr tReaction) -> read_reaction line = Ok ri -> reaction_ignored ri = true ->
    decode line = Ok SOther.
  Proof.
    intros Ht Hr Hi. unfold decode. rewrite Ht.
    assert (E1 : exists name, tnth line 1 = Ok name).
    { unfold read_reaction in Hr. destruct (tnth line 1) as [t|k]; [eauto | discriminate]. }
    destruct E1 as [name ->]. cbn [rbind]. unfold tag_is.
    replace (str_eqb tReaction tDl) with false by reflexivity.
    replace (str_eqb tReaction tSl) with false by reflexivity.
    replace (str_eqb tReaction tComposite) with false by reflexivity.
    replace (str_eqb tReaction tStrandCplx) with false by reflexivity.
    replace (str_eqb tReaction tKernel) with false by reflexivity.
    replace (str_eqb tReaction tMacro) with false by reflexivity.
    replace (str_eqb tReaction tReaction) with true by reflexivity.
    rewrite Hr. cbn [rbind]. rewrite Hi. reflexivity.
  Qed.

  (* C14: a line read on its own yields the same object as that line inside a document.
     The object is the one read_pil_line returns; read alone it is handed to the user,
     inside a document it is filed in the dictionary: in both cases it stays alive and
     keeps its class, name, canonical form and data. *)
  Definition same_obj (ra rb : rstate) (i : nat) : Prop :=
    exists o o', hget (heap (r_st ra)) i = Some o /\ hget (heap (r_st rb)) i = Some o' /\ okill o o'.

  Lemma live_hget h i : is_live h i = true -> exists o, hget h i = Some o.
  Proof. unfold is_live. destruct (hget h i); [eauto | discriminate]. Qed.

  Theorem line_eq_document_line line r r1 i :
    line_okb (TList line) = true -> RGood r ->
    read_pil_line ct G line r = (r1, Ok (RObj i)) ->
    (exists r2, read_line_user ct G line r = (r2, Ok (RObj i)) /\
                is_live (heap (r_st r2)) i = true /\ same_obj r1 r2 i) /\
    (forall acc r3 acc', read_one ct G None (TList line) acc r = (r3, Ok acc') ->
                is_live (heap (r_st r3)) i = true /\ same_obj r1 r3 i).
  Proof.
    intros HL GD E. apply line_okb_ok in HL. destruct HL as [line' [s [El [Hd Hs]]]]. injection El as <-.
    pose proof (op_read_pil_line ct cd cs cc cm cr co_slots (fun _ => True) line s (stable_true) Hd Hs r GD I) as H1.
    rewrite E in H1. destruct H1 as [G1 [X1 [Hh Hc]]].
    pose proof (held_live ct cd cs cc cm cr i r1 G1 Hh) as L1. destruct (live_hget _ _ L1) as [o Ho].
    split.
    - unfold read_line_user. rewrite E.
      assert (Hk : forall j, In j [i] -> is_live (heap (r_st r1)) j = true) by (intros j [<-|[]]; exact L1).
      destruct (release_good ct cd cs cc cm cr r r1 [i] G1 X1 Hk) as [G2 [Er _]].
      unfold release in G2, Er. cbn [fst] in G2, Er.
      eexists. split; [reflexivity|]. split.
      + apply (held_live ct cd cs cc cm cr i _ G2). unfold Held. rewrite Er. apply in_or_app. right. left. reflexivity.
      + destruct (hx_old _ _ _ (hext_collect anyobj (cut_roots (r_st r1) (length (roots (r_st r))) [i])) i o Ho) as [o' [Ho' Kl]].
        exists o, o'. repeat split; assumption.
    - intros acc r3 acc' E3. unfold read_one in E3. cbn [t_list] in E3. rewrite bind_lift_Ok in E3. cbn [ignored] in E3.
      rewrite bind_lift_Ok in E3. unfold bind at 1 in E3. unfold nroots at 1 in E3. cbv beta iota in E3.
      unfold bind at 1 in E3. rewrite E in E3.
      pose proof (op_file_obj ct cd cs cc cm cr co_slots co_io (fun _ => True) (RObj i) acc stable_true r1 G1
                    (conj I (conj Hh Hc))) as H2.
      unfold bind at 1 in E3. destruct (file_obj ct G (RObj i) acc r1) as [r2 [res|k]]; [|discriminate].
      destruct H2 as [G2 [X2 [Q2 Qi]]].
      assert (X02 : RExt r r2) by (eapply rext_trans; eauto).
      assert (Hlive : forall j, In j (snd res) -> is_live (heap (r_st r2)) j = true).
      { intros j Hj. apply (held_live ct cd cs cc cm cr j r2 G2). rewrite Forall_forall in Q2. auto. }
      destruct (release_good ct cd cs cc cm cr r r2 (snd res) G2 X02 Hlive) as [G3 [Er _]].
      unfold bind, release, ret in E3. injection E3 as <- _.
      unfold release in G3, Er. cbn [fst] in G3, Er.
      split.
      + apply (held_live ct cd cs cc cm cr i _ G3). unfold Held. rewrite Er. apply in_or_app. right.
        apply in_map. exact Qi.
      + destruct (hx_old _ _ _ (re_heap _ _ X2) i o Ho) as [o2 [Ho2 K2]].
        destruct (hx_old _ _ _ (hext_collect anyobj (cut_roots (r_st r2) (length (roots (r_st r))) (snd res))) i o2 Ho2)
          as [o3 [Ho3 K3]].
        exists o, o3. repeat split; [exact Ho | exact Ho3 | eapply okill_trans; eauto].
  Qed.
End Closed.

(* ---- the five base classes (set_io_objects() without arguments) ---- *)
Definition base_g : cfg := g 0 2 1 3 4.

Lemma base_cfg_of : cfg_of base_slots = Some base_g.
Proof. reflexivity. Qed.

Lemma base_cfg_ok : cfg_okb base_ctable 0 2 1 3 4 = true.
Proof. vm_compute. reflexivity. Qed.

Lemma base_cfg_usable : cfg_of base_slots = Some base_g /\ cfg_okb base_ctable 0 2 1 3 4 = true.
Proof. split; [exact base_cfg_of | exact base_cfg_ok]. Qed.

Theorem reader_no_fault_base ig lines :
  forallb line_okb lines = true ->
  forall r' k, read_pil base_ctable base_g ig lines (rinit (init base_ctable 0)) = (r', Err k) -> is_fault k = false.
Proof.
  intros HL. apply (reader_no_fault base_ctable 0 2 1 3 4 base_cfg_ok ig lines _ HL). apply rgood_init.
Qed.

(* ---- C14: the complement of a sequenced domain carries the reverse Watson-Crick complement ---- *)
Lemma invert_seq ct i r r1 x : invert ct i r = (r1, x) -> r_seq r1 = r_seq r.
Proof.
  unfold invert, call. destruct (dom_complement ct (r_st r) i) as [st' [id b|k e]]; intros H; injection H as <- _; reflexivity.
Qed.

(* the document loop files domain i: `comp = ~obj`; when obj has a sequence and comp has none,
   comp.sequence = reverse_wc_complement(obj.sequence) (Model/Iupac.v: the table of C17 mapped over
   the reversed sequence); an unknown nucleotide is a PilFormatError *)
Theorem complement_sequence ct g i d acc r r1 comp sq :
  gD g = Some d -> isinst ct (r_st r) i d = true ->
  invert ct i r = (r1, Ok comp) ->
  attr_get i (r_seq r1) = Some sq -> attr_get comp (r_seq r1) = None ->
  match Iupac.reverse_wc_complement false sq with
  | Ok s' =>
      exists acc', file_obj ct g (RObj i) acc r =
                   (mkR (r_st r1) (attr_set comp s' (r_seq r1)) (r_conc r1) (r_rate r1), Ok (acc', [i; comp]))
  | Err _ => file_obj ct g (RObj i) acc r = (r1, Err ePilFormat)
  end.
Proof.
  intros Hd Hi Hinv Hs Hc. unfold file_obj. rewrite Hd.
  assert (E1 : inst_slot ct i (Some d) r = (r, Ok true)).
  { unfold inst_slot. cbn [slot]. unfold bind, ret, get_state. rewrite Hi. reflexivity. }
  rewrite (bind_ok _ _ _ _ _ E1). cbv iota.
  rewrite (bind_ok get_state _ r r (r_st r) eq_refl). cbv zeta.
  rewrite (bind_ok _ _ _ _ _ Hinv).
  rewrite (bind_ok (fun r0 => (r0, Ok r0)) _ r1 r1 r1 eq_refl).
  rewrite Hs, Hc.
  destruct (Iupac.reverse_wc_complement false sq) as [s'|k] eqn:E.
  - erewrite (bind_ok (set_seq comp s')); [|reflexivity].
    erewrite (bind_ok get_state); [|reflexivity]. unfold ret. eexists. reflexivity.
  - unfold Iupac.reverse_wc_complement, Iupac.map_tab in E. destruct (Val.omap _ _); [discriminate|].
    injection E as <-. replace (str_eqb eKey eKey) with true by reflexivity.
    erewrite (bind_err (fail ePilFormat)); reflexivity.
Qed.
