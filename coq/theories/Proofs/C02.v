(* C02: the canonical form is the minimal rotation and does not depend on which
   rotation is supplied.  Built on the rotation theory (Proofs/Rot*.v). *)
From Coq Require Import List Arith ZArith Lia Bool NArith Permutation.
From DSD Require Import Base.Str Base.Errors Base.Sort Model.ComplexUtils Model.Rotation Model.Compare Model.Canon
  Proofs.C10 Proofs.RotTree Proofs.RotOnce Proofs.RotOrbit Proofs.RotStrands Proofs.RotGen.
Import ListNotations.

Lemma nth_error_Some_lt {A} (l : list A) n x : nth_error l n = Some x -> n < length l.
Proof. intros H. apply nth_error_Some. congruence. Qed.

Lemma nth_error_map_seq {A} (f : nat -> A) k : forall s e, e < k ->
  nth_error (map f (seq s k)) e = Some (f (s + e)).
Proof.
  induction k as [|k IH]; intros s e H; [lia|]. cbn [seq map]. destruct e as [|e]; cbn [nth_error].
  - rewrite Nat.add_0_r. reflexivity.
  - rewrite IH by lia. f_equal. f_equal. lia.
Qed.

Lemma iter_rotT_mod j x : good x -> Nat.iter j rotT x = Nat.iter (j mod nstr (snd x)) rotT x.
Proof.
  intros G. pose proof (rot_iter_mod j x G) as H.
  rewrite !rot_iter_rotT in H by exact G. injection H as H. exact H.
Qed.

(* the recorded representations are the successive rotations *)
Lemma rot_record_spec k : forall x, good x ->
  rot_record k x = Ok (map (fun j => Nat.iter j rotT x) (seq 0 k)).
Proof.
  induction k as [|k IH]; intros x G; [reflexivity|].
  cbn [rot_record]. destruct (rotT_ok x G) as [E Gy]. unfold once in E. unfold rot1. rewrite E. cbn [rbind].
  rewrite IH by exact Gy. cbn [rbind seq map Nat.iter]. f_equal. f_equal.
  rewrite <- seq_shift, map_map. apply map_ext. intros j. rewrite iter_succ_r. reflexivity.
Qed.

Lemma n_strands_nstr x : goodNE x -> n_strands (fst x) = nstr (snd x).
Proof. apply size_nstr. Qed.

Lemma ckey_eqb_eq a b : ckey_eqb a b = true <-> a = b.
Proof. unfold ckey_eqb. apply (eqb_iff ckey_cmp good_ckey). Qed.

(* last_index finds an index holding the key, when there is one *)
Lemma last_index_some k l : forall i acc,
  (In k l \/ acc <> None) -> exists e, last_index k l i acc = Some e.
Proof.
  induction l as [|x r IH]; intros i acc H; cbn [last_index].
  - destruct H as [[]|H]. destruct acc; [eauto|congruence].
  - apply IH. destruct (ckey_eqb k x) eqn:E; [right; discriminate|].
    destruct H as [[H|H]|H]; [|left; exact H|right; exact H].
    subst x. rewrite (proj2 (ckey_eqb_eq k k) eq_refl) in E. discriminate.
Qed.

Lemma last_index_nth k l : forall i acc e,
  last_index k l i acc = Some e ->
  (acc = Some e) \/ (i <= e /\ nth_error l (e - i) = Some k).
Proof.
  induction l as [|x r IH]; intros i acc e H; cbn [last_index] in H; [left; exact H|].
  apply IH in H. destruct H as [H|[H1 H2]].
  - destruct (ckey_eqb k x) eqn:E; [|left; exact H].
    injection H as <-. right. split; [lia|]. rewrite Nat.sub_diag. cbn. apply ckey_eqb_eq in E. congruence.
  - right. split; [lia|]. replace (e - i) with (S (e - S i)) by lia. exact H2.
Qed.

Lemma min_key_spec l c : min_key l = Some c ->
  In c l /\ forall r, In r l -> leb ckey_cmp c r = true.
Proof.
  unfold min_key. destruct (sort_by (fun x => x) ckey_cmp l) as [|h t] eqn:E; [discriminate|].
  intros H; injection H as <-. split.
  - apply (Permutation_in _ (sort_perm (fun x => x) ckey_cmp l)). rewrite E. left; reflexivity.
  - intros r Hr. apply (sort_head_min (fun x => x) ckey_cmp good_ckey l h t E r Hr).
Qed.

(* ---- canon_min: without any hypothesis on the input ---- *)
Theorem canon_is_minimal_rotation seq st canon turns rots :
  identifiers_fresh seq st = Ok (canon, turns, rots) ->
  rot_record (n_strands seq) (seq, st) = Ok rots /\
  In canon rots /\ forall r, In r rots -> leb ckey_cmp canon r = true.
Proof.
  unfold identifiers_fresh. destruct (negb (length seq =? length st)); [discriminate|].
  destruct (n_strands seq =? 0); [discriminate|].
  destruct (rot_record (n_strands seq) (seq, st)) as [l|]; cbn [rbind]; [|discriminate].
  destruct (min_key l) as [c|] eqn:M; [|discriminate].
  destruct (last_index c l 0 None); [|discriminate].
  intros H; injection H as <- <- <-. split; [reflexivity|]. apply min_key_spec, M.
Qed.

(* ---- on well-formed aligned input with non-empty strands ---- *)
Lemma rotations_record x : goodNE x ->
  rot_record (n_strands (fst x)) x = Ok (rotations x).
Proof. intros GN. rewrite (n_strands_nstr x GN). apply rot_record_spec, GN. Qed.

Lemma rotations_nonempty x : rotations x <> [].
Proof. unfold rotations, nstr. cbn [seq map]. discriminate. Qed.

Lemma aligned_len x : good x -> (length (fst x) =? length (snd x)) = true.
Proof. intros [Ha _]. apply Nat.eqb_eq, aligned_length, Ha. Qed.

Theorem identifiers_fresh_total x : goodNE x ->
  exists canon e,
    identifiers_fresh (fst x) (snd x)
      = Ok (canon, wrap (- Z.of_nat e) (Z.of_nat (nstr (snd x))), rotations x) /\
    e < nstr (snd x) /\ canon = Nat.iter e rotT x /\
    forall j, leb ckey_cmp canon (Nat.iter j rotT x) = true.
Proof.
  intros GN. pose proof GN as [G N]. unfold identifiers_fresh.
  rewrite (aligned_len x G). cbn [negb].
  destruct x as [sq st]. cbn [fst snd] in *.
  pose proof (n_strands_nstr (sq, st) GN) as NS0. cbn [fst snd] in NS0.
  assert (Z0 : (n_strands sq =? 0) = false) by (rewrite NS0; unfold nstr; reflexivity). rewrite Z0.
  pose proof (rotations_record (sq, st) GN) as R. cbn [fst] in R. rewrite R. cbn [rbind].
  destruct (min_key (rotations (sq, st))) as [c|] eqn:M.
  2:{ exfalso. unfold min_key in M.
      pose proof (sort_perm (fun x => x) ckey_cmp (rotations (sq, st))) as P.
      destruct (sort_by (fun x => x) ckey_cmp (rotations (sq, st))); [|discriminate].
      apply Permutation_nil in P. exact (rotations_nonempty _ P). }
  destruct (min_key_spec _ _ M) as [Hin Hmin].
  destruct (last_index_some c (rotations (sq, st)) 0 None (or_introl Hin)) as [e He].
  rewrite He. pose proof (n_strands_nstr (sq, st) GN) as NS. cbn [fst snd] in NS. rewrite NS.
  exists c, e. split; [reflexivity|].
  destruct (last_index_nth _ _ _ _ _ He) as [H|[_ H]]; [discriminate|]. rewrite Nat.sub_0_r in H.
  unfold rotations in H. cbn [snd] in H.
  assert (Hlt : e < nstr st).
  { apply nth_error_Some_lt in H. rewrite map_length, seq_length in H. exact H. }
  rewrite (nth_error_map_seq _ _ 0 _ Hlt) in H. cbn [Nat.add] in H. injection H as H.
  split; [exact Hlt|]. split; [symmetry; exact H|].
  intros j. assert (E : Nat.iter j rotT (sq, st) = Nat.iter (j mod nstr st) rotT (sq, st)).
  { apply iter_rotT_mod, G. }
  rewrite E. apply Hmin. unfold rotations. cbn [snd]. apply in_map_iff.
  exists (j mod nstr st). split; [reflexivity|]. apply in_seq.
  assert (Hn : nstr st <> 0) by (unfold nstr; lia).
  pose proof (Nat.mod_upper_bound j (nstr st) Hn). lia.
Qed.

Lemma iter_add {A} (f : A -> A) p q x : Nat.iter (p + q) f x = Nat.iter p f (Nat.iter q f x).
Proof.
  induction p as [|p IH]; [reflexivity|].
  change (f (Nat.iter (p + q) f x) = f (Nat.iter p f (Nat.iter q f x))). f_equal. exact IH.
Qed.

Lemma wrap_neg e n : (e < n)%nat ->
  wrap (- Z.of_nat e) (Z.of_nat n) = Z.of_nat (if Nat.eqb e 0 then 0 else n - e).
Proof.
  intros H. unfold wrap. destruct (Nat.eqb_spec e 0) as [->|Hn].
  - change (Z.of_nat 0) with 0%Z. rewrite Z.opp_0, Z.mod_0_l by lia. rewrite Z.add_0_l. apply Z.mod_same. lia.
  - assert (E : ((- Z.of_nat e) mod Z.of_nat n = Z.of_nat n - Z.of_nat e)%Z).
    { symmetry. apply (Z.mod_unique_pos _ _ (-1)%Z); lia. }
    rewrite E. replace (Z.of_nat n - Z.of_nat e + Z.of_nat n)%Z with (Z.of_nat (n - e) + 1 * Z.of_nat n)%Z by lia.
    rewrite Z.mod_add by lia. apply Z.mod_small. lia.
Qed.

(* turns counts the rotations from the canonical form to the input *)
Theorem turns_correct x canon turns rots : goodNE x ->
  identifiers_fresh (fst x) (snd x) = Ok (canon, turns, rots) ->
  (0 <= turns < Z.of_nat (nstr (snd x)))%Z /\ Nat.iter (Z.to_nat turns) rotT canon = x.
Proof.
  intros GN H. destruct (identifiers_fresh_total x GN) as (c & e & E & He & Hc & _).
  pose proof GN as [G _]. pose proof (rotT_orbit x G) as O.
  assert (Hpos : 0 < nstr (snd x)) by (unfold nstr; lia).
  remember (nstr (snd x)) as n eqn:Hn0.
  rewrite E in H. injection H as H1 H2 H3. subst canon turns.
  rewrite (wrap_neg e _ He). destruct (Nat.eqb_spec e 0) as [->|Hn].
  - split; [lia|]. cbn. exact Hc.
  - split; [lia|]. rewrite Nat2Z.id, Hc, <- iter_add.
    replace (n - e + e) with n by lia. exact O.
Qed.

Definition canon_T (x : cplx) : option ckey :=
  match identifiers_fresh (fst x) (snd x) with Ok r => Some (fst (fst r)) | Err _ => None end.

Lemma canon_T_spec x : goodNE x ->
  exists e, e < nstr (snd x) /\ canon_T x = Some (Nat.iter e rotT x) /\
            forall j, leb ckey_cmp (Nat.iter e rotT x) (Nat.iter j rotT x) = true.
Proof.
  intros GN. destruct (identifiers_fresh_total x GN) as (c & e & E & He & Hc & Hm).
  exists e. unfold canon_T. rewrite E. cbn [fst]. subst c. auto.
Qed.

Lemma nstr_rotT x : good x -> nstr (snd (rotT x)) = nstr (snd x).
Proof. intros G. destruct (rotT_ok x G) as [E _]. apply (rot_once_nstr x _ G E). Qed.

(* the canonical form does not depend on which rotation is supplied *)
Theorem canon_rotation_invariant x : goodNE x -> canon_T (rotT x) = canon_T x.
Proof.
  intros GN. pose proof GN as [G _]. pose proof (rotT_goodNE x GN) as GN'.
  destruct (canon_T_spec x GN) as (e & He & Ex & Mx).
  destruct (canon_T_spec (rotT x) GN') as (e' & He' & Ey & My).
  rewrite Ex, Ey. f_equal.
  assert (S1 : Nat.iter e' rotT (rotT x) = Nat.iter (S e') rotT x) by (rewrite iter_succ_r; reflexivity).
  assert (S2 : Nat.iter e rotT x = Nat.iter (e + nstr (snd x) - 1) rotT (rotT x)).
  { rewrite <- iter_succ_r. replace (S (e + nstr (snd x) - 1)) with (e + nstr (snd x)) by (unfold nstr; lia).
    rewrite iter_add, rotT_orbit by exact G. reflexivity. }
  apply (leb_antisym ckey_cmp good_ckey).
  - rewrite S2. apply My.
  - rewrite S1. apply Mx.
Qed.

Theorem canon_orbit_invariant k x : goodNE x -> canon_T (Nat.iter k rotT x) = canon_T x.
Proof.
  intros GN. induction k as [|k IH]; [reflexivity|].
  rewrite iter_S. rewrite canon_rotation_invariant by (apply iter_rotT_goodNE, GN). exact IH.
Qed.

(* and inequivalent descriptions never share a canonical form *)
Theorem canon_equal_same_orbit x y : goodNE x -> goodNE y ->
  canon_T x = canon_T y -> exists k, y = Nat.iter k rotT x.
Proof.
  intros GX GY H. pose proof GY as [Gy _].
  destruct (canon_T_spec x GX) as (e & He & Ex & _).
  destruct (canon_T_spec y GY) as (e' & He' & Ey & _).
  rewrite Ex, Ey in H. injection H as H.
  exists (nstr (snd y) - e' + e). rewrite iter_add, H, <- iter_add.
  replace (nstr (snd y) - e' + e') with (nstr (snd y)) by lia. symmetry. apply rotT_orbit, Gy.
Qed.

(* non-vacuity: three identical strands, the structure breaks the tie *)
Example ex_canon :
  let sq := [[97%N]; sPlus; [97%N]; sPlus; [97%N]] in
  identifiers_fresh sq [cD; cP; cO; cP; cC]
  = Ok ((sq, [cO; cP; cC; cP; cD]), 2%Z,
        [(sq, [cD; cP; cO; cP; cC]); (sq, [cO; cP; cC; cP; cD]); (sq, [cO; cP; cD; cP; cC])]).
Proof. vm_compute. reflexivity. Qed.
