(* Reader model, C14: a consistent system is never refused.
   Part 4: reading a domain statement (`length` / `sequence`) of a new, unstarred name. *)
From Coq Require Import List NArith ZArith Bool Arith Lia.
From DSD Require Import Base.Str Base.Errors Model.ComplexUtils Model.RegStr Model.ReaderStr Model.PyNum
  Model.Peg Model.Kernel Model.DispatchKernel Model.Heap Model.Registry Model.Reader Model.ReaderShape Model.ReaderConsistent
  Proofs.RegHeap Proofs.RegInv Proofs.RegCalls Proofs.RegExt Proofs.ReaderBasic Proofs.ReaderStmt Proofs.ReaderHeap
  Proofs.ReaderInv Proofs.ReaderHoare Proofs.ReaderNoFault Proofs.ReaderThms Proofs.ReaderBuilds Proofs.ReaderKernel
  Proofs.ReaderMore Proofs.ReaderSys Proofs.ReaderSysA Proofs.ReaderSysB.
From DSD Require Model.Iupac.
Import ListNotations.

Section StepDom.
  Variable ct : ctable.
  Variables cd cs cc cm cr : nat.
  Hypothesis CO : cfg_okb ct cd cs cc cm cr = true.
  Hypothesis PL : forall c, In c [cd; cs; cc; cm; cr] -> exists ci, nth_error ct c = Some ci /\ c_fail ci = FNone.
  Notation G := (g cd cs cc cm cr).
  Notation cls_of := (cls_of cd cs cc cm cr).
  Notation Core := (Core cd cs cc cm cr ct).
  Notation SInv := (SInv cd cs cc cm cr ct).
  Notation Built := (Built cd cs cc cm cr).
  Notation dobj := (dobj cd).

  (* the statement declares the domain x of length l, with the sequence osq *)
  Definition dom_stmt (s : stmt) (x : pstr) (l : Z) (osq : option (pstr * pstr)) : Prop :=
    (s = SDl x l /\ osq = None) \/
    (exists sq chk sq', s = SSl x sq chk /\ l = Z.of_nat (length sq) /\ osq = Some (sq, sq') /\
       match chk with Some n => Z.eqb n (Z.of_nat (length sq)) = true | None => True end /\
       Iupac.reverse_wc_complement false sq = Ok sq').

  Lemma roots_cut2 (a : list (option nat)) x y :
    firstn (length a) ((a ++ [x]) ++ [y]) ++ [x; y] = (a ++ [x]) ++ [y].
  Proof.
    rewrite <- app_assoc. rewrite firstn_app, Nat.sub_diag, firstn_all. cbn [firstn]. rewrite app_nil_r.
    reflexivity.
  Qed.

  Theorem step_dom prev r acc line s x l osq :
    SInv prev r acc -> decode line = Ok s -> dom_stmt s x l osq ->
    starred x = false -> nonempty x = true -> (0 <= l)%Z -> str_eqb x sPlus = false ->
    ~ In x (map fst (decl_doms prev)) ->
    exists r' i j, (forall accR, read_one ct G None (TList line) accR r = (r', Ok (apply_delta (FDom x i j) accR))) /\
      SInv (prev ++ [s]) r' (apply_delta (FDom x i j) acc) /\ Later r acc r' (apply_delta (FDom x i j) acc).
  Proof.
    intros [C B] Hdec Hs Hst Hne Hl Hpl Hnew.
    set (st := r_st r). set (i := length (heap st)).
    assert (Hdecl_s : decl_doms [s] = [(x, l)]).
    { destruct Hs as [[-> _]|[sq [chk [sq' [-> [-> _]]]]]]; reflexivity. }
    (* the two names are new *)
    assert (Fx : dlookup x (po_domains acc) = None).
    { apply dlookup_notin. intros Hin. apply (si_keys _ _ _ _ _ _ _ _ _ C KindD) in Hin.
      apply declared_dom_in in Hin. destruct Hin as [x0 [H0 [->| ->]]]; [contradiction|].
      rewrite star_starred in Hst. discriminate. }
    assert (Fsx : dlookup (star x) (po_domains acc) = None).
    { apply dlookup_notin. intros Hin. apply (si_keys _ _ _ _ _ _ _ _ _ C KindD) in Hin.
      apply declared_dom_in in Hin. destruct Hin as [x0 [H0 [E|E]]].
      - apply in_map_iff in H0. destruct H0 as [[x1 l1] [E1 H0]]. cbn in E1. subst x1.
        destruct (si_decl _ _ _ _ _ _ _ _ _ C x0 l1 H0) as [U _]. rewrite <- E, star_starred in U. discriminate.
      - apply star_inj in E. subst x0. contradiction. }
    pose proof (si_reg _ _ _ _ _ _ _ _ _ C KindD ltac:(discriminate)) as RegD. cbn [cls_of ReaderSysA.cls_of dict_of] in RegD.
    assert (Nx : nlookup x (cs_names (cget st cd)) = None) by (unfold st; rewrite RegD; exact Fx).
    assert (Nsx : nlookup (star x) (cs_names (cget st cd)) = None) by (unfold st; rewrite RegD; exact Fsx).
    pose proof (dom_key_unreg ct cd cs cc cm cr CO prev r acc x l C Nx) as Kx.
    (* read_pil_line *)
    set (seq1 := match osq with Some (sq, _) => attr_set i sq (r_seq r) | None => r_seq r end).
    set (r1 := mkR (hold (mk_new st (cls_of KindD) x (KDom x l) [] [] (DDom l)) i) seq1 (r_conc r) (r_rate r)).
    pose proof (domain_new_exact ct cd cs cc cm cr PL r x l (si_sok _ _ _ _ _ _ _ _ _ C) Hst Hne Nx Nsx Kx) as E1.
    fold st in E1. fold i in E1.
    assert (Ex : exec_stmt ct G line s r = (r1, Ok (RObj i))).
    { destruct Hs as [[-> ->]|[sq [chk [sq' [-> [-> [-> [Hchk Hrc]]]]]]]]; cbn [exec_stmt].
      - rewrite (bind_ok _ _ _ _ _ E1). reflexivity.
      - assert (Ec : forall r0, (match chk with
                                 | Some n => if Z.eqb n (Z.of_nat (length sq)) then ret tt else fail ePilFormat
                                 | None => ret tt
                                 end) r0 = (r0, Ok tt)).
        { intros r0. destruct chk as [n|]; [rewrite Hchk|]; reflexivity. }
        rewrite (bind_ok _ _ _ _ _ (Ec r)), (bind_ok _ _ _ _ _ E1). reflexivity. }
    (* the first object *)
    destruct (core_add ct cd cs cc cm cr CO prev (prev ++ [s]) r acc KindD x (KDom x l) [] [] (DDom l)
                seq1 (r_conc r) (r_rate r) C ltac:(discriminate)) as [C1 L1].
    { split; [exact Nx|]. split; [exact Kx|]. intros k' [].  }
    { intros y []. }
    { cbn. split; reflexivity. }
    { intros _. eauto. }
    { intros k' n Hn. apply declared_app. left. exact Hn. }
    { apply declared_app. right. apply declared_dom_in. exists x. rewrite Hdecl_s. cbn. auto. }
    { intros y ly Hy. rewrite decl_doms_app, Hdecl_s in Hy. apply in_app_or in Hy. destruct Hy as [Hy|[Hy|[]]].
      - apply (si_decl _ _ _ _ _ _ _ _ _ C y ly Hy).
      - injection Hy as <- <-. auto. }
    { intros ri Hri. apply in_or_app. left. exact Hri. }
    { intros j Hj. fold st in Hj. fold i in Hj. subst seq1. destruct osq as [[sq sq']|]; [|auto].
      rewrite attr_get_set. apply Nat.eqb_neq in Hj. rewrite Hj. auto. }
    { intros n0 names0 sst0 Hin. left. rewrite decl_cplx_snoc in Hin.
      assert (Ee : cplx_entry prev s = []) by (destruct Hs as [[-> _]|[sq [chk [sq' [-> _]]]]]; reflexivity).
      rewrite Ee, app_nil_r in Hin. exact Hin. }
    fold st in C1, L1. fold i in C1, L1. fold r1 in C1, L1.
    set (acc1 := with_dict KindD acc (dset x i (dict_of KindD acc))) in *.
    (* the complement *)
    pose proof (si_reg _ _ _ _ _ _ _ _ _ C1 KindD ltac:(discriminate)) as RegD1.
    cbn [cls_of ReaderSysA.cls_of] in RegD1.
    assert (ED1 : dict_of KindD acc1 = dset x i (po_domains acc)) by reflexivity.
    assert (Nx1 : nlookup x (cs_names (cget (r_st r1) cd)) = Some i).
    { rewrite RegD1, ED1, dlookup_dset, (proj2 (str_eqb_iff x x) eq_refl). reflexivity. }
    assert (Nsx1 : nlookup (star x) (cs_names (cget (r_st r1) cd)) = None).
    { rewrite RegD1, ED1, dlookup_dset. destruct (str_eqb (star x) x) eqn:E; [|exact Fsx].
      apply str_eqb_iff in E. exfalso. exact (star_neq x E). }
    pose proof (dom_key_unreg ct cd cs cc cm cr CO _ r1 acc1 (star x) l C1 Nsx1) as Ksx.
    assert (Hi1 : hget (heap (r_st r1)) i = Some (dobj x l)).
    { unfold r1. cbn [r_st hold heap]. rewrite heap_mk_new. apply hget_new. }
    pose proof (invert_exact ct cd cs cc cm cr PL r1 i x l (si_sok _ _ _ _ _ _ _ _ _ C1) Hi1 Hst Hne Hl Nx1 Nsx1 Ksx) as E2.
    assert (Len1 : length (heap (r_st r1)) = S i) by reflexivity.
    rewrite Len1 in E2.
    set (r2 := with_st r1 (hold (mk_new (r_st r1) cd (star x) (KDom (star x) l) [] [] (DDom l)) (S i))) in E2.
    (* the if/elif chain *)
    assert (Hinst : isinst ct (r_st r1) i cd = true).
    { unfold isinst. rewrite Hi1. cbn [o_cls dobj ReaderSysA.dobj new_obj]. apply subclass_refl. }
    assert (On1 : oname (r_st r1) i = x) by (unfold oname, obj_name; rewrite Hi1; reflexivity).
    assert (On2 : oname (r_st r2) (S i) = star x).
    { unfold oname, obj_name, r2. cbn [r_st with_st hold heap]. rewrite heap_mk_new, <- Len1, hget_new. reflexivity. }
    assert (A0 : attr_get (S i) (r_seq r2) = None).
    { change (r_seq r2) with seq1. subst seq1.
      destruct (si_attr _ _ _ _ _ _ _ _ _ C (S i)) as [A _]; [fold st; fold i; lia|].
      destruct osq as [[sq sq']|]; [|exact A]. rewrite attr_get_set.
      destruct (Nat.eqb (S i) i) eqn:E; [apply Nat.eqb_eq in E; lia | exact A]. }
    set (seq3 := match osq with Some (_, sq') => attr_set (S i) sq' seq1 | None => seq1 end).
    set (r3 := mkR (hold (mk_new (r_st r1) (cls_of KindD) (star x) (KDom (star x) l) [] [] (DDom l)) (length (heap (r_st r1))))
                   seq3 (r_conc r1) (r_rate r1)).
    set (acc2 := with_dict KindD acc1 (dset (star x) (length (heap (r_st r1))) (dict_of KindD acc1))).
    assert (Efg : forall accR, file_obj ct G (RObj i) accR r1 = (r3, Ok (apply_delta (FDom x i (S i)) accR, [i; S i]))).
    { intros accR. pose proof (file_obj_dom ct cd cs cc cm cr i accR r1 r2 (S i) Hinst E2) as Ef. cbv zeta in Ef.
      rewrite On1, On2, A0 in Ef. rewrite Ef. change (r_seq r2) with seq1. subst seq1.
      destruct Hs as [[-> ->]|[sq [chk [sq' [-> [-> [-> [Hchk Hrc]]]]]]]].
      - destruct (si_attr _ _ _ _ _ _ _ _ _ C i) as [A _]; [fold st; fold i; lia|]. rewrite A. reflexivity.
      - rewrite attr_get_set, Nat.eqb_refl, Hrc. reflexivity. }
    assert (Ef' : file_obj ct G (RObj i) acc r1 = (r3, Ok (acc2, [i; S i]))) by exact (Efg acc).
    (* the second object *)
    destruct (core_add ct cd cs cc cm cr CO (prev ++ [s]) (prev ++ [s]) r1 acc1 KindD (star x) (KDom (star x) l) [] []
                (DDom l) seq3 (r_conc r1) (r_rate r1) C1 ltac:(discriminate)) as [C2 L2].
    { split; [exact Nsx1|]. split; [exact Ksx|]. intros k' []. }
    { intros y []. }
    { cbn. split; reflexivity. }
    { intros _. eauto. }
    { auto. }
    { apply declared_app. right. apply declared_dom_in. exists x. rewrite Hdecl_s. cbn. auto. }
    { apply (si_decl _ _ _ _ _ _ _ _ _ C1). }
    { auto. }
    { intros j Hj. rewrite Len1 in Hj. subst seq3. destruct osq as [[sq sq']|]; [|auto].
      rewrite attr_get_set. apply Nat.eqb_neq in Hj. rewrite Hj. auto. }
    { intros n0 names0 sst0 Hin. left. exact Hin. }
    fold r3 in C2, L2. fold acc2 in C2, L2.
    (* release *)
    assert (Ecut : cut_roots (r_st r3) (length (roots st)) [i; S i] = r_st r3).
    { assert (Er : roots (r_st r3) = (roots st ++ [Some i]) ++ [Some (S i)]) by reflexivity.
      unfold cut_roots. rewrite Er. cbn [map]. rewrite roots_cut2, <- Er. destruct (r_st r3); reflexivity. }
    assert (E3 : forall accR, read_one ct G None (TList line) accR r = (r3, Ok (apply_delta (FDom x i (S i)) accR))).
    { intros accR.
      pose proof (read_one_ok ct cd cs cc cm cr line s accR r r1 (RObj i) r3 _ Hdec Ex (Efg accR)) as E3.
      cbn [fst snd] in E3. fold st in E3.
      rewrite Ecut, (collect_id ct _ (si_sok _ _ _ _ _ _ _ _ _ C2)), with_st_id in E3. exact E3. }
    exists r3, i, (S i). split; [exact E3|]. change (apply_delta (FDom x i (S i)) acc) with acc2.
    assert (L : Later r acc r3 acc2) by (eapply later_trans; eauto).
    split; [|exact L]. split; [exact C2|].
    intros s0 Hs0. apply in_app_or in Hs0. destruct Hs0 as [Hs0|[<-|[]]].
    - eapply built_later; [exact L | apply B; exact Hs0].
    - assert (D1 : dlookup x (po_domains acc2) = Some i).
      { change (po_domains acc2) with (dset (star x) (S i) (dset x i (po_domains acc))).
        rewrite dlookup_dset. destruct (str_eqb x (star x)) eqn:E.
        - apply str_eqb_iff in E. exfalso. exact (star_neq x (eq_sym E)).
        - rewrite dlookup_dset, (proj2 (str_eqb_iff x x) eq_refl). reflexivity. }
      assert (D2 : dlookup (star x) (po_domains acc2) = Some (S i)).
      { change (po_domains acc2) with (dset (star x) (S i) (dset x i (po_domains acc))).
        rewrite dlookup_dset, (proj2 (str_eqb_iff _ _) eq_refl). reflexivity. }
      assert (H1 : hget (heap (r_st r3)) i = Some (dobj x l)).
      { unfold r3. cbn [r_st hold heap]. rewrite heap_mk_new. apply hget_old_some. exact Hi1. }
      assert (H2 : hget (heap (r_st r3)) (S i) = Some (dobj (star x) l)).
      { unfold r3. cbn [r_st hold heap]. rewrite heap_mk_new, <- Len1. apply hget_new. }
      assert (Ai : forall j, attr_get j (r_seq r) = None -> j <> i -> j <> S i -> attr_get j seq3 = None).
      { intros j A N1 N2. subst seq3 seq1. destruct osq as [[sq sq']|]; [|exact A].
        rewrite !attr_get_set. apply Nat.eqb_neq in N1, N2. rewrite N1, N2. exact A. }
      destruct (si_attr _ _ _ _ _ _ _ _ _ C i) as [Aa _]; [fold st; fold i; lia|].
      destruct (si_attr _ _ _ _ _ _ _ _ _ C (S i)) as [Ab _]; [fold st; fold i; lia|].
      destruct Hs as [[-> ->]|[sq [chk [sq' [-> [-> [-> [Hchk Hrc]]]]]]]]; cbn [Built ReaderSysA.Built].
      + exists i, (S i). repeat (split; [assumption|]). first [exact Ab | split; [exact Aa | exact Ab]].
      + exists i, (S i), sq'. repeat (split; [assumption|]). change (r_seq r3) with seq3. subst seq3 seq1.
        rewrite !attr_get_set, Nat.eqb_refl. destruct (Nat.eqb i (S i)) eqn:E; [apply Nat.eqb_eq in E; lia|].
        rewrite Nat.eqb_refl. split; reflexivity.
  Qed.
End StepDom.
