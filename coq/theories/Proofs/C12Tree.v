(* C12: kernel trees are exactly the aligned, well-formed, domain-level
   complementary (sequence, structure) pairs (tree_exists and its converse), and
   the complete kernel round trip through the regenerated PIL grammar
   (kernel_roundtrip_model). *)
From Coq Require Import String List NArith Bool Arith Lia.
(* the PEG development first: its `flatten`, `item`, ... must not shadow Kernel's *)
From DSD Require Import Base.Str Base.Errors Base.Val Model.Peg Model.DispatchPeg
  Proofs.PegMono Proofs.PegRules Proofs.PegStd Proofs.PegDoc Proofs.PegKw Proofs.C13Doc Proofs.PilLex
  Proofs.C13Ms Proofs.C13Kc.
From DSDGen Require Import PilGrammar.
From DSD Require Import Model.ComplexUtils Model.Loops Model.Compare
  Model.Canon Model.Views Model.Kernel Model.DispatchKernel Dyck.Dyck
  Proofs.Mpt Proofs.Db Proofs.Assoc Proofs.C06 Proofs.Loops Proofs.LoopsConn Proofs.LoopsObj
  Proofs.RotScan Proofs.RotTree Proofs.RotOnce Proofs.C12.
Import ListNotations.

(* ================================================================== *)
(* Part 1: names by position                                           *)

(* the names of a sequence with the position (strand, index) they sit at *)
Fixpoint nassoc (s : list pstr) (p : loc) : list (loc * pstr) :=
  match s with
  | [] => []
  | x :: r => if str_eqb sPlus x then nassoc r (S (fst p), 0)
              else (p, x) :: nassoc r (fst p, S (snd p))
  end.

Fixpoint nadv (s : list pstr) (p : loc) : loc :=
  match s with
  | [] => p
  | x :: r => if str_eqb sPlus x then nadv r (S (fst p), 0) else nadv r (fst p, S (snd p))
  end.

Lemma nassoc_app s1 s2 : forall p, nassoc (s1 ++ s2) p = nassoc s1 p ++ nassoc s2 (nadv s1 p).
Proof.
  induction s1 as [|x r IH]; intros p; cbn [app nassoc nadv]; [reflexivity|].
  destruct (str_eqb sPlus x); [apply IH|]. cbn [app]. f_equal. apply IH.
Qed.

Lemma str_eqb_sym a b : str_eqb a b = str_eqb b a.
Proof.
  destruct (str_eqb a b) eqn:E.
  - apply str_eqb_iff in E. subst. symmetry. apply str_eqb_iff. reflexivity.
  - destruct (str_eqb b a) eqn:E2; [|reflexivity]. apply str_eqb_iff in E2. subst.
    rewrite (proj2 (str_eqb_iff a a) eq_refl) in E. discriminate.
Qed.

(* moving the start position by k strands *)
Lemma nassoc_shift s k : forall p,
  nassoc s (fst p + k, snd p) = map (fun kv => ((fst (fst kv) + k, snd (fst kv)), snd kv)) (nassoc s p).
Proof.
  induction s as [|x r IH]; intros p; cbn [nassoc map]; [reflexivity|].
  destruct (str_eqb sPlus x).
  - apply (IH (S (fst p), 0)).
  - cbn [map fst snd]. f_equal. apply (IH (fst p, S (snd p))).
Qed.

(* a break-free run stays in its strand *)
Lemma nassoc_run s : Forall (fun x => x <> sPlus) s -> forall p a x,
  In (a, x) (nassoc s p) <-> fst a = fst p /\ snd p <= snd a /\ nth_error s (snd a - snd p) = Some x.
Proof.
  induction 1 as [|y s Hy _ IH]; intros p a x; cbn [nassoc].
  - split; [intros []|]. intros (_ & _ & H). destruct (snd a - snd p); discriminate.
  - assert (E : str_eqb sPlus y = false).
    { destruct (str_eqb sPlus y) eqn:E; [|reflexivity]. apply str_eqb_iff in E. congruence. }
    rewrite E. cbn [In]. rewrite (IH (fst p, S (snd p))). cbn [fst snd]. split.
    + intros [H|(H1 & H2 & H3)].
      * injection H as <- <-. rewrite Nat.sub_diag. auto.
      * split; [exact H1|]. split; [lia|]. replace (snd a - snd p) with (S (snd a - S (snd p))) by lia. exact H3.
    + intros (H1 & H2 & H3). destruct (Nat.eq_dec (snd a) (snd p)) as [Heq|Hne].
      * left. rewrite Heq, Nat.sub_diag in H3. injection H3 as <-. destruct a, p; cbn in *; subst; reflexivity.
      * right. split; [exact H1|]. split; [lia|].
        replace (snd a - snd p) with (S (snd a - S (snd p))) in H3 by lia. exact H3.
Qed.

Lemma nadv_run s : Forall (fun x => x <> sPlus) s -> forall p, nadv s p = (fst p, snd p + length s).
Proof.
  induction 1 as [|y s Hy _ IH]; intros p; cbn [nadv length]; [destruct p; cbn; f_equal; lia|].
  assert (E : str_eqb sPlus y = false).
  { destruct (str_eqb sPlus y) eqn:E; [|reflexivity]. apply str_eqb_iff in E. congruence. }
  rewrite E, IH. cbn [fst snd]. f_equal. lia.
Qed.

(* make_strand_table on a sequence without empty strands, read by position *)
Lemma dom_at_cons h T a :
  dom_at (h :: T) a = match fst a with 0 => nth_error h (snd a) | S k => dom_at T (k, snd a) end.
Proof. unfold dom_at. destruct a as [[|k] c]; reflexivity. Qed.

Lemma mst_assoc seq : forall cur,
  Forall (fun x => x <> sPlus) cur ->
  nonempty_strands sPlus seq (match cur with [] => true | _ => false end) = true ->
  forall a x, dom_at (mst_list_aux sPlus seq cur) a = Some x <-> In (a, x) (nassoc (rev cur ++ seq) (0, 0)).
Proof.
  induction seq as [|y r IH]; intros cur Hbf Hne a x; cbn [mst_list_aux nonempty_strands] in *.
  - destruct cur as [|c cur]; [discriminate|]. rewrite app_nil_r.
    assert (Hr : Forall (fun x => x <> sPlus) (rev (c :: cur))) by (apply Forall_rev, Hbf).
    rewrite (nassoc_run _ Hr). cbn [fst snd]. rewrite Nat.sub_0_r, dom_at_cons.
    destruct a as [[|k] ca]; cbn [fst snd].
    + split; [intros H; repeat split; [lia|exact H]|tauto].
    + split; [|intros (H & _); discriminate]. unfold dom_at. cbn. destruct k; discriminate.
  - destruct (str_eqb y sPlus) eqn:E.
    + apply str_eqb_iff in E. subst y. destruct cur as [|c cur]; [discriminate|].
      cbn [negb andb] in Hne.
      assert (Hr : Forall (fun x => x <> sPlus) (rev (c :: cur))) by (apply Forall_rev, Hbf).
      rewrite nassoc_app. cbn [nassoc]. rewrite (proj2 (str_eqb_iff sPlus sPlus) eq_refl).
      rewrite (nadv_run _ Hr). cbn [fst snd].
      rewrite in_app_iff, (nassoc_run _ Hr). cbn [fst snd]. rewrite Nat.sub_0_r, dom_at_cons.
      pose proof (nassoc_shift r 1 (0, 0)) as Hs. cbn [fst snd Nat.add] in Hs. rewrite Hs.
      destruct a as [[|k] ca]; cbn [fst snd].
      * split; [intros H; left; repeat split; [lia|exact H]|].
        intros [(_ & _ & H)|H]; [exact H|].
        apply in_map_iff in H. destruct H as ([[s0 c0] v] & Ev & _). cbn in Ev. injection Ev as Ev _ _. lia.
      * rewrite (IH [] (Forall_nil _) Hne (k, ca) x). cbn [rev app]. split.
        -- intros H. right. apply in_map_iff. exists ((k, ca), x). split; [cbn; f_equal; f_equal; lia|exact H].
        -- intros [(H & _)|H]; [discriminate|].
           apply in_map_iff in H. destruct H as ([[s0 c0] v] & Ev & Hin). cbn in Ev.
           injection Ev as E1 E2 E3. subst. replace k with s0 by lia. exact Hin.
    + assert (Hy : y <> sPlus) by (intros ->; rewrite (proj2 (str_eqb_iff sPlus sPlus) eq_refl) in E; discriminate).
      rewrite (IH (y :: cur) (@Forall_cons _ (fun x => x <> sPlus) y cur Hy Hbf) Hne a x). cbn [rev]. rewrite <- app_assoc. reflexivity.
Qed.

Corollary stab_assoc seq a x :
  nonempty_strands sPlus seq true = true ->
  (dom_at (strand_table_of seq) a = Some x <-> In (a, x) (nassoc seq (0, 0))).
Proof. intros H. apply (mst_assoc seq [] (Forall_nil _) H a x). Qed.

(* ------------------------------------------------------------------ *)
(* sequences aligned with a tree                                        *)

Lemma nplus_false x : str_eqb sPlus x = false <-> x <> sPlus.
Proof.
  split.
  - intros E ->. rewrite (proj2 (str_eqb_iff sPlus sPlus) eq_refl) in E. discriminate.
  - intros H. destruct (str_eqb sPlus x) eqn:E; [|reflexivity]. apply str_eqb_iff in E. congruence.
Qed.

Lemma aligned_DU s r : aligned s (rc (DU r)) -> exists x s', s = x :: s' /\ x <> sPlus /\ aligned s' (rc r).
Proof.
  unfold aligned. rewrite rc_DU. cbn [map]. destruct s as [|x s']; [discriminate|]. cbn [map].
  intros H. injection H as H1 H2. exists x, s'. split; [reflexivity|]. split; [apply nplus_false, H1|exact H2].
Qed.
Lemma aligned_DB s r : aligned s (rc (DB r)) -> exists s', s = sPlus :: s' /\ aligned s' (rc r).
Proof.
  unfold aligned. rewrite rc_DB. cbn [map]. destruct s as [|x s']; [discriminate|]. cbn [map].
  intros H. injection H as H1 H2. change (isP cP) with true in H1. apply str_eqb_iff in H1. subst x.
  exists s'. split; [reflexivity|exact H2].
Qed.
Lemma aligned_DP s i r : aligned s (rc (DP i r)) ->
  exists x si y sr, s = x :: si ++ y :: sr /\ x <> sPlus /\ y <> sPlus /\ aligned si (rc i) /\ aligned sr (rc r).
Proof.
  unfold aligned. rewrite rc_DP. cbn [map]. destruct s as [|x s']; [discriminate|]. cbn [map].
  intros H. injection H as H1 H2. rewrite map_app in H2. cbn [map] in H2.
  apply map_eq_app in H2. destruct H2 as (si & s2 & -> & Hi & H2).
  destruct s2 as [|y sr]; [discriminate|]. cbn [map] in H2. injection H2 as Hy Hr.
  exists x, si, y, sr. split; [reflexivity|]. split; [apply nplus_false, H1|].
  split; [apply nplus_false, Hy|]. split; assumption.
Qed.

Lemma nadv_aligned d : forall s p, aligned s (rc d) -> nadv s p = adv d p.
Proof.
  induction d as [|r IH|r IH|i IHi r IHr]; intros s p H.
  - apply aligned_length in H. destruct s; [reflexivity|discriminate].
  - destruct (aligned_DU _ _ H) as (x & s' & -> & Hx & H'). cbn [nadv adv].
    rewrite (proj2 (nplus_false x) Hx). apply IH, H'.
  - destruct (aligned_DB _ _ H) as (s' & -> & H'). cbn [nadv adv].
    rewrite (proj2 (str_eqb_iff sPlus sPlus) eq_refl). apply IH, H'.
  - destruct (aligned_DP _ _ _ H) as (x & si & y & sr & -> & Hx & Hy & Hi & Hr). cbn [nadv adv].
    rewrite (proj2 (nplus_false x) Hx). change (si ++ y :: sr) with (si ++ [y] ++ sr).
    assert (E : forall q, nadv (si ++ y :: sr) q = nadv sr (let e := nadv si q in (fst e, S (snd e)))).
    { clear - Hy. induction si as [|z si IHs]; intros q; cbn [app nadv].
      - rewrite (proj2 (nplus_false y) Hy). reflexivity.
      - destruct (str_eqb sPlus z); apply IHs. }
    rewrite E. cbn zeta. rewrite (IHi si _ Hi). apply IHr, Hr.
Qed.

Lemma nassoc_DP x si y sr p i :
  x <> sPlus -> y <> sPlus -> aligned si (rc i) ->
  nassoc (x :: si ++ y :: sr) p =
  let q := adv i (fst p, S (snd p)) in
  (p, x) :: nassoc si (fst p, S (snd p)) ++ (q, y) :: nassoc sr (fst q, S (snd q)).
Proof.
  intros Hx Hy Hi. cbn [nassoc]. rewrite (proj2 (nplus_false x) Hx). cbn zeta. f_equal.
  rewrite nassoc_app. f_equal. rewrite (nadv_aligned i si _ Hi). cbn [nassoc].
  rewrite (proj2 (nplus_false y) Hy). reflexivity.
Qed.

(* keys lie between the start and the end position *)
Lemma nassoc_range s : forall p k v, In (k, v) (nassoc s p) -> le_loc p k /\ lt_loc k (nadv s p).
Proof.
  induction s as [|x r IH]; intros p k v H; cbn [nassoc nadv] in *; [contradiction|].
  assert (Gq : forall q, le_loc q (nadv r q)).
  { clear. induction r as [|z r IHr]; intros q; cbn [nadv]; [right; lia|].
    destruct (str_eqb sPlus z).
    - specialize (IHr (S (fst q), 0)). unfold le_loc in *. cbn [fst snd] in *. lia.
    - specialize (IHr (fst q, S (snd q))). unfold le_loc in *. cbn [fst snd] in *. lia. }
  destruct (str_eqb sPlus x).
  - apply IH in H. unfold le_loc, lt_loc in *. cbn [fst snd] in *. lia.
  - destruct H as [H|H].
    + injection H as <- _. specialize (Gq (fst p, S (snd p))). unfold le_loc, lt_loc in *. cbn [fst snd] in *. lia.
    + apply IH in H. unfold le_loc, lt_loc in *. cbn [fst snd] in *. lia.
Qed.

Lemma nassoc_fun s : forall p k u v, In (k, u) (nassoc s p) -> In (k, v) (nassoc s p) -> u = v.
Proof.
  induction s as [|x r IH]; intros p k u v H1 H2; cbn [nassoc] in *; [contradiction|].
  destruct (str_eqb sPlus x); [eapply IH; eauto|].
  destruct H1 as [H1|H1], H2 as [H2|H2].
  - congruence.
  - injection H1 as <- _. apply nassoc_range in H2. unfold le_loc in H2. cbn [fst snd] in H2. lia.
  - injection H2 as <- _. apply nassoc_range in H1. unfold le_loc in H1. cbn [fst snd] in H1. lia.
  - eapply IH; eauto.
Qed.

(* the same positions as the pair table *)
Lemma nassoc_keys d : forall s p, aligned s (rc d) -> map fst (nassoc s p) = map fst (aents d p).
Proof.
  induction d as [|r IH|r IH|i IHi r IHr]; intros s p H.
  - apply aligned_length in H. destruct s; [reflexivity|discriminate].
  - destruct (aligned_DU _ _ H) as (x & s' & -> & Hx & H'). cbn [nassoc].
    rewrite (proj2 (nplus_false x) Hx). unfold aents. cbn [ents assoc map fst]. f_equal. apply IH, H'.
  - destruct (aligned_DB _ _ H) as (s' & -> & H'). cbn [nassoc].
    rewrite (proj2 (str_eqb_iff sPlus sPlus) eq_refl). unfold aents. cbn [ents assoc]. apply IH, H'.
  - destruct (aligned_DP _ _ _ H) as (x & si & y & sr & -> & Hx & Hy & Hi & Hr).
    rewrite (nassoc_DP x si y sr p i Hx Hy Hi), aents_DP. cbn zeta. cbn [map fst]. f_equal.
    rewrite !map_app. cbn [map fst]. rewrite (IHi si _ Hi), (IHr sr _ Hr). reflexivity.
Qed.

(* ------------------------------------------------------------------ *)
(* complementarity, read on the tree                                    *)

Fixpoint pc (d : dyck) (s : list pstr) : Prop :=
  match d with
  | DNil => True
  | DU r | DB r => match s with _ :: s' => pc r s' | [] => True end
  | DP i r =>
      match s with
      | x :: s' =>
          match skipn (length (rc i)) s' with
          | y :: sr => x = toggle y /\ y = toggle x /\ pc i (firstn (length (rc i)) s') /\ pc r sr
          | [] => False
          end
      | [] => False
      end
  end.

Definition AC (d : dyck) (p : loc) (s : list pstr) : Prop :=
  forall a b, In (a, Some b) (aents d p) ->
  exists x y, In (a, x) (nassoc s p) /\ In (b, y) (nassoc s p) /\ x = toggle y.

Lemma ac_pc d : forall s p, aligned s (rc d) -> (AC d p s <-> pc d s).
Proof.
  induction d as [|r IH|r IH|i IHi r IHr]; intros s p H.
  - split; [intros _; exact I|]. intros _ a b [].
  - destruct (aligned_DU _ _ H) as (x & s' & -> & Hx & H'). cbn [pc].
    rewrite <- (IH s' (fst p, S (snd p)) H'). unfold AC, aents. cbn [ents assoc nassoc].
    rewrite (proj2 (nplus_false x) Hx). split.
    + intros Hac a b Hab. destruct (Hac a b (or_intror Hab)) as (u & v & H1 & H2 & E).
      exists u, v. split; [|split; [|exact E]].
      * destruct H1 as [H1|H1]; [|exact H1]. injection H1 as <- _.
        apply (aents_range r (fst p, S (snd p))) in Hab. unfold le_loc in Hab. cbn [fst snd] in Hab. lia.
      * destruct H2 as [H2|H2]; [|exact H2]. injection H2 as <- _.
        apply (aents_sym r (fst p, S (snd p))) in Hab.
        apply (aents_range r (fst p, S (snd p))) in Hab. unfold le_loc in Hab. cbn [fst snd] in Hab. lia.
    + intros Hac a b [Hab|Hab]; [discriminate|]. destruct (Hac a b Hab) as (u & v & H1 & H2 & E).
      exists u, v. split; [right; exact H1|]. split; [right; exact H2|exact E].
  - destruct (aligned_DB _ _ H) as (s' & -> & H'). cbn [pc].
    rewrite <- (IH s' (S (fst p), 0) H'). unfold AC, aents. cbn [ents assoc nassoc].
    rewrite (proj2 (str_eqb_iff sPlus sPlus) eq_refl). reflexivity.
  - destruct (aligned_DP _ _ _ H) as (x & si & y & sr & -> & Hx & Hy & Hi & Hr).
    assert (Li : length si = length (rc i)) by (apply aligned_length, Hi).
    cbn [pc]. rewrite <- Li, skipn_app, skipn_all, Nat.sub_diag, firstn_app, firstn_all, Nat.sub_diag.
    cbn [skipn firstn app]. rewrite app_nil_r.
    set (p1 := (fst p, S (snd p))). set (q := adv i p1). set (q1 := (fst q, S (snd q))).
    rewrite <- (IHi si p1 Hi), <- (IHr sr q1 Hr).
    assert (HN : nassoc (x :: si ++ y :: sr) p = (p, x) :: nassoc si p1 ++ (q, y) :: nassoc sr q1)
      by (apply (nassoc_DP x si y sr p i Hx Hy Hi)).
    assert (HL : aents (DP i r) p = (p, Some q) :: aents i p1 ++ (q, Some p) :: aents r q1)
      by (rewrite aents_DP; reflexivity).
    assert (Hpq : lt_loc p q) by apply lt_loc_adv_S.
    assert (Ei : nadv si p1 = q) by (apply nadv_aligned, Hi).
    (* where a name of the whole list sits, by its position *)
    assert (Pos : forall k v, In (k, v) (nassoc (x :: si ++ y :: sr) p) ->
              (k = p /\ v = x) \/ (In (k, v) (nassoc si p1) /\ le_loc p1 k /\ lt_loc k q) \/
              (k = q /\ v = y) \/ (In (k, v) (nassoc sr q1) /\ le_loc q1 k)).
    { intros k v Hk. rewrite HN in Hk. destruct Hk as [Hk|Hk]; [injection Hk as <- <-; auto|].
      apply in_app_or in Hk. destruct Hk as [Hk|[Hk|Hk]].
      - right. left. split; [exact Hk|]. apply nassoc_range in Hk. rewrite Ei in Hk. exact Hk.
      - injection Hk as <- <-. auto.
      - right. right. right. split; [exact Hk|]. apply nassoc_range in Hk. tauto. }
    unfold AC. split.
    + intros Hac.
      assert (Hx1 : x = toggle y).
      { destruct (Hac p q) as (u & v & H1 & H2 & E); [rewrite HL; left; reflexivity|].
        destruct (Pos _ _ H1) as [[_ ->]|[(_ & R & _)|[[R _]|(_ & R)]]];
          [|unfold p1, le_loc, lt_loc in *; cbn [fst snd] in *; lia
           |rewrite R in Hpq; unfold lt_loc in Hpq; lia
           |unfold q1, le_loc, lt_loc in *; cbn [fst snd] in *; lia].
        destruct (Pos _ _ H2) as [[R _]|[(_ & _ & R)|[[_ ->]|(_ & R)]]];
          [rewrite R in Hpq; unfold lt_loc in Hpq; lia
          |unfold lt_loc in R; lia
          |exact E
          |unfold q1, le_loc in R; cbn [fst snd] in R; lia]. }
      assert (Hy1 : y = toggle x).
      { destruct (Hac q p) as (u & v & H1 & H2 & E); [rewrite HL; right; apply in_or_app; right; left; reflexivity|].
        destruct (Pos _ _ H1) as [[R _]|[(_ & _ & R)|[[_ ->]|(_ & R)]]];
          [rewrite R in Hpq; unfold lt_loc in Hpq; lia
          |unfold lt_loc in R; lia
          |
          |unfold q1, le_loc in R; cbn [fst snd] in R; lia].
        destruct (Pos _ _ H2) as [[_ ->]|[(_ & R & _)|[[R _]|(_ & R)]]];
          [exact E
          |unfold p1, le_loc, lt_loc in *; cbn [fst snd] in *; lia
          |rewrite <- R in Hpq; unfold lt_loc in Hpq; lia
          |unfold q1, le_loc, lt_loc in *; cbn [fst snd] in *; lia]. }
      split; [exact Hx1|]. split; [exact Hy1|]. split.
      * intros a b Hab.
        destruct (Hac a b) as (u & v & H1 & H2 & E); [rewrite HL; right; apply in_or_app; left; exact Hab|].
        pose proof (aents_range i p1 _ _ Hab) as Ra. fold q in Ra.
        pose proof (aents_range i p1 _ _ (aents_sym i p1 _ _ Hab)) as Rb. fold q in Rb.
        exists u, v. split; [|split; [|exact E]].
        -- destruct (Pos _ _ H1) as [[R _]|[(R & _)|[[R _]|(_ & R)]]]; [|exact R| |];
             subst; unfold p1, q1, le_loc, lt_loc in *; cbn [fst snd] in *; lia.
        -- destruct (Pos _ _ H2) as [[R _]|[(R & _)|[[R _]|(_ & R)]]]; [|exact R| |];
             subst; unfold p1, q1, le_loc, lt_loc in *; cbn [fst snd] in *; lia.
      * intros a b Hab.
        destruct (Hac a b) as (u & v & H1 & H2 & E); [rewrite HL; right; apply in_or_app; right; right; exact Hab|].
        pose proof (aents_range r q1 _ _ Hab) as Ra.
        pose proof (aents_range r q1 _ _ (aents_sym r q1 _ _ Hab)) as Rb.
        exists u, v. split; [|split; [|exact E]].
        -- destruct (Pos _ _ H1) as [[R _]|[(_ & _ & R)|[[R _]|(R & _)]]]; [| | |exact R];
             subst; unfold p1, q1, le_loc, lt_loc in *; cbn [fst snd] in *; lia.
        -- destruct (Pos _ _ H2) as [[R _]|[(_ & _ & R)|[[R _]|(R & _)]]]; [| | |exact R];
             subst; unfold p1, q1, le_loc, lt_loc in *; cbn [fst snd] in *; lia.
    + intros (Hx1 & Hy1 & Hai & Har) a b Hab. rewrite HL in Hab. rewrite HN.
      destruct Hab as [Hab|Hab].
      { injection Hab as <- <-. exists x, y. split; [left; reflexivity|]. split; [|exact Hx1].
        right. apply in_or_app. right. left. reflexivity. }
      apply in_app_or in Hab. destruct Hab as [Hab|[Hab|Hab]].
      * destruct (Hai a b Hab) as (u & v & H1 & H2 & E). exists u, v.
        split; [right; apply in_or_app; left; exact H1|]. split; [right; apply in_or_app; left; exact H2|exact E].
      * injection Hab as <- <-. exists y, x. split; [right; apply in_or_app; right; left; reflexivity|].
        split; [left; reflexivity|exact Hy1].
      * destruct (Har a b Hab) as (u & v & H1 & H2 & E). exists u, v.
        split; [right; apply in_or_app; right; right; exact H1|].
        split; [right; apply in_or_app; right; right; exact H2|exact E].
Qed.

(* ------------------------------------------------------------------ *)
(* is_domainlevel_complement on a tree table, read on the tree          *)

Lemma key_in {A B} (k : A) (l : list (A * B)) : In k (map fst l) -> exists v, In (k, v) l.
Proof. intros H. apply in_map_iff in H. destruct H as ([k' v] & E & Hin). cbn in E. subst. eauto. Qed.

Theorem dlc_pc d seq :
  aligned seq (rc d) -> nonempty_strands sPlus seq true = true ->
  (is_domainlevel_complement seq (rc d) = Ok true <-> pc d seq).
Proof.
  intros Hal Hne. rewrite <- (ac_pc d seq (0, 0) Hal).
  assert (Hkey : forall a v, In (a, v) (aents d (0, 0)) -> exists x, dom_at (strand_table_of seq) a = Some x).
  { intros a v Hin. assert (Hk : In a (map fst (aents d (0, 0)))) by (apply in_map_iff; exists (a, v); auto).
    rewrite <- (nassoc_keys d seq (0, 0) Hal) in Hk. destruct (key_in _ _ Hk) as [x Hx].
    exists x. apply stab_assoc; assumption. }
  assert (Hnamed : named (strand_table_of seq) (tab_of d)).
  { intros a b Hg. apply get_tab_of_In in Hg. split.
    - destruct (Hkey _ _ Hg) as [x Hx]. congruence.
    - destruct (Hkey _ _ (aents_sym d (0, 0) _ _ Hg)) as [x Hx]. congruence. }
  destruct (dlc_spec seq (rc d) (tab_of d) (mpt_rc d) Hnamed) as (b & Hb & Hiff).
  rewrite Hb. split.
  - intros E. injection E as ->. pose proof (proj1 Hiff eq_refl) as Hall.
    intros a c Hin. destruct (Hall a c (proj2 (get_tab_of_In d a (Some c)) Hin)) as (x & y & H1 & H2 & E).
    exists x, y. split; [apply stab_assoc; assumption|]. split; [apply stab_assoc; assumption|exact E].
  - intros Hac. f_equal. apply Hiff. intros a c Hg. apply get_tab_of_In in Hg.
    destruct (Hac a c Hg) as (x & y & H1 & H2 & E). exists x, y.
    split; [apply stab_assoc; assumption|]. split; [apply stab_assoc; assumption|exact E].
Qed.

(* ------------------------------------------------------------------ *)
(* the tree of an aligned, complementary pair                           *)

Fixpoint build (d : dyck) (s : list pstr) : ktree :=
  match d with
  | DNil => KNil
  | DU r => match s with x :: s' => KD x (build r s') | [] => KNil end
  | DB r => match s with _ :: s' => KB (build r s') | [] => KNil end
  | DP i r =>
      match s with
      | x :: s' => KP x (build i (firstn (length (rc i)) s')) (build r (skipn (S (length (rc i))) s'))
      | [] => KNil
      end
  end.

Lemma skipn_S_app {A} (a : list A) y b : skipn (S (length a)) (a ++ y :: b) = b.
Proof. induction a as [|x a IH]; [reflexivity|]. cbn [length app skipn]. exact IH. Qed.

Lemma build_flatten d : forall s, aligned s (rc d) -> pc d s -> flatten (build d s) = (s, rc d).
Proof.
  induction d as [|r IH|r IH|i IHi r IHr]; intros s Hal Hpc.
  - apply aligned_length in Hal. destruct s; [reflexivity|discriminate].
  - destruct (aligned_DU _ _ Hal) as (x & s' & -> & Hx & H'). cbn [build flatten pc] in *.
    rewrite (IH s' H' Hpc). rewrite rc_DU. reflexivity.
  - destruct (aligned_DB _ _ Hal) as (s' & -> & H'). cbn [build flatten pc] in *.
    rewrite (IH s' H' Hpc). rewrite rc_DB. reflexivity.
  - destruct (aligned_DP _ _ _ Hal) as (x & si & y & sr & -> & Hx & Hy & Hi & Hr).
    assert (Li : length si = length (rc i)) by (apply aligned_length, Hi).
    cbn [build flatten pc] in *. rewrite <- Li in *.
    rewrite skipn_app, skipn_all, Nat.sub_diag, firstn_app, firstn_all, Nat.sub_diag in Hpc.
    cbn [skipn firstn app] in Hpc. rewrite app_nil_r in Hpc. destruct Hpc as (E1 & E2 & Pi & Pr).
    rewrite firstn_app, firstn_all, Nat.sub_diag. cbn [firstn]. rewrite app_nil_r.
    rewrite skipn_S_app.
    rewrite (IHi si Hi Pi), (IHr sr Hr Pr). cbn [fst snd]. rewrite rc_DP, <- E2. reflexivity.
Qed.

Lemma build_names_ok d : forall s,
  aligned s (rc d) -> Forall (fun x => x <> []) s -> names_ok (build d s) = true.
Proof.
  assert (N : forall x, x <> sPlus -> x <> [] -> name_ok x = true).
  { intros x H1 H2. unfold name_ok. rewrite str_eqb_sym, (proj2 (nplus_false x) H1).
    destruct x; [congruence|reflexivity]. }
  induction d as [|r IH|r IH|i IHi r IHr]; intros s Hal Hne.
  - reflexivity.
  - destruct (aligned_DU _ _ Hal) as (x & s' & -> & Hx & H'). inversion Hne; subst.
    cbn [build names_ok]. rewrite N by assumption. apply IH; assumption.
  - destruct (aligned_DB _ _ Hal) as (s' & -> & H'). inversion Hne; subst.
    cbn [build names_ok]. apply IH; assumption.
  - destruct (aligned_DP _ _ _ Hal) as (x & si & y & sr & -> & Hx & Hy & Hi & Hr).
    assert (Li : length si = length (rc i)) by (apply aligned_length, Hi).
    inversion Hne as [|? ? Hx0 Hrest]; subst. apply Forall_app in Hrest. destruct Hrest as [Fi Fr].
    inversion Fr; subst.
    cbn [build names_ok]. rewrite <- Li, firstn_app, firstn_all, Nat.sub_diag. cbn [firstn]. rewrite app_nil_r.
    rewrite skipn_S_app.
    rewrite N by assumption. rewrite IHi, IHr by assumption. reflexivity.
Qed.

(* tree_exists *)
Theorem tree_exists seq sst :
  aligned seq sst -> wf sst -> Forall (fun x => x <> []) seq ->
  nonempty_strands sPlus seq true = true ->
  is_domainlevel_complement seq sst = Ok true ->
  exists t, names_ok t = true /\ flatten t = (seq, sst).
Proof.
  intros Hal Hwf Hne Hst Hdlc. destruct (wf_rc sst Hwf) as [d ->].
  pose proof (proj1 (dlc_pc d seq Hal Hst) Hdlc) as Hpc.
  exists (build d seq). split; [apply build_names_ok; assumption|apply build_flatten; assumption].
Qed.

(* ------------------------------------------------------------------ *)
(* the converse: what flatten produces                                  *)

Fixpoint shape (t : ktree) : dyck :=
  match t with
  | KNil => DNil
  | KD _ r => DU (shape r)
  | KB r => DB (shape r)
  | KP _ i r => DP (shape i) (shape r)
  end.

(* the name written at a closing bracket, toggle d, is again a legal name and
   toggles back (false for names such as "a**", "+*" or "*") *)
Fixpoint kp_ok (t : ktree) : Prop :=
  match t with
  | KNil => True
  | KD _ r | KB r => kp_ok r
  | KP d i r => name_ok (toggle d) = true /\ toggle (toggle d) = d /\ kp_ok i /\ kp_ok r
  end.

Lemma rc_shape t : snd (flatten t) = rc (shape t).
Proof.
  induction t as [|d r IH|r IH|d i IHi r IHr]; cbn [flatten shape snd].
  - reflexivity.
  - rewrite rc_DU, IH. reflexivity.
  - rewrite rc_DB, IH. reflexivity.
  - rewrite rc_DP, IHi, IHr. reflexivity.
Qed.

Lemma name_ok_nplus d : name_ok d = true -> str_eqb sPlus d = false /\ d <> [].
Proof. intros H. destruct (name_ok_facts d H) as [H1 H2]. rewrite str_eqb_sym. auto. Qed.

Lemma flatten_aligned t : names_ok t = true -> kp_ok t -> aligned (fst (flatten t)) (rc (shape t)).
Proof.
  unfold aligned.
  induction t as [|d r IH|r IH|d i IHi r IHr]; cbn [names_ok kp_ok flatten shape fst]; intros Hn Hk.
  - reflexivity.
  - apply andb_true_iff in Hn. destruct Hn as [Hd Hr]. rewrite rc_DU. cbn [map].
    rewrite (proj1 (name_ok_nplus d Hd)), (IH Hr Hk). reflexivity.
  - rewrite rc_DB. cbn [map]. rewrite (proj2 (str_eqb_iff sPlus sPlus) eq_refl), (IH Hn Hk). reflexivity.
  - rewrite !andb_true_iff in Hn. destruct Hn as [[Hd Hi] Hr]. destruct Hk as (Ht & _ & Ki & Kr).
    rewrite rc_DP. cbn [map]. rewrite !map_app. cbn [map].
    rewrite (proj1 (name_ok_nplus d Hd)), (proj1 (name_ok_nplus _ Ht)), (IHi Hi Ki), (IHr Hr Kr). reflexivity.
Qed.

Lemma flatten_pc t : kp_ok t -> pc (shape t) (fst (flatten t)).
Proof.
  induction t as [|d r IH|r IH|d i IHi r IHr]; cbn [kp_ok flatten shape fst pc]; intros Hk.
  - exact I.
  - apply IH, Hk.
  - apply IH, Hk.
  - destruct Hk as (_ & Ht & Ki & Kr).
    assert (L : length (fst (flatten i)) = length (rc (shape i))) by (rewrite <- rc_shape; apply flatten_lengths).
    rewrite <- L, skipn_app, skipn_all, Nat.sub_diag, firstn_app, firstn_all, Nat.sub_diag.
    cbn [skipn firstn app]. rewrite app_nil_r. auto.
Qed.

Lemma flatten_nonempty t : names_ok t = true -> kp_ok t -> Forall (fun x => x <> []) (fst (flatten t)).
Proof.
  induction t as [|d r IH|r IH|d i IHi r IHr]; cbn [names_ok kp_ok flatten fst]; intros Hn Hk.
  - constructor.
  - apply andb_true_iff in Hn. destruct Hn as [Hd Hr]. constructor; [apply (name_ok_nplus d Hd)|apply IH; assumption].
  - constructor; [discriminate|apply IH; assumption].
  - rewrite !andb_true_iff in Hn. destruct Hn as [[Hd Hi] Hr]. destruct Hk as (Ht & _ & Ki & Kr).
    constructor; [apply (name_ok_nplus d Hd)|]. apply Forall_app. split; [apply IHi; assumption|].
    constructor; [apply (name_ok_nplus _ Ht)|apply IHr; assumption].
Qed.

(* every kernel tree with legal names flattens to an aligned, well-formed pair
   with non-empty names, which is domain-level complementary (the predicate
   itself needs non-empty strands: it reads names through the strand table) *)
Theorem flatten_sound t :
  names_ok t = true -> kp_ok t ->
  let seq := fst (flatten t) in let sst := snd (flatten t) in
  aligned seq sst /\ wf sst /\ Forall (fun x => x <> []) seq /\
  (nonempty_strands sPlus seq true = true -> is_domainlevel_complement seq sst = Ok true).
Proof.
  intros Hn Hk. cbn zeta. rewrite rc_shape.
  split; [apply flatten_aligned; assumption|]. split; [apply rc_wf|].
  split; [apply flatten_nonempty; assumption|].
  intros Hst. apply (dlc_pc (shape t)); [apply flatten_aligned; assumption|exact Hst|apply flatten_pc, Hk].
Qed.

(* the tree built by tree_exists satisfies the closing-name condition as well *)
Lemma build_kp_ok d : forall s,
  aligned s (rc d) -> Forall (fun x => x <> []) s -> pc d s -> kp_ok (build d s).
Proof.
  induction d as [|r IH|r IH|i IHi r IHr]; intros s Hal Hne Hpc.
  - exact I.
  - destruct (aligned_DU _ _ Hal) as (x & s' & -> & Hx & H'). inversion Hne; subst.
    cbn [build kp_ok pc] in *. apply IH; assumption.
  - destruct (aligned_DB _ _ Hal) as (s' & -> & H'). inversion Hne; subst.
    cbn [build kp_ok pc] in *. apply IH; assumption.
  - destruct (aligned_DP _ _ _ Hal) as (x & si & y & sr & -> & Hx & Hy & Hi & Hr).
    assert (Li : length si = length (rc i)) by (apply aligned_length, Hi).
    inversion Hne as [|? ? Hx0 Hrest]; subst. apply Forall_app in Hrest. destruct Hrest as [Fi Fr].
    inversion Fr as [|? ? Hy0 Fr']; subst.
    cbn [build kp_ok pc] in *. rewrite <- Li in *.
    rewrite skipn_app, skipn_all, Nat.sub_diag, firstn_app, firstn_all, Nat.sub_diag in Hpc.
    cbn [skipn firstn app] in Hpc. rewrite app_nil_r in Hpc. destruct Hpc as (E1 & E2 & Pi & Pr).
    rewrite firstn_app, firstn_all, Nat.sub_diag. cbn [firstn]. rewrite app_nil_r, skipn_S_app.
    split.
    { rewrite <- E2. unfold name_ok. rewrite str_eqb_sym, (proj2 (nplus_false y) Hy).
      destruct y; [congruence|reflexivity]. }
    split; [rewrite <- E2; symmetry; exact E1|]. split; [apply IHi|apply IHr]; assumption.
Qed.

Theorem tree_exists_strong seq sst :
  aligned seq sst -> wf sst -> Forall (fun x => x <> []) seq ->
  nonempty_strands sPlus seq true = true ->
  is_domainlevel_complement seq sst = Ok true ->
  exists t, names_ok t = true /\ kp_ok t /\ flatten t = (seq, sst).
Proof.
  intros Hal Hwf Hne Hst Hdlc. destruct (wf_rc sst Hwf) as [d ->].
  pose proof (proj1 (dlc_pc d seq Hal Hst) Hdlc) as Hpc.
  exists (build d seq). split; [apply build_names_ok; assumption|].
  split; [apply build_kp_ok; assumption|apply build_flatten; assumption].
Qed.

(* ------------------------------------------------------------------ *)
(* the guards are needed                                                *)

(* closing names against the stack of opening names *)
Fixpoint match_names (sst : list chr) (seq : list pstr) (stack : list pstr) : bool :=
  match sst, seq with
  | c :: sst', x :: seq' =>
      if N.eqb c cO then match_names sst' seq' (x :: stack)
      else if N.eqb c cC then
        match stack with
        | o :: st => str_eqb x (toggle o) && match_names sst' seq' st
        | [] => false
        end
      else match_names sst' seq' stack
  | [], [] => true
  | _, _ => false
  end.

Lemma match_names_tree t : forall rs rq stack,
  match_names (snd (flatten t) ++ rs) (fst (flatten t) ++ rq) stack = match_names rs rq stack.
Proof.
  induction t as [|d r IH|r IH|d i IHi r IHr]; intros rs rq stack; cbn [flatten fst snd app].
  - reflexivity.
  - cbn [match_names]. change (N.eqb cD cO) with false. change (N.eqb cD cC) with false. apply IH.
  - cbn [match_names]. change (N.eqb cP cO) with false. change (N.eqb cP cC) with false. apply IH.
  - cbn [match_names]. change (N.eqb cO cO) with true. cbn iota.
    rewrite <- !app_assoc. rewrite IHi. cbn [app match_names].
    change (N.eqb cC cO) with false. change (N.eqb cC cC) with true. cbn iota.
    rewrite (proj2 (str_eqb_iff _ _) eq_refl). cbn [andb]. apply IHr.
Qed.

(* with an empty strand the strand table (which drops it) and the pair table
   (which keeps it) are out of step, and is_domainlevel_complement compares the
   wrong names: "+(+)+." over  + a + b + b*  is accepted although a pairs with b *)
Definition tree_exists_without_strand_guard_full : Prop :=
  forall seq sst, aligned seq sst -> wf sst -> Forall (fun x => x <> []) seq ->
  is_domainlevel_complement seq sst = Ok true ->
  exists t, names_ok t = true /\ flatten t = (seq, sst).

Theorem tree_exists_without_strand_guard_refuted : ~ tree_exists_without_strand_guard_full.
Proof.
  intros H.
  set (seq := [sPlus; [97]; sPlus; [98]; sPlus; [98; 42]]%N).
  set (sst := [cP; cO; cP; cC; cP; cD]).
  destruct (H seq sst) as (t & _ & Ht).
  - reflexivity.
  - reflexivity.
  - repeat constructor; discriminate.
  - vm_compute. reflexivity.
  - pose proof (match_names_tree t [] [] []) as M. rewrite !app_nil_r, Ht in M.
    cbn [fst snd] in M. vm_compute in M. discriminate.
Qed.

(* a name whose complement does not toggle back: a**( ) flattens to a**, a* *)
Definition flatten_sound_without_name_guard_full : Prop :=
  forall t, names_ok t = true ->
  nonempty_strands sPlus (fst (flatten t)) true = true ->
  is_domainlevel_complement (fst (flatten t)) (snd (flatten t)) = Ok true.

Theorem flatten_sound_without_name_guard_refuted : ~ flatten_sound_without_name_guard_full.
Proof.
  intros H. specialize (H (KP [97; 42; 42]%N KNil KNil) eq_refl eq_refl).
  vm_compute in H. discriminate.
Qed.

(* non-vacuity of tree_exists / flatten_sound:  a( b + ) c*  *)
Example ex_tree_exists :
  let seq := [[97]; [98]; sPlus; [97; 42]; [99; 42]]%N in
  let sst := [cO; cD; cP; cC; cD] in
  aligned seq sst /\ wf sst /\ Forall (fun x => x <> []) seq /\
  nonempty_strands sPlus seq true = true /\ is_domainlevel_complement seq sst = Ok true /\
  build (DP (DU (DB DNil)) (DU DNil)) seq = KP [97%N] (KD [98%N] (KB KNil)) (KD [99%N; 42%N] KNil).
Proof.
  cbn zeta. split; [reflexivity|]. split; [reflexivity|]. split; [repeat constructor; discriminate|].
  split; [reflexivity|]. split; reflexivity.
Qed.

(* ================================================================== *)
(* Part 2: the complete round trip through the regenerated PIL grammar  *)

(* domain names the kernel grammar reads back: identifier characters
   [A-Za-z0-9_-], optionally followed by one '*' *)
Definition name_parts (d : pstr) : chr * pstr * bool :=
  match d with
  | [] => (0%N, [], false)
  | n0 :: r =>
      match rev r with
      | c :: rr => if N.eqb c STAR then (n0, rev rr, true) else (n0, r, false)
      | [] => (n0, [], false)
      end
  end.
Definition idname (d : pstr) : bool :=
  match d with
  | [] => false
  | _ => let '(n0, ns, _) := name_parts d in memc n0 idch && forallb (fun c => memc c idch) ns
  end.

Lemma idname_parts d : idname d = true ->
  let '(n0, ns, star) := name_parts d in
  d = sense_text n0 ns false star /\ memc n0 idch = true /\ all_in idch ns.
Proof.
  destruct d as [|n0 r]; [discriminate|]. unfold idname, name_parts.
  destruct (rev r) as [|c rr] eqn:E.
  - apply (f_equal (@rev _)) in E. rewrite rev_involutive in E. cbn in E. subst r.
    intros H. apply andb_true_iff in H. destruct H as [H1 H2]. repeat split; assumption.
  - apply (f_equal (@rev _)) in E. rewrite rev_involutive in E. cbn [rev] in E.
    destruct (N.eqb_spec c STAR) as [->|Hc]; intros H; apply andb_true_iff in H; destruct H as [H1 H2].
    + split; [|split; assumption]. unfold sense_text. cbn [opt_s app]. rewrite E. reflexivity.
    + split; [|split; assumption]. unfold sense_text. cbn [opt_s app]. rewrite app_nil_r. reflexivity.
Qed.

Fixpoint ids_ok (t : ktree) : bool :=
  match t with
  | KNil => true
  | KD d r => idname d && ids_ok r
  | KB r => ids_ok r
  | KP d i r => idname d && ids_ok i && ids_ok r
  end.

Lemma plus_not_idch : memc cP idch = false. Proof. vm_compute. reflexivity. Qed.

Lemma idname_name_ok d : idname d = true -> name_ok d = true.
Proof.
  intros H. pose proof (idname_parts d H) as P. destruct (name_parts d) as [[n0 ns] star].
  destruct P as (-> & H0 & _). unfold name_ok, sense_text.
  destruct (str_eqb (n0 :: ns ++ opt_s false CARET ++ opt_s star STAR) sPlus) eqn:E; [|reflexivity].
  apply str_eqb_iff in E. injection E as -> _. rewrite plus_not_idch in H0. discriminate.
Qed.

Lemma ids_names_ok t : ids_ok t = true -> names_ok t = true.
Proof.
  induction t as [|d r IH|r IH|d i IHi r IHr]; cbn [ids_ok names_ok]; intros H.
  - reflexivity.
  - apply andb_true_iff in H. destruct H as [Hd Hr]. rewrite (idname_name_ok d Hd), (IH Hr). reflexivity.
  - apply IH, H.
  - rewrite !andb_true_iff in H. destruct H as [[Hd Hi] Hr].
    rewrite (idname_name_ok d Hd), (IHi Hi), (IHr Hr). reflexivity.
Qed.

(* the pattern items of a tree, in the layout kernel_string writes: one blank
   before every token, "name(" glued, a blank before ")" *)
Definition BL : pstr := [32%N].
Fixpoint items_of (t : ktree) : list item :=
  match t with
  | KNil => []
  | KD d r => let '(n0, ns, star) := name_parts d in ISense BL n0 ns false star :: items_of r
  | KB r => IPlus BL :: items_of r
  | KP d i r => let '(n0, ns, star) := name_parts d in
                ILoop BL n0 ns false star (items_of i) BL :: items_of r
  end.

Definition spaced (l : list pstr) : pstr := concat (map (fun x => 32%N :: x) l).

Lemma spaced_app a b : spaced (a ++ b) = spaced a ++ spaced b.
Proof. unfold spaced. rewrite map_app, concat_app. reflexivity. Qed.

Lemma items_text_tree t : ids_ok t = true -> forall r,
  items_text (items_of t) r = spaced (tree_texts t) ++ r.
Proof.
  induction t as [|d rr IH|rr IH|d i IHi rr IHr]; cbn [ids_ok items_of tree_texts]; intros H r.
  - reflexivity.
  - apply andb_true_iff in H. destruct H as [Hd Hr]. pose proof (idname_parts d Hd) as P.
    destruct (name_parts d) as [[n0 ns] star]. destruct P as (E & _ & _).
    cbn [items_text fold_right]. fold (items_text (items_of rr) r). rewrite (IH Hr).
    unfold item_text, item_b, BL. cbn [item_body]. rewrite <- E. unfold spaced. cbn [map concat app].
    rewrite <- app_assoc. reflexivity.
  - cbn [items_text fold_right]. fold (items_text (items_of rr) r). rewrite (IH H).
    unfold item_text, item_b, BL. cbn [item_body]. reflexivity.
  - rewrite !andb_true_iff in H. destruct H as [[Hd Hi] Hr]. pose proof (idname_parts d Hd) as P.
    destruct (name_parts d) as [[n0 ns] star]. destruct P as (E & _ & _).
    cbn [items_text fold_right]. fold (items_text (items_of rr) r). rewrite (IHr Hr).
    unfold item_text. unfold item_b at 1. rewrite item_body_loop, <- E, (IHi Hi).
    change (d ++ [cO]) with (d ++ [LPAR]).
    change ((d ++ [LPAR]) :: tree_texts i ++ [cC] :: tree_texts rr)
      with ([d ++ [LPAR]] ++ tree_texts i ++ [[RPAR]] ++ tree_texts rr).
    rewrite !spaced_app. unfold BL, spaced at 1 3. cbn [map concat app].
    rewrite app_nil_r. fold (spaced (tree_texts i)). change (spaced [[41%N]]) with [32%N; 41%N].
    repeat rewrite <- app_assoc. cbn [app]. reflexivity.
Qed.

Lemma spaced_join l : l <> [] -> spaced l = 32%N :: join_names [32%N] l.
Proof.
  induction l as [|x l IH]; [congruence|]. intros _. destruct l as [|y l].
  - unfold spaced. cbn. rewrite app_nil_r. reflexivity.
  - change (spaced (x :: y :: l)) with ((32%N :: x) ++ spaced (y :: l)).
    rewrite IH by discriminate. reflexivity.
Qed.

(* the tokens of the items are the tokens of the tree *)
Lemma items_toks_tree t : ids_ok t = true -> map ktok_of_tok (items_toks (items_of t)) = to_tokens t.
Proof.
  induction t as [|d rr IH|rr IH|d i IHi rr IHr]; cbn [ids_ok items_of to_tokens]; intros H.
  - reflexivity.
  - apply andb_true_iff in H. destruct H as [Hd Hr]. pose proof (idname_parts d Hd) as P.
    destruct (name_parts d) as [[n0 ns] star]. destruct P as (E & _ & _).
    cbn [items_toks flat_map item_toks app map ktok_of_tok]. fold (items_toks (items_of rr)).
    rewrite <- E, (IH Hr). reflexivity.
  - cbn [items_toks flat_map item_toks app map ktok_of_tok]. fold (items_toks (items_of rr)).
    rewrite (IH H). reflexivity.
  - rewrite !andb_true_iff in H. destruct H as [[Hd Hi] Hr]. pose proof (idname_parts d Hd) as P.
    destruct (name_parts d) as [[n0 ns] star]. destruct P as (E & _ & _).
    unfold items_toks. cbn [flat_map]. fold (items_toks (items_of rr)). rewrite item_toks_loop.
    cbn [app map ktok_of_tok]. rewrite <- E, (IHi Hi), (IHr Hr). reflexivity.
Qed.

(* layout conditions of the PEG lemma *)
Lemma bl_blanks : blanks WS BL. Proof. vm_compute. reflexivity. Qed.
Lemma follow_blank z : sense_follow (32%N :: z). Proof. vm_compute. reflexivity. Qed.
Lemma follow_nl : sense_follow [NL]. Proof. vm_compute. reflexivity. Qed.

Lemma follow_items t r : ids_ok t = true -> sense_follow r -> sense_follow (items_text (items_of t) r).
Proof.
  intros H Hr. rewrite (items_text_tree t H). destruct (tree_texts t) as [|x l]; [exact Hr|].
  unfold spaced. cbn [map concat app]. apply follow_blank.
Qed.

Lemma items_wf_tree t : ids_ok t = true -> forall r, sense_follow r -> items_wf (items_of t) r.
Proof.
  induction t as [|d rr IH|rr IH|d i IHi rr IHr]; cbn [ids_ok items_of]; intros H r Hr.
  - exact I.
  - apply andb_true_iff in H. destruct H as [Hd Hrr]. pose proof (idname_parts d Hd) as P.
    destruct (name_parts d) as [[n0 ns] star]. destruct P as (_ & H0 & Hns).
    cbn [items_wf item_wf]. split; [|apply IH; assumption].
    split; [apply bl_blanks|]. split; [exact H0|]. split; [exact Hns|]. apply follow_items; assumption.
  - cbn [items_wf item_wf]. split; [apply bl_blanks|apply IH; assumption].
  - rewrite !andb_true_iff in H. destruct H as [[Hd Hi] Hrr]. pose proof (idname_parts d Hd) as P.
    destruct (name_parts d) as [[n0 ns] star]. destruct P as (_ & H0 & Hns).
    cbn [items_wf]. split; [|apply IHr; assumption].
    apply item_wf_loop. split; [apply bl_blanks|]. split; [exact H0|]. split; [exact Hns|].
    split; [apply bl_blanks|]. apply IHi; [exact Hi|]. unfold BL. cbn [app]. apply follow_blank.
Qed.

(* no tabulator in the rendered text *)
Lemma idch_no_tab ns : all_in idch ns -> no_tab ns.
Proof.
  unfold all_in, no_tab. intros H. rewrite forallb_forall in *. intros c Hc. specialize (H c Hc).
  apply (memc_forallb idch (fun c => negb (N.eqb c 9%N)) c); [vm_compute; reflexivity|exact H].
Qed.
Lemma no_tab_app a b : no_tab (a ++ b) <-> no_tab a /\ no_tab b.
Proof. unfold no_tab. rewrite forallb_app, andb_true_iff. reflexivity. Qed.

Lemma idname_no_tab d : idname d = true -> no_tab d.
Proof.
  intros H. pose proof (idname_parts d H) as P. destruct (name_parts d) as [[n0 ns] star].
  destruct P as (-> & H0 & Hns). unfold sense_text.
  change (n0 :: ns ++ opt_s false CARET ++ opt_s star STAR) with ([n0] ++ ns ++ opt_s star STAR).
  apply no_tab_app. split; [apply idch_no_tab; unfold all_in; cbn [forallb]; rewrite H0; reflexivity|].
  apply no_tab_app. split; [apply idch_no_tab, Hns|destruct star; reflexivity].
Qed.

Lemma texts_no_tab t : ids_ok t = true -> no_tab (spaced (tree_texts t)).
Proof.
  induction t as [|d rr IH|rr IH|d i IHi rr IHr]; cbn [ids_ok tree_texts]; intros H.
  - reflexivity.
  - apply andb_true_iff in H. destruct H as [Hd Hr].
    change (spaced (d :: tree_texts rr)) with ((32%N :: d) ++ spaced (tree_texts rr)).
    apply no_tab_app. split; [|apply IH, Hr]. change (32%N :: d) with ([32%N] ++ d).
    apply no_tab_app. split; [reflexivity|apply idname_no_tab, Hd].
  - change (spaced ([cP] :: tree_texts rr)) with ([32%N; cP] ++ spaced (tree_texts rr)).
    apply no_tab_app. split; [reflexivity|apply IH, H].
  - rewrite !andb_true_iff in H. destruct H as [[Hd Hi] Hr].
    change ((d ++ [cO]) :: tree_texts i ++ [cC] :: tree_texts rr)
      with ([d ++ [cO]] ++ tree_texts i ++ [[cC]] ++ tree_texts rr).
    rewrite !spaced_app. apply no_tab_app. split.
    + unfold spaced. cbn [map concat]. rewrite app_nil_r. change (32%N :: d ++ [cO]) with ([32%N] ++ d ++ [cO]).
      apply no_tab_app. split; [reflexivity|]. apply no_tab_app. split; [apply idname_no_tab, Hd|reflexivity].
    + apply no_tab_app. split; [apply IHi, Hi|]. apply no_tab_app. split; [reflexivity|apply IHr, Hr].
Qed.

(* the statement at the level of parse results (the PEG agent's
   roundtrip_kernel_complex_parse, before the conversion to val) *)
Lemma kc_parse_pres s b E :
  blanks WS b -> stmt_end E [] -> kc_stmt_ok s E -> no_tab (b ++ kc_render s ++ E) ->
  exists f0, forall f, f0 <= f ->
    parse_string_fuel pil_grammar f (b ++ kc_render s ++ E) = POk Past [kc_tree s].
Proof.
  intros Hb HE Hs Hnt.
  pose proof (pil_document_items_evals [] [mkItem b (kc_render s ++ E) [kc_tree s]] []) as H. cbn in H.
  rewrite !app_nil_r in H.
  assert (Hits : pil_items_ok [mkItem b (kc_render s ++ E) [kc_tree s]] []).
  { cbn. split; [split; [exact Hb|]|split; [|exact I]].
    - unfold kc_render. cbn. destruct Hs as (H0 & _). apply idch_stop in H0. apply stopc_elim in H0. exact H0.
    - intros full b' Hb'. cbn. rewrite <- app_assoc.
      apply roundtrip_kernel_complex; [exact Hb'|exact HE|rewrite app_nil_r; exact Hs]. }
  specialize (H (Forall_nil _) Hits ltac:(discriminate) eq_refl).
  destruct (evals_parse_fuel pil_grammar _ _ Hnt H) as [f0 Hf]. exists f0. exact Hf.
Qed.

(* c12_chain with the fuel of the parser as a parameter; c12_chain itself is
   the instance with Peg.default_fuel *)
Definition c12_chain_with (fuel : pstr -> nat) (seq : list pstr) (sst : list chr) : val :=
  match kernel_string seq sst with
  | Err e => err e
  | Ok ks =>
      let text := (str "X = "%string ++ ks ++ [10%N])%list in
      match parse_string_fuel pil_grammar (fuel text) text with
      | POk _ [TList (TStr tag :: TStr name :: TList pattern :: rest)] =>
          match resolve_kernel_loops (map ktok_of_tok pattern) with
          | Ok r => VList [VStr ks; VList (map val_of_tok pattern); of_ss r; VStr tag; VStr name; of_nat (length rest)]
          | Err e => err e
          end
      | POk _ _ => err eBadRequest
      | PFail => err eParse
      | PFuel => err eFuel
      end
  end.

Lemma c12_chain_is_default seq sst : c12_chain seq sst = c12_chain_with (default_fuel pil_grammar) seq sst.
Proof. reflexivity. Qed.

Definition kc_of (t : ktree) (first : item) (more : list item) : kc_stmt := mkKc 88%N [] BL first more.

(* kernel_roundtrip_model on trees *)
Theorem kernel_roundtrip_tree t :
  t <> KNil -> ids_ok t = true ->
  exists f0, forall fuel, (forall x, f0 <= fuel x) ->
    c12_chain_with fuel (fst (flatten t)) (snd (flatten t)) =
    VList [ VStr (join_names [32%N] (tree_texts t));
            VList (map val_of_tok (items_toks (items_of t)));
            of_ss (flatten t); VStr tag_kc; VStr [88%N]; of_nat 0 ].
Proof.
  intros Hne Hids. pose proof (ids_names_ok t Hids) as Hn.
  destruct (items_of t) as [|first more] eqn:Eit.
  { destruct t; cbn [items_of] in Eit; try congruence; try (destruct (name_parts d) as [[? ?] ?]; discriminate). }
  set (s := mkKc 88%N [] BL first more).
  assert (Htexts : tree_texts t <> []).
  { destruct t; cbn [tree_texts]; try congruence; discriminate. }
  assert (Hrender : kc_render s ++ [NL] = (str "X = "%string ++ join_names [32%N] (tree_texts t) ++ [10%N])%list).
  { unfold kc_render, s. cbn [kc_n0 kc_ns kc_b2 kc_first kc_more]. rewrite <- Eit.
    rewrite <- !app_assoc. cbn [app]. rewrite items_text_app. cbn [app].
    rewrite (items_text_tree t Hids), (spaced_join _ Htexts). reflexivity. }
  assert (Hend : stmt_end [NL] []).
  { pose proof (pil_stmt_end_lines [NL] [] (pil_blank_line_plain [] eq_refl) (Forall_nil _)) as H.
    cbn in H. exact H. }
  assert (Hok : kc_stmt_ok s [NL]).
  { unfold kc_stmt_ok, s. cbn [kc_n0 kc_ns kc_b2 kc_first kc_more].
    split; [vm_compute; reflexivity|]. split; [reflexivity|]. split; [vm_compute; reflexivity|].
    split; [apply bl_blanks|]. rewrite <- Eit. apply items_wf_tree; [exact Hids|apply follow_nl]. }
  assert (Hnt : no_tab ([] ++ kc_render s ++ [NL])).
  { cbn [app]. rewrite Hrender. apply no_tab_app. split; [vm_compute; reflexivity|].
    apply no_tab_app. split; [|reflexivity].
    pose proof (texts_no_tab t Hids) as H. rewrite (spaced_join _ Htexts) in H.
    change (32%N :: join_names [32%N] (tree_texts t)) with ([32%N] ++ join_names [32%N] (tree_texts t)) in H.
    apply no_tab_app in H. tauto. }
  destruct (kc_parse_pres s [] [NL] eq_refl Hend Hok Hnt) as [f0 Hf]. cbn [app] in Hf. rewrite Hrender in Hf.
  exists f0. intros fuel Hfuel. unfold c12_chain_with.
  rewrite (kernel_string_of_tree t Hn). rewrite (Hf _ (Hfuel _)).
  unfold kc_tree, s. cbn [kc_n0 kc_ns kc_first kc_more]. rewrite <- Eit.
  rewrite (items_toks_tree t Hids), (resolve_inverts_tree t Hn). reflexivity.
Qed.

(* ------------------------------------------------------------------ *)
(* ... and on (sequence, structure) pairs                               *)

Lemma ids_of_flatten t :
  names_ok t = true ->
  Forall (fun x => x = sPlus \/ idname x = true) (fst (flatten t)) -> ids_ok t = true.
Proof.
  induction t as [|d r IH|r IH|d i IHi r IHr]; cbn [names_ok flatten fst ids_ok]; intros Hn Hf.
  - reflexivity.
  - apply andb_true_iff in Hn. destruct Hn as [Hd Hr]. inversion Hf as [|? ? Hx Hrest]; subst.
    destruct Hx as [->|Hx]; [destruct (name_ok_facts _ Hd) as [E _]; rewrite (proj2 (str_eqb_iff sPlus sPlus) eq_refl) in E; discriminate|].
    rewrite Hx, (IH Hr Hrest). reflexivity.
  - inversion Hf; subst. apply IH; assumption.
  - rewrite !andb_true_iff in Hn. destruct Hn as [[Hd Hi] Hr]. inversion Hf as [|? ? Hx Hrest]; subst.
    apply Forall_app in Hrest. destruct Hrest as [Fi Fr]. inversion Fr as [|? ? _ Fr']; subst.
    destruct Hx as [->|Hx]; [destruct (name_ok_facts _ Hd) as [E _]; rewrite (proj2 (str_eqb_iff sPlus sPlus) eq_refl) in E; discriminate|].
    rewrite Hx, (IHi Hi Fi), (IHr Hr Fr'). reflexivity.
Qed.

Lemma idname_nonempty x : x = sPlus \/ idname x = true -> x <> [].
Proof. intros [->|H]; [discriminate|]. destruct x; [discriminate|discriminate]. Qed.

(* kernel_roundtrip_model: for an aligned, well-formed, domain-level
   complementary complex without empty strands whose names are identifiers
   (optionally starred), writing "X = <kernel string>\n", parsing it with the
   regenerated PIL grammar and resolving the pattern gives back (seq, sst) *)
Theorem kernel_roundtrip_model seq sst :
  seq <> [] -> aligned seq sst -> wf sst ->
  Forall (fun x => x = sPlus \/ idname x = true) seq ->
  nonempty_strands sPlus seq true = true ->
  is_domainlevel_complement seq sst = Ok true ->
  exists ks pattern f0,
    kernel_string seq sst = Ok ks /\
    forall fuel, (forall x, f0 <= fuel x) ->
      c12_chain_with fuel seq sst =
      VList [VStr ks; VList (map val_of_tok pattern); of_ss (seq, sst); VStr tag_kc; VStr [88%N]; of_nat 0].
Proof.
  intros Hne Hal Hwf Hids Hst Hdlc.
  assert (Hnn : Forall (fun x => x <> []) seq).
  { rewrite Forall_forall in *. intros x Hx. apply idname_nonempty, Hids, Hx. }
  destruct (tree_exists seq sst Hal Hwf Hnn Hst Hdlc) as (t & Hn & Ht).
  assert (Hit : ids_ok t = true) by (apply ids_of_flatten; [exact Hn|rewrite Ht; exact Hids]).
  assert (Htn : t <> KNil) by (intros ->; cbn in Ht; injection Ht as <- _; congruence).
  destruct (kernel_roundtrip_tree t Htn Hit) as [f0 Hf]. rewrite Ht in Hf. cbn [fst snd] in Hf.
  exists (join_names [32%N] (tree_texts t)), (items_toks (items_of t)), f0. split.
  - pose proof (kernel_string_of_tree t Hn) as K. rewrite Ht in K. exact K.
  - exact Hf.
Qed.

(* the same statement about c12_chain itself, i.e. with the parser's default
   fuel (|text| + 2) * |grammar table|: not proved (the PEG development gives
   "for all sufficiently large fuel" without a bound) *)
(* C12 partial *) Definition kernel_roundtrip_default_fuel_full : Prop :=
  forall seq sst, seq <> [] -> aligned seq sst -> wf sst ->
  Forall (fun x => x = sPlus \/ idname x = true) seq ->
  nonempty_strands sPlus seq true = true ->
  is_domainlevel_complement seq sst = Ok true ->
  exists ks pattern,
    c12_chain seq sst =
    VList [VStr ks; VList (map val_of_tok pattern); of_ss (seq, sst); VStr tag_kc; VStr [88%N]; of_nat 0].

(* non-vacuity, and the default fuel on a concrete instance:  a( b + ) c*  *)
Example ex_roundtrip_model :
  let seq := [[97]; [98]; sPlus; [97; 42]; [99; 42]]%N in
  let sst := [cO; cD; cP; cC; cD] in
  seq <> [] /\ aligned seq sst /\ wf sst /\ Forall (fun x => x = sPlus \/ idname x = true) seq /\
  nonempty_strands sPlus seq true = true /\ is_domainlevel_complement seq sst = Ok true /\
  exists ks pattern,
    c12_chain seq sst =
    VList [VStr ks; VList (map val_of_tok pattern); of_ss (seq, sst); VStr tag_kc; VStr [88%N]; of_nat 0].
Proof.
  cbn zeta. split; [discriminate|]. split; [reflexivity|]. split; [reflexivity|].
  split; [repeat constructor; (right; vm_compute; reflexivity) || (left; reflexivity)|].
  split; [reflexivity|]. split; [reflexivity|].
  exists [97; 40; 32; 98; 32; 43; 32; 41; 32; 99; 42]%N,
         [TStr [97%N]; TList [TStr [98%N]; TStr [43%N]]; TStr [99%N; 42%N]].
  vm_compute. reflexivity.
Qed.
