(* C10: equality, hashing and ordering are coherent, for every kind of object. *)
From Coq Require Import List NArith ZArith Bool.
From DSD Require Import Base.Str Base.Errors Base.Sort Model.ComplexUtils Model.Compare.
Import ListNotations.

Lemma good_ckey : good_cmp ckey_cmp.
Proof. apply good_pair; apply good_lex; [apply good_str|apply good_N]. Qed.
Lemma good_mkey : good_cmp mkey_cmp.
Proof. apply good_lex, good_ckey. Qed.
Lemma good_rkey {K} (cmp : K -> K -> comparison) : good_cmp cmp -> good_cmp (rkey_cmp cmp).
Proof. intros G. apply good_pair; [apply good_pair; apply good_lex; exact G|apply good_str]. Qed.

(* the coherence laws, for any kind whose canonical forms are compared by a good order *)
Record coherent {K} (cmp : K -> K -> comparison) : Prop := {
  co_eq_iff : forall a b, eqb cmp a b = true <-> a = b;
  co_hash : forall (H : Type) (h : K -> H) a b, eqb cmp a b = true -> h a = h b;
  co_ne : forall a b, nth 1 (ops cmp a b) false = negb (nth 0 (ops cmp a b) false);
  co_total : forall a b, leb cmp a b = true \/ leb cmp b a = true;
  co_le_trans : forall a b c, leb cmp a b = true -> leb cmp b c = true -> leb cmp a c = true;
  co_lt_trans : forall a b c, ltb cmp a b = true -> ltb cmp b c = true -> ltb cmp a c = true;
  co_lt_irrefl : forall a, ltb cmp a a = false;
  co_lt_le : forall a b, ltb cmp a b = true -> leb cmp a b = true;
  co_le_not_gt : forall a b, leb cmp a b = negb (gtb cmp a b);
  co_ge_flip : forall a b, geb cmp a b = leb cmp b a;
  co_gt_flip : forall a b, gtb cmp a b = ltb cmp b a;
  co_eq_equiv : forall a b, eqb cmp a b = true -> leb cmp a b = true /\ geb cmp a b = true;
  co_equiv_eq : forall a b, leb cmp a b = true -> geb cmp a b = true -> eqb cmp a b = true;
}.

Theorem good_coherent {K} (cmp : K -> K -> comparison) : good_cmp cmp -> coherent cmp.
Proof.
  intros G. split.
  - apply (eqb_iff cmp G).
  - intros H h a b E. apply (eqb_iff cmp G) in E. subst. reflexivity.
  - reflexivity.
  - apply (leb_total cmp G).
  - apply (leb_trans cmp G).
  - apply (ltb_trans cmp G).
  - apply (ltb_irrefl cmp G).
  - intros a b. unfold ltb, leb. destruct (cmp a b); cbn; congruence.
  - intros a b. unfold gtb. apply (leb_ltb cmp G).
  - reflexivity.
  - reflexivity.
  - intros a b E. apply (eqb_iff cmp G) in E. subst. unfold leb, geb.
    rewrite (good_refl _ G). auto.
  - intros a b H1 H2. apply (eqb_iff cmp G). apply (leb_antisym cmp G); assumption.
Qed.

Theorem complexes_coherent : coherent ckey_cmp.
Proof. apply good_coherent, good_ckey. Qed.
Theorem macrostates_coherent : coherent mkey_cmp.
Proof. apply good_coherent, good_mkey. Qed.
Theorem reactions_over_complexes_coherent : coherent (rkey_cmp ckey_cmp).
Proof. apply good_coherent, good_rkey, good_ckey. Qed.
Theorem reactions_over_macrostates_coherent : coherent (rkey_cmp mkey_cmp).
Proof. apply good_coherent, good_rkey, good_mkey. Qed.

(* domains: == on (name, length); order and hash on the name only *)
Theorem domains_coherent :
  (forall a b, dom_eqb a b = true <-> a = b) /\
  (forall (H : Type) (h : pstr -> H) a b, dom_eqb a b = true -> h (fst a) = h (fst b)) /\
  (forall a b, nth 1 (dom_ops a b) false = negb (nth 0 (dom_ops a b) false)) /\
  coherent str_cmp /\
  (forall a b, dom_eqb a b = true ->
     leb str_cmp (fst a) (fst b) = true /\ geb str_cmp (fst a) (fst b) = true).
Proof.
  assert (E : forall a b, dom_eqb a b = true <-> a = b).
  { intros [n l] [n' l']. unfold dom_eqb. cbn [fst snd].
    rewrite andb_true_iff, str_eqb_iff, Z.eqb_eq. split; [intros [-> ->]; reflexivity|].
    intros H; injection H; auto. }
  split; [exact E|]. split; [|split; [reflexivity|split; [apply good_coherent, good_str|]]].
  - intros H h a b Hab. apply E in Hab. subst. reflexivity.
  - intros a b Hab. apply E in Hab. subst. unfold leb, geb. rewrite (good_refl _ good_str). auto.
Qed.

(* non-vacuity: two complexes that differ only in structure are ordered, not equal *)
Example ex_ops :
  ops ckey_cmp ([[97%N]; sPlus; [98%N]], [cO; cP; cC]) ([[97%N]; sPlus; [98%N]], [cD; cP; cD])
  = [false; true; true; true; false; false].
Proof. vm_compute. reflexivity. Qed.
