(* C08: loop index, connectivity, exterior domains — first layer. *)
From Coq Require Import List Arith Lia Bool NArith.
From DSD Require Import Base.Str Base.Errors Model.ComplexUtils Model.Loops.
Import ListNotations.

(* is_connected is exactly "the loop index can be computed" whenever the only
   failure is SecondaryStructureError *)
Lemma is_connected_true sst :
  is_connected sst = Ok true <-> exists le, loop_index_of sst = Ok le.
Proof.
  unfold is_connected. destruct (loop_index_of sst) as [le|k].
  - split; eauto.
  - split.
    + destruct (str_eqb k eSSE); discriminate.
    + intros [le H]; discriminate.
Qed.
