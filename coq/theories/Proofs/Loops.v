(* C08: make_loop_index on the table of a dyck tree.

   Specification on trees (pre-order numbering with a threaded counter):
     lents d cl nl   the label of every position of d (and its strand breaks),
                     cl = loop the forest d sits in, nl = loops opened so far
     bl d cl nl      the loop that directly contains each strand break, in order
   The machine (li_rows / li_row / li_pos) is first re-read as a machine over
   entry lists (li_es), then simulated on `ents d` exactly as Mpt.v does for
   make_pair_table: from a state whose current loop is the label of the top of
   the stack, the entries of d extend the label table by `lents d`, leave stack
   and current loop unchanged and advance the strand bookkeeping by `bl d`. *)
From Coq Require Import List Arith Lia Bool NArith.
From DSD Require Import Base.Str Base.Errors Model.ComplexUtils Model.Loops Dyck.Dyck
  Proofs.Mpt Proofs.Db Proofs.Assoc.
Import ListNotations.

(* ------------------------------------------------------------------ *)
(* first layer: is_connected is "the loop index can be computed"       *)

Lemma is_connected_true sst :
  is_connected sst = Ok true <-> exists le, loop_index_of sst = Ok le.
Proof.
  unfold is_connected. destruct (loop_index_of sst) as [le|k].
  - split; eauto.
  - split.
    + destruct (str_eqb k eSSE); discriminate.
    + intros [le H]; discriminate.
Qed.

(* ------------------------------------------------------------------ *)
(* specification on trees                                              *)

Inductive lentry := LB | LP (n : nat).

Fixpoint npairs (d : dyck) : nat :=
  match d with
  | DNil => 0
  | DU r | DB r => npairs r
  | DP i r => S (npairs i + npairs r)
  end.

Fixpoint lents (d : dyck) (cl nl : nat) : list lentry :=
  match d with
  | DNil => []
  | DU r => LP cl :: lents r cl nl
  | DB r => LB :: lents r cl nl
  | DP i r => LP (S nl) :: lents i (S nl) (S nl) ++ LP (S nl) :: lents r cl (S nl + npairs i)
  end.

(* the loop directly containing each strand break, in order of the breaks *)
Fixpoint bl (d : dyck) (cl nl : nat) : list nat :=
  match d with
  | DNil => []
  | DU r => bl r cl nl
  | DB r => cl :: bl r cl nl
  | DP i r => bl i (S nl) (S nl) ++ bl r cl (S nl + npairs i)
  end.

Definition ltab := list (list nat).

Fixpoint appL (pc : ltab * list nat) (es : list lentry) : ltab * list nat :=
  match es with
  | [] => pc
  | LB :: r => appL (fst pc ++ [snd pc], []) r
  | LP v :: r => appL (fst pc, snd pc ++ [v]) r
  end.

(* the loop index of a tree: pre-order numbering, 0 outermost *)
Definition loops_of (d : dyck) : ltab :=
  let pc := appL ([], []) (lents d 0 0) in fst pc ++ [snd pc].

Lemma appL_app pc es1 es2 : appL pc (es1 ++ es2) = appL (appL pc es1) es2.
Proof. revert pc; induction es1 as [|[|v] r IH]; intros pc; cbn; auto. Qed.

Definition posL (pc : ltab * list nat) : loc := (length (fst pc), length (snd pc)).

Lemma posL_LP pc v : posL (fst pc, snd pc ++ [v]) = (fst (posL pc), S (snd (posL pc))).
Proof. unfold posL. cbn [fst snd]. rewrite app_length. cbn [length]. rewrite Nat.add_1_r. reflexivity. Qed.
Lemma posL_LB pc : posL (fst pc ++ [snd pc], @nil nat) = (S (fst (posL pc)), 0).
Proof. unfold posL. cbn [fst snd]. rewrite app_length. cbn [length]. rewrite Nat.add_1_r. reflexivity. Qed.

Lemma posL_appL_lents d : forall pc cl nl, posL (appL pc (lents d cl nl)) = adv d (posL pc).
Proof.
  induction d as [|r IH|r IH|i IHi r IHr]; intros pc cl nl; cbn [lents adv appL]; auto.
  - rewrite IH, posL_LP. reflexivity.
  - rewrite IH, posL_LB. reflexivity.
  - rewrite appL_app. cbn [appL]. rewrite IHr, posL_LP, IHi, posL_LP. reflexivity.
Qed.

(* ------------------------------------------------------------------ *)
(* reading a label of the table under construction                     *)

Lemma nth2_app_cur done cur l p v : nth2 done cur p = Some v -> nth2 done (cur ++ l) p = Some v.
Proof.
  unfold nth2. destruct (fst p <? length done); [auto|].
  destruct (fst p =? length done); [|discriminate].
  intros H. rewrite nth_error_app1; [exact H|]. apply nth_error_Some. congruence.
Qed.

Lemma nth2_close done cur p v : nth2 done cur p = Some v -> nth2 (done ++ [cur]) [] p = Some v.
Proof.
  unfold nth2. rewrite app_length. cbn [length].
  destruct (fst p <? length done) eqn:E.
  - apply Nat.ltb_lt in E.
    replace (fst p <? length done + 1) with true by (symmetry; apply Nat.ltb_lt; lia).
    rewrite nth_error_app1 by exact E. auto.
  - apply Nat.ltb_ge in E. destruct (fst p =? length done) eqn:E2; [|discriminate].
    apply Nat.eqb_eq in E2.
    replace (fst p <? length done + 1) with true by (symmetry; apply Nat.ltb_lt; lia).
    rewrite nth_error_app2 by lia. rewrite E2, Nat.sub_diag. cbn. auto.
Qed.

Lemma nth2_here done cur v : nth2 done (cur ++ [v]) (length done, length cur) = Some v.
Proof.
  unfold nth2. cbn [fst snd]. rewrite Nat.ltb_irrefl, Nat.eqb_refl.
  rewrite nth_error_app2 by lia. rewrite Nat.sub_diag. reflexivity.
Qed.

Lemma nth2_appL es : forall pc p v,
  nth2 (fst pc) (snd pc) p = Some v -> nth2 (fst (appL pc es)) (snd (appL pc es)) p = Some v.
Proof.
  induction es as [|[|x] r IH]; intros pc p v H; cbn [appL]; [exact H| |].
  - apply IH. cbn [fst snd]. apply nth2_close, H.
  - apply IH. cbn [fst snd]. apply nth2_app_cur, H.
Qed.

(* ------------------------------------------------------------------ *)
(* the machine over entry lists                                        *)

Record est := mkE { e_s : lst; e_fr : nat; e_ext : list nat; e_my : list (nat * nat) }.

(* end of a strand: the body of the outer loop after the inner one *)
Definition close_row (comp : bool) (x : est) : res est :=
  let s := e_s x in
  let to := l_cl s in
  let s2 := mkl (l_done s ++ [l_cur s]) [] (l_stack s) (l_cl s) (l_nl s) in
  if existsb (Nat.eqb to) (e_ext x)
  then if comp then Ok (mkE s2 to (e_ext x) (e_my x ++ [(e_fr x, to)])) else Err eSSE
  else Ok (mkE s2 to (e_ext x ++ [to]) (e_my x ++ [(e_fr x, to)])).

Fixpoint li_es (comp : bool) (x : est) (es : list entry) : res est :=
  match es with
  | [] => Ok x
  | EB :: r => dor x' <- close_row comp x; li_es comp x' r
  | EP v :: r =>
      dor s' <- li_pos (e_s x) (length (l_done (e_s x))) (length (l_cur (e_s x))) v;
      li_es comp (mkE s' (e_fr x) (e_ext x) (e_my x)) r
  end.

(* rows of an entry list, consumed from the front: first row, other rows *)
Fixpoint rowsF (es : list entry) : row * tab :=
  match es with
  | [] => ([], [])
  | EB :: r => let p := rowsF r in ([], fst p :: snd p)
  | EP v :: r => let p := rowsF r in (v :: fst p, snd p)
  end.

Lemma rowsF_appE es : forall pc,
  fst (appE pc es) ++ [snd (appE pc es)] = fst pc ++ (snd pc ++ fst (rowsF es)) :: snd (rowsF es).
Proof.
  induction es as [|[|v] r IH]; intros pc; cbn [appE rowsF fst snd].
  - rewrite app_nil_r. reflexivity.
  - rewrite IH. cbn [fst snd app]. rewrite <- app_assoc, app_nil_r. reflexivity.
  - rewrite IH. cbn [fst snd]. rewrite <- app_assoc. reflexivity.
Qed.

Lemma tab_of_rowsF d : tab_of d = fst (rowsF (ents d (0, 0))) :: snd (rowsF (ents d (0, 0))).
Proof. unfold tab_of. cbn zeta. rewrite rowsF_appE. reflexivity. Qed.

(* the rest of the current row, then the remaining rows *)
Definition li_mid (comp : bool) (x : est) (si di : nat) (a : row) (t : tab) :=
  dor s1 <- li_row (e_s x) si di a;
  dor x' <- close_row comp (mkE s1 (e_fr x) (e_ext x) (e_my x));
  li_rows comp (e_s x') (S si) (e_ext x') (e_my x') t.

Lemma li_rows_cons comp s si ext my r t :
  l_cur s = [] ->
  li_rows comp s si ext my (r :: t) = li_mid comp (mkE s (l_cl s) ext my) si 0 r t.
Proof.
  intros Hc. destruct s as [dn cu st cl nl]. cbn [l_cur] in Hc. subst cu.
  unfold li_mid. cbn [li_rows e_s e_fr e_ext e_my l_done l_stack l_cl l_nl].
  destruct (li_row _ si 0 r) as [s1|k]; cbn [rbind]; [|reflexivity].
  unfold close_row. cbn [e_s e_fr e_ext e_my].
  destruct (existsb (Nat.eqb (l_cl s1)) ext); [destruct comp|]; reflexivity.
Qed.

Lemma li_pos_shape s si di e s' :
  li_pos s si di e = Ok s' ->
  l_done s' = l_done s /\ exists v, l_cur s' = l_cur s ++ [v].
Proof.
  unfold li_pos. destruct e as [p|].
  - destruct (loc_ltb (si, di) p).
    + destruct (loc_ltb p (si, di)).
      * intros H. injection H as <-. cbn. eauto.
      * intros H. injection H as <-. cbn. eauto.
    + destruct (loc_ltb p (si, di)).
      * destruct (l_stack s); [discriminate|]. intros H. injection H as <-. cbn. eauto.
      * intros H. injection H as <-. cbn. eauto.
  - intros H. injection H as <-. cbn. eauto.
Qed.

Lemma close_row_shape comp x x' :
  close_row comp x = Ok x' ->
  e_fr x' = l_cl (e_s x') /\ l_cur (e_s x') = [] /\
  l_done (e_s x') = l_done (e_s x) ++ [l_cur (e_s x)].
Proof.
  unfold close_row. destruct (existsb _ _); [destruct comp; [|discriminate]|];
    intros H; injection H as <-; cbn; auto.
Qed.

Lemma est_eta x : mkE (e_s x) (e_fr x) (e_ext x) (e_my x) = x.
Proof. destruct x; reflexivity. Qed.

Lemma li_mid_es comp es : forall x,
  li_mid comp x (length (l_done (e_s x))) (length (l_cur (e_s x))) (fst (rowsF es)) (snd (rowsF es)) =
  dor x1 <- li_es comp x es; dor x2 <- close_row comp x1; Ok (l_done (e_s x2), e_ext x2, e_my x2).
Proof.
  induction es as [|[|v] r IH]; intros x; cbn [rowsF li_es fst snd].
  - unfold li_mid. cbn [li_row rbind]. rewrite est_eta.
    destruct (close_row comp x) as [x'|k]; reflexivity.
  - unfold li_mid at 1. cbn [li_row rbind]. rewrite est_eta.
    destruct (close_row comp x) as [x'|k] eqn:E; cbn [rbind]; [|reflexivity].
    destruct (close_row_shape _ _ _ E) as (Hfr & Hcur & Hdone).
    rewrite li_rows_cons by exact Hcur. rewrite <- Hfr, est_eta.
    specialize (IH x'). rewrite Hcur, Hdone in IH. rewrite app_length in IH. cbn [length] in IH.
    rewrite Nat.add_1_r in IH. exact IH.
  - unfold li_mid at 1. cbn [li_row].
    destruct (li_pos (e_s x) _ _ v) as [s1|k] eqn:E; cbn [rbind]; [|reflexivity].
    destruct (li_pos_shape _ _ _ _ _ E) as (Hdone & w & Hcur).
    specialize (IH (mkE s1 (e_fr x) (e_ext x) (e_my x))). cbn [e_s e_fr e_ext e_my] in IH.
    rewrite Hdone, Hcur in IH. rewrite app_length in IH. cbn [length] in IH.
    rewrite Nat.add_1_r in IH. exact IH.
Qed.

Definition est0 : est := mkE (mkl [] [] [] 0 0) 0 [] [].

Lemma raw_es comp d :
  make_loop_index_raw comp (tab_of d) =
  dor x1 <- li_es comp est0 (ents d (0, 0)); dor x2 <- close_row comp x1;
  Ok (l_done (e_s x2), e_ext x2, e_my x2).
Proof.
  unfold make_loop_index_raw. rewrite tab_of_rowsF.
  rewrite li_rows_cons by reflexivity. cbn [l_cl].
  apply (li_mid_es comp (ents d (0, 0)) est0).
Qed.

(* ------------------------------------------------------------------ *)
(* strand bookkeeping as a function of the break loops                  *)

Definition bk := (nat * list nat * list (nat * nat))%type.   (* fr, exterior, myext *)

Definition bk_step (comp : bool) (b : bk) (l : nat) : res bk :=
  let '(fr, ext, my) := b in
  if existsb (Nat.eqb l) ext
  then if comp then Ok (l, ext, my ++ [(fr, l)]) else Err eSSE
  else Ok (l, ext ++ [l], my ++ [(fr, l)]).

Fixpoint bk_steps (comp : bool) (b : bk) (ls : list nat) : res bk :=
  match ls with
  | [] => Ok b
  | l :: r => dor b' <- bk_step comp b l; bk_steps comp b' r
  end.

Lemma bk_steps_app comp ls1 ls2 : forall b,
  bk_steps comp b (ls1 ++ ls2) = dor b' <- bk_steps comp b ls1; bk_steps comp b' ls2.
Proof.
  induction ls1 as [|l r IH]; intros b; cbn [app bk_steps rbind]; [reflexivity|].
  destruct (bk_step comp b l) as [b'|k]; cbn [rbind]; [apply IH|reflexivity].
Qed.

Definition bk_of (x : est) : bk := (e_fr x, e_ext x, e_my x).
Definition with_bk (s : lst) (b : bk) : est := mkE s (fst (fst b)) (snd (fst b)) (snd b).

Lemma close_row_bk comp x :
  close_row comp x =
  dor b <- bk_step comp (bk_of x) (l_cl (e_s x));
  Ok (with_bk (mkl (l_done (e_s x) ++ [l_cur (e_s x)]) [] (l_stack (e_s x)) (l_cl (e_s x)) (l_nl (e_s x))) b).
Proof.
  unfold close_row, bk_step, bk_of, with_bk.
  destruct (existsb _ _); [destruct comp|]; reflexivity.
Qed.

(* ------------------------------------------------------------------ *)
(* the simulation                                                       *)

(* the current loop is the label of the innermost open bracket (0: none) *)
Definition top_ok (s : lst) : Prop :=
  match l_stack s with
  | [] => l_cl s = 0
  | p :: _ => nth2 (l_done s) (l_cur s) p = Some (l_cl s)
  end.

Definition ext_state (s : lst) (d : dyck) : lst :=
  let pc := appL (l_done s, l_cur s) (lents d (l_cl s) (l_nl s)) in
  mkl (fst pc) (snd pc) (l_stack s) (l_cl s) (l_nl s + npairs d).

Lemma lt_loc_adv_S i p : lt_loc p (adv i (fst p, S (snd p))).
Proof.
  pose proof (adv_ge i (fst p, S (snd p))) as H.
  unfold le_loc, lt_loc in *. cbn [fst snd] in *. lia.
Qed.

Lemma li_pos_open s si di q :
  lt_loc (si, di) q ->
  li_pos s si di (Some q) =
  Ok (mkl (l_done s) (l_cur s ++ [S (l_nl s)]) ((si, di) :: l_stack s) (S (l_nl s)) (S (l_nl s))).
Proof.
  intros H. unfold li_pos. rewrite (ltb_loc_true _ _ H), (ltb_loc_false _ _ H). reflexivity.
Qed.

Lemma li_pos_close s si di p p' st :
  lt_loc p (si, di) -> l_stack s = p' :: st ->
  li_pos s si di (Some p) =
  Ok (mkl (l_done s) (l_cur s ++ [l_cl s]) st
          (match st with
           | [] => 0
           | ploc :: _ => match nth2 (l_done s) (l_cur s ++ [l_cl s]) ploc with Some v => v | None => 0 end
           end) (l_nl s)).
Proof.
  intros H Hs. unfold li_pos. rewrite (ltb_loc_false _ _ H), (ltb_loc_true _ _ H), Hs. reflexivity.
Qed.

Lemma li_es_tree comp d : forall x rest pos cl nl,
  top_ok (e_s x) ->
  pos = (length (l_done (e_s x)), length (l_cur (e_s x))) ->
  cl = l_cl (e_s x) -> nl = l_nl (e_s x) ->
  li_es comp x (ents d pos ++ rest) =
  dor b <- bk_steps comp (bk_of x) (bl d cl nl);
  li_es comp (with_bk (ext_state (e_s x) d) b) rest.
Proof.
  induction d as [|r IH|r IH|i IHi r IHr]; intros x rest pos cl0 nl0 Htop -> -> ->;
    destruct x as [[dn cu st cl nl] fr ext my];
    cbn [e_s e_fr e_ext e_my l_done l_cur l_cl l_nl l_stack] in *.
  - cbn [ents app bl bk_steps rbind]. unfold ext_state, with_bk, bk_of. cbn [lents appL npairs fst snd l_done l_cur l_cl l_nl l_stack e_fr e_ext e_my].
    rewrite Nat.add_0_r. reflexivity.
  - (* DU *)
    cbn [ents app li_es bl fst snd e_s e_fr e_ext e_my l_done l_cur].
    cbn [li_pos rbind l_cl l_nl l_stack l_done l_cur].
    rewrite (IH (mkE (mkl dn (cu ++ [cl]) st cl nl) fr ext my) rest _ cl nl).
    + unfold ext_state, bk_of. cbn [lents appL npairs fst snd e_s e_fr e_ext e_my l_done l_cur l_cl l_nl l_stack]. reflexivity.
    + unfold top_ok in *. cbn [e_s l_stack l_done l_cur l_cl] in *.
      destruct st as [|p st']; [exact Htop|]. apply nth2_app_cur, Htop.
    + cbn [e_s l_done l_cur]. rewrite app_length. cbn [length]. rewrite Nat.add_1_r. reflexivity.
    + reflexivity.
    + reflexivity.
  - (* DB *)
    cbn [ents app li_es bl bk_steps fst snd].
    rewrite close_row_bk. cbn [e_s l_done l_cur l_cl l_nl l_stack].
    destruct (bk_step comp (bk_of _) cl) as [b|k] eqn:E; cbn [rbind]; [|reflexivity].
    rewrite (IH (with_bk (mkl (dn ++ [cu]) [] st cl nl) b) rest _ cl nl).
    + unfold ext_state, bk_of, with_bk. cbn [lents appL npairs fst snd e_s e_fr e_ext e_my l_done l_cur l_cl l_nl l_stack].
      destruct b as [[fr' ext'] my']. reflexivity.
    + unfold top_ok in *. cbn [with_bk e_s l_stack l_done l_cur l_cl] in *.
      destruct st as [|p st']; [exact Htop|]. apply nth2_close, Htop.
    + cbn [with_bk e_s l_done l_cur]. rewrite app_length. cbn [length]. rewrite Nat.add_1_r. reflexivity.
    + reflexivity.
    + reflexivity.
  - (* DP *)
    cbn [ents bl fst snd].
    set (p := (length dn, length cu)).
    set (q := adv i (length dn, S (length cu))).
    assert (Hpq : lt_loc p q) by (apply (lt_loc_adv_S i p)).
    cbn [app li_es e_s e_fr e_ext e_my l_done l_cur].
    (* the opening bracket *)
    rewrite (li_pos_open _ _ _ q Hpq). fold p.
    cbn [rbind l_cl l_nl l_stack l_done l_cur].
    rewrite <- app_assoc. cbn [app].
    set (s1 := mkl dn (cu ++ [S nl]) (p :: st) (S nl) (S nl)).
    assert (Htop1 : top_ok s1).
    { unfold top_ok, s1. cbn [l_stack l_done l_cur l_cl]. apply nth2_here. }
    rewrite (IHi (mkE s1 fr ext my) _
                 (length dn, S (length cu)) (S nl) (S nl) Htop1);
      [| unfold s1; cbn [e_s l_done l_cur]; rewrite app_length; cbn [length]; rewrite Nat.add_1_r; reflexivity
       | reflexivity | reflexivity].
    rewrite bk_steps_app. unfold bk_of. cbn [e_fr e_ext e_my e_s].
    destruct (bk_steps comp (fr, ext, my) (bl i (S nl) (S nl))) as [b1|k]; cbn [rbind]; [|reflexivity].
    (* the closing bracket, from the state after the inner forest *)
    set (s2 := ext_state s1 i).
    assert (Hpos2 : (length (l_done s2), length (l_cur s2)) = q).
    { unfold s2, ext_state. cbn [l_done l_cur].
      pose proof (posL_appL_lents i (l_done s1, l_cur s1) (l_cl s1) (l_nl s1)) as H.
      unfold posL in H. cbn [fst snd] in H. rewrite H. unfold s1. cbn [l_done l_cur].
      rewrite app_length. cbn [length]. rewrite Nat.add_1_r. reflexivity. }
    cbn [li_es]. unfold with_bk. cbn [e_s e_fr e_ext e_my].
    assert (Hq1 : length (l_done s2) = fst q) by (rewrite <- Hpos2; reflexivity).
    assert (Hq2 : length (l_cur s2) = snd q) by (rewrite <- Hpos2; reflexivity).
    rewrite Hq1, Hq2.
    assert (Hst2 : l_stack s2 = p :: st) by reflexivity.
    rewrite (li_pos_close s2 (fst q) (snd q) p p st) by (try exact Hst2; destruct q; exact Hpq).
    cbn [rbind].
    assert (Hcl2 : match st with
                   | [] => 0
                   | ploc :: _ => match nth2 (l_done s2) (l_cur s2 ++ [l_cl s2]) ploc with Some v => v | None => 0 end
                   end = cl).
    { unfold top_ok in Htop. cbn [l_stack l_done l_cur l_cl] in Htop.
      destruct st as [|ploc st']; [symmetry; exact Htop|].
      assert (H1 : nth2 (l_done s1) (l_cur s1) ploc = Some cl).
      { unfold s1. cbn [l_done l_cur]. apply nth2_app_cur, Htop. }
      assert (H2 : nth2 (l_done s2) (l_cur s2) ploc = Some cl).
      { unfold s2, ext_state. cbn [l_done l_cur].
        apply (nth2_appL _ (l_done s1, l_cur s1)). exact H1. }
      rewrite (nth2_app_cur _ _ _ _ _ H2). reflexivity. }
    rewrite Hcl2.
    set (s3 := mkl (l_done s2) (l_cur s2 ++ [l_cl s2]) st cl (l_nl s2)).
    assert (Htop3 : top_ok s3).
    { unfold top_ok, s3. cbn [l_stack l_done l_cur l_cl].
      unfold top_ok in Htop. cbn [l_stack l_done l_cur l_cl] in Htop.
      destruct st as [|ploc st']; [exact Htop|].
      apply nth2_app_cur. unfold s2, ext_state. cbn [l_done l_cur].
      apply (nth2_appL _ (l_done s1, l_cur s1)). unfold s1. cbn [l_done l_cur fst snd].
      apply nth2_app_cur, Htop. }
    rewrite (IHr (mkE s3 (fst (fst b1)) (snd (fst b1)) (snd b1)) rest
                 (fst q, S (snd q)) cl (S nl + npairs i) Htop3);
      [| unfold s3; cbn [e_s l_done l_cur]; rewrite app_length; cbn [length];
         rewrite Nat.add_1_r, Hq1, Hq2; reflexivity
       | reflexivity | reflexivity].
    unfold bk_of. cbn [e_fr e_ext e_my e_s].
    replace (fst (fst b1), snd (fst b1), snd b1) with b1 by (destruct b1 as [[? ?] ?]; reflexivity).
    destruct (bk_steps comp b1 (bl r cl (S nl + npairs i))) as [b2|k]; cbn [rbind]; [|reflexivity].
    unfold with_bk. do 2 f_equal.
    unfold ext_state. cbn [lents npairs l_done l_cur l_cl l_nl l_stack appL fst snd].
    rewrite appL_app. cbn [appL fst snd].
    unfold s3. cbn [l_done l_cur l_cl l_nl l_stack].
    unfold s2, ext_state. cbn [l_done l_cur l_cl l_nl l_stack]. unfold s1. cbn [l_done l_cur l_cl l_nl l_stack].
    f_equal. lia.
Qed.

(* ------------------------------------------------------------------ *)
(* the bookkeeping in closed form                                       *)

Fixpoint chain (fr : nat) (ls : list nat) : list (nat * nat) :=
  match ls with
  | [] => []
  | l :: r => (fr, l) :: chain l r
  end.

Lemma last_cons {A} (r : list A) : forall l d, last (l :: r) d = last r l.
Proof.
  induction r as [|x r IH]; intros l d; [reflexivity|].
  change (last (l :: x :: r) d) with (last (x :: r) d).
  rewrite (IH x d), (IH x l). reflexivity.
Qed.

Lemma existsb_eqb_In l ext : existsb (Nat.eqb l) ext = true <-> In l ext.
Proof.
  rewrite existsb_exists. split.
  - intros (x & Hx & E). apply Nat.eqb_eq in E. subst x. exact Hx.
  - intros H. exists l. split; [exact H|apply Nat.eqb_refl].
Qed.

Lemma existsb_eqb_notIn l ext : ~ In l ext -> existsb (Nat.eqb l) ext = false.
Proof.
  intros H. destruct (existsb (Nat.eqb l) ext) eqn:E; [|reflexivity].
  apply existsb_eqb_In in E. contradiction.
Qed.

(* all loops distinct: both modes succeed, the exterior list is the list of break loops *)
Lemma bk_steps_nodup comp ls : forall fr ext my,
  NoDup (ext ++ ls) ->
  bk_steps comp (fr, ext, my) ls = Ok (last ls fr, ext ++ ls, my ++ chain fr ls).
Proof.
  induction ls as [|l r IH]; intros fr ext my H; cbn [bk_steps chain last].
  - rewrite !app_nil_r. reflexivity.
  - assert (Hl : ~ In l ext).
    { apply NoDup_remove_2 in H. intros Hin. apply H. apply in_or_app. left. exact Hin. }
    unfold bk_step. rewrite (existsb_eqb_notIn _ _ Hl). cbn [rbind].
    rewrite IH by (rewrite <- app_assoc; exact H).
    rewrite <- !app_assoc. cbn [app]. f_equal. f_equal. f_equal.
    symmetry. apply (last_cons r l fr).
Qed.

(* a repeated loop: components = False raises SecondaryStructureError *)
Lemma bk_steps_dup ls : forall fr ext my,
  NoDup ext -> ~ NoDup (ext ++ ls) -> bk_steps false (fr, ext, my) ls = Err eSSE.
Proof.
  induction ls as [|l r IH]; intros fr ext my Hnd H; cbn [bk_steps].
  - rewrite app_nil_r in H. contradiction.
  - unfold bk_step. destruct (existsb (Nat.eqb l) ext) eqn:E; cbn [rbind]; [reflexivity|].
    apply IH.
    + assert (Hl : ~ In l ext).
      { intros Hin. apply existsb_eqb_In in Hin. congruence. }
      clear - Hnd Hl. induction ext as [|x ext IHe]; cbn [app].
      * constructor; [intros []|constructor].
      * inversion Hnd as [|? ? Hx Hn]; subst. constructor.
        -- intros Hin. apply in_app_or in Hin. destruct Hin as [Hin|[->|[]]]; [contradiction|].
           apply Hl. left. reflexivity.
        -- apply IHe; [exact Hn|]. intros Hin. apply Hl. right. exact Hin.
    + rewrite <- app_assoc. exact H.
Qed.

(* components = True never raises; the per-strand intervals are the chain of break loops *)
Lemma bk_steps_comp ls : forall fr ext my,
  exists ext', bk_steps true (fr, ext, my) ls = Ok (last ls fr, ext', my ++ chain fr ls).
Proof.
  induction ls as [|l r IH]; intros fr ext my; cbn [bk_steps chain last].
  - exists ext. rewrite app_nil_r. reflexivity.
  - unfold bk_step. destruct (existsb (Nat.eqb l) ext); cbn [rbind].
    + destruct (IH l ext (my ++ [(fr, l)])) as [ext' H]. exists ext'. rewrite H.
      rewrite <- app_assoc. cbn [app]. rewrite <- (last_cons r l fr). reflexivity.
    + destruct (IH l (ext ++ [l]) (my ++ [(fr, l)])) as [ext' H]. exists ext'. rewrite H.
      rewrite <- app_assoc. cbn [app]. rewrite <- (last_cons r l fr). reflexivity.
Qed.

(* ------------------------------------------------------------------ *)
(* make_loop_index on the table of a tree                               *)

(* break loops of the whole structure, then the loop of the outer end *)
Definition ends (d : dyck) : list nat := bl d 0 0 ++ [0].

Lemma raw_tree comp d :
  make_loop_index_raw comp (tab_of d) =
  dor b <- bk_steps comp (0, [], []) (ends d); Ok (loops_of d, snd (fst b), snd b).
Proof.
  rewrite raw_es. rewrite <- (app_nil_r (ents d (0, 0))).
  rewrite (li_es_tree comp d est0 [] (0, 0) 0 0) by reflexivity.
  unfold ends. rewrite bk_steps_app. unfold bk_of, est0. cbn [e_fr e_ext e_my e_s].
  destruct (bk_steps comp (0, [], []) (bl d 0 0)) as [b|k]; cbn [rbind li_es bk_steps]; [|reflexivity].
  rewrite close_row_bk. unfold with_bk at 1 2 3 4 5 6. cbn [e_s]. unfold ext_state. cbn [l_done l_cur l_cl l_nl l_stack].
  unfold bk_of. cbn [e_fr e_ext e_my].
  replace (fst (fst b), snd (fst b), snd b) with b by (destruct b as [[? ?] ?]; reflexivity).
  destruct (bk_step comp b 0) as [b'|k]; cbn [rbind]; [|reflexivity].
  unfold with_bk. cbn [e_s e_ext e_my l_done]. reflexivity.
Qed.

(* li_spec, components = True: always succeeds *)
Theorem li_spec_comp d :
  make_loop_index_comp (tab_of d) = Ok (loops_of d, chain 0 (ends d)).
Proof.
  unfold make_loop_index_comp. rewrite raw_tree.
  destruct (bk_steps_comp (ends d) 0 [] []) as [ext' H]. rewrite H. reflexivity.
Qed.

(* li_spec + ext_spec, components = False on a structure without repeated break loop *)
Theorem li_spec_ok d :
  NoDup (ends d) -> make_loop_index (tab_of d) = Ok (loops_of d, ends d).
Proof.
  intros H. unfold make_loop_index. rewrite raw_tree.
  rewrite (bk_steps_nodup false (ends d) 0 [] []) by exact H. reflexivity.
Qed.

Theorem li_spec_err d :
  ~ NoDup (ends d) -> make_loop_index (tab_of d) = Err eSSE.
Proof.
  intros H. unfold make_loop_index. rewrite raw_tree.
  rewrite (bk_steps_dup (ends d) 0 [] []); [reflexivity|constructor|exact H].
Qed.

Lemma NoDup_dec_nat (l : list nat) : {NoDup l} + {~ NoDup l}.
Proof.
  induction l as [|x l IH].
  - left. constructor.
  - destruct (in_dec Nat.eq_dec x l) as [Hin|Hin].
    + right. intros H. inversion H; contradiction.
    + destruct IH as [Hn|Hn].
      * left. constructor; assumption.
      * right. intros H. inversion H; contradiction.
Qed.

(* no third outcome *)
Corollary li_accepts_iff d :
  (exists r, make_loop_index (tab_of d) = Ok r) <-> NoDup (ends d).
Proof.
  split.
  - intros [r H]. destruct (NoDup_dec_nat (ends d)) as [Hn|Hn]; [exact Hn|].
    rewrite (li_spec_err d Hn) in H. discriminate.
  - intros H. eexists. apply li_spec_ok, H.
Qed.

(* non-vacuity: "(.+(+)).(+.)"  *)
Example ex_li :
  let d := DP (DU (DB (DP (DB DNil) DNil))) (DU (DP (DB (DU DNil)) DNil)) in
  render d = [SO; SD; SB; SO; SB; SC; SC; SD; SO; SB; SD; SC] /\
  NoDup (ends d) /\
  make_loop_index (tab_of d) = Ok ([[1; 1]; [2]; [2; 1; 0; 3]; [3; 3]], [1; 2; 3; 0]) /\
  make_loop_index_comp (tab_of d) =
    Ok ([[1; 1]; [2]; [2; 1; 0; 3]; [3; 3]], [(0, 1); (1, 2); (2, 3); (3, 0)]).
Proof.
  cbn zeta. split; [reflexivity|]. split.
  - unfold ends. cbn. repeat constructor; cbn; intuition discriminate.
  - split; reflexivity.
Qed.

Example ex_li_disconnected :
  let d := DP (DU (DB (DU (DB (DU DNil))))) DNil in   (* "(.+.+.)" *)
  ~ NoDup (ends d) /\ make_loop_index (tab_of d) = Err eSSE.
Proof.
  cbn zeta. split; [|reflexivity].
  unfold ends. cbn. intros H. inversion H as [|? ? Hin _]. apply Hin. left. reflexivity.
Qed.
