(* Reader model, C14: a consistent system is never refused.
   Part 7: reading a kernel-notation complex over declared domains. *)
From Coq Require Import List NArith ZArith Bool Arith Lia.
From DSD Require Import Base.Str Base.Errors Model.ComplexUtils Model.RegStr Model.ReaderStr Model.PyNum
  Model.Peg Model.Kernel Model.DispatchKernel Model.Heap Model.Registry Model.Reader Model.ReaderShape Model.ReaderConsistent
  Proofs.RegHeap Proofs.RegInv Proofs.RegCalls Proofs.RegExt Proofs.ReaderBasic Proofs.ReaderStmt Proofs.ReaderHeap
  Proofs.ReaderInv Proofs.ReaderHoare Proofs.ReaderNoFault Proofs.ReaderThms Proofs.ReaderBuilds Proofs.ReaderKernel
  Proofs.ReaderMore Proofs.ReaderSys Proofs.ReaderSysA Proofs.ReaderSysB Proofs.ReaderSysD Proofs.ReaderSysE.
From DSD Require Model.Iupac.
Import ListNotations.

Lemma holds_app st a b : holds (holds st a) b = holds st (a ++ b).
Proof. unfold holds, with_roots. cbn [heap classes roots]. rewrite map_app, app_assoc. reflexivity. Qed.

(* ---- the rotation loop when no rotation is registered ---- *)
Lemma cdict_set_keeps k e cdict x : In x (map fst cdict) -> In x (map fst (cdict_set k e cdict)).
Proof.
  unfold cdict_set. rewrite (aset_keys ckey_eqb ckey_eqb_iff).
  destruct (alookup ckey_eqb k cdict); [auto|]. intros H. apply in_or_app. left. exact H.
Qed.
Lemma cdict_set_has k e cdict : In k (map fst (cdict_set k e cdict)).
Proof.
  unfold cdict_set. rewrite (aset_keys ckey_eqb ckey_eqb_iff).
  destruct (alookup ckey_eqb k cdict) eqn:E.
  - apply (alookup_in ckey_eqb ckey_eqb_iff) in E. apply (in_map fst) in E. exact E.
  - apply in_or_app. right. left. reflexivity.
Qed.

Lemma rot_loop_keys_mono n : forall e reg rseq rstr cdict ex cdict',
  rot_loop n e reg rseq rstr cdict = Ok (ex, cdict') ->
  forall k, In k (map fst cdict) -> In k (map fst cdict').
Proof.
  induction n as [|n IH]; intros e reg rseq rstr cdict ex cdict' H k Hk; cbn in H.
  - injection H as <- <-. exact Hk.
  - destruct (klookup (KCplx (rseq, rstr)) reg); [injection H as <- <-; exact Hk|].
    destruct (rotate_complex_once rseq rstr) as [rr|kk]; cbn in H; [|discriminate].
    eapply IH; [exact H|]. apply cdict_set_keeps. exact Hk.
Qed.

Lemma rot_loop_unreg n : forall e reg rseq rstr cdict cdict',
  rot_loop n e [] rseq rstr cdict = Ok (None, cdict') ->
  (forall k, In k (map fst cdict') -> klookup (KCplx k) reg = None) ->
  rot_loop n e reg rseq rstr cdict = Ok (None, cdict').
Proof.
  induction n as [|n IH]; intros e reg rseq rstr cdict cdict' H Hf; cbn in H |- *; [exact H|].
  destruct (rotate_complex_once rseq rstr) as [rr|kk] eqn:Er; cbn in H; [|discriminate].
  assert (Hk : klookup (KCplx (rseq, rstr)) reg = None).
  { apply Hf. eapply rot_loop_keys_mono; [exact H|]. apply cdict_set_has. }
  rewrite Hk. cbn. apply IH; assumption.
Qed.

Lemma canon_of_in cdict cn e : canon_of cdict = Some (cn, e) -> In cn (map fst cdict).
Proof.
  unfold canon_of. destruct (min_ckey cdict) as [k|]; [|discriminate].
  destruct (cdict_get k cdict) as [e0|] eqn:E; [|discriminate]. intros H. injection H as <- <-.
  apply (alookup_in ckey_eqb ckey_eqb_iff) in E. apply (in_map fst) in E. exact E.
Qed.

(* what stands for a name of the kernel pattern *)
Definition cell_refs (c : cell) : list nat := match c with CStr _ => [] | CDom i => [i] end.

Section StepKernel.
  Variable ct : ctable.
  Variables cd cs cc cm cr : nat.
  Hypothesis CO : cfg_okb ct cd cs cc cm cr = true.
  Hypothesis PL : forall c, In c [cd; cs; cc; cm; cr] -> exists ci, nth_error ct c = Some ci /\ c_fail ci = FNone.
  Notation G := (g cd cs cc cm cr).
  Notation cls_of := (cls_of cd cs cc cm cr).
  Notation Core := (Core cd cs cc cm cr ct).
  Notation SInv := (SInv cd cs cc cm cr ct).
  Notation Built := (Built cd cs cc cm cr).
  Notation dobj := (dobj cd).
  Notation DomReg := (DomReg cd).

  Lemma mapM_lookup_gen {A B} (f : A -> M B) (ref : B -> list nat) (P : state -> A -> B -> Prop) :
    (forall st j x y, P st x y -> P (hold st j) x y) ->
    (forall r x y, SOK ct (r_st r) -> P (r_st r) x y ->
       f x r = (with_st r (holds (r_st r) (ref y)), Ok y) /\
       (forall i, In i (ref y) -> is_live (heap (r_st r)) i = true)) ->
    forall xs ys r, SOK ct (r_st r) -> Forall2 (P (r_st r)) xs ys ->
      mapM f xs r = (with_st r (holds (r_st r) (flat_map ref ys)), Ok ys) /\
      (forall i, In i (flat_map ref ys) -> is_live (heap (r_st r)) i = true).
  Proof.
    intros Hp Hf xs ys r S F. revert ys r S F.
    induction xs as [|x xs IH]; intros ys r S F; inversion F as [|? y ? ys' Px F']; subst.
    - cbn [mapM flat_map]. unfold ret. rewrite holds_nil, with_st_id. split; [reflexivity | intros i []].
    - cbn [mapM flat_map]. destruct (Hf r x y S Px) as [E L]. rewrite (bind_ok _ _ _ _ _ E).
      set (r1 := with_st r (holds (r_st r) (ref y))).
      assert (S1 : SOK ct (r_st r1)) by (apply sok_holds; assumption).
      assert (Hps : forall l st x y, P st x y -> P (holds st l) x y).
      { intros l. induction l as [|j l IHl]; intros st0 x0 y0 H0; [rewrite holds_nil; exact H0|].
        rewrite <- holds_cons. apply IHl. apply Hp. exact H0. }
      assert (F1 : Forall2 (P (r_st r1)) xs ys').
      { eapply Forall2_impl'; [|exact F']. intros a b. apply Hps. }
      destruct (IH ys' r1 S1 F1) as [E2 L2]. rewrite (bind_ok _ _ _ _ _ E2). unfold ret.
      split.
      + unfold r1. cbn [r_st with_st]. rewrite holds_app. reflexivity.
      + intros j Hj. apply in_app_or in Hj. destruct Hj as [Hj|Hj]; [apply L; exact Hj | apply (L2 j Hj)].
  Qed.

  (* the cell of a name: '+' stays a string, a declared domain is found *)
  Definition CellReg (st : state) (x : pstr) (c : cell) : Prop :=
    if str_eqb x sPlus then c = CStr x else exists j, c = CDom j /\ DomReg st x j.

  Lemma first_attempt_exact names cells r :
    SOK ct (r_st r) -> Forall2 (CellReg (r_st r)) names cells ->
    first_attempt ct G names r = (with_st r (holds (r_st r) (flat_map cell_refs cells)), Ok cells) /\
    (forall i, In i (flat_map cell_refs cells) -> is_live (heap (r_st r)) i = true).
  Proof.
    intros OK F. unfold first_attempt.
    apply (mapM_lookup_gen _ cell_refs CellReg); [| |exact OK|exact F].
    - intros st j x y H. exact H.
    - intros r0 x y OK0 H. unfold CellReg in H. destruct (str_eqb x sPlus).
      + subst y. cbn [cell_refs]. unfold ret. rewrite holds_nil, with_st_id. split; [reflexivity | intros i []].
      + destruct H as [j [-> H]]. destruct (dbn_exact ct cd cs cc cm cr PL r0 x j OK0 H) as [E L].
        rewrite (bind_ok _ _ _ _ _ E). unfold ret. cbn [cell_refs]. split.
        * unfold holds, with_roots, hold. reflexivity.
        * intros i [<-|[]]. exact L.
  Qed.

  Lemma kernel_sequence_exact names sst cells r :
    SOK ct (r_st r) -> Forall2 (CellReg (r_st r)) names cells ->
    kernel_sequence ct G names sst r =
      (with_st r (holds (r_st r) (flat_map cell_refs cells)), Ok (cells, sst)).
  Proof.
    intros OK F. unfold kernel_sequence. rewrite (bind_ok nroots _ r r _ eq_refl).
    unfold catch. destruct (first_attempt_exact names cells r OK F) as [E _].
    rewrite (bind_ok _ _ _ _ _ E). reflexivity.
  Qed.

  (* Complex(sequence, structure, name) for a new name when no rotation is registered *)
  Lemma cplx_new_exact st (es : list elem) ss nm cdict cn e :
    length es = length ss -> rot_dict (map fst es) ss = Some cdict -> canon_of cdict = Some (cn, e) ->
    nonempty nm = true -> nlookup nm (cs_names (cget st cc)) = None ->
    (forall k, In k (map fst cdict) -> klookup (KCplx k) (cs_canon (cget st cc)) = None) ->
    cplx_call ct cc st (Some es) (Some ss) (Some nm) None =
      (mk_new st cc nm (KCplx cn) (map (fun kv => KCplx (fst kv)) cdict) (elem_ids es)
              (DCplx es ss (wrap (- Z.of_nat e) (Z.of_nat (nstrands (map fst es))))),
       CRet (length (heap st)) true).
  Proof.
    intros Hlen Hrd Hcan Hne Hn Hk. destruct (PL cc) as [ci [Hci Hf]]; [cbn; auto 10|].
    unfold cplx_call. rewrite Hci. cbn [resolve_name]. rewrite Hlen, Nat.eqb_refl. cbn [negb]. cbv zeta.
    unfold rot_dict in Hrd. fold (nstrands (map fst es)).
    destruct (rot_loop (nstrands (map fst es)) 0 [] (map fst es) ss []) as [[[x|] cd0]|] eqn:ER; try discriminate.
    injection Hrd as ->.
    destruct (Nat.eqb (nstrands (map fst es)) 0) eqn:E0.
    { apply Nat.eqb_eq in E0. rewrite E0 in ER. cbn in ER. injection ER as <-. discriminate. }
    rewrite (rot_loop_unreg _ _ _ _ _ _ _ ER Hk).
    pose proof (Hk cn (canon_of_in _ _ _ Hcan)) as Hkc.
    unfold canon_of in Hcan. destruct (min_ckey cdict) as [k0|]; [|discriminate].
    destruct (cdict_get k0 cdict) as [e0|]; [|discriminate]. injection Hcan as -> ->.
    unfold sing_lookup. rewrite Hne, Hn.
    rewrite Hkc. apply (create_new ct st cc ci); assumption.
  Qed.
  Lemma elem_ids_cells st cells : elem_ids (map (cell_elem st) cells) = flat_map cell_refs cells.
  Proof.
    induction cells as [|c cells IH]; [reflexivity|]. cbn [map flat_map]. rewrite <- IH.
    destruct c; reflexivity.
  Qed.

  (* no rotation of the new complex is a rotation of an earlier one *)
  Definition rot_disjoint (prev : list stmt) (cdict : list (ckey * nat)) : Prop :=
    forall n' names' sst' cdict', In (n', (names', sst')) (decl_cplx prev) -> rot_dict names' sst' = Some cdict' ->
      forall k, In k (map fst cdict) -> ~ In k (map fst cdict').

  Lemma cplx_keys_fresh prev r acc cdict :
    SInv prev r acc -> rot_disjoint prev cdict ->
    forall k, In k (map fst cdict) -> klookup (KCplx k) (cs_canon (cget (r_st r) cc)) = None.
  Proof.
    intros [C B] Hdis k Hk. destruct (klookup (KCplx k) (cs_canon (cget (r_st r) cc))) as [j|] eqn:E; [|reflexivity].
    exfalso. pose proof (proj1 (si_sok _ _ _ _ _ _ _ _ _ C)) as I.
    assert (Hcc : cc < length ct) by apply (cls_of_lt ct cd cs cc cm cr CO KindC).
    destruct (kreg_live ct _ cc _ j I Hcc E) as [o [Ho [Hl [Hc Hkk]]]].
    destruct (live_reg ct _ j o I Ho Hl) as [N1 _]. rewrite Hc in N1.
    pose proof (si_reg _ _ _ _ _ _ _ _ _ C KindC ltac:(discriminate)) as RegC. cbn [cls_of ReaderSysA.cls_of dict_of] in RegC.
    rewrite RegC in N1.
    pose proof (dlookup_in_keys _ _ _ N1) as Hin. apply (si_keys _ _ _ _ _ _ _ _ _ C KindC) in Hin.
    cbn [declared] in Hin. apply in_map_iff in Hin. destruct Hin as [[n' [names' sst']] [En Hin]]. cbn in En.
    pose proof Hin as Hin2. apply decl_cplx_in in Hin2. destruct Hin2 as [conc' Hin2].
    destruct (B _ Hin2) as [i' [es' [cdict' [cn' [e' [D1 [_ [_ [D3 [D4 [D5 _]]]]]]]]]]].
    rewrite En, N1 in D1. injection D1 as <-. pose proof (eq_trans (eq_sym Ho) D5) as Eo. injection Eo as ->.
    cbn [o_keys new_obj] in Hkk.
    assert (Hk' : In k (map fst cdict')).
    { destruct Hkk as [Hkk|Hkk].
      - injection Hkk as <-. eapply canon_of_in; eauto.
      - apply in_map_iff in Hkk. destruct Hkk as [[k2 v2] [E2 Hkk]]. cbn in E2. injection E2 as ->.
        apply (in_map fst) in Hkk. exact Hkk. }
    exact (Hdis n' names' sst' cdict' Hin D3 k Hk Hk').
  Qed.

  Theorem step_kernel prev r acc line n names sst conc cdict cn e :
    SInv prev r acc -> decode line = Ok (SKer n names sst conc) ->
    nonempty n = true -> ~ In n (map fst (decl_cplx prev)) -> length names = length sst ->
    Forall (fun x => str_eqb x sPlus = true \/ In x (declared KindD prev)) names ->
    rot_dict names sst = Some cdict -> canon_of cdict = Some (cn, e) -> rot_disjoint prev cdict ->
    exists r' acc', read_one ct G None (TList line) acc r = (r', Ok acc') /\
      SInv (prev ++ [SKer n names sst conc]) r' acc' /\ Later r acc r' acc'.
  Proof.
    intros SI Hdec Hne Hnew Hlen Hnames Hrd Hcan Hdis. pose proof SI as [C B].
    set (st := r_st r). set (i := length (heap st)).
    pose proof (si_sok _ _ _ _ _ _ _ _ _ C) as OK. pose proof (proj1 OK) as I.
    (* the cells *)
    assert (Hex : exists cells, Forall2 (fun x c => CellReg st x c /\ ElemOf (po_domains acc) x (cell_elem st c)) names cells).
    { apply forall_exists_forall2. eapply Forall_impl; [|exact Hnames]. cbn. intros x Hx.
      unfold CellReg, ElemOf. destruct (str_eqb x sPlus) eqn:Ep.
      - exists (CStr x). split; reflexivity.
      - destruct Hx as [Hx|Hx]; [discriminate|].
        destruct (dom_lookup_facts ct cd cs cc cm cr prev r acc x SI Hx) as [j [l [H1 [H2 H3]]]].
        exists (CDom j). split; [eauto|]. exists j. split; [exact H1|].
        cbn [cell_elem]. unfold elem_of, oname, obj_name. fold st in H2. rewrite H2. reflexivity. }
    destruct Hex as [cells F].
    assert (F1 : Forall2 (CellReg (r_st r)) names cells) by (eapply Forall2_impl'; [|exact F]; cbn; tauto).
    set (temps := flat_map cell_refs cells).
    pose proof (kernel_sequence_exact names sst cells r OK F1) as Ek. fold st in Ek. fold temps in Ek.
    destruct (first_attempt_exact names cells r OK F1) as [_ Lv]. fold temps in Lv.
    pose (es := (map (cell_elem st) cells : list elem)).
    assert (Fe : Forall2 (ElemOf (po_domains acc)) names es).
    { unfold es. clear -F. induction F as [|x c names cells [_ H] F IH]; cbn [map]; constructor; assumption. }
    assert (Hf1 : map fst es = names).
    { clear -Fe. induction Fe as [|x e0 names es0 H F IH]; [reflexivity|]. cbn [map]. f_equal; [|exact IH].
      unfold ElemOf in H. destruct (str_eqb x sPlus); [subst e0; reflexivity | destruct H as [j [_ ->]]; reflexivity]. }
    assert (Hids : elem_ids es = temps) by apply elem_ids_cells.
    assert (Hle : length es = length sst) by (rewrite <- Hlen, <- Hf1, map_length; reflexivity).
    (* the name and the rotations are new *)
    pose proof (si_reg _ _ _ _ _ _ _ _ _ C KindC ltac:(discriminate)) as RegC. cbn [cls_of ReaderSysA.cls_of dict_of] in RegC.
    assert (Nn : nlookup n (cs_names (cget st cc)) = None).
    { unfold st. rewrite RegC. apply dlookup_notin. intros Hin.
      apply (si_keys _ _ _ _ _ _ _ _ _ C KindC) in Hin. contradiction. }
    pose proof (cplx_keys_fresh prev r acc cdict SI Hdis) as Kf. fold st in Kf.
    set (key := KCplx cn). set (extra := map (fun kv : ckey * nat => KCplx (fst kv)) cdict).
    set (d := DCplx es sst (wrap (- Z.of_nat e) (Z.of_nat (nstrands names)))).
    set (cn' := match conc with Some x => attr_set i x (r_conc r) | None => r_conc r end).
    (* read_pil_line *)
    assert (Ex : exec_stmt ct G line (SKer n names sst conc) r =
                 (mkR (hold (mk_new (holds st temps) (cls_of KindC) n key extra temps d) i) (r_seq r) cn' (r_rate r),
                  Ok (RObj i))).
    { cbn [exec_stmt]. rewrite (bind_ok _ _ _ _ _ Ek). cbn [gC g slot]. rewrite bind_ret.
      rewrite (bind_ok get_state _ _ _ _ eq_refl). cbn [r_st with_st fst snd].
      change (map (cell_elem (holds st temps)) cells) with es.
      assert (Ec : cplx_call ct cc (holds st temps) (Some es) (Some sst) (Some n) None =
                   (mk_new (holds st temps) cc n key extra temps d, CRet i true)).
      { assert (Ec0 := cplx_new_exact (holds st temps) es sst n cdict cn e Hle).
        rewrite Hf1, Hids in Ec0. apply Ec0; assumption. }
      assert (Ecall : call (fun st' => cplx_call ct cc st' (Some es) (Some sst) (Some n) None) (with_st r (holds st temps)) =
                      (with_st r (hold (mk_new (holds st temps) cc n key extra temps d) i), Ok i)).
      { unfold call. cbn [r_st with_st]. rewrite Ec. reflexivity. }
      rewrite (bind_ok _ _ _ _ _ Ecall). subst cn'. destruct conc as [x|]; reflexivity. }
    destruct (step_single ct cd cs cc cm cr CO prev r acc line (SKer n names sst conc) KindC n
                key extra temps d temps cn' SI Hdec ltac:(cbn; auto) Ex) as [E3 [SI' L']].
    - split; [exact Nn|]. split; [apply Kf; eapply canon_of_in; eauto|].
      intros k' Hk'. unfold extra in Hk'. apply in_map_iff in Hk'. destruct Hk' as [[k2 v2] [<- Hk2]]. cbn.
      apply Kf. apply (in_map fst) in Hk2. exact Hk2.
    - exact Lv.
    - exact Logic.I.
    - intros k' n0 Hn0. destruct k'; cbn in Hn0; try tauto. destruct Hn0 as [<-|[]]. auto.
    - cbn. auto.
    - reflexivity.
    - reflexivity.
    - intros j Hj. subst cn'. destruct conc as [x|]; [|reflexivity].
      rewrite attr_get_set. apply Nat.eqb_neq in Hj. unfold i, st. rewrite Hj. reflexivity.
    - intros C' L'. cbn [Built ReaderSysA.Built]. exists i, es, cdict, cn, e.
      split; [cbn [po_complexes with_dict with_complexes dict_of]; rewrite dlookup_dset, (proj2 (str_eqb_iff n n) eq_refl); reflexivity|].
      split; [exact Hne|]. split; [exact Fe|]. split; [exact Hrd|]. split; [exact Hcan|].
      split; [cbn [r_st hold heap]; rewrite heap_mk_new, Hids; apply hget_new|].
      cbn [r_conc]. subst cn'. destruct conc as [x|]; [rewrite attr_get_set, Nat.eqb_refl; reflexivity|].
      destruct (si_attr _ _ _ _ _ _ _ _ _ C i) as [_ [A _]]; [fold st; fold i; lia | exact A].
    - eauto.
  Qed.
End StepKernel.
