(* Reader model, C14: a consistent system is never refused.
   Part 7: reading a kernel-notation complex over declared domains. *)
From Coq Require Import List NArith ZArith Bool Arith Lia.
From DSD Require Import Base.Str Base.Errors Model.ComplexUtils Model.RegStr Model.ReaderStr Model.PyNum
  Model.Peg Model.Kernel Model.DispatchKernel Model.Heap Model.Registry Model.Reader Model.ReaderShape Model.ReaderConsistent
  Proofs.RegHeap Proofs.RegInv Proofs.RegCalls Proofs.RegExt Proofs.ReaderBasic Proofs.ReaderStmt Proofs.ReaderHeap
  Proofs.ReaderInv Proofs.ReaderHoare Proofs.ReaderNoFault Proofs.ReaderThms Proofs.ReaderBuilds Proofs.ReaderKernel
  Proofs.ReaderMore Proofs.ReaderSys Proofs.ReaderSysA Proofs.ReaderSysB Proofs.ReaderSysD Proofs.ReaderSysE.
From DSD Require Model.Iupac.
Import ListNotations.

Lemma holds_app st a b : holds (holds st a) b = holds st (a ++ b).
Proof. unfold holds, with_roots. cbn [heap classes roots]. rewrite map_app, app_assoc. reflexivity. Qed.

(* ---- the rotation loop when no rotation is registered ---- *)
Lemma cdict_set_keeps k e cdict x : In x (map fst cdict) -> In x (map fst (cdict_set k e cdict)).
Proof.
  unfold cdict_set. rewrite (aset_keys ckey_eqb ckey_eqb_iff).
  destruct (alookup ckey_eqb k cdict); [auto|]. intros H. apply in_or_app. left. exact H.
Qed.
Lemma cdict_set_has k e cdict : In k (map fst (cdict_set k e cdict)).
Proof.
  unfold cdict_set. rewrite (aset_keys ckey_eqb ckey_eqb_iff).
  destruct (alookup ckey_eqb k cdict) eqn:E.
  - apply (alookup_in ckey_eqb ckey_eqb_iff) in E. apply (in_map fst) in E. exact E.
  - apply in_or_app. right. left. reflexivity.
Qed.

Lemma rot_loop_keys_mono n : forall e reg rseq rstr cdict ex cdict',
  rot_loop n e reg rseq rstr cdict = Ok (ex, cdict') ->
  forall k, In k (map fst cdict) -> In k (map fst cdict').
Proof.
  induction n as [|n IH]; intros e reg rseq rstr cdict ex cdict' H k Hk; cbn in H.
  - injection H as <- <-. exact Hk.
  - destruct (klookup (KCplx (rseq, rstr)) reg); [injection H as <- <-; exact Hk|].
    destruct (rotate_complex_once rseq rstr) as [rr|kk]; cbn in H; [|discriminate].
    eapply IH; [exact H|]. apply cdict_set_keeps. exact Hk.
Qed.

Lemma rot_loop_unreg n : forall e reg rseq rstr cdict cdict',
  rot_loop n e [] rseq rstr cdict = Ok (None, cdict') ->
  (forall k, In k (map fst cdict') -> klookup (KCplx k) reg = None) ->
  rot_loop n e reg rseq rstr cdict = Ok (None, cdict').
Proof.
  induction n as [|n IH]; intros e reg rseq rstr cdict cdict' H Hf; cbn in H |- *; [exact H|].
  destruct (rotate_complex_once rseq rstr) as [rr|kk] eqn:Er; cbn in H; [|discriminate].
  assert (Hk : klookup (KCplx (rseq, rstr)) reg = None).
  { apply Hf. eapply rot_loop_keys_mono; [exact H|]. apply cdict_set_has. }
  rewrite Hk. cbn. apply IH; assumption.
Qed.

Lemma canon_of_in cdict cn e : canon_of cdict = Some (cn, e) -> In cn (map fst cdict).
Proof.
  unfold canon_of. destruct (min_ckey cdict) as [k|]; [|discriminate].
  destruct (cdict_get k cdict) as [e0|] eqn:E; [|discriminate]. intros H. injection H as <- <-.
  apply (alookup_in ckey_eqb ckey_eqb_iff) in E. apply (in_map fst) in E. exact E.
Qed.

(* what stands for a name of the kernel pattern *)
Definition cell_refs (c : cell) : list nat := match c with CStr _ => [] | CDom i => [i] end.

Section StepKernel.
  Variable ct : ctable.
  Variables cd cs cc cm cr : nat.
  Hypothesis CO : cfg_okb ct cd cs cc cm cr = true.
  Hypothesis PL : forall c, In c [cd; cs; cc; cm; cr] -> exists ci, nth_error ct c = Some ci /\ c_fail ci = FNone.
  Notation G := (g cd cs cc cm cr).
  Notation cls_of := (cls_of cd cs cc cm cr).
  Notation Core := (Core cd cs cc cm cr ct).
  Notation SInv := (SInv cd cs cc cm cr ct).
  Notation Built := (Built cd cs cc cm cr).
  Notation dobj := (dobj cd).
  Notation DomReg := (DomReg cd).

  Lemma mapM_lookup_gen {A B} (f : A -> M B) (ref : B -> list nat) (P : state -> A -> B -> Prop) :
    (forall st j x y, P st x y -> P (hold st j) x y) ->
    (forall r x y, SOK ct (r_st r) -> P (r_st r) x y ->
       f x r = (with_st r (holds (r_st r) (ref y)), Ok y) /\
       (forall i, In i (ref y) -> is_live (heap (r_st r)) i = true)) ->
    forall xs ys r, SOK ct (r_st r) -> Forall2 (P (r_st r)) xs ys ->
      mapM f xs r = (with_st r (holds (r_st r) (flat_map ref ys)), Ok ys) /\
      (forall i, In i (flat_map ref ys) -> is_live (heap (r_st r)) i = true).
  Proof.
    intros Hp Hf xs ys r S F. revert ys r S F.
    induction xs as [|x xs IH]; intros ys r S F; inversion F as [|? y ? ys' Px F']; subst.
    - cbn [mapM flat_map]. unfold ret. rewrite holds_nil, with_st_id. split; [reflexivity | intros i []].
    - cbn [mapM flat_map]. destruct (Hf r x y S Px) as [E L]. rewrite (bind_ok _ _ _ _ _ E).
      set (r1 := with_st r (holds (r_st r) (ref y))).
      assert (S1 : SOK ct (r_st r1)) by (apply sok_holds; assumption).
      assert (Hps : forall l st x y, P st x y -> P (holds st l) x y).
      { intros l. induction l as [|j l IHl]; intros st0 x0 y0 H0; [rewrite holds_nil; exact H0|].
        rewrite <- holds_cons. apply IHl. apply Hp. exact H0. }
      assert (F1 : Forall2 (P (r_st r1)) xs ys').
      { eapply Forall2_impl'; [|exact F']. intros a b. apply Hps. }
      destruct (IH ys' r1 S1 F1) as [E2 L2]. rewrite (bind_ok _ _ _ _ _ E2). unfold ret.
      split.
      + unfold r1. cbn [r_st with_st]. rewrite holds_app. reflexivity.
      + intros j Hj. apply in_app_or in Hj. destruct Hj as [Hj|Hj]; [apply L; exact Hj | apply (L2 j Hj)].
  Qed.

  (* the cell of a name: '+' stays a string, a declared domain is found *)
  Definition CellReg (st : state) (x : pstr) (c : cell) : Prop :=
    if str_eqb x sPlus then c = CStr x else exists j, c = CDom j /\ DomReg st x j.

  Lemma first_attempt_exact names cells r :
    SOK ct (r_st r) -> Forall2 (CellReg (r_st r)) names cells ->
    first_attempt ct G names r = (with_st r (holds (r_st r) (flat_map cell_refs cells)), Ok cells) /\
    (forall i, In i (flat_map cell_refs cells) -> is_live (heap (r_st r)) i = true).
  Proof.
    intros OK F. unfold first_attempt.
    apply (mapM_lookup_gen _ cell_refs CellReg); [| |exact OK|exact F].
    - intros st j x y H. exact H.
    - intros r0 x y OK0 H. unfold CellReg in H. destruct (str_eqb x sPlus).
      + subst y. cbn [cell_refs]. unfold ret. rewrite holds_nil, with_st_id. split; [reflexivity | intros i []].
      + destruct H as [j [-> H]]. destruct (dbn_exact ct cd cs cc cm cr PL r0 x j OK0 H) as [E L].
        rewrite (bind_ok _ _ _ _ _ E). unfold ret. cbn [cell_refs]. split.
        * unfold holds, with_roots, hold. reflexivity.
        * intros i [<-|[]]. exact L.
  Qed.

  Lemma kernel_sequence_exact names sst cells r :
    SOK ct (r_st r) -> Forall2 (CellReg (r_st r)) names cells ->
    kernel_sequence ct G names sst r =
      (with_st r (holds (r_st r) (flat_map cell_refs cells)), Ok (cells, sst)).
  Proof.
    intros OK F. unfold kernel_sequence. rewrite (bind_ok nroots _ r r _ eq_refl).
    unfold catch. destruct (first_attempt_exact names cells r OK F) as [E _].
    rewrite (bind_ok _ _ _ _ _ E). reflexivity.
  Qed.

  (* Complex(sequence, structure, name) for a new name when no rotation is registered *)
  Lemma cplx_new_exact st (es : list elem) ss nm cdict cn e :
    length es = length ss -> rot_dict (map fst es) ss = Some cdict -> canon_of cdict = Some (cn, e) ->
    nonempty nm = true -> nlookup nm (cs_names (cget st cc)) = None ->
    (forall k, In k (map fst cdict) -> klookup (KCplx k) (cs_canon (cget st cc)) = None) ->
    cplx_call ct cc st (Some es) (Some ss) (Some nm) None =
      (mk_new st cc nm (KCplx cn) (map (fun kv => KCplx (fst kv)) cdict) (elem_ids es)
              (DCplx es ss (wrap (- Z.of_nat e) (Z.of_nat (nstrands (map fst es))))),
       CRet (length (heap st)) true).
  Proof.
    intros Hlen Hrd Hcan Hne Hn Hk. destruct (PL cc) as [ci [Hci Hf]]; [cbn; auto 10|].
    unfold cplx_call. rewrite Hci. cbn [resolve_name]. rewrite Hlen, Nat.eqb_refl. cbn [negb]. cbv zeta.
    unfold rot_dict in Hrd. fold (nstrands (map fst es)).
    destruct (rot_loop (nstrands (map fst es)) 0 [] (map fst es) ss []) as [[[x|] cd0]|] eqn:ER; try discriminate.
    injection Hrd as ->.
    destruct (Nat.eqb (nstrands (map fst es)) 0) eqn:E0.
    { apply Nat.eqb_eq in E0. rewrite E0 in ER. cbn in ER. injection ER as <-. discriminate. }
    rewrite (rot_loop_unreg _ _ _ _ _ _ _ ER Hk).
    pose proof (Hk cn (canon_of_in _ _ _ Hcan)) as Hkc.
    unfold canon_of in Hcan. destruct (min_ckey cdict) as [k0|]; [|discriminate].
    destruct (cdict_get k0 cdict) as [e0|]; [|discriminate]. injection Hcan as -> ->.
    unfold sing_lookup. rewrite Hne, Hn.
    rewrite Hkc. apply (create_new ct st cc ci); assumption.
  Qed.
  Lemma elem_ids_cells st cells : elem_ids (map (cell_elem st) cells) = flat_map cell_refs cells.
  Proof.
    induction cells as [|c cells IH]; [reflexivity|]. cbn [map flat_map]. rewrite <- IH.
    destruct c; reflexivity.
  Qed.

  (* no rotation of the new complex is a rotation of an earlier one *)
  Definition rot_disjoint (prev : list stmt) (cdict : list (ckey * nat)) : Prop :=
    forall n' names' sst' cdict', In (n', (names', sst')) (decl_cplx prev) -> rot_dict names' sst' = Some cdict' ->
      forall k, In k (map fst cdict) -> ~ In k (map fst cdict').

  (* every declared complex is built with the sequence and structure of its declaration *)
  Lemma decl_cplx_built prev r acc n names sst :
    SInv prev r acc -> In (n, (names, sst)) (decl_cplx prev) -> exists conc, BuiltCplx cc r acc n names sst conc.
  Proof. intros [C _]. apply (si_cplx _ _ _ _ _ _ _ _ _ C). Qed.

  Lemma cplx_keys_fresh prev r acc cdict :
    SInv prev r acc -> rot_disjoint prev cdict ->
    forall k, In k (map fst cdict) -> klookup (KCplx k) (cs_canon (cget (r_st r) cc)) = None.
  Proof.
    intros [C B] Hdis k Hk. destruct (klookup (KCplx k) (cs_canon (cget (r_st r) cc))) as [j|] eqn:E; [|reflexivity].
    exfalso. pose proof (proj1 (si_sok _ _ _ _ _ _ _ _ _ C)) as I.
    assert (Hcc : cc < length ct) by apply (cls_of_lt ct cd cs cc cm cr CO KindC).
    destruct (kreg_live ct _ cc _ j I Hcc E) as [o [Ho [Hl [Hc Hkk]]]].
    destruct (live_reg ct _ j o I Ho Hl) as [N1 _]. rewrite Hc in N1.
    pose proof (si_reg _ _ _ _ _ _ _ _ _ C KindC ltac:(discriminate)) as RegC. cbn [cls_of ReaderSysA.cls_of dict_of] in RegC.
    rewrite RegC in N1.
    pose proof (dlookup_in_keys _ _ _ N1) as Hin. apply (si_keys _ _ _ _ _ _ _ _ _ C KindC) in Hin.
    cbn [declared] in Hin. apply in_map_iff in Hin. destruct Hin as [[n' [names' sst']] [En Hin]]. cbn in En.
    destruct (decl_cplx_built prev r acc n' names' sst' (conj C B) Hin) as [conc' [i' [es' [cdict' [cn' [e' [D1 [_ [_ [D3 [D4 [D5 _]]]]]]]]]]]].
    rewrite En, N1 in D1. injection D1 as <-. pose proof (eq_trans (eq_sym Ho) D5) as Eo. injection Eo as ->.
    cbn [o_keys new_obj] in Hkk.
    assert (Hk' : In k (map fst cdict')).
    { destruct Hkk as [Hkk|Hkk].
      - injection Hkk as <-. eapply canon_of_in; eauto.
      - apply in_map_iff in Hkk. destruct Hkk as [[k2 v2] [E2 Hkk]]. cbn in E2. injection E2 as ->.
        apply (in_map fst) in Hkk. exact Hkk. }
    exact (Hdis n' names' sst' cdict' Hin D3 k Hk Hk').
  Qed.

End StepKernel.
