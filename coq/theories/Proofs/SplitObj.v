(* C09, object level with registries (Model/Loops.v: cplx_call, split_gen,
   split_history).  What is proved here is small: the exceptions split() can end
   with, that a yielded object owns a registered rotation of its component, and
   the refutation of "splitting twice yields identical objects in every
   history". *)
From Coq Require Import List Arith Lia Bool NArith.
From DSD Require Import Base.Str Base.Errors Model.ComplexUtils Model.Loops.
Import ListNotations.

(* a constructor call raises SingletonError, or whatever identifiers raised *)
Lemma cplx_call_raises st seq sst name st' k ex :
  cplx_call st seq sst name = (st', CRaised k ex) ->
  st' = st /\ (k = eSingleton \/ identifiers seq sst (r_reg st) = Err k).
Proof.
  unfold cplx_call. destruct (identifiers seq sst (r_reg st)) as [[objC keys]|k'] eqn:E.
  - destruct (lookup_name _ (r_names st)) as [on|]; destruct objC as [oc|].
    + destruct (Nat.eqb on oc); intros H; inversion H; subst; auto.
    + intros H; inversion H; subst; auto.
    + intros H; inversion H; subst; auto.
    + intros H; inversion H.
  - intros H; inversion H; subst; auto.
Qed.

(* an object returned, or handed over through SingletonError.existing, is the
   registered owner of some rotation of the requested complex; nothing changes *)
Lemma ident_found n : forall seq sst reg acc i keys,
  ident n seq sst reg acc = Ok (Some i, keys) ->
  exists k, find_key k reg = Some i.
Proof.
  induction n as [|n IH]; intros seq sst reg acc i keys H; cbn [ident] in H; [discriminate|].
  destruct (find_key (seq, sst) reg) as [j|] eqn:E.
  - injection H as <- _. eauto.
  - destruct (rotate_complex_once seq sst) as [x|k]; cbn [rbind] in H; [|discriminate].
    eapply IH, H.
Qed.

Lemma cplx_call_existing st seq sst name st' i :
  (cplx_call st seq sst name = (st', CReturned i) \/
   cplx_call st seq sst name = (st', CRaised eSingleton (Some i))) ->
  st' = st /\ exists k, find_key k (r_reg st) = Some i.
Proof.
  unfold cplx_call, identifiers.
  destruct (negb (length seq =? length sst)); [intros [H|H]; inversion H|].
  destruct (length (make_strand_table_list sPlus seq) =? 0); [intros [H|H]; inversion H|].
  destruct (ident _ seq sst (r_reg st) []) as [[objC keys]|k'] eqn:E; [|intros [H|H]; inversion H].
  destruct (lookup_name _ (r_names st)) as [on|]; destruct objC as [oc|].
  - destruct (Nat.eqb on oc) eqn:En; intros [H|H]; inversion H; subst.
    apply Nat.eqb_eq in En. subst. split; [reflexivity|]. eapply ident_found, E.
  - intros [H|H]; inversion H.
  - intros [H|H]; inversion H; subst. split; [reflexivity|]. eapply ident_found, E.
  - intros [H|H]; inversion H.
Qed.

(* ------------------------------------------------------------------ *)
(* "splitting twice yields identical objects", for every history: refuted *)

(* C09 refuted *) Definition split_twice_same_full : Prop :=
  forall pre self outs i ys1 r2 objs,
    split_history pre self = (outs, inl i, Some (Ok (ys1, None), r2), objs) -> r2 = Ok (ys1, None).

(* the component a* a "()" exists under the explicit name c3; the complex to
   split is named c2.  The first run yields the existing component and creates
   the other one as c1, which advances ComplexS.ID to 2; in the second run the
   automatic name for the (existing) first component is c2 — the name of the
   complex being split — and Singleton.__call__ raises SingletonError. *)
Definition witness_pre : list (key * option pstr) :=
  [ (([[97; 42]; [97]]%N, [cO; cC]), Some [99; 51]%N) ].
Definition witness_self : key * option pstr :=
  (([[97; 42]; [97]; sPlus; [97; 42]; [97]; [98]]%N, [cO; cC; cP; cD; cD; cD]), Some [99; 50]%N).

Lemma witness_runs :
  exists outs i objs,
    split_history witness_pre witness_self =
    (outs, inl i, Some (Ok ([0; 2], None), Ok ([], Some eSingleton)), objs).
Proof. do 3 eexists. vm_compute. reflexivity. Qed.

Theorem split_twice_same_refuted : ~ split_twice_same_full.
Proof.
  intros H. destruct witness_runs as (outs & i & objs & E).
  specialize (H _ _ _ _ _ _ _ E).
  apply (f_equal (fun r : res (list nat * option pstr) => match r with Ok (l, _) => length l | Err _ => 0 end)) in H.
  cbn in H. discriminate H.
Qed.

(* non-vacuity of the lemmas: a fresh complex "(+)+." splits into two new objects, twice the same *)
Example ex_fresh_history :
  split_history [] (([[97]; sPlus; [97; 42]; sPlus; [98]]%N, [cO; cP; cC; cP; cD]), None) =
  ([], inl 0, Some (Ok ([1; 2], None), Ok ([1; 2], None)),
   [ (2, ([[98]]%N, [cD])); (1, ([[97]; sPlus; [97; 42]]%N, [cO; cP; cC]));
     (0, ([[97]; sPlus; [97; 42]; sPlus; [98]]%N, [cO; cP; cC; cP; cD])) ]).
Proof. vm_compute. reflexivity. Qed.
