(* Reader model, C14: reading in a session that already holds objects.
   Part 3b: a kernel statement re-declares a live complex with another concentration - the complex carries the
   newly declared triple and the session is described by the statements with that concentration replaced. *)
From Coq Require Import List NArith ZArith Bool Arith Lia Permutation.
From DSD Require Import Base.Str Base.Errors Model.ComplexUtils Model.RegStr Model.ReaderStr Model.PyNum
  Model.Peg Model.Kernel Model.DispatchKernel Model.Heap Model.Registry Model.Reader Model.ReaderShape Model.ReaderConsistent
  Proofs.RegHeap Proofs.RegInv Proofs.RegCalls Proofs.RegExt Proofs.ReaderBasic Proofs.ReaderStmt Proofs.ReaderHeap
  Proofs.ReaderInv Proofs.ReaderHoare Proofs.ReaderNoFault Proofs.ReaderThms Proofs.ReaderBuilds Proofs.ReaderKernel
  Proofs.ReaderMore Proofs.ReaderSys Proofs.ReaderSysA Proofs.ReaderSysB Proofs.ReaderSysD Proofs.ReaderSysP Proofs.ReaderSysQ.
From DSD Require Model.Iupac.
Import ListNotations.

Lemma flat_map_map_eq {A B} (g : A -> list B) (f : A -> A) l : (forall x, g (f x) = g x) -> flat_map g (map f l) = flat_map g l.
Proof. intros H. induction l as [|a l IH]; cbn; [reflexivity|]. rewrite H, IH. reflexivity. Qed.

Section SetConc.
  Variables (n : pstr) (c : conc).
  Notation f := (set_conc_stmt n c).

  Lemma f_shape s : f s = s \/ exists names sst c0, s = SKer n names sst c0 /\ f s = SKer n names sst (Some c).
  Proof.
    destruct s as [| | | |n0 names sst c0| | |]; cbn; auto. destruct (str_eqb n0 n) eqn:E; [|auto].
    apply str_eqb_iff in E. subst n0. right. eauto.
  Qed.

  Lemma decl_doms_conc w : decl_doms (map f w) = decl_doms w.
  Proof. apply flat_map_map_eq. intros s. destruct s; cbn; try reflexivity. destruct (str_eqb nm n); reflexivity. Qed.
  Lemma decl_strands_conc w : decl_strands (map f w) = decl_strands w.
  Proof. apply flat_map_map_eq. intros s. destruct s; cbn; try reflexivity. destruct (str_eqb nm n); reflexivity. Qed.
  Lemma decl_macs_conc w : decl_macs (map f w) = decl_macs w.
  Proof. apply flat_map_map_eq. intros s. destruct s; cbn; try reflexivity. destruct (str_eqb nm n); reflexivity. Qed.
  Lemma decl_rxns_conc w : decl_rxns (map f w) = decl_rxns w.
  Proof. apply flat_map_map_eq. intros s. destruct s; cbn; try reflexivity. destruct (str_eqb nm n); reflexivity. Qed.

  Lemma dom_names_conc w : dom_names (map f w) = dom_names w.
  Proof. unfold dom_names. rewrite decl_doms_conc. reflexivity. Qed.
  Lemma res_name_conc w x : res_name (map f w) x = res_name w x.
  Proof. unfold res_name. rewrite dom_names_conc, decl_strands_conc. reflexivity. Qed.
  Lemma expand_ker_conc w names sst : expand_ker (map f w) names sst = expand_ker w names sst.
  Proof.
    unfold expand_ker. destruct (Nat.eqb (length names) (length sst)); [|reflexivity].
    assert (E : omap' (fun xc : pstr * chr => option_map (map (fun d => (d, snd xc))) (res_name (map f w) (fst xc))) (combine names sst) =
                omap' (fun xc : pstr * chr => option_map (map (fun d => (d, snd xc))) (res_name w (fst xc))) (combine names sst)).
    { induction (combine names sst) as [|xc l IH]; cbn; [reflexivity|]. rewrite res_name_conc, IH. reflexivity. }
    rewrite E. reflexivity.
  Qed.
  Lemma ssc_names_conc w ss : ssc_names (map f w) ss = ssc_names w ss.
  Proof. unfold ssc_names. rewrite decl_strands_conc. reflexivity. Qed.

  Lemma cplx_entry_conc pre s : cplx_entry (map f pre) (f s) = cplx_entry pre s.
  Proof.
    destruct s as [| | |n0 ss sst|n0 names sst c0| | |]; cbn [set_conc_stmt cplx_entry]; try reflexivity.
    - rewrite ssc_names_conc. reflexivity.
    - destruct (str_eqb n0 n); cbn [cplx_entry]; rewrite expand_ker_conc; reflexivity.
  Qed.
  Lemma dcf_conc rest : forall pre, decl_cplx_from (map f pre) (map f rest) = decl_cplx_from pre rest.
  Proof.
    induction rest as [|s rest IH]; intros pre; cbn [map decl_cplx_from]; [reflexivity|].
    rewrite cplx_entry_conc. f_equal. rewrite <- (IH (pre ++ [s])), map_app. reflexivity.
  Qed.
  Lemma decl_cplx_conc w : decl_cplx (map f w) = decl_cplx w.
  Proof. unfold decl_cplx. apply (dcf_conc w []). Qed.

  Lemma declared_conc k w : declared k (map f w) = declared k w.
  Proof.
    destruct k; cbn [declared]; [apply dom_names_conc | rewrite decl_cplx_conc | rewrite decl_strands_conc | rewrite decl_macs_conc | ]; reflexivity.
  Qed.

  Lemma in_rxn_conc w ri : In (SRxn ri) (map f w) <-> In (SRxn ri) w.
  Proof. rewrite <- !decl_rxns_in, decl_rxns_conc. tauto. Qed.
End SetConc.

Section ConcChange.
  Variable ct : ctable.
  Variables cd cs cc cm cr : nat.
  Hypothesis CO : cfg_okb ct cd cs cc cm cr = true.
  Notation SInv := (SInv cd cs cc cm cr ct).
  Notation Built := (Built cd cs cc cm cr).
  Notation BuiltCplx := (BuiltCplx cc).

  (* the concentration of the live complex i (named n) is replaced; no strand-notation statement declares n *)
  Theorem sinv_set_conc world r acc n i c :
    SInv world r acc -> dlookup n (po_complexes acc) = Some i -> is_live (heap (r_st r)) i = true ->
    (forall ss sst, ~ In (SSC n ss sst) world) ->
    let r' := mkR (holds (r_st r) [i]) (r_seq r) (attr_set i c (r_conc r)) (r_rate r) in
    SInv (map (set_conc_stmt n c) world) r' acc.
  Proof.
    intros [C B] Dn Li Hnossc r'.
    assert (Hlt : i < length (heap (r_st r))) by (apply is_live_lt; exact Li).
    (* a complex of the session keeps its description, with the new concentration if it is i *)
    assert (HBC : forall n0 names sst conc0, BuiltCplx r acc n0 names sst conc0 ->
              BuiltCplx r' acc n0 names sst (if str_eqb n0 n then Some c else conc0)).
    { intros n0 names sst conc0 [i0 [es [cdict [cn [e [D1 [Hne [Fe [Hrd [Hcan [Hh Ha]]]]]]]]]]].
      exists i0, es, cdict, cn, e. split; [exact D1|]. split; [exact Hne|]. split; [exact Fe|]. split; [exact Hrd|].
      split; [exact Hcan|]. split; [exact Hh|].
      cbn [r_conc r']. rewrite attr_get_set. destruct (str_eqb n0 n) eqn:E.
      - apply str_eqb_iff in E. subst n0. rewrite Dn in D1. injection D1 as <-. rewrite Nat.eqb_refl. reflexivity.
      - destruct (Nat.eqb i0 i) eqn:Ei; [|exact Ha]. apply Nat.eqb_eq in Ei. subst i0. exfalso.
        pose proof (si_reg _ _ _ _ _ _ _ _ _ C KindC ltac:(discriminate) n) as RegC. cbn [cls_of dict_of] in RegC. rewrite Dn in RegC.
        destruct (reg_live ct _ cc n i (proj1 (si_sok _ _ _ _ _ _ _ _ _ C)) (cls_of_lt ct cd cs cc cm cr CO KindC) RegC)
          as [o [Ho [_ [_ Hnm]]]].
        rewrite Hh in Ho. injection Ho as <-. cbn [o_name new_obj] in Hnm. subst n0.
        rewrite (proj2 (str_eqb_iff n n) eq_refl) in E. discriminate. }
    split.
    - destruct C as [Csok Cattr Cheld Cdom Creg CrR Ckeys Cdecl CkR Ccplx Crot]. constructor.
      + apply sok_holds; [exact Csok | intros y [<-|[]]; exact Li].
      + intros j Hj. assert (Hj' : length (heap (r_st r)) <= j) by exact Hj. cbn [r_seq r_conc r_rate r']. destruct (Cattr j Hj) as [A1 [A2 A3]]. split; [exact A1|]. split; [|exact A3].
        rewrite attr_get_set. destruct (Nat.eqb j i) eqn:E; [apply Nat.eqb_eq in E; lia | exact A2].
      + intros j Hj. cbn [r_st r']. unfold holds, with_roots. cbn [roots]. apply in_or_app. left. apply Cheld. exact Hj.
      + exact Cdom.
      + exact Creg.
      + exact CrR.
      + intros k n0 Hn0. rewrite declared_conc. apply Ckeys. exact Hn0.
      + intros x l Hx. rewrite decl_doms_conc in Hx. apply (Cdecl x l Hx).
      + intros j Hj. destruct (CkR j Hj) as [ri [H1 H2]]. exists ri. split; [apply in_rxn_conc; exact H1 | exact H2].
      + intros n0 names sst Hin. rewrite decl_cplx_conc in Hin. destruct (Ccplx n0 names sst Hin) as [conc0 Hb].
        eexists. apply (HBC _ _ _ _ Hb).
      + exact Crot.
    - intros s' Hs'. apply in_map_iff in Hs'. destruct Hs' as [s [<- Hs]]. specialize (B s Hs).
      destruct s as [x l|x sq chk|n0 ds|n0 ss sst|n0 names sst c0|n0 xs|ri|]; cbn [set_conc_stmt].
      + exact B.
      + exact B.
      + exact B.
      + destruct B as [names Hb]. exists names.
        pose proof (HBC _ _ _ _ Hb) as Hb'. destruct (str_eqb n0 n) eqn:E; [|exact Hb'].
        apply str_eqb_iff in E. subst n0. exfalso. exact (Hnossc ss sst Hs).
      + destruct B as [names' [sst' Hb]]. pose proof (HBC _ _ _ _ Hb) as Hb'.
        destruct (str_eqb n0 n) eqn:E; cbn [Built ReaderSysA.Built]; exists names', sst'; exact Hb'.
      + exact B.
      + exact B.
      + exact B.
  Qed.
End ConcChange.
