(* C17: IUPAC complement and constraint arithmetic is set-exact. *)
From Coq Require Import List NArith Bool Arith Lia.
From DSD Require Import Base.Str Base.Errors Base.Val Model.ComplexUtils Model.Iupac.
From DSDGen Require Import IupacTables.
Import ListNotations.

(* ---- specification, independent of the code: IUPAC codes as sets of bases,
        bit 8 = A, 4 = C, 2 = G, 1 = T (DNA) or U (RNA) ---- *)
Definition mask_al (rna : bool) : list (N * N) :=
  [(65, 8); (67, 4); (71, 2); ((if rna then 85 else 84), 1);
   (82, 10); (89, 5); (83, 6); (77, 12); (87, 9); (75, 3);
   (86, 14); (72, 13); (68, 11); (66, 7); (78, 15)]%N.
Definition mask rna c := nlookup c (mask_al rna).
Definition codes rna := map fst (mask_al rna).

Definition bit (m k : N) : bool := negb (N.land m k =? 0)%N.
(* Watson-Crick partners: A-T, C-G *)
Definition wc_mask (m : N) : N :=
  ((if bit m 8 then 1 else 0) + (if bit m 4 then 2 else 0) +
   (if bit m 2 then 4 else 0) + (if bit m 1 then 8 else 0))%N.
(* all partners including the G-T/U wobble: A-T, C-G, G-C, G-T, T-A, T-G *)
Definition wobble_mask (m : N) : N :=
  N.lor (N.lor (if bit m 8 then 1 else 0) (if bit m 4 then 2 else 0))
        (N.lor (if bit m 2 then 5 else 0) (if bit m 1 then 10 else 0))%N.

(* ---- generic lookup facts ---- *)
Lemma nlookup_In {B} c (l : list (N * B)) v : nlookup c l = Some v -> In (c, v) l.
Proof.
  induction l as [|[k x] r IH]; cbn; [discriminate|].
  destruct (N.eqb_spec c k) as [->|]; [intros H; injection H as ->; auto|auto].
Qed.
Lemma nlookup_None {B} c (l : list (N * B)) : nlookup c l = None -> ~ In c (map fst l).
Proof.
  induction l as [|[k x] r IH]; cbn; [tauto|].
  destruct (N.eqb_spec c k) as [->|Hn]; [discriminate|]. intros H [E|E]; [congruence|]. exact (IH H E).
Qed.
Lemma mask_code rna c m : mask rna c = Some m -> In c (codes rna).
Proof. intros H. apply nlookup_In in H. apply (in_map fst) in H. exact H. Qed.

(* ---- finite checks on the regenerated tables (15 codes x 2 materials) ---- *)
Definition chk_unary (tab : bool -> N -> option N) (f : N -> N) rna c : bool :=
  match mask rna c, tab rna c with
  | Some m, Some c' => match mask rna c' with Some m' => (m' =? f m)%N | None => false end
  | _, _ => false
  end.
Definition chk_domain (al : list (N * N)) rna : bool :=
  forallb (fun kv => existsb (N.eqb (fst kv)) (codes rna)) al.

Lemma tables_wc : forall rna, forallb (chk_unary wc_tab wc_mask rna) (codes rna) = true.
Proof. intros []; vm_compute; reflexivity. Qed.
Lemma tables_wob : forall rna, forallb (chk_unary wob_tab wobble_mask rna) (codes rna) = true.
Proof. intros []; vm_compute; reflexivity. Qed.
Lemma tables_domain :
  chk_domain wc_dna false && chk_domain wc_rna true &&
  chk_domain wob_dna false && chk_domain wob_rna true = true.
Proof. vm_compute; reflexivity. Qed.
Lemma tables_reverse_same :
  rwc_dna = wc_dna /\ rwc_rna = wc_rna /\ rwob_dna = wob_dna /\ rwob_rna = wob_rna.
Proof. repeat split; vm_compute; reflexivity. Qed.

Lemma unary_exact tab f :
  (forall rna, forallb (chk_unary tab f rna) (codes rna) = true) ->
  forall rna c m, mask rna c = Some m ->
  exists c', tab rna c = Some c' /\ mask rna c' = Some (f m).
Proof.
  intros H rna c m Hm. pose proof (mask_code _ _ _ Hm) as Hin.
  pose proof (proj1 (forallb_forall _ _) (H rna) c Hin) as Hc.
  unfold chk_unary in Hc. rewrite Hm in Hc.
  destruct (tab rna c) as [c'|]; [|discriminate]. exists c'. split; [reflexivity|].
  destruct (mask rna c') as [m'|]; [|discriminate]. apply N.eqb_eq in Hc. congruence.
Qed.

Theorem wc_letter_exact rna c m : mask rna c = Some m ->
  exists c', wc_tab rna c = Some c' /\ mask rna c' = Some (wc_mask m).
Proof. apply (unary_exact wc_tab wc_mask tables_wc). Qed.

Theorem wobble_letter_exact rna c m : mask rna c = Some m ->
  exists c', wob_tab rna c = Some c' /\ mask rna c' = Some (wobble_mask m).
Proof. apply (unary_exact wob_tab wobble_mask tables_wob). Qed.

Lemma domain_exact (al : list (N * N)) rna c :
  chk_domain al rna = true -> mask rna c = None -> nlookup c al = None.
Proof.
  intros H Hm. destruct (nlookup c al) as [v|] eqn:E; [|reflexivity]. exfalso.
  apply nlookup_In in E. pose proof (proj1 (forallb_forall _ _) H _ E) as Hc. cbn [fst] in Hc.
  apply existsb_exists in Hc. destruct Hc as (k & Hk & Hek). apply N.eqb_eq in Hek. subst k.
  apply nlookup_None in Hm. exact (Hm Hk).
Qed.

Theorem unknown_letter_keyerror rna c : mask rna c = None ->
  wc_tab rna c = None /\ wob_tab rna c = None.
Proof.
  pose proof tables_domain as H. rewrite !andb_true_iff in H. destruct H as [[[H1 H2] H3] H4].
  intros Hm. destruct rna; split; unfold wc_tab, wob_tab; eapply domain_exact; eassumption.
Qed.

(* wc is an involution on the masks, hence on the letters *)
Lemma wc_mask_invol : forall m, (m < 16)%N -> wc_mask (wc_mask m) = m.
Proof.
  intros m H.
  assert (E : forallb (fun m => (wc_mask (wc_mask m) =? m)%N)
              (map N.of_nat (seq 0 16)) = true) by (vm_compute; reflexivity).
  rewrite forallb_forall in E. apply N.eqb_eq, E. apply in_map_iff.
  exists (N.to_nat m). split; [lia|]. apply in_seq. lia.
Qed.

Lemma mask_inj rna : forall c c' m, mask rna c = Some m -> mask rna c' = Some m -> c = c'.
Proof.
  assert (E : forallb (fun kv => forallb (fun kv' =>
              negb (snd kv =? snd kv')%N || (fst kv =? fst kv')%N) (mask_al rna)) (mask_al rna) = true)
    by (destruct rna; vm_compute; reflexivity).
  intros c c' m H1 H2. apply nlookup_In in H1. apply nlookup_In in H2.
  rewrite forallb_forall in E. specialize (E _ H1). rewrite forallb_forall in E. specialize (E _ H2).
  cbn [fst snd] in E. rewrite N.eqb_refl in E. cbn in E. apply N.eqb_eq in E. exact E.
Qed.

Lemma mask_lt16 rna c m : mask rna c = Some m -> (m < 16)%N.
Proof.
  assert (E : forallb (fun kv => (snd kv <? 16)%N) (mask_al rna) = true)
    by (destruct rna; vm_compute; reflexivity).
  intros H. apply nlookup_In in H. rewrite forallb_forall in E. specialize (E _ H).
  cbn [snd] in E. apply N.ltb_lt in E. exact E.
Qed.

Theorem wc_letter_involution rna c c' : mask rna c <> None ->
  wc_tab rna c = Some c' -> wc_tab rna c' = Some c.
Proof.
  intros Hm H. destruct (mask rna c) as [m|] eqn:E; [|congruence].
  destruct (wc_letter_exact _ _ _ E) as (d & Hd & Md). assert (d = c') by congruence. subst d.
  destruct (wc_letter_exact _ _ _ Md) as (e & He & Me). rewrite He. f_equal.
  rewrite wc_mask_invol in Me by (eapply mask_lt16; eassumption).
  eapply mask_inj; eassumption.
Qed.

(* DNA and RNA variants differ only by exchanging T and U *)
Definition tu (c : N) : N := if (c =? 84)%N then 85%N else c.
Theorem material_T_U : forall c, In c (codes false) ->
  wc_tab true (tu c) = option_map tu (wc_tab false c) /\
  wob_tab true (tu c) = option_map tu (wob_tab false c).
Proof.
  assert (E : forallb (fun c =>
      match wc_tab true (tu c), option_map tu (wc_tab false c),
            wob_tab true (tu c), option_map tu (wob_tab false c) with
      | Some a, Some b, Some x, Some y => (a =? b)%N && (x =? y)%N
      | _, _, _, _ => false end) (codes false) = true) by (vm_compute; reflexivity).
  intros c Hc. rewrite forallb_forall in E. specialize (E c Hc).
  destruct (wc_tab true (tu c)), (option_map tu (wc_tab false c)),
           (wob_tab true (tu c)), (option_map tu (wob_tab false c)); try discriminate.
  apply andb_true_iff in E. destruct E as [E1 E2]. apply N.eqb_eq in E1, E2. subst. auto.
Qed.

(* ---- sequences of every length ---- *)
Definition related (rna : bool) (f : N -> N) (c c' : N) : Prop :=
  exists m, mask rna c = Some m /\ mask rna c' = Some (f m).

Lemma map_tab_exact (tab : N -> option N) rna f :
  (forall c m, mask rna c = Some m -> exists c', tab c = Some c' /\ mask rna c' = Some (f m)) ->
  forall s, Forall (fun c => mask rna c <> None) s ->
  exists s', map_tab tab s = Ok s' /\ Forall2 (related rna f) s s'.
Proof.
  intros H s Hs. unfold map_tab. induction Hs as [|c r Hc _ IH]; cbn [omap].
  - exists []. split; [reflexivity|constructor].
  - destruct (mask rna c) as [m|] eqn:E; [|congruence].
    destruct (H c m E) as (c' & Hc' & Mc'). rewrite Hc'. cbn [obind].
    destruct IH as (r' & Hr' & F). destruct (omap tab r) as [x|]; [|discriminate].
    injection Hr' as ->. cbn [obind]. exists (c' :: r'). split; [reflexivity|].
    constructor; [exists m; auto|exact F].
Qed.

Lemma map_tab_keyerror (tab : N -> option N) rna :
  (forall c, mask rna c = None -> tab c = None) ->
  forall s, Exists (fun c => mask rna c = None) s -> map_tab tab s = Err eKey.
Proof.
  intros H s Hs. unfold map_tab. induction Hs as [c r Hc|c r _ IH]; cbn [omap].
  - rewrite (H c Hc). reflexivity.
  - destruct (tab c); [|reflexivity]. cbn [obind]. destruct (omap tab r); [discriminate|reflexivity].
Qed.

Theorem wc_sequence_exact rna s : Forall (fun c => mask rna c <> None) s ->
  exists s', wc_complement rna s = Ok s' /\ Forall2 (related rna wc_mask) s s'.
Proof. apply map_tab_exact. intros c m. apply wc_letter_exact. Qed.

Theorem wobble_sequence_exact rna s : Forall (fun c => mask rna c <> None) s ->
  exists s', complement rna s = Ok s' /\ Forall2 (related rna wobble_mask) s s'.
Proof. apply map_tab_exact. intros c m. apply wobble_letter_exact. Qed.

Theorem sequence_keyerror rna s : Exists (fun c => mask rna c = None) s ->
  wc_complement rna s = Err eKey /\ complement rna s = Err eKey.
Proof.
  intros H. split; (eapply map_tab_keyerror; [|exact H]); intros c Hc;
  apply (unknown_letter_keyerror rna c Hc).
Qed.

Theorem reverse_is_map_of_reversed rna s :
  reverse_wc_complement rna s = wc_complement rna (rev s) /\
  reverse_complement rna s = complement rna (rev s).
Proof.
  destruct tables_reverse_same as (E1 & E2 & E3 & E4).
  unfold reverse_wc_complement, reverse_complement, wc_complement, complement,
         rwc_tab, rwob_tab, wc_tab, wob_tab.
  rewrite E1, E2, E3, E4. split; reflexivity.
Qed.

Lemma Forall2_rev {A B} (R : A -> B -> Prop) l l' : Forall2 R l l' -> Forall2 R (rev l) (rev l').
Proof.
  induction 1; cbn; [constructor|]. apply Forall2_app; [assumption|]. constructor; [assumption|constructor].
Qed.

Lemma wc_seq_invol rna s s' : Forall (fun c => mask rna c <> None) s ->
  wc_complement rna s = Ok s' -> wc_complement rna s' = Ok s.
Proof.
  unfold wc_complement, map_tab. revert s'. induction s as [|c r IH]; intros s' Hs; cbn [omap].
  - intros H; injection H as <-. reflexivity.
  - inversion Hs as [|? ? Hc Hr]; subst. destruct (wc_tab rna c) as [c'|] eqn:E; [|discriminate].
    cbn [obind]. destruct (omap (wc_tab rna) r) as [r'|] eqn:Er; [|discriminate]. cbn [obind].
    intros H; injection H as <-. cbn [omap]. rewrite (wc_letter_involution rna c c' Hc E). cbn [obind].
    specialize (IH r' Hr eq_refl). destruct (omap (wc_tab rna) r'); [|discriminate].
    injection IH as ->. reflexivity.
Qed.

Theorem reverse_wc_involution rna s s' : Forall (fun c => mask rna c <> None) s ->
  reverse_wc_complement rna s = Ok s' -> reverse_wc_complement rna s' = Ok s.
Proof.
  intros Hs. rewrite !(proj1 (reverse_is_map_of_reversed rna _)). intros H.
  assert (Hr : Forall (fun c => mask rna c <> None) (rev s)).
  { apply Forall_forall. intros x Hx. apply in_rev in Hx. rewrite Forall_forall in Hs. auto. }
  pose proof (wc_seq_invol rna (rev s) s' Hr H) as H2.
  (* complement of the reversed result: reverse both sides *)
  assert (G : forall a b, omap (wc_tab rna) a = Some b -> omap (wc_tab rna) (rev a) = Some (rev b)).
  { induction a as [|x a IHa]; intros b Hb; cbn [omap] in Hb.
    - injection Hb as <-. reflexivity.
    - destruct (wc_tab rna x) as [x'|] eqn:Ex; [|discriminate]. cbn [obind] in Hb.
      destruct (omap (wc_tab rna) a) as [a'|] eqn:Ea; [|discriminate]. injection Hb as <-.
      cbn [rev]. specialize (IHa a' eq_refl).
      clear -IHa Ex. revert IHa. generalize (rev a) (rev a'). intros l l' Hl.
      revert l' Hl. induction l as [|y l IHl]; intros l' Hl; cbn [omap app] in *.
      + injection Hl as <-. cbn. rewrite Ex. reflexivity.
      + destruct (wc_tab rna y); [|discriminate]. cbn [obind] in *.
        destruct (omap (wc_tab rna) l) as [l0|] eqn:El; [|discriminate]. injection Hl as <-.
        rewrite (IHl l0 eq_refl). reflexivity. }
  unfold wc_complement, map_tab in *.
  destruct (omap (wc_tab rna) s') as [x|] eqn:E; [|discriminate]. injection H2 as ->.
  unfold chr in *. rewrite (G _ _ E), rev_involutive. reflexivity.
Qed.

(* ---- add_constraints: position-wise intersection ---- *)
Definition chk_add rna x y : bool :=
  match mask rna x, mask rna y, add_tab rna x y with
  | Some mx, Some my, Some None => (N.land mx my =? 0)%N
  | Some mx, Some my, Some (Some c) =>
      negb (N.land mx my =? 0)%N &&
      match mask rna c with Some mc => (mc =? N.land mx my)%N | None => false end
  | _, _, _ => false
  end.
Lemma tables_add : forall rna,
  forallb (fun x => forallb (chk_add rna x) (codes rna)) (codes rna) = true.
Proof. intros []; vm_compute; reflexivity. Qed.

Definition pos_inter rna (xy : N * N) (c : N) : Prop :=
  exists mx my, mask rna (fst xy) = Some mx /\ mask rna (snd xy) = Some my /\
                N.land mx my <> 0%N /\ mask rna c = Some (N.land mx my).
Definition pos_empty rna (xy : N * N) : Prop :=
  exists mx my, mask rna (fst xy) = Some mx /\ mask rna (snd xy) = Some my /\ N.land mx my = 0%N.

Lemma add_letter rna x y : mask rna x <> None -> mask rna y <> None ->
  (add_tab rna x y = Some None /\ pos_empty rna (x, y)) \/
  (exists c, add_tab rna x y = Some (Some c) /\ pos_inter rna (x, y) c).
Proof.
  intros Hx Hy. destruct (mask rna x) as [mx|] eqn:Ex; [|congruence].
  destruct (mask rna y) as [my|] eqn:Ey; [|congruence].
  pose proof (tables_add rna) as T. rewrite forallb_forall in T.
  specialize (T x (mask_code _ _ _ Ex)). rewrite forallb_forall in T.
  specialize (T y (mask_code _ _ _ Ey)). unfold chk_add in T. rewrite Ex, Ey in T.
  destruct (add_tab rna x y) as [[c|]|]; [| |discriminate].
  - right. exists c. split; [reflexivity|]. apply andb_true_iff in T. destruct T as [T1 T2].
    destruct (mask rna c) as [mc|] eqn:Ec; [|discriminate]. apply N.eqb_eq in T2. subst mc.
    exists mx, my. cbn [fst snd]. repeat split; auto. apply N.eqb_neq.
    destruct (N.land mx my =? 0)%N; [discriminate|reflexivity].
  - left. split; [reflexivity|]. exists mx, my. cbn [fst snd]. apply N.eqb_eq in T. auto.
Qed.

Theorem add_constraints_exact rna a b :
  length a = length b ->
  Forall (fun c => mask rna c <> None) a -> Forall (fun c => mask rna c <> None) b ->
  match add_constraints rna a b with
  | Ok r => Forall2 (pos_inter rna) (combine a b) r
  | Err k => k = eConstraint /\ Exists (pos_empty rna) (combine a b)
  end.
Proof.
  intros Hl Ha Hb. unfold add_constraints. unfold chr in *. rewrite Hl, Nat.eqb_refl. cbn [negb].
  revert b Hl Hb. induction Ha as [|x a Hx _ IH]; intros b Hl Hb.
  - destruct b; [|discriminate]. cbn. constructor.
  - destruct b as [|y b]; [discriminate|]. inversion Hb as [|? ? Hy Hb']; subst.
    injection Hl as Hl. specialize (IH b Hl Hb'). cbn [add_zip combine].
    destruct (add_zip rna a b) as [rs|].
    + destruct (add_letter rna x y Hx Hy) as [[E P]|(c & E & P)]; rewrite E; cbn [option_map existsb orb].
      * split; [reflexivity|]. left. exact P.
      * cbn [flat_map app].
        match goal with |- context [existsb ?f rs] => destruct (existsb f rs) end.
        -- destruct IH as [_ IH]. split; [reflexivity|]. right. exact IH.
        -- constructor; assumption.
    + destruct IH as [IH _]. vm_compute in IH. discriminate.
Qed.
