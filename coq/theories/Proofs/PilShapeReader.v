(* Consequences of pil_grammar_shape and of the fuel bound for the reader's entry point
   DispatchReader.parse_lines: its two defensive answers (BadShape, OutOfFuel) never occur. *)
From Coq Require Import String List NArith Bool.
From DSD Require Import Base.Str Base.Errors Model.ComplexUtils Model.Peg Model.ReaderShape Model.DispatchReader
  Proofs.PegTerm Proofs.C13Fuel Proofs.PilShape.
From DSDGen Require Import PilGrammar.
Import ListNotations.

Theorem parse_lines_eq text :
  parse_lines text = match parse_string pil_grammar text with
                     | POk _ toks => Ok toks
                     | _ => Err eParse
                     end.
Proof.
  unfold parse_lines. pose proof (pil_parse_string_no_fuel text) as Hf.
  destruct (parse_string pil_grammar text) as [p toks| |] eqn:E; [|reflexivity|congruence].
  unfold parse_string in E. rewrite (pil_grammar_shape _ _ _ _ E). reflexivity.
Qed.

Theorem parse_lines_shape text lines : parse_lines text = Ok lines -> forallb line_okb lines = true.
Proof.
  rewrite parse_lines_eq. destruct (parse_string pil_grammar text) as [p toks| |] eqn:E; try discriminate.
  intros H. injection H as <-. unfold parse_string in E. exact (pil_grammar_shape _ _ _ _ E).
Qed.

Theorem parse_lines_total text : (exists lines, parse_lines text = Ok lines) \/ parse_lines text = Err eParse.
Proof. rewrite parse_lines_eq. destruct (parse_string pil_grammar text); eauto. Qed.

