(* C08, object level: exterior_domains / enclosed_domains and
   is_domainlevel_complement as pure functions of (sequence, structure). *)
From Coq Require Import List Arith Lia Bool NArith.
From DSD Require Import Base.Str Base.Errors Model.ComplexUtils Model.Loops Dyck.Dyck
  Proofs.Mpt Proofs.Db Proofs.Assoc Proofs.Loops Proofs.LoopsConn.
Import ListNotations.

Definition getl (t : list (list nat)) (a : loc) : option nat :=
  match nth_error t (fst a) with Some r => nth_error r (snd a) | None => None end.

(* ------------------------------------------------------------------ *)
(* the scan of exterior_domains                                         *)

Lemma scan_row_spec ext si lr : forall pr di a,
  (In a (fst (scan_row ext si di lr pr)) <->
   exists k l, a = (si, di + k) /\ nth_error lr k = Some l /\ nth_error pr k = Some None /\ In l ext) /\
  (In a (snd (scan_row ext si di lr pr)) <->
   exists k l, a = (si, di + k) /\ nth_error lr k = Some l /\ nth_error pr k = Some None /\ ~ In l ext).
Proof.
  induction lr as [|l lr IH]; intros pr di a; cbn [scan_row].
  - split; (split; [intros []|intros (k & l & _ & H & _); destruct k; discriminate]).
  - destruct pr as [|e pr].
    + split; (split; [intros []|intros (k & l' & _ & _ & H & _); destruct k; discriminate]).
    + destruct (IH pr (S di) a) as [IH1 IH2].
      assert (Shift : forall P : nat -> nat -> Prop,
                (exists k l', a = (si, S di + k) /\ P k l') ->
                exists k l', a = (si, di + S k) /\ P k l').
      { intros P (k & l' & E & H). exists k, l'. split; [rewrite E; f_equal; lia|exact H]. }
      destruct e as [c|].
      * (* paired: neither list *)
        split.
        -- rewrite IH1. split.
           ++ intros (k & l' & E & H). exists (S k), l'. split; [rewrite E; f_equal; lia|exact H].
           ++ intros (k & l' & E & H1 & H2 & H3). destruct k as [|k]; [discriminate|].
              exists k, l'. split; [rewrite E; f_equal; lia|]. auto.
        -- rewrite IH2. split.
           ++ intros (k & l' & E & H). exists (S k), l'. split; [rewrite E; f_equal; lia|exact H].
           ++ intros (k & l' & E & H1 & H2 & H3). destruct k as [|k]; [discriminate|].
              exists k, l'. split; [rewrite E; f_equal; lia|]. auto.
      * destruct (existsb (Nat.eqb l) ext) eqn:Ex; cbn [fst snd].
        -- apply existsb_eqb_In in Ex. split.
           ++ split.
              ** intros [<-|H].
                 --- exists 0, l. rewrite Nat.add_0_r. auto.
                 --- apply IH1 in H. destruct H as (k & l' & E & H). exists (S k), l'.
                     split; [rewrite E; f_equal; lia|exact H].
              ** intros (k & l' & E & H1 & H2 & H3). destruct k as [|k].
                 --- left. rewrite E, Nat.add_0_r. reflexivity.
                 --- right. apply IH1. exists k, l'. split; [rewrite E; f_equal; lia|]. auto.
           ++ rewrite IH2. split.
              ** intros (k & l' & E & H). exists (S k), l'. split; [rewrite E; f_equal; lia|exact H].
              ** intros (k & l' & E & H1 & H2 & H3). destruct k as [|k].
                 --- injection H1 as <-. contradiction.
                 --- exists k, l'. split; [rewrite E; f_equal; lia|]. auto.
        -- assert (Hn : ~ In l ext).
           { intros Hin. apply existsb_eqb_In in Hin. congruence. }
           split.
           ++ rewrite IH1. split.
              ** intros (k & l' & E & H). exists (S k), l'. split; [rewrite E; f_equal; lia|exact H].
              ** intros (k & l' & E & H1 & H2 & H3). destruct k as [|k].
                 --- injection H1 as <-. contradiction.
                 --- exists k, l'. split; [rewrite E; f_equal; lia|]. auto.
           ++ split.
              ** intros [<-|H].
                 --- exists 0, l. rewrite Nat.add_0_r. auto.
                 --- apply IH2 in H. destruct H as (k & l' & E & H). exists (S k), l'.
                     split; [rewrite E; f_equal; lia|exact H].
              ** intros (k & l' & E & H1 & H2 & H3). destruct k as [|k].
                 --- left. rewrite E, Nat.add_0_r. reflexivity.
                 --- right. apply IH2. exists k, l'. split; [rewrite E; f_equal; lia|]. auto.
Qed.

Lemma scan_rows_spec ext li : forall pt si a,
  (In a (fst (scan_rows ext si li pt)) <->
   exists k lr pr l, fst a = si + k /\ nth_error li k = Some lr /\ nth_error pt k = Some pr /\
     nth_error lr (snd a) = Some l /\ nth_error pr (snd a) = Some None /\ In l ext) /\
  (In a (snd (scan_rows ext si li pt)) <->
   exists k lr pr l, fst a = si + k /\ nth_error li k = Some lr /\ nth_error pt k = Some pr /\
     nth_error lr (snd a) = Some l /\ nth_error pr (snd a) = Some None /\ ~ In l ext).
Proof.
  induction li as [|lr li IH]; intros pt si a; cbn [scan_rows].
  - split; (split; [intros []|intros (k & ? & ? & ? & _ & H & _); destruct k; discriminate]).
  - destruct pt as [|pr pt].
    + split; (split; [intros []|intros (k & ? & ? & ? & _ & _ & H & _); destruct k; discriminate]).
    + cbn [fst snd]. destruct (IH pt (S si) a) as [IH1 IH2].
      destruct (scan_row_spec ext si lr pr 0 a) as [R1 R2].
      split.
      * rewrite in_app_iff, R1, IH1. split.
        -- intros [(k & l & E & H1 & H2 & H3)|(k & lr' & pr' & l & E & H)].
           ++ exists 0, lr, pr, l. rewrite E. cbn [fst snd Nat.add nth_error]. rewrite Nat.add_0_r. repeat (split; [solve [auto]|]); auto.
           ++ exists (S k), lr', pr', l. split; [lia|exact H].
        -- intros (k & lr' & pr' & l & E & H1 & H2 & H3 & H4 & H5). destruct k as [|k].
           ++ left. injection H1 as <-. injection H2 as <-. exists (snd a), l.
              split; [destruct a; cbn [fst snd] in *; f_equal; lia|auto].
           ++ right. exists k, lr', pr', l. split; [lia|auto].
      * rewrite in_app_iff, R2, IH2. split.
        -- intros [(k & l & E & H1 & H2 & H3)|(k & lr' & pr' & l & E & H)].
           ++ exists 0, lr, pr, l. rewrite E. cbn [fst snd Nat.add nth_error]. rewrite Nat.add_0_r. repeat (split; [solve [auto]|]); auto.
           ++ exists (S k), lr', pr', l. split; [lia|exact H].
        -- intros (k & lr' & pr' & l & E & H1 & H2 & H3 & H4 & H5). destruct k as [|k].
           ++ left. injection H1 as <-. injection H2 as <-. exists (snd a), l.
              split; [destruct a; cbn [fst snd] in *; f_equal; lia|auto].
           ++ right. exists k, lr', pr', l. split; [lia|auto].
Qed.

Lemma scan_spec ext li pt a :
  (In a (fst (scan_rows ext 0 li pt)) <->
   get pt a = Some None /\ exists l, getl li a = Some l /\ In l ext) /\
  (In a (snd (scan_rows ext 0 li pt)) <->
   get pt a = Some None /\ exists l, getl li a = Some l /\ ~ In l ext).
Proof.
  destruct (scan_rows_spec ext li pt 0 a) as [H1 H2]. unfold get, getl. split.
  - rewrite H1. split.
    + intros (k & lr & pr & l & E & A & B & C & D & F). cbn in E. subst k. rewrite A, B. eauto.
    + intros (A & l & B & C).
      destruct (nth_error pt (fst a)) as [pr|] eqn:Ep; [|discriminate].
      destruct (nth_error li (fst a)) as [lr|] eqn:El; [|discriminate].
      exists (fst a), lr, pr, l. repeat (split; [solve [auto]|]); auto.
  - rewrite H2. split.
    + intros (k & lr & pr & l & E & A & B & C & D & F). cbn in E. subst k. rewrite A, B. eauto.
    + intros (A & l & B & C).
      destruct (nth_error pt (fst a)) as [pr|] eqn:Ep; [|discriminate].
      destruct (nth_error li (fst a)) as [lr|] eqn:El; [|discriminate].
      exists (fst a), lr, pr, l. repeat (split; [solve [auto]|]); auto.
Qed.

(* ext_dom_spec: for a connected complex the exterior / enclosed domains are
   exactly the unpaired positions whose loop is / is not an exterior loop *)
Theorem ext_dom_spec sst d :
  make_pair_table cP [cD] sst = Ok (tab_of d) -> NoDup (ends d) ->
  exists xs ns,
    exterior_domains sst = Ok xs /\ enclosed_domains sst = Ok ns /\
    forall a,
      (In a xs <-> get (tab_of d) a = Some None /\
                   exists l, getl (loops_of d) a = Some l /\ In l (ends d)) /\
      (In a ns <-> get (tab_of d) a = Some None /\
                   exists l, getl (loops_of d) a = Some l /\ ~ In l (ends d)).
Proof.
  intros Hpt Hnd. unfold exterior_domains, enclosed_domains, ext_enc, pair_table_of.
  rewrite Hpt. cbn [rbind]. rewrite (li_spec_ok d Hnd). cbn [rbind fst snd].
  eexists. eexists. split; [reflexivity|]. split; [reflexivity|].
  intros a. apply scan_spec.
Qed.

(* ... and for a disconnected one both raise SecondaryStructureError *)
Theorem ext_dom_disconnected sst d :
  make_pair_table cP [cD] sst = Ok (tab_of d) -> ~ NoDup (ends d) ->
  exterior_domains sst = Err eSSE /\ enclosed_domains sst = Err eSSE.
Proof.
  intros Hpt Hnd. unfold exterior_domains, enclosed_domains, ext_enc, pair_table_of.
  rewrite Hpt. cbn [rbind]. rewrite (li_spec_err d Hnd). split; reflexivity.
Qed.

(* is_connected of a well-formed structure is graph connectivity *)
Theorem is_connected_spec sst d :
  make_pair_table cP [cD] sst = Ok (tab_of d) ->
  (is_connected sst = Ok true <-> connected (tab_of d)) /\
  (is_connected sst = Ok false <-> ~ connected (tab_of d)).
Proof.
  intros Hpt. unfold is_connected, loop_index_of, pair_table_of. rewrite Hpt. cbn [rbind].
  destruct (NoDup_dec_nat (ends d)) as [Hn|Hn].
  - rewrite (li_spec_ok d Hn). split.
    + split; [intros _; apply nodup_connected, Hn|reflexivity].
    + split; [discriminate|]. intros H. exfalso. apply H, nodup_connected, Hn.
  - rewrite (li_spec_err d Hn).
    replace (str_eqb eSSE eSSE) with true by (symmetry; apply str_eqb_iff; reflexivity).
    split.
    + split; [discriminate|]. intros H. exfalso. apply Hn, connected_nodup, H.
    + split; [intros _ H; apply Hn, connected_nodup, H|reflexivity].
Qed.

(* get_loop_index of a connected complex reads the loop decomposition *)
Theorem get_loop_index_spec sst d a :
  make_pair_table cP [cD] sst = Ok (tab_of d) -> NoDup (ends d) ->
  get_loop_index sst a = match getl (loops_of d) a with Some l => Ok l | None => Err eIndex end.
Proof.
  intros Hpt Hnd. unfold get_loop_index, loop_index_of, pair_table_of, nth2r, getl.
  rewrite Hpt. cbn [rbind]. rewrite (li_spec_ok d Hnd). cbn [rbind fst].
  destruct (nth_error (loops_of d) (fst a)) as [r|]; [|reflexivity].
  destruct (nth_error r (snd a)); reflexivity.
Qed.

(* ------------------------------------------------------------------ *)
(* is_domainlevel_complement                                            *)

Definition dom_at (stab : list (list pstr)) (a : loc) : option pstr :=
  match nth_error stab (fst a) with Some r => nth_error r (snd a) | None => None end.

Lemma get_domain_dom_at stab a :
  get_domain stab a = match dom_at stab a with Some x => Ok x | None => Err eIndex end.
Proof.
  unfold get_domain, nth2r, dom_at. destruct (nth_error stab (fst a)) as [r|]; [|reflexivity].
  destruct (nth_error r (snd a)); reflexivity.
Qed.

(* every paired position and its partner carry a domain *)
Definition named (stab : list (list pstr)) (pt : tab) : Prop :=
  forall a b, get pt a = Some (Some b) -> dom_at stab a <> None /\ dom_at stab b <> None.

Definition all_complementary (stab : list (list pstr)) (pt : tab) : Prop :=
  forall a b, get pt a = Some (Some b) ->
  exists x y, dom_at stab a = Some x /\ dom_at stab b = Some y /\ x = toggle y.

Lemma dlc_row_spec stab si pr : forall di,
  (forall c e, nth_error pr c = Some (Some e) -> dom_at stab (si, di + c) <> None /\ dom_at stab e <> None) ->
  exists b, dlc_row stab si di pr = Ok b /\
    (b = true <-> forall c e, nth_error pr c = Some (Some e) ->
       exists x y, dom_at stab (si, di + c) = Some x /\ dom_at stab e = Some y /\ x = toggle y).
Proof.
  induction pr as [|[e|] pr IH]; intros di Hn; cbn [dlc_row].
  - exists true. split; [reflexivity|]. split; [intros _ c e H; destruct c; discriminate|reflexivity].
  - destruct (Hn 0 e eq_refl) as [Ha Hb]. rewrite Nat.add_0_r in Ha.
    rewrite !get_domain_dom_at.
    destruct (dom_at stab (si, di)) as [x|] eqn:Ex; [|congruence].
    destruct (dom_at stab e) as [y|] eqn:Ey; [|congruence]. cbn [rbind].
    destruct (str_eqb x (toggle y)) eqn:Eq.
    + apply str_eqb_iff in Eq.
      destruct (IH (S di)) as (b & Hb1 & Hb2).
      { intros c e' H. specialize (Hn (S c) e' H). replace (S di + c) with (di + S c) by lia. exact Hn. }
      exists b. split; [exact Hb1|]. rewrite Hb2. split.
      * intros H c e' Hc. destruct c as [|c].
        -- injection Hc as <-. rewrite Nat.add_0_r. exists x, y. auto.
        -- replace (di + S c) with (S di + c) by lia. apply H, Hc.
      * intros H c e' Hc. replace (S di + c) with (di + S c) by lia. apply (H (S c)), Hc.
    + exists false. split; [reflexivity|]. split; [discriminate|].
      intros H. destruct (H 0 e eq_refl) as (x' & y' & H1 & H2 & H3).
      rewrite Nat.add_0_r, Ex in H1. rewrite Ey in H2. injection H1 as <-. injection H2 as <-.
      assert (E : str_eqb x (toggle y) = true) by (apply str_eqb_iff; exact H3). congruence.
  - destruct (IH (S di)) as (b & Hb1 & Hb2).
    { intros c e' H. specialize (Hn (S c) e' H). replace (S di + c) with (di + S c) by lia. exact Hn. }
    exists b. split; [exact Hb1|]. rewrite Hb2. split.
    + intros H c e' Hc. destruct c as [|c]; [discriminate|].
      replace (di + S c) with (S di + c) by lia. apply H, Hc.
    + intros H c e' Hc. replace (S di + c) with (di + S c) by lia. apply (H (S c)), Hc.
Qed.

Lemma dlc_rows_spec stab pt : forall si,
  (forall k r c e, nth_error pt k = Some r -> nth_error r c = Some (Some e) ->
     dom_at stab (si + k, c) <> None /\ dom_at stab e <> None) ->
  exists b, dlc_rows stab si pt = Ok b /\
    (b = true <-> forall k r c e, nth_error pt k = Some r -> nth_error r c = Some (Some e) ->
       exists x y, dom_at stab (si + k, c) = Some x /\ dom_at stab e = Some y /\ x = toggle y).
Proof.
  induction pt as [|r pt IH]; intros si Hn; cbn [dlc_rows].
  - exists true. split; [reflexivity|]. split; [intros _ k ? ? ? H; destruct k; discriminate|reflexivity].
  - destruct (dlc_row_spec stab si r 0) as (b & Hb1 & Hb2).
    { intros c e H. specialize (Hn 0 r c e eq_refl H). rewrite Nat.add_0_r in Hn. exact Hn. }
    rewrite Hb1. cbn [rbind]. destruct b.
    + destruct (IH (S si)) as (b' & Hc1 & Hc2).
      { intros k r' c e H1 H2. specialize (Hn (S k) r' c e H1 H2).
        replace (S si + k) with (si + S k) by lia. exact Hn. }
      exists b'. split; [exact Hc1|]. rewrite Hc2. split.
      * intros H k r' c e H1 H2. destruct k as [|k].
        -- injection H1 as <-. rewrite Nat.add_0_r. apply (proj1 Hb2 eq_refl c e H2).
        -- replace (si + S k) with (S si + k) by lia. eapply H; eauto.
      * intros H k r' c e H1 H2. replace (S si + k) with (si + S k) by lia. apply (H (S k) r' c e H1 H2).
    + exists false. split; [reflexivity|]. split; [discriminate|].
      intros H. apply Hb2. intros c e Hc. specialize (H 0 r c e eq_refl Hc).
      rewrite Nat.add_0_r in H. exact H.
Qed.

(* dlc_spec: true exactly when every pair joins a domain with its complement *)
Theorem dlc_spec seq sst pt :
  make_pair_table cP [cD] sst = Ok pt -> named (strand_table_of seq) pt ->
  exists b, is_domainlevel_complement seq sst = Ok b /\
            (b = true <-> all_complementary (strand_table_of seq) pt).
Proof.
  intros Hpt Hn. unfold is_domainlevel_complement, pair_table_of. rewrite Hpt. cbn [rbind].
  destruct (dlc_rows_spec (strand_table_of seq) pt 0) as (b & H1 & H2).
  { intros k r c e Hk Hc. apply (Hn (k, c) e). unfold get. cbn [fst snd]. unfold tab, row in *. rewrite Hk. exact Hc. }
  exists b. split; [exact H1|]. rewrite H2. unfold all_complementary, get. split.
  - intros H a e Ha. unfold tab, row in *. destruct (nth_error pt (fst a)) as [r|] eqn:Er; [|discriminate].
    specialize (H (fst a) r (snd a) e Er Ha). destruct a; exact H.
  - intros H k r c e Hk Hc. apply (H (k, c) e). cbn [fst snd]. unfold tab, row in *. rewrite Hk. exact Hc.
Qed.

(* non-vacuity *)
Example ex_ext_dom :
  let sst := [cO; cD; cP; cO; cD; cC; cD; cC] in            (* "(.+(.).)" *)
  let d := DP (DU (DB (DP (DU DNil) (DU DNil)))) DNil in
  make_pair_table cP [cD] sst = Ok (tab_of d) /\ NoDup (ends d) /\
  exterior_domains sst = Ok [(0, 1); (1, 3)] /\ enclosed_domains sst = Ok [(1, 1)].
Proof.
  cbn zeta. split; [reflexivity|]. split.
  - unfold ends. cbn. repeat constructor; cbn; intuition discriminate.
  - split; reflexivity.
Qed.

Example ex_dlc :
  let a := [97%N] in let b := [98%N] in
  let seq := [a; b; sPlus; toggle b; toggle a] in
  let sst := [cO; cO; cP; cC; cC] in
  is_domainlevel_complement seq sst = Ok true /\
  is_domainlevel_complement [a; b; sPlus; b; toggle a] sst = Ok false.
Proof. cbn zeta. split; reflexivity. Qed.

(* a sequence whose strands have the lengths of the structure's strands names
   every position of a tree table *)
Lemma same_shape_dom_at {A B} (s : list (list A)) (t : list (list B)) k c :
  map (@length A) s = map (@length B) t ->
  (exists r, nth_error t k = Some r /\ c < length r) ->
  exists r', nth_error s k = Some r' /\ c < length r'.
Proof.
  revert t k. induction s as [|x s IH]; intros t k Hm (r & Hr & Hc); destruct t as [|y t]; try discriminate.
  - destruct k; discriminate.
  - cbn [map] in Hm. injection Hm as Hxy Hm. destruct k as [|k]; cbn [nth_error] in *.
    + injection Hr as <-. exists x. split; [reflexivity|lia].
    + apply (IH t k Hm). eauto.
Qed.

Lemma same_shape_named stab d :
  map (@length pstr) stab = map (@length (option loc)) (tab_of d) -> named stab (tab_of d).
Proof.
  intros Hm.
  assert (V : forall a v, get (tab_of d) a = Some v -> dom_at stab a <> None).
  { intros a v H. unfold get in H.
    match type of H with context [nth_error ?t ?k] => destruct (nth_error t k) as [r|] eqn:Er end; [|discriminate].
    destruct (same_shape_dom_at stab (tab_of d) (fst a) (snd a) Hm) as (r' & Hr' & Hc).
    { exists r. split; [exact Er|]. apply nth_error_Some. congruence. }
    unfold dom_at. rewrite Hr'. apply nth_error_Some. exact Hc. }
  intros a b H. split; [eapply V, H|].
  apply get_tab_of_In in H. apply (aents_sym d (0, 0)) in H. apply get_tab_of_In in H. eapply V, H.
Qed.
