(* C13: reactions with rate information
     (kinetic | reaction) [ [NAME (=|:)] RATE [+/- (RATE | inf)] (/CUNIT)* /TUNIT ] REACTANTS -> PRODUCTS
   rate in integer, decimal or scientific form, units of every arity, all layouts. *)
From Coq Require Import List NArith Bool Arith Lia.
From DSD Require Import Base.Str Base.Errors Base.Val Model.Peg Model.DispatchPeg Proofs.PegMono Proofs.PegRules Proofs.PegStd
  Proofs.PegDoc Proofs.PegKw Proofs.PegNum Proofs.C13Doc Proofs.PilLex Proofs.C13Ms Proofs.C13Kc Proofs.C13Kc2 Proofs.C13Rx.
From DSDGen Require Import PilGrammar.
Import ListNotations.

(* ---------------------------------------------------------------- a number is not a name followed by a sign *)
Definition Qa (rest : pstr) : Prop := nohead [61; 58]%N (spre rest).
Definition good (t : pstr) : Prop :=
  forall a rest, t = a ++ rest -> all_in idch a -> nohead idch rest -> Qa rest.
Lemma good_nil : good [].
Proof. intros a rest E _ _. destruct a, rest; try discriminate. exact I. Qed.
Lemma good_idch c t : memc c idch = true -> good t -> good (c :: t).
Proof.
  intros Hc Ht a rest E Ha Hr. destruct a as [|c' a].
  - cbn in E. subst rest. unfold nohead in Hr. congruence.
  - injection E as <- E. apply (Ht a rest E); [|exact Hr].
    unfold all_in in *. cbn [forallb] in Ha. apply andb_prop in Ha. apply Ha.
Qed.
Lemma good_stop c t : memc c idch = false -> Qa (c :: t) -> good (c :: t).
Proof.
  intros Hc Hq a rest E Ha Hr. destruct a as [|c' a].
  - cbn in E. subst rest. exact Hq.
  - injection E as <- E. unfold all_in in Ha. cbn [forallb] in Ha. apply andb_prop in Ha as [Ha _]. congruence.
Qed.
Lemma good_app_idch p t : all_in idch p -> good t -> good (p ++ t).
Proof.
  unfold all_in. induction p as [|c p IH]; intros Hp Ht; [exact Ht|]. cbn [forallb] in Hp. apply andb_prop in Hp as [Hc Hp].
  cbn [app]. apply good_idch; [exact Hc|apply IH; assumption].
Qed.
Lemma good_blanks_stop b c t : blanks WS b -> stopc c = true -> memc c idch = false -> c <> 61%N -> c <> 58%N ->
  good (b ++ c :: t).
Proof.
  intros Hb Hc Hi H1 H2.
  assert (Hq : Qa (b ++ c :: t)).
  { unfold Qa. rewrite (spre_blanks_stop b c t Hb Hc). cbn.
    destruct (N.eqb_spec c 61); [congruence|]. destruct (N.eqb_spec c 58); [congruence|]. reflexivity. }
  destruct b as [|w b]; [apply good_stop; assumption|]. cbn [app] in *.
  apply good_stop; [|exact Hq]. unfold blanks in Hb. cbn in Hb. apply andb_prop in Hb as [Hw _].
  apply negb_true_iff. apply (memc_forallb WS (fun w => negb (memc w idch)) w); [vm_compute; reflexivity|exact Hw].
Qed.
Lemma all_in_digit_idch s : all_in digit s -> all_in idch s.
Proof.
  unfold all_in. induction s as [|c s IH]; [reflexivity|]. cbn [forallb]. intros H. apply andb_prop in H as [Hc H].
  rewrite (digit_idch c Hc), (IH H). reflexivity.
Qed.

Lemma span_spec cs s : let (a, rest) := span cs None s in s = a ++ rest /\ all_in cs a /\ nohead cs rest.
Proof.
  induction s as [|c s IH]; cbn [span]; [split; [reflexivity|split; [reflexivity|exact I]]|].
  destruct (memc c cs) eqn:E.
  - cbn [option_map] in *. destruct (span cs None s) as [a rest]. destruct IH as (-> & Ha & Hr).
    split; [reflexivity|split; [|exact Hr]]. unfold all_in. cbn [forallb]. rewrite E. exact Ha.
  - split; [reflexivity|split; [reflexivity|exact E]].
Qed.

Lemma good_number n R : pgnum_ok n -> good R -> good (g_is n ++ frac_text (g_frac n) ++ exp_text (g_exp n) ++ R).
Proof.
  intros (H0 & Hs & Hf & He) HR.
  apply good_app_idch; [apply all_in_digit_idch; exact Hs|].
  assert (Hexp : good (exp_text (g_exp n) ++ R)).
  { destruct (g_exp n) as [[[sg e0] es]|]; cbn [exp_text app]; [|exact HR].
    destruct He as (He0 & Hes & Hsg). apply good_idch; [reflexivity|].
    assert (Hd : good (e0 :: es ++ R)).
    { apply good_idch; [apply digit_idch; exact He0|]. apply good_app_idch; [apply all_in_digit_idch; exact Hes|exact HR]. }
    destruct sg as [s|]; cbn [sign_text app]; [|exact Hd].
    destruct Hsg as [-> | ->].
    - apply good_stop; [reflexivity|]. unfold Qa. rewrite spre_stop by reflexivity. reflexivity.
    - apply good_idch; [reflexivity|exact Hd]. }
  destruct (g_frac n) as [[f0 fs]|]; cbn [frac_text app]; [|exact Hexp].
  apply good_stop; [reflexivity|]. unfold Qa. rewrite spre_stop by reflexivity. reflexivity.
Qed.

(* Opt [And [identifier; assign]] on a number: the And fails *)
Lemma number_not_named full n R : pgnum_ok n -> good R ->
  evals G full 126 false (At (gnum_text n ++ R)) PFail.
Proof.
  intros Hn HR. pose proof (good_number n R Hn HR) as Hg. destruct Hn as (H0 & _).
  unfold gnum_text. norm_text.
  pose proof (span_spec idch (g_is n ++ frac_text (g_frac n) ++ exp_text (g_exp n) ++ R)) as Hsp.
  destruct (span idch None (g_is n ++ frac_text (g_frac n) ++ exp_text (g_exp n) ++ R)) as [a rest].
  destruct Hsp as (E & Ha & Hr). rewrite E.
  eapply evals_node_fail; [lk|cbn; reflexivity|].
  eapply impls_and; [reflexivity|reflexivity| |].
  - apply (ev_ident full false _ (g_i0 n) a rest eq_refl (digit_idch _ H0) Ha Hr).
  - apply seqs_fail. apply (ev_assign_fail full 127 true); [lk|]. apply (Hg a rest E Ha Hr).
Qed.

(* ---------------------------------------------------------------- units: Combine( ('/' cunit)* '/' tunit ) *)
Inductive tunit := Us | Um | Uh.
Definition tunit_text (u : tunit) : pstr := match u with Us => [115] | Um => [109] | Uh => [104] end%N.
Definition cunits_text (cs : list cunit) : pstr := flat_map (fun c => 47%N :: cunit_text c) cs.
Definition runit_text (cs : list cunit) (t : tunit) : pstr := cunits_text cs ++ 47%N :: tunit_text t.

Lemma ev_lit_plain_ok full i s x : nth_error G i = Some (mkNode (KLit s) [] false WS [] true []) ->
  evals G full i true (At (s ++ x)) (POk (At x) [TStr s]).
Proof.
  intros Hi. eapply evals_eq; [apply (evals_lit_plain G full pil_c WS pil_comment_ok i true true s _ Hi)|].
  unfold lit_res. rewrite starts_with_app. reflexivity.
Qed.
Lemma ev_lit_plain_no full i s x : nth_error G i = Some (mkNode (KLit s) [] false WS [] true []) ->
  starts_with s x = None -> evals G full i true (At x) PFail.
Proof.
  intros Hi Hx. eapply evals_eq; [apply (evals_lit_plain G full pil_c WS pil_comment_ok i true true s _ Hi)|].
  unfold lit_res. rewrite Hx. reflexivity.
Qed.

Lemma ev_cunit_plain full u r : evals G full 163 true (At (cunit_text u ++ r)) (POk (At r) [TStr (cunit_text u)]).
Proof.
  eapply evals_eq.
  - eapply evals_node_ok; [lk|cbn; reflexivity|]. apply impls_first; [reflexivity|]. cbn [nkids].
    instantiate (1 := [TStr (cunit_text u)]). instantiate (1 := At r).
    destruct u; cbn [cunit_text].
    + apply firsts_hit. apply (ev_lit_plain_ok full 164 [77%N]). lk.
    + eapply firsts_miss; [apply (ev_lit_plain_no full 164 [77%N]); [lk|reflexivity]|].
      apply firsts_hit. apply (ev_lit_plain_ok full 165 [109; 77]%N). lk.
    + eapply firsts_miss; [apply (ev_lit_plain_no full 164 [77%N]); [lk|reflexivity]|].
      eapply firsts_miss; [apply (ev_lit_plain_no full 165 [109; 77]%N); [lk|reflexivity]|].
      apply firsts_hit. apply (ev_lit_plain_ok full 166 [117; 77]%N). lk.
    + eapply firsts_miss; [apply (ev_lit_plain_no full 164 [77%N]); [lk|reflexivity]|].
      eapply firsts_miss; [apply (ev_lit_plain_no full 165 [109; 77]%N); [lk|reflexivity]|].
      eapply firsts_miss; [apply (ev_lit_plain_no full 166 [117; 77]%N); [lk|reflexivity]|].
      apply firsts_hit. apply (ev_lit_plain_ok full 167 [110; 77]%N). lk.
    + eapply firsts_miss; [apply (ev_lit_plain_no full 164 [77%N]); [lk|reflexivity]|].
      eapply firsts_miss; [apply (ev_lit_plain_no full 165 [109; 77]%N); [lk|reflexivity]|].
      eapply firsts_miss; [apply (ev_lit_plain_no full 166 [117; 77]%N); [lk|reflexivity]|].
      eapply firsts_miss; [apply (ev_lit_plain_no full 167 [110; 77]%N); [lk|reflexivity]|].
      apply firsts_hit. apply (ev_lit_plain_ok full 168 [112; 77]%N). lk.
  - reflexivity.
Qed.
(* no concentration unit where the time unit stands *)
Lemma ev_cunit_plain_fail full t r : nohead [77%N] r -> evals G full 163 true (At (tunit_text t ++ r)) PFail.
Proof.
  intros Hr.
  assert (HmM : starts_with [109; 77]%N (109%N :: r) = None).
  { rewrite starts_with_cons_same. apply (starts_with_nohead 77%N [] r Hr). }
  eapply evals_node_fail; [lk|cbn; reflexivity|]. apply impls_first; [reflexivity|]. cbn [nkids].
  destruct t; cbn [tunit_text app].
  - eapply firsts_miss; [apply (ev_lit_plain_no full 164 [77%N]); [lk|reflexivity]|].
    eapply firsts_miss; [apply (ev_lit_plain_no full 165 [109; 77]%N); [lk|reflexivity]|].
    eapply firsts_miss; [apply (ev_lit_plain_no full 166 [117; 77]%N); [lk|reflexivity]|].
    eapply firsts_miss; [apply (ev_lit_plain_no full 167 [110; 77]%N); [lk|reflexivity]|].
    eapply firsts_miss; [apply (ev_lit_plain_no full 168 [112; 77]%N); [lk|reflexivity]|]. apply firsts_nil.
  - eapply firsts_miss; [apply (ev_lit_plain_no full 164 [77%N]); [lk|reflexivity]|].
    eapply firsts_miss; [apply (ev_lit_plain_no full 165 [109; 77]%N); [lk|exact HmM]|].
    eapply firsts_miss; [apply (ev_lit_plain_no full 166 [117; 77]%N); [lk|reflexivity]|].
    eapply firsts_miss; [apply (ev_lit_plain_no full 167 [110; 77]%N); [lk|reflexivity]|].
    eapply firsts_miss; [apply (ev_lit_plain_no full 168 [112; 77]%N); [lk|reflexivity]|]. apply firsts_nil.
  - eapply firsts_miss; [apply (ev_lit_plain_no full 164 [77%N]); [lk|reflexivity]|].
    eapply firsts_miss; [apply (ev_lit_plain_no full 165 [109; 77]%N); [lk|reflexivity]|].
    eapply firsts_miss; [apply (ev_lit_plain_no full 166 [117; 77]%N); [lk|reflexivity]|].
    eapply firsts_miss; [apply (ev_lit_plain_no full 167 [110; 77]%N); [lk|reflexivity]|].
    eapply firsts_miss; [apply (ev_lit_plain_no full 168 [112; 77]%N); [lk|reflexivity]|]. apply firsts_nil.
Qed.
Lemma ev_tunit_plain full t r : evals G full 170 true (At (tunit_text t ++ r)) (POk (At r) [TStr (tunit_text t)]).
Proof.
  eapply evals_eq.
  - eapply evals_node_ok; [lk|cbn; reflexivity|]. apply impls_first; [reflexivity|]. cbn [nkids].
    instantiate (1 := [TStr (tunit_text t)]). instantiate (1 := At r).
    destruct t; cbn [tunit_text].
    + apply firsts_hit. apply (ev_lit_plain_ok full 171 [115%N]). lk.
    + eapply firsts_miss; [apply (ev_lit_plain_no full 171 [115%N]); [lk|reflexivity]|].
      apply firsts_hit. apply (ev_lit_plain_ok full 172 [109%N]). lk.
    + eapply firsts_miss; [apply (ev_lit_plain_no full 171 [115%N]); [lk|reflexivity]|].
      eapply firsts_miss; [apply (ev_lit_plain_no full 172 [109%N]); [lk|reflexivity]|].
      apply firsts_hit. apply (ev_lit_plain_ok full 173 [104%N]). lk.
  - reflexivity.
Qed.

(* one '/' cunit *)
Lemma ev_slash_cunit full u r :
  evals G full 161 true (At (47%N :: cunit_text u ++ r)) (POk (At r) [TStr [47%N]; TStr (cunit_text u)]).
Proof.
  eapply evals_eq.
  - eapply evals_node_ok; [lk|apply (pre_premise_plain G full pil_c WS pil_comment_ok); split; reflexivity|].
    eapply impls_and; [reflexivity|reflexivity| |].
    + eapply evals_eq; [apply (evals_lit_plain G full pil_c WS pil_comment_ok 162 false true); lk|].
      unfold lit_res. rewrite starts_with_cons_same. reflexivity.
    + eapply seqs_cons; [apply ev_cunit_plain|apply seqs_nil].
  - reflexivity.
Qed.
Lemma ev_slash_cunit_stop full t r : nohead [77%N] r -> evals G full 161 true (At (47%N :: tunit_text t ++ r)) PFail.
Proof.
  intros Hr.
  eapply evals_node_fail; [lk|apply (pre_premise_plain G full pil_c WS pil_comment_ok); split; reflexivity|].
  eapply impls_and; [reflexivity|reflexivity| |].
  - eapply evals_eq; [apply (evals_lit_plain G full pil_c WS pil_comment_ok 162 false true); lk|].
    unfold lit_res. rewrite starts_with_cons_same. reflexivity.
  - apply seqs_fail. apply ev_cunit_plain_fail. exact Hr.
Qed.
Definition cunits_toks (cs : list cunit) : list tok := flat_map (fun c => [TStr [47%N]; TStr (cunit_text c)]) cs.

Lemma loops_cunits full cs : forall t r acc, nohead [77%N] r ->
  loops G full [] 161 (At (cunits_text cs ++ 47%N :: tunit_text t ++ r)) acc
    (POk (At (47%N :: tunit_text t ++ r)) (acc ++ cunits_toks cs)).
Proof.
  induction cs as [|c cs IH]; intros t r acc Hr.
  - cbn [cunits_text cunits_toks flat_map app]. rewrite app_nil_r.
    eapply loops_stop; [apply skips_nil|apply ev_slash_cunit_stop; exact Hr].
  - cbn [cunits_text cunits_toks flat_map]. fold (cunits_text cs). fold (cunits_toks cs). norm_text.
    eapply loops_step; [apply skips_nil|apply ev_slash_cunit|]. cbn [app].
    replace (acc ++ TStr [47%N] :: TStr (cunit_text c) :: cunits_toks cs)
      with ((acc ++ [TStr [47%N]; TStr (cunit_text c)]) ++ cunits_toks cs) by (rewrite <- app_assoc; reflexivity).
    apply IH. exact Hr.
Qed.

Lemma concat_cunits cs : concat (flat_strs (cunits_toks cs)) = cunits_text cs.
Proof.
  induction cs as [|c cs IH]; [reflexivity|].
  change (cunits_toks (c :: cs)) with ([TStr [47%N]; TStr (cunit_text c)] ++ cunits_toks cs).
  unfold flat_strs. rewrite flat_map_app, concat_app. fold (flat_strs (cunits_toks cs)). rewrite IH.
  cbn [flat_map flat_tok app concat]. rewrite app_nil_r. reflexivity.
Qed.

(* Group [Combine [...]], node 157 *)
Lemma ev_runit full x cs t r : spre x = runit_text cs t ++ r -> nohead [77%N] r ->
  evals G full 157 true (At x) (POk (At r) [TList [TStr (runit_text cs t)]]).
Proof.
  intros Hx Hr. unfold runit_text in *. revert Hx. norm_text. intros Hx.
  assert (Hzm : evals G full 160 false (At (cunits_text cs ++ 47%N :: tunit_text t ++ r))
                  (POk (At (47%N :: tunit_text t ++ r)) (cunits_toks cs))).
  { destruct cs as [|c cs].
    - cbn [cunits_text cunits_toks flat_map app]. eapply evals_eq.
      + eapply evals_node_ok; [lk|cbn; reflexivity|].
        eapply (impls_many_none G full _ false); [reflexivity|reflexivity|]. apply ev_slash_cunit_stop. exact Hr.
      + reflexivity.
    - cbn [cunits_text cunits_toks flat_map]. fold (cunits_text cs). fold (cunits_toks cs). norm_text.
      eapply evals_eq.
      + eapply evals_node_ok; [lk|cbn; reflexivity|].
        eapply impls_many; [reflexivity|reflexivity|apply ev_slash_cunit|].
        cbn [nign]. apply (loops_cunits full cs t r _ Hr).
      + reflexivity. }
  eapply evals_eq.
  - eapply evals_node_ok; [lk|apply (pre_premise G full pil_c WS pil_comment_ok); repeat split|].
    unfold pre_pos. cbn [andb ncallpre]. rewrite Hx.
    eapply impls_wrap; [reflexivity|reflexivity|].
    eapply evals_node_ok; [lk|cbn; reflexivity|].
    eapply impls_wrap; [reflexivity|reflexivity|].
    eapply evals_node_ok; [lk|cbn; reflexivity|].
    eapply impls_and; [reflexivity|reflexivity|exact Hzm|].
    eapply seqs_cons.
    { eapply evals_eq; [apply (evals_lit_plain G full pil_c WS pil_comment_ok 169 true true); lk|].
      unfold lit_res. rewrite starts_with_cons_same. reflexivity. }
    eapply seqs_cons; [apply ev_tunit_plain|apply seqs_nil].
  - cbn [finish post nkind ntags add_tags fold_left]. unfold flat_strs.
    rewrite join_concat. unfold flat_strs. rewrite !flat_map_app, !concat_app.
    fold (flat_strs (cunits_toks cs)). rewrite concat_cunits.
    cbn [flat_map flat_tok concat app]. rewrite ?app_nil_r. norm_text. reflexivity.
Qed.

(* ---------------------------------------------------------------- the rate box *)
Record ibname := mkIbname { in_n0 : chr; in_ns : pstr; in_b1 : pstr; in_sg : chr; in_b2 : pstr }.
Inductive iberr := ErrNum (g : gnum) | ErrInf.
Definition INF : pstr := [105; 110; 102]%N.
Definition iberr_text (e : iberr) : pstr := match e with ErrNum g => gnum_text g | ErrInf => INF end.
Record infobox := mkInfobox {
  ib_name : option ibname; ib_rate : gnum; ib_err : option (pstr * pstr * iberr);
  ib_cunits : list cunit; ib_tunit : tunit;
  ib_b1 : pstr; ib_b2 : pstr; ib_b3 : pstr; ib_b4 : pstr }.
Definition ibname_text (o : option ibname) : pstr :=
  match o with Some nm => in_n0 nm :: in_ns nm ++ in_b1 nm ++ in_sg nm :: in_b2 nm | None => [] end.
Definition iberr_part (o : option (pstr * pstr * iberr)) : pstr :=
  match o with Some (b, b', e) => b ++ [43; 47; 45]%N ++ b' ++ iberr_text e | None => [] end.
(* the box without its leading blanks: [ ... ] *)
Definition infobox_body (i : infobox) : pstr :=
  91%N :: ib_b2 i ++ ibname_text (ib_name i) ++ gnum_text (ib_rate i) ++ iberr_part (ib_err i) ++
  ib_b3 i ++ runit_text (ib_cunits i) (ib_tunit i) ++ ib_b4 i ++ [93%N].
Definition infobox_text (i : infobox) : pstr := ib_b1 i ++ infobox_body i.
Definition infobox_ok (i : infobox) : Prop :=
  blanks WS (ib_b1 i) /\ blanks WS (ib_b2 i) /\ blanks WS (ib_b3 i) /\ blanks WS (ib_b4 i) /\ pgnum_ok (ib_rate i) /\
  match ib_name i with
  | Some nm => memc (in_n0 nm) idch = true /\ all_in idch (in_ns nm) /\ blanks WS (in_b1 nm) /\ blanks WS (in_b2 nm) /\
               (in_sg nm = 61%N \/ in_sg nm = 58%N)
  | None => True
  end /\
  match ib_err i with
  | Some (b, b', e) => blanks WS b /\ blanks WS b' /\ match e with ErrNum g => pgnum_ok g | ErrInf => True end
  | None => True
  end.
Definition infobox_toks (i : infobox) : list tok :=
  [TList match ib_name i with Some nm => [TStr (in_n0 nm :: in_ns nm)] | None => [] end;
   TList (TStr (gnum_text (ib_rate i)) :: match ib_err i with Some (_, _, e) => [TStr (iberr_text e)] | None => [] end);
   TList [TStr (runit_text (ib_cunits i) (ib_tunit i))]].

Lemma ev_infobox full i rest : infobox_ok i ->
  evals G full 121 false (At (infobox_body i ++ rest)) (POk (At rest) (infobox_toks i)).
Proof.
  intros (Hb1 & Hb2 & Hb3 & Hb4 & Hrate & Hname & Herr).
  unfold infobox_body. norm_text.
  set (U := ib_b3 i ++ runit_text (ib_cunits i) (ib_tunit i) ++ ib_b4 i ++ 93%N :: rest).
  assert (HU : spre U = runit_text (ib_cunits i) (ib_tunit i) ++ ib_b4 i ++ 93%N :: rest /\
               exists z, spre U = 47%N :: z).
  { unfold U. assert (Hh : exists z, runit_text (ib_cunits i) (ib_tunit i) ++ ib_b4 i ++ 93%N :: rest = 47%N :: z).
    { unfold runit_text. destruct (ib_cunits i); cbn; eexists; reflexivity. }
    destruct Hh as (z & Ez). rewrite Ez. rewrite spre_blanks_stop by (try exact Hb3; reflexivity). split; [reflexivity|eexists; reflexivity]. }
  destruct HU as (HU & (zU & HUz)).
  assert (HgoodU : good U /\ num_follow digit U).
  { unfold U, runit_text. destruct (ib_cunits i) as [|c0 cs0]; cbn [cunits_text flat_map app]; norm_text.
    - split; [apply good_blanks_stop; try exact Hb3; try reflexivity; discriminate|].
      apply nohead_blanks; [exact ws_not_numfollow|exact Hb3|reflexivity].
    - split; [apply good_blanks_stop; try exact Hb3; try reflexivity; discriminate|].
      apply nohead_blanks; [exact ws_not_numfollow|exact Hb3|reflexivity]. }
  destruct HgoodU as (HgoodU & HfolU).
  set (R := iberr_part (ib_err i) ++ U).
  assert (HR : good R /\ num_follow digit R).
  { unfold R. destruct (ib_err i) as [[[b b'] e]|]; cbn [iberr_part app]; [|split; assumption].
    destruct Herr as (Hb & _). norm_text. split.
    - apply good_blanks_stop; try exact Hb; try reflexivity; discriminate.
    - apply nohead_blanks; [exact ws_not_numfollow|exact Hb|reflexivity]. }
  destruct HR as (HgoodR & HfolR).
  assert (Hrate_head : forall bb, blanks WS bb -> spre (bb ++ gnum_text (ib_rate i) ++ R) = gnum_text (ib_rate i) ++ R).
  { intros bb Hbb. unfold gnum_text. norm_text. apply spre_blanks_stop; [exact Hbb|apply pgnum_head; exact Hrate]. }
  (* the optional name *)
  assert (Hname' : exists q, spre q = gnum_text (ib_rate i) ++ R /\
            evals G full 124 true (At (ib_b2 i ++ ibname_text (ib_name i) ++ gnum_text (ib_rate i) ++ R))
              (POk (At q) [TList match ib_name i with Some nm => [TStr (in_n0 nm :: in_ns nm)] | None => [] end])).
  { destruct (ib_name i) as [nm|]; cbn [ibname_text app].
    - destruct Hname as (Hn0 & Hns & Hnb1 & Hnb2 & Hsg).
      exists (in_b2 nm ++ gnum_text (ib_rate i) ++ R). split; [apply Hrate_head; exact Hnb2|]. norm_text.
      eapply evals_eq.
      + eapply evals_node_ok; [lk|apply (pre_premise G full pil_c WS pil_comment_ok); repeat split|].
        unfold pre_pos. cbn [andb ncallpre]. rewrite spre_blanks_stop by (try exact Hb2; apply idch_stop; exact Hn0).
        eapply impls_wrap; [reflexivity|reflexivity|].
        eapply evals_node_ok; [lk|cbn; reflexivity|].
        eapply impls_opt_some; [reflexivity|reflexivity|].
        eapply evals_node_ok; [lk|cbn; reflexivity|].
        eapply impls_and; [reflexivity|reflexivity| |].
        * apply (ev_ident full false _ (in_n0 nm) (in_ns nm) _ eq_refl Hn0 Hns).
          apply nohead_blanks; [vm_compute; reflexivity|exact Hnb1|]. destruct Hsg as [-> | ->]; reflexivity.
        * eapply seqs_cons; [|apply seqs_nil].
          eapply (ev_assign full 127 true _ (in_sg nm)); [lk| |exact Hsg].
          apply spre_blanks_stop; [exact Hnb1|destruct Hsg as [-> | ->]; reflexivity].
      + reflexivity.
    - exists (gnum_text (ib_rate i) ++ R). split; [apply (Hrate_head [] eq_refl)|].
      eapply evals_eq.
      + eapply evals_node_ok; [lk|apply (pre_premise G full pil_c WS pil_comment_ok); repeat split|].
        unfold pre_pos. cbn [andb ncallpre]. rewrite (Hrate_head _ Hb2).
        eapply impls_wrap; [reflexivity|reflexivity|].
        eapply evals_node_ok; [lk|cbn; reflexivity|].
        eapply impls_opt_none; [reflexivity|reflexivity|].
        apply (number_not_named full (ib_rate i) R Hrate HgoodR).
      + reflexivity. }
  destruct Hname' as (q & Hq & Hnm).
  (* the optional error *)
  assert (Herr' : exists q2, spre q2 = spre U /\
            evals G full 151 true (At R) (POk (At q2) match ib_err i with Some (_, _, e) => [TStr (iberr_text e)] | None => [] end)).
  { destruct (ib_err i) as [[[b b'] e]|] eqn:Eerr.
    - destruct Herr as (Hb & Hb' & He). exists U. split; [reflexivity|].
      assert (ER : R = b ++ 43%N :: 47%N :: 45%N :: b' ++ iberr_text e ++ U)
        by (unfold R; try rewrite Eerr; cbn [iberr_part]; norm_text; reflexivity).
      rewrite ER.
      eapply evals_eq.
      + eapply evals_node_ok; [lk|apply (pre_premise G full pil_c WS pil_comment_ok); repeat split|].
        unfold pre_pos. cbn [andb ncallpre]. rewrite spre_blanks_stop by (try exact Hb; reflexivity).
        eapply impls_opt_some; [reflexivity|reflexivity|].
        eapply evals_node_ok; [lk|cbn; reflexivity|].
        eapply impls_and; [reflexivity|reflexivity| |].
        * eapply evals_eq; [apply (evals_slit G full pil_c WS pil_comment_ok 153 154 false true true); lk|].
          cbn [andb]. unfold lit_res. rewrite !starts_with_cons_same. reflexivity.
        * eapply seqs_cons; [|apply seqs_nil].
          eapply evals_node_ok; [lk|cbn; reflexivity|]. apply impls_first; [reflexivity|]. cbn [nkids].
          instantiate (1 := [TStr (iberr_text e)]). instantiate (1 := At U).
          destruct e as [g|]; cbn [iberr_text].
          -- apply (pil_firsts_gorf full [156] _ g U); [|exact He|exact HfolU].
             unfold gnum_text. norm_text. apply spre_blanks_stop; [exact Hb'|apply pgnum_head; exact He].
          -- assert (Hi : spre (b' ++ INF ++ U) = INF ++ U) by (unfold INF; cbn [app]; apply spre_blanks_stop; [exact Hb'|reflexivity]).
             destruct (firsts_gorf_fail G full pil_c WS pil_comment_ok digit 131 132 133 134 138 139 143 144 145 146 147
                         ltac:(lk') ltac:(lk') ltac:(lk') ltac:(lk') ltac:(lk') ltac:(lk') (b' ++ INF ++ U)
                         ltac:(rewrite Hi; reflexivity)) as (F1 & F2).
             eapply firsts_miss; [exact F1|]. eapply firsts_miss; [exact F2|]. apply firsts_hit.
             eapply evals_eq; [apply (evals_lit G full pil_c WS pil_comment_ok 156 true true); lk|].
             cbn [andb]. rewrite Hi. unfold lit_res. rewrite starts_with_app. reflexivity.
      + reflexivity.
    - exists (spre U). split; [apply spre_idem|].
      assert (ER : R = U) by (unfold R; try rewrite Eerr; reflexivity). rewrite ER.
      eapply evals_eq.
      + eapply evals_node_ok; [lk|apply (pre_premise G full pil_c WS pil_comment_ok); repeat split|].
        unfold pre_pos. cbn [andb ncallpre].
        eapply impls_opt_none; [reflexivity|reflexivity|].
        eapply evals_node_fail; [lk|cbn; reflexivity|].
        eapply impls_and_fail; [reflexivity|reflexivity|].
        eapply evals_eq; [apply (evals_slit G full pil_c WS pil_comment_ok 153 154 false true true); lk|].
        cbn [andb]. rewrite ?ER, HUz. reflexivity.
      + reflexivity. }
  destruct Herr' as (q2 & Hq2 & Her).
  eapply evals_eq.
  - eapply evals_node_ok; [lk|cbn; reflexivity|].
    eapply impls_and; [reflexivity|reflexivity| |].
    + eapply evals_eq; [apply (evals_slit G full pil_c WS pil_comment_ok 122 123 false true true); lk|].
      cbn [andb]. unfold lit_res. rewrite starts_with_cons_same. reflexivity.
    + eapply seqs_cons; [exact Hnm|].
      eapply seqs_cons.
      { (* Group [And [gorf; Opt error]] *)
        eapply evals_eq.
        - eapply evals_node_ok; [lk|apply (pre_premise G full pil_c WS pil_comment_ok); repeat split|].
          unfold pre_pos. cbn [andb ncallpre]. rewrite Hq.
          eapply impls_wrap; [reflexivity|reflexivity|].
          eapply evals_node_ok; [lk|cbn; reflexivity|].
          eapply impls_and; [reflexivity|reflexivity| |].
          + eapply evals_node_ok; [lk|cbn; reflexivity|]. apply impls_first; [reflexivity|]. cbn [nkids].
            apply (pil_firsts_gorf full [] _ (ib_rate i) R); [apply (Hrate_head [] eq_refl)|exact Hrate|exact HfolR].
          + eapply seqs_cons; [exact Her|apply seqs_nil].
        - reflexivity. }
      eapply seqs_cons.
      { apply (ev_runit full q2 (ib_cunits i) (ib_tunit i) (ib_b4 i ++ 93%N :: rest)).
        - rewrite Hq2. exact HU.
        - apply nohead_blanks; [vm_compute; reflexivity|exact Hb4|reflexivity]. }
      eapply seqs_cons; [|apply seqs_nil].
      eapply evals_eq; [apply (evals_slit G full pil_c WS pil_comment_ok 174 175 true true true); lk|].
      cbn [andb]. rewrite spre_blanks_stop by (try exact Hb4; reflexivity).
      unfold lit_res. rewrite starts_with_cons_same. reflexivity.
  - unfold infobox_toks. cbn. destruct (ib_err i) as [[[b b'] e]|]; reflexivity.
Qed.

(* ---------------------------------------------------------------- the reaction statement with a rate box *)
Definition rxi_render (s : rx_stmt) (y : rx_layout) (i : infobox) : pstr :=
  rxkw_text (rx_kw s) ++ infobox_text i ++ rx_b1 y ++ rx_species_text s y [].
Definition rxi_tree (s : rx_stmt) (i : infobox) : tok :=
  TList [TStr tag_rx; TList (infobox_toks i); TList (names_toks (rx_r0 s) (rx_rs0 s) (rx_reactants s));
         TList (names_toks (rx_p0 s) (rx_ps0 s) (rx_products s))].

Lemma rx_species_text_app s y a k : rx_species_text s y a ++ k = rx_species_text s y (a ++ k).
Proof. unfold rx_species_text. norm_text. rewrite !members_text_app. norm_text. rewrite !members_text_app. reflexivity. Qed.

Lemma seqs_rxi_tail full g1 o1 g2 sa la g3 m sl le s y i E k :
  nth_error G g1 = Some (mkNode KGroup [o1] true WS [pil_c] true []) ->
  nth_error G o1 = Some (mkNode KOpt [121] true WS [pil_c] true []) ->
  nth_error G g2 = Some (mkNode KGroup [177] true WS [pil_c] true []) ->
  nth_error G sa = Some (mkNode KSuppress [la] true WS [pil_c] true []) ->
  nth_error G la = Some (mkNode (KLit ARROW) [] true WS [pil_c] true []) ->
  nth_error G g3 = Some (mkNode KGroup [177] true WS [pil_c] true []) ->
  nth_error G m = Some (mkNode (KMany true) [sl] true WS [pil_c] true []) ->
  nth_error G sl = Some (mkNode KSuppress [le] true WS [pil_c] true []) ->
  (exists cpl, nth_error G le = Some (mkNode KLineEnd [] true WS [pil_c] cpl [])) ->
  rx_stmt_ok s -> rx_layout_ok y -> infobox_ok i -> stmt_end E k ->
  seqs G full [g1; g2; sa; g3; m] (At (infobox_text i ++ rx_b1 y ++ rx_species_text s y (E ++ k))) []
    (POk (after WS k) [TList (infobox_toks i); TList (names_toks (rx_r0 s) (rx_rs0 s) (rx_reactants s));
                       TList (names_toks (rx_p0 s) (rx_ps0 s) (rx_products s))]).
Proof.
  intros Hg1 Ho1 Hg2 Hsa Hla Hg3 Hm Hsl Hle Hs Hy Hi Hk.
  pose proof Hs as (Hr0 & _). pose proof Hy as (Hb1 & _). pose proof Hi as (Hib1 & _).
  unfold infobox_text. rewrite <- app_assoc.
  eapply seqs_cons.
  { eapply evals_eq.
    - eapply evals_node_ok; [exact Hg1|apply (pre_premise G full pil_c WS pil_comment_ok); repeat split|].
      unfold pre_pos. cbn [andb ncallpre].
      assert (Hp : spre (ib_b1 i ++ infobox_body i ++ rx_b1 y ++ rx_species_text s y (E ++ k))
                   = infobox_body i ++ rx_b1 y ++ rx_species_text s y (E ++ k)).
      { unfold infobox_body. cbn [app]. apply spre_blanks_stop; [exact Hib1|reflexivity]. }
      rewrite Hp.
      eapply impls_wrap; [reflexivity|reflexivity|].
      eapply evals_node_ok; [exact Ho1|cbn; reflexivity|].
      eapply impls_opt_some; [reflexivity|reflexivity|].
      apply (ev_infobox full i _ Hi).
    - reflexivity. }
  apply (seqs_rx_species full g2 sa la g3 m sl le s y E k _ [TList (infobox_toks i)]); try assumption.
  unfold rx_species_text. apply spre_blanks_stop; [exact Hb1|apply idch_stop; exact Hr0].
Qed.

Theorem roundtrip_reaction_infobox s y i :
  rx_stmt_ok s -> rx_layout_ok y -> infobox_ok i -> pil_body_ok (rxi_render s y i) [rxi_tree s i].
Proof.
  intros Hs Hy Hi full b E k Hb Hk. unfold rxi_render. rewrite <- !app_assoc. rewrite rx_species_text_app. cbn [app].
  eapply evals_eq.
  - eapply evals_node_ok; [lk|cbn; reflexivity|]. apply impls_first; [reflexivity|]. cbn [nkids].
    destruct (rx_kw s) eqn:Ekw; cbn [rxkw_text app].
    + eapply firsts_miss; [kwfail 9 10 11 12 Hb|].
      eapply firsts_miss; [kwfail 30 31 32 33 Hb|].
      eapply firsts_miss; [kwfail 41 42 43 44 Hb|].
      eapply firsts_miss; [kwfail 49 50 51 52 Hb|].
      eapply firsts_miss; [kwfail 57 58 59 60 Hb|].
      eapply firsts_miss; [kwfail 71 72 73 74 Hb|].
      eapply firsts_miss; [kwfail 84 85 86 87 Hb|].
      eapply firsts_miss; [kwfail 101 102 103 104 Hb|].
      apply firsts_hit.
      eapply (evals_kw_alt_ok G full pil_c WS pil_comment_ok 115 116 117 118); [lk|lk|lk|lk| |].
      { rewrite spre_blanks_stop by (try exact Hb; reflexivity). cbn. reflexivity. }
      apply (seqs_rxi_tail full 119 120 176 183 184 185 186 187 188 s y i E k); try lk; try (eexists; lk); assumption.
    + eapply firsts_miss; [kwfail 9 10 11 12 Hb|].
      eapply firsts_miss; [kwfail 30 31 32 33 Hb|].
      eapply firsts_miss; [kwfail 41 42 43 44 Hb|].
      eapply firsts_miss; [kwfail 49 50 51 52 Hb|].
      eapply firsts_miss; [kwfail 57 58 59 60 Hb|].
      eapply firsts_miss; [kwfail 71 72 73 74 Hb|].
      eapply firsts_miss; [kwfail 84 85 86 87 Hb|].
      eapply firsts_miss; [kwfail 101 102 103 104 Hb|].
      eapply firsts_miss; [kwfail 115 116 117 118 Hb|].
      apply firsts_hit.
      eapply (evals_kw_alt_ok G full pil_c WS pil_comment_ok 189 190 191 192); [lk|lk|lk|lk| |].
      { rewrite spre_blanks_stop by (try exact Hb; reflexivity). cbn. reflexivity. }
      apply (seqs_rxi_tail full 193 194 195 196 197 198 199 200 201 s y i E k); try lk; try (eexists; lk); assumption.
  - unfold rxi_tree. destruct (rx_kw s); reflexivity.
Qed.

Theorem roundtrip_reaction_infobox_parse s y i b E :
  rx_stmt_ok s -> rx_layout_ok y -> infobox_ok i -> blanks WS b -> stmt_end E [] ->
  no_tab (b ++ rxi_render s y i ++ E) ->
  exists f0, forall f, f0 <= f -> parse_pil_fuel f (b ++ rxi_render s y i ++ E) = vals [rxi_tree s i].
Proof.
  intros Hs Hy Hi Hb HE Hnt. apply pil_statement_parse; try assumption.
  - unfold rxi_render. destruct (rx_kw s); cbn; repeat split; reflexivity.
  - apply roundtrip_reaction_infobox; assumption.
Qed.

(* non-vacuity: `reaction [k1 = 1.41e+07 +/- inf /M/s] A + B -> A_B` *)
Example rxi_example :
  let s := mkRx KwReaction 65%N [] [mkMember [32%N] [32%N] 66%N []] 65%N [95; 66]%N [] in
  let y := mkRxLayout [32%N] [32%N] [32%N] in
  let i := mkInfobox (Some (mkIbname 107%N [49%N] [32%N] 61%N [32; 32]%N))
             (mkGnum 49%N [] (Some (52%N, [49%N])) (Some (Some 43%N, 48%N, [55%N])))
             (Some ([32%N], [32%N], ErrInf)) [UM] Us [32%N] [] [32%N] [] in
  infobox_ok i /\ parse_pil (rxi_render s y i ++ [NL]) = vals [rxi_tree s i].
Proof.
  cbn zeta. split; [|vm_compute; reflexivity].
  unfold infobox_ok, gnum_ok. cbn. repeat split; try reflexivity; auto.
Qed.
