(* Reader model, C14: a consistent system is never refused.
   Part 6: Domain(name) for a declared domain; reading a `strand` / `sup-sequence` statement. *)
From Coq Require Import List NArith ZArith Bool Arith Lia.
From DSD Require Import Base.Str Base.Errors Model.ComplexUtils Model.RegStr Model.ReaderStr Model.PyNum
  Model.Peg Model.Kernel Model.DispatchKernel Model.Heap Model.Registry Model.Reader Model.ReaderShape Model.ReaderConsistent
  Proofs.RegHeap Proofs.RegInv Proofs.RegCalls Proofs.RegExt Proofs.ReaderBasic Proofs.ReaderStmt Proofs.ReaderHeap
  Proofs.ReaderInv Proofs.ReaderHoare Proofs.ReaderNoFault Proofs.ReaderThms Proofs.ReaderBuilds Proofs.ReaderKernel
  Proofs.ReaderMore Proofs.ReaderSys Proofs.ReaderSysA Proofs.ReaderSysB Proofs.ReaderSysD.
From DSD Require Model.Iupac.
Import ListNotations.

Lemma forall_exists_forall2 {A B} (R : A -> B -> Prop) xs :
  Forall (fun x => exists y, R x y) xs -> exists ys, Forall2 R xs ys.
Proof.
  induction 1 as [|x xs [y Hy] _ [ys IH]]; [exists []; constructor|]. exists (y :: ys). constructor; assumption.
Qed.

Lemma forall2_length {A B} (R : A -> B -> Prop) xs ys : Forall2 R xs ys -> length xs = length ys.
Proof. induction 1; cbn; congruence. Qed.

Lemma elem_ids_combine (ds : list pstr) (ids : list nat) :
  length ds = length ids -> elem_ids (combine ds (map Some ids)) = ids.
Proof.
  revert ids. induction ds as [|d ds IH]; intros [|i ids] L; cbn in *; try lia; [reflexivity|].
  f_equal. apply IH. lia.
Qed.
Lemma map_fst_combine {A B} (a : list A) (b : list B) : length a = length b -> map fst (combine a b) = a.
Proof. revert b. induction a as [|x a IH]; intros [|y b] L; cbn in *; try lia; [reflexivity|]. f_equal. apply IH. lia. Qed.
Lemma map_snd_combine {A B} (a : list A) (b : list B) : length a = length b -> map snd (combine a b) = b.
Proof. revert b. induction a as [|x a IH]; intros [|y b] L; cbn in *; try lia; [reflexivity|]. f_equal. apply IH. lia. Qed.

Section StepStrand.
  Variable ct : ctable.
  Variables cd cs cc cm cr : nat.
  Hypothesis CO : cfg_okb ct cd cs cc cm cr = true.
  Hypothesis PL : forall c, In c [cd; cs; cc; cm; cr] -> exists ci, nth_error ct c = Some ci /\ c_fail ci = FNone.
  Notation G := (g cd cs cc cm cr).
  Notation cls_of := (cls_of cd cs cc cm cr).
  Notation Core := (Core cd cs cc cm cr ct).
  Notation SInv := (SInv cd cs cc cm cr ct).
  Notation Built := (Built cd cs cc cm cr).
  Notation dobj := (dobj cd).

  (* what Domain(d) needs to find the domain d *)
  Definition DomReg (st : state) (d : pstr) (j : nat) : Prop :=
    (starred d = false /\ nonempty d = true /\ nlookup d (cs_names (cget st cd)) = Some j) \/
    (exists x i0 l, d = star x /\ starred x = false /\ nonempty x = true /\
       nlookup x (cs_names (cget st cd)) = Some i0 /\ obj_length (heap st) i0 = Ok l /\
       nlookup (star x) (cs_names (cget st cd)) = Some j /\
       klookup (KDom (star x) l) (cs_canon (cget st cd)) = Some j).

  Lemma domreg_hold st i d j : DomReg st d j -> DomReg (hold st i) d j.
  Proof. intros H. exact H. Qed.

  Lemma domreg_reg st d j : DomReg st d j -> nlookup d (cs_names (cget st cd)) = Some j.
  Proof. intros [[_ [_ H]]|[x [i0 [l [-> [_ [_ [_ [_ [H _]]]]]]]]]]; exact H. Qed.

  Lemma dbn_exact r d j :
    SOK ct (r_st r) -> DomReg (r_st r) d j ->
    domain_by_name ct G d r = (with_st r (hold (r_st r) j), Ok j) /\ is_live (heap (r_st r)) j = true.
  Proof.
    intros OK H. destruct (PL cd) as [ci [Hci Hf]]; [cbn; auto|].
    assert (Hlt : cd < length ct) by (apply nth_error_Some; congruence).
    split.
    - unfold domain_by_name. cbn [gD g slot]. rewrite bind_ret. unfold call.
      destruct H as [[Hs [Hne Hn]]|[x [i0 [l [-> [Hs [Hne [Hx [Hl [Hn Hk]]]]]]]]]].
      + change dom_fuel with (S 7). rewrite (dom_lookup_unstarred ct cd ci Hci 7 (r_st r) d Hs Hne), Hn. reflexivity.
      + change dom_fuel with (S (S 6)). unfold star.
        rewrite <- (collect_id ct _ OK) in Hn, Hk.
        rewrite (dom_lookup_starred ct cd ci Hci 6 (r_st r) x i0 l j (proj1 OK) Hs Hne Hx Hl Hn Hk).
        rewrite (collect_id ct _ OK). reflexivity.
    - apply domreg_reg in H. destruct (reg_live ct _ cd d j (proj1 OK) Hlt H) as [o [Ho [Hl _]]].
      unfold is_live. rewrite Ho. exact Hl.
  Qed.

  (* the two objects of a declared domain *)
  Lemma dom_pair prev r acc x l :
    SInv prev r acc -> In (x, l) (decl_doms prev) ->
    exists i j, dlookup x (po_domains acc) = Some i /\ dlookup (star x) (po_domains acc) = Some j /\
      hget (heap (r_st r)) i = Some (dobj x l) /\ hget (heap (r_st r)) j = Some (dobj (star x) l).
  Proof.
    intros [C B] Hin. apply decl_doms_in in Hin. destruct Hin as [Hin|[sq [chk [Hin ->]]]].
    - destruct (B _ Hin) as [i [j [H1 [H2 [H3 [H4 _]]]]]]. eauto 10.
    - destruct (B _ Hin) as [i [j [sq' [H1 [H2 [H3 [H4 _]]]]]]]. eauto 10.
  Qed.

  Lemma dom_lookup_facts prev r acc d :
    SInv prev r acc -> In d (declared KindD prev) ->
    exists j l, dlookup d (po_domains acc) = Some j /\ hget (heap (r_st r)) j = Some (dobj d l) /\
                DomReg (r_st r) d j.
  Proof.
    intros SI Hd. pose proof SI as [C B]. apply declared_dom_in in Hd. destruct Hd as [x [Hx Hd]].
    apply in_map_iff in Hx. destruct Hx as [[x0 l] [E Hx]]. cbn in E. subst x0.
    destruct (dom_pair prev r acc x l SI Hx) as [i [j [H1 [H2 [H3 H4]]]]].
    destruct (si_decl _ _ _ _ _ _ _ _ _ C x l Hx) as [Us [Ne [Hl _]]].
    pose proof (si_reg _ _ _ _ _ _ _ _ _ C KindD ltac:(discriminate)) as RegD. cbn [cls_of ReaderSysA.cls_of dict_of] in RegD.
    pose proof (proj1 (si_sok _ _ _ _ _ _ _ _ _ C)) as I.
    destruct Hd as [->| ->].
    - exists i, l. split; [exact H1|]. split; [exact H3|]. left. rewrite RegD. auto.
    - exists j, l. split; [exact H2|]. split; [exact H4|]. right. exists x, i, l.
      split; [reflexivity|]. split; [exact Us|]. split; [exact Ne|]. split; [rewrite RegD; exact H1|].
      split; [unfold obj_length; rewrite H3; reflexivity|].
      split; [rewrite RegD; exact H2|].
      destruct (live_reg ct _ j _ I H4 eq_refl) as [_ K]. exact K.
  Qed.

  (* a filed strand: its declaration and its object *)
  Lemma strand_decl_heap prev r acc s j :
    SInv prev r acc -> dlookup s (po_strands acc) = Some j ->
    exists ds ids, assoc s (decl_strands prev) = Some ds /\ nonempty s = true /\
      Forall2 (fun d i => dlookup d (po_domains acc) = Some i) ds ids /\
      hget (heap (r_st r)) j = Some (strand_obj cs s ds ids).
  Proof.
    intros [C B] Hs. pose proof (dlookup_in_keys _ _ _ Hs) as Hk. apply (si_keys _ _ _ _ _ _ _ _ _ C KindS) in Hk.
    cbn [declared] in Hk. destruct (assoc_some s _ Hk) as [ds Ea]. pose proof (assoc_in _ _ _ Ea) as Hin.
    apply decl_strands_in in Hin. destruct (B _ Hin) as [i [ids [D1 [Hne [_ [D2 D3]]]]]].
    rewrite Hs in D1. injection D1 as <-. exists ds, ids. auto.
  Qed.

  (* Strand(sequence, name = n) for a new name and a new sequence of domain objects *)
  Lemma strand_new_exact st es n :
    (forall e, In e es -> snd e <> None) -> nonempty n = true ->
    nlookup n (cs_names (cget st cs)) = None ->
    klookup (KCplx (map fst es, map (fun _ : elem => Registry.cStar) es)) (cs_canon (cget st cs)) = None ->
    strand_call ct cs st (Some es) (Some n) None =
      (mk_new st cs n (KCplx (map fst es, map (fun _ : elem => Registry.cStar) es)) [] (elem_ids es) (DStrand es),
       CRet (length (heap st)) true).
  Proof.
    intros Hes Hne Hn Hk. destruct (PL cs) as [ci [Hci Hf]]; [cbn; auto|].
    unfold strand_call. rewrite Hci.
    assert (Ep : existsb is_plus es = false).
    { destruct (existsb is_plus es) eqn:E; [|reflexivity]. apply existsb_exists in E. destruct E as [e [He Hp]].
      unfold is_plus in Hp. specialize (Hes e He). destruct (snd e); [discriminate | congruence]. }
    rewrite Ep. cbn [resolve_name]. cbv zeta. unfold sing_lookup. rewrite Hne, Hn, Hk.
    apply (create_new ct st cs ci); assumption.
  Qed.

  Theorem step_strand prev r acc line n ds :
    SInv prev r acc -> decode line = Ok (SComp n ds) ->
    nonempty n = true -> starred n = false ->
    ~ In n (map fst (decl_strands prev)) -> ~ In ds (map snd (decl_strands prev)) ->
    Forall (fun d => In d (declared KindD prev)) ds ->
    exists r' i, (forall accR, read_one ct G None (TList line) accR r = (r', Ok (apply_delta (FKind KindS n i) accR))) /\
      SInv (prev ++ [SComp n ds]) r' (apply_delta (FKind KindS n i) acc) /\
      Later r acc r' (apply_delta (FKind KindS n i) acc).
  Proof.
    intros SI Hdec Hne Hust Hnew Hseq Hds. pose proof SI as [C B].
    set (st := r_st r). set (i := length (heap st)).
    pose proof (si_sok _ _ _ _ _ _ _ _ _ C) as OK. pose proof (proj1 OK) as I.
    assert (Hcs : cs < length ct) by apply (cls_of_lt ct cd cs cc cm cr CO KindS).
    (* the domains *)
    assert (Hex : exists ids, Forall2 (fun d j => dlookup d (po_domains acc) = Some j /\
                     (exists l, hget (heap st) j = Some (dobj d l)) /\ DomReg st d j) ds ids).
    { apply forall_exists_forall2. eapply Forall_impl; [|exact Hds]. cbn. intros d Hd.
      destruct (dom_lookup_facts prev r acc d SI Hd) as [j [l [H1 [H2 H3]]]]. exists j. eauto. }
    destruct Hex as [ids F].
    assert (Len : length ds = length ids) by (eapply forall2_length; eauto).
    assert (F1 : Forall2 (DomReg (r_st r)) ds ids).
    { eapply Forall2_impl'; [|exact F]. cbn. tauto. }
    destruct (mapM_lookup ct (domain_by_name ct G) DomReg domreg_hold dbn_exact ds ids r OK F1) as [Em Lv].
    fold st in Em.
    pose (es := (combine ds (map Some ids) : list elem)).
    assert (Ees : map (elem_of (holds st ids)) ids = es).
    { unfold es. clear -F. induction F as [|d j ds ids [_ [[l Hj] _]] F IH]; [reflexivity|].
      cbn [map combine]. f_equal; [|exact IH]. unfold elem_of, oname, obj_name.
      change (heap (holds st (j :: ids))) with (heap st). rewrite Hj. reflexivity. }
    assert (Hf1 : map fst es = ds) by (apply map_fst_combine; rewrite map_length; exact Len).
    assert (Hids : elem_ids es = ids) by (apply elem_ids_combine; exact Len).
    assert (Hst : map (fun _ : elem => Registry.cStar) es = map (fun _ : pstr => Registry.cStar) ds).
    { rewrite <- Hf1. rewrite map_map. reflexivity. }
    (* the name and the sequence are new *)
    pose proof (si_reg _ _ _ _ _ _ _ _ _ C KindS ltac:(discriminate)) as RegS. cbn [cls_of ReaderSysA.cls_of dict_of] in RegS.
    assert (Nn : nlookup n (cs_names (cget st cs)) = None).
    { unfold st. rewrite RegS. apply dlookup_notin. intros Hin.
      apply (si_keys _ _ _ _ _ _ _ _ _ C KindS) in Hin. contradiction. }
    assert (Kn : klookup (KCplx (ds, map (fun _ => Registry.cStar) ds)) (cs_canon (cget st cs)) = None).
    { destruct (klookup _ (cs_canon (cget st cs))) as [j|] eqn:E; [|reflexivity]. exfalso.
      destruct (kreg_live ct _ cs _ j I Hcs E) as [o [Ho [Hl [Hc Hk]]]].
      destruct (live_reg ct _ j o I Ho Hl) as [N1 _]. rewrite Hc in N1. fold st in RegS. rewrite RegS in N1.
      pose proof (dlookup_in_keys _ _ _ N1) as Hin. apply (si_keys _ _ _ _ _ _ _ _ _ C KindS) in Hin.
      cbn [declared] in Hin. apply in_map_iff in Hin. destruct Hin as [[n' ds'] [En Hin]]. cbn in En.
      pose proof Hin as Hin2. apply decl_strands_in in Hin2. destruct (B _ Hin2) as [i' [ids' [D1 [_ [_ [_ D3]]]]]].
      rewrite En, N1 in D1. injection D1 as <-. pose proof (eq_trans (eq_sym Ho) D3) as Eo. injection Eo as ->.
      cbn [o_keys new_obj] in Hk. destruct Hk as [Hk|[]]. injection Hk as Hk _.
      apply Hseq. apply in_map_iff. exists (n', ds'). split; [exact Hk | exact Hin]. }
    (* read_pil_line *)
    assert (Ex : exec_stmt ct G line (SComp n ds) r =
                 (mkR (hold (mk_new (holds st ids) (cls_of KindS) n (KCplx (ds, map (fun _ => Registry.cStar) ds)) []
                                    ids (DStrand es)) i) (r_seq r) (r_conc r) (r_rate r), Ok (RObj i))).
    { cbn [exec_stmt]. rewrite (bind_ok _ _ _ _ _ Em). cbn [gS g slot]. rewrite bind_ret.
      rewrite (bind_ok get_state _ _ _ _ eq_refl). cbn [r_st with_st]. rewrite Ees.
      assert (Ec : strand_call ct cs (holds st ids) (Some es) (Some n) None =
                   (mk_new (holds st ids) cs n (KCplx (ds, map (fun _ => Registry.cStar) ds)) [] ids (DStrand es),
                    CRet i true)).
      { assert (Ec0 := strand_new_exact (holds st ids) es n).
        rewrite Hf1, Hst, Hids in Ec0. apply Ec0.
        - intros [e1 e2] He. unfold es in He. apply in_combine_r in He. apply in_map_iff in He.
          destruct He as [j [<- _]]. discriminate.
        - exact Hne.
        - exact Nn.
        - exact Kn. }
      unfold bind at 1. unfold call. cbn [r_st with_st]. rewrite Ec. reflexivity. }
    destruct (step_single ct cd cs cc cm cr CO prev r acc line (SComp n ds) KindS n
                (KCplx (ds, map (fun _ => Registry.cStar) ds)) [] ids (DStrand es) ids (r_conc r)
                SI Hdec ltac:(cbn; auto) Ex) as [E3 [SI' L']].
    - split; [exact Nn|]. split; [exact Kn|]. intros k' [].
    - exact Lv.
    - exact Logic.I.
    - intros k' n0 Hn0. destruct k'; cbn in Hn0; try tauto. destruct Hn0 as [<-|[]]. auto.
    - cbn. auto.
    - reflexivity.
    - reflexivity.
    - reflexivity.
    - intros C' L'. cbn [Built ReaderSysA.Built]. exists i, ids. split; [|split; [exact Hne|split; [exact Hust|split]]].
      + cbn [po_strands with_dict with_strands dict_of]. rewrite dlookup_dset, (proj2 (str_eqb_iff n n) eq_refl). reflexivity.
      + eapply Forall2_impl'; [|exact F]. cbn. tauto.
      + cbn [r_st hold heap]. rewrite heap_mk_new. apply hget_new.
    - intros n0 names0 sst0 [].
    - eexists. eexists. split; [exact E3 | split; [exact SI' | exact L']].
  Qed.
End StepStrand.
