(* C13: round trip of the domain-length statement
     (length | domain | sequence) NAME[*] (=|:) (DIGITS | short | long)
   for all names, numbers and layouts. *)
From Coq Require Import List NArith Bool Arith Lia.
From DSD Require Import Base.Str Base.Val Model.Peg Model.DispatchPeg Proofs.PegMono Proofs.PegRules Proofs.PegStd Proofs.PegDoc
  Proofs.PegKw Proofs.C13Doc Proofs.PilLex.
From DSDGen Require Import PilGrammar.
Import ListNotations.

Inductive dlkw := KwLength | KwDomain | KwSequence.
Definition dlkw_text (k : dlkw) : pstr :=
  match k with
  | KwLength => [108; 101; 110; 103; 116; 104]%N
  | KwDomain => [100; 111; 109; 97; 105; 110]%N
  | KwSequence => [115; 101; 113; 117; 101; 110; 99; 101]%N
  end.
Definition tag_dl : pstr := [100; 108; 45; 100; 111; 109; 97; 105; 110]%N.   (* dl-domain *)

(* layout: blanks after the keyword and around the assignment sign, the sign *)
Record dl_layout := mkDlLayout { dl_b1 : pstr; dl_b2 : pstr; dl_sgn : chr; dl_b3 : pstr }.
Definition dl_layout_ok (y : dl_layout) : Prop :=
  blanks WS (dl_b1 y) /\ blanks WS (dl_b2 y) /\ blanks WS (dl_b3 y) /\
  (dl_sgn y = 61%N \/ dl_sgn y = 58%N).

Record dl_stmt := mkDl { dl_kw : dlkw; dl_n0 : chr; dl_ns : pstr; dl_star : bool; dl_len : dlen }.
Definition dl_name (s : dl_stmt) : pstr := dl_n0 s :: dl_ns s ++ star_s (dl_star s).
Definition dl_stmt_ok (s : dl_stmt) : Prop :=
  memc (dl_n0 s) idch = true /\ all_in idch (dl_ns s) /\
  match dl_len s with DNum d0 ds => memc d0 digit = true /\ all_in digit ds | _ => dl_kw s <> KwSequence end.

Definition dl_render (s : dl_stmt) (y : dl_layout) : pstr :=
  dlkw_text (dl_kw s) ++ dl_b1 y ++ dl_name s ++ dl_b2 y ++ dl_sgn y :: dl_b3 y ++ dlen_text (dl_len s).
Definition dl_tree (s : dl_stmt) : tok :=
  TList [TStr tag_dl; TStr (dl_name s); TStr (dlen_text (dl_len s))].

Lemma ws_not_idch : forallb (fun w => negb (memc w idch)) WS = true.
Proof. vm_compute. reflexivity. Qed.
Lemma ws_not_star : forallb (fun w => negb (memc w [42%N])) WS = true.
Proof. vm_compute. reflexivity. Qed.
Lemma digit_stop : forallb stopc digit = true.
Proof. vm_compute. reflexivity. Qed.
Lemma digit_not_alpha d : memc d digit = true -> memc d alpha = false.
Proof.
  intros H. apply negb_true_iff. revert H. apply (memc_forallb digit (fun d => negb (memc d alpha))).
  vm_compute. reflexivity.
Qed.

Ltac norm_text := repeat (rewrite <- app_assoc || rewrite <- app_comm_cons).

(* the part after the keyword, common to the three alternatives *)
Definition dl_tail_text (s : dl_stmt) (y : dl_layout) (Ek : pstr) : pstr :=
  dl_b1 y ++ dl_n0 s :: dl_ns s ++ star_s (dl_star s) ++ dl_b2 y ++ dl_sgn y :: dl_b3 y ++
  dlen_text (dl_len s) ++ Ek.
Lemma seqs_dl_tail full a m sl le cpm s y E k :
  nth_error G a = Some (mkNode KSuppress [19] true WS [pil_c] false []) ->
  nth_error G m = Some (mkNode (KMany true) [sl] true WS [pil_c] cpm []) ->
  nth_error G sl = Some (mkNode KSuppress [le] true WS [pil_c] true []) ->
  (exists cpl, nth_error G le = Some (mkNode KLineEnd [] true WS [pil_c] cpl [])) ->
  dl_stmt_ok s -> dl_layout_ok y -> stmt_end E k ->
  seqs G full [13; a; 35; m] (At (dl_tail_text s y (E ++ k))) []
    (POk (after WS k) [TStr (dl_name s); TStr (dlen_text (dl_len s))]).
Proof.
  intros Ha Hm Hsl Hle (H0 & Hns & Hlen) (Hb1 & Hb2 & Hb3 & Hsgn) Hk.
  unfold dl_tail_text, dl_name.
  assert (Hsg : stopc (dl_sgn y) = true) by (destruct Hsgn as [-> | ->]; reflexivity).
  eapply seqs_cons.
  { eapply (ev_domain full true _ (dl_n0 s) (dl_ns s) (dl_star s)); [|exact H0|exact Hns|].
    - apply spre_blanks_stop; [exact Hb1|apply idch_stop; exact H0].
    - intros _. split; (apply nohead_blanks; [|exact Hb2|]).
      + exact ws_not_idch.
      + destruct Hsgn as [-> | ->]; reflexivity.
      + exact ws_not_star.
      + destruct Hsgn as [-> | ->]; reflexivity. }
  eapply seqs_cons.
  { eapply (ev_assign full a true _ (dl_sgn y)); [exact Ha| |exact Hsgn].
    apply spre_blanks_stop; [exact Hb2|exact Hsg]. }
  eapply seqs_cons.
  { eapply (ev_dlength full true _ (dl_len s)).
    - rewrite spre_blanks by exact Hb3.
      assert (Hd : exists d r, dlen_text (dl_len s) = d :: r /\ stopc d = true).
      { destruct (dl_len s) as [d0 ds| |]; cbn; eexists _, _; (split; [reflexivity|]); try reflexivity.
        apply idch_stop, digit_idch. apply Hlen. }
      destruct Hd as (d & r & Edl & Hd). rewrite Edl. cbn [app]. rewrite (spre_stop d _ Hd). reflexivity.
    - destruct (dl_len s) as [d0 ds| |]; cbn; [|exact I|exact I].
      destruct Hlen as (Hd0 & Hds). repeat split; [exact Hd0|exact Hds|].
      apply pil_end_nohead; [exact Hk|exact digit_stop]. }
  eapply seqs_cons; [|apply seqs_nil].
  apply (ev_end full m sl le cpm); assumption.
Qed.

Theorem roundtrip_dl_domain s y :
  dl_stmt_ok s -> dl_layout_ok y -> pil_body_ok (dl_render s y) [dl_tree s].
Proof.
  intros Hs Hy full b E k Hb Hk. unfold dl_render, dl_name. norm_text. fold (dl_tail_text s y (E ++ k)).
  pose proof Hs as (H0 & Hns & Hlen). pose proof Hy as (Hb1 & Hb2 & Hb3 & Hsgn).
  eapply evals_eq.
  - eapply evals_node_ok; [lk|cbn; reflexivity|]. apply impls_first; [reflexivity|]. cbn [nkids].
    destruct (dl_kw s) eqn:Ekw; cbn [dlkw_text app].
    + (* length *)
      eapply firsts_miss.
      { eapply (evals_kw_alt_fail G full pil_c WS pil_comment_ok 9 10 11 12); [lk|lk|lk|lk|].
        rewrite spre_blanks_stop by (try exact Hb; reflexivity). reflexivity. }
      apply firsts_hit.
      eapply (evals_kw_alt_ok G full pil_c WS pil_comment_ok 30 31 32 33); [lk|lk|lk|lk| |].
      { rewrite spre_blanks_stop by (try exact Hb; reflexivity). cbn. reflexivity. }
      apply (seqs_dl_tail full 34 38 39 40 true s y E k); [lk|lk|lk|eexists; lk|exact Hs|exact Hy|exact Hk].
    + (* domain *)
      eapply firsts_miss.
      { eapply (evals_kw_alt_fail G full pil_c WS pil_comment_ok 9 10 11 12); [lk|lk|lk|lk|].
        rewrite spre_blanks_stop by (try exact Hb; reflexivity). reflexivity. }
      eapply firsts_miss.
      { eapply (evals_kw_alt_fail G full pil_c WS pil_comment_ok 30 31 32 33); [lk|lk|lk|lk|].
        rewrite spre_blanks_stop by (try exact Hb; reflexivity). reflexivity. }
      apply firsts_hit.
      eapply (evals_kw_alt_ok G full pil_c WS pil_comment_ok 41 42 43 44); [lk|lk|lk|lk| |].
      { rewrite spre_blanks_stop by (try exact Hb; reflexivity). cbn. reflexivity. }
      apply (seqs_dl_tail full 45 46 47 48 true s y E k); [lk|lk|lk|eexists; lk|exact Hs|exact Hy|exact Hk].
    + (* sequence: the sequence-constraint alternative comes first and fails on the digit *)
      destruct (dl_len s) as [d0 ds| |] eqn:Elen; [|congruence|congruence].
      destruct Hlen as (Hd0 & Hds).
      assert (Hsg : stopc (dl_sgn y) = true) by (destruct Hsgn as [-> | ->]; reflexivity).
      eapply firsts_miss.
      { eapply (evals_kw_alt_late_fail G full pil_c WS pil_comment_ok 9 10 11 12); [lk|lk|lk|lk| |].
        { rewrite spre_blanks_stop by (try exact Hb; reflexivity). cbn. reflexivity. }
        unfold dl_tail_text. rewrite Elen. cbn [dlen_text]. norm_text.
        eapply seqs_cons.
        { eapply (ev_domain full true _ (dl_n0 s) (dl_ns s) (dl_star s)); [|exact H0|exact Hns|].
          - apply spre_blanks_stop; [exact Hb1|apply idch_stop; exact H0].
          - intros _. split; (apply nohead_blanks; [|exact Hb2|]).
            + exact ws_not_idch.
            + destruct Hsgn as [-> | ->]; reflexivity.
            + exact ws_not_star.
            + destruct Hsgn as [-> | ->]; reflexivity. }
        eapply seqs_cons.
        { eapply (ev_assign full 18 true _ (dl_sgn y)); [lk| |exact Hsgn].
          apply spre_blanks_stop; [exact Hb2|exact Hsg]. }
        apply seqs_fail.
        eapply (evals_word_fail G full pil_c WS pil_comment_ok 22 true true); [lk|].
        cbn [andb dlen_text app]. rewrite spre_blanks_stop; [|exact Hb3|apply idch_stop, digit_idch; exact Hd0].
        apply digit_not_alpha. exact Hd0. }
      eapply firsts_miss.
      { eapply (evals_kw_alt_fail G full pil_c WS pil_comment_ok 30 31 32 33); [lk|lk|lk|lk|].
        rewrite spre_blanks_stop by (try exact Hb; reflexivity). reflexivity. }
      eapply firsts_miss.
      { eapply (evals_kw_alt_fail G full pil_c WS pil_comment_ok 41 42 43 44); [lk|lk|lk|lk|].
        rewrite spre_blanks_stop by (try exact Hb; reflexivity). reflexivity. }
      apply firsts_hit.
      eapply (evals_kw_alt_ok G full pil_c WS pil_comment_ok 49 50 51 52); [lk|lk|lk|lk| |].
      { rewrite spre_blanks_stop by (try exact Hb; reflexivity). cbn. reflexivity. }
      rewrite <- Elen.
      apply (seqs_dl_tail full 53 54 55 56 true s y E k); [lk|lk|lk|eexists; lk|exact Hs|exact Hy|exact Hk].
  - unfold dl_tree. destruct (dl_kw s); reflexivity.
Qed.

(* parse_pil_string on the rendered statement alone *)
Theorem roundtrip_dl_domain_parse s y b E :
  dl_stmt_ok s -> dl_layout_ok y -> blanks WS b -> stmt_end E [] ->
  no_tab (b ++ dl_render s y ++ E) ->
  exists f0, forall f, f0 <= f -> parse_pil_fuel f (b ++ dl_render s y ++ E) = vals [dl_tree s].
Proof.
  intros Hs Hy Hb HE Hnt. apply pil_statement_parse; try assumption.
  - unfold dl_render. destruct (dl_kw s); cbn; repeat split; reflexivity.
  - apply roundtrip_dl_domain; assumption.
Qed.

(* non-vacuity: ` length a* : short  # c` + newline + blank line *)
Example dl_example :
  let s := mkDl KwLength 97%N [] true DShort in
  let y := mkDlLayout [32%N] [] 58%N [32%N; 32%N] in
  let E := [32; 35; 32; 99; 10; 32; 10]%N in
  dl_stmt_ok s /\ dl_layout_ok y /\ stmt_end E [] /\ no_tab ([32%N] ++ dl_render s y ++ E) /\
  parse_pil ([32%N] ++ dl_render s y ++ E) = vals [dl_tree s].
Proof.
  cbn zeta. split; [|split; [|split; [|split]]].
  - cbn. repeat split; try reflexivity. discriminate.
  - cbn. repeat split; try reflexivity. right. reflexivity.
  - change [32; 35; 32; 99; 10; 32; 10]%N with (([32%N] ++ HASH :: [32; 99]%N ++ [NL]) ++ concat [[32%N] ++ [NL]]).
    apply pil_stmt_end_lines; [apply pil_blank_line_comment; reflexivity|].
    constructor; [apply pil_blank_line_plain; reflexivity|constructor].
  - reflexivity.
  - vm_compute. reflexivity.
Qed.
