(* C09: the parts returned by split_complex_pt are exactly the connected
   components of the strand graph, each part is connected. *)
From Coq Require Import List Arith Lia Bool NArith Permutation Sorted.
From DSD Require Import Base.Str Base.Errors Model.ComplexUtils Dyck.Dyck
  Proofs.Mpt Proofs.Db Proofs.Assoc Proofs.Loops Proofs.LoopsConn Proofs.Split
  Proofs.SplitCut Proofs.SplitStep Proofs.SplitTree.
Import ListNotations.

Lemma get_some_row (T : tab) s c v : get T (s, c) = Some v -> s < length T.
Proof.
  unfold get. cbn [fst snd]. unfold tab, row in *.
  destruct (nth_error T s) eqn:E; [|discriminate]. intros _. apply nth_error_Some. congruence.
Qed.

(* an edge of the part is an edge of the whole *)
Lemma edge_part T sub pt r1 r2 :
  part_ok T sub pt -> edge pt r1 r2 ->
  r1 < length sub /\ r2 < length sub /\ edge T (nth r1 sub 0) (nth r2 sub 0).
Proof.
  intros [Hl Hp] (c1 & c2 & Hg).
  assert (H1 : r1 < length sub) by (rewrite <- Hl; eapply get_some_row, Hg).
  specialize (Hp r1 c1 H1).
  destruct (get T (nth r1 sub 0, c1)) as [[x|]|] eqn:E.
  - destruct Hp as (r' & Hr' & Hx & Hg'). rewrite Hg in Hg'. injection Hg' as -> Hc.
    split; [exact H1|]. split; [exact Hr'|]. exists c1, (snd x). rewrite E, <- Hx. destruct x; reflexivity.
  - congruence.
  - congruence.
Qed.

Lemma conn_part T sub pt r r' :
  part_ok T sub pt -> conn (edge pt) r r' -> r < length sub ->
  r' < length sub /\ conn (edge T) (nth r sub 0) (nth r' sub 0).
Proof.
  intros Hp. induction 1 as [s|s1 s2 s3 He _ IH|s1 s2 s3 He _ IH]; intros Hr.
  - split; [exact Hr|constructor].
  - destruct (edge_part _ _ _ _ _ Hp He) as (_ & H2 & HE). destruct (IH H2) as [H3 HC].
    split; [exact H3|]. eapply conn_fwd; eauto.
  - destruct (edge_part _ _ _ _ _ Hp He) as (H2 & _ & HE). destruct (IH H2) as [H3 HC].
    split; [exact H3|]. eapply conn_bwd; eauto.
Qed.

(* the strands of a part are closed under the edges of a tree table *)
Lemma part_closed d sub pt s t :
  part_ok (tab_of d) sub pt -> edge (tab_of d) s t -> (In s sub <-> In t sub).
Proof.
  intros [Hl Hp] (c1 & c2 & Hg).
  assert (F : forall a b ca cb, get (tab_of d) (a, ca) = Some (Some (b, cb)) -> In a sub -> In b sub).
  { intros a b ca cb Hab Ha. apply (In_nth _ _ 0) in Ha. destruct Ha as (r & Hr & <-).
    specialize (Hp r ca Hr). rewrite Hab in Hp. destruct Hp as (r' & Hr' & Hx & _).
    cbn [fst] in Hx. rewrite Hx. apply nth_In, Hr'. }
  split; [apply (F _ _ _ _ Hg)|]. apply tree_get_sym in Hg. apply (F _ _ _ _ Hg).
Qed.

Lemma part_closed_conn d sub pt s t :
  part_ok (tab_of d) sub pt -> conn (edge (tab_of d)) s t -> (In s sub <-> In t sub).
Proof.
  intros Hp. induction 1 as [s|s1 s2 s3 He _ IH|s1 s2 s3 He _ IH]; [tauto| |].
  - rewrite (part_closed d sub pt s1 s2 Hp He). exact IH.
  - rewrite <- (part_closed d sub pt s2 s1 Hp He). exact IH.
Qed.

(* a part that is connected on its own is a connectivity class *)
Lemma part_is_class d sub pt s t :
  part_ok (tab_of d) sub pt -> connected pt -> In s sub ->
  (conn (edge (tab_of d)) s t <-> In t sub).
Proof.
  intros Hp Hc Hs. split.
  - intros H. apply (part_closed_conn d sub pt s t Hp H), Hs.
  - intros Ht. apply (In_nth _ _ 0) in Hs. destruct Hs as (r & Hr & <-).
    apply (In_nth _ _ 0) in Ht. destruct Ht as (r' & Hr' & <-).
    destruct Hp as [Hl Hp]. apply (conn_part (tab_of d) sub pt r r' (conj Hl Hp)); [|exact Hr].
    apply Hc; rewrite Hl; assumption.
Qed.

(* ------------------------------------------------------------------ *)
(* the theorems of C09 on all well-formed structures                    *)

(* split_pairs + split_partition with one witness list `idxs`: part k consists
   of the strands idxs[k] of the input (increasing, content unchanged), its
   table is the input table restricted and re-indexed to those strands *)
Theorem split_parts {A} d (stab : list (list A)) fuel :
  length stab = S (nbreaks d) -> S (nbreaks d) < fuel ->
  exists idxs pts,
    split_complex_pt fuel stab (tab_of d) = Ok (combine (map (sel stab) idxs) pts) /\
    Forall2 (part_ok (tab_of d)) idxs pts /\
    Permutation (concat idxs) (seq 0 (S (nbreaks d))) /\
    Forall (StronglySorted lt) idxs.
Proof.
  intros Hl Hf. destruct (split_tree fuel d stab Hl Hf) as (idxs & pts & H1 & H2 & H3 & H4).
  exists idxs, pts. split; [exact H1|]. split; [|split; assumption].
  clear - H2. induction H2 as [|sub pt ? ? [Hp _] _ IH]; constructor; assumption.
Qed.

(* split_components: every part is the table of a tree (well-formed), is
   connected, and its strands form exactly one connectivity class of the input *)
Theorem split_components {A} d (stab : list (list A)) fuel :
  length stab = S (nbreaks d) -> S (nbreaks d) < fuel ->
  exists idxs pts,
    split_complex_pt fuel stab (tab_of d) = Ok (combine (map (sel stab) idxs) pts) /\
    Forall2 (fun sub pt =>
               (exists d', pt = tab_of d') /\ connected pt /\ sub <> [] /\
               forall s, In s sub -> forall t,
                 (conn (edge (tab_of d)) s t <-> In t sub)) idxs pts.
Proof.
  intros Hl Hf. destruct (split_tree fuel d stab Hl Hf) as (idxs & pts & H1 & H2 & _ & _).
  exists idxs, pts. split; [exact H1|].
  clear - H2. induction H2 as [|sub pt ? ? [Hp [_ (d' & -> & Hn)]] _ IH]; constructor; [|assumption].
  pose proof (nodup_connected d' Hn) as Hc.
  split; [eauto|]. split; [exact Hc|]. split.
  - destruct Hp as [Hl _]. rewrite tab_of_length in Hl. destruct sub; [discriminate|discriminate].
  - intros s Hs t. apply (part_is_class d sub (tab_of d') s t Hp Hc Hs).
Qed.

(* never out of fuel, never any error, on well-formed input *)
Corollary split_wf_ok {A} d (stab : list (list A)) :
  length stab = length (tab_of d) ->
  exists parts, split_complex_pt (S (length (tab_of d))) stab (tab_of d) = Ok parts.
Proof.
  intros Hl. rewrite tab_of_length in *.
  destruct (split_tree (S (S (nbreaks d))) d stab Hl ltac:(lia)) as (idxs & pts & H1 & _).
  eauto.
Qed.

(* non-vacuity: "(+)+.+(.+.)": three components *)
Example ex_components :
  let d := DP (DB DNil) (DB (DU (DB (DP (DU (DB (DU DNil))) DNil)))) in
  let stab := [[1]; [2]; [3]; [4; 5]; [6; 7]] in
  length stab = S (nbreaks d) /\
  split_complex_pt 6 stab (tab_of d) =
    Ok (combine (map (sel stab) [[0; 1]; [2]; [3; 4]])
                [ [[Some (1, 0)]; [Some (0, 0)]]; [[None]];
                  [[Some (1, 1); None]; [None; Some (0, 0)]] ]) /\
  ~ connected (tab_of d).
Proof.
  cbn zeta. split; [reflexivity|]. split; [reflexivity|].
  intros H. apply connected_nodup in H. unfold ends in H. cbn in H.
  inversion H as [|? ? _ H2]. inversion H2 as [|? ? Hin _]. apply Hin. left. reflexivity.
Qed.

(* ------------------------------------------------------------------ *)
(* the dot-bracket wrapper                                              *)

Lemma stts_ok (brk : pstr) (st : list (list pstr)) :
  st <> [] -> exists sq, strand_table_to_sequence brk st = Ok sq.
Proof. destruct st as [|s r]; [congruence|]. intros _. eexists. reflexivity. Qed.

Definition db_go :=
  fix go (l : list (list (list pstr) * tab)) : res (list (list pstr * list chr)) :=
    match l with
    | [] => Ok []
    | (st, pt) :: r =>
        dor nseq <- strand_table_to_sequence sPlus st;
        dor rest <- go r;
        Ok ((nseq, pair_table_to_dot_bracket cP pt) :: rest)
    end.

Lemma db_go_ok parts :
  Forall (fun p => fst p <> []) parts ->
  exists out, db_go parts = Ok out /\ length out = length parts /\
    Forall2 (fun p o => strand_table_to_sequence sPlus (fst p) = Ok (fst o) /\
                        snd o = pair_table_to_dot_bracket cP (snd p)) parts out.
Proof.
  induction 1 as [|[st pt] r Hne _ IH]; [exists []; repeat split; constructor|].
  destruct IH as (out & H1 & H2 & H3). cbn [fst] in Hne.
  destruct (stts_ok sPlus st Hne) as [sq Hsq].
  exists ((sq, pair_table_to_dot_bracket cP pt) :: out).
  cbn [db_go]. fold db_go. rewrite Hsq, H1. cbn [rbind length].
  split; [reflexivity|]. split; [lia|]. constructor; [split; [exact Hsq|reflexivity]|exact H3].
Qed.

(* split_complex_db on a well-formed structure whose sequence has one strand per
   strand of the structure: it returns, and its result is the strand-wise /
   table-wise rendering of the parts of split_complex_pt (all the facts of
   split_parts and split_components hold for those) *)
Theorem split_db_spec seq sst d :
  make_pair_table cP [cD] sst = Ok (tab_of d) ->
  length (make_strand_table_list sPlus seq) = S (nbreaks d) ->
  let stab := make_strand_table_list sPlus seq in
  exists idxs pts out,
    split_complex_pt (S (length (tab_of d))) stab (tab_of d) = Ok (combine (map (sel stab) idxs) pts) /\
    Forall2 (good_part (tab_of d)) idxs pts /\
    split_complex_db seq sst = Ok out /\
    Forall2 (fun p o => strand_table_to_sequence sPlus (fst p) = Ok (fst o) /\
                        snd o = pair_table_to_dot_bracket cP (snd p))
            (combine (map (sel stab) idxs) pts) out.
Proof.
  intros Hpt Hlen stab.
  destruct (split_tree (S (length (tab_of d))) d stab Hlen ltac:(rewrite tab_of_length; lia))
    as (idxs & pts & H1 & H2 & _ & _).
  assert (Hne : Forall (fun p : list (list pstr) * tab => fst p <> []) (combine (map (sel stab) idxs) pts)).
  { clear - H2. induction H2 as [|sub pt ? ? [[Hl _] [_ (d' & -> & _)]] _ IH]; cbn [map combine]; constructor; [|exact IH].
    cbn [fst]. rewrite tab_of_length in Hl. unfold sel. destruct sub; [discriminate|discriminate]. }
  destruct (db_go_ok _ Hne) as (out & G1 & _ & G3).
  exists idxs, pts, out. split; [exact H1|]. split; [exact H2|]. split; [|exact G3].
  unfold split_complex_db. rewrite Hpt. cbn [rbind]. fold stab. rewrite H1. cbn [rbind]. exact G1.
Qed.
