(* Registry machine: first, computational facts (dtype rules, initial state). *)
From Coq Require Import List NArith ZArith Bool Arith Lia.
From DSD Require Import Base.Str Base.Errors Model.ComplexUtils Model.RegStr Model.Heap Model.Registry.
Import ListNotations.

(* ---- dtype rules (C04) ---- *)
Lemma dtype_query_spec ct h o l ci :
  o_data o = DDom l -> nth_error ct (o_cls o) = Some ci ->
  query_obj ct h o QDtype = Ok (QS (if (l <=? c_cutoff ci)%Z then sShort else sLong)).
Proof. intros Hd Hc. unfold query_obj. rewrite Hd, Hc. reflexivity. Qed.

Lemma sShort_neq_sLong : sShort <> sLong.
Proof. vm_compute. discriminate. Qed.

Lemma dtype_short_iff ct h o l ci :
  o_data o = DDom l -> nth_error ct (o_cls o) = Some ci ->
  (query_obj ct h o QDtype = Ok (QS sShort) <-> (l <= c_cutoff ci)%Z).
Proof.
  intros Hd Hc. rewrite (dtype_query_spec ct h o l ci Hd Hc).
  destruct (l <=? c_cutoff ci)%Z eqn:E.
  - apply Z.leb_le in E. tauto.
  - apply Z.leb_gt in E. split; [|lia]. intros H.
    assert (H' : sLong = sShort) by congruence.
    exfalso. exact (sShort_neq_sLong (eq_sym H')).
Qed.

(* dtype-only requests receive the class defaults *)
Lemma dtype_only_default ci :
  dom_len1 ci None (Some sShort) = Ok (Some (c_short ci)) /\
  dom_len1 ci None (Some sLong) = Ok (Some (c_long ci)) /\
  dom_len1 ci None None = Ok None.
Proof. repeat split. Qed.

(* contradictory dtype and length are refused *)
Lemma dtype_conflict ci l :
  ((l <= c_cutoff ci)%Z -> dom_len1 ci (Some l) (Some sLong) = Err eObjectInit) /\
  ((l > c_cutoff ci)%Z -> dom_len1 ci (Some l) (Some sShort) = Err eObjectInit) /\
  ((l <= c_cutoff ci)%Z -> dom_len1 ci (Some l) (Some sShort) = Ok (Some l)) /\
  ((l > c_cutoff ci)%Z -> dom_len1 ci (Some l) (Some sLong) = Ok (Some l)).
Proof.
  unfold dom_len1. cbn [truthy_s is_s].
  replace (str_eqb sLong sShort) with false by (vm_compute; reflexivity).
  replace (str_eqb sShort sShort) with true by (vm_compute; reflexivity).
  replace (truthy_s (Some sLong)) with true by (vm_compute; reflexivity).
  replace (truthy_s (Some sShort)) with true by (vm_compute; reflexivity).
  repeat split; intros H.
  - apply Z.leb_le in H. rewrite H. reflexivity.
  - assert (E : (l <=? c_cutoff ci)%Z = false) by (apply Z.leb_gt; lia). rewrite E. reflexivity.
  - apply Z.leb_le in H. rewrite H. reflexivity.
  - assert (E : (l <=? c_cutoff ci)%Z = false) by (apply Z.leb_gt; lia). rewrite E. reflexivity.
Qed.

(* a refused dtype/length request changes nothing (it fails before any nested call) *)
Lemma dtype_conflict_no_change fuel ct c st ci name l dtype prefix nm :
  nth_error ct c = Some ci ->
  resolve_name ct st c ci name prefix = Ok nm ->
  dom_len1 ci (Some l) dtype = Err eObjectInit ->
  dom_call (S fuel) ct c st name (Some l) prefix dtype = (st, CErr eObjectInit None).
Proof. intros Hc Hn Hl. cbn [dom_call]. unfold dom_body. rewrite Hc, Hn, Hl. reflexivity. Qed.

Lemma init_shape ct n : heap (init ct n) = [] /\ length (classes (init ct n)) = length ct.
Proof. unfold init; cbn. split; [reflexivity | apply map_length]. Qed.
