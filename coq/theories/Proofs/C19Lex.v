(* C19: derived rules for the regenerated seesaw table: literals, numbers, wires,
   keyword-led statement alternatives. *)
From Coq Require Import List NArith Bool Arith Lia.
From DSD Require Import Base.Str Base.Val Model.Peg Model.DispatchPeg Proofs.PegMono Proofs.PegRules Proofs.PegStd
  Proofs.PegDoc Proofs.PegKw Proofs.C13Doc Proofs.C19Doc.
From DSDGen Require Import SeesawGrammar.
Import ListNotations.

Notation GS := seesaw_nodes.
Notation WSs := ssw_ws.
Notation sspre := (std_pre ssw_ws).
Notation sstopc := (PegStd.stopc ssw_ws).
Definition sdigit : list chr := seesaw_cs1.
Ltac slk := cbv [seesaw_nodes nth_error]; reflexivity.
Ltac rw_alias E := let H := fresh "Ea" in pose proof E as H; unfold chr, pstr in *; rewrite H; clear H.

Lemma sspre_blanks_stop b d r : blanks WSs b -> sstopc d = true -> sspre (b ++ d :: r) = d :: r.
Proof.
  intros Hb Hd. rewrite (std_pre_blanks WSs b _ Hb). apply PegStd.stopc_elim in Hd as (H1 & H2 & _).
  apply std_pre_stop; assumption.
Qed.
Lemma sspre_idem x : sspre (sspre x) = sspre x.
Proof. apply (std_pre_idem GS ssw_c WSs ssw_comment_ok). Qed.
Lemma sdigit_stop d : memc d sdigit = true -> sstopc d = true.
Proof. apply memc_forallb. vm_compute. reflexivity. Qed.
Lemma snohead_blanks cs b r :
  forallb (fun w => negb (memc w cs)) WSs = true -> blanks WSs b -> nohead cs r -> nohead cs (b ++ r).
Proof.
  intros Hd Hb Hr. destruct b as [|w b]; [exact Hr|]. cbn.
  unfold blanks in Hb. cbn in Hb. apply andb_prop in Hb as [Hw _].
  apply negb_true_iff. apply (memc_forallb WSs (fun w => negb (memc w cs)) w Hd Hw).
Qed.

Lemma starts_with_nohead' d s r : nohead [d] r -> starts_with (d :: s) r = None.
Proof.
  destruct r as [|e r]; [reflexivity|]. cbn. intros H. rewrite N.eqb_sym.
  destruct (N.eqb e d); [discriminate|reflexivity].
Qed.

(* Suppress [Lit s] / Lit s on a text whose pre-parsed form starts with s *)
Lemma sw_slit full i l s x r :
  nth_error GS i = Some (mkNode KSuppress [l] true WSs [ssw_c] true []) ->
  nth_error GS l = Some (mkNode (KLit s) [] true WSs [ssw_c] true []) ->
  sspre x = s ++ r -> evals GS full i true (At x) (POk (At r) []).
Proof.
  intros Hi Hl Hx. eapply evals_eq; [apply (evals_slit GS full ssw_c WSs ssw_comment_ok i l true true true s x Hi Hl)|].
  cbn [andb]. rewrite Hx. unfold lit_res. rewrite starts_with_app. reflexivity.
Qed.
Lemma sw_slit_fail full i l d s x :
  nth_error GS i = Some (mkNode KSuppress [l] true WSs [ssw_c] true []) ->
  nth_error GS l = Some (mkNode (KLit (d :: s)) [] true WSs [ssw_c] true []) ->
  nohead [d] (sspre x) -> evals GS full i true (At x) PFail.
Proof.
  intros Hi Hl Hx. eapply evals_eq; [apply (evals_slit GS full ssw_c WSs ssw_comment_ok i l true true true _ x Hi Hl)|].
  cbn [andb]. unfold lit_res. rw_alias (starts_with_nohead' d s _ Hx). reflexivity.
Qed.

(* number: Word(nums), node 17 *)
Lemma sw_number full (cp : bool) (x : pstr) (d0 : chr) (ds r : pstr) :
  (if cp then sspre x else x) = d0 :: ds ++ r ->
  memc d0 sdigit = true -> all_in sdigit ds -> nohead sdigit r ->
  evals GS full 17 cp (At x) (POk (At r) [TStr (d0 :: ds)]).
Proof.
  intros Hx H0 Hs Hr.
  eapply (evals_word GS full ssw_c WSs ssw_comment_ok 17 cp true); [slk| |exact H0|exact Hs|exact Hr].
  rewrite andb_true_r. exact Hx.
Qed.
Lemma sw_number_fail full (cp : bool) (x : pstr) :
  nohead sdigit (if cp then sspre x else x) -> evals GS full 17 cp (At x) PFail.
Proof.
  intros Hx. eapply (evals_word_fail GS full ssw_c WSs ssw_comment_ok 17 cp true); [slk|].
  rewrite andb_true_r. exact Hx.
Qed.

Record num := mkNum { n_d0 : chr; n_ds : pstr }.
Definition num_ok (n : num) : Prop := memc (n_d0 n) sdigit = true /\ all_in sdigit (n_ds n).
Definition num_text (n : num) : pstr := n_d0 n :: n_ds n.

(* a keyword-led alternative: And (Lit kw :: ks), the keyword kept as a token *)
Lemma sw_alt_fail full i k0 ks s x :
  nth_error GS i = Some (mkNode KAnd (k0 :: ks) true WSs [ssw_c] true []) ->
  nth_error GS k0 = Some (mkNode (KLit s) [] true WSs [ssw_c] true []) ->
  starts_with s (sspre x) = None -> evals GS full i true (At x) PFail.
Proof.
  intros Hi Hk Hs.
  eapply evals_node_fail; [exact Hi|apply (pre_premise GS full ssw_c WSs ssw_comment_ok); repeat split|].
  eapply impls_and_fail; [reflexivity|reflexivity|].
  eapply evals_eq; [apply (evals_lit GS full ssw_c WSs ssw_comment_ok k0 false true s _ Hk)|].
  unfold pre_pos, lit_res. cbn. rewrite Hs. reflexivity.
Qed.
Lemma sw_alt_ok full i k0 ks s x r p t :
  nth_error GS i = Some (mkNode KAnd (k0 :: ks) true WSs [ssw_c] true []) ->
  nth_error GS k0 = Some (mkNode (KLit s) [] true WSs [ssw_c] true []) ->
  sspre x = s ++ r -> seqs GS full ks (At r) [TStr s] (POk p t) ->
  evals GS full i true (At x) (POk p t).
Proof.
  intros Hi Hk Hx Hks.
  eapply evals_eq.
  - eapply evals_node_ok; [exact Hi|apply (pre_premise GS full ssw_c WSs ssw_comment_ok); repeat split|].
    eapply impls_and; [reflexivity|reflexivity| |exact Hks].
    eapply evals_eq; [apply (evals_lit GS full ssw_c WSs ssw_comment_ok k0 false true s _ Hk)|].
    unfold pre_pos, lit_res. cbn. rewrite Hx, starts_with_app. reflexivity.
  - reflexivity.
Qed.
Lemma sw_alt_late_fail full i k0 ks s x r :
  nth_error GS i = Some (mkNode KAnd (k0 :: ks) true WSs [ssw_c] true []) ->
  nth_error GS k0 = Some (mkNode (KLit s) [] true WSs [ssw_c] true []) ->
  sspre x = s ++ r -> seqs GS full ks (At r) [TStr s] PFail ->
  evals GS full i true (At x) PFail.
Proof.
  intros Hi Hk Hx Hks.
  eapply evals_node_fail; [exact Hi|apply (pre_premise GS full ssw_c WSs ssw_comment_ok); repeat split|].
  eapply impls_and; [reflexivity|reflexivity| |exact Hks].
  eapply evals_eq; [apply (evals_lit GS full ssw_c WSs ssw_comment_ok k0 false true s _ Hk)|].
  unfold pre_pos, lit_res. cbn. rewrite Hx, starts_with_app. reflexivity.
Qed.

(* the statement node: And [Group [choice]; OneOrMore(LineEnd)] *)
Notation sstmt_end := (PegDoc.stmt_end ssw_ws).
Lemma sw_statement full b text E k p t :
  blanks WSs b -> (exists d z, text = d :: z /\ sstopc d = true) -> sstmt_end E k ->
  firsts GS full [11; 36; 54; 92; 125; 156; 187; 197; 209; 223] (At (text ++ E ++ k)) (POk p t) ->
  sspre (match p with At q => q | Past => [] end) = sspre (E ++ k) ->
  (exists q, p = At q) ->
  evals GS full ssw_stmt true (At (b ++ text ++ E ++ k)) (POk (after WSs k) [TList t]).
Proof.
  intros Hb (d & z & Et & Hd) Hk Hf Hp (q & Ep). subst text p. cbn in Hp.
  assert (Hx : sspre (b ++ (d :: z) ++ E ++ k) = (d :: z) ++ E ++ k) by (cbn [app]; apply sspre_blanks_stop; assumption).
  assert (H237 : nth_error GS 237 = Some (mkNode (KMany true) [238] true WSs [ssw_c] true [])) by slk.
  assert (H238 : nth_error GS 238 = Some (mkNode KSuppress [239] true WSs [ssw_c] true [])) by slk.
  assert (H239 : exists cp, nth_error GS 239 = Some (mkNode KLineEnd [] true WSs [ssw_c] cp [])) by (exists true; slk).
  assert (Heol : evals GS full 237 true (At q) (POk (after WSs k) [])).
  { assert (H1 : evals GS full 237 true (At (sspre (E ++ k))) (POk (after WSs k) [])).
    { apply (evals_spre_inv GS full ssw_c WSs ssw_comment_ok 237 _ (E ++ k) _ H237); [repeat split|reflexivity|].
      apply (evals_end GS ssw_c 238 239 WSs ssw_comment_ok H238 H239 full 237 true E k H237 Hk). }
    destruct H1 as [a Ha].
    destruct (pre_to_std GS full ssw_c WSs (mkNode (KMany true) [238] true WSs [ssw_c] true []) q _ ssw_comment_ok
                ltac:(repeat split) eq_refl) as [p1 Hp1].
    destruct (pre_to_std GS full ssw_c WSs (mkNode (KMany true) [238] true WSs [ssw_c] true []) (sspre (E ++ k)) _ ssw_comment_ok
                ltac:(repeat split) eq_refl) as [p2 Hp2].
    exists (S (Nat.max a (Nat.max p1 p2))). intros f Hle. destruct f as [|f]; [lia|].
    rewrite <- (Ha (S f)) by lia. rewrite !parse_S.
    rewrite H237. cbn [andb ncallpre]. rewrite (Hp1 f f), (Hp2 f f) by lia. rewrite Hp, sspre_idem. reflexivity. }
  eapply evals_eq.
  - eapply evals_node_ok; [slk|apply (pre_premise GS full ssw_c WSs ssw_comment_ok); repeat split|].
    unfold pre_pos. cbn [andb ncallpre]. rewrite Hx.
    eapply impls_and; [reflexivity|reflexivity| |].
    + eapply evals_node_ok; [slk|cbn; reflexivity|].
      eapply impls_wrap; [reflexivity|reflexivity|].
      eapply evals_node_ok; [slk|cbn; reflexivity|]. apply impls_first; [reflexivity|exact Hf].
    + eapply seqs_cons; [exact Heol|apply seqs_nil].
  - cbn. rewrite ?app_nil_r. reflexivity.
Qed.
