(* The zipper view of a multi-stranded structure: the first strand break sits
   under a path of k enclosing pairs,
       L0 ( L1 ( ... ( Lk + Rk ) ... ) R1 ) R0        = plug [(L0,R0);...;(Lk,Rk)]
   with the Li break-free.  Rotation by one strand on trees is
       Rk ( ... ( R1 ( R0 + L0 ) L1 ) ... ) Lk        = plug (rev (map swap fs)),
   and rotate_complex_once computes exactly that (rot_once_tree). *)
From Coq Require Import List Arith Lia Bool NArith.
From DSD Require Import Base.Str Base.Errors Model.ComplexUtils Dyck.Dyck
  Proofs.Mpt Proofs.Db Proofs.Assoc Proofs.C06 Proofs.RotScan.
Import ListNotations.

(* ---- concatenation of sibling lists ---- *)
Fixpoint dapp (a b : dyck) : dyck :=
  match a with
  | DNil => b
  | DU r => DU (dapp r b)
  | DB r => DB (dapp r b)
  | DP i r => DP i (dapp r b)
  end.

Lemma render_dapp a b : render (dapp a b) = render a ++ render b.
Proof.
  induction a as [|r IH|r IH|i _ r IH]; cbn [dapp render app]; try rewrite IH; try reflexivity.
  rewrite <- app_assoc. reflexivity.
Qed.

Lemma rc_dapp a b : rc (dapp a b) = rc a ++ rc b.
Proof. unfold rc. rewrite render_dapp, map_app. reflexivity. Qed.

Lemma adv_dapp a b : forall p, adv (dapp a b) p = adv b (adv a p).
Proof. induction a as [|r IH|r IH|i _ r IH]; intros p; cbn [dapp adv]; try rewrite IH; reflexivity. Qed.

Lemma ents_dapp a b : forall p, ents (dapp a b) p = ents a p ++ ents b (adv a p).
Proof.
  induction a as [|r IH|r IH|i _ r IH]; intros p; cbn [dapp ents adv app]; try rewrite IH; try reflexivity.
  cbn zeta. rewrite <- app_assoc. reflexivity.
Qed.

(* ---- breaks ---- *)
Fixpoint has_break (d : dyck) : bool :=
  match d with
  | DNil => false
  | DU r => has_break r
  | DB _ => true
  | DP i r => has_break i || has_break r
  end.

Definition isP (c : chr) : bool := N.eqb c cP.

Lemma break_free_rc d : has_break d = false -> Forall (fun c => isP c = false) (rc d).
Proof.
  induction d as [|r IH|r IH|i IHi r IHr]; cbn [has_break]; intros H.
  - constructor.
  - rewrite rc_DU. constructor; [reflexivity|auto].
  - discriminate.
  - apply orb_false_iff in H. destruct H as [Hi Hr]. rewrite rc_DP.
    constructor; [reflexivity|]. apply Forall_app. split; [auto|]. constructor; [reflexivity|auto].
Qed.

Lemma no_break_rc d : has_break d = false -> ~ In cP (rc d).
Proof.
  intros H Hin. apply break_free_rc in H. rewrite Forall_forall in H. specialize (H _ Hin). discriminate.
Qed.

Lemma has_break_rc d : has_break d = true -> In cP (rc d).
Proof.
  induction d as [|r IH|r IH|i IHi r IHr]; cbn [has_break]; intros H.
  - discriminate.
  - rewrite rc_DU. right. auto.
  - rewrite rc_DB. left. reflexivity.
  - rewrite rc_DP. right. apply in_or_app. apply orb_true_iff in H. destruct H as [H|H].
    + left. auto.
    + right. right. auto.
Qed.

(* ---- frames ---- *)
Notation frame := (dyck * dyck)%type (only parsing).
Definition swap (f : frame) : frame := (snd f, fst f).

Fixpoint plug (fs : list frame) : dyck :=
  match fs with
  | [] => DNil
  | f :: fs' =>
      match fs' with
      | [] => dapp (fst f) (DB (snd f))
      | _ :: _ => dapp (fst f) (DP (plug fs') (snd f))
      end
  end.

Lemma plug_one f : plug [f] = dapp (fst f) (DB (snd f)).
Proof. reflexivity. Qed.
Lemma plug_cons f g fs : plug (f :: g :: fs) = dapp (fst f) (DP (plug (g :: fs)) (snd f)).
Proof. reflexivity. Qed.

Definition rotZ (fs : list frame) : dyck := plug (rev (map swap fs)).

Definition lefts_break_free (fs : list frame) : Prop := Forall (fun f => has_break (fst f) = false) fs.

(* every tree with a break has a zipper decomposition at its first break *)
Theorem zipper_exists d : has_break d = true ->
  exists fs, fs <> [] /\ d = plug fs /\ lefts_break_free fs.
Proof.
  induction d as [|r IH|r IH|i IHi r IHr]; cbn [has_break]; intros H.
  - discriminate.
  - destruct (IH H) as (fs & Hne & -> & Hbf). destruct fs as [|[L R] fs']; [congruence|].
    exists ((DU L, R) :: fs'). split; [discriminate|]. split.
    + destruct fs'; reflexivity.
    + inversion Hbf; subst. constructor; assumption.
  - exists [(DNil, r)]. split; [discriminate|]. split; [reflexivity|]. constructor; [reflexivity|constructor].
  - destruct (has_break i) eqn:Ei.
    + destruct (IHi eq_refl) as (fs & Hne & -> & Hbf). exists ((DNil, r) :: fs).
      split; [discriminate|]. split.
      * destruct fs; [congruence|reflexivity].
      * constructor; [reflexivity|assumption].
    + cbn [orb] in H. destruct (IHr H) as (fs & Hne & -> & Hbf). destruct fs as [|[L R] fs']; [congruence|].
      exists ((DP i L, R) :: fs'). split; [discriminate|]. split.
      * destruct fs'; reflexivity.
      * inversion Hbf; subst. constructor; [|assumption]. cbn [fst has_break] in *. rewrite Ei. assumption.
Qed.

(* ---- the text of a plugged zipper ---- *)
(* d0 c d1 c ... c dk *)
Definition jt (c : chr) (ds : list dyck) : list chr :=
  match ds with [] => [] | d :: r => rc d ++ segs c r end.

Lemma segs_app c l1 l2 : segs c (l1 ++ l2) = segs c l1 ++ segs c l2.
Proof. induction l1 as [|L r IH]; cbn [segs app]; [reflexivity|]. rewrite IH. lnorm. reflexivity. Qed.

Lemma segs_jt c ds : ds <> [] -> segs c ds = c :: jt c ds.
Proof. destruct ds; [congruence|reflexivity]. Qed.

Lemma jt_snoc c ds d : ds <> [] -> jt c (ds ++ [d]) = jt c ds ++ c :: rc d.
Proof.
  destruct ds as [|d0 r]; [congruence|]. intros _. cbn [app jt]. rewrite segs_app. cbn [segs].
  rewrite app_nil_r. lnorm. reflexivity.
Qed.

Lemma jt_length c c' ds : length (jt c ds) = length (jt c' ds).
Proof. destruct ds; [reflexivity|]. cbn [jt]. rewrite !app_length. f_equal. apply segs_length. Qed.

Lemma map_fst_nonnil {A B} (l : list (A * B)) : l <> [] -> map fst l <> [].
Proof. destruct l; [congruence|discriminate]. Qed.
Lemma rev_nonnil {A} (l : list A) : l <> [] -> rev l <> [].
Proof. destruct l; [congruence|]. cbn. intros _ E. apply app_eq_nil in E. destruct E; discriminate. Qed.
Lemma map_nonnil {A B} (f : A -> B) (l : list A) : l <> [] -> map f l <> [].
Proof. destruct l; [congruence|discriminate]. Qed.

Theorem rc_plug fs : fs <> [] ->
  rc (plug fs) = jt cO (map fst fs) ++ cP :: jt cC (rev (map snd fs)).
Proof.
  induction fs as [|f fs IH]; [congruence|]. intros _. destruct fs as [|g fs].
  - rewrite plug_one, rc_dapp, rc_DB. cbn [map rev app jt segs]. rewrite !app_nil_r. reflexivity.
  - rewrite plug_cons, rc_dapp, rc_DP. rewrite IH by discriminate.
    change (map fst (f :: g :: fs)) with (fst f :: map fst (g :: fs)).
    change (map snd (f :: g :: fs)) with (snd f :: map snd (g :: fs)).
    cbn [jt rev]. rewrite (segs_jt cO (map fst (g :: fs))) by discriminate.
    rewrite jt_snoc by (apply rev_nonnil; discriminate).
    lnorm. reflexivity.
Qed.

Lemma map_fst_rev_swap (fs : list frame) : map fst (rev (map swap fs)) = rev (map snd fs).
Proof. rewrite map_rev, map_map. reflexivity. Qed.
Lemma rev_map_snd_rev_swap (fs : list frame) : rev (map snd (rev (map swap fs))) = map fst fs.
Proof. rewrite map_rev, rev_involutive, map_map. reflexivity. Qed.

Theorem rc_rotZ fs : fs <> [] ->
  rc (rotZ fs) = jt cO (rev (map snd fs)) ++ cP :: jt cC (map fst fs).
Proof.
  intros H. unfold rotZ. rewrite rc_plug by (apply rev_nonnil, map_nonnil, H).
  rewrite map_fst_rev_swap, rev_map_snd_rev_swap. reflexivity.
Qed.

(* ---- the structure part of rotate_complex_once on a zipper ---- *)
Theorem rot_struct_plug fs : fs <> [] ->
  rot_struct (length (jt cO (map fst fs))) (rc (plug fs)) = Ok (rc (rotZ fs)).
Proof.
  intros H. rewrite rc_plug, rc_rotZ by exact H.
  destruct fs as [|f fs]; [congruence|].
  assert (Hb : rev (map snd (f :: fs)) <> []) by (apply rev_nonnil; discriminate).
  destruct (rev (map snd (f :: fs))) as [|B0 Bs]; [congruence|].
  change (map fst (f :: fs)) with (fst f :: map fst fs).
  cbn [jt]. apply rot_struct_zip.
Qed.

(* ---- locating the first '+' ---- *)
Fixpoint first_true (l : list bool) : option nat :=
  match l with
  | [] => None
  | b :: r => if b then Some 0 else option_map S (first_true r)
  end.

Lemma index_of_first_true seq : index_of sPlus seq = first_true (map (str_eqb sPlus) seq).
Proof. induction seq as [|x r IH]; cbn [index_of map first_true]; [reflexivity|]. rewrite IH. reflexivity. Qed.

Lemma first_true_app_false a : Forall (fun b => b = false) a -> forall rest,
  first_true (a ++ true :: rest) = Some (length a).
Proof.
  induction 1 as [|b a Hb _ IH]; intros rest; cbn [app first_true length]; [reflexivity|].
  subst b. rewrite IH. reflexivity.
Qed.

Lemma first_true_none l : Forall (fun b => b = false) l -> first_true l = None.
Proof. induction 1 as [|b a Hb _ IH]; cbn [first_true]; [reflexivity|]. subst b. rewrite IH. reflexivity. Qed.

(* the sequence and the structure have their strand breaks at the same positions *)
Definition aligned (seq : list pstr) (sst : list chr) : Prop :=
  map (str_eqb sPlus) seq = map isP sst.

Lemma aligned_length seq sst : aligned seq sst -> length seq = length sst.
Proof. intros H. apply (f_equal (@length bool)) in H. rewrite !map_length in H. exact H. Qed.

Lemma jt_break_free c ds : isP c = false -> Forall (fun d => has_break d = false) ds ->
  Forall (fun x => isP x = false) (jt c ds).
Proof.
  intros Hc H. destruct H as [|d r Hd Hr]; [constructor|]. cbn [jt]. apply Forall_app. split.
  - apply break_free_rc, Hd.
  - induction Hr as [|e r He _ IH]; cbn [segs]; [constructor|].
    constructor; [exact Hc|]. apply Forall_app. split; [apply break_free_rc, He|exact IH].
Qed.

Lemma lefts_map fs : lefts_break_free fs -> Forall (fun d => has_break d = false) (map fst fs).
Proof. induction 1; cbn [map]; constructor; assumption. Qed.

Lemma first_plus_plug seq fs : fs <> [] -> lefts_break_free fs -> aligned seq (rc (plug fs)) ->
  index_of sPlus seq = Some (length (jt cO (map fst fs))).
Proof.
  intros Hne Hbf Hal. rewrite index_of_first_true, Hal, rc_plug by exact Hne.
  rewrite map_app. cbn [map]. change (isP cP) with true.
  rewrite first_true_app_false; [rewrite map_length; reflexivity|].
  apply Forall_map. apply jt_break_free; [reflexivity|apply lefts_map, Hbf].
Qed.

(* rotate_complex_once on the rendering of a zipper *)
Theorem rot_once_tree seq fs :
  fs <> [] -> lefts_break_free fs -> aligned seq (rc (plug fs)) ->
  let p := length (jt cO (map fst fs)) in
  rotate_complex_once seq (rc (plug fs))
  = Ok (skipn (S p) seq ++ [sPlus] ++ firstn p seq, rc (rotZ fs)).
Proof.
  intros Hne Hbf Hal p. rewrite rotate_complex_once_unfold.
  rewrite (first_plus_plug seq fs Hne Hbf Hal). fold p.
  unfold p. rewrite rot_struct_plug by exact Hne. reflexivity.
Qed.

(* without a break nothing happens *)
Theorem rot_once_no_break seq d :
  has_break d = false -> aligned seq (rc d) -> rotate_complex_once seq (rc d) = Ok (seq, rc d).
Proof.
  intros Hb Hal. rewrite rotate_complex_once_unfold, index_of_first_true, Hal.
  rewrite first_true_none; [reflexivity|]. apply Forall_map. apply break_free_rc, Hb.
Qed.
