(* Registry machine, layer 3: every constructor call, every step and every history
   preserve the invariants. *)
From Coq Require Import List NArith ZArith Bool Arith Lia.
From DSD Require Import Base.Str Base.Errors Model.ComplexUtils Model.RegStr Model.Heap Model.Registry
  Proofs.RegHeap Proofs.RegInv.
Import ListNotations.

(* a call result: the state is fine and a returned object is live *)
Definition CallOK (ct : ctable) (r : state * cout) : Prop :=
  Inv ct (fst r) /\ forall id b, snd r = CRet id b -> is_live (heap (fst r)) id = true.

Lemma callok_err ct st k e : Inv ct st -> CallOK ct (st, CErr k e).
Proof. intros H. split; [exact H | intros id b E; discriminate]. Qed.

(* ---- the look-up ---- *)
Lemma sing_fresh cs name k :
  sing_lookup cs name (Some k) = LFresh ->
  nlookup name (cs_names cs) = None /\ klookup k (cs_canon cs) = None.
Proof.
  unfold sing_lookup. destruct (nonempty name).
  - destruct (nlookup name (cs_names cs)) as [on|]; destruct (klookup k (cs_canon cs)) as [oc|];
      try discriminate; auto. destruct (Nat.eqb on oc); discriminate.
  - destruct (klookup k (cs_canon cs)); discriminate.
Qed.

Lemma sing_fresh_none cs name : sing_lookup cs name None <> LFresh.
Proof.
  unfold sing_lookup. destruct (nonempty name); [destruct (nlookup name (cs_names cs))|]; discriminate.
Qed.

Lemma sing_found_live h c cs name canon o :
  ClassOK h c cs -> sing_lookup cs name canon = LFound o -> is_live h o = true.
Proof.
  intros K. unfold sing_lookup.
  assert (N : forall n i, nlookup n (cs_names cs) = Some i -> is_live h i = true).
  { intros n i E. apply (alookup_in str_eqb str_eqb_iff) in E.
    destruct (ok_nv _ _ _ K n i E) as [x [Hx _]]. eapply live_obj_is_live; eauto. }
  assert (C : forall k i, klookup k (cs_canon cs) = Some i -> is_live h i = true).
  { intros k i E. apply (alookup_in key_eqb key_eqb_iff) in E.
    destruct (ok_cv _ _ _ K k i E) as [x [Hx _]]. eapply live_obj_is_live; eauto. }
  destruct (nonempty name), canon as [k|].
  - destruct (nlookup name (cs_names cs)) as [on|] eqn:E1; destruct (klookup k (cs_canon cs)) as [oc|] eqn:E2;
      try discriminate. destruct (Nat.eqb on oc); [|discriminate]. intros H; injection H as <-. eapply N; eauto.
  - destruct (nlookup name (cs_names cs)) as [on|] eqn:E1; [|discriminate]. intros H; injection H as <-. eapply N; eauto.
  - destruct (klookup k (cs_canon cs)) as [oc|] eqn:E2; [|discriminate]. intros H; injection H as <-. eapply C; eauto.
  - discriminate.
Qed.

(* ---- create ---- *)
Lemma fresh_same_regs st st' c name k extra : same_regs st st' -> Fresh st c name k extra -> Fresh st' c name k extra.
Proof.
  intros [_ [_ [_ Ec]]] [F1 [F2 F3]]. destruct (Ec c) as [E1 E2]. unfold Fresh. rewrite E1, E2. auto.
Qed.

Theorem callok_create ct st c auto name k extra children d :
  Inv ct st -> Fresh st c name k extra ->
  (forall x, In x children -> is_live (heap st) x = true) ->
  ObjOK (mkObj c name k (k :: extra) true children d) ->
  CallOK ct (create ct st c auto name k extra children d).
Proof.
  intros I F Hch HO. unfold create.
  destruct (nth_error ct c) as [ci|] eqn:Ec; [|apply callok_err; exact I].
  assert (Hc : c < length ct) by (apply nth_error_Some; congruence).
  set (st1 := if auto then bump_id ct st c else st).
  assert (S1 : same_regs st st1) by (unfold st1; destruct auto; [apply same_regs_bump | apply same_regs_refl]).
  assert (I1 : Inv ct st1) by (eapply inv_same_regs; eauto).
  assert (F1 : Fresh st1 c name k extra) by (eapply fresh_same_regs; eauto).
  assert (Hch1 : forall x, In x children -> is_live (heap st1) x = true)
    by (destruct S1 as [Eh _]; rewrite Eh; exact Hch).
  destruct (c_fail ci) eqn:Ef.
  - (* FNone *)
    unfold alloc. cbn [fst snd].
    pose proof (inv_alloc_register ct st1 c name k extra children d I1 Hc F1 Hch1 HO) as I2.
    unfold alloc in I2. cbn [fst] in I2. split; [exact I2|].
    intros id b E. cbn [snd] in E. injection E as <- _. cbn [fst].
    unfold register, cput. cbn [heap]. unfold is_live. rewrite hget_new. reflexivity.
  - apply callok_err. exact I.
  - (* FAfter *)
    unfold alloc. cbn [fst snd]. apply callok_err.
    pose proof (inv_alloc_fail ct st1 c name k extra children d I1 Hc F1 Hch1) as I2.
    unfold alloc in I2. cbn [fst] in I2. exact I2.
Qed.

(* ---- generic tail: look-up, then create ---- *)
Lemma callok_lookup_only ct st c nm canon :
  Inv ct st -> c < length ct ->
  CallOK ct (match sing_lookup (cget st c) nm canon with
             | LFound o => (st, CRet o false)
             | LRaise e => (st, CErr eSingleton e)
             | LFresh => (st, CErr eBadRequest None)
             end).
Proof.
  intros I Hc. destruct (sing_lookup (cget st c) nm canon) eqn:E; try (apply callok_err; exact I).
  split; [exact I|]. intros id b E'. cbn in E'. injection E' as <- _. cbn.
  eapply sing_found_live; [apply (ok_cls _ _ (proj1 I) c Hc) | exact E].
Qed.

Lemma callok_lookup_create ct st c nm k auto extra children d :
  Inv ct st -> c < length ct ->
  (forall k', In k' extra -> klookup k' (cs_canon (cget st c)) = None) ->
  (forall x, In x children -> is_live (heap st) x = true) ->
  ObjOK (mkObj c nm k (k :: extra) true children d) ->
  CallOK ct (match sing_lookup (cget st c) nm (Some k) with
             | LFound o => (st, CRet o false)
             | LRaise e => (st, CErr eSingleton e)
             | LFresh => create ct st c auto nm k extra children d
             end).
Proof.
  intros I Hc Fx Hch HO. destruct (sing_lookup (cget st c) nm (Some k)) eqn:E.
  - split; [exact I|]. intros id b E'. cbn in E'. injection E' as <- _. cbn.
    eapply sing_found_live; [apply (ok_cls _ _ (proj1 I) c Hc) | exact E].
  - apply sing_fresh in E. destruct E as [E1 E2]. apply callok_create; [exact I | | exact Hch | exact HO].
    split; [exact E1 | split; [exact E2 | exact Fx]].
  - apply callok_err; exact I.
Qed.

(* ---- DomainS ---- *)
Definition RecOK (ct : ctable) (rec : state -> pstr -> option Z -> state * cout) : Prop :=
  forall st n l, Inv ct st -> CallOK ct (rec st n l).

Ltac fin_inv :=
  cbn [fst snd];
  repeat match goal with
         | |- context [match ?x with _ => _ end] => destruct x; cbn [fst snd]
         end;
  first [assumption | apply inv_collect; assumption].

Lemma inv_dom_nested ct rec st nm len1 :
  RecOK ct rec -> Inv ct st -> Inv ct (fst (dom_nested rec st nm len1)).
Proof.
  intros HR I. unfold dom_nested.
  destruct len1 as [l|], (starred nm).
  - 
    destruct (rec st (cname_of nm) None) as [s1 r] eqn:E1.
    pose proof (HR st (cname_of nm) None I) as [I1 _]. rewrite E1 in I1. cbn in I1.
    destruct r as [o b|k e]; fin_inv.
  - 
    destruct (rec st (cname_of nm) None) as [s1 r] eqn:E1.
    pose proof (HR st (cname_of nm) None I) as [I1 _]. rewrite E1 in I1. cbn in I1.
    destruct r as [o b|k e]; [|fin_inv].
    destruct (obj_length (heap s1) o); [|fin_inv].
    destruct (rec (collect s1) (cname_of nm) (Some l)) as [s2 r2] eqn:E2.
    pose proof (HR (collect s1) (cname_of nm) (Some l) (inv_collect _ _ I1)) as [I2 _].
    rewrite E2 in I2. cbn in I2. fin_inv.
  - destruct (rec st (cname_of nm) None) as [s1 r] eqn:E1.
    pose proof (HR st (cname_of nm) None I) as [I1 _]. rewrite E1 in I1. cbn in I1.
    destruct r as [o b|k e]; fin_inv.
  - exact I.
Qed.

Lemma callok_dom_finish ct c st auto nm len2 :
  Inv ct st -> c < length ct -> CallOK ct (dom_finish ct c st auto nm len2).
Proof.
  intros I Hc. unfold dom_finish. destruct len2 as [l|]; cbn [option_map].
  - apply callok_lookup_create; auto; try (intros ? []). unfold ObjOK. cbn. auto.
  - pose proof (callok_lookup_only ct st c nm None I Hc) as H.
    destruct (sing_lookup (cget st c) nm None); exact H.
Qed.

Lemma callok_dom_body ct rec c st name len prefix dtype :
  RecOK ct rec -> Inv ct st -> CallOK ct (dom_body rec ct c st name len prefix dtype).
Proof.
  intros HR I. unfold dom_body.
  destruct (nth_error ct c) as [ci|] eqn:Ec; [|apply callok_err; exact I].
  assert (Hc : c < length ct) by (apply nth_error_Some; congruence).
  destruct (resolve_name ct st c ci name prefix) as [nm|k]; [|apply callok_err; exact I].
  destruct (dom_len1 ci len dtype) as [len1|k]; [|apply callok_err; exact I].
  destruct (negb (nonempty nm)); [apply callok_err; exact I|].
  pose proof (inv_dom_nested ct rec st nm len1 HR I) as I1.
  destruct (dom_nested rec st nm len1) as [st1 rl]. cbn in I1.
  destruct rl as [len2|k]; [|apply callok_err; exact I1].
  apply callok_dom_finish; assumption.
Qed.

Theorem callok_dom_call fuel ct c st name len prefix dtype :
  Inv ct st -> CallOK ct (dom_call fuel ct c st name len prefix dtype).
Proof.
  revert st name len prefix dtype. induction fuel as [|f IH]; intros st name len prefix dtype I.
  - cbn. apply callok_err. exact I.
  - cbn [dom_call]. apply callok_dom_body; [|exact I].
    intros st' n l I'. apply IH. exact I'.
Qed.

Theorem callok_dom_complement ct st i : Inv ct st -> CallOK ct (dom_complement ct st i).
Proof.
  intros I. unfold dom_complement. destruct (hget (heap st) i) as [o|]; [|apply callok_err; exact I].
  destruct (o_data o); try (apply callok_err; exact I). apply callok_dom_call. exact I.
Qed.

(* ---- ComplexS ---- *)
Lemma cdict_set_keys k e cdict x :
  In x (map fst (cdict_set k e cdict)) -> x = k \/ In x (map fst cdict).
Proof.
  unfold cdict_set. rewrite (aset_keys ckey_eqb ckey_eqb_iff).
  destruct (alookup ckey_eqb k cdict); [right; assumption|].
  intros H. apply in_app_or in H. destruct H as [H|[H|[]]]; [right; exact H | left; symmetry; exact H].
Qed.

Lemma rot_loop_fresh n : forall e reg rseq rstr cdict ex cdict',
  (forall k, In k (map fst cdict) -> klookup (KCplx k) reg = None) ->
  rot_loop n e reg rseq rstr cdict = Ok (ex, cdict') ->
  (forall k, In k (map fst cdict') -> klookup (KCplx k) reg = None) /\
  (forall k t, ex = Some (k, t) -> klookup (KCplx k) reg <> None).
Proof.
  induction n as [|n IH]; intros e reg rseq rstr cdict ex cdict' Hf H; cbn in H.
  - injection H as <- <-. split; [exact Hf | intros k t E; discriminate].
  - destruct (klookup (KCplx (rseq, rstr)) reg) as [o|] eqn:E.
    + injection H as <- <-. split; [exact Hf|]. intros k t E'. injection E' as <- _. congruence.
    + destruct (rotate_complex_once rseq rstr) as [rr|k]; cbn in H; [|discriminate].
      eapply IH; [|exact H]. intros k Hk. apply cdict_set_keys in Hk. destruct Hk as [->|Hk]; [exact E | apply Hf; exact Hk].
Qed.

Theorem callok_cplx_call ct c st seq sst name prefix :
  Inv ct st ->
  (forall es x, seq = Some es -> In x (elem_ids es) -> is_live (heap st) x = true) ->
  CallOK ct (cplx_call ct c st seq sst name prefix).
Proof.
  intros I Hch. unfold cplx_call.
  destruct (nth_error ct c) as [ci|] eqn:Ec; [|apply callok_err; exact I].
  assert (Hc : c < length ct) by (apply nth_error_Some; congruence).
  destruct seq as [es|].
  - destruct (resolve_name ct st c ci name prefix) as [nm|k]; [|apply callok_err; exact I].
    destruct sst as [ss|]; [|apply callok_err; exact I].
    destruct (negb (Nat.eqb (length es) (length ss))); [apply callok_err; exact I|].
    destruct (Nat.eqb (length (make_strand_table_list sPlus (map fst es))) 0); [apply callok_err; exact I|].
    destruct (rot_loop _ 0 (cs_canon (cget st c)) (map fst es) ss []) as [[ex cdict]|k] eqn:ER;
      [|apply callok_err; exact I].
    apply rot_loop_fresh in ER; [|intros k []]. destruct ER as [F1 F2].
    match goal with |- CallOK _ (match ?x with _ => _ end) => destruct x as [[cn e]|k] eqn:EC end;
      [|apply callok_err; exact I].
    apply callok_lookup_create; auto.
    + intros k' Hk. apply in_map_iff in Hk. destruct Hk as [[kk vv] [<- Hin]]. apply F1.
      apply in_map_iff. exists (kk, vv). split; [reflexivity | exact Hin].
    + intros x Hx. eapply Hch; eauto.
    + exact Logic.I.
  - destruct name as [nm|]; [|apply callok_err; exact I].
    pose proof (callok_lookup_only ct st c nm None I Hc) as H.
    destruct (sing_lookup (cget st c) nm None); exact H.
Qed.

(* ---- StrandS ---- *)
Theorem callok_strand_call ct c st seq name prefix :
  Inv ct st ->
  (forall es x, seq = Some es -> In x (elem_ids es) -> is_live (heap st) x = true) ->
  CallOK ct (strand_call ct c st seq name prefix).
Proof.
  intros I Hch. unfold strand_call.
  destruct (nth_error ct c) as [ci|] eqn:Ec; [|apply callok_err; exact I].
  assert (Hc : c < length ct) by (apply nth_error_Some; congruence).
  destruct seq as [es|].
  - destruct (existsb is_plus es); [apply callok_err; exact I|].
    destruct (resolve_name ct st c ci name prefix) as [nm|k]; [|apply callok_err; exact I].
    apply callok_lookup_create; auto; [intros ? [] | intros x Hx; eapply Hch; eauto | exact Logic.I].
  - destruct name as [nm|]; [|apply callok_err; exact I].
    pose proof (callok_lookup_only ct st c nm None I Hc) as H.
    destruct (sing_lookup (cget st c) nm None); exact H.
Qed.

(* ---- MacrostateS ---- *)
Theorem callok_macro_call ct c st members name :
  Inv ct st -> c < length ct ->
  (forall ms x, members = Some ms -> In x ms -> is_live (heap st) x = true) ->
  CallOK ct (macro_call ct c st members name).
Proof.
  intros I Hc Hch. unfold macro_call.
  destruct members as [ms|].
  - destruct (omap' _ ms) as [mks|]; [|apply callok_err; exact I].
    match goal with |- CallOK _ (match ?x with _ => _ end) => destruct x as [nm|k] end;
      [|apply callok_err; exact I].
    match goal with |- CallOK _ (match sing_lookup ?cs ?n (Some ?k) with _ => _ end) =>
      destruct (find (fun i => str_eqb (obj_name (heap st) i) nm) ms) as [rep|] eqn:EF end.
    + apply callok_lookup_create; auto; [intros ? [] | intros x Hx; eapply Hch; eauto | exact Logic.I].
    + pose proof (callok_lookup_only ct st c nm (Some (KMac (map snd (sort_by snd ckey_cmp mks)))) I Hc) as H.
      destruct (sing_lookup (cget st c) nm _); exact H.
  - destruct name as [nm|]; [|apply callok_err; exact I].
    pose proof (callok_lookup_only ct st c nm None I Hc) as H.
    destruct (sing_lookup (cget st c) nm None); exact H.
Qed.

(* ---- ReactionS ---- *)
Theorem callok_reaction_call ct c st rp rtype name :
  Inv ct st -> c < length ct ->
  (forall rs ps x, rp = Some (rs, ps) -> In x (rs ++ ps) -> is_live (heap st) x = true) ->
  CallOK ct (reaction_call ct c st rp rtype name).
Proof.
  intros I Hc Hch. unfold reaction_call.
  destruct rp as [[rs ps]|].
  - destruct (omap' _ rs) as [fr|]; [|apply callok_err; exact I].
    destruct (omap' _ ps) as [fp|]; [|apply callok_err; exact I].
    match goal with |- CallOK _ (if ?b then _ else _) => destruct b end; [apply callok_err; exact I|].
    apply callok_lookup_create; auto; [intros ? [] | intros x Hx; eapply Hch; eauto | exact Logic.I].
  - destruct name as [nm|]; [|apply callok_err; exact I].
    destruct rtype; [apply callok_err; exact I|].
    pose proof (callok_lookup_only ct st c nm None I Hc) as H.
    destruct (sing_lookup (cget st c) nm None); exact H.
Qed.

(* ---- turns setter ---- *)
Theorem inv_set_turns ct st i v : Inv ct st -> Inv ct (fst (set_turns st i v)).
Proof.
  intros I. unfold set_turns.
  destruct (hget (heap st) i) as [o|] eqn:E; [|exact I].
  destruct (o_data o) eqn:ED; try exact I.
  - match goal with |- context [if ?b then _ else _] => destruct b end; [exact I|].
    destruct (rot_n _ seq sst) as [[es' ss']|k]; [|exact I].
    cbn [fst]. apply inv_hset_data; [assumption | assumption |].
    match goal with H : o_data o = _ |- _ => rewrite H end. exact Logic.I.
  - match goal with |- context [if ?b then _ else _] => destruct b end; exact I.
Qed.

(* ------------------------------------------------------------------ *)
(* steps and histories                                                  *)

Lemma get_root_live st s i : HeapOK st -> get_root st s = Some i -> is_live (heap st) i = true.
Proof.
  intros H. unfold get_root. destruct (nth_error (roots st) s) as [[j|]|] eqn:E; try discriminate.
  intros E'. injection E' as <-. apply (hk_roots _ H s j E).
Qed.

Lemma omap'_in {A B} (f : A -> option B) l l' y :
  omap' f l = Some l' -> In y l' -> exists x, In x l /\ f x = Some y.
Proof.
  revert l'. induction l as [|x r IH]; intros l' H Hy; cbn in H.
  - injection H as <-. destruct Hy.
  - destruct (f x) as [z|] eqn:E; [|discriminate]. destruct (omap' f r) as [zs|]; [|discriminate].
    injection H as <-. destruct Hy as [<-|Hy].
    + exists x. split; [left; reflexivity | exact E].
    + destruct (IH zs eq_refl Hy) as [x' [H1 H2]]. exists x'. split; [right; exact H1 | exact H2].
Qed.

Lemma resolve_elems_live st seq es :
  HeapOK st -> resolve_elems st seq = Some es ->
  forall es' x, es = Some es' -> In x (elem_ids es') -> is_live (heap st) x = true.
Proof.
  intros H R es' x -> Hx. unfold resolve_elems in R. destruct seq as [l|]; [|discriminate].
  destruct (omap' (resolve_elem st) l) as [l'|] eqn:E; [|discriminate]. cbn in R. injection R as <-.
  unfold elem_ids in Hx. apply in_flat_map in Hx. destruct Hx as [e [He Hx]].
  destruct (snd e) as [i|] eqn:Es; [|destruct Hx]. destruct Hx as [<-|[]].
  destruct (omap'_in _ _ _ _ E He) as [u [_ Hu]]. unfold resolve_elem in Hu.
  destruct u as [|s|s]; try (injection Hu as <-; cbn in Es; discriminate).
  destruct (get_root st s) as [j|] eqn:Eg; [|discriminate]. injection Hu as <-. cbn in Es. injection Es as <-.
  eapply get_root_live; eauto.
Qed.

Lemma resolve_slots_live st l ids :
  HeapOK st -> resolve_slots st l = Some ids -> forall x, In x ids -> is_live (heap st) x = true.
Proof.
  intros H R x Hx. unfold resolve_slots in R. destruct (omap'_in _ _ _ _ R Hx) as [s [_ Hs]].
  eapply get_root_live; eauto.
Qed.

Theorem inv_finish ct dst r : CallOK ct r -> Inv ct (fst (finish dst r)).
Proof.
  intros [I L]. unfold finish. destruct (snd r) as [id b|k e] eqn:E; cbn [fst].
  - apply inv_collect. apply inv_set_root; [exact I|]. intros i Ei. injection Ei as <-. eapply L; eauto.
  - apply inv_collect. exact I.
Qed.

Lemma kind_is_lt ct c k : kind_is ct c k = true -> c < length ct.
Proof.
  unfold kind_is, class_kind. destruct (nth_error ct c) eqn:E; [|discriminate].
  intros _. apply nth_error_Some. congruence.
Qed.

Theorem inv_step ct st o : Inv ct st -> Inv ct (fst (step ct st o)).
Proof.
  intros I. pose proof (proj2 I) as H. destruct o; cbn [step].
  - destruct (kind_is ct cls KindD); [|exact I]. apply inv_finish. apply callok_dom_call. exact I.
  - destruct (kind_is ct cls KindC); [|exact I].
    destruct (resolve_elems st seq) as [es|] eqn:E; [|exact I].
    apply inv_finish. apply callok_cplx_call; [exact I|]. apply (resolve_elems_live st seq es H E).
  - destruct (kind_is ct cls KindS); [|exact I].
    destruct (resolve_elems st seq) as [es|] eqn:E; [|exact I].
    apply inv_finish. apply callok_strand_call; [exact I|]. apply (resolve_elems_live st seq es H E).
  - destruct (kind_is ct cls KindM) eqn:EK; [|exact I]. apply kind_is_lt in EK.
    destruct members as [l|].
    + destruct (resolve_slots st l) as [ids|] eqn:E; [|exact I].
      apply inv_finish. apply callok_macro_call; [exact I | exact EK|].
      intros ms x Ems Hx. injection Ems as <-. eapply resolve_slots_live; eauto.
    + apply inv_finish. apply callok_macro_call; [exact I | exact EK | intros ms x Ems; discriminate].
  - destruct (kind_is ct cls KindR) eqn:EK; [|exact I]. apply kind_is_lt in EK.
    destruct rp as [[r p]|].
    + destruct (resolve_slots st r) as [r'|] eqn:E1; [|exact I].
      destruct (resolve_slots st p) as [p'|] eqn:E2; [|exact I].
      apply inv_finish. apply callok_reaction_call; [exact I | exact EK|].
      intros rs ps x Ers Hx. injection Ers as <- <-. apply in_app_or in Hx.
      destruct Hx as [Hx|Hx]; [apply (resolve_slots_live st r r' H E1 x Hx) | apply (resolve_slots_live st p p' H E2 x Hx)].
    + apply inv_finish. apply callok_reaction_call; [exact I | exact EK | intros rs ps x Ers; discriminate].
  - destruct (get_root st src) as [i|]; [|exact I].
    destruct (hget (heap st) i) as [ob|]; [|exact I].
    destruct (o_data ob); try exact I. apply inv_finish. apply callok_dom_complement. exact I.
  - cbn [fst]. apply inv_collect. apply inv_set_root; [exact I | intros i Ei; discriminate].
  - destruct (get_root st slot) as [i|]; [|exact I].
    destruct (hget (heap st) i) as [ob|]; [|exact I].
    destruct (query_obj ct (heap st) ob q); exact I.
  - destruct (get_root st slot) as [i|]; [|exact I].
    destruct (hget (heap st) i) as [ob|]; [|exact I].
    destruct (o_data ob); try exact I.
    + pose proof (inv_set_turns ct st i v I) as I'. destruct (set_turns st i v) as [st' [u|k]]; cbn in *; exact I'.
    + pose proof (inv_set_turns ct st i v I) as I'. destruct (set_turns st i v) as [st' [u|k]]; cbn in *; exact I'.
Qed.

Theorem inv_run ct st ops : Inv ct st -> Inv ct (run ct st ops).
Proof.
  revert st. induction ops as [|o r IH]; intros st I; cbn; [exact I|].
  apply IH. apply inv_step. exact I.
Qed.

(* every reachable state *)
Theorem inv_reachable ct n ops : Inv ct (run ct (init ct n) ops).
Proof. apply inv_run. apply inv_init. Qed.
