(* Registry machine, layer 5: the full invariant of reachable states
   (Inv + Collected + domain complementarity) over steps and histories. *)
From Coq Require Import List NArith ZArith Bool Arith Lia.
From DSD Require Import Base.Str Base.Errors Model.ComplexUtils Model.RegStr Model.Heap Model.Registry
  Proofs.RegHeap Proofs.RegInv Proofs.RegCalls Proofs.RegExt Proofs.RegC04.
Import ListNotations.

(* ---- Collected is kept by every step ---- *)
Lemma collected_hset_data st i o d :
  Collected st -> hget (heap st) i = Some o ->
  Collected (mkState (hset (heap st) i (with_data o d)) (classes st) (roots st)).
Proof.
  intros C Hg.
  assert (G' : forall j x', hget (heap st) j = Some x' ->
              exists x, hget (hset (heap st) i (with_data o d)) j = Some x /\
                        o_live x = o_live x' /\ o_children x = o_children x').
  { intros j x' Hx. rewrite hget_hset. destruct (Nat.eqb j i) eqn:E.
    - apply Nat.eqb_eq in E. subst j. rewrite Hg in *. injection Hx as <-. cbn. eexists. split; [reflexivity|]. auto.
    - exists x'. auto. }
  assert (L : forall j, is_live (hset (heap st) i (with_data o d)) j = true -> is_live (heap st) j = true).
  { intros j. unfold is_live. rewrite hget_hset. destruct (Nat.eqb j i) eqn:E; [|auto].
    apply Nat.eqb_eq in E. subst j. rewrite Hg. cbn. auto. }
  intros j Hj. cbn [heap roots] in *. apply L in Hj. apply C in Hj.
  induction Hj as [j Hs | j' j x Rj IH Hx Hl Hc]; [apply R_seed; exact Hs|].
  destruct (G' j' x Hx) as [x2 [H1 [H2 H3]]]. eapply R_child; [exact IH | exact H1 | congruence | rewrite H3; exact Hc].
Qed.

Lemma collected_set_turns st i v : Collected st -> Collected (fst (set_turns st i v)).
Proof.
  intros C. unfold set_turns. destruct (hget (heap st) i) as [o|] eqn:E; [|exact C].
  destruct (o_data o); try exact C.
  - match goal with |- context [if ?b then _ else _] => destruct b end; [exact C|].
    destruct (rot_n _ seq sst) as [[es' ss']|]; [|exact C]. cbn [fst]. apply collected_hset_data; assumption.
  - match goal with |- context [if ?b then _ else _] => destruct b end; exact C.
Qed.

Lemma collected_finish ct dst r : CallOK ct r -> Collected (fst (finish dst r)).
Proof.
  intros [I L]. unfold finish. destruct (snd r) as [id b|k e] eqn:E; cbn [fst]; apply collected_collect.
  - assert (Hv : forall i, Some id = Some i -> is_live (heap (fst r)) i = true)
      by (intros i Ei; injection Ei as <-; eapply L; eauto).
    apply (proj2 (inv_set_root ct (fst r) dst (Some id) I Hv)).
  - apply (proj2 I).
Qed.

Theorem collected_step ct st o : Inv ct st -> Collected st -> Collected (fst (step ct st o)).
Proof.
  intros I C. pose proof (proj2 I) as H. destruct o; cbn [step].
  - destruct (kind_is ct cls KindD); [|exact C]. apply (collected_finish ct). apply callok_dom_call. exact I.
  - destruct (kind_is ct cls KindC); [|exact C].
    destruct (resolve_elems st seq) as [es|] eqn:E; [|exact C].
    apply (collected_finish ct). apply callok_cplx_call; [exact I|]. apply (resolve_elems_live st seq es H E).
  - destruct (kind_is ct cls KindS); [|exact C].
    destruct (resolve_elems st seq) as [es|] eqn:E; [|exact C].
    apply (collected_finish ct). apply callok_strand_call; [exact I|]. apply (resolve_elems_live st seq es H E).
  - destruct (kind_is ct cls KindM) eqn:EK; [|exact C]. apply kind_is_lt in EK.
    destruct members as [l|].
    + destruct (resolve_slots st l) as [ids|] eqn:E; [|exact C].
      apply (collected_finish ct). apply callok_macro_call; [exact I | exact EK|].
      intros ms x Ems Hx. injection Ems as <-. eapply resolve_slots_live; eauto.
    + apply (collected_finish ct). apply callok_macro_call; [exact I | exact EK | intros ms x Ems; discriminate].
  - destruct (kind_is ct cls KindR) eqn:EK; [|exact C]. apply kind_is_lt in EK.
    destruct rp as [[r p]|].
    + destruct (resolve_slots st r) as [r'|] eqn:E1; [|exact C].
      destruct (resolve_slots st p) as [p'|] eqn:E2; [|exact C].
      apply (collected_finish ct). apply callok_reaction_call; [exact I | exact EK|].
      intros rs ps x Ers Hx. injection Ers as <- <-. apply in_app_or in Hx.
      destruct Hx as [Hx|Hx]; [apply (resolve_slots_live st r r' H E1 x Hx) | apply (resolve_slots_live st p p' H E2 x Hx)].
    + apply (collected_finish ct). apply callok_reaction_call; [exact I | exact EK | intros rs ps x Ers; discriminate].
  - destruct (get_root st src) as [i|]; [|exact C].
    destruct (hget (heap st) i) as [ob|]; [|exact C].
    destruct (o_data ob); try exact C. apply (collected_finish ct). apply callok_dom_complement. exact I.
  - cbn [fst]. apply collected_collect. assert (Hv : forall i, @None nat = Some i -> is_live (heap st) i = true) by (intros; discriminate).
    apply (proj2 (inv_set_root ct st slot None I Hv)).
  - destruct (get_root st slot) as [i|]; [|exact C].
    destruct (hget (heap st) i) as [ob|]; [|exact C].
    destruct (query_obj ct (heap st) ob q); exact C.
  - destruct (get_root st slot) as [i|]; [|exact C].
    destruct (hget (heap st) i) as [ob|]; [|exact C].
    destruct (o_data ob); try exact C.
    + pose proof (collected_set_turns st i v C) as C'. destruct (set_turns st i v) as [st' [u|k]]; cbn in *; exact C'.
    + pose proof (collected_set_turns st i v C) as C'. destruct (set_turns st i v) as [st' [u|k]]; cbn in *; exact C'.
Qed.

(* ---- domain complementarity is kept by every step (C04) ---- *)
Lemma kind_is_class_kind ct c k : kind_is ct c k = true -> class_kind ct c = Some k.
Proof.
  unfold kind_is. destruct (class_kind ct c) as [k'|]; [|discriminate].
  destruct k, k'; cbn; intros H; try discriminate; reflexivity.
Qed.

Theorem dok_step ct st o :
  Inv ct st -> Collected st -> DOK ct st -> DOK ct (fst (step ct st o)).
Proof.
  intros I C D. pose proof (proj2 I) as H. destruct o; cbn [step].
  - destruct (kind_is ct cls KindD) eqn:EK; [|exact D]. apply kind_is_class_kind in EK.
    apply dok_finish. apply dok_dom_call; auto.
  - destruct (kind_is ct cls KindC) eqn:EK; [|exact D]. apply kind_is_class_kind in EK.
    destruct (resolve_elems st seq); [|exact D]. apply dok_finish. apply dok_cplx_call; auto.
  - destruct (kind_is ct cls KindS) eqn:EK; [|exact D]. apply kind_is_class_kind in EK.
    destruct (resolve_elems st seq); [|exact D]. apply dok_finish. apply dok_strand_call; auto.
  - destruct (kind_is ct cls KindM) eqn:EK; [|exact D]. apply kind_is_class_kind in EK.
    destruct members as [l|]; [destruct (resolve_slots st l); [|exact D]|]; apply dok_finish; apply dok_macro_call; auto.
  - destruct (kind_is ct cls KindR) eqn:EK; [|exact D]. apply kind_is_class_kind in EK.
    destruct rp as [[r p]|].
    + destruct (resolve_slots st r); [|exact D]. destruct (resolve_slots st p); [|exact D].
      apply dok_finish; apply dok_reaction_call; auto.
    + apply dok_finish; apply dok_reaction_call; auto.
  - destruct (get_root st src) as [i|] eqn:Er; [|exact D].
    destruct (hget (heap st) i) as [ob|] eqn:Eo; [|exact D].
    destruct (o_data ob) as [l| | | |] eqn:Ed; try exact D.
    apply dok_finish. unfold dom_complement. rewrite Eo, Ed.
    assert (Hl : live_obj (heap st) i ob).
    { split; [exact Eo|]. pose proof (get_root_live st src i H Er) as L. unfold is_live in L. rewrite Eo in L. exact L. }
    destruct D as [Cm [Z K]]. apply dok_dom_call; auto.
    + rewrite (K i ob Hl), Ed. reflexivity.
    + split; [exact Cm | split; [exact Z | exact K]].
  - cbn [fst]. apply dok_collect. apply dok_set_root. exact D.
  - destruct (get_root st slot) as [i|]; [|exact D].
    destruct (hget (heap st) i) as [ob|]; [|exact D].
    destruct (query_obj ct (heap st) ob q); exact D.
  - destruct (get_root st slot) as [i|]; [|exact D].
    destruct (hget (heap st) i) as [ob|]; [|exact D].
    destruct (o_data ob); try exact D.
    + pose proof (dok_set_turns ct st i v D) as D'. destruct (set_turns st i v) as [st' [u|k]]; cbn in *; exact D'.
    + pose proof (dok_set_turns ct st i v D) as D'. destruct (set_turns st i v) as [st' [u|k]]; cbn in *; exact D'.
Qed.

(* the invariant of every reachable state *)
Record Good (ct : ctable) (st : state) : Prop := mkGood {
  g_inv : Inv ct st;
  g_col : Collected st;
  g_dok : DOK ct st
}.

Lemma dok_init ct n : DOK ct (init ct n).
Proof.
  split; [|split].
  - intros i j oi oj li lj [H _]. cbn in H. discriminate.
  - intros i o l [H _]. cbn in H. discriminate.
  - intros i o [H _]. cbn in H. discriminate.
Qed.

Theorem good_init ct n : Good ct (init ct n).
Proof. constructor; [apply inv_init | apply collected_init | apply dok_init]. Qed.

Theorem good_step ct st o :
  Good ct st -> Good ct (fst (step ct st o)).
Proof.
  intros [I C D]. constructor; [apply inv_step; exact I | apply collected_step; assumption | apply dok_step; assumption].
Qed.

Theorem good_run ct st ops :
  Good ct st -> Good ct (run ct st ops).
Proof.
  revert st. induction ops as [|o r IH]; intros st G; cbn; [exact G|].
  apply IH. apply good_step; assumption.
Qed.

Theorem good_reachable ct n ops :
  Good ct (run ct (init ct n) ops).
Proof. apply good_run. apply good_init. Qed.

(* Inv and Collected alone *)
Theorem inv_collected_run ct st ops : Inv ct st -> Collected st -> Inv ct (run ct st ops) /\ Collected (run ct st ops).
Proof.
  revert st. induction ops as [|o r IH]; intros st I C; cbn; [auto|].
  apply IH; [apply inv_step; exact I | apply collected_step; assumption].
Qed.

(* ------------------------------------------------------------------ *)
(* a refused request changes nothing (up to dead temporaries)           *)

Lemma set_turns_err st i v k : snd (set_turns st i v) = Err k -> fst (set_turns st i v) = st.
Proof.
  unfold set_turns. destruct (hget (heap st) i) as [o|]; [|reflexivity].
  destruct (o_data o); try reflexivity.
  - match goal with |- context [if ?b then _ else _] => destruct b end; [reflexivity|].
    destruct (rot_n _ seq sst) as [[es' ss']|]; [discriminate | reflexivity].
  - match goal with |- context [if ?b then _ else _] => destruct b end; reflexivity.
Qed.

Lemma finish_raised_junk ct st dst r st' k e :
  Inv ct st -> Collected st -> Ext st (fst r) -> finish dst r = (st', Raised k e) -> Junk st st'.
Proof.
  intros I C X. unfold finish. destruct (snd r) as [id b|k' e'].
  - destruct b; discriminate.
  - intros E. injection E as <- _ _. eapply collect_ext; eauto.
Qed.

Theorem step_raised_junk ct st o st' k e :
  Inv ct st -> Collected st -> step ct st o = (st', Raised k e) -> Junk st st'.
Proof.
  intros I C. destruct o; cbn [step].
  - destruct (kind_is ct cls KindD); [|discriminate]. apply (finish_raised_junk ct); auto. apply ext_dom_call; auto.
  - destruct (kind_is ct cls KindC); [|discriminate]. destruct (resolve_elems st seq); [|discriminate].
    apply (finish_raised_junk ct); auto. apply ext_cplx_call; auto.
  - destruct (kind_is ct cls KindS); [|discriminate]. destruct (resolve_elems st seq); [|discriminate].
    apply (finish_raised_junk ct); auto. apply ext_strand_call; auto.
  - destruct (kind_is ct cls KindM); [|discriminate].
    destruct members as [l|]; [destruct (resolve_slots st l); [|discriminate]|];
      apply (finish_raised_junk ct); auto; apply ext_macro_call; auto.
  - destruct (kind_is ct cls KindR); [|discriminate]. destruct rp as [[r p]|].
    + destruct (resolve_slots st r); [|discriminate]. destruct (resolve_slots st p); [|discriminate].
      apply (finish_raised_junk ct); auto; apply ext_reaction_call; auto.
    + apply (finish_raised_junk ct); auto; apply ext_reaction_call; auto.
  - destruct (get_root st src) as [i|]; [|discriminate].
    destruct (hget (heap st) i) as [ob|]; [|discriminate].
    destruct (o_data ob); try discriminate. apply (finish_raised_junk ct); auto. apply ext_dom_complement; auto.
  - discriminate.
  - destruct (get_root st slot) as [i|]; [|discriminate].
    destruct (hget (heap st) i) as [ob|]; [|discriminate].
    destruct (query_obj ct (heap st) ob q); [discriminate|]. intros E. injection E as <- _ _. apply junk_refl.
  - destruct (get_root st slot) as [i|]; [|discriminate].
    destruct (hget (heap st) i) as [ob|]; [|discriminate].
    destruct (o_data ob); try discriminate.
    + pose proof (set_turns_err st i v) as T. destruct (set_turns st i v) as [s [u|k']]; [discriminate|].
      intros E. injection E as <- _ _. pose proof (T k' eq_refl) as T'. cbn in T'. subst s. apply junk_refl.
    + pose proof (set_turns_err st i v) as T. destruct (set_turns st i v) as [s [u|k']]; [discriminate|].
      intros E. injection E as <- _ _. pose proof (T k' eq_refl) as T'. cbn in T'. subst s. apply junk_refl.
Qed.

(* consequences of Junk: same roots, same registries, same live objects *)
Theorem junk_observables st s :
  Junk st s ->
  roots s = roots st /\
  (forall c, cs_names (cget s c) = cs_names (cget st c) /\ cs_canon (cget s c) = cs_canon (cget st c)) /\
  (forall i o, live_obj (heap s) i o <-> live_obj (heap st) i o).
Proof.
  intros J. split; [apply (jk_roots _ _ J)|]. split; [apply (jk_regs _ _ J)|].
  intros i o. split; [apply (livesub_junk _ _ J) | apply (livesub_junk_rev _ _ J)].
Qed.
