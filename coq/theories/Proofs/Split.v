(* C09: splitting — facts that hold for every table (no well-formedness):
   the scan, the fuel, the strands of the parts; and the connected case on
   tree tables. *)
From Coq Require Import List Arith Lia Bool NArith Permutation Sorted.
From DSD Require Import Base.Str Base.Errors Model.ComplexUtils Dyck.Dyck
  Proofs.Mpt Proofs.Db Proofs.Assoc Proofs.Loops.
Import ListNotations.

(* ------------------------------------------------------------------ *)
(* slicing                                                              *)

Lemma slice_length {A} (l : list A) i j : j <= length l -> length (slice l i j) = j - i.
Proof. intros H. unfold slice. rewrite firstn_length, skipn_length. lia. Qed.

(* the two halves of splice share out the strands *)
Lemma splice_lengths {A} (stab : list (list A)) ptab i j :
  i <= j -> j < length stab ->
  let '((iss, _), (oss, _)) := splice stab ptab i j in
  length iss = S j - i /\ length oss = length stab - (S j - i).
Proof.
  intros Hij Hj. unfold splice. split.
  - apply slice_length. lia.
  - rewrite app_length, firstn_length, skipn_length. lia.
Qed.

Lemma skipn_skipn' {A} (l : list A) : forall a b, skipn a (skipn b l) = skipn (b + a) l.
Proof.
  induction l as [|x l IH]; intros a b.
  - rewrite !skipn_nil. reflexivity.
  - destruct b as [|b]; [reflexivity|]. cbn [skipn Nat.add]. apply IH.
Qed.

Lemma slice_decomp {A} (l : list A) i j :
  i <= j -> l = firstn i l ++ slice l i j ++ skipn j l.
Proof.
  intros Hij. unfold slice.
  rewrite <- (firstn_skipn i l) at 1. f_equal.
  rewrite <- (firstn_skipn (j - i) (skipn i l)) at 1. f_equal.
  rewrite skipn_skipn'. f_equal. lia.
Qed.

Lemma slice_map {A B} (f : A -> B) l i j : slice (map f l) i j = map f (slice l i j).
Proof. unfold slice. rewrite skipn_map, firstn_map. reflexivity. Qed.

(* ------------------------------------------------------------------ *)
(* the scan                                                             *)

Lemma chain_length fr ls : length (chain fr ls) = length ls.
Proof. revert fr; induction ls as [|l r IH]; intros fr; cbn; auto. Qed.

(* SSplice i j: i <= j < n - 1, for every list of intervals *)
Lemma scan_bounds ext : forall seen j n a b,
  (forall k v, lookup k seen = Some v -> v <= j) ->
  j + length ext = n ->
  split_scan n seen j ext = SSplice a b -> a <= b /\ S b < n.
Proof.
  induction ext as [|[fr to] ext IH]; intros seen j n a b Hinv Hn H; cbn [split_scan] in H; [discriminate|].
  destruct (lookup fr seen) as [v|]; [|discriminate].
  destruct (negb (v =? j)); [discriminate|].
  cbn [length] in Hn.
  destruct (j =? n - 1) eqn:Ej.
  - destruct (lookup to seen); discriminate.
  - apply Nat.eqb_neq in Ej.
    destruct (lookup to seen) as [i|] eqn:El.
    + injection H as <- <-. split; [apply (Hinv to), El|lia].
    + apply (IH ((to, S j) :: seen) (S j) n a b); [|lia|exact H].
      intros k v'. cbn [lookup]. destruct (k =? to).
      * intros E; injection E as <-. lia.
      * intros E. apply Hinv in E. lia.
Qed.

Lemma eAssert_not_fuel : eAssert <> eFuel.
Proof. intros H. vm_compute in H. discriminate. Qed.
Lemma eIndex_not_fuel : eIndex <> eFuel.
Proof. intros H. vm_compute in H. discriminate. Qed.
Lemma eSSE_not_fuel : eSSE <> eFuel.
Proof. intros H. vm_compute in H. discriminate. Qed.

Lemma SFail_inj a b : SFail a = SFail b -> a = b.
Proof. intros H. exact (f_equal (fun x => match x with SFail k => k | _ => [] end) H). Qed.

Lemma scan_not_fuel ext : forall seen j n,
  ext <> [] -> j + length ext = n -> split_scan n seen j ext <> SFail eFuel.
Proof.
  induction ext as [|[fr to] ext IH]; intros seen j n Hne Hn; [congruence|].
  cbn [split_scan]. cbn [length] in Hn.
  destruct (lookup fr seen) as [v|]; [|intros H; exact (eAssert_not_fuel (SFail_inj _ _ H))].
  destruct (negb (v =? j)); [intros H; exact (eAssert_not_fuel (SFail_inj _ _ H))|].
  destruct (j =? n - 1) eqn:Ej.
  - destruct (lookup to seen); [discriminate|intros H; exact (eAssert_not_fuel (SFail_inj _ _ H))].
  - apply Nat.eqb_neq in Ej. destruct (lookup to seen); [discriminate|].
    apply IH; [|lia]. destruct ext; [cbn in Hn; lia|discriminate].
Qed.

(* all break loops distinct: the scan runs to the end and yields *)
Lemma scan_yield ls : forall seen j fr n,
  lookup fr seen = Some j -> j + S (length ls) = n ->
  (forall x, In x ls -> lookup x seen = None) -> NoDup ls -> lookup 0 seen <> None ->
  split_scan n seen j (chain fr (ls ++ [0])) = SYield.
Proof.
  induction ls as [|l r IH]; intros seen j fr n Hfr Hn Hnew Hnd H0; cbn [app chain split_scan].
  - rewrite Hfr, Nat.eqb_refl. cbn [negb]. cbn [length] in Hn.
    replace (j =? n - 1) with true by (symmetry; apply Nat.eqb_eq; lia).
    destruct (lookup 0 seen); [reflexivity|congruence].
  - rewrite Hfr, Nat.eqb_refl. cbn [negb]. cbn [length] in Hn.
    replace (j =? n - 1) with false by (symmetry; apply Nat.eqb_neq; lia).
    rewrite (Hnew l) by (left; reflexivity).
    inversion Hnd as [|? ? Hl Hr]; subst.
    apply IH.
    + cbn [lookup]. rewrite Nat.eqb_refl. reflexivity.
    + lia.
    + intros x Hx. cbn [lookup]. destruct (x =? l) eqn:E.
      * apply Nat.eqb_eq in E. subst x. contradiction.
      * apply Hnew. right. exact Hx.
    + exact Hr.
    + cbn [lookup]. destruct (0 =? l); [discriminate|exact H0].
Qed.

(* ------------------------------------------------------------------ *)
(* split_connected_id                                                   *)

Theorem split_connected_id {A} (stab : list (list A)) d fuel :
  NoDup (ends d) -> split_complex_pt (S fuel) stab (tab_of d) = Ok [(stab, tab_of d)].
Proof.
  intros Hnd. cbn [split_complex_pt]. rewrite li_spec_comp. cbn [rbind snd].
  unfold ends in *.
  assert (Hy : split_scan (length (chain 0 (bl d 0 0 ++ [0]))) [(0, 0)] 0 (chain 0 (bl d 0 0 ++ [0])) = SYield).
  { apply scan_yield.
    - reflexivity.
    - rewrite chain_length, app_length. cbn [length]. lia.
    - intros x Hx. cbn [lookup]. destruct (x =? 0) eqn:E; [|reflexivity].
      apply Nat.eqb_eq in E. subst x. exfalso.
      apply NoDup_remove_2 in Hnd. rewrite app_nil_r in Hnd. contradiction.
    - apply NoDup_remove_1 in Hnd. rewrite app_nil_r in Hnd. exact Hnd.
    - discriminate. }
  destruct (chain 0 (bl d 0 0 ++ [0])) as [|e ext] eqn:E.
  - destruct (bl d 0 0); discriminate.
  - rewrite Hy. reflexivity.
Qed.

(* ------------------------------------------------------------------ *)
(* make_loop_index_comp on any table: one interval per strand, only IndexError *)

Lemma li_rows_comp_len t : forall s si ext my r,
  li_rows true s si ext my t = Ok r -> length (snd r) = length my + length t.
Proof.
  induction t as [|row t IH]; intros s si ext my r H; cbn [li_rows] in H.
  - injection H as <-. cbn. lia.
  - destruct (li_row _ si 0 row) as [s1|k]; cbn [rbind] in H; [|discriminate].
    destruct (existsb _ ext); apply IH in H; rewrite H, app_length; cbn [length]; lia.
Qed.

Lemma li_comp_len t le : make_loop_index_comp t = Ok le -> length (snd le) = length t.
Proof.
  unfold make_loop_index_comp, make_loop_index_raw.
  destruct (li_rows true _ 0 [] [] t) as [r|k] eqn:E; cbn [rbind]; [|discriminate].
  intros H. injection H as <-. cbn [snd]. apply li_rows_comp_len in E. exact E.
Qed.

Lemma li_pos_err s si di e k : li_pos s si di e = Err k -> k = eIndex.
Proof.
  unfold li_pos. destruct e as [p|]; [|discriminate].
  destruct (loc_ltb (si, di) p); destruct (loc_ltb p (si, di)); try discriminate.
  - destruct (l_stack s); [|discriminate]. intros H; injection H as <-. reflexivity.
Qed.

Lemma li_row_err r : forall s si di k, li_row s si di r = Err k -> k = eIndex.
Proof.
  induction r as [|e r IH]; intros s si di k H; cbn [li_row] in H; [discriminate|].
  destruct (li_pos s si di e) as [s1|k1] eqn:E; cbn [rbind] in H.
  - eapply IH, H.
  - injection H as <-. eapply li_pos_err, E.
Qed.

Lemma li_rows_comp_err t : forall s si ext my k,
  li_rows true s si ext my t = Err k -> k = eIndex.
Proof.
  induction t as [|row t IH]; intros s si ext my k H; cbn [li_rows] in H; [discriminate|].
  destruct (li_row _ si 0 row) as [s1|k1] eqn:E; cbn [rbind] in H.
  - destruct (existsb _ ext); eapply IH, H.
  - injection H as <-. eapply li_row_err, E.
Qed.

Lemma li_comp_err t k : make_loop_index_comp t = Err k -> k = eIndex.
Proof.
  unfold make_loop_index_comp, make_loop_index_raw.
  destruct (li_rows true _ 0 [] [] t) as [r|k1] eqn:E; cbn [rbind]; [discriminate|].
  intros H; injection H as <-. eapply li_rows_comp_err, E.
Qed.

(* ------------------------------------------------------------------ *)
(* split_no_fuel: fuel = S (number of strands) always suffices          *)

Lemma scan_start_inv : forall k v, lookup k [(0, 0)] = Some v -> v <= 0.
Proof. intros k v. cbn. destruct (k =? 0); [intros H; injection H as <-; lia|discriminate]. Qed.

Theorem split_no_fuel {A} fuel : forall (stab : list (list A)) ptab k,
  length ptab < fuel -> split_complex_pt fuel stab ptab = Err k -> k <> eFuel.
Proof.
  induction fuel as [|fuel IH]; intros stab ptab k Hlen H; [lia|].
  cbn [split_complex_pt] in H.
  destruct (make_loop_index_comp ptab) as [le|k1] eqn:Eli; cbn [rbind] in H.
  2:{ injection H as <-. rewrite (li_comp_err _ _ Eli). exact eIndex_not_fuel. }
  pose proof (li_comp_len _ _ Eli) as Hn. unfold tab, row in *.
  destruct (snd le) as [|e ext] eqn:Eext; [discriminate|].
  rewrite <- Eext in H, Hn.
  destruct (split_scan (length (snd le)) [(0, 0)] 0 (snd le)) as [|i j|k1] eqn:Es.
  - discriminate.
  - assert (Hb : i <= j /\ S j < length (snd le)).
    { eapply scan_bounds; [exact scan_start_inv| |exact Es]. reflexivity. }
    unfold splice in H.
    destruct (split_complex_pt fuel (slice stab i (S j)) _) as [a|ka] eqn:Ea; cbn [rbind] in H.
    + destruct (split_complex_pt fuel (firstn i stab ++ skipn (S j) stab) _) as [b|kb] eqn:Eb; cbn [rbind] in H; [discriminate|].
      injection H as <-. eapply IH; [|exact Eb].
      rewrite map_length, app_length, firstn_length, skipn_length. unfold tab, row in *. lia.
    + injection H as <-. eapply IH; [|exact Ea].
      unfold tab, row in *. rewrite map_length, slice_length by lia. lia.
  - injection H as <-.
    intros ->. eapply scan_not_fuel; [| |exact Es]; [rewrite Eext; discriminate|reflexivity].
Qed.

(* ------------------------------------------------------------------ *)
(* split_partition: the strands of the parts, for every table           *)

Definition sel {A} (S0 : list (list A)) (ix : list nat) : list (list A) :=
  map (fun k => nth k S0 []) ix.

Lemma sel_slice {A} (S0 : list (list A)) ix i j : slice (sel S0 ix) i j = sel S0 (slice ix i j).
Proof. unfold sel. apply slice_map. Qed.
Lemma sel_outer {A} (S0 : list (list A)) ix i j :
  firstn i (sel S0 ix) ++ skipn j (sel S0 ix) = sel S0 (firstn i ix ++ skipn j ix).
Proof. unfold sel. rewrite map_app, firstn_map, skipn_map. reflexivity. Qed.

Lemma ss_app_iff {A} (R : A -> A -> Prop) a b :
  StronglySorted R (a ++ b) <->
  StronglySorted R a /\ StronglySorted R b /\ (forall x y, In x a -> In y b -> R x y).
Proof.
  induction a as [|x a IH]; cbn [app].
  - split; [intros H; repeat split; [constructor|exact H|intros ? ? []]|intros (_ & H & _); exact H].
  - split.
    + intros H. inversion H as [|? ? Hs Hf]; subst. apply IH in Hs. destruct Hs as (Ha & Hb & Hab).
      rewrite Forall_app in Hf. destruct Hf as [Hfa Hfb].
      split; [constructor; assumption|]. split; [exact Hb|].
      intros u v [->|Hu] Hv; [rewrite Forall_forall in Hfb; apply Hfb, Hv|apply Hab; assumption].
    + intros (Ha & Hb & Hab). inversion Ha as [|? ? Hs Hf]; subst. constructor.
      * apply IH. repeat split; [exact Hs|exact Hb|]. intros u v Hu Hv. apply Hab; [right; exact Hu|exact Hv].
      * rewrite Forall_app. split; [exact Hf|]. rewrite Forall_forall. intros v Hv. apply Hab; [left; reflexivity|exact Hv].
Qed.

Lemma ss_splice ix i j :
  i <= j -> StronglySorted lt ix ->
  StronglySorted lt (slice ix i j) /\ StronglySorted lt (firstn i ix ++ skipn j ix).
Proof.
  intros Hij H. rewrite (slice_decomp ix i j Hij) in H.
  apply ss_app_iff in H. destruct H as (Ha & Hbc & Habc).
  apply ss_app_iff in Hbc. destruct Hbc as (Hb & Hc & Hbc).
  split; [exact Hb|]. apply ss_app_iff. repeat split; [exact Ha|exact Hc|].
  intros x y Hx Hy. apply Habc; [exact Hx|apply in_or_app; right; exact Hy].
Qed.

Theorem split_strands {A} (S0 : list (list A)) fuel : forall ix ptab parts,
  length ix = length ptab ->
  split_complex_pt fuel (sel S0 ix) ptab = Ok parts ->
  exists idxs,
    map fst parts = map (sel S0) idxs /\
    Permutation (concat idxs) ix /\
    (StronglySorted lt ix -> Forall (StronglySorted lt) idxs).
Proof.
  induction fuel as [|fuel IH]; intros ix ptab parts Hlen H; [discriminate|].
  cbn [split_complex_pt] in H.
  destruct (make_loop_index_comp ptab) as [le|k1] eqn:Eli; cbn [rbind] in H; [|discriminate].
  pose proof (li_comp_len _ _ Eli) as Hn. unfold tab, row in *.
  destruct (snd le) as [|e ext] eqn:Eext.
  - injection H as <-. exists []. cbn. split; [reflexivity|]. split; [|constructor].
    cbn in Hn. destruct ix; [constructor|cbn in Hlen; lia].
  - rewrite <- Eext in H, Hn.
    destruct (split_scan (length (snd le)) [(0, 0)] 0 (snd le)) as [|i j|k1] eqn:Es.
    + injection H as <-. exists [ix]. cbn. rewrite app_nil_r.
      split; [reflexivity|]. split; [reflexivity|]. intros Hs. constructor; [exact Hs|constructor].
    + assert (Hb : i <= j /\ S j < length (snd le)).
      { eapply scan_bounds; [exact scan_start_inv| |exact Es]. reflexivity. }
      unfold splice in H. rewrite sel_slice, sel_outer in H.
      destruct (split_complex_pt fuel (sel S0 (slice ix i (S j))) _) as [a|ka] eqn:Ea; cbn [rbind] in H; [|discriminate].
      destruct (split_complex_pt fuel (sel S0 (firstn i ix ++ skipn (S j) ix)) _) as [b|kb] eqn:Eb; cbn [rbind] in H; [|discriminate].
      injection H as <-.
      unfold tab, row in *.
      apply IH in Ea; [|unfold tab, row in *; rewrite map_length, !slice_length by lia; reflexivity].
      apply IH in Eb; [|unfold tab, row in *; rewrite map_length, !app_length, !firstn_length, !skipn_length; lia].
      destruct Ea as (ia & Ha1 & Ha2 & Ha3). destruct Eb as (ib & Hb1 & Hb2 & Hb3).
      exists (ia ++ ib). rewrite !map_app, Ha1, Hb1. split; [reflexivity|]. split.
      * rewrite concat_app, Ha2, Hb2.
        rewrite (slice_decomp ix i (S j)) at 4 by lia.
        rewrite Permutation_app_comm, <- app_assoc.
        apply Permutation_app_head. apply Permutation_app_comm.
      * intros Hs. destruct (ss_splice ix i (S j) ltac:(lia) Hs) as [H1 H2].
        apply Forall_app. split; [apply Ha3, H1|apply Hb3, H2].
    + discriminate.
Qed.

(* the parts' strands are a partition of the input strands, each part in
   increasing original order, content unchanged *)
Theorem split_partition {A} (stab : list (list A)) ptab fuel parts :
  length stab = length ptab ->
  split_complex_pt fuel stab ptab = Ok parts ->
  exists idxs,
    map fst parts = map (sel stab) idxs /\
    Permutation (concat idxs) (seq 0 (length stab)) /\
    Forall (StronglySorted lt) idxs.
Proof.
  intros Hlen H.
  assert (Hsel : sel stab (seq 0 (length stab)) = stab).
  { unfold sel. apply nth_ext with (d := []) (d' := []).
    - rewrite map_length, seq_length. reflexivity.
    - intros n Hn. rewrite map_length, seq_length in Hn.
      rewrite (nth_indep _ [] (nth 0 stab [])) by (rewrite map_length, seq_length; exact Hn).
      rewrite (map_nth (fun k => nth k stab [])). rewrite seq_nth by exact Hn. reflexivity. }
  rewrite <- Hsel in H at 1.
  apply split_strands in H; [|rewrite seq_length; exact Hlen].
  destruct H as (idxs & H1 & H2 & H3). exists idxs. split; [exact H1|]. split; [exact H2|].
  apply H3. clear. generalize 0. induction (length stab) as [|n IH]; intros s; cbn [seq]; [constructor|].
  constructor; [apply IH|]. rewrite Forall_forall. intros x Hx. apply in_seq in Hx. lia.
Qed.

(* non-vacuity: "(+)+.+(.+.)" with strands a..e *)
Example ex_split :
  let d := DP (DB DNil) (DB (DU (DB (DP (DU (DB (DU DNil))) DNil)))) in
  let stab := [[1]; [2]; [3]; [4; 5]; [6; 7]] in
  length stab = length (tab_of d) /\
  split_complex_pt (S (length (tab_of d))) stab (tab_of d) =
    Ok [ ([[1]; [2]], [[Some (1, 0)]; [Some (0, 0)]]);
         ([[3]], [[None]]);
         ([[4; 5]; [6; 7]], [[Some (1, 1); None]; [None; Some (0, 0)]]) ].
Proof. cbn zeta. split; reflexivity. Qed.

Example ex_split_connected :
  let d := DP (DU (DB (DP (DB DNil) DNil))) DNil in     (* "(.+(+))" *)
  NoDup (ends d) /\
  split_complex_pt 4 [[1; 2]; [3]; [4; 5]] (tab_of d) = Ok [([[1; 2]; [3]; [4; 5]], tab_of d)].
Proof.
  cbn zeta. split; [|reflexivity].
  unfold ends. cbn. repeat constructor; cbn; intuition discriminate.
Qed.
