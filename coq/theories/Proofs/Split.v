(* C09: splitting — first layer (slicing arithmetic of splice). *)
From Coq Require Import List Arith Lia Bool NArith.
From DSD Require Import Base.Str Base.Errors Model.ComplexUtils.
Import ListNotations.

Lemma slice_length {A} (l : list A) i j : j <= length l -> length (slice l i j) = j - i.
Proof. intros H. unfold slice. rewrite firstn_length, skipn_length. lia. Qed.

(* the two halves of splice share out the strands *)
Lemma splice_lengths {A} (stab : list (list A)) ptab i j :
  i <= j -> j < length stab ->
  let '((iss, _), (oss, _)) := splice stab ptab i j in
  length iss = S j - i /\ length oss = length stab - (S j - i).
Proof.
  intros Hij Hj. unfold splice. split.
  - apply slice_length. lia.
  - rewrite app_length, firstn_length, skipn_length. lia.
Qed.
