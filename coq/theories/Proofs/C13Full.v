(* C13: renderings for the parts of the dialect whose round trip is stated but not
   yet proved (rate information of reactions, concentrations of kernel complexes,
   tabs in layouts).  Definitions only; the statements live in props/C13.v as
   `Definition ..._full : Prop`. *)
From Coq Require Import List NArith Bool Arith.
From DSD Require Import Base.Str Base.Val Model.Peg Model.DispatchPeg Proofs.PegStd Proofs.PegDoc Proofs.C13Doc
  Proofs.PilLex Proofs.C13Rx Proofs.C13Kc.
From DSDGen Require Import PilGrammar.
Import ListNotations.

(* numbers: DIGITS [. DIGITS] [e [+|-] DIGITS] *)
Record gnum := mkGnum { g_int : pstr; g_frac : option pstr; g_exp : option (option chr * pstr) }.
Definition digits_ok (s : pstr) : Prop := s <> [] /\ all_in digit s.
Definition gnum_ok (g : gnum) : Prop :=
  digits_ok (g_int g) /\
  match g_frac g with Some f => digits_ok f | None => True end /\
  match g_exp g with
  | Some (sg, e) => digits_ok e /\ match sg with Some c => c = 43%N \/ c = 45%N | None => True end
  | None => True
  end.
Definition gnum_text (g : gnum) : pstr :=
  g_int g ++ match g_frac g with Some f => 46%N :: f | None => [] end ++
  match g_exp g with
  | Some (sg, e) => 101%N :: match sg with Some c => [c] | None => [] end ++ e
  | None => []
  end.

(* concentration units, time units *)
Inductive cunit := UM | UmM | UuM | UnM | UpM.
Definition cunit_text (u : cunit) : pstr :=
  match u with UM => [77] | UmM => [109; 77] | UuM => [117; 77] | UnM => [110; 77] | UpM => [112; 77] end%N.
Inductive tunit := Us | Um | Uh.
Definition tunit_text (u : tunit) : pstr := match u with Us => [115] | Um => [109] | Uh => [104] end%N.
Definition runit_text (cs : list cunit) (t : tunit) : pstr :=
  flat_map (fun c => 47%N :: cunit_text c) cs ++ 47%N :: tunit_text t.

(* rate information: [ NAME (=|:) RATE [+/- (RATE | inf)] /UNIT.../TIME ] *)
Record infobox := mkInfobox {
  ib_name : option (chr * pstr * pstr * chr * pstr);      (* name, blanks, sign, blanks *)
  ib_rate : gnum; ib_err : option (pstr * pstr * option gnum);  (* blanks, blanks, a number or `inf` *)
  ib_cunits : list cunit; ib_tunit : tunit;
  ib_b1 : pstr; ib_b2 : pstr; ib_b3 : pstr; ib_b4 : pstr }.
Definition INF : pstr := [105; 110; 102]%N.
Definition err_text (e : option gnum) : pstr := match e with Some g => gnum_text g | None => INF end.
Definition infobox_text (i : infobox) : pstr :=
  ib_b1 i ++ 91%N :: ib_b2 i ++
  match ib_name i with Some (n0, ns, b, sg, b') => n0 :: ns ++ b ++ sg :: b' | None => [] end ++
  gnum_text (ib_rate i) ++
  match ib_err i with Some (b, b', e) => b ++ [43; 47; 45]%N ++ b' ++ err_text e | None => [] end ++
  ib_b3 i ++ runit_text (ib_cunits i) (ib_tunit i) ++ ib_b4 i ++ [93%N].
Definition infobox_ok (i : infobox) : Prop :=
  blanks WS (ib_b1 i) /\ blanks WS (ib_b2 i) /\ blanks WS (ib_b3 i) /\ blanks WS (ib_b4 i) /\
  gnum_ok (ib_rate i) /\
  match ib_name i with
  | Some (n0, ns, b, sg, b') => memc n0 idch = true /\ all_in idch ns /\ blanks WS b /\ blanks WS b' /\ (sg = 61%N \/ sg = 58%N)
  | None => True
  end /\
  match ib_err i with
  | Some (b, b', e) => blanks WS b /\ blanks WS b' /\ match e with Some g => gnum_ok g | None => True end
  | None => True
  end.
Definition infobox_toks (i : infobox) : tok :=
  TList [TList match ib_name i with Some (n0, ns, _, _, _) => [TStr (n0 :: ns)] | None => [] end;
         TList (TStr (gnum_text (ib_rate i)) :: match ib_err i with Some (_, _, e) => [TStr (err_text e)] | None => [] end);
         TList [TStr (runit_text (ib_cunits i) (ib_tunit i))]].

(* a reaction with rate information: the infobox goes between the keyword and the reactants *)
Definition rxi_render (s : rx_stmt) (y : rx_layout) (i : infobox) : pstr :=
  rxkw_text (rx_kw s) ++ infobox_text i ++ rx_tail_text s y [].
Definition rxi_tree (s : rx_stmt) (i : infobox) : tok :=
  TList [TStr tag_rx; infobox_toks i; TList (names_toks (rx_r0 s) (rx_rs0 s) (rx_reactants s));
         TList (names_toks (rx_p0 s) (rx_ps0 s) (rx_products s))].

(* a kernel complex with concentration: ... @ (initial|i|constant|c) NUMBER UNIT *)
Inductive conckw := CInitial | CI | CConstant | CC.
Definition conckw_text (k : conckw) : pstr :=
  match k with
  | CInitial => [105; 110; 105; 116; 105; 97; 108] | CI => [105]
  | CConstant => [99; 111; 110; 115; 116; 97; 110; 116] | CC => [99]
  end%N.
Record conc := mkConc { c_kw : conckw; c_num : gnum; c_unit : cunit; c_b1 : pstr; c_b2 : pstr; c_b3 : pstr; c_b4 : pstr }.
Definition conc_text (c : conc) : pstr :=
  c_b1 c ++ 64%N :: c_b2 c ++ conckw_text (c_kw c) ++ c_b3 c ++ gnum_text (c_num c) ++ c_b4 c ++ cunit_text (c_unit c).
Definition conc_ok (c : conc) : Prop :=
  blanks WS (c_b1 c) /\ blanks WS (c_b2 c) /\ blanks WS (c_b3 c) /\ blanks WS (c_b4 c) /\ gnum_ok (c_num c).
Definition conc_toks (c : conc) : tok :=
  TList [TStr (conckw_text (c_kw c)); TStr (gnum_text (c_num c)); TStr (cunit_text (c_unit c))].
Definition kcc_render (s : kc_stmt) (c : conc) : pstr :=
  (kc_n0 s :: kc_ns s) ++ kc_b2 s ++ 61%N :: items_text (kc_first s :: kc_more s) (conc_text c).
Definition kcc_tree (s : kc_stmt) (c : conc) : tok :=
  TList [TStr tag_kc; TStr (kc_n0 s :: kc_ns s); TList (items_toks (kc_first s :: kc_more s)); conc_toks c].

(* blank runs that may contain tabs: parse_string expands them before parsing *)
Definition blanks_tab (b : pstr) : Prop := forallb (fun c => N.eqb c 32 || N.eqb c 9) b = true.

(* sanity: the renderings above are what the model accepts (non-vacuity of the _full statements) *)
Example rxi_example :
  let s := mkRx KwReaction 65%N [] [mkMember [32%N] [32%N] 66%N []] 65%N [95; 66]%N [] in
  let y := mkRxLayout [32%N] [32%N] [32%N] in
  let i := mkInfobox (Some (107%N, [49%N], [32%N], 61%N, [32; 32]%N))
             (mkGnum [49%N] (Some [52; 49]%N) (Some (Some 43%N, [48; 55]%N)))
             (Some ([32%N], [32%N], None)) [UM] Us [32%N] [] [32%N] [] in
  infobox_ok i /\ parse_pil (rxi_render s y i ++ [NL]) = vals [rxi_tree s i].
Proof.
  cbn zeta. split; [|vm_compute; reflexivity].
  unfold infobox_ok, gnum_ok, digits_ok. cbn. repeat split; try reflexivity; try discriminate; auto.
Qed.
Example kcc_example :
  let s := mkKc 67%N [] [32%N] (ISense [32%N] 97%N [] false true) [] in
  let c := mkConc CI (mkGnum [49%N] None (Some (Some 45%N, [55%N]))) UnM [32%N] [] [32%N] [32%N] in
  conc_ok c /\ parse_pil (kcc_render s c ++ [NL]) = vals [kcc_tree s c].
Proof.
  cbn zeta. split; [|vm_compute; reflexivity].
  unfold conc_ok, gnum_ok, digits_ok. cbn. repeat split; try reflexivity; try discriminate; auto.
Qed.
