(* C13: definitions used only by the full statements that are not yet proved
   (props/C13.v, `Definition ..._full : Prop`). *)
From Coq Require Import List NArith Bool Arith.
From DSD Require Import Base.Str Model.Peg.
Import ListNotations.

(* blank runs that may contain tabs: parse_string expands them before parsing *)
Definition blanks_tab (b : pstr) : Prop := forallb (fun c => N.eqb c 32 || N.eqb c 9) b = true.
