(* Reader model, C14: `ignore` at the level of the document.
   read_pil(text, ignore = ig) is read_pil of the lines that ig leaves; hence the assembled statement for every
   document whose remaining statements form a consistent system. *)
From Coq Require Import String List NArith ZArith Bool Arith Lia Permutation.
From DSD Require Import Base.Str Base.Errors Base.Val Model.ComplexUtils Model.RegStr Model.ReaderStr Model.PyNum
  Model.Peg Model.Kernel Model.DispatchKernel Model.Heap Model.Registry Model.Reader Model.ReaderShape Model.ReaderConsistent
  Model.DispatchReader
  Proofs.ReaderBasic Proofs.ReaderStmt Proofs.ReaderInv Proofs.ReaderThms Proofs.ReaderSysA Proofs.ReaderSysJ Proofs.ReaderSysK
  Proofs.ReaderSysL.
From DSDGen Require Import ReaderConsts.
Import ListNotations.

Lemma read_one_kept ct g ig l acc r :
  ignored ig l = Ok false -> read_one ct g ig (TList l) acc r = read_one ct g None (TList l) acc r.
Proof. intros H. unfold read_one. cbn [t_list]. rewrite !bind_lift_Ok, H. cbn [ignored]. rewrite !bind_lift_Ok. reflexivity. Qed.

Lemma read_one_dropped ct g ig l acc r :
  ignored ig l = Ok true -> read_one ct g ig (TList l) acc r = (r, Ok acc).
Proof. intros H. unfold read_one. cbn [t_list]. rewrite !bind_lift_Ok, H, bind_lift_Ok. reflexivity. Qed.

Theorem read_lines_ignore ct g ig lines : forall kept,
  keep_lines ig lines = Some kept ->
  forall acc r, read_lines ct g ig lines acc r = read_lines ct g None kept acc r.
Proof.
  induction lines as [|t lines IH]; intros kept H acc r; cbn [keep_lines] in H.
  - injection H as <-. reflexivity.
  - destruct t as [x|l]; [discriminate|]. destruct (ignored ig l) as [[|]|k] eqn:Ei; try discriminate;
      destruct (keep_lines ig lines) as [k0|] eqn:Ek; try discriminate; injection H as <-; cbn [read_lines].
    + rewrite (bind_ok _ _ _ _ _ (read_one_dropped ct g ig l acc r Ei)). apply IH. reflexivity.
    + unfold bind. rewrite (read_one_kept ct g ig l acc r Ei).
      destruct (read_one ct g None (TList l) acc r) as [r1 [a|k1]]; [apply IH; reflexivity | reflexivity].
Qed.

(* read_pil(text, ignore = ig) = read_pil(the remaining lines), in every session, errors included *)
Theorem read_pil_ignore ct g ig lines kept r :
  keep_lines ig lines = Some kept -> read_pil ct g ig lines r = read_pil ct g None kept r.
Proof. intros H. unfold read_pil. rewrite (read_lines_ignore ct g ig lines kept H). reflexivity. Qed.

(* C14, assembled, with ignore: the statements that remain form a consistent system *)
Theorem reader_builds_ignore ct cd cs cc cm cr :
  cfg_okb ct cd cs cc cm cr = true ->
  (forall c, In c [cd; cs; cc; cm; cr] -> exists ci, nth_error ct c = Some ci /\ c_fail ci = FNone) ->
  forall ig lines kept ls ss,
  keep_lines ig lines = Some kept -> decode_all kept = Some (ls, ss) -> consistentb ss = true ->
  exists r out, read_pil ct (g cd cs cc cm cr) ig lines (rinit (init ct 0)) = (r, Ok out) /\
                read_pil ct (g cd cs cc cm cr) None kept (rinit (init ct 0)) = (r, Ok out) /\
                Reads cd cs cc cm cr ls ss r out.
Proof.
  intros CO PL ig lines kept ls ss Hk Hd Hc.
  destruct (reader_builds ct cd cs cc cm cr CO PL kept ls ss Hd Hc) as [r [out [E R]]].
  exists r, out. rewrite (read_pil_ignore _ _ ig lines kept _ Hk). auto.
Qed.

(* what the op "reader_kept_consistent" answers is the hypothesis of reader_builds_ignore *)
Theorem reader_kept_consistent_accepts text ig :
  reader_kept_consistent text ig = VBool true ->
  exists lines r out, parse_lines text = Ok lines /\
    read_pil base_ctable base_g ig lines (rinit (init base_ctable 0)) = (r, Ok out).
Proof.
  unfold reader_kept_consistent. destruct (parse_lines text) as [lines|k]; [|discriminate].
  destruct (keep_lines ig lines) as [kept|] eqn:Ek; [|discriminate].
  destruct (decode_all kept) as [[ls ss]|] eqn:Ed; [|discriminate]. intros H. injection H as Hc.
  destruct (reader_builds_ignore base_ctable 0 2 1 3 4 base_cfg_ok base_plain ig lines kept ls ss Ek Ed Hc) as [r [out [E _]]].
  exists lines, r, out. split; [reflexivity | exact E].
Qed.

(* ---- not vacuous: the example system without its reactions and its macrostates ---- *)
Definition ex_ignore : list pstr := [tReaction; tMacro].
Definition ex_ignored_ok : bool :=
  match parse_lines ex_sys with
  | Ok lines =>
      match keep_lines (Some ex_ignore) lines with
      | Some kept =>
          match decode_all kept with
          | Some (_, ss) => consistentb ss && Nat.ltb (List.length kept) (List.length lines)
          | None => false
          end
      | None => false
      end
  | Err _ => false
  end.
Example ex_ignore_consistent : ex_ignored_ok = true /\ reader_kept_consistent ex_sys (Some ex_ignore) = VBool true.
Proof. vm_compute. split; reflexivity. Qed.
