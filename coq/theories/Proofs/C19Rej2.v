(* C19: rejections of a wrong number / kind of arguments for the remaining statement kinds:
   seesaw with a missing list, OUTPUT with a second argument, inputfanout with a non-numeric fan-out,
   conc on a gate / threshold with a missing (or negative) number, seesawOR / seesawAND with too few lists.
   Every theorem is for all numbers, names, list lengths and blank layouts. *)
From Coq Require Import List NArith Bool Arith Lia.
From DSD Require Import Base.Str Base.Errors Base.Val Model.Peg Model.DispatchPeg Proofs.PegMono Proofs.PegRules Proofs.PegStd
  Proofs.PegDoc Proofs.PegKw Proofs.PegNum Proofs.PegList Proofs.C13Doc Proofs.C19Doc Proofs.C19Lex Proofs.C19Io Proofs.C19Args
  Proofs.C19Stm Proofs.C19Rej.
From DSDGen Require Import SeesawGrammar.
Import ListNotations.

(* a longer keyword does not match when blanks or a bracket follow the shorter one *)
Lemma starts_with_blanks_no c kw b d r : blanks WSs b -> memc c WSs = false -> N.eqb c d = false ->
  starts_with (c :: kw) (b ++ d :: r) = None.
Proof.
  intros Hb Hc Hd. destruct b as [|w b]; cbn [app starts_with]; [rewrite Hd; reflexivity|].
  unfold blanks in Hb. cbn [forallb] in Hb. apply andb_prop in Hb as [Hw _].
  destruct (N.eqb_spec c w) as [->|]; [congruence|reflexivity].
Qed.

Lemma starts_with_prefix_blanks p c kw b d r : blanks WSs b -> memc c WSs = false -> N.eqb c d = false ->
  starts_with (p ++ c :: kw) (p ++ b ++ d :: r) = None.
Proof.
  intros Hb Hc Hd. induction p as [|a p IH]; cbn [app starts_with]; [apply starts_with_blanks_no; assumption|].
  rewrite N.eqb_refl. exact IH.
Qed.

(* the number node inside a group, after blanks *)
Ltac group_fail full :=
  apply seqs_fail;
  eapply evals_node_fail; [slk|apply (pre_premise GS full ssw_c WSs ssw_comment_ok); repeat split|];
  unfold pre_pos; cbn [andb ncallpre].

(* ---------------------------------------------------------------- seesaw[N, {...} X   X not ',' *)
Definition ss_missing_text (n : num) (ins : nset) (b1 b2 b3 b4 b5 junk : pstr) : pstr :=
  kw_seesaw ++ b1 ++ 91%N :: b2 ++ num_text n ++ b3 ++ 44%N :: b4 ++ nset_text ins ++ b5 ++ junk.
Theorem seesaw_missing_list_refused n ins b1 b2 b3 b4 b5 junk full b :
  num_ok n -> nset_ok ins -> blanks WSs b1 -> blanks WSs b2 -> blanks WSs b3 -> blanks WSs b4 -> blanks WSs b5 ->
  nohead [44%N] (sspre junk) -> blanks WSs b ->
  evals GS full ssw_stmt true (At (b ++ ss_missing_text n ins b1 b2 b3 b4 b5 junk)) PFail.
Proof.
  intros Hn Hin Hb1 Hb2 Hb3 Hb4 Hb5 Hj Hb.
  apply sw_statement_refused; [exact Hb|unfold ss_missing_text, kw_seesaw; cbn [app]; eexists _, _; split; reflexivity|].
  unfold ss_missing_text, kw_seesaw, num_text. norm_text. cbn [app].
  kwf full 11 12. kwf full 36 37.
  eapply firsts_miss.
  { eapply (sw_alt_late_fail full 54 55 _ [115; 101; 101; 115; 97; 119]%N); [slk|slk| |].
    { rewrite (std_pre_stop WSs) by reflexivity. reflexivity. }
    punct full 56 57 91%N Hb1.
    group_fail full. rewrite sspre_blanks_stop by (try exact Hb2; apply sdigit_stop; apply Hn).
    eapply impls_wrap; [reflexivity|reflexivity|].
    eapply evals_node_fail; [slk|cbn; reflexivity|].
    eapply impls_and; [reflexivity|reflexivity| |].
    - eapply (sw_number full false _ (n_d0 n) (n_ds n)); [reflexivity|apply Hn|apply Hn|].
      apply snohead_blanks; [vm_compute; reflexivity|exact Hb3|reflexivity].
    - comma full 60 61 Hb3.
      eapply seqs_cons.
      { eapply (sw_nset full _ ins); [exact Hin|]. rewrite (std_pre_blanks WSs _ _ Hb4).
        unfold nset_text, eset_text. cbn [app]. apply (std_pre_stop WSs); reflexivity. }
      apply seqs_fail. eapply (sw_slit_fail full 74 75 44%N []); [slk|slk|].
      rewrite (std_pre_blanks WSs _ _ Hb5). exact Hj. }
  kwf full 92 93. kwf full 125 126. kwf full 156 157. kwf full 187 188. kwf full 197 198.
  eapply firsts_miss.
  { eapply (sw_alt_fail full 209 210); [slk|slk|]. rewrite (std_pre_stop WSs) by reflexivity.
    apply (starts_with_prefix_blanks [115; 101; 101; 115; 97; 119]%N _ _ b1 91%N); [exact Hb1|reflexivity|reflexivity]. }
  eapply firsts_miss.
  { eapply (sw_alt_fail full 223 224); [slk|slk|]. rewrite (std_pre_stop WSs) by reflexivity.
    apply (starts_with_prefix_blanks [115; 101; 101; 115; 97; 119]%N _ _ b1 91%N); [exact Hb1|reflexivity|reflexivity]. }
  apply firsts_nil.
Qed.
Theorem reject_seesaw_missing_list n ins b1 b2 b3 b4 b5 junk pls b :
  num_ok n -> nset_ok ins -> blanks WSs b1 -> blanks WSs b2 -> blanks WSs b3 -> blanks WSs b4 -> blanks WSs b5 ->
  nohead [44%N] (sspre junk) -> Forall ssw_blank_line pls -> blanks WSs b ->
  no_tab (concat pls ++ b ++ ss_missing_text n ins b1 b2 b3 b4 b5 junk) ->
  exists f0, forall fu, f0 <= fu ->
    parse_seesaw_fuel fu (concat pls ++ b ++ ss_missing_text n ins b1 b2 b3 b4 b5 junk) = err eParse.
Proof.
  intros Hn Hin Hb1 Hb2 Hb3 Hb4 Hb5 Hj Hp Hb Hnt. apply ssw_document_reject; try assumption.
  - unfold ss_missing_text, kw_seesaw. cbn. repeat split; reflexivity.
  - intros full b' Hb'. apply seesaw_missing_list_refused; assumption.
Qed.

(* ---------------------------------------------------------------- OUTPUT( X junk   junk not ')' : a second argument *)
Definition out_extra_text (x : ioname) (b1 b2 b3 junk : pstr) : pstr :=
  kw_output ++ b1 ++ 40%N :: b2 ++ ioname_text x ++ b3 ++ junk.
Theorem output_extra_argument_refused x b1 b2 b3 junk full b :
  ioname_ok x -> blanks WSs b1 -> blanks WSs b2 -> blanks WSs b3 ->
  nohead sidch junk -> nohead [41%N] (sspre junk) -> blanks WSs b ->
  evals GS full ssw_stmt true (At (b ++ out_extra_text x b1 b2 b3 junk)) PFail.
Proof.
  intros Hx Hb1 Hb2 Hb3 Hj1 Hj2 Hb.
  apply sw_statement_refused; [exact Hb|unfold out_extra_text, kw_output; cbn [app]; eexists _, _; split; reflexivity|].
  unfold out_extra_text, kw_output. norm_text. cbn [app].
  kwf full 11 12.
  eapply firsts_miss.
  { eapply (sw_alt_late_fail full 36 37 _ [79; 85; 84; 80; 85; 84]%N); [slk|slk| |].
    { rewrite (std_pre_stop WSs) by reflexivity. reflexivity. }
    punct full 38 39 40%N Hb1.
    eapply seqs_cons.
    { apply (sw_ioname_out full b2 x _ Hb2 Hx). apply snohead_blanks; [exact ws_not_sidch|exact Hb3|exact Hj1]. }
    apply seqs_fail. eapply (sw_slit_fail full 42 43 41%N []); [slk|slk|].
    rewrite (std_pre_blanks WSs _ _ Hb3). exact Hj2. }
  kwf full 54 55. kwf full 92 93. kwf full 125 126. kwf full 156 157. kwf full 187 188. kwf full 197 198.
  kwf full 209 210. kwf full 223 224.
  apply firsts_nil.
Qed.
Theorem reject_output_extra_argument x b1 b2 b3 junk pls b :
  ioname_ok x -> blanks WSs b1 -> blanks WSs b2 -> blanks WSs b3 ->
  nohead sidch junk -> nohead [41%N] (sspre junk) -> Forall ssw_blank_line pls -> blanks WSs b ->
  no_tab (concat pls ++ b ++ out_extra_text x b1 b2 b3 junk) ->
  exists f0, forall fu, f0 <= fu -> parse_seesaw_fuel fu (concat pls ++ b ++ out_extra_text x b1 b2 b3 junk) = err eParse.
Proof.
  intros Hx Hb1 Hb2 Hb3 Hj1 Hj2 Hp Hb Hnt. apply ssw_document_reject; try assumption.
  - unfold out_extra_text, kw_output. cbn. repeat split; reflexivity.
  - intros full b' Hb'. apply output_extra_argument_refused; assumption.
Qed.

(* ---------------------------------------------------------------- inputfanout[N, X   X not a digit *)
Definition if_fanout_text (n : num) (b1 b2 b3 b4 junk : pstr) : pstr :=
  kw_inputfanout ++ b1 ++ 91%N :: b2 ++ num_text n ++ b3 ++ 44%N :: b4 ++ junk.
Theorem inputfanout_fanout_kind_refused n b1 b2 b3 b4 junk full b :
  num_ok n -> blanks WSs b1 -> blanks WSs b2 -> blanks WSs b3 -> blanks WSs b4 ->
  nohead sdigit (sspre junk) -> blanks WSs b ->
  evals GS full ssw_stmt true (At (b ++ if_fanout_text n b1 b2 b3 b4 junk)) PFail.
Proof.
  intros Hn Hb1 Hb2 Hb3 Hb4 Hj Hb.
  apply sw_statement_refused; [exact Hb|unfold if_fanout_text, kw_inputfanout; cbn [app]; eexists _, _; split; reflexivity|].
  unfold if_fanout_text, kw_inputfanout, num_text. norm_text. cbn [app].
  kwf full 11 12. kwf full 36 37. kwf full 54 55. kwf full 92 93. kwf full 125 126. kwf full 156 157. kwf full 187 188.
  eapply firsts_miss.
  { eapply (sw_alt_late_fail full 197 198 _ [105; 110; 112; 117; 116; 102; 97; 110; 111; 117; 116]%N); [slk|slk| |].
    { rewrite (std_pre_stop WSs) by reflexivity. reflexivity. }
    punct full 199 200 91%N Hb1.
    group_fail full. rewrite sspre_blanks_stop by (try exact Hb2; apply sdigit_stop; apply Hn).
    eapply impls_wrap; [reflexivity|reflexivity|].
    eapply evals_node_fail; [slk|cbn; reflexivity|].
    eapply impls_and; [reflexivity|reflexivity| |].
    - eapply (sw_number full false _ (n_d0 n) (n_ds n)); [reflexivity|apply Hn|apply Hn|].
      apply snohead_blanks; [vm_compute; reflexivity|exact Hb3|reflexivity].
    - comma full 203 204 Hb3.
      apply seqs_fail. apply (sw_number_fail full true). cbn beta iota. rewrite (std_pre_blanks WSs _ _ Hb4). exact Hj. }
  kwf full 209 210. kwf full 223 224.
  apply firsts_nil.
Qed.
Theorem reject_inputfanout_fanout_kind n b1 b2 b3 b4 junk pls b :
  num_ok n -> blanks WSs b1 -> blanks WSs b2 -> blanks WSs b3 -> blanks WSs b4 ->
  nohead sdigit (sspre junk) -> Forall ssw_blank_line pls -> blanks WSs b ->
  no_tab (concat pls ++ b ++ if_fanout_text n b1 b2 b3 b4 junk) ->
  exists f0, forall fu, f0 <= fu -> parse_seesaw_fuel fu (concat pls ++ b ++ if_fanout_text n b1 b2 b3 b4 junk) = err eParse.
Proof.
  intros Hn Hb1 Hb2 Hb3 Hb4 Hj Hp Hb Hnt. apply ssw_document_reject; try assumption.
  - unfold if_fanout_text, kw_inputfanout. cbn. repeat split; reflexivity.
  - intros full b' Hb'. apply inputfanout_fanout_kind_refused; assumption.
Qed.

(* ---------------------------------------------------------------- seesawOR / seesawAND [N, N, {...} X   X not ',' *)
Definition lg_few_text (k : lgkw) (n m : num) (in1 : nset) (b1 b2 b3 b4 b5 b6 b7 junk : pstr) : pstr :=
  lgkw_text k ++ b1 ++ 91%N :: b2 ++ num_text n ++ b3 ++ 44%N :: b4 ++ num_text m ++ b5 ++ 44%N :: b6 ++
  nset_text in1 ++ b7 ++ junk.
Lemma seqs_lg_few full so lo gr ga c1 l1 c2 l2 c3 l3 n m in1 b1 b2 b3 b4 b5 b6 b7 junk acc :
  nth_error GS so = Some (mkNode KSuppress [lo] true WSs [ssw_c] true []) ->
  nth_error GS lo = Some (mkNode (KLit [91%N]) [] true WSs [ssw_c] true []) ->
  nth_error GS gr = Some (mkNode KGroup [ga] true WSs [ssw_c] true []) ->
  nth_error GS ga = Some (mkNode KAnd [17; c1; 17; c2; 62; c3; 62] true WSs [ssw_c] true []) ->
  nth_error GS c1 = Some (mkNode KSuppress [l1] true WSs [ssw_c] true []) ->
  nth_error GS l1 = Some (mkNode (KLit [44%N]) [] true WSs [ssw_c] true []) ->
  nth_error GS c2 = Some (mkNode KSuppress [l2] true WSs [ssw_c] true []) ->
  nth_error GS l2 = Some (mkNode (KLit [44%N]) [] true WSs [ssw_c] true []) ->
  nth_error GS c3 = Some (mkNode KSuppress [l3] true WSs [ssw_c] true []) ->
  nth_error GS l3 = Some (mkNode (KLit [44%N]) [] true WSs [ssw_c] true []) ->
  num_ok n -> num_ok m -> nset_ok in1 ->
  blanks WSs b1 -> blanks WSs b2 -> blanks WSs b3 -> blanks WSs b4 -> blanks WSs b5 -> blanks WSs b6 -> blanks WSs b7 ->
  nohead [44%N] (sspre junk) ->
  forall scl, seqs GS full [so; gr; scl]
    (At (b1 ++ 91%N :: b2 ++ num_text n ++ b3 ++ 44%N :: b4 ++ num_text m ++ b5 ++ 44%N :: b6 ++ nset_text in1 ++ b7 ++ junk)) acc PFail.
Proof.
  intros Hso Hlo Hgr Hga Hc1 Hl1 Hc2 Hl2 Hc3 Hl3 Hn Hm Hi1 Hb1 Hb2 Hb3 Hb4 Hb5 Hb6 Hb7 Hj scl.
  unfold num_text. norm_text.
  eapply seqs_cons.
  { eapply (sw_slit full so lo [91%N]); [exact Hso|exact Hlo|]. apply sspre_blanks_stop; [exact Hb1|reflexivity]. }
  apply seqs_fail.
  eapply evals_node_fail; [exact Hgr|apply (pre_premise GS full ssw_c WSs ssw_comment_ok); repeat split|].
  unfold pre_pos. cbn [andb ncallpre]. rewrite sspre_blanks_stop by (try exact Hb2; apply sdigit_stop; apply Hn).
  eapply impls_wrap; [reflexivity|reflexivity|].
  eapply evals_node_fail; [exact Hga|cbn; reflexivity|].
  eapply impls_and; [reflexivity|reflexivity| |].
  - eapply (sw_number full false _ (n_d0 n) (n_ds n)); [reflexivity|apply Hn|apply Hn|].
    apply snohead_blanks; [vm_compute; reflexivity|exact Hb3|reflexivity].
  - eapply seqs_cons.
    { eapply (sw_slit full c1 l1 [44%N]); [exact Hc1|exact Hl1|]. apply sspre_blanks_stop; [exact Hb3|reflexivity]. }
    numarg full m Hb4 Hm.
    { apply snohead_blanks; [vm_compute; reflexivity|exact Hb5|reflexivity]. }
    eapply seqs_cons.
    { eapply (sw_slit full c2 l2 [44%N]); [exact Hc2|exact Hl2|]. apply sspre_blanks_stop; [exact Hb5|reflexivity]. }
    eapply seqs_cons.
    { eapply (sw_nset full _ in1); [exact Hi1|]. rewrite (std_pre_blanks WSs _ _ Hb6).
      unfold nset_text, eset_text. cbn [app]. apply (std_pre_stop WSs); reflexivity. }
    apply seqs_fail. eapply (sw_slit_fail full c3 l3 44%N []); [exact Hc3|exact Hl3|].
    rewrite (std_pre_blanks WSs _ _ Hb7). exact Hj.
Qed.
Theorem logic_gate_few_arguments_refused k n m in1 b1 b2 b3 b4 b5 b6 b7 junk full b :
  num_ok n -> num_ok m -> nset_ok in1 ->
  blanks WSs b1 -> blanks WSs b2 -> blanks WSs b3 -> blanks WSs b4 -> blanks WSs b5 -> blanks WSs b6 -> blanks WSs b7 ->
  nohead [44%N] (sspre junk) -> blanks WSs b ->
  evals GS full ssw_stmt true (At (b ++ lg_few_text k n m in1 b1 b2 b3 b4 b5 b6 b7 junk)) PFail.
Proof.
  intros Hn Hm Hi1 Hb1 Hb2 Hb3 Hb4 Hb5 Hb6 Hb7 Hj Hb.
  apply sw_statement_refused;
    [exact Hb|unfold lg_few_text; destruct k; cbn [lgkw_text app]; eexists _, _; split; reflexivity|].
  unfold lg_few_text. set (A := b1 ++ 91%N :: b2 ++ num_text n ++ b3 ++ 44%N :: b4 ++ num_text m ++ b5 ++ 44%N :: b6 ++ nset_text in1 ++ b7 ++ junk).
  assert (Hopen : nohead [91%N] (sspre (79%N :: 82%N :: A)) /\ nohead [91%N] (sspre (65%N :: 78%N :: 68%N :: A))).
  { split; rewrite (std_pre_stop WSs) by reflexivity; reflexivity. }
  destruct k; cbn [lgkw_text app].
  - kwf full 11 12. kwf full 36 37.
    eapply firsts_miss.
    { eapply (sw_alt_late_fail full 54 55 _ [115; 101; 101; 115; 97; 119]%N); [slk|slk| |].
      { rewrite (std_pre_stop WSs) by reflexivity. reflexivity. }
      apply seqs_fail. eapply (sw_slit_fail full 56 57 91%N []); [slk|slk|apply Hopen]. }
    kwf full 92 93. kwf full 125 126. kwf full 156 157. kwf full 187 188. kwf full 197 198.
    eapply firsts_miss.
    { eapply (sw_alt_late_fail full 209 210 _ [115; 101; 101; 115; 97; 119; 79; 82]%N); [slk|slk| |].
      { rewrite (std_pre_stop WSs) by reflexivity. reflexivity. }
      apply (seqs_lg_few full 211 212 213 214 215 216 217 218 219 220 n m in1 b1 b2 b3 b4 b5 b6 b7 junk); try slk; assumption. }
    kwf full 223 224. apply firsts_nil.
  - kwf full 11 12. kwf full 36 37.
    eapply firsts_miss.
    { eapply (sw_alt_late_fail full 54 55 _ [115; 101; 101; 115; 97; 119]%N); [slk|slk| |].
      { rewrite (std_pre_stop WSs) by reflexivity. reflexivity. }
      apply seqs_fail. eapply (sw_slit_fail full 56 57 91%N []); [slk|slk|apply Hopen]. }
    kwf full 92 93. kwf full 125 126. kwf full 156 157. kwf full 187 188. kwf full 197 198. kwf full 209 210.
    eapply firsts_miss.
    { eapply (sw_alt_late_fail full 223 224 _ [115; 101; 101; 115; 97; 119; 65; 78; 68]%N); [slk|slk| |].
      { rewrite (std_pre_stop WSs) by reflexivity. reflexivity. }
      apply (seqs_lg_few full 225 226 227 228 229 230 231 232 233 234 n m in1 b1 b2 b3 b4 b5 b6 b7 junk); try slk; assumption. }
    apply firsts_nil.
Qed.
Theorem reject_logic_gate_few_arguments k n m in1 b1 b2 b3 b4 b5 b6 b7 junk pls b :
  num_ok n -> num_ok m -> nset_ok in1 ->
  blanks WSs b1 -> blanks WSs b2 -> blanks WSs b3 -> blanks WSs b4 -> blanks WSs b5 -> blanks WSs b6 -> blanks WSs b7 ->
  nohead [44%N] (sspre junk) -> Forall ssw_blank_line pls -> blanks WSs b ->
  no_tab (concat pls ++ b ++ lg_few_text k n m in1 b1 b2 b3 b4 b5 b6 b7 junk) ->
  exists f0, forall fu, f0 <= fu ->
    parse_seesaw_fuel fu (concat pls ++ b ++ lg_few_text k n m in1 b1 b2 b3 b4 b5 b6 b7 junk) = err eParse.
Proof.
  intros Hn Hm Hi1 Hb1 Hb2 Hb3 Hb4 Hb5 Hb6 Hb7 Hj Hp Hb Hnt. apply ssw_document_reject; try assumption.
  - unfold lg_few_text. destruct k; cbn; repeat split; reflexivity.
  - intros full b' Hb'. apply logic_gate_few_arguments_refused; assumption.
Qed.

(* ---------------------------------------------------------------- conc[ g[..] | th[..] , X   X not a digit: missing / negative number *)
Definition badconc_target_text (th : bool) (t : gate) (y : cc_layout) (junk : pstr) : pstr :=
  kw_conc ++ cc_b1 y ++ 91%N :: cc_b2 y ++ gate_text (if th then kw_th else kw_g) t ++ cc_b3 y ++ 44%N :: cc_b4 y ++ junk.

Ltac gate_head Hb2 Ewf :=
  (etransitivity; [apply (std_pre_blanks WSs _ _ Hb2)|]; unfold gate_text, kw_g, kw_th; cbn [app]; rewrite ?Ewf;
   rewrite (std_pre_stop WSs) by reflexivity; reflexivity).

Theorem bad_concentration_target_refused th t y junk full b :
  gate_ok t -> cc_layout_ok y -> nohead sdigit (sspre junk) -> blanks WSs b ->
  evals GS full ssw_stmt true (At (b ++ badconc_target_text th t y junk)) PFail.
Proof.
  intros Ht (Hb1 & Hb2 & Hb3 & Hb4 & Hb5) Hj Hb.
  apply sw_statement_refused; [exact Hb|unfold badconc_target_text, kw_conc; cbn [app]; eexists _, _; split; reflexivity|].
  unfold badconc_target_text, kw_conc. norm_text. cbn [app].
  set (TL := cc_b3 y ++ 44%N :: cc_b4 y ++ junk).
  kwf full 11 12. kwf full 36 37. kwf full 54 55.
  destruct th.
  - (* threshold *)
    destruct (gate_text_head kw_th t TL) as (z & Ez).
    eapply firsts_miss.
    { eapply (sw_alt_late_fail full 92 93 _ [99; 111; 110; 99]%N); [slk|slk| |].
      { rewrite (std_pre_stop WSs) by reflexivity. reflexivity. }
      punct full 94 95 91%N Hb1.
      apply seqs_fail. apply sw_wire_fail. unfold gate_text, kw_g, kw_th. cbn [app].
      rewrite sspre_blanks_stop by (try exact Hb2; reflexivity). reflexivity. }
    eapply firsts_miss.
    { eapply (sw_alt_late_fail full 125 126 _ [99; 111; 110; 99]%N); [slk|slk| |].
      { rewrite (std_pre_stop WSs) by reflexivity. reflexivity. }
      punct full 127 128 91%N Hb1.
      apply seqs_fail.
      eapply evals_node_fail; [slk|cbn; reflexivity|]. apply impls_first; [reflexivity|]. cbn [nkids].
      eapply firsts_miss.
      { eapply (sw_gate_kw_fail kw_g 130 131 132 133 135 139); try slk.
        unfold gate_text, kw_th. cbn [app]. rewrite sspre_blanks_stop by (try exact Hb2; reflexivity). reflexivity. }
      eapply firsts_miss; [|apply firsts_nil].
      eapply (sw_gate_kw_fail kw_g 141 142 143 144 146 150); try slk.
      unfold gate_text, kw_th. cbn [app]. rewrite sspre_blanks_stop by (try exact Hb2; reflexivity). reflexivity. }
    eapply firsts_miss.
    { eapply (sw_alt_late_fail full 156 157 _ [99; 111; 110; 99]%N); [slk|slk| |].
      { rewrite (std_pre_stop WSs) by reflexivity. reflexivity. }
      punct full 158 159 91%N Hb1.
      eapply seqs_cons.
      { eapply evals_eq.
        - eapply evals_node_ok; [slk|cbn; reflexivity|]. apply impls_first; [reflexivity|]. cbn [nkids].
          instantiate (1 := [gate_tok kw_th t]). instantiate (1 := At TL).
          destruct (gt_wire_first t) eqn:Ewf.
          + apply firsts_hit.
            eapply (sw_gate_wn kw_th 161 162 163 164 165 166 167 23 168 169 17 170 171); try slk; try reflexivity; try assumption.
            gate_head Hb2 Ewf.
          + eapply firsts_miss.
            { eapply (sw_gate_wn_fail kw_th 161 162 163 164 165 166 167 23 168 17 170); try slk; try reflexivity; try eassumption.
              gate_head Hb2 Ewf. }
            apply firsts_hit.
            eapply (sw_gate_nw kw_th 172 173 174 175 176 177 178 17 179 180 23 181 182); try slk; try reflexivity; try assumption.
            gate_head Hb2 Ewf.
        - reflexivity. }
      unfold TL. punct full 183 184 44%N Hb3.
      apply seqs_fail. apply sw_gorf_fail. rewrite (std_pre_blanks WSs _ _ Hb4). exact Hj. }
    kwf full 187 188. kwf full 197 198. kwf full 209 210. kwf full 223 224.
    apply firsts_nil.
  - (* gate *)
    destruct (gate_text_head kw_g t TL) as (z & Ez).
    eapply firsts_miss.
    { eapply (sw_alt_late_fail full 92 93 _ [99; 111; 110; 99]%N); [slk|slk| |].
      { rewrite (std_pre_stop WSs) by reflexivity. reflexivity. }
      punct full 94 95 91%N Hb1.
      apply seqs_fail. apply sw_wire_fail. unfold gate_text, kw_g, kw_th. cbn [app].
      rewrite sspre_blanks_stop by (try exact Hb2; reflexivity). reflexivity. }
    eapply firsts_miss.
    { eapply (sw_alt_late_fail full 125 126 _ [99; 111; 110; 99]%N); [slk|slk| |].
      { rewrite (std_pre_stop WSs) by reflexivity. reflexivity. }
      punct full 127 128 91%N Hb1.
      eapply seqs_cons.
      { eapply evals_eq.
        - eapply evals_node_ok; [slk|cbn; reflexivity|]. apply impls_first; [reflexivity|]. cbn [nkids].
          instantiate (1 := [gate_tok kw_g t]). instantiate (1 := At TL).
          destruct (gt_wire_first t) eqn:Ewf.
          + apply firsts_hit.
            eapply (sw_gate_wn kw_g 130 131 132 133 134 135 136 23 137 138 17 139 140); try slk; try reflexivity; try assumption.
            gate_head Hb2 Ewf.
          + eapply firsts_miss.
            { eapply (sw_gate_wn_fail kw_g 130 131 132 133 134 135 136 23 137 17 139); try slk; try reflexivity; try eassumption.
              gate_head Hb2 Ewf. }
            apply firsts_hit.
            eapply (sw_gate_nw kw_g 141 142 143 144 145 146 147 17 148 149 23 150 151); try slk; try reflexivity; try assumption.
            gate_head Hb2 Ewf.
        - reflexivity. }
      unfold TL. punct full 152 153 44%N Hb3.
      apply seqs_fail. apply sw_gorf_fail. rewrite (std_pre_blanks WSs _ _ Hb4). exact Hj. }
    eapply firsts_miss.
    { eapply (sw_alt_late_fail full 156 157 _ [99; 111; 110; 99]%N); [slk|slk| |].
      { rewrite (std_pre_stop WSs) by reflexivity. reflexivity. }
      punct full 158 159 91%N Hb1.
      apply seqs_fail.
      eapply evals_node_fail; [slk|cbn; reflexivity|]. apply impls_first; [reflexivity|]. cbn [nkids].
      eapply firsts_miss.
      { eapply (sw_gate_kw_fail kw_th 161 162 163 164 166 170); try slk.
        unfold gate_text, kw_g. cbn [app]. rewrite sspre_blanks_stop by (try exact Hb2; reflexivity). reflexivity. }
      eapply firsts_miss; [|apply firsts_nil].
      eapply (sw_gate_kw_fail kw_th 172 173 174 175 177 181); try slk.
      unfold gate_text, kw_g. cbn [app]. rewrite sspre_blanks_stop by (try exact Hb2; reflexivity). reflexivity. }
    kwf full 187 188. kwf full 197 198. kwf full 209 210. kwf full 223 224.
    apply firsts_nil.
Qed.
Theorem reject_concentration_on_target th t y junk pls b :
  gate_ok t -> cc_layout_ok y -> nohead sdigit (sspre junk) -> Forall ssw_blank_line pls -> blanks WSs b ->
  no_tab (concat pls ++ b ++ badconc_target_text th t y junk) ->
  exists f0, forall fu, f0 <= fu -> parse_seesaw_fuel fu (concat pls ++ b ++ badconc_target_text th t y junk) = err eParse.
Proof.
  intros Ht Hy Hj Hp Hb Hnt. apply ssw_document_reject; try assumption.
  - unfold badconc_target_text, kw_conc. cbn. repeat split; reflexivity.
  - intros full b' Hb'. apply bad_concentration_target_refused; assumption.
Qed.

(* ---------------------------------------------------------------- non-vacuity *)
Definition e1 := mkNum 49%N [].
Definition e2 := mkNum 50%N [51%N].
Definition eset12 : nset := mkEset num [32%N] e1 [mkLmember num [] [32%N] e2] [].
Definition ew := mkWire e2 (NFnum e1) [] [] [] [32%N] [].
Example reject2_examples :
  (* seesaw[2 3, {1, 23}]   *)
  nset_ok eset12 /\ nohead [44%N] (sspre [93; 10]%N) /\
  parse_seesaw (ss_missing_text e2 eset12 [] [] [] [32%N] [] [93; 10]%N) = err eParse /\
  (* OUTPUT(1, 23) = w[23,1] *)
  nohead sidch [44; 32; 50; 51; 41]%N /\ nohead [41%N] (sspre [44; 32; 50; 51; 41]%N) /\
  parse_seesaw (out_extra_text (IONum e1) [] [] [] ([44; 32; 50; 51; 41; 32; 61; 32]%N ++ wire_text ew ++ [NL])) = err eParse /\
  (* inputfanout[23, x, {1, 23}] *)
  nohead sdigit (sspre [120%N]) /\
  parse_seesaw (if_fanout_text e2 [] [] [] [32%N] ([120; 44; 32]%N ++ nset_text eset12 ++ [93; 10]%N)) = err eParse /\
  (* conc[g[w[23,1], 1], ]  and  conc[th[1, w[23,1]], -5*c] *)
  gate_ok (mkGate true ew e1 [] [] [] [32%N] []) /\ gate_ok (mkGate false ew e1 [] [] [] [32%N] []) /\
  parse_seesaw (badconc_target_text false (mkGate true ew e1 [] [] [] [32%N] []) (mkCcLayout [] [] [] [32%N] []) [93; 10]%N) = err eParse /\
  parse_seesaw (badconc_target_text true (mkGate false ew e1 [] [] [] [32%N] []) (mkCcLayout [] [] [] [32%N] [])
                  [45; 53; 42; 99; 93; 10]%N) = err eParse /\
  (* seesawOR[1, 23, {1, 23}]  and  seesawAND[1, 23, {1, 23}] *)
  parse_seesaw (lg_few_text KwOR e1 e2 eset12 [] [] [] [32%N] [] [32%N] [] [93; 10]%N) = err eParse /\
  parse_seesaw (lg_few_text KwAND e1 e2 eset12 [] [] [] [32%N] [] [32%N] [] [93; 10]%N) = err eParse.
Proof. repeat split; try reflexivity; try (vm_compute; reflexivity); repeat constructor. Qed.
