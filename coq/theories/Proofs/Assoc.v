(* Association view of an entry list: (location, value) for every position.
   Connects `get` on the assembled table with membership in the association
   list of the tree, so that semantic facts are proved by plain induction on
   dyck trees. *)
From Coq Require Import List Arith Lia Bool NArith.
From DSD Require Import Base.Str Base.Errors Model.ComplexUtils Dyck.Dyck Proofs.Mpt Proofs.Db.
Import ListNotations.

Fixpoint assoc (es : list entry) (p : loc) : list (loc * option loc) :=
  match es with
  | [] => []
  | EB :: r => assoc r (S (fst p), 0)
  | EP v :: r => (p, v) :: assoc r (fst p, S (snd p))
  end.

Definition get (t : tab) (a : loc) : option (option loc) :=
  match nth_error t (fst a) with Some r => nth_error r (snd a) | None => None end.
Definition getPC (pc : tab * row) (a : loc) := get (fst pc ++ [snd pc]) a.

Definition loc_eqb (a b : loc) : bool := (fst a =? fst b) && (snd a =? snd b).
Lemma loc_eqb_eq a b : loc_eqb a b = true <-> a = b.
Proof.
  destruct a, b; unfold loc_eqb; cbn. rewrite andb_true_iff, !Nat.eqb_eq.
  split; [intros [-> ->]; reflexivity | intros H; injection H; auto].
Qed.

Fixpoint alookup (a : loc) (l : list (loc * option loc)) : option (option loc) :=
  match l with
  | [] => None
  | (k, v) :: r => if loc_eqb a k then Some v else alookup a r
  end.

Lemma assoc_app es1 es2 p : assoc (es1 ++ es2) p = assoc es1 p ++ assoc es2 (eadv es1 p).
Proof. revert p; induction es1 as [|[|v] r IH]; intros p; cbn; auto. f_equal. apply IH. Qed.

(* --- get on a table under construction --- *)
Lemma getPC_EB pc a : getPC (fst pc ++ [snd pc], []) a = getPC pc a.
Proof.
  unfold getPC, get. cbn [fst snd]. unfold tab, row in *.
  destruct (Nat.lt_ge_cases (fst a) (length (fst pc ++ [snd pc]))) as [H|H].
  - rewrite nth_error_app1 by exact H. reflexivity.
  - rewrite nth_error_app2 by exact H.
    destruct (nth_error (fst pc ++ [snd pc]) (fst a)) eqn:E.
    + assert (E' : nth_error (fst pc ++ [snd pc]) (fst a) <> None) by congruence.
      apply nth_error_Some in E'. lia.
    + destruct (fst a - length (fst pc ++ [snd pc])) as [|k]; cbn.
      * destruct (snd a); reflexivity.
      * destruct k; reflexivity.
Qed.

Lemma getPC_EP pc v a :
  getPC (fst pc, snd pc ++ [v]) a =
  match getPC pc a with
  | Some x => Some x
  | None => if loc_eqb a (posOf pc) then Some v else None
  end.
Proof.
  unfold getPC, get, posOf, loc_eqb. cbn [fst snd]. unfold tab, row in *.
  destruct (Nat.lt_trichotomy (fst a) (length (fst pc))) as [H|[H|H]].
  - rewrite !nth_error_app1 by exact H.
    destruct (nth_error (fst pc) (fst a)) eqn:E.
    + destruct (nth_error l (snd a)); [reflexivity|].
      replace (fst a =? length (fst pc)) with false by (symmetry; apply Nat.eqb_neq; lia). reflexivity.
    + apply nth_error_None in E. lia.
  - rewrite !nth_error_app2 by lia. rewrite H, Nat.sub_diag, Nat.eqb_refl. cbn.
    destruct (Nat.lt_trichotomy (snd a) (length (snd pc))) as [G|[G|G]].
    + rewrite nth_error_app1 by exact G.
      destruct (nth_error (snd pc) (snd a)) eqn:E; [reflexivity|]. apply nth_error_None in E. lia.
    + rewrite nth_error_app2 by lia. rewrite G, Nat.sub_diag, Nat.eqb_refl. cbn.
      rewrite (proj2 (nth_error_None (snd pc) (length (snd pc))) (le_n _)). reflexivity.
    + rewrite (proj2 (nth_error_None (snd pc ++ [v]) (snd a))) by (rewrite app_length; cbn; lia).
      rewrite (proj2 (nth_error_None (snd pc) (snd a))) by lia.
      replace (snd a =? length (snd pc)) with false by (symmetry; apply Nat.eqb_neq; lia). reflexivity.
  - rewrite !nth_error_app2 by lia.
    destruct (fst a - length (fst pc)) as [|k] eqn:E; [lia|]. cbn.
    replace (fst a =? length (fst pc)) with false by (symmetry; apply Nat.eqb_neq; lia).
    destruct k; reflexivity.
Qed.

Lemma getPC_appE es : forall pc a,
  getPC (appE pc es) a =
  match getPC pc a with Some x => Some x | None => alookup a (assoc es (posOf pc)) end.
Proof.
  induction es as [|[|v] r IH]; intros pc a; cbn [appE assoc alookup].
  - destruct (getPC pc a); reflexivity.
  - rewrite IH, getPC_EB, posOf_EB. reflexivity.
  - rewrite IH, getPC_EP, posOf_EP.
    destruct (getPC pc a); [reflexivity|].
    destruct (loc_eqb a (posOf pc)); reflexivity.
Qed.

Lemma getPC_empty a : getPC ([], []) a = None.
Proof. unfold getPC, get. cbn. destruct (fst a) as [|k]; cbn; [destruct (snd a)|destruct k]; reflexivity. Qed.

Lemma get_tab_of d a : get (tab_of d) a = alookup a (assoc (ents d (0, 0)) (0, 0)).
Proof.
  unfold tab_of. change (getPC (appE ([], []) (ents d (0, 0))) a = alookup a (assoc (ents d (0, 0)) (0, 0))).
  rewrite getPC_appE, getPC_empty. reflexivity.
Qed.

(* --- keys of an association list are strictly increasing --- *)
Lemma assoc_keys_ge es : forall p k v, In (k, v) (assoc es p) -> le_loc p k.
Proof.
  induction es as [|[|x] r IH]; intros p k v H; cbn [assoc] in H.
  - contradiction.
  - apply IH in H. unfold le_loc in *. cbn [fst snd] in *. lia.
  - destruct H as [H|H].
    + injection H as <- _. right. lia.
    + apply IH in H. unfold le_loc in *. cbn [fst snd] in *. lia.
Qed.

Lemma alookup_In a v l : alookup a l = Some v -> In (a, v) l.
Proof.
  induction l as [|[k x] r IH]; cbn; [discriminate|].
  destruct (loc_eqb a k) eqn:E.
  - apply loc_eqb_eq in E. subst k. intros H; injection H as ->. left; reflexivity.
  - intros H. right. apply IH, H.
Qed.

Lemma In_alookup es : forall p a v, In (a, v) (assoc es p) -> alookup a (assoc es p) = Some v.
Proof.
  induction es as [|[|x] r IH]; intros p a v H; cbn [assoc alookup] in *.
  - contradiction.
  - apply IH, H.
  - destruct H as [H|H].
    + injection H as <- <-. rewrite (proj2 (loc_eqb_eq p p) eq_refl). reflexivity.
    + destruct (loc_eqb a p) eqn:E.
      * apply loc_eqb_eq in E. subst a. apply assoc_keys_ge in H.
        unfold le_loc in H. cbn [fst snd] in H. lia.
      * apply IH, H.
Qed.

Lemma get_tab_of_In d a v : get (tab_of d) a = Some v <-> In (a, v) (assoc (ents d (0, 0)) (0, 0)).
Proof. rewrite get_tab_of. split; [apply alookup_In | apply In_alookup]. Qed.

(* --- facts about the association list of a tree, by induction on the tree --- *)
Definition aents d p := assoc (ents d p) p.

Lemma aents_DP i r p :
  aents (DP i r) p =
  let q := adv i (fst p, S (snd p)) in
  (p, Some q) :: aents i (fst p, S (snd p)) ++ (q, Some p) :: aents r (fst q, S (snd q)).
Proof.
  unfold aents. cbn [ents assoc fst snd]. f_equal. rewrite assoc_app. f_equal.
  rewrite eadv_ents. cbn [assoc fst snd]. reflexivity.
Qed.

Lemma aents_range d : forall p k v, In (k, v) (aents d p) -> le_loc p k /\ lt_loc k (adv d p).
Proof.
  induction d as [|r IH|r IH|i IHi r IHr]; intros p k v H.
  - contradiction.
  - unfold aents in H. cbn [ents assoc adv] in *. destruct H as [H|H].
    + injection H as <- _. pose proof (adv_ge r (fst p, S (snd p))) as G.
      unfold le_loc, lt_loc in *. cbn [fst snd] in *. lia.
    + apply (IH (fst p, S (snd p))) in H. unfold le_loc, lt_loc in *. cbn [fst snd] in *. lia.
  - unfold aents in H. cbn [ents assoc adv] in *.
    apply (IH (S (fst p), 0)) in H. unfold le_loc, lt_loc in *. cbn [fst snd] in *. lia.
  - rewrite aents_DP in H. cbn [adv] in *. cbn zeta in H.
    set (q := adv i (fst p, S (snd p))) in *.
    pose proof (adv_ge i (fst p, S (snd p))) as G1. fold q in G1.
    pose proof (adv_ge r (fst q, S (snd q))) as G2.
    destruct H as [H|H].
    + injection H as <- _. unfold le_loc, lt_loc in *. cbn [fst snd] in *. lia.
    + apply in_app_or in H. destruct H as [H|[H|H]].
      * apply IHi in H. fold q in H. unfold le_loc, lt_loc in *. cbn [fst snd] in *. lia.
      * injection H as <- _. unfold le_loc, lt_loc in *. cbn [fst snd] in *. lia.
      * apply IHr in H. unfold le_loc, lt_loc in *. cbn [fst snd] in *. lia.
Qed.

(* values point inside the tree's own range, and the pairing is symmetric *)
Lemma aents_sym d : forall p a b, In (a, Some b) (aents d p) -> In (b, Some a) (aents d p).
Proof.
  induction d as [|r IH|r IH|i IHi r IHr]; intros p a b H.
  - contradiction.
  - unfold aents in *. cbn [ents assoc] in *. destruct H as [H|H]; [discriminate|].
    right. apply (IH (fst p, S (snd p))), H.
  - unfold aents in *. cbn [ents assoc] in *. apply (IH (S (fst p), 0)), H.
  - rewrite aents_DP in *. cbn zeta in *. set (q := adv i (fst p, S (snd p))) in *.
    destruct H as [H|H].
    + injection H as <- <-. right. apply in_or_app. right. left. reflexivity.
    + apply in_app_or in H. destruct H as [H|[H|H]].
      * right. apply in_or_app. left. apply IHi, H.
      * injection H as <- <-. left. reflexivity.
      * right. apply in_or_app. right. right. apply IHr, H.
Qed.

(* no crossing pairs: for two opening positions a < c with partners b, e,
   either the second pair is inside the first or after it *)
Lemma aents_nested d : forall p a b c e,
  In (a, Some b) (aents d p) -> In (c, Some e) (aents d p) ->
  lt_loc a b -> lt_loc c e -> lt_loc a c -> lt_loc c b -> lt_loc e b.
Proof.
  induction d as [|r IH|r IH|i IHi r IHr]; intros p a b c e H1 H2 Lab Lce Lac Lcb.
  - contradiction.
  - unfold aents in *. cbn [ents assoc] in *.
    destruct H1 as [H1|H1]; [discriminate|]. destruct H2 as [H2|H2]; [discriminate|].
    eapply (IH (fst p, S (snd p))); eassumption.
  - unfold aents in *. cbn [ents assoc] in *. eapply (IH (S (fst p), 0)); eassumption.
  - rewrite aents_DP in *. cbn zeta in *. set (q := adv i (fst p, S (snd p))) in *.
    pose proof (adv_ge i (fst p, S (snd p))) as G1. fold q in G1.
    assert (Ri : forall k v, In (k, v) (aents i (fst p, S (snd p))) ->
                 lt_loc p k /\ lt_loc k q).
    { intros k v Hk. apply aents_range in Hk. fold q in Hk.
      unfold le_loc, lt_loc in *. cbn [fst snd] in *. lia. }
    assert (Rr : forall k v, In (k, v) (aents r (fst q, S (snd q))) -> lt_loc q k).
    { intros k v Hk. apply aents_range in Hk. unfold le_loc, lt_loc in *. cbn [fst snd] in *. lia. }
    assert (Si : forall k v, In (k, Some v) (aents i (fst p, S (snd p))) -> lt_loc p v /\ lt_loc v q).
    { intros k v Hk. apply aents_sym in Hk. apply Ri in Hk. exact Hk. }
    assert (Sr : forall k v, In (k, Some v) (aents r (fst q, S (snd q))) -> lt_loc q v).
    { intros k v Hk. apply aents_sym in Hk. apply Rr in Hk. exact Hk. }
    destruct H1 as [H1|H1]; [injection H1 as <- <-|apply in_app_or in H1; destruct H1 as [H1|[H1|H1]]];
    (destruct H2 as [H2|H2]; [injection H2 as <- <-|apply in_app_or in H2; destruct H2 as [H2|[H2|H2]]]);
    try (injection H1 as <- <-); try (injection H2 as <- <-);
    try (pose proof (Ri _ _ H1)); try (pose proof (Ri _ _ H2));
    try (pose proof (Si _ _ H1)); try (pose proof (Si _ _ H2));
    try (pose proof (Rr _ _ H1)); try (pose proof (Rr _ _ H2));
    try (pose proof (Sr _ _ H1)); try (pose proof (Sr _ _ H2));
    try (unfold le_loc, lt_loc in *; cbn [fst snd] in *; lia).
    + eapply IHi; eassumption.
    + eapply IHr; eassumption.
Qed.
