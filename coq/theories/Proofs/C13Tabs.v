(* C13: the round trips hold for layouts that contain tabs.  parse_pil expands tabs first; the
   expansion of a rendering (blank runs over {tab, CR, space}) is again a rendering, with other
   blank runs and the same token tree. *)
From Coq Require Import List NArith Bool Arith Lia.
From DSD Require Import Base.Str Base.Errors Base.Val Model.Peg Model.DispatchPeg Proofs.PegMono Proofs.PegRules Proofs.PegStd
  Proofs.PegDoc Proofs.PegKw Proofs.PegTabs Proofs.C13Doc Proofs.PilLex Proofs.C13Dl Proofs.C13Sl Proofs.C13Ms Proofs.C13Cd Proofs.C13Rx Proofs.PegNum Proofs.C13Kc Proofs.C13Kc2 Proofs.C13Ib Proofs.C13Sc.
From DSDGen Require Import PilGrammar.
Import ListNotations.

Lemma pil_tabs_reduce T v :
  (forall X, tabx T X -> no_tab X -> exists f0, forall f, f0 <= f -> parse_pil_fuel f X = v) ->
  exists f0, forall f, f0 <= f -> parse_pil_fuel f T = v.
Proof.
  intros H. destruct (H (expandtabs T) (tabx_expand T 0) (expandtabs_from_no_tabs T 0)) as (f0 & Hf).
  exists f0. intros f Hle. unfold parse_pil_fuel. rewrite parse_string_fuel_expand. exact (Hf f Hle).
Qed.

Lemma class_no_tabs cs w : forallb (fun c => negb (N.eqb c TAB)) cs = true -> all_in cs w -> no_tabs w.
Proof.
  intros Hcs Hw. unfold no_tabs, all_in in *. rewrite forallb_forall in Hw. apply forallb_forall. intros c Hc.
  exact (memc_forallb cs _ c Hcs (Hw c Hc)).
Qed.
Lemma idch_no_tabs w : all_in idch w -> no_tabs w.
Proof. apply class_no_tabs. reflexivity. Qed.
Lemma digit_no_tabs w : all_in digit w -> no_tabs w.
Proof. apply class_no_tabs. reflexivity. Qed.
Lemma alpha_no_tabs w : all_in alpha w -> no_tabs w.
Proof. apply class_no_tabs. reflexivity. Qed.
Lemma no_tabs_cons c w : N.eqb c TAB = false -> no_tabs w -> no_tabs (c :: w).
Proof. intros Hc Hw. unfold no_tabs in *. cbn. rewrite Hc, Hw. reflexivity. Qed.
Lemma no_tabs_app a b : no_tabs a -> no_tabs b -> no_tabs (a ++ b).
Proof. unfold no_tabs. intros Ha Hb. rewrite forallb_app. apply andb_true_iff. split; assumption. Qed.
Lemma memc_no_tab cs c : forallb (fun c => negb (N.eqb c TAB)) cs = true -> memc c cs = true -> N.eqb c TAB = false.
Proof. intros Hcs Hc. apply negb_true_iff. exact (memc_forallb cs _ c Hcs Hc). Qed.
Lemma name_no_tabs n0 ns star : memc n0 idch = true -> all_in idch ns -> no_tabs (n0 :: ns ++ star_s star).
Proof.
  intros H0 Hns. apply no_tabs_cons; [apply (memc_no_tab idch); [reflexivity|exact H0]|].
  apply no_tabs_app; [exact (idch_no_tabs ns Hns)|destruct star; reflexivity].
Qed.
Lemma ident_no_tabs n0 ns : memc n0 idch = true -> all_in idch ns -> no_tabs (n0 :: ns).
Proof. intros H0 Hns. apply no_tabs_cons; [apply (memc_no_tab idch); [reflexivity|exact H0]|exact (idch_no_tabs ns Hns)]. Qed.

Notation tab_in_ws := (eq_refl : memc TAB pil_ws = true).
Notation sp_in_ws := (eq_refl : memc SP pil_ws = true).

(* peel a tab-free part / a blank run / one character off the front *)
Ltac tx_lex H X' := apply tabx_lex_app in H as (X' & -> & H).
Ltac tx_blk H b' X' Hb' Hbn := apply (tabx_blanks_app pil_ws sp_in_ws) in H as (b' & X' & -> & Hb' & Hbn & H).
Ltac tx_chr H X' := apply tabx_cons_inv in H as (X' & -> & H).

(* the common frame: leading blanks, body, statement end *)
Lemma tabs_frame b body E X : blanks WS b -> stmt_end E [] -> tabx (b ++ body ++ E) X ->
  exists b' Xb E', X = b' ++ Xb ++ E' /\ blanks WS b' /\ stmt_end E' [] /\ tabx body Xb.
Proof.
  intros Hb HE H. tx_blk H b' X1 Hb' Hbn; [|exact Hb]. apply tabx_app_inv in H as (Xb & E' & -> & Hbody & HE').
  exists b', Xb, E'. split; [reflexivity|]. split; [exact Hb'|]. split; [|exact Hbody].
  exact (tabx_stmt_end pil_nodes pil_c pil_ws pil_comment_ok sp_in_ws E E' HE HE').
Qed.

(* ---------------------------------------------------------------- dl-domain *)
Lemma dlen_no_tabs d : match d with DNum d0 ds => memc d0 digit = true /\ all_in digit ds | _ => True end -> no_tabs (dlen_text d).
Proof.
  destruct d as [d0 ds| |]; [|reflexivity|reflexivity]. intros [H0 Hds]. cbn.
  apply no_tabs_cons; [apply (memc_no_tab digit); [reflexivity|exact H0]|exact (digit_no_tabs ds Hds)].
Qed.
Lemma dl_tabs s y X : dl_stmt_ok s -> dl_layout_ok y -> tabx (dl_render s y) X ->
  exists y', X = dl_render s y' /\ dl_layout_ok y'.
Proof.
  intros (H0 & Hns & Hlen) (Hb1 & Hb2 & Hb3 & Hsg) H. unfold dl_render in H.
  tx_lex H X1; [|destruct (dl_kw s); reflexivity].
  tx_blk H b1 X2 Hb1' Hn1; [|exact Hb1].
  tx_lex H X3; [|exact (name_no_tabs _ _ _ H0 Hns)].
  tx_blk H b2 X4 Hb2' Hn2; [|exact Hb2].
  tx_chr H X5; [|destruct Hsg as [-> | ->]; reflexivity].
  tx_blk H b3 X6 Hb3' Hn3; [|exact Hb3].
  rewrite <- (app_nil_r (dlen_text (dl_len s))) in H. tx_lex H X7.
  2:{ apply dlen_no_tabs. destruct (dl_len s); tauto. }
  apply tabx_nil_inv in H. subst X7. rewrite app_nil_r.
  exists (mkDlLayout b1 b2 (dl_sgn y) b3). split; [reflexivity|]. repeat split; assumption.
Qed.
Theorem roundtrip_dl_domain_tabs s y b E :
  dl_stmt_ok s -> dl_layout_ok y -> blanks WS b -> stmt_end E [] ->
  exists f0, forall f, f0 <= f -> parse_pil_fuel f (b ++ dl_render s y ++ E) = vals [dl_tree s].
Proof.
  intros Hs Hy Hb HE. apply pil_tabs_reduce. intros X HX Hnt.
  apply tabs_frame in HX as (b' & Xb & E' & -> & Hb' & HE' & HX); [|exact Hb|exact HE].
  apply (dl_tabs s y) in HX as (y' & -> & Hy'); [|exact Hs|exact Hy].
  apply roundtrip_dl_domain_parse; assumption.
Qed.

(* ---------------------------------------------------------------- shared parts *)
Definition optok (o : option optnum) : Prop := match o with Some o => optnum_ok o | None => True end.
Lemma optnum_tabs o r X : optok o -> tabx (optnum_text o ++ r) X ->
  exists o' X', X = optnum_text o' ++ X' /\ optok o' /\ optnum_toks o' = optnum_toks o /\ tabx r X'.
Proof.
  destruct o as [o|]; cbn [optnum_text optok].
  - intros (Hb1 & Hsg & Hb2 & H0 & Hds) H. rewrite <- app_assoc in H. tx_blk H b1 X1 Hb1' Hn1; [|exact Hb1].
    cbn [app] in H. tx_chr H X2; [|destruct Hsg as [-> | ->]; reflexivity].
    rewrite <- app_assoc in H. tx_blk H b2 X3 Hb2' Hn2; [|exact Hb2].
    change ((on_d0 o :: on_ds o) ++ r) with ((on_d0 o :: on_ds o) ++ r) in H.
    cbn [app] in H. change (on_d0 o :: on_ds o ++ r) with ((on_d0 o :: on_ds o) ++ r) in H.
    tx_lex H X4; [|apply no_tabs_cons; [apply (memc_no_tab digit); [reflexivity|exact H0]|exact (digit_no_tabs _ Hds)]].
    exists (Some (mkOptnum b1 (on_sgn o) b2 (on_d0 o) (on_ds o))), X4. cbn [optnum_text on_b1 on_sgn on_b2 on_d0 on_ds].
    split; [rewrite <- !app_assoc; cbn [app]; rewrite <- app_assoc; reflexivity|]. split; [repeat split; assumption|]. split; [reflexivity|exact H].
  - intros _ H. exists None, X. cbn. auto.
Qed.

Lemma members_tabs d ms : N.eqb d TAB = false -> Forall member_ok ms -> forall r X, tabx (members_text d ms r) X ->
  exists ms' X', X = members_text d ms' X' /\ Forall member_ok ms' /\ map m_name ms' = map m_name ms /\ tabx r X'.
Proof.
  intros Hd. induction 1 as [|m ms (Hb1 & Hb2 & H0 & Hns) Hms IH]; intros r X H; cbn [members_text] in H.
  - exists [], X. cbn. auto.
  - tx_blk H b1 X1 Hb1' Hn1; [|exact Hb1]. tx_chr H X2; [|exact Hd]. tx_blk H b2 X3 Hb2' Hn2; [|exact Hb2].
    change (m_n0 m :: m_ns m ++ members_text d ms r) with ((m_n0 m :: m_ns m) ++ members_text d ms r) in H.
    tx_lex H X4; [|exact (ident_no_tabs _ _ H0 Hns)]. destruct (IH _ _ H) as (ms' & X' & -> & Hms' & Hnm & Hr).
    exists (mkMember b1 b2 (m_n0 m) (m_ns m) :: ms'), X'. cbn [members_text m_b1 m_b2 m_n0 m_ns map]. split; [reflexivity|].
    split; [constructor; [repeat split; assumption|exact Hms']|]. split; [unfold m_name at 1 3; cbn; f_equal; exact Hnm|exact Hr].
Qed.

Lemma doms_tabs ds : Forall dom_ok ds -> forall r X, tabx (doms_text ds r) X ->
  exists ds' X', X = doms_text ds' X' /\ Forall dom_ok ds' /\ map d_name ds' = map d_name ds /\ tabx r X'.
Proof.
  induction 1 as [|d ds (Hb & Hbn & H0 & Hns) Hds IH]; intros r X H; cbn [doms_text] in H.
  - exists [], X. cbn. auto.
  - tx_blk H b1 X1 Hb1' Hn1; [|exact Hb].
    replace (d_n0 d :: d_ns d ++ star_s (d_star d) ++ doms_text ds r) with ((d_n0 d :: d_ns d ++ star_s (d_star d)) ++ doms_text ds r) in H
      by (cbn [app]; rewrite <- app_assoc; reflexivity).
    tx_lex H X2; [|exact (name_no_tabs _ _ _ H0 Hns)]. destruct (IH _ _ H) as (ds' & X' & -> & Hds' & Hnm & Hr).
    exists (mkDom b1 (d_n0 d) (d_ns d) (d_star d) :: ds'), X'. cbn [doms_text d_b d_n0 d_ns d_star map]. split; [cbn [app]; rewrite <- ?app_assoc; reflexivity|].
    split; [constructor; [split; [exact Hb1'|split; [cbn; intros E; apply Hbn; apply Hn1; exact E|split; [exact H0|exact Hns]]]|exact Hds']|].
    split; [unfold d_name at 1 3; cbn; f_equal; exact Hnm|exact Hr].
Qed.

Ltac frame HX b' Xb E' Hb' HE' Hb HE :=
  apply tabs_frame in HX as (b' & Xb & E' & -> & Hb' & HE' & HX); [|exact Hb|exact HE].
Ltac tx_end H X' := rewrite <- ?app_nil_r in H; apply tabx_nil_inv in H.

(* ---------------------------------------------------------------- sl-domain *)
Lemma sl_tabs s y X : sl_stmt_ok s -> sl_layout_ok y -> tabx (sl_render s y) X ->
  exists s' y', X = sl_render s' y' /\ sl_stmt_ok s' /\ sl_layout_ok y' /\ sl_tree s' = sl_tree s.
Proof.
  intros (H0 & Hns & Hc0 & Hcs & Hnum) (Hb1 & Hb2 & Hb3 & Hsg) H. unfold sl_render in H.
  tx_lex H X1; [|reflexivity].
  tx_blk H b1 X2 Hb1' Hn1; [|exact Hb1].
  tx_lex H X3; [|exact (name_no_tabs _ _ _ H0 Hns)].
  tx_blk H b2 X4 Hb2' Hn2; [|exact Hb2].
  tx_chr H X5; [|destruct Hsg as [-> | ->]; reflexivity].
  tx_blk H b3 X6 Hb3' Hn3; [|exact Hb3].
  tx_lex H X7; [|apply no_tabs_cons; [apply (memc_no_tab alpha); [reflexivity|exact Hc0]|exact (alpha_no_tabs _ Hcs)]].
  rewrite <- (app_nil_r (optnum_text (sl_num s))) in H. apply optnum_tabs in H as (o' & X8 & -> & Ho' & Ht & H); [|exact Hnum].
  apply tabx_nil_inv in H. subst X8. rewrite app_nil_r.
  exists (mkSl (sl_n0 s) (sl_ns s) (sl_star s) (sl_c0 s) (sl_cs s) o'), (mkSlLayout b1 b2 (sl_sgn y) b3).
  split; [reflexivity|]. split; [repeat split; assumption|]. split; [repeat split; assumption|].
  unfold sl_tree, sl_name. cbn. rewrite Ht. reflexivity.
Qed.
Theorem roundtrip_sl_domain_tabs s y b E :
  sl_stmt_ok s -> sl_layout_ok y -> blanks WS b -> stmt_end E [] ->
  exists f0, forall f, f0 <= f -> parse_pil_fuel f (b ++ sl_render s y ++ E) = vals [sl_tree s].
Proof.
  intros Hs Hy Hb HE. apply pil_tabs_reduce. intros X HX Hnt. frame HX b' Xb E' Hb' HE' Hb HE.
  apply (sl_tabs s y) in HX as (s' & y' & -> & Hs' & Hy' & <-); [|exact Hs|exact Hy].
  apply roundtrip_sl_domain_parse; assumption.
Qed.

(* ---------------------------------------------------------------- resting-macrostate *)
Lemma ms_tabs s y X : ms_stmt_ok s -> ms_layout_ok y -> tabx (ms_render s y) X ->
  exists s' y', X = ms_render s' y' /\ ms_stmt_ok s' /\ ms_layout_ok y' /\ ms_tree s' = ms_tree s.
Proof.
  intros (H0 & Hns & Hm0 & Hms0 & Hmore) (Hb1 & Hb1n & Hb2 & Hb3 & Hb4 & Hb5) H. unfold ms_render in H.
  tx_lex H X1; [|destruct (ms_kw s); reflexivity].
  tx_blk H b1 X2 Hb1' Hn1; [|exact Hb1].
  tx_lex H X3; [|exact (ident_no_tabs _ _ H0 Hns)].
  tx_blk H b2 X4 Hb2' Hn2; [|exact Hb2].
  tx_chr H X5; [|reflexivity].
  tx_blk H b3 X6 Hb3' Hn3; [|exact Hb3].
  tx_chr H X7; [|reflexivity].
  tx_blk H b4 X8 Hb4' Hn4; [|exact Hb4].
  tx_lex H X9; [|exact (ident_no_tabs _ _ Hm0 Hms0)].
  apply members_tabs in H as (ms' & X10 & -> & Hms' & Hnm & H); [|reflexivity|exact Hmore].
  tx_blk H b5 X11 Hb5' Hn5; [|exact Hb5]. apply tabx_lex in H; [|reflexivity]. subst X11.
  exists (mkMs (ms_kw s) (ms_n0 s) (ms_ns s) (ms_m0 s) (ms_ms0 s) ms'), (mkMsLayout b1 b2 b3 b4 b5).
  split; [reflexivity|]. split; [repeat split; assumption|].
  split; [repeat split; try assumption; cbn; intros E; apply Hb1n; apply Hn1; exact E|].
  unfold ms_tree. cbn [ms_kw ms_n0 ms_ns ms_m0 ms_ms0 ms_more]. rewrite <- (map_map m_name TStr ms'), <- (map_map m_name TStr (ms_more s)), Hnm. reflexivity.
Qed.
Theorem roundtrip_macrostate_tabs s y b E :
  ms_stmt_ok s -> ms_layout_ok y -> blanks WS b -> stmt_end E [] ->
  exists f0, forall f, f0 <= f -> parse_pil_fuel f (b ++ ms_render s y ++ E) = vals [ms_tree s].
Proof.
  intros Hs Hy Hb HE. apply pil_tabs_reduce. intros X HX Hnt. frame HX b' Xb E' Hb' HE' Hb HE.
  apply (ms_tabs s y) in HX as (s' & y' & -> & Hs' & Hy' & <-); [|exact Hs|exact Hy].
  apply roundtrip_macrostate_parse; assumption.
Qed.

(* ---------------------------------------------------------------- composite-domain *)
Lemma cd_tabs s y X : cd_stmt_ok s -> cd_layout_ok y -> tabx (cd_render s y) X ->
  exists s' y', X = cd_render s' y' /\ cd_stmt_ok s' /\ cd_layout_ok y' /\ cd_tree s' = cd_tree s.
Proof.
  intros (H0 & Hns & Hd0 & Hds0 & Hdoms & Hnum) (Hb1 & Hb2 & Hb3 & Hsg) H. unfold cd_render in H.
  tx_lex H X1; [|destruct (cd_kw s); reflexivity].
  tx_blk H b1 X2 Hb1' Hn1; [|exact Hb1].
  tx_lex H X3; [|exact (ident_no_tabs _ _ H0 Hns)].
  tx_blk H b2 X4 Hb2' Hn2; [|exact Hb2].
  tx_chr H X5; [|destruct Hsg as [-> | ->]; reflexivity].
  tx_blk H b3 X6 Hb3' Hn3; [|exact Hb3].
  tx_lex H X7; [|exact (name_no_tabs _ _ _ Hd0 Hds0)].
  apply doms_tabs in H as (ds' & X8 & -> & Hds' & Hnm & H); [|exact Hdoms].
  rewrite <- (app_nil_r (optnum_text (cd_num s))) in H. apply optnum_tabs in H as (o' & X9 & -> & Ho' & Ht & H); [|exact Hnum].
  apply tabx_nil_inv in H. subst X9. rewrite app_nil_r.
  exists (mkCd (cd_kw s) (cd_n0 s) (cd_ns s) (cd_d0 s) (cd_ds0 s) (cd_star0 s) ds' o'), (mkCdLayout b1 b2 (cd_sgn y) b3).
  split; [reflexivity|]. split; [repeat split; assumption|]. split; [repeat split; assumption|].
  unfold cd_tree, cd_first. cbn [cd_kw cd_n0 cd_ns cd_d0 cd_ds0 cd_star0 cd_doms cd_num]. rewrite Ht, <- (map_map d_name TStr ds'), <- (map_map d_name TStr (cd_doms s)), Hnm. reflexivity.
Qed.
Theorem roundtrip_composite_domain_tabs s y b E :
  cd_stmt_ok s -> cd_layout_ok y -> blanks WS b -> stmt_end E [] ->
  exists f0, forall f, f0 <= f -> parse_pil_fuel f (b ++ cd_render s y ++ E) = vals [cd_tree s].
Proof.
  intros Hs Hy Hb HE. apply pil_tabs_reduce. intros X HX Hnt. frame HX b' Xb E' Hb' HE' Hb HE.
  apply (cd_tabs s y) in HX as (s' & y' & -> & Hs' & Hy' & <-); [|exact Hs|exact Hy].
  apply roundtrip_composite_domain_parse; assumption.
Qed.

(* ---------------------------------------------------------------- reaction *)
Lemma rx_species_tabs s y r X : rx_stmt_ok s -> rx_layout_ok y -> tabx (rx_species_text s y r) X ->
  exists s' y' X', X = rx_species_text s' y' X' /\ rx_stmt_ok s' /\ rx_layout_ok y' /\ rx_b1 y' = rx_b1 y /\ rx_kw s' = rx_kw s /\
    names_toks (rx_r0 s') (rx_rs0 s') (rx_reactants s') = names_toks (rx_r0 s) (rx_rs0 s) (rx_reactants s) /\
    names_toks (rx_p0 s') (rx_ps0 s') (rx_products s') = names_toks (rx_p0 s) (rx_ps0 s) (rx_products s) /\ tabx r X'.
Proof.
  intros (Hr0 & Hrs0 & Hre & Hp0 & Hps0 & Hpr) (Hb1 & Hb2 & Hb2n & Hb3) H. unfold rx_species_text in H.
  change (rx_r0 s :: rx_rs0 s ++ ?z) with ((rx_r0 s :: rx_rs0 s) ++ z) in H.
  tx_lex H X1; [|exact (ident_no_tabs _ _ Hr0 Hrs0)].
  apply members_tabs in H as (re' & X2 & -> & Hre' & Hnre & H); [|reflexivity|exact Hre].
  tx_blk H b2 X3 Hb2' Hn2; [|exact Hb2]. tx_chr H X4; [|reflexivity]. tx_chr H X5; [|reflexivity].
  tx_blk H b3 X6 Hb3' Hn3; [|exact Hb3].
  change (rx_p0 s :: rx_ps0 s ++ ?z) with ((rx_p0 s :: rx_ps0 s) ++ z) in H.
  tx_lex H X7; [|exact (ident_no_tabs _ _ Hp0 Hps0)].
  apply members_tabs in H as (pr' & X8 & -> & Hpr' & Hnpr & H); [|reflexivity|exact Hpr].
  exists (mkRx (rx_kw s) (rx_r0 s) (rx_rs0 s) re' (rx_p0 s) (rx_ps0 s) pr'), (mkRxLayout (rx_b1 y) b2 b3), X8.
  split; [reflexivity|]. split; [repeat split; assumption|].
  split; [repeat split; try assumption; cbn; intros E; apply Hb2n; apply Hn2; exact E|].
  split; [reflexivity|]. split; [reflexivity|]. unfold names_toks. cbn [rx_r0 rx_rs0 rx_reactants rx_p0 rx_ps0 rx_products].
  rewrite <- (map_map m_name TStr re'), <- (map_map m_name TStr pr'), Hnre, Hnpr, !map_map. auto.
Qed.
Lemma rx_render_species s y : rx_render s y = rxkw_text (rx_kw s) ++ rx_b1 y ++ rx_species_text s y [].
Proof. unfold rx_render, rx_species_text, ARROW. repeat (rewrite <- ?app_assoc; cbn [app]). reflexivity. Qed.
Lemma rx_tabs s y X : rx_stmt_ok s -> rx_layout_ok y -> tabx (rx_render s y) X ->
  exists s' y', X = rx_render s' y' /\ rx_stmt_ok s' /\ rx_layout_ok y' /\ rx_tree s' = rx_tree s.
Proof.
  intros Hs Hy H. rewrite rx_render_species in H.
  tx_lex H X1; [|destruct (rx_kw s); reflexivity].
  tx_blk H b1 X2 Hb1' Hn1; [|apply Hy].
  apply (rx_species_tabs s y) in H as (s' & y' & X3 & -> & Hs' & Hy' & _ & Hkw & Hre & Hpr & H); [|exact Hs|exact Hy].
  apply tabx_nil_inv in H. subst X3.
  exists s', (mkRxLayout b1 (rx_b2 y') (rx_b3 y')). rewrite rx_render_species. cbn [rx_b1]. rewrite Hkw.
  split; [reflexivity|]. split; [exact Hs'|]. split; [destruct Hy' as (_ & ? & ? & ?); repeat split; assumption|].
  unfold rx_tree. rewrite Hre, Hpr. reflexivity.
Qed.
Theorem roundtrip_reaction_tabs s y b E :
  rx_stmt_ok s -> rx_layout_ok y -> blanks WS b -> stmt_end E [] ->
  exists f0, forall f, f0 <= f -> parse_pil_fuel f (b ++ rx_render s y ++ E) = vals [rx_tree s].
Proof.
  intros Hs Hy Hb HE. apply pil_tabs_reduce. intros X HX Hnt. frame HX b' Xb E' Hb' HE' Hb HE.
  apply (rx_tabs s y) in HX as (s' & y' & -> & Hs' & Hy' & <-); [|exact Hs|exact Hy].
  apply roundtrip_reaction_parse; assumption.
Qed.

(* ---------------------------------------------------------------- reaction with a rate box *)
Lemma gnum_no_tabs n : pgnum_ok n -> no_tabs (gnum_text n).
Proof.
  intros (H0 & Hs & Hf & He). unfold gnum_text.
  apply no_tabs_cons; [apply (memc_no_tab digit); [reflexivity|exact H0]|].
  apply no_tabs_app; [exact (digit_no_tabs _ Hs)|]. apply no_tabs_app.
  - destruct (g_frac n) as [[f0 fs]|]; [|reflexivity]. destruct Hf as [Hf0 Hfs]. cbn.
    apply no_tabs_cons; [reflexivity|]. apply no_tabs_cons; [apply (memc_no_tab digit); [reflexivity|exact Hf0]|exact (digit_no_tabs _ Hfs)].
  - destruct (g_exp n) as [[[sg e0] es]|]; [|reflexivity]. destruct He as (He0 & Hes & Hsg). cbn.
    apply no_tabs_cons; [reflexivity|]. apply no_tabs_app.
    + destruct sg as [c|]; [|reflexivity]. destruct Hsg as [-> | ->]; reflexivity.
    + apply no_tabs_cons; [apply (memc_no_tab digit); [reflexivity|exact He0]|exact (digit_no_tabs _ Hes)].
Qed.
Lemma runit_no_tabs cs t : no_tabs (runit_text cs t).
Proof.
  unfold runit_text. apply no_tabs_app.
  - induction cs as [|c cs IH]; [reflexivity|]. cbn [cunits_text flat_map]. apply no_tabs_cons; [reflexivity|].
    apply no_tabs_app; [destruct c; reflexivity|exact IH].
  - destruct t; reflexivity.
Qed.
Lemma infobox_tabs i r X : infobox_ok i -> tabx (infobox_text i ++ r) X ->
  exists i' X', X = infobox_text i' ++ X' /\ infobox_ok i' /\ infobox_toks i' = infobox_toks i /\ tabx r X'.
Proof.
  intros (Hb1 & Hb2 & Hb3 & Hb4 & Hrate & Hname & Herr) H. unfold infobox_text, infobox_body in H.
  repeat (rewrite <- ?app_assoc in H; cbn [app] in H).
  tx_blk H b1 X1 Hb1' Hn1; [|exact Hb1]. tx_chr H X2; [|reflexivity]. tx_blk H b2 X3 Hb2' Hn2; [|exact Hb2].
  assert (Hnm : exists nm' X4, X3 = ibname_text nm' ++ X4 /\
            match nm' with
            | Some nm => memc (in_n0 nm) idch = true /\ all_in idch (in_ns nm) /\ blanks WS (in_b1 nm) /\ blanks WS (in_b2 nm) /\
                         (in_sg nm = 61%N \/ in_sg nm = 58%N)
            | None => True end /\
            match nm' with Some nm => [TStr (in_n0 nm :: in_ns nm)] | None => [] end =
            match ib_name i with Some nm => [TStr (in_n0 nm :: in_ns nm)] | None => [] end /\
            tabx (gnum_text (ib_rate i) ++ iberr_part (ib_err i) ++ ib_b3 i ++ runit_text (ib_cunits i) (ib_tunit i) ++ ib_b4 i ++ 93%N :: r) X4).
  { destruct (ib_name i) as [nm|]; cbn [ibname_text] in H.
    - destruct Hname as (H0 & Hns & Hnb1 & Hnb2 & Hsg). repeat (rewrite <- ?app_assoc in H; cbn [app] in H).
      change (in_n0 nm :: in_ns nm ++ ?z) with ((in_n0 nm :: in_ns nm) ++ z) in H.
      tx_lex H Y1; [|exact (ident_no_tabs _ _ H0 Hns)]. tx_blk H nb1 Y2 Hnb1' Hnn1; [|exact Hnb1].
      tx_chr H Y3; [|destruct Hsg as [-> | ->]; reflexivity]. tx_blk H nb2 Y4 Hnb2' Hnn2; [|exact Hnb2].
      exists (Some (mkIbname (in_n0 nm) (in_ns nm) nb1 (in_sg nm) nb2)), Y4. cbn [ibname_text in_n0 in_ns in_b1 in_sg in_b2].
      split; [repeat (rewrite <- ?app_assoc; cbn [app]); reflexivity|]. split; [repeat split; assumption|]. split; [reflexivity|exact H].
    - exists None, X3. cbn. auto. }
  clear H. destruct Hnm as (nm' & X4 & -> & Hnm' & Hnmt & H). clear Hname.
  tx_lex H X5; [|exact (gnum_no_tabs _ Hrate)].
  assert (He : exists e' X6, X5 = iberr_part e' ++ X6 /\
            match e' with
            | Some (b, b', e) => blanks WS b /\ blanks WS b' /\ match e with ErrNum g => pgnum_ok g | ErrInf => True end
            | None => True end /\
            match e' with Some (_, _, e) => [TStr (iberr_text e)] | None => [] end =
            match ib_err i with Some (_, _, e) => [TStr (iberr_text e)] | None => [] end /\
            tabx (ib_b3 i ++ runit_text (ib_cunits i) (ib_tunit i) ++ ib_b4 i ++ 93%N :: r) X6).
  { destruct (ib_err i) as [[[eb eb'] e]|]; cbn [iberr_part] in H.
    - destruct Herr as (Heb & Heb' & He). repeat (rewrite <- ?app_assoc in H; cbn [app] in H).
      tx_blk H c1 Y1 Hc1 Hcn1; [|exact Heb]. tx_chr H Y2; [|reflexivity]. tx_chr H Y3; [|reflexivity]. tx_chr H Y4; [|reflexivity].
      tx_blk H c2 Y5 Hc2 Hcn2; [|exact Heb']. tx_lex H Y6; [|destruct e; [exact (gnum_no_tabs _ He)|reflexivity]].
      exists (Some (c1, c2, e)), Y6. cbn [iberr_part]. split; [repeat (rewrite <- ?app_assoc; cbn [app]); reflexivity|].
      split; [repeat split; assumption|]. split; [reflexivity|exact H].
    - exists None, X5. cbn. auto. }
  clear H. destruct He as (e' & X6 & -> & He' & Het & H). clear Herr.
  tx_blk H b3 X7 Hb3' Hn3; [|exact Hb3]. tx_lex H X8; [|apply runit_no_tabs]. tx_blk H b4 X9 Hb4' Hn4; [|exact Hb4].
  tx_chr H X10; [|reflexivity].
  exists (mkInfobox nm' (ib_rate i) e' (ib_cunits i) (ib_tunit i) b1 b2 b3 b4), X10.
  split; [unfold infobox_text, infobox_body; cbn [ib_name ib_rate ib_err ib_cunits ib_tunit ib_b1 ib_b2 ib_b3 ib_b4];
          repeat (rewrite <- ?app_assoc; cbn [app]); reflexivity|].
  split; [unfold infobox_ok; cbn [ib_name ib_rate ib_err ib_cunits ib_tunit ib_b1 ib_b2 ib_b3 ib_b4];
          split; [exact Hb1'|split; [exact Hb2'|split; [exact Hb3'|split; [exact Hb4'|split; [exact Hrate|split; [exact Hnm'|exact He']]]]]]|].
  split; [|exact H]. unfold infobox_toks. cbn [ib_name ib_rate ib_err ib_cunits ib_tunit]. rewrite Hnmt, Het. reflexivity.
Qed.
Lemma rxi_tabs s y i X : rx_stmt_ok s -> rx_layout_ok y -> infobox_ok i -> tabx (rxi_render s y i) X ->
  exists s' y' i', X = rxi_render s' y' i' /\ rx_stmt_ok s' /\ rx_layout_ok y' /\ infobox_ok i' /\ rxi_tree s' i' = rxi_tree s i.
Proof.
  intros Hs Hy Hi H. unfold rxi_render in H.
  tx_lex H X1; [|destruct (rx_kw s); reflexivity].
  apply infobox_tabs in H as (i' & X2 & -> & Hi' & Hit & H); [|exact Hi].
  tx_blk H b1 X3 Hb1' Hn1; [|apply Hy].
  apply (rx_species_tabs s y) in H as (s' & y' & X4 & -> & Hs' & Hy' & _ & Hkw & Hre & Hpr & H); [|exact Hs|exact Hy].
  apply tabx_nil_inv in H. subst X4.
  exists s', (mkRxLayout b1 (rx_b2 y') (rx_b3 y')), i'. unfold rxi_render. cbn [rx_b1]. rewrite Hkw.
  split; [rewrite <- ?app_assoc; reflexivity|]. split; [exact Hs'|].
  split; [destruct Hy' as (_ & ? & ? & ?); repeat split; assumption|]. split; [exact Hi'|].
  unfold rxi_tree. rewrite Hit, Hre, Hpr. reflexivity.
Qed.
Theorem roundtrip_reaction_infobox_tabs s y i b E :
  rx_stmt_ok s -> rx_layout_ok y -> infobox_ok i -> blanks WS b -> stmt_end E [] ->
  exists f0, forall f, f0 <= f -> parse_pil_fuel f (b ++ rxi_render s y i ++ E) = vals [rxi_tree s i].
Proof.
  intros Hs Hy Hi Hb HE. apply pil_tabs_reduce. intros X HX Hnt. frame HX b' Xb E' Hb' HE' Hb HE.
  apply (rxi_tabs s y i) in HX as (s' & y' & i' & -> & Hs' & Hy' & Hi' & <-); [|exact Hs|exact Hy|exact Hi].
  apply roundtrip_reaction_infobox_parse; assumption.
Qed.

(* ---------------------------------------------------------------- structure / complex *)
(* The dot-bracket token is a Word over "( ) . +" AND the space: blanks that follow it belong to the
   token.  The existing theorems therefore ask that the statement end E does not start with a
   character of that class; with tabs, E must not start with a tab either (it would become spaces). *)
Lemma tabx_dom_follow r r' : dom_follow r -> tabx r r' -> dom_follow r'.
Proof. intros [H1 H2] H. split; [exact (tabx_nohead idch r r' eq_refl H1 H)|exact (tabx_nohead [42%N] r r' eq_refl H2 H)]. Qed.
Lemma tabx_head_keep cs E E' : nohead cs E -> nohead [TAB] E -> tabx E E' -> nohead cs E' /\ nohead [TAB] E'.
Proof.
  intros H1 H2 H. pose proof (tabx_head E E' H) as Hh. unfold nohead in *.
  destruct E as [|c x], E' as [|c' x']; try contradiction; [split; exact I|].
  destruct Hh as [->|[-> _]]; [split; assumption|discriminate].
Qed.
Lemma dotb_no_tabs d : dotb_ok d -> no_tabs (dotb_text d).
Proof.
  intros (H0 & _ & Hrun). unfold dotb_text. apply no_tabs_cons; [apply (memc_no_tab dbch); [reflexivity|exact H0]|].
  apply (class_no_tabs dbch); [reflexivity|exact Hrun].
Qed.

Lemma sitems_tabs l : forall r X, sitems_wf l r -> tabx (sitems_text l r) X ->
  exists l' X', X = sitems_text l' X' /\ sitems_wf l' X' /\ flat_map sitem_toks l' = flat_map sitem_toks l /\ length l' = length l /\ tabx r X'.
Proof.
  induction l as [|i l IH]; intros r X Hwf H; cbn [sitems_text fold_right] in H.
  - exists [], X. cbn. auto.
  - fold (sitems_text l r) in H. cbn [sitems_wf] in Hwf. destruct Hwf as [Hi Hl].
    destruct i as [b n0 ns star|b]; cbn [sitem_text sitem_wf] in *.
    + destruct Hi as (Hb & H0 & Hns & Hfol). tx_blk H b' X1 Hb' Hbn; [|exact Hb].
      replace (n0 :: ns ++ star_s star ++ sitems_text l r) with ((n0 :: ns ++ star_s star) ++ sitems_text l r) in H
        by (cbn [app]; rewrite <- app_assoc; reflexivity).
      tx_lex H X2; [|exact (name_no_tabs _ _ _ H0 Hns)]. pose proof (tabx_dom_follow _ _ Hfol H) as Hfol'.
      destruct (IH _ _ Hl H) as (l' & X' & -> & Hl' & Ht & Hlen & Hr).
      exists (SDom b' n0 ns star :: l'), X'. cbn [sitems_text fold_right sitem_text sitems_wf sitem_wf flat_map sitem_toks].
      fold (sitems_text l' X'). split; [cbn [app]; rewrite <- ?app_assoc; reflexivity|].
      split; [split; [split; [exact Hb'|split; [exact H0|split; [exact Hns|exact Hfol']]]|exact Hl']|]. split; [rewrite Ht; reflexivity|]. split; [cbn; rewrite Hlen; reflexivity|exact Hr].
    + tx_blk H b' X1 Hb' Hbn; [|exact Hi]. tx_chr H X2; [|reflexivity].
      destruct (IH _ _ Hl H) as (l' & X' & -> & Hl' & Ht & Hlen & Hr).
      exists (SPlus b' :: l'), X'. cbn [sitems_text fold_right sitem_text sitems_wf sitem_wf flat_map sitem_toks].
      fold (sitems_text l' X'). split; [reflexivity|]. split; [split; [exact Hb'|exact Hl']|]. split; [exact Ht|]. split; [cbn; rewrite Hlen; reflexivity|exact Hr].
Qed.

Theorem roundtrip_structure_tabs s y b E :
  st_ok s y E -> blanks WS b -> stmt_end E [] -> nohead dbch E -> nohead [TAB] E ->
  exists f0, forall f, f0 <= f -> parse_pil_fuel f (b ++ st_kw ++ st_tail_text s y E) = vals [st_tree s].
Proof.
  intros (H0 & Hns & Hdb & Hb1 & Hb2 & Hb3 & Hb4 & Hsg & Hsg2 & Hwf) Hb HE Hdbr Htab.
  apply pil_tabs_reduce. intros X H Hnt.
  tx_blk H b' X0 Hb' Hbn; [|exact Hb]. tx_lex H X1; [|reflexivity]. unfold st_tail_text in H.
  tx_blk H b1 X2 Hb1' Hn1; [|exact Hb1].
  change (st_n0 s :: st_ns s ++ ?z) with ((st_n0 s :: st_ns s) ++ z) in H.
  tx_lex H X3; [|exact (ident_no_tabs _ _ H0 Hns)].
  tx_blk H b2 X4 Hb2' Hn2; [|exact Hb2]. tx_chr H X5; [|destruct Hsg as [-> | ->]; reflexivity].
  apply sitems_tabs in H as (l' & X6 & -> & Hl' & Ht & Hlen & H); [|exact Hwf].
  tx_blk H b3 X7 Hb3' Hn3; [|exact Hb3]. tx_chr H X8; [|destruct Hsg2 as [-> | ->]; reflexivity].
  tx_blk H b4 X9 Hb4' Hn4; [|exact Hb4]. tx_lex H E'; [|exact (dotb_no_tabs _ Hdb)].
  destruct (tabx_head_keep dbch E E' Hdbr Htab H) as [Hdbr' _].
  pose proof (tabx_stmt_end pil_nodes pil_c pil_ws pil_comment_ok sp_in_ws E E' HE H) as HE'.
  destruct l' as [|i0 l']; [discriminate Hlen|].
  pose proof (roundtrip_structure_parse (mkSt (st_n0 s) (st_ns s) i0 l' (st_db s)) (mkStLayout b1 b2 (st_sgn y) b3 (st_sgn2 y) b4) b' E') as R.
  unfold st_tail_text in R. cbn [st_n0 st_ns st_first st_more st_db st_b1 st_b2 st_sgn st_b3 st_sgn2 st_b4] in R.
  unfold st_tree in R. cbn [st_n0 st_ns st_first st_more st_db] in R. rewrite Ht in R.
  apply R; try assumption. unfold st_ok. cbn [st_n0 st_ns st_first st_more st_db st_b1 st_b2 st_sgn st_b3 st_sgn2 st_b4].
  repeat (split; [assumption|]). exact Hl'.
Qed.

Lemma name_app (n0 : chr) ns st z : n0 :: ns ++ st ++ z = (n0 :: ns ++ st) ++ z.
Proof. cbn [app]. rewrite <- app_assoc. reflexivity. Qed.

Lemma optnl_tabs o r X : optnl_ok o -> tabx (optnl_text o ++ r) X ->
  exists o' X', X = optnl_text o' ++ X' /\ optnl_ok o' /\ tabx r X'.
Proof.
  destruct o as [l|]; cbn [optnl_text optnl_ok].
  - intros Hl H. apply tabx_app_inv in H as (l' & X' & -> & Hl' & Hr). exists (Some l'), X'. cbn [optnl_text optnl_ok].
    split; [reflexivity|]. split; [|exact Hr]. exact (tabx_blank_line pil_nodes pil_c pil_ws pil_comment_ok sp_in_ws l l' Hl Hl').
  - intros _ H. exists None, X. cbn. auto.
Qed.

Theorem roundtrip_complex_tabs s y b E :
  cx_ok s y -> blanks WS b -> stmt_end E [] -> nohead dbch E -> nohead [TAB] E ->
  exists f0, forall f, f0 <= f -> parse_pil_fuel f (b ++ cx_kw ++ cx_tail_text s y E) = vals [cx_tree s].
Proof.
  intros (H0 & Hns & Hd0 & Hds0 & Hdoms & Hdb & Hb1 & Hb2 & Hb3 & Hb4 & Hsg & Hnl1 & Hnl2) Hb HE Hdbr Htab.
  apply pil_tabs_reduce. intros X H Hnt.
  tx_blk H b' X0 Hb' Hbn; [|exact Hb]. tx_lex H X1; [|reflexivity]. unfold cx_tail_text in H.
  tx_blk H b1 X2 Hb1' Hn1; [|exact Hb1].
  change (cx_n0 s :: cx_ns s ++ ?z) with ((cx_n0 s :: cx_ns s) ++ z) in H.
  tx_lex H X3; [|exact (ident_no_tabs _ _ H0 Hns)].
  tx_blk H b2 X4 Hb2' Hn2; [|exact Hb2]. tx_chr H X5; [|destruct Hsg as [-> | ->]; reflexivity].
  apply optnl_tabs in H as (nl1 & X6 & -> & Hnl1' & H); [|exact Hnl1].
  tx_blk H b3 X7 Hb3' Hn3; [|exact Hb3].
  rewrite name_app in H.
  tx_lex H X8; [|exact (name_no_tabs _ _ _ Hd0 Hds0)].
  apply doms_tabs in H as (ds' & X9 & -> & Hds' & Hnm & H); [|exact Hdoms].
  apply optnl_tabs in H as (nl2 & X10 & -> & Hnl2' & H); [|exact Hnl2].
  tx_blk H b4 X11 Hb4' Hn4; [|exact Hb4]. tx_lex H E'; [|exact (dotb_no_tabs _ Hdb)].
  destruct (tabx_head_keep dbch E E' Hdbr Htab H) as [Hdbr' _].
  pose proof (tabx_stmt_end pil_nodes pil_c pil_ws pil_comment_ok sp_in_ws E E' HE H) as HE'.
  pose proof (roundtrip_complex_parse (mkCx (cx_n0 s) (cx_ns s) (cx_d0 s) (cx_ds0 s) (cx_star0 s) ds' (cx_db s))
                (mkCxLayout b1 b2 (cx_sgn y) nl1 b3 nl2 b4) b' E') as R.
  unfold cx_tail_text in R. cbn [cx_n0 cx_ns cx_d0 cx_ds0 cx_star0 cx_doms cx_db cx_b1 cx_b2 cx_sgn cx_nl1 cx_b3 cx_nl2 cx_b4] in R.
  unfold cx_tree, cx_first in R. cbn [cx_n0 cx_ns cx_d0 cx_ds0 cx_star0 cx_doms cx_db] in R.
  rewrite <- (map_map d_name TStr ds'), Hnm, map_map in R.
  rewrite <- name_app. rewrite <- name_app in Hnt.
  apply R; try assumption; try exact Hnt. unfold cx_ok. cbn [cx_n0 cx_ns cx_d0 cx_ds0 cx_star0 cx_doms cx_db cx_b1 cx_b2 cx_sgn cx_nl1 cx_b3 cx_nl2 cx_b4].
  repeat (split; [assumption|]). assumption.
Qed.

(* the refutation side: a tab right after the dot-bracket becomes part of the token *)
Example structure_tab_after_dotbracket :
  parse_pil (st_kw ++ [32; 120; 32; 61; 32; 97; 32; 58; 32; 46; 9; 10]%N)      (* "structure x = a : .\t\n" *)
  = vals [TList [TStr tag_sc; TStr [120%N]; TList [TStr [97%N]]; TStr [46; 32; 32; 32; 32; 32]%N]].
Proof. vm_compute. reflexivity. Qed.

(* ---------------------------------------------------------------- kernel complexes *)
Lemma sense_no_tabs n0 ns c s : memc n0 idch = true -> all_in idch ns -> no_tabs (sense_text n0 ns c s).
Proof.
  intros H0 Hns. unfold sense_text. apply no_tabs_cons; [apply (memc_no_tab idch); [reflexivity|exact H0]|].
  apply no_tabs_app; [exact (idch_no_tabs _ Hns)|]. apply no_tabs_app; [destruct c; reflexivity|destruct s; reflexivity].
Qed.
Lemma tabx_sense_follow r r' : sense_follow r -> tabx r r' -> sense_follow r'.
Proof. intros H Hx. unfold sense_follow in *. apply (tabx_nohead _ r r'); [reflexivity|exact H|exact Hx]. Qed.
Lemma item_size_pos it : 1 <= item_size it.
Proof. destruct it; cbn; lia. Qed.

Lemma items_tabs_n : forall n l, items_size l <= n -> forall r X, items_wf l r -> tabx (items_text l r) X ->
  exists l' X', X = items_text l' X' /\ items_wf l' X' /\ items_toks l' = items_toks l /\ length l' = length l /\ tabx r X'.
Proof.
  induction n as [|n IH]; intros l Hsz r X Hwf H.
  - destruct l as [|i l]; [|cbn [items_size fold_right] in Hsz; pose proof (item_size_pos i); lia].
    exists [], X. cbn. auto.
  - destruct l as [|i l]; [exists [], X; cbn; auto|].
    cbn [items_size fold_right] in Hsz. fold (items_size l) in Hsz. pose proof (item_size_pos i) as Hpos.
    cbn [items_wf] in Hwf. destruct Hwf as [Hi Hl].
    cbn [items_text fold_right] in H. fold (items_text l r) in H. unfold item_text in H.
    destruct i as [b n0 ns c s|b|b n0 ns c s inner bc].
    + cbn [item_b item_body item_wf] in *. destruct Hi as (Hb & H0 & Hns & Hfol). rewrite <- ?app_assoc in H.
      tx_blk H b' X1 Hb' Hbn; [|exact Hb]. tx_lex H X2; [|exact (sense_no_tabs _ _ _ _ H0 Hns)].
      pose proof (tabx_sense_follow _ _ Hfol H) as Hfol'.
      destruct (IH l ltac:(lia) _ _ Hl H) as (l' & X' & -> & Hl' & Ht & Hlen & Hr).
      exists (ISense b' n0 ns c s :: l'), X'. cbn [items_text fold_right]. fold (items_text l' X'). unfold item_text. cbn [item_b item_body].
      split; [rewrite <- ?app_assoc; reflexivity|]. split; [cbn [items_wf item_wf]; split; [repeat (split; [assumption|]); assumption|exact Hl']|].
      split; [unfold items_toks in *; cbn [flat_map item_toks]; rewrite Ht; reflexivity|]. split; [cbn; rewrite Hlen; reflexivity|exact Hr].
    + cbn [item_b item_body item_wf] in *. tx_blk H b' X1 Hb' Hbn; [|exact Hi]. tx_chr H X2; [|reflexivity].
      destruct (IH l ltac:(lia) _ _ Hl H) as (l' & X' & -> & Hl' & Ht & Hlen & Hr).
      exists (IPlus b' :: l'), X'. cbn [items_text fold_right]. fold (items_text l' X'). unfold item_text. cbn [item_b item_body].
      split; [reflexivity|]. split; [cbn [items_wf item_wf]; split; [exact Hb'|exact Hl']|].
      split; [unfold items_toks in *; cbn [flat_map item_toks]; rewrite Ht; reflexivity|]. split; [cbn; rewrite Hlen; reflexivity|exact Hr].
    + rewrite item_size_loop in Hsz. apply item_wf_loop in Hi as (Hb & H0 & Hns & Hbc & Hin).
      rewrite item_body_loop in H. cbn [item_b] in H. rewrite <- ?app_assoc in H.
      tx_blk H b' X1 Hb' Hbn; [|exact Hb]. tx_lex H X2; [|exact (sense_no_tabs _ _ _ _ H0 Hns)]. tx_chr H X3; [|reflexivity].
      destruct (IH inner ltac:(lia) _ _ Hin H) as (inner' & Xi & -> & Hin' & Hti & _ & Hr).
      tx_blk Hr bc' X4 Hbc' Hbcn; [|exact Hbc]. tx_chr Hr X5; [|reflexivity].
      destruct (IH l ltac:(lia) _ _ Hl Hr) as (l' & X' & -> & Hl' & Ht & Hlen & Hr').
      exists (ILoop b' n0 ns c s inner' bc' :: l'), X'. cbn [items_text fold_right]. fold (items_text l' X'). unfold item_text.
      rewrite item_body_loop. cbn [item_b].
      split; [rewrite <- ?app_assoc; reflexivity|].
      split; [cbn [items_wf]; split; [apply item_wf_loop; repeat (split; [assumption|]); exact Hin'|exact Hl']|].
      split; [unfold items_toks in *; cbn [flat_map]; rewrite !item_toks_loop; unfold items_toks; rewrite Hti, Ht; reflexivity|].
      split; [cbn; rewrite Hlen; reflexivity|exact Hr'].
Qed.
Lemma items_tabs l r X : items_wf l r -> tabx (items_text l r) X ->
  exists l' X', X = items_text l' X' /\ items_wf l' X' /\ items_toks l' = items_toks l /\ length l' = length l /\ tabx r X'.
Proof. apply (items_tabs_n (items_size l)). lia. Qed.

Lemma kc_text_tabs s T X : kc_stmt_ok s T -> tabx (kc_text s T) X ->
  exists s' T', X = kc_text s' T' /\ kc_stmt_ok s' T' /\ kc_n0 s' :: kc_ns s' = kc_n0 s :: kc_ns s /\
    items_toks (kc_first s' :: kc_more s') = items_toks (kc_first s :: kc_more s) /\ tabx T T'.
Proof.
  intros (H0 & Hns & Hkw & Hb2 & Hwf) H. unfold kc_text in H.
  change (kc_n0 s :: kc_ns s ++ ?z) with ((kc_n0 s :: kc_ns s) ++ z) in H.
  tx_lex H X1; [|exact (ident_no_tabs _ _ H0 Hns)]. tx_blk H b2 X2 Hb2' Hn2; [|exact Hb2]. tx_chr H X3; [|reflexivity].
  apply items_tabs in H as (l' & T' & -> & Hwf' & Ht & Hlen & H); [|exact Hwf].
  destruct l' as [|i0 l']; [discriminate Hlen|].
  exists (mkKc (kc_n0 s) (kc_ns s) b2 i0 l'), T'. unfold kc_text, kc_stmt_ok. cbn [kc_n0 kc_ns kc_b2 kc_first kc_more].
  split; [reflexivity|]. split; [repeat (split; [assumption|]); exact Hwf'|]. split; [reflexivity|]. split; [exact Ht|exact H].
Qed.

Theorem roundtrip_kernel_complex_tabs s b E :
  blanks WS b -> stmt_end E [] -> kc_stmt_ok s E ->
  exists f0, forall f, f0 <= f -> parse_pil_fuel f (b ++ kc_render s ++ E) = vals [kc_tree s].
Proof.
  intros Hb HE Hs. apply pil_tabs_reduce. intros X H Hnt.
  assert (ET : kc_render s ++ E = kc_text s E).
  { unfold kc_render, kc_text. repeat (rewrite <- ?app_assoc; cbn [app]). rewrite items_text_app. reflexivity. }
  rewrite ET in H. tx_blk H b' X0 Hb' Hbn; [|exact Hb].
  apply kc_text_tabs in H as (s' & E' & -> & Hs' & Hnm & Ht & H); [|exact Hs].
  pose proof (tabx_stmt_end pil_nodes pil_c pil_ws pil_comment_ok sp_in_ws E E' HE H) as HE'.
  assert (ET' : kc_text s' E' = kc_render s' ++ E').
  { unfold kc_render, kc_text. repeat (rewrite <- ?app_assoc; cbn [app]). rewrite items_text_app. reflexivity. }
  rewrite ET' in *. replace (kc_tree s) with (kc_tree s') by (unfold kc_tree; rewrite Hnm, Ht; reflexivity).
  apply roundtrip_kernel_complex_parse; assumption.
Qed.

Lemma conc_tabs c r X : conc_ok c -> tabx (conc_text c ++ r) X ->
  exists c' X', X = conc_text c' ++ X' /\ conc_ok c' /\ conc_toks c' = conc_toks c /\ tabx r X'.
Proof.
  intros (Hb1 & Hb2 & Hb3 & Hb4 & Hn) H. unfold conc_text in H. repeat (rewrite <- ?app_assoc in H; cbn [app] in H).
  tx_blk H b1 X1 Hb1' Hn1; [|exact Hb1]. tx_chr H X2; [|reflexivity]. tx_blk H b2 X3 Hb2' Hn2; [|exact Hb2].
  tx_lex H X4; [|destruct (c_kw c); reflexivity]. tx_blk H b3 X5 Hb3' Hn3; [|exact Hb3].
  tx_lex H X6; [|exact (gnum_no_tabs _ Hn)]. tx_blk H b4 X7 Hb4' Hn4; [|exact Hb4].
  tx_lex H X8; [|destruct (c_unit c); reflexivity].
  exists (mkConc (c_kw c) (c_num c) (c_unit c) b1 b2 b3 b4), X8. unfold conc_text, conc_ok. cbn [c_kw c_num c_unit c_b1 c_b2 c_b3 c_b4].
  split; [repeat (rewrite <- ?app_assoc; cbn [app]); reflexivity|]. split; [repeat (split; [assumption|]); exact Hn|]. split; [reflexivity|exact H].
Qed.

Theorem roundtrip_kernel_concentration_tabs s c b E :
  blanks WS b -> stmt_end E [] -> conc_ok c -> kc_stmt_ok s (conc_text c ++ E) ->
  exists f0, forall f, f0 <= f -> parse_pil_fuel f (b ++ kcc_render s c ++ E) = vals [kcc_tree s c].
Proof.
  intros Hb HE Hc Hs. apply pil_tabs_reduce. intros X H Hnt.
  assert (ET : forall s c E, kcc_render s c ++ E = kc_text s (conc_text c ++ E)).
  { intros. unfold kcc_render, kc_text. repeat (rewrite <- ?app_assoc; cbn [app]). rewrite items_text_app. reflexivity. }
  rewrite ET in H. tx_blk H b' X0 Hb' Hbn; [|exact Hb].
  apply kc_text_tabs in H as (s' & T' & -> & Hs' & Hnm & Ht & H); [|exact Hs].
  apply conc_tabs in H as (c' & E' & -> & Hc' & Hct & H); [|exact Hc].
  pose proof (tabx_stmt_end pil_nodes pil_c pil_ws pil_comment_ok sp_in_ws E E' HE H) as HE'.
  rewrite <- ET in *. replace (kcc_tree s c) with (kcc_tree s' c') by (unfold kcc_tree; rewrite Hnm, Ht, Hct; reflexivity).
  apply roundtrip_kernel_concentration_parse; assumption.
Qed.

(* ---------------------------------------------------------------- non-vacuity: the same instances with tabs *)
Example dl_tabs_example :
  let s := mkDl KwLength 97%N [] true DShort in
  let y := mkDlLayout [9%N] [9; 32]%N 58%N [32; 9]%N in
  let E := [9; 35; 9; 99; 10; 9; 10]%N in
  dl_stmt_ok s /\ dl_layout_ok y /\ stmt_end E [] /\
  parse_pil ([9%N] ++ dl_render s y ++ E) = vals [dl_tree s].
Proof.
  cbn zeta. split; [|split; [|split]].
  - cbn. repeat split; try reflexivity. discriminate.
  - cbn. repeat split; try reflexivity. right. reflexivity.
  - change [9; 35; 9; 99; 10; 9; 10]%N with (([9%N] ++ HASH :: [9; 99]%N ++ [NL]) ++ concat [[9%N] ++ [NL]]).
    apply pil_stmt_end_lines; [apply pil_blank_line_comment; reflexivity|].
    constructor; [apply pil_blank_line_plain; reflexivity|constructor].
  - vm_compute. reflexivity.
Qed.
Example sl_tabs_example :
  let s := mkSl 97%N [49%N] false 67%N [84; 65; 71; 65]%N (Some (mkOptnum [9%N] 58%N [9%N] 54%N [])) in
  let y := mkSlLayout [9%N] [9%N] 61%N [9%N] in
  sl_stmt_ok s /\ sl_layout_ok y /\ parse_pil (sl_render s y ++ [NL]) = vals [sl_tree s].
Proof.
  cbn zeta. split; [|split].
  - cbn. repeat split; try reflexivity. right. reflexivity.
  - cbn. repeat split; try reflexivity. left. reflexivity.
  - vm_compute. reflexivity.
Qed.
Example ms_tabs_example :
  let s := mkMs KwMacrostate 101%N [52%N] 101%N [52%N]
             [mkMember [9%N] [9%N] 101%N [53%N]; mkMember [] [] 102%N []] in
  let y := mkMsLayout [9%N] [9%N] [9%N] [9%N] [9%N] in
  ms_stmt_ok s /\ ms_layout_ok y /\ parse_pil (ms_render s y) = vals [ms_tree s].
Proof.
  cbn zeta. split; [|split].
  - cbn. repeat split; try reflexivity. repeat constructor.
  - cbn. repeat split; try reflexivity. discriminate.
  - vm_compute. reflexivity.
Qed.
Example cd_tabs_example :
  let s := mkCd KwStrand 113%N [] 97%N [] false
             [mkDom [9%N] 98%N [45; 115; 101; 113]%N true; mkDom [32; 9]%N 122%N [] false]
             (Some (mkOptnum [9%N] 58%N [9%N] 50%N [48%N])) in
  let y := mkCdLayout [9%N] [9%N] 61%N [9%N] in
  cd_stmt_ok s /\ cd_layout_ok y /\ parse_pil (cd_render s y ++ [NL]) = vals [cd_tree s].
Proof.
  cbn zeta. split; [|split].
  - cbn. repeat split; try reflexivity; try discriminate.
    + repeat constructor; discriminate.
    + right. reflexivity.
  - cbn. repeat split; try reflexivity. left. reflexivity.
  - vm_compute. reflexivity.
Qed.
Example rx_tabs_example :
  let s := mkRx KwKinetic 52%N [] [mkMember [9%N] [9%N] 67%N [49%N]] 55%N [] [] in
  let y := mkRxLayout [9%N] [9%N] [9%N] in
  rx_stmt_ok s /\ rx_layout_ok y /\ parse_pil (rx_render s y ++ [NL]) = vals [rx_tree s].
Proof.
  cbn zeta. split; [|split].
  - cbn. repeat split; try reflexivity; repeat constructor.
  - cbn. repeat split; try reflexivity. discriminate.
  - vm_compute. reflexivity.
Qed.
Example rxi_tabs_example :
  let s := mkRx KwReaction 65%N [] [mkMember [9%N] [9%N] 66%N []] 65%N [95; 66]%N [] in
  let y := mkRxLayout [9%N] [9%N] [9%N] in
  let i := mkInfobox (Some (mkIbname 107%N [49%N] [9%N] 61%N [9; 32]%N))
             (mkGnum 49%N [] (Some (52%N, [49%N])) (Some (Some 43%N, 48%N, [55%N])))
             (Some ([9%N], [9%N], ErrInf)) [UM] Us [9%N] [9%N] [9%N] [9%N] in
  infobox_ok i /\ parse_pil (rxi_render s y i ++ [NL]) = vals [rxi_tree s i].
Proof.
  cbn zeta. split; [|vm_compute; reflexivity].
  unfold infobox_ok, gnum_ok. cbn. repeat split; try reflexivity; auto.
Qed.
Example cx_tabs_example :
  let s := mkCx 73%N [] 73%N [] false [mkDom [9%N] 65%N [] true] (mkDotb 40%N [40; 46; 43; 32; 41; 41]%N) in
  let y := mkCxLayout [9%N] [9%N] 58%N (Some [9; 10]%N) [9%N] (Some [9; 10]%N) [9%N] in
  cx_ok s y /\ parse_pil (cx_render s y ++ [NL]) = vals [cx_tree s].
Proof.
  cbn zeta. split; [|vm_compute; reflexivity].
  unfold cx_ok. cbn [cx_n0 cx_ns cx_d0 cx_ds0 cx_doms cx_db cx_b1 cx_b2 cx_b3 cx_b4 cx_sgn cx_nl1 cx_nl2 optnl_ok].
  repeat split; try reflexivity; try (right; reflexivity);
    try (apply (pil_blank_line_plain [9%N]); reflexivity).
  repeat constructor; try reflexivity. discriminate.
Qed.
Example st_tabs_example :
  let s := mkSt 65%N [66%N] (SDom [9%N] 65%N [] false) [SPlus [9%N]; SDom [9%N] 66%N [] false]
             (mkDotb 46%N [40; 40; 43; 41; 41]%N) in
  let y := mkStLayout [9%N] [9%N] 61%N [9%N] 58%N [9%N] in
  st_ok s y [NL] /\ parse_pil (st_render s y ++ [NL]) = vals [st_tree s].
Proof.
  cbn zeta. split; [|vm_compute; reflexivity].
  unfold st_ok. cbn. repeat split; try reflexivity; try (left; reflexivity); right; reflexivity.
Qed.
Example kc_tabs_example :
  let inner := [ISense [9%N] 98%N [] false false; IPlus [9%N];
                ILoop [9%N] 99%N [] false false [] [9%N]] in
  let s := mkKc 67%N [] [9%N] (ILoop [9%N] 97%N [] false false inner [9%N]) [ISense [9%N] 100%N [] true true] in
  kc_stmt_ok s [NL] /\ parse_pil (kc_render s ++ [NL]) = vals [kc_tree s].
Proof.
  cbn zeta. split; [|vm_compute; reflexivity].
  unfold kc_stmt_ok. cbn [kc_n0 kc_ns kc_b2 kc_first kc_more]. repeat split; try reflexivity.
Qed.
Example kcc_tabs_example :
  let s := mkKc 67%N [] [9%N] (ISense [9%N] 97%N [] false true) [] in
  let c := mkConc CI (mkGnum 49%N [] None (Some (Some 45%N, 55%N, []))) UnM [9%N] [9%N] [9%N] [9%N] in
  conc_ok c /\ kc_stmt_ok s (conc_text c ++ [NL]) /\ parse_pil (kcc_render s c ++ [NL]) = vals [kcc_tree s c].
Proof.
  cbn zeta. split; [|split; [|vm_compute; reflexivity]].
  - unfold conc_ok, gnum_ok. cbn. repeat split; try reflexivity. right. reflexivity.
  - unfold kc_stmt_ok. cbn [kc_n0 kc_ns kc_b2 kc_first kc_more]. repeat split; try reflexivity.
Qed.
