(* Termination of the PEG interpreter within an explicit fuel bound.
   Part A: positions never move backwards, and a node that the nullability table
           marks non-nullable strictly advances when it succeeds.
   Part B: with a rank table that decreases along every call that can happen at the
           same position (no left recursion), fuel >= rem(p) * K + rank(i) + 3 never
           runs out at a node without StringStart below it.
   Both tables are checked against the node table by computation. *)
From Coq Require Import List NArith Bool Arith Lia.
From DSD Require Import Base.Str Model.Peg Proofs.PegMono.
Import ListNotations.

Definition rem (p : pos) : nat := match p with At s => S (length s) | Past => 0 end.

Lemma loc_eqb_rem p q : loc_eqb p q = true <-> rem p = rem q.
Proof.
  destruct p as [a|], q as [b|]; cbn; try (split; [discriminate|lia]); [|tauto].
  rewrite Nat.eqb_eq. lia.
Qed.

(* ---------------------------------------------------------------- strings *)
Lemma skip_ws_len ws s : length (skip_ws ws s) <= length s.
Proof. induction s as [|c s IH]; cbn; [lia|]. destruct (memc c ws); cbn; lia. Qed.
Lemma pos_skip_ws_rem ws p : rem (pos_skip_ws ws p) <= rem p.
Proof. destruct p; cbn; [pose proof (skip_ws_len ws rest); lia|lia]. Qed.
Lemma starts_with_len s : forall r r', starts_with s r = Some r' -> length r = length s + length r'.
Proof.
  induction s as [|c s IH]; intros r r' H; cbn in *; [injection H as ->; reflexivity|].
  destruct r as [|d r]; [discriminate|]. destruct (N.eqb c d); [|discriminate]. cbn. rewrite (IH r r' H). reflexivity.
Qed.
Lemma span_len cs lim s : length (snd (span cs lim s)) <= length s.
Proof.
  revert lim. induction s as [|c s IH]; intros lim; cbn; [lia|].
  destruct lim as [[|m]|]; cbn; try lia.
  - destruct (memc c cs); cbn; [|lia]. specialize (IH (Some m)). cbn [option_map pred] in *.
    destruct (span cs (Some m) s); cbn in *; lia.
  - destruct (memc c cs); cbn; [|lia]. specialize (IH None). cbn [option_map] in *.
    destruct (span cs None s); cbn in *; lia.
Qed.
Lemma run_token_len init body wmin wmax chk s b t :
  run_token init body wmin wmax chk s = POk (At b) t -> length b < length s.
Proof.
  unfold run_token. destruct s as [|c r]; [discriminate|]. destruct (memc c init); [|discriminate].
  pose proof (span_len body (match wmax with 0 => None | S m => Some m end) r) as Hl.
  destruct (span body (match wmax with 0 => None | S m => Some m end) r) as [a b']. cbn [snd] in Hl.
  destruct (length (c :: a) <? wmin); [discriminate|].
  destruct (chk && negb (wmax =? 0) && match b' with [] => false | d :: _ => memc d body end); [discriminate|].
  intros H. injection H as <- _. cbn. lia.
Qed.
Lemma run_token_pos init body wmin wmax chk s p t :
  run_token init body wmin wmax chk s = POk p t -> exists b, p = At b.
Proof.
  unfold run_token. destruct s as [|c r]; [discriminate|]. destruct (memc c init); [|discriminate].
  destruct (span body _ r) as [a b']. destruct (_ <? _); [discriminate|]. destruct (_ && _ && _); [discriminate|].
  intros H. injection H as <- _. eexists. reflexivity.
Qed.
Lemma upto_nl_len s : length (snd (upto_nl s)) <= length s.
Proof.
  induction s as [|c s IH]; cbn; [lia|]. destruct (N.eqb c NL); cbn; [lia|]. destruct (upto_nl s); cbn in *; lia.
Qed.

(* ---------------------------------------------------------------- Part A *)
Section Mono.
  Variable g : list node.
  Variable full : pstr.
  Variable nl : nat -> bool.       (* may the node succeed without advancing? *)

  Definition hd_nl (nd : node) : bool := match nkids nd with k :: _ => nl k | [] => true end.
  Definition step_nl (nd : node) : bool :=
    match nkind nd with
    | KAnd => forallb nl (nkids nd)
    | KFirst => existsb nl (nkids nd)
    | KOpt => true
    | KMany one => if one then hd_nl nd else true
    | KPass | KGroup | KSuppress | KCombine _ => hd_nl nd
    | KLit s => length s =? 0
    | KWord _ _ wmin _ => false
    | KWhite _ wmin _ => false
    | KLineEnd => false
    | KStringStart => true
    | KStringEnd => true
    | KComment => false
    end.
  Definition nl_ok : Prop := forall i nd, nth_error g i = Some nd -> step_nl nd = true -> nl i = true.

  Definition adv (P : nat -> bool -> pos -> pres) : Prop :=
    forall i cp p p' t, P i cp p = POk p' t -> rem p' <= rem p /\ (nl i = false -> rem p' < rem p).

  Section Open.
    Variable P : nat -> bool -> pos -> pres.
    Hypothesis HP : adv P.

    Lemma ign_inner_rem n : forall ig p fd p' fd', ign_inner P n ig p fd = Some (p', fd') -> rem p' <= rem p.
    Proof.
      induction n as [|n IH]; intros ig p fd p' fd' H; cbn in H; [discriminate|].
      destruct (P ig true p) as [q t| |] eqn:E; [|injection H as <- _; lia|discriminate].
      apply HP in E as [E _]. apply IH in H. lia.
    Qed.
    Lemma ign_pass_rem n igs : forall p fd p' fd', ign_pass P n igs p fd = Some (p', fd') -> rem p' <= rem p.
    Proof.
      induction igs as [|ig r IH]; intros p fd p' fd' H; cbn in H; [injection H as <- _; lia|].
      destruct (ign_inner P n ig p fd) as [[q f']|] eqn:E; [|discriminate].
      apply ign_inner_rem in E. apply IH in H. lia.
    Qed.
    Lemma ign_outer_rem n : forall igs p p', ign_outer P n igs p = Some p' -> rem p' <= rem p.
    Proof.
      induction n as [|n IH]; intros igs p p' H; cbn in H; [discriminate|].
      destruct (ign_pass P n igs p false) as [[q fd]|] eqn:E; [|discriminate].
      apply ign_pass_rem in E. destruct (loc_eqb q p); [injection H as <-; lia|].
      destruct fd; [apply IH in H; lia|injection H as <-; lia].
    Qed.
    Lemma skip_ign_rem n igs p p' : skip_ign P n igs p = Some p' -> rem p' <= rem p.
    Proof. destruct igs; cbn; [intros H; injection H as <-; lia|apply ign_outer_rem]. Qed.
    Lemma pre_parse_rem n nd p p' : pre_parse P n nd p = Some p' -> rem p' <= rem p.
    Proof.
      unfold pre_parse. destruct (skip_ign P n (nign nd) p) as [p1|] eqn:E; [|discriminate].
      apply skip_ign_rem in E. intros H. injection H as <-.
      destruct (nskip nd); [pose proof (pos_skip_ws_rem (nws nd) p1); lia|lia].
    Qed.

    Lemma seq_rest_rem ks : forall p acc p' t, seq_rest P ks p acc = POk p' t ->
      rem p' <= rem p /\ (forallb nl ks = false -> rem p' < rem p).
    Proof.
      induction ks as [|k r IH]; intros p acc p' t H; cbn in H.
      - injection H as <- _. split; [lia|discriminate].
      - destruct (P k true p) as [q tk| |] eqn:E; try discriminate.
        apply HP in E as [E1 E2]. apply IH in H as [H1 H2]. split; [lia|].
        cbn [forallb]. intros Hn. apply andb_false_iff in Hn as [Hn|Hn]; [specialize (E2 Hn); lia|specialize (H2 Hn); lia].
    Qed.
    Lemma first_of_rem ks : forall p p' t, first_of P ks p = POk p' t ->
      rem p' <= rem p /\ (existsb nl ks = false -> rem p' < rem p).
    Proof.
      induction ks as [|k r IH]; intros p p' t H; cbn in H; [discriminate|].
      destruct (P k true p) as [q tk| |] eqn:E; try discriminate.
      - injection H as <- <-. apply HP in E as [E1 E2]. split; [exact E1|].
        cbn [existsb]. intros Hn. apply orb_false_iff in Hn as [Hn _]. exact (E2 Hn).
      - apply IH in H as [H1 H2]. split; [exact H1|]. cbn [existsb]. intros Hn. apply orb_false_iff in Hn as [_ Hn]. exact (H2 Hn).
    Qed.
    Lemma many_loop_rem n : forall igs k p acc p' t, many_loop P n igs k p acc = POk p' t -> rem p' <= rem p.
    Proof.
      induction n as [|n IH]; intros igs k p acc p' t H; cbn in H; [discriminate|].
      destruct (skip_ign P n igs p) as [p1|] eqn:Es; [|discriminate]. apply skip_ign_rem in Es.
      destruct (P k true p1) as [q tk| |] eqn:E; [|injection H as <- _; lia|discriminate].
      apply HP in E as [E _]. apply IH in H. lia.
    Qed.

    Lemma impl_rem n nd p p' t : impl P full n nd p = POk p' t ->
      rem p' <= rem p /\ (step_nl nd = false -> rem p' < rem p).
    Proof.
      unfold impl, step_nl, hd_nl. destruct (nkind nd) eqn:Ek.
      - destruct (nkids nd) as [|k0 ks]; [discriminate|].
        destruct (P k0 false p) as [q tk| |] eqn:E; try discriminate.
        intros H. apply HP in E as [E1 E2]. apply seq_rest_rem in H as [H1 H2]. split; [lia|].
        cbn [forallb]. intros Hn. apply andb_false_iff in Hn as [Hn|Hn]; [specialize (E2 Hn); lia|specialize (H2 Hn); lia].
      - apply first_of_rem.
      - destruct (nkids nd) as [|k ks]; [discriminate|].
        destruct (P k false p) as [q tk| |] eqn:E; try discriminate.
        + intros H. injection H as <- _. apply HP in E as [E _]. split; [exact E|discriminate].
        + intros H. injection H as <- _. split; [lia|discriminate].
      - destruct (nkids nd) as [|k ks]; [discriminate|].
        destruct (P k true p) as [q tk| |] eqn:E; try discriminate.
        + intros H. apply HP in E as [E1 E2]. apply many_loop_rem in H. split; [lia|].
          destruct atleast1; [|discriminate]. intros Hn. specialize (E2 Hn). lia.
        + destruct atleast1; [discriminate|]. intros H. injection H as <- _. split; [lia|discriminate].
      - destruct (nkids nd) as [|k ks]; [discriminate|]. intros H. apply HP in H as [H1 H2]. split; [exact H1|exact H2].
      - destruct (nkids nd) as [|k ks]; [discriminate|]. intros H. apply HP in H as [H1 H2]. split; [exact H1|exact H2].
      - destruct (nkids nd) as [|k ks]; [discriminate|]. intros H. apply HP in H as [H1 H2]. split; [exact H1|exact H2].
      - destruct (nkids nd) as [|k ks]; [discriminate|]. intros H. apply HP in H as [H1 H2]. split; [exact H1|exact H2].
      - destruct p as [r|]; [|discriminate]. destruct (starts_with s r) as [r'|] eqn:E; [|discriminate].
        intros H. injection H as <- _. apply starts_with_len in E. cbn. split; [lia|].
        intros Hn. apply Nat.eqb_neq in Hn. lia.
      - destruct p as [r|]; [|discriminate]. intros H. destruct (run_token_pos _ _ _ _ _ _ _ _ H) as (b & ->).
        apply run_token_len in H. cbn. split; intros; lia.
      - destruct p as [r|]; [|discriminate]. intros H. destruct (run_token_pos _ _ _ _ _ _ _ _ H) as (b & ->).
        apply run_token_len in H. cbn. split; intros; lia.
      - destruct p as [[|c r]|]; try discriminate.
        + intros H. injection H as <- _. cbn. split; intros; lia.
        + destruct (N.eqb c NL); [|discriminate]. intros H. injection H as <- _. cbn. split; intros; lia.
      - destruct (loc_eqb p (At full)).
        + intros H. injection H as <- _. split; [lia|discriminate].
        + destruct (pre_parse P n nd (At full)) as [q|]; [|discriminate]. destruct (loc_eqb p q); [|discriminate].
          intros H. injection H as <- _. split; [lia|discriminate].
      - destruct p as [[|c r]|]; try discriminate; intros H; injection H as <- _; cbn; (split; [lia|discriminate]).
      - destruct p as [[|c r]|]; try discriminate. destruct (N.eqb c HASH); [|discriminate].
        pose proof (upto_nl_len r) as Hl. destruct (upto_nl r) as [a b]. cbn [snd] in Hl.
        intros H. injection H as <- _. cbn. split; intros; lia.
    Qed.
  End Open.

  Hypothesis Hnl : nl_ok.

  Theorem parse_adv : forall f, adv (parse g full f).
  Proof.
    induction f as [|f IH]; intros i cp p p' t H; [discriminate|].
    rewrite parse_S in H. destruct (nth_error g i) as [nd|] eqn:En; [|discriminate].
    destruct (if cp && ncallpre nd then pre_parse (parse g full f) f nd p else Some p) as [p1|] eqn:Ep; [|discriminate].
    assert (Hp1 : rem p1 <= rem p).
    { destruct (cp && ncallpre nd); [apply (pre_parse_rem _ IH) in Ep; exact Ep|injection Ep as <-; lia]. }
    destruct (impl (parse g full f) full f nd p1) as [p2 toks| |] eqn:Ei; try discriminate.
    injection H as <- _. apply (impl_rem _ IH) in Ei as [E1 E2]. split; [lia|].
    intros Hn. destruct (step_nl nd) eqn:Es; [rewrite (Hnl i nd En Es) in Hn; discriminate|]. specialize (E2 eq_refl). lia.
  Qed.
End Mono.

(* ---------------------------------------------------------------- Part B *)
Section Term.
  Variable g : list node.
  Variable full : pstr.
  Variable nl : nat -> bool.
  Variable rk : nat -> nat.        (* rank: decreases along calls that may happen at the same position *)
  Variable K : nat.                (* strict bound of the ranks *)
  Variable sf : nat -> bool.       (* no StringStart at or below the node *)

  (* children of an And: ranks must decrease until a non-nullable child has been passed *)
  Fixpoint and_ok (r : nat) (ks : list nat) : bool :=
    match ks with
    | [] => true
    | k :: rest => (rk k <? r) && (if nl k then and_ok r rest else true)
    end.
  Definition hd_ok (r : nat) (nd : node) : bool := match nkids nd with k :: _ => rk k <? r | [] => true end.
  Definition edges_ok (i : nat) (nd : node) : bool :=
    forallb (fun ig => (rk ig <? rk i) && negb (nl ig)) (nign nd) &&
    match nkind nd with
    | KAnd => and_ok (rk i) (nkids nd)
    | KFirst => forallb (fun k => rk k <? rk i) (nkids nd)
    | KOpt | KPass | KGroup | KSuppress | KCombine _ => hd_ok (rk i) nd
    | KMany _ => hd_ok (rk i) nd && negb (hd_nl nl nd)
    | _ => true
    end.
  Definition sf_ok (i : nat) (nd : node) : bool :=
    if sf i then match nkind nd with KStringStart => false | _ => true end && forallb sf (nkids nd) && forallb sf (nign nd)
    else true.

  Hypothesis Hnl : nl_ok g nl.
  Hypothesis Hedges : forall i nd, nth_error g i = Some nd -> edges_ok i nd = true.
  Hypothesis Hsf : forall i nd, nth_error g i = Some nd -> sf_ok i nd = true.
  Hypothesis HK : forall i, rk i < K.

  Section Open.
    Variable P : nat -> bool -> pos -> pres.
    Hypothesis HP : adv nl P.

    Definition okat (k : nat) (p : pos) : Prop := forall q cp, rem q <= rem p -> P k cp q <> PFuel.
    Lemma okat_le k p q : okat k p -> rem q <= rem p -> okat k q.
    Proof. intros H L q' cp L'. apply H. lia. Qed.
    Definition igs_ok (igs : list nat) (p : pos) : Prop := forall ig, In ig igs -> nl ig = false /\ okat ig p.
    Lemma igs_ok_le igs p q : igs_ok igs p -> rem q <= rem p -> igs_ok igs q.
    Proof. intros H L ig Hi. destruct (H ig Hi) as [A B]. split; [exact A|exact (okat_le _ _ _ B L)]. Qed.

    Lemma ign_inner_term n : forall ig p fd, nl ig = false -> okat ig p -> rem p + 1 <= n -> ign_inner P n ig p fd <> None.
    Proof.
      induction n as [|n IH]; intros ig p fd Hn Ho Hl; [lia|]. cbn.
      destruct (P ig true p) as [q t| |] eqn:E; [|discriminate|exfalso; exact (Ho p true (le_n _) E)].
      destruct (HP _ _ _ _ _ E) as [E1 E2]. specialize (E2 Hn). apply IH; [exact Hn|apply (okat_le _ _ _ Ho); lia|lia].
    Qed.
    Lemma ign_pass_term n igs : forall p fd, igs_ok igs p -> rem p + 1 <= n -> ign_pass P n igs p fd <> None.
    Proof.
      induction igs as [|ig r IH]; intros p fd Ho Hl; cbn; [discriminate|].
      destruct (Ho ig (or_introl eq_refl)) as [A B].
      destruct (ign_inner P n ig p fd) as [[q f']|] eqn:E; [|exfalso; exact (ign_inner_term n ig p fd A B Hl E)].
      apply (ign_inner_rem nl P HP) in E. apply IH; [|lia].
      intros ig' Hi. destruct (Ho ig' (or_intror Hi)) as [A' B']. split; [exact A'|exact (okat_le _ _ _ B' E)].
    Qed.
    Lemma ign_outer_term n : forall igs p, igs_ok igs p -> rem p + 2 <= n -> ign_outer P n igs p <> None.
    Proof.
      induction n as [|n IH]; intros igs p Ho Hl; [lia|]. cbn.
      destruct (ign_pass P n igs p false) as [[q fd]|] eqn:E; [|exfalso; exact (ign_pass_term n igs p false Ho ltac:(lia) E)].
      apply (ign_pass_rem nl P HP) in E. destruct (loc_eqb q p) eqn:El; [discriminate|].
      destruct fd; [|discriminate]. assert (rem q <> rem p) by (intros X; apply loc_eqb_rem in X; congruence).
      apply IH; [exact (igs_ok_le _ _ _ Ho E)|lia].
    Qed.
    Lemma skip_ign_term n igs p : igs_ok igs p -> (igs <> [] -> rem p + 2 <= n) -> skip_ign P n igs p <> None.
    Proof. destruct igs; cbn; [discriminate|]. intros Ho Hl. apply ign_outer_term; [exact Ho|apply Hl; discriminate]. Qed.
    Lemma pre_parse_term n nd p : igs_ok (nign nd) p -> (nign nd <> [] -> rem p + 2 <= n) -> pre_parse P n nd p <> None.
    Proof.
      intros Ho Hl. unfold pre_parse. pose proof (skip_ign_term n (nign nd) p Ho Hl).
      destruct (skip_ign P n (nign nd) p); [discriminate|congruence].
    Qed.

    Lemma many_loop_term n : forall igs k p acc, igs_ok igs p -> nl k = false -> okat k p -> rem p + 3 <= n ->
      many_loop P n igs k p acc <> PFuel.
    Proof.
      induction n as [|n IH]; intros igs k p acc Ho Hn Hk Hl; [lia|]. cbn.
      destruct (skip_ign P n igs p) as [p1|] eqn:Es; [|exfalso; exact (skip_ign_term n igs p Ho ltac:(intros; lia) Es)].
      apply (skip_ign_rem nl P HP) in Es.
      destruct (P k true p1) as [q t| |] eqn:E; [|discriminate|exfalso; exact (Hk p1 true Es E)].
      destruct (HP _ _ _ _ _ E) as [E1 E2]. specialize (E2 Hn).
      apply IH; [apply (igs_ok_le _ _ _ Ho); lia|exact Hn|apply (okat_le _ _ _ Hk); lia|lia].
    Qed.

    Lemma first_of_term ks : forall p, (forall k, In k ks -> okat k p) -> first_of P ks p <> PFuel.
    Proof.
      induction ks as [|k r IH]; intros p Ho; cbn; [discriminate|].
      destruct (P k true p) as [q t| |] eqn:E; [discriminate| |exfalso; exact (Ho k (or_introl eq_refl) p true (le_n _) E)].
      apply IH. intros k' Hi. apply Ho. right. exact Hi.
    Qed.

    (* the two ways a child call is covered: lower rank at a position not after p0, or any
       StringStart-free node at a position strictly after p0 *)
    Variable p0 : pos.
    Variable r : nat.
    Hypothesis Hlow : forall k cp q, sf k = true -> rk k < r -> rem q <= rem p0 -> P k cp q <> PFuel.
    Hypothesis Hadv : forall k cp q, sf k = true -> rem q < rem p0 -> P k cp q <> PFuel.

    Lemma seq_guarded ks : forall p acc, forallb sf ks = true -> rem p < rem p0 -> seq_rest P ks p acc <> PFuel.
    Proof.
      induction ks as [|k rest IH]; intros p acc Hs Hl; cbn; [discriminate|].
      cbn in Hs. apply andb_true_iff in Hs as [Hs1 Hs2].
      destruct (P k true p) as [q t| |] eqn:E; [|discriminate|exfalso; exact (Hadv k true p Hs1 Hl E)].
      destruct (HP _ _ _ _ _ E) as [E1 _]. apply IH; [exact Hs2|lia].
    Qed.
    Lemma seq_unguarded ks : forall p acc, forallb sf ks = true -> and_ok r ks = true -> rem p <= rem p0 ->
      seq_rest P ks p acc <> PFuel.
    Proof.
      induction ks as [|k rest IH]; intros p acc Hs Ha Hl; cbn; [discriminate|].
      cbn in Hs, Ha. apply andb_true_iff in Hs as [Hs1 Hs2]. apply andb_true_iff in Ha as [Ha1 Ha2]. apply Nat.ltb_lt in Ha1.
      destruct (P k true p) as [q t| |] eqn:E; [|discriminate|exfalso; exact (Hlow k true p Hs1 Ha1 Hl E)].
      destruct (HP _ _ _ _ _ E) as [E1 E2]. destruct (nl k).
      - apply IH; [exact Hs2|exact Ha2|lia].
      - specialize (E2 eq_refl). apply seq_guarded; [exact Hs2|lia].
    Qed.

    Lemma igs_low igs p : forallb sf igs = true -> forallb (fun ig => (rk ig <? r) && negb (nl ig)) igs = true ->
      rem p <= rem p0 -> igs_ok igs p.
    Proof.
      intros Hs Hr Hl ig Hi. rewrite forallb_forall in Hs, Hr. specialize (Hs ig Hi). specialize (Hr ig Hi).
      apply andb_true_iff in Hr as [Hr1 Hr2]. apply Nat.ltb_lt in Hr1. apply negb_true_iff in Hr2.
      split; [exact Hr2|]. intros q cp Hq. apply Hlow; [exact Hs|exact Hr1|lia].
    Qed.

    (* a StringStart-free node with all edges covered *)
    Lemma impl_term n i nd p : sf i = true -> sf_ok i nd = true -> edges_ok i nd = true -> r = rk i ->
      rem p <= rem p0 -> rem p0 + 3 <= n \/ r = 0 ->
      impl P full n nd p <> PFuel.
    Proof.
      intros Hsi Hs He Hr Hl Hn. unfold sf_ok in Hs. rewrite Hsi in Hs.
      apply andb_true_iff in Hs as [Hs Hs3]. apply andb_true_iff in Hs as [Hs1 Hs2].
      unfold edges_ok in He. rewrite <- Hr in He. apply andb_true_iff in He as [He1 He2].
      unfold impl. destruct (nkind nd) eqn:Ek; try discriminate.
      - destruct (nkids nd) as [|k0 ks]; [discriminate|]. cbn in Hs2, He2.
        apply andb_true_iff in Hs2 as [Hk0 Hks]. apply andb_true_iff in He2 as [Hr0 Hrest]. apply Nat.ltb_lt in Hr0.
        destruct (P k0 false p) as [q t| |] eqn:E; [|discriminate|exfalso; exact (Hlow k0 false p Hk0 Hr0 Hl E)].
        destruct (HP _ _ _ _ _ E) as [E1 E2]. destruct (nl k0).
        + apply seq_unguarded; [exact Hks|exact Hrest|lia].
        + specialize (E2 eq_refl). apply seq_guarded; [exact Hks|lia].
      - apply first_of_term. intros k Hi q cp Hq. rewrite forallb_forall in Hs2, He2.
        apply Hlow; [exact (Hs2 k Hi)|apply Nat.ltb_lt; exact (He2 k Hi)|lia].
      - unfold hd_ok in He2. destruct (nkids nd) as [|k ks]; [discriminate|]. cbn in Hs2. apply andb_true_iff in Hs2 as [Hk _].
        apply Nat.ltb_lt in He2. destruct (P k false p) eqn:E; [discriminate|discriminate|exfalso; exact (Hlow k false p Hk He2 Hl E)].
      - apply andb_true_iff in He2 as [He2 He3]. unfold hd_ok in He2. unfold hd_nl in He3.
        destruct (nkids nd) as [|k ks]; [discriminate|]. cbn in Hs2. apply andb_true_iff in Hs2 as [Hk _].
        apply Nat.ltb_lt in He2. apply negb_true_iff in He3.
        destruct Hn as [Hn|Hn]; [|lia].
        destruct (P k true p) as [q t| |] eqn:E; [|destruct atleast1; discriminate|exfalso; exact (Hlow k true p Hk He2 Hl E)].
        destruct (HP _ _ _ _ _ E) as [E1 _]. apply many_loop_term.
        + apply igs_low; [exact Hs3|exact He1|lia].
        + exact He3.
        + intros q' cp Hq. apply Hlow; [exact Hk|exact He2|lia].
        + lia.
      - unfold hd_ok in He2. destruct (nkids nd) as [|k ks]; [discriminate|]. cbn in Hs2. apply andb_true_iff in Hs2 as [Hk _].
        apply Nat.ltb_lt in He2. exact (Hlow k false p Hk He2 Hl).
      - unfold hd_ok in He2. destruct (nkids nd) as [|k ks]; [discriminate|]. cbn in Hs2. apply andb_true_iff in Hs2 as [Hk _].
        apply Nat.ltb_lt in He2. exact (Hlow k false p Hk He2 Hl).
      - unfold hd_ok in He2. destruct (nkids nd) as [|k ks]; [discriminate|]. cbn in Hs2. apply andb_true_iff in Hs2 as [Hk _].
        apply Nat.ltb_lt in He2. exact (Hlow k false p Hk He2 Hl).
      - unfold hd_ok in He2. destruct (nkids nd) as [|k ks]; [discriminate|]. cbn in Hs2. apply andb_true_iff in Hs2 as [Hk _].
        apply Nat.ltb_lt in He2. exact (Hlow k false p Hk He2 Hl).
      - destruct p as [s'|]; [|discriminate]. destruct (starts_with s s'); discriminate.
      - destruct p as [s'|]; [|discriminate]. unfold run_token. destruct s' as [|c s']; [discriminate|].
        destruct (memc c init); [|discriminate]. destruct (span body _ s'). destruct (_ <? _); [discriminate|].
        destruct (_ && _ && _); discriminate.
      - destruct p as [s'|]; [|discriminate]. unfold run_token. destruct s' as [|c s']; [discriminate|].
        destruct (memc c cs); [|discriminate]. destruct (span cs _ s'). destruct (_ <? _); [discriminate|].
        destruct (_ && _ && _); discriminate.
      - destruct p as [[|c s']|]; try discriminate. destruct (N.eqb c NL); discriminate.
      - destruct p as [[|c s']|]; discriminate.
      - destruct p as [[|c s']|]; try discriminate. destruct (N.eqb c HASH); [|discriminate]. destruct (upto_nl s'). discriminate.
    Qed.
  End Open.

  Lemma K_pos : 1 <= K.
  Proof. pose proof (HK 0). lia. Qed.

  (* a node without StringStart below it never runs out of fuel above this bound *)
  Theorem parse_term : forall f i cp p, sf i = true -> rem p * K + rk i + 3 <= f -> parse g full f i cp p <> PFuel.
  Proof.
    induction f as [|f IH]; intros i cp p Hsi Hf; [lia|].
    rewrite parse_S. destruct (nth_error g i) as [nd|] eqn:En; [|discriminate].
    pose proof (parse_adv g full nl Hnl f) as HP. pose proof K_pos as HK1.
    assert (Hlow : forall k cp q, sf k = true -> rk k < rk i -> rem q <= rem p -> parse g full f k cp q <> PFuel).
    { intros k cp' q Hk Hr Hq. apply IH; [exact Hk|nia]. }
    assert (Hadv : forall k cp q, sf k = true -> rem q < rem p -> parse g full f k cp q <> PFuel).
    { intros k cp' q Hk Hq. apply IH; [exact Hk|]. pose proof (HK k). nia. }
    pose proof (Hedges i nd En) as He. pose proof (Hsf i nd En) as Hs.
    assert (Hs3 : forallb sf (nign nd) = true).
    { unfold sf_ok in Hs. rewrite Hsi in Hs. apply andb_true_iff in Hs as [_ Hs]. exact Hs. }
    assert (He1 : forallb (fun ig => (rk ig <? rk i) && negb (nl ig)) (nign nd) = true).
    { unfold edges_ok in He. apply andb_true_iff in He as [He _]. exact He. }
    assert (Hcnt : rem p + 3 <= f \/ rk i = 0) by nia.
    assert (Hign : nign nd <> [] -> rem p + 2 <= f).
    { intros Hne. destruct Hcnt as [?|Hz]; [lia|]. destruct (nign nd) as [|ig igs]; [congruence|].
      cbn in He1. rewrite Hz in He1. cbn in He1. discriminate. }
    destruct (if cp && ncallpre nd then pre_parse (parse g full f) f nd p else Some p) as [p1|] eqn:Ep.
    - assert (Hp1 : rem p1 <= rem p).
      { destruct (cp && ncallpre nd); [apply (pre_parse_rem nl _ HP) in Ep; exact Ep|injection Ep as <-; lia]. }
      pose proof (impl_term _ HP p (rk i) Hlow Hadv f i nd p1 Hsi Hs He eq_refl Hp1 Hcnt) as Hi.
      destruct (impl (parse g full f) full f nd p1); [discriminate|discriminate|congruence].
    - exfalso. destruct (cp && ncallpre nd); [|discriminate].
      revert Ep. apply pre_parse_term with (1 := HP); [|exact Hign].
      apply (igs_low _ p (rk i) Hlow); [exact Hs3|exact He1|lia].
  Qed.

  (* the document root: And [StringStart; ...] called at the start of the input *)
  Theorem parse_doc_term root nd ss ndss ks f cp :
    nth_error g root = Some nd -> nkind nd = KAnd -> nkids nd = ss :: ks ->
    nth_error g ss = Some ndss -> nkind ndss = KStringStart ->
    forallb sf ks = true -> forallb sf (nign nd) = true -> forallb sf (nign ndss) = true ->
    rem (At full) * K + rk root + 3 <= f -> parse g full f root cp (At full) <> PFuel.
  Proof.
    intros En Ek Ekids Ens Eks Hsk Hsi Hsis Hf.
    destruct f as [|f]; [lia|]. rewrite parse_S, En.
    pose proof (parse_adv g full nl Hnl f) as HP. pose proof K_pos as HK1.
    set (p := At full) in *.
    assert (Hlow : forall k cp q, sf k = true -> rk k < rk root -> rem q <= rem p -> parse g full f k cp q <> PFuel).
    { intros k cp' q Hk Hr Hq. apply parse_term; [exact Hk|nia]. }
    assert (Hadv : forall k cp q, sf k = true -> rem q < rem p -> parse g full f k cp q <> PFuel).
    { intros k cp' q Hk Hq. apply parse_term; [exact Hk|]. pose proof (HK k). nia. }
    pose proof (Hedges root nd En) as He. unfold edges_ok in He. rewrite Ek, Ekids in He.
    apply andb_true_iff in He as [He1 He2]. cbn [and_ok] in He2. apply andb_true_iff in He2 as [Hrss He2]. apply Nat.ltb_lt in Hrss.
    assert (Hnlss : nl ss = true). { apply (Hnl ss ndss Ens). unfold step_nl. rewrite Eks. reflexivity. }
    rewrite Hnlss in He2.
    pose proof (Hedges ss ndss Ens) as Hes. unfold edges_ok in Hes. apply andb_true_iff in Hes as [Hes1 _].
    assert (Hign : nign nd <> [] -> rem p + 2 <= f).
    { intros Hne. destruct (nign nd) as [|ig igs]; [congruence|]. cbn in He1. apply andb_true_iff in He1 as [He1 _].
      apply andb_true_iff in He1 as [He1 _]. apply Nat.ltb_lt in He1. nia. }
    destruct (if cp && ncallpre nd then pre_parse (parse g full f) f nd p else Some p) as [p1|] eqn:Ep.
    - assert (Hp1 : rem p1 <= rem p).
      { destruct (cp && ncallpre nd); [apply (pre_parse_rem nl _ HP) in Ep; exact Ep|injection Ep as <-; lia]. }
      unfold impl. rewrite Ek, Ekids.
      assert (Hss : parse g full f ss false p1 <> PFuel).
      { destruct f as [|f2]; [lia|]. rewrite parse_S, Ens. cbn [andb]. unfold impl. rewrite Eks.
        destruct (loc_eqb p1 (At full)); [discriminate|].
        pose proof (parse_adv g full nl Hnl f2) as HP2.
        assert (Hpp : pre_parse (parse g full f2) f2 ndss (At full) <> None).
        { apply pre_parse_term with (1 := HP2).
          - intros ig Hi. rewrite forallb_forall in Hsis, Hes1. specialize (Hsis ig Hi). specialize (Hes1 ig Hi).
            apply andb_true_iff in Hes1 as [Hr1 Hr2]. apply Nat.ltb_lt in Hr1. apply negb_true_iff in Hr2.
            split; [exact Hr2|]. intros q cp' Hq. apply parse_term; [exact Hsis|]. fold p in Hq. nia.
          - intros Hne. destruct (nign ndss) as [|ig igs]; [congruence|]. cbn in Hes1. apply andb_true_iff in Hes1 as [Hes1 _].
            apply andb_true_iff in Hes1 as [Hes1 _]. apply Nat.ltb_lt in Hes1. fold p. nia. }
        destruct (pre_parse (parse g full f2) f2 ndss (At full)) as [q|]; [|congruence].
        destruct (loc_eqb p1 q); discriminate. }
      destruct (parse g full f ss false p1) as [q t| |] eqn:E; [|discriminate|congruence].
      destruct (HP _ _ _ _ _ E) as [E1 _].
      assert (Hsr : seq_rest (parse g full f) ks q t <> PFuel).
      { apply (seq_unguarded _ HP p (rk root) Hlow Hadv); [exact Hsk|exact He2|lia]. }
      destruct (seq_rest (parse g full f) ks q t); [discriminate|discriminate|congruence].
    - exfalso. destruct (cp && ncallpre nd); [|discriminate].
      revert Ep. apply pre_parse_term with (1 := HP); [|exact Hign].
      apply (igs_low _ p (rk root) Hlow); [exact Hsi|exact He1|lia].
  Qed.
End Term.

(* ---------------------------------------------------------------- tables and checker *)
Definition idx_nodes (g : list node) : list (nat * node) := combine (seq 0 (length g)) g.
Definition check_all (c : nat -> node -> bool) (g : list node) : bool := forallb (fun x => c (fst x) (snd x)) (idx_nodes g).
Lemma in_idx_nodes : forall (g : list node) s i nd, nth_error g i = Some nd -> In (s + i, nd) (combine (seq s (length g)) g).
Proof.
  induction g as [|a g IH]; intros s i nd H; [destruct i; discriminate|].
  destruct i as [|i]; cbn in *.
  - injection H as ->. left. f_equal. lia.
  - right. replace (s + S i) with (S s + i) by lia. apply IH. exact H.
Qed.
Lemma check_all_spec c g : check_all c g = true -> forall i nd, nth_error g i = Some nd -> c i nd = true.
Proof.
  intros H i nd Hn. unfold check_all in H. rewrite forallb_forall in H.
  exact (H (i, nd) (in_idx_nodes g 0 i nd Hn)).
Qed.

Definition tnl (t : list bool) (i : nat) : bool := nth i t true.
Definition trk (t : list nat) (i : nat) : nat := nth i t 0.
Definition tsf (t : list bool) (i : nat) : bool := nth i t false.

(* one round of each table computation (the checker below validates the result) *)
Definition nl_round (g : list node) (t : list bool) : list bool := map (step_nl (tnl t)) g.
Definition sf_round (g : list node) (t : list bool) : list bool :=
  map (fun nd => match nkind nd with KStringStart => false | _ => true end
                 && forallb (tsf t) (nkids nd) && forallb (tsf t) (nign nd)) g.
Fixpoint and_rank (nl : nat -> bool) (rk : nat -> nat) (ks : list nat) : nat :=
  match ks with
  | [] => 0
  | k :: rest => Nat.max (S (rk k)) (if nl k then and_rank nl rk rest else 0)
  end.
Definition rk_round (g : list node) (nlt : list bool) (t : list nat) : list nat :=
  map (fun nd =>
         Nat.max (fold_right (fun ig a => Nat.max (S (trk t ig)) a) 0 (nign nd))
           match nkind nd with
           | KAnd => and_rank (tnl nlt) (trk t) (nkids nd)
           | KFirst => fold_right (fun k a => Nat.max (S (trk t k)) a) 0 (nkids nd)
           | KOpt | KPass | KGroup | KSuppress | KCombine _ | KMany _ =>
               match nkids nd with k :: _ => S (trk t k) | [] => 0 end
           | _ => 0
           end) g.
Fixpoint iter {A} (n : nat) (f : A -> A) (x : A) : A := match n with 0 => x | S m => iter m f (f x) end.

Definition nl_table (g : list node) : list bool := iter (length g) (nl_round g) (map (fun _ => false) g).
Definition sf_table (g : list node) : list bool := iter (length g) (sf_round g) (map (fun _ => true) g).
Definition rk_table (g : list node) (nlt : list bool) : list nat := iter (length g) (rk_round g nlt) (map (fun _ => 0) g).

Definition root_check (G : grammar) (sft : list bool) (rkt : list nat) : bool :=
  match nth_error (gnodes G) (groot G) with
  | Some nd =>
      match nkind nd, nkids nd with
      | KAnd, ss :: ks =>
          match nth_error (gnodes G) ss with
          | Some ndss =>
              match nkind ndss with
              | KStringStart => forallb (tsf sft) ks && forallb (tsf sft) (nign nd) && forallb (tsf sft) (nign ndss)
                                && (trk rkt (groot G) + 3 <=? length (gnodes G))
              | _ => false
              end
          | None => false
          end
      | _, _ => false
      end
  | None => false
  end.

Definition term_check (G : grammar) (nlt : list bool) (rkt : list nat) (sft : list bool) : bool :=
  let g := gnodes G in
  check_all (fun i nd => implb (step_nl (tnl nlt) nd) (tnl nlt i)) g &&
  check_all (edges_ok (tnl nlt) (trk rkt)) g &&
  check_all (sf_ok (tsf sft)) g &&
  forallb (fun r => r <? length g) rkt &&
  root_check G sft rkt.

Theorem term_check_sound G nlt rkt sft :
  term_check G nlt rkt sft = true -> forall text, parse_string G text <> PFuel.
Proof.
  unfold term_check. intros H text.
  apply andb_true_iff in H as [H Hroot]. apply andb_true_iff in H as [H Hrk].
  apply andb_true_iff in H as [H Hsf]. apply andb_true_iff in H as [Hnl Hed].
  pose proof (check_all_spec _ _ Hnl) as Hnl'. pose proof (check_all_spec _ _ Hed) as Hed'.
  pose proof (check_all_spec _ _ Hsf) as Hsf'.
  unfold root_check in Hroot.
  destruct (nth_error (gnodes G) (groot G)) as [nd|] eqn:En; [|discriminate].
  destruct (nkind nd) eqn:Ek; try discriminate. destruct (nkids nd) as [|ss ks] eqn:Ekids; [discriminate|].
  destruct (nth_error (gnodes G) ss) as [ndss|] eqn:Ens; [|discriminate].
  destruct (nkind ndss) eqn:Eks; try discriminate.
  apply andb_true_iff in Hroot as [Hroot Hfuel]. apply andb_true_iff in Hroot as [Hroot Hs3].
  apply andb_true_iff in Hroot as [Hs1 Hs2]. apply Nat.leb_le in Hfuel.
  assert (Hlen : 1 <= length (gnodes G)) by lia.
  assert (HK : forall i, trk rkt i < length (gnodes G)).
  { intros i. unfold trk. destruct (nth_in_or_default i rkt 0) as [Hi| ->]; [|lia].
    rewrite forallb_forall in Hrk. apply Nat.ltb_lt. exact (Hrk _ Hi). }
  unfold parse_string, parse_string_fuel, default_fuel.
  assert (Hnl2 : nl_ok (gnodes G) (tnl nlt)).
  { intros i nd' Hn Hstep. specialize (Hnl' i nd' Hn). cbv beta in Hnl'. rewrite Hstep in Hnl'. exact Hnl'. }
  apply (parse_doc_term (gnodes G) (expandtabs text) (tnl nlt) (trk rkt) (length (gnodes G)) (tsf sft)
           Hnl2 Hed' Hsf' HK (groot G) nd ss ndss ks _ true En Ek Ekids Ens Eks Hs1 Hs2 Hs3).
  cbn [rem]. nia.
Qed.
