(* C10: sorted(), min() and max() over objects ordered by a coherent comparison of their
   canonical forms behave deterministically.  `sort_by key cmp` (Base/Sort.v) is the
   stable sort Python's sorted() computes from `<` alone; objects of different
   subclasses may carry the same key, so the statements are about the sequence of keys
   (canonical forms) and about the relative order of key-equal objects (stability),
   not about an injective key. *)
From Coq Require Import List Bool NArith Permutation Sorted.
From DSD Require Import Base.Str Base.Sort.
Import ListNotations.

Section Det.
  Context {A K : Type} (key : A -> K) (cmp : K -> K -> comparison) (G : good_cmp cmp).

  Lemma map_insert x l :
    map key (insert key cmp x l) = insert (fun k => k) cmp (key x) (map key l).
  Proof.
    induction l as [|y r IH]; cbn; [reflexivity|].
    destruct (cmp_leb (cmp (key x) (key y))); cbn; [reflexivity|]. rewrite IH. reflexivity.
  Qed.

  Lemma map_sort l : map key (sort_by key cmp l) = sort_by (fun k => k) cmp (map key l).
  Proof. induction l as [|x r IH]; cbn; [reflexivity|]. rewrite map_insert, IH. reflexivity. Qed.

  (* whatever order the objects are presented in, sorted() lists the same canonical forms *)
  Theorem sorted_keys_deterministic l l' :
    Permutation l l' -> map key (sort_by key cmp l) = map key (sort_by key cmp l').
  Proof.
    intros P. rewrite !map_sort. apply (sort_perm_invariant (fun k : K => k) cmp G).
    - intros x y _ _ E. exact E.
    - apply Permutation_map, P.
  Qed.

  (* the result is ascending: every element is <= every later one *)
  Theorem sorted_ascending l :
    StronglySorted (fun x y => leb cmp (key x) (key y) = true) (sort_by key cmp l).
  Proof. exact (sorted_strongly key cmp G _ (sort_sorted key cmp G l)). Qed.

  (* and a permutation of the input: nothing lost, nothing duplicated *)
  Theorem sorted_is_permutation l : Permutation (sort_by key cmp l) l.
  Proof. apply sort_perm. Qed.

  (* stability: objects with one and the same canonical form keep their input order *)
  Lemma filter_insert (p : A -> bool) x l :
    (forall y, p x = true -> p y = true -> cmp (key x) (key y) = Eq) ->
    filter p (insert key cmp x l) = filter p (x :: l).
  Proof.
    intros Hp. induction l as [|y r IH]; [reflexivity|].
    cbn [insert]. destruct (cmp (key x) (key y)) eqn:E; cbn [cmp_leb]; try reflexivity.
    assert (Hxy : p x = true -> p y = true -> False).
    { intros Px Py. rewrite (Hp y Px Py) in E. discriminate. }
    cbn [filter] in *. rewrite IH. clear IH Hp. destruct (p y); [|reflexivity].
    destruct (p x); [|reflexivity]. exfalso. apply Hxy; reflexivity.
  Qed.

  Theorem sorted_stable k l :
    filter (fun y => eqb cmp (key y) k) (sort_by key cmp l) = filter (fun y => eqb cmp (key y) k) l.
  Proof.
    induction l as [|x r IH]; [reflexivity|]. cbn [sort_by].
    rewrite filter_insert.
    - cbn [filter]. rewrite IH. reflexivity.
    - intros y Hx Hy. apply (eqb_iff cmp G) in Hx. apply (eqb_iff cmp G) in Hy.
      rewrite Hx, Hy. apply (good_refl _ G).
  Qed.

  (* min() is the head of the sorted list and is <= everything; max() dually the last *)
  Theorem sorted_head_is_minimum l x r :
    sort_by key cmp l = x :: r -> forall y, In y l -> leb cmp (key x) (key y) = true.
  Proof. exact (sort_head_min key cmp G l x r). Qed.

  Theorem sorted_last_is_maximum l pre x :
    sort_by key cmp l = pre ++ [x] -> forall y, In y l -> leb cmp (key y) (key x) = true.
  Proof.
    intros E y Hy.
    pose proof (sorted_ascending l) as S. rewrite E in S.
    assert (Iy : In y (pre ++ [x])).
    { rewrite <- E. apply (Permutation_in _ (Permutation_sym (sort_perm key cmp l))). exact Hy. }
    clear E Hy. induction pre as [|a pre IH]; cbn in *.
    - destruct Iy as [<-|[]]. unfold leb. rewrite (good_refl _ G). reflexivity.
    - inversion S as [|? ? Sr Ha]; subst. destruct Iy as [<-|Iy].
      + rewrite Forall_forall in Ha. apply Ha. apply in_or_app. right. left. reflexivity.
      + apply IH; assumption.
  Qed.
End Det.

(* not vacuous: three keys, two of them equal, in two arrangements *)
Example ex_sorted_det :
  map fst (sort_by fst N.compare [(3, 0); (1, 1); (3, 2); (1, 3)]%N)
  = map fst (sort_by fst N.compare [(1, 3); (3, 2); (3, 0); (1, 1)]%N)
  /\ sort_by fst N.compare [(3, 0); (1, 1); (3, 2); (1, 3)]%N = [(1, 1); (1, 3); (3, 0); (3, 2)]%N.
Proof. split; reflexivity. Qed.
