(* C20: the legacy API computes the same answers as the current one. *)
From Coq Require Import List Arith ZArith Lia Bool NArith.
From DSD Require Import Base.Str Base.Errors Base.Val Base.Sort Model.ComplexUtils Model.Rotation Model.Compare
  Model.Canon Model.Iupac Model.Legacy
  Proofs.C10 Proofs.RotTree Proofs.RotOnce Proofs.RotOrbit Proofs.RotStrands Proofs.RotGen Proofs.C02 Proofs.C17.
From DSDGen Require Import IupacTables LegacyIupac.
Import ListNotations.

(* ---- canonical form ---- *)
Lemma first_index_in k vs : (exists e, first_index k vs = Some e) <-> In k (map fst vs).
Proof.
  induction vs as [|[k' e'] r IH]; cbn [first_index map fst In].
  - split; [intros [e H]; discriminate|tauto].
  - destruct (ckey_eqb k k') eqn:E.
    + apply ckey_eqb_eq in E. subst k'. split; eauto.
    + rewrite IH. split; [auto|]. intros [H|H]; [|exact H]. subst k'.
      rewrite (proj2 (ckey_eqb_eq k k) eq_refl) in E. discriminate.
Qed.

Lemma legacy_rot1_good x : good x -> legacy_rot1 x = Ok (rotT x).
Proof. intros G. destruct (rotT_ok x G) as [E _]. unfold once in E. unfold legacy_rot1. rewrite E. reflexivity. Qed.

Lemma legacy_loop_keys f : forall e x vs, good x ->
  exists vs', legacy_loop f e x [] vs = inl (Ok vs') /\
    forall c, In c (map fst vs') <->
              (In c (map fst vs) \/ exists j, 1 <= j <= f /\ c = Nat.iter j rotT x).
Proof.
  induction f as [|f IH]; intros e x vs G; cbn [legacy_loop].
  - exists (rev vs). split; [reflexivity|]. intros c. rewrite map_rev, <- in_rev.
    split; [auto|]. intros [H|(j & Hj & _)]; [exact H|lia].
  - rewrite (legacy_rot1_good x G).
    assert (Gy : good (rotT x)) by (apply rotT_ok, G).
    assert (Shift : forall c, (exists j, 1 <= j <= S f /\ c = Nat.iter j rotT x) <->
                              (c = rotT x \/ exists j, 1 <= j <= f /\ c = Nat.iter j rotT (rotT x))).
    { intros c. split.
      - intros (j & Hj & ->). destruct (Nat.eq_dec j 1) as [->|Hn]; [left; reflexivity|].
        right. exists (j - 1). split; [lia|]. rewrite <- iter_succ_r. f_equal. lia.
      - intros [->|(j & Hj & ->)]; [exists 1; split; [lia|reflexivity]|].
        exists (S j). split; [lia|]. rewrite iter_succ_r. reflexivity. }
    destruct (first_index (rotT x) vs) as [e0|] eqn:F.
    + destruct (IH (S e) (rotT x) vs Gy) as (vs' & E & K). exists vs'. split; [exact E|].
      intros c. rewrite K, Shift. assert (In (rotT x) (map fst vs)) by (apply first_index_in; eauto).
      split; [tauto|]. intros [H1|[->|H1]]; auto.
    + destruct (IH (S e) (rotT x) ((rotT x, e) :: vs) Gy) as (vs' & E & K). exists vs'. split; [exact E|].
      intros c. rewrite K, Shift. cbn [map fst In]. split; [intros [[<-|H1]|H1]; auto|].
      intros [H1|[->|H1]]; auto.
Qed.

Theorem legacy_canonical_form_eq x : goodNE x ->
  exists c r, legacy_canonical (fst x) (snd x) [] = LOk c r /\ canon_T x = Some c.
Proof.
  intros GN. pose proof GN as [G N]. unfold legacy_canonical. rewrite (aligned_len x G). cbn [negb].
  rewrite (n_strands_nstr x GN). set (n := nstr (snd x)).
  assert (Hn : n <> 0) by (unfold n, nstr; lia).
  destruct x as [sq st]. cbn [fst snd] in *.
  destruct (legacy_loop_keys n 1 (sq, st) [] G) as (vs & E & K). rewrite E.
  destruct (min_key (map fst vs)) as [c|] eqn:M.
  2:{ exfalso. unfold min_key in M.
      pose proof (sort_perm (fun x => x) ckey_cmp (map fst vs)) as P.
      destruct (sort_by (fun x => x) ckey_cmp (map fst vs)); [|discriminate].
      apply Permutation.Permutation_nil in P.
      assert (In (rotT (sq, st)) (map fst vs)) by (apply K; right; exists 1; split; [lia|reflexivity]).
      rewrite P in H. contradiction. }
  destruct (min_key_spec _ _ M) as [Hin Hmin].
  destruct (proj2 (first_index_in c vs) Hin) as [e He]. rewrite He.
  eexists. eexists. split; [reflexivity|].
  destruct (canon_T_spec (sq, st) GN) as (e1 & He1 & Ex & Mx). rewrite Ex. f_equal.
  apply K in Hin. destruct Hin as [[]|(j & Hj & Hc)].
  apply (leb_antisym ckey_cmp good_ckey).
  - rewrite Hc. apply Mx.
  - (* the current canonical form is one of the legacy variants, up to the period *)
    apply Hmin. apply K. right.
    destruct (Nat.eq_dec e1 0) as [->|Hne].
    + exists n. split; [lia|]. cbn [Nat.iter]. symmetry. apply (rotT_orbit (sq, st) G).
    + exists e1. cbn [snd] in He1. fold n in He1. split; [lia|reflexivity].
Qed.

(* ---- legacy sequence constraints agree with the current tables where both are defined ---- *)
Definition agree (l cur : list (N * N)) : bool :=
  forallb (fun kv => match nlookup (fst kv) cur with Some v => N.eqb v (snd kv) | None => true end) l.

Lemma legacy_tables_agree :
  agree lwc_dna wc_dna && agree lwc_rna wc_rna && agree lwob_dna wob_dna && agree lwob_rna wob_rna &&
  agree lrwc_dna wc_dna && agree lrwc_rna wc_rna && agree lrwob_dna wob_dna && agree lrwob_rna wob_rna = true.
Proof. vm_compute. reflexivity. Qed.

Lemma agree_lookup l cur c x y : agree l cur = true ->
  nlookup c l = Some x -> nlookup c cur = Some y -> x = y.
Proof.
  intros A Hx Hy. apply nlookup_In in Hx. unfold agree in A. rewrite forallb_forall in A.
  specialize (A _ Hx). cbn [fst snd] in A. rewrite Hy in A. apply N.eqb_eq in A. congruence.
Qed.

Lemma map_tab_agree (t1 t2 : N -> option N) :
  (forall c x y, t1 c = Some x -> t2 c = Some y -> x = y) ->
  forall s a b, map_tab t1 s = Ok a -> map_tab t2 s = Ok b -> a = b.
Proof.
  intros H s. unfold map_tab. induction s as [|c r IH]; intros a b; cbn [omap].
  - intros E1 E2. injection E1 as <-. injection E2 as <-. reflexivity.
  - destruct (t1 c) as [x|] eqn:T1; [|discriminate]. destruct (t2 c) as [y|] eqn:T2; [|discriminate].
    cbn [obind]. destruct (omap t1 r) as [a'|]; [|discriminate]. destruct (omap t2 r) as [b'|]; [|discriminate].
    cbn [obind]. intros E1 E2. injection E1 as <-. injection E2 as <-.
    f_equal; [eapply H; eassumption|]. apply IH; reflexivity.
Qed.

Theorem legacy_complements_agree rna s :
  (forall a b, legacy_wc rna s = Ok a -> wc_complement rna s = Ok b -> a = b) /\
  (forall a b, legacy_wobble rna s = Ok a -> complement rna s = Ok b -> a = b) /\
  (forall a b, legacy_reverse_wc rna s = Ok a -> reverse_wc_complement rna s = Ok b -> a = b) /\
  (forall a b, legacy_reverse_wobble rna s = Ok a -> reverse_complement rna s = Ok b -> a = b).
Proof.
  pose proof legacy_tables_agree as T. rewrite !andb_true_iff in T.
  destruct T as [[[[[[[T1 T2] T3] T4] T5] T6] T7] T8].
  destruct (reverse_is_map_of_reversed rna s) as [R1 R2]. rewrite R1, R2.
  unfold legacy_wc, legacy_wobble, legacy_reverse_wc, legacy_reverse_wobble, wc_complement, complement,
         lwc_tab, lwob_tab, lrwc_tab, lrwob_tab, wc_tab, wob_tab.
  repeat split; apply map_tab_agree; intros c x y; destruct rna; apply agree_lookup; assumption.
Qed.

Example ex_legacy :
  legacy_canonical [[98%N; 42%N]; [98%N; 42%N]; sPlus; [98%N]] [cO; cD; cP; cC] []
  = LOk ([[98%N]; sPlus; [98%N; 42%N]; [98%N; 42%N]], [cO; cP; cC; cD]) 1.
Proof. vm_compute. reflexivity. Qed.

(* ---- duplicate detection: raised exactly for rotation-equivalent requests ---- *)
Lemma legacy_loop_dup f : forall e x vs ca, good x -> ~ In ca (map fst vs) ->
  ((exists j, 1 <= j <= f /\ Nat.iter j rotT x = ca) ->
     exists i e', legacy_loop f e x [ca] vs = inr (i, e')) /\
  ((forall j, 1 <= j <= f -> Nat.iter j rotT x <> ca) ->
     legacy_loop f e x [ca] vs = legacy_loop f e x [] vs).
Proof.
  induction f as [|f IH]; intros e x vs ca G Hn; cbn [legacy_loop].
  - split; [intros (j & Hj & _); lia|reflexivity].
  - rewrite (legacy_rot1_good x G). assert (Gy : good (rotT x)) by (apply rotT_ok, G).
    destruct (first_index (rotT x) vs) as [e0|] eqn:F.
    + assert (Hne : rotT x <> ca).
      { intros <-. apply Hn. apply first_index_in. eauto. }
      destruct (IH (S e) (rotT x) vs ca Gy Hn) as [I1 I2]. split.
      * intros (j & Hj & Hc). apply I1. destruct (Nat.eq_dec j 1) as [->|Hj1]; [contradiction|].
        exists (j - 1). split; [lia|]. rewrite <- iter_succ_r. replace (S (j - 1)) with j by lia. exact Hc.
      * intros H. apply I2. intros j Hj. rewrite <- iter_succ_r. apply H. lia.
    + destruct (ckey_eqb (rotT x) ca) eqn:E.
      * split; [eauto|]. intros H. exfalso. apply (H 1); [lia|]. apply ckey_eqb_eq in E. exact E.
      * assert (Hne : rotT x <> ca).
        { intros <-. rewrite (proj2 (ckey_eqb_eq _ _) eq_refl) in E. discriminate. }
        assert (Hn' : ~ In ca (map fst ((rotT x, e) :: vs))).
        { cbn [map fst In]. intros [H|H]; [congruence|exact (Hn H)]. }
        destruct (IH (S e) (rotT x) ((rotT x, e) :: vs) ca Gy Hn') as [I1 I2]. split.
        -- intros (j & Hj & Hc). apply I1. destruct (Nat.eq_dec j 1) as [->|Hj1]; [contradiction|].
           exists (j - 1). split; [lia|]. rewrite <- iter_succ_r. replace (S (j - 1)) with j by lia. exact Hc.
        -- intros H. apply I2. intros j Hj. rewrite <- iter_succ_r. apply H. lia.
Qed.

Lemma classic_dup n x ca :
  (exists j, 1 <= j <= n /\ Nat.iter j rotT x = ca) \/ (forall j, 1 <= j <= n -> Nat.iter j rotT x <> ca).
Proof.
  induction n as [|n IH]; [right; intros j Hj; lia|].
  destruct IH as [(j & Hj & Hc)|Hno]; [left; exists j; split; [lia|exact Hc]|].
  destruct (ckey_eqb (Nat.iter (S n) rotT x) ca) eqn:E.
  - left. exists (S n). split; [lia|]. apply ckey_eqb_eq, E.
  - right. intros j Hj. destruct (Nat.eq_dec j (S n)) as [->|Hne].
    + intros H. rewrite H, (proj2 (ckey_eqb_eq _ _) eq_refl) in E. discriminate.
    + apply Hno. lia.
Qed.

Lemma canon_T_of_canon x c : goodNE x -> canon_T x = Some c -> goodNE c /\ canon_T c = Some c.
Proof.
  intros GN H. destruct (canon_T_spec x GN) as (e & _ & E & _). rewrite E in H. injection H as <-.
  split; [apply iter_rotT_goodNE, GN|]. rewrite canon_orbit_invariant by exact GN. exact E.
Qed.

Theorem legacy_duplicate_iff A B ca : goodNE A -> goodNE B -> canon_T A = Some ca ->
  ((exists i e, legacy_canonical (fst B) (snd B) [ca] = LDup i e) <-> canon_T B = Some ca).
Proof.
  intros GA GB HA. pose proof GB as [G N]. destruct (canon_T_of_canon A ca GA HA) as [Gc Hc].
  unfold legacy_canonical. rewrite (aligned_len B G). cbn [negb]. rewrite (n_strands_nstr B GB).
  set (n := nstr (snd B)). assert (Hn : n <> 0) by (unfold n, nstr; lia).
  destruct B as [sq st]. cbn [fst snd] in *.
  destruct (legacy_loop_dup n 1 (sq, st) [] ca G (fun H => H)) as [D1 D2].
  split.
  - intros (i & e & H).
    destruct (classic_dup n (sq, st) ca) as [(j & Hj & Hc')|Hno].
    + rewrite <- Hc' in Hc. rewrite canon_orbit_invariant in Hc by exact GB. rewrite Hc, Hc'. reflexivity.
    + exfalso.
      match type of H with context [legacy_loop ?a ?b ?c ?d ?e] =>
        replace (legacy_loop a b c d e) with (legacy_loop a b c [] e) in H by (symmetry; exact (D2 Hno)) end.
      destruct (legacy_loop_keys n 1 (sq, st) [] G) as (vs & E & _).
      match type of H with context [legacy_loop ?a ?b ?c ?d ?e] =>
        replace (legacy_loop a b c d e) with (@inl (res (list (ckey * nat))) (nat * nat) (Ok vs)) in H by (symmetry; exact E) end.
      destruct (min_key (map fst vs)); [|discriminate]. destruct (first_index c vs); discriminate.
  - intros HB. destruct (canon_T_spec (sq, st) GB) as (e1 & He1 & Ex & _). rewrite Ex in HB. injection HB as HB.
    assert (Ex' : exists j, 1 <= j <= n /\ Nat.iter j rotT (sq, st) = ca).
    { destruct (Nat.eq_dec e1 0) as [->|Hne].
      - exists n. split; [lia|]. rewrite <- HB. cbn [Nat.iter]. apply (rotT_orbit (sq, st) G).
      - exists e1. cbn [snd] in He1. fold n in He1. split; [lia|exact HB]. }
    destruct (D1 Ex') as (i & e' & R).
    match goal with |- context [legacy_loop ?a ?b ?c ?d ?e] =>
      replace (legacy_loop a b c d e) with (@inr (res (list (ckey * nat))) (nat * nat) (i, e')) by (symmetry; exact R) end.
    eauto.
Qed.
