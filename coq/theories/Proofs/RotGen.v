(* The rotation generators: rotate_pt_step is the inverse relabelling; called
   without a turn count, ComplexS.rotate / rotate_pt and rotate_complex_pt /
   rotate_complex_db each enumerate exactly the n rotations starting with the
   input, the two families in opposite directions. *)
From Coq Require Import List Arith ZArith Lia Bool NArith.
From DSD Require Import Base.Str Base.Errors Model.ComplexUtils Model.Rotation Dyck.Dyck
  Proofs.Mpt Proofs.Acc Proofs.Db Proofs.Assoc Proofs.C06 Proofs.RotLoc Proofs.RotScan
  Proofs.RotTree Proofs.RotPairs Proofs.RotOnce Proofs.RotOrbit Proofs.RotStrands.
Import ListNotations.

(* total versions (the error branches are never taken on good input) *)
Definition rotT (x : cplx) : cplx := match once x with Ok y => y | Err _ => x end.
Definition tabT (s : list chr) : tab := match make_pair_table cP [cD] s with Ok t => t | Err _ => [] end.
Definition tabs (x : cplx) : list (list pstr) * tab :=
  (make_strand_table_list sPlus (fst x), tabT (snd x)).
Definition stepP (sp : list (list pstr) * tab) : list (list pstr) * tab :=
  rotate_pt_step (fst sp) (snd sp).

(* good and every strand non-empty: the quantifier of C07 *)
Definition goodNE (x : cplx) : Prop := good x /\ NE (fst x).

Lemma rotT_ok x : good x -> once x = Ok (rotT x) /\ good (rotT x).
Proof. intros G. destruct (rot_once_good x G) as (y & E & Gy). unfold rotT. rewrite E. auto. Qed.

Lemma iter_rotT_good k x : good x -> good (Nat.iter k rotT x).
Proof. intros G. induction k as [|k IH]; [exact G|]. rewrite iter_S. apply rotT_ok, IH. Qed.

Lemma rot_iter_rotT k : forall x, good x -> rot_iter k x = Ok (Nat.iter k rotT x).
Proof.
  induction k as [|k IH]; intros x G; [reflexivity|].
  rewrite rot_iter_S. destruct (rotT_ok x G) as [E Gy]. rewrite E. cbn [rbind].
  rewrite IH by exact Gy. rewrite iter_succ_r. reflexivity.
Qed.

Lemma rotT_fst x : good x -> fst (rotT x) = rotS (fst x).
Proof. intros G. destruct (rotT_ok x G) as [E _]. apply once_fst, E. Qed.

Lemma rotT_goodNE x : goodNE x -> goodNE (rotT x).
Proof.
  intros [G N]. split; [apply rotT_ok, G|]. rewrite rotT_fst by exact G. apply NE_rotS, N.
Qed.

Lemma iter_rotT_goodNE k x : goodNE x -> goodNE (Nat.iter k rotT x).
Proof. intros G. induction k as [|k IH]; [exact G|]. rewrite iter_S. apply rotT_goodNE, IH. Qed.

Lemma rotT_orbit x : good x -> Nat.iter (nstr (snd x)) rotT x = x.
Proof.
  intros G. pose proof (rot_orbit x G) as O. rewrite rot_iter_rotT in O by exact G.
  injection O as O. exact O.
Qed.

Lemma tabT_ok s : wf s -> make_pair_table cP [cD] s = Ok (tabT s).
Proof. intros W. destruct (wf_rc s W) as [d ->]. unfold tabT. rewrite mpt_rc. reflexivity. Qed.

Lemma tabT_rc d : tabT (rc d) = tab_of d.
Proof. unfold tabT. rewrite mpt_rc. reflexivity. Qed.

Lemma tabT_length s : wf s -> length (tabT s) = nstr s.
Proof. intros W. apply mpt_length; [apply tabT_ok, W|exact W]. Qed.

Lemma tabT_below s : wf s -> tab_below (length (tabT s)) (tabT s).
Proof. intros W. destruct (wf_rc s W) as [d ->]. rewrite tabT_rc. apply tab_of_below. Qed.

Lemma tabT_rotT x : good x -> tabT (snd (rotT x)) = step_tab (length (tabT (snd x))) (tabT (snd x)).
Proof.
  intros G. destruct G as [Ha Hw].
  destruct (rot_once_pairs_lemma _ _ Ha Hw) as (s' & t' & T & E1 & E2 & E3).
  unfold rotT, once. rewrite E1. cbn [snd]. unfold tabT at 1. rewrite E3.
  rewrite (tabT_ok _ Hw) in E2. injection E2 as <-. reflexivity.
Qed.

(* ---- rot_pt_step_inverse ---- *)
Lemma rot_right_map {A B} (f : A -> B) l : rot_right (map f l) = map f (rot_right l).
Proof.
  unfold rot_right. rewrite <- map_rev. destruct (rev l); [reflexivity|].
  cbn [map]. rewrite map_rev. reflexivity.
Qed.

Lemma rot_right_length {A} (l : list A) : length (rot_right l) = length l.
Proof.
  unfold rot_right. rewrite <- (rev_length l). destruct (rev l); [reflexivity|].
  cbn [length]. rewrite rev_length. reflexivity.
Qed.

Lemma relabel_rot_right n k t : rot_right (relabel n k t) = relabel n k (rot_right t).
Proof. apply rot_right_map. Qed.

Lemma rotate_pt_step_eq {A} (st : list (list A)) pt :
  rotate_pt_step st pt = (rot_right st, relabel (length pt) 1 (rot_right pt)).
Proof. reflexivity. Qed.

(* on tables: one step of rotate_complex_pt undoes the relabelling of one
   rotate_complex_once, and conversely *)
Theorem pt_step_inverse_tab n (st : list (list pstr)) T : 0 < n -> length T = n -> tab_below n T ->
  rotate_pt_step (rot_left st) (step_tab n T) = (st, T) /\
  step_tab n (snd (rotate_pt_step st T)) = T.
Proof.
  intros Hn HL Hb. rewrite !rotate_pt_step_eq. unfold step_tab. split.
  - rewrite rot_right_left. f_equal.
    rewrite relabel_length, rot_left_length, HL.
    rewrite relabel_rot_right, rot_right_left, relabel_compose by exact Hn. change (-1 + 1)%Z with 0%Z.
    apply relabel_zero, Hb.
  - cbn [snd]. rewrite HL.
    rewrite relabel_rot_left, rot_left_right, relabel_compose by exact Hn. change (1 + -1)%Z with 0%Z.
    apply relabel_zero, Hb.
Qed.

(* on complexes: the tables of x are one rotate_pt_step of the tables of its rotation *)
Theorem stepP_tabs x : goodNE x -> stepP (tabs (rotT x)) = tabs x.
Proof.
  intros [G N]. pose proof G as [Ha Hw]. unfold stepP, tabs. cbn [fst snd].
  rewrite (mst_splitS (fst x) N).
  rewrite mst_splitS by (rewrite rotT_fst by exact G; apply NE_rotS, N).
  rewrite rotT_fst by exact G. rewrite splitS_rotS. rewrite tabT_rotT by exact G.
  apply pt_step_inverse_tab.
  - rewrite tabT_length by exact Hw. unfold nstr. lia.
  - reflexivity.
  - apply tabT_below, Hw.
Qed.

(* ---- the object-level generators ---- *)
Lemma seq_S a k : seq a (S k) = a :: seq (S a) k.
Proof. reflexivity. Qed.

Lemma rot_chain_spec k : forall x, good x ->
  rot_chain k x = Ok (map (fun j => Nat.iter j rotT x) (seq 1 k)).
Proof.
  induction k as [|k IH]; intros x G; [reflexivity|].
  cbn [rot_chain]. destruct (rotT_ok x G) as [E Gy]. unfold once in E. rewrite E. cbn [rbind].
  rewrite IH by exact Gy. cbn [rbind]. rewrite seq_S. cbn [map]. f_equal. f_equal.
  rewrite <- (seq_shift k 1), map_map. apply map_ext. intros j. rewrite iter_succ_r. reflexivity.
Qed.

Lemma size_nstr x : goodNE x -> size_of (fst x) = nstr (snd x).
Proof. intros [[Ha _] N]. rewrite size_of_NE by exact N. apply aligned_nb, Ha. Qed.

Definition rotations (x : cplx) : list cplx :=
  map (fun j => Nat.iter j rotT x) (seq 0 (nstr (snd x))).

Theorem obj_rotate_spec seq sst : goodNE (seq, sst) -> obj_rotate seq sst None = Ok (rotations (seq, sst)).
Proof.
  intros GN. pose proof GN as [G N]. unfold obj_rotate, turns_of, rotations.
  pose proof (size_nstr (seq, sst) GN) as SZ. cbn [fst snd] in SZ. rewrite SZ. cbn [fst snd]. unfold nstr.
  replace (Z.to_nat (Z.of_nat (S (length (filter isP sst))) - 1)) with (length (filter isP sst)) by lia.
  rewrite rot_chain_spec by exact G. cbn [rbind]. rewrite seq_S. reflexivity.
Qed.

Lemma rot_pt_chain_spec k : forall x, good x ->
  rot_pt_chain k x = Ok (map (fun j => tabs (Nat.iter j rotT x)) (seq 0 (S k))).
Proof.
  induction k as [|k IH]; intros x G; pose proof G as [Ha Hw]; cbn [rot_pt_chain];
    rewrite (tabT_ok _ Hw); cbn [rbind].
  - reflexivity.
  - destruct (rotT_ok x G) as [E Gy]. unfold once in E. rewrite E. cbn [rbind].
    rewrite IH by exact Gy. cbn [rbind]. rewrite (seq_S 0 (S k)). cbn [map]. f_equal. f_equal.
    rewrite <- (seq_shift (S k) 0), map_map. apply map_ext. intros j. rewrite iter_succ_r. reflexivity.
Qed.

Theorem obj_rotate_pt_spec seq sst : goodNE (seq, sst) ->
  obj_rotate_pt seq sst None = Ok (map tabs (rotations (seq, sst))).
Proof.
  intros GN. pose proof GN as [G N]. unfold obj_rotate_pt, turns_of, rotations.
  pose proof (size_nstr (seq, sst) GN) as SZ. cbn [fst snd] in SZ. rewrite SZ. cbn [fst snd]. unfold nstr.
  replace (Z.to_nat (Z.of_nat (S (length (filter isP sst))) - 1)) with (length (filter isP sst)) by lia.
  rewrite rot_pt_chain_spec by exact G. rewrite map_map. reflexivity.
Qed.

(* ---- rotate_complex_pt without a turn count ---- *)
Lemma rotate_pt_step_length {A} (st : list (list A)) pt : length (snd (rotate_pt_step st pt)) = length pt.
Proof. unfold rotate_pt_step. cbn [snd]. rewrite map_length. apply rot_right_length. Qed.

Lemma rotate_complex_pt_below t : forall (st : list (list pstr)) pt, t < length pt ->
  rotate_complex_pt t st pt = map (fun j => Nat.iter j stepP (st, pt)) (seq 1 t).
Proof.
  induction t as [|t IH]; intros st pt H; [reflexivity|].
  cbn [rotate_complex_pt].
  assert (C : ((1 <? length pt) && negb (Nat.eqb (S t) (length pt))) = true).
  { apply andb_true_iff. split; [apply Nat.ltb_lt; lia|]. apply negb_true_iff, Nat.eqb_neq. lia. }
  rewrite C. destruct (rotate_pt_step st pt) as [s1 p1] eqn:E.
  assert (L : length p1 = length pt).
  { pose proof (rotate_pt_step_length st pt) as L. rewrite E in L. exact L. }
  rewrite IH by lia. rewrite seq_S. cbn [map]. f_equal.
  { cbn. unfold stepP. cbn [fst snd]. symmetry. exact E. }
  rewrite <- (seq_shift t 1), map_map. apply map_ext. intros j. rewrite iter_succ_r.
  unfold stepP at 3. cbn [fst snd]. rewrite E. reflexivity.
Qed.

Theorem rotate_complex_pt_spec (st : list (list pstr)) pt :
  rotate_complex_pt (length pt) st pt = map (fun j => Nat.iter j stepP (st, pt)) (seq 0 (length pt)).
Proof.
  destruct (length pt) as [|n] eqn:L; [reflexivity|].
  cbn [rotate_complex_pt]. rewrite L, Nat.eqb_refl, andb_false_r.
  rewrite rotate_complex_pt_below by lia. rewrite seq_S. reflexivity.
Qed.

(* the k-th table of the pt family is the table of the (n-k)-th rotation *)
Lemma iter_stepP_tabs x : goodNE x -> forall j, j <= nstr (snd x) ->
  Nat.iter j stepP (tabs x) = tabs (Nat.iter (nstr (snd x) - j) rotT x).
Proof.
  intros GN. pose proof GN as [G N]. induction j as [|j IH]; intros Hj.
  - rewrite Nat.sub_0_r, rotT_orbit by exact G. reflexivity.
  - rewrite iter_S, IH by lia.
    replace (nstr (snd x) - j) with (S (nstr (snd x) - S j)) by lia. rewrite iter_S.
    apply stepP_tabs. apply iter_rotT_goodNE, GN.
Qed.

Definition back (n k : nat) : nat := (n - k) mod n.

Theorem rotate_complex_pt_rotations x : goodNE x ->
  let n := nstr (snd x) in
  rotate_complex_pt n (fst (tabs x)) (snd (tabs x))
  = map (fun k => tabs (Nat.iter (back n k) rotT x)) (seq 0 n).
Proof.
  intros GN n. pose proof GN as [[Ha Hw] N].
  assert (L : length (snd (tabs x)) = n) by (cbn [tabs snd]; apply tabT_length, Hw).
  rewrite <- L at 1. rewrite rotate_complex_pt_spec, L.
  apply map_ext_in. intros k Hk. apply in_seq in Hk.
  match goal with |- Nat.iter k stepP ?p = _ =>
    assert (EP : p = tabs x) by (destruct (tabs x); reflexivity); rewrite EP; clear EP end.
  rewrite iter_stepP_tabs by (exact GN || (fold n; lia)). fold n. unfold back.
  destruct k as [|k].
  - rewrite Nat.sub_0_r, Nat.mod_same by (unfold n, nstr; lia).
    unfold n. rewrite rotT_orbit by (split; assumption). reflexivity.
  - rewrite Nat.mod_small by lia. reflexivity.
Qed.

(* ---- rotate_complex_db without a turn count ---- *)
Lemma goodNE_no_leading_break x : goodNE x -> no_leading_break cP (snd x).
Proof.
  intros [[Ha _] N]. destruct (NE_head _ N) as (a & r & E & Hne). unfold aligned in Ha. rewrite E in Ha.
  destruct (snd x) as [|c s]; [exact I|]. cbn [map] in Ha. injection Ha as H1 _.
  cbn [no_leading_break]. intros ->. rewrite (neq_plus_eqb a Hne) in H1. discriminate.
Qed.

Lemma ptdb_tabT x : goodNE x -> pair_table_to_dot_bracket cP (tabT (snd x)) = snd x.
Proof.
  intros GN. pose proof GN as [[Ha Hw] N].
  destruct (db_roundtrip_chars cP [cD] (snd x)) as (t & E & R).
  - apply brk_ok_P.
  - reflexivity.
  - unfold wf, wfc in Hw. eapply wfc_alphabet, Hw.
  - apply goodNE_no_leading_break, GN.
  - exact Hw.
  - unfold tabT. rewrite E. exact R.
Qed.

Lemma stts_tabs x : goodNE x -> strand_table_to_sequence sPlus (fst (tabs x)) = Ok (fst x).
Proof. intros [_ N]. cbn [tabs fst]. rewrite mst_splitS by exact N. apply stts_splitS. Qed.

Theorem rotate_complex_db_spec sq sst : goodNE (sq, sst) ->
  let n := nstr sst in
  rotate_complex_db sq sst = Ok (map (fun k => Nat.iter (back n k) rotT (sq, sst)) (seq 0 n)).
Proof.
  intros GN n. pose proof GN as [[Ha Hw] N]. cbn [fst snd] in Ha, Hw, N.
  unfold rotate_complex_db. rewrite (tabT_ok _ Hw). cbn [rbind].
  assert (Sh : forallb (fun xy => Nat.eqb (length (fst xy)) (length (snd xy)))
                 (combine (make_strand_table_list sPlus sq) (tabT sst)) = true).
  { apply forallb_lengths. rewrite mst_splitS by exact N.
    destruct (wf_rc sst Hw) as [d ->]. rewrite tabT_rc. apply tab_shape, Ha. }
  rewrite Sh. cbn [negb].
  pose proof (rotate_complex_pt_rotations (sq, sst) GN) as R. cbn zeta in R. cbn [tabs fst snd] in R.
  rewrite (tabT_length _ Hw). fold n. fold n in R. rewrite R.
  assert (GG : forall k, goodNE (Nat.iter (back n k) rotT (sq, sst))) by (intros k; apply iter_rotT_goodNE, GN).
  generalize (seq 0 n). intros ks. induction ks as [|k ks IH]; [reflexivity|].
  cbn [map]. set (y := Nat.iter (back n k) rotT (sq, sst)) in *.
  change (make_strand_table_list sPlus (fst y), tabT (snd y)) with (tabs y).
  destruct (tabs y) as [st pt] eqn:Et.
  assert (E1 : strand_table_to_sequence sPlus st = Ok (fst y)).
  { pose proof (stts_tabs y (GG k)) as H. rewrite Et in H. exact H. }
  assert (E2 : pair_table_to_dot_bracket cP pt = snd y).
  { pose proof (ptdb_tabT y (GG k)) as H. unfold tabs in Et. injection Et as _ <-. exact H. }
  rewrite E1. cbn [rbind]. rewrite IH. cbn [rbind]. rewrite E2. destruct y; reflexivity.
Qed.

(* ---- non-vacuity ---- *)
Example ex_generators :
  let seq := [[97%N]; [98%N]; sPlus; [99%N]; [100%N]; [101%N]; [102%N]; sPlus; [103%N]; [104%N]] in
  let sst := [cO; cO; cP; cO; cC; cC; cD; cP; cC; cD] in          (* "((+()).+)." *)
  goodNE (seq, sst) /\ nstr sst = 3 /\
  (exists l, obj_rotate seq sst None = Ok l /\ length l = 3 /\ nth_error l 0 = Some (seq, sst)) /\
  (exists l, rotate_complex_db seq sst = Ok l /\ length l = 3 /\ nth_error l 0 = Some (seq, sst) /\
             nth_error l 1 = Some (Nat.iter 2 rotT (seq, sst)) /\ nth_error l 1 <> nth_error l 2).
Proof.
  cbn zeta. split.
  - split; [split; reflexivity|]. unfold NE. cbn. repeat constructor; discriminate.
  - split; [reflexivity|]. split.
    + eexists. split; [vm_compute; reflexivity|]. split; reflexivity.
    + eexists. split; [vm_compute; reflexivity|]. repeat split. discriminate.
Qed.

(* the hypotheses of pt_step_inverse_tab on the table of "((+()).+)." *)
Example ex_pt_step :
  let T := [[Some (2, 0); Some (1, 2)]; [Some (1, 1); Some (1, 0); Some (0, 1); None]; [Some (0, 0); None]] in
  let st := [[[97%N]; [98%N]]; [[99%N]; [100%N]; [101%N]; [102%N]]; [[103%N]; [104%N]]] in
  length T = 3 /\ tab_below 3 T /\
  step_tab 3 T = [[Some (0, 1); Some (0, 0); Some (2, 1); None]; [Some (2, 0); None]; [Some (1, 0); Some (0, 2)]] /\
  rotate_pt_step (rot_left st) (step_tab 3 T) = (st, T).
Proof.
  cbn zeta. split; [reflexivity|]. split; [|split; reflexivity].
  unfold tab_below. repeat constructor.
Qed.

(* ---- the constructor accepts every complex of the quantifier ---- *)
Theorem obj_construct_ok sq sst : goodNE (sq, sst) -> obj_construct sq sst = Ok tt.
Proof.
  intros GN. pose proof GN as [[Ha Hw] N]. cbn [fst snd] in *. unfold obj_construct.
  rewrite (aligned_length _ _ Ha), Nat.eqb_refl. cbn [negb].
  rewrite rot_chain_spec by (split; assumption). cbn [rbind].
  pose proof (size_nstr (sq, sst) GN) as SZ. cbn [fst snd] in SZ. rewrite SZ. reflexivity.
Qed.

(* ---- rot_once_pairs read pointwise: a is paired with b in T  iff  rho a is
   paired with rho b in the rotated table, rho = rotate_locus n (-1) ---- *)
Lemma nth_error_rot_left {A} (l : list A) s : s < length l ->
  nth_error (rot_left l) (match s with 0 => length l - 1 | S k => k end) = nth_error l s.
Proof.
  destruct l as [|x r]; cbn [length]; [lia|]. intros H. cbn [rot_left]. destruct s as [|k].
  - replace (S (length r) - 1) with (length r) by lia.
    rewrite nth_error_app2, Nat.sub_diag by lia. reflexivity.
  - cbn [nth_error]. apply nth_error_app1. lia.
Qed.

Theorem relabel_get n T a : length T = n -> fst a < n ->
  get (relabel n (-1) (rot_left T)) (rloc n (-1) a)
  = option_map (rotate_locus n (-1)) (get T a).
Proof.
  intros HL Ha. unfold get, relabel. destruct a as [s j]. cbn [fst snd] in *. unfold tab, row in *.
  unfold rloc. cbn [fst snd]. rewrite (wrap_pred s n Ha). subst n.
  pose proof (nth_error_rot_left T s Ha) as R.
  set (i := match s with 0 => length T - 1 | S k => k end) in *.
  rewrite (nth_error_map (map (rotate_locus (length T) (-1))) i (rot_left T)), R.
  destruct (nth_error T s) as [r|]; cbn [option_map]; [|reflexivity].
  apply nth_error_map.
Qed.

Corollary rot_once_pairs_pointwise seq sst : aligned seq sst -> wf sst ->
  exists seq' sst' T T',
    rotate_complex_once seq sst = Ok (seq', sst') /\
    make_pair_table cP [cD] sst = Ok T /\ make_pair_table cP [cD] sst' = Ok T' /\
    length T' = length T /\
    forall a b, fst a < length T ->
      (get T a = Some (Some b) ->
       get T' (rloc (length T) (-1) a) = Some (Some (rloc (length T) (-1) b))) /\
      (get T a = Some None -> get T' (rloc (length T) (-1) a) = Some None).
Proof.
  intros Ha Hw. destruct (rot_once_pairs_lemma seq sst Ha Hw) as (s' & t' & T & E1 & E2 & E3).
  exists s', t', T, (relabel (length T) (-1) (rot_left T)).
  split; [exact E1|]. split; [exact E2|]. split; [exact E3|].
  split; [rewrite relabel_length, rot_left_length; reflexivity|].
  intros a b Hlt. split; intros G; rewrite relabel_get by (reflexivity || exact Hlt); rewrite G; reflexivity.
Qed.
