(* C15: registries are per class — a call on class c creates objects of class c only and
   touches the counter of class c only; a failing user constructor never creates. *)
From Coq Require Import List NArith ZArith Bool Arith Lia.
From DSD Require Import Base.Str Base.Errors Model.ComplexUtils Model.RegStr Model.Heap Model.Registry
  Proofs.RegHeap Proofs.RegInv Proofs.RegCalls Proofs.RegExt Proofs.RegC04 Proofs.RegStep.
Import ListNotations.

(* what a call on class c may do to the rest *)
Record Only (c : nat) (st s : state) : Prop := mkOnly {
  on_keep : forall i o, hget (heap st) i = Some o -> exists o', hget (heap s) i = Some o' /\ o_cls o' = o_cls o;
  on_new : forall i o, hget (heap s) i = Some o -> length (heap st) <= i -> o_cls o = c;
  on_ids : forall b, b <> c -> cs_id (cget s b) = cs_id (cget st b)
}.

Lemma only_refl c st : Only c st st.
Proof. constructor; eauto. intros i o H Hi. apply hget_lt in H. lia. Qed.

Lemma only_trans c st s1 s2 : Only c st s1 -> Only c s1 s2 -> Only c st s2.
Proof.
  intros [A1 A2 A3] [B1 B2 B3]. constructor.
  - intros i o H. destruct (A1 i o H) as [o1 [H1 E1]]. destruct (B1 i o1 H1) as [o2 [H2 E2]].
    exists o2. split; [exact H2 | congruence].
  - intros i o H Hi. destruct (hget (heap s1) i) as [o1|] eqn:E1.
    + destruct (B1 i o1 E1) as [o2 [H2 E2]]. assert (o2 = o) by congruence. subst o2.
      rewrite E2. apply (A2 i o1 E1 Hi).
    + apply (B2 i o H). destruct (Nat.lt_ge_cases i (length (heap s1))) as [L|L]; [|exact L].
      apply hget_some_iff in L. destruct L as [x Hx]. congruence.
  - intros b Hb. rewrite (B3 b Hb). apply (A3 b Hb).
Qed.

Lemma only_collect c st : Only c st (collect st).
Proof.
  constructor.
  - intros i o H. rewrite heap_collect, hget_sweep, H. cbn. eexists. split; [reflexivity|].
    destruct (kept _ _ i); reflexivity.
  - intros i o H Hi. rewrite heap_collect in H. apply hget_lt in H. rewrite sweep_length in H. lia.
  - intros b _. rewrite cget_collect. reflexivity.
Qed.

Lemma only_same_heap c st s :
  heap s = heap st -> (forall b, b <> c -> cs_id (cget s b) = cs_id (cget st b)) -> Only c st s.
Proof.
  intros Eh Ei. constructor; [|intros i o H Hi; rewrite Eh in H; apply hget_lt in H; lia | exact Ei].
  intros i o H. rewrite Eh. eauto.
Qed.

Lemma only_bump ct c st : Only c st (bump_id ct st c).
Proof.
  unfold bump_id. destruct (class_id ct st c); [|apply only_refl]. apply only_same_heap; [reflexivity|].
  intros b Hb. unfold set_id. rewrite cget_cput_other by congruence. reflexivity.
Qed.

Lemma only_create ct st c auto name k extra children d :
  Only c st (fst (create ct st c auto name k extra children d)).
Proof.
  unfold create. destruct (nth_error ct c) as [ci|]; [|apply only_refl].
  set (st1 := if auto then bump_id ct st c else st).
  assert (O1 : Only c st st1) by (unfold st1; destruct auto; [apply only_bump | apply only_refl]).
  assert (Alloc : forall cls', Only c st1 (mkState (mkObj c name k (k :: extra) true children d :: heap st1) cls' (roots st1)) ->
                  True) by auto.
  destruct (c_fail ci); [|apply only_refl|]; unfold alloc; cbn [fst].
  - eapply only_trans; [exact O1|]. constructor.
    + intros i o H. exists o. split; [apply hget_old_some; exact H | reflexivity].
    + intros i o H Hi. unfold register, cput in H. cbn [heap] in H.
      destruct (Nat.eq_dec i (length (heap st1))) as [->|D]; [rewrite hget_new in H; injection H as <-; reflexivity|].
      rewrite hget_old in H by exact D. apply hget_lt in H. lia.
    + intros b Hb. unfold register. rewrite cget_cput_other by congruence. reflexivity.
  - eapply only_trans; [exact O1|]. eapply only_trans; [|apply only_collect]. constructor.
    + intros i o H. exists o. split; [apply hget_old_some; exact H | reflexivity].
    + intros i o H Hi. unfold register_extra, cput in H. cbn [heap] in H.
      destruct (Nat.eq_dec i (length (heap st1))) as [->|D]; [rewrite hget_new in H; injection H as <-; reflexivity|].
      rewrite hget_old in H by exact D. apply hget_lt in H. lia.
    + intros b Hb. unfold register_extra. rewrite cget_cput_other by congruence. reflexivity.
Qed.

Lemma only_lookup_create ct st c nm k auto extra children d :
  Only c st (fst (match sing_lookup (cget st c) nm (Some k) with
                  | LFound o => (st, CRet o false)
                  | LRaise e => (st, CErr eSingleton e)
                  | LFresh => create ct st c auto nm k extra children d
                  end)).
Proof. destruct (sing_lookup _ _ _); try apply only_refl. apply only_create. Qed.

Definition RecOnly (c : nat) (rec : state -> pstr -> option Z -> state * cout) : Prop :=
  forall st n l, Only c st (fst (rec st n l)).

Lemma only_dom_nested c rec st nm len1 : RecOnly c rec -> Only c st (fst (dom_nested rec st nm len1)).
Proof.
  intros HR. unfold dom_nested.
  assert (T : forall s, Only c st s -> Only c st (collect s)) by (intros s O; eapply only_trans; [exact O | apply only_collect]).
  destruct len1 as [l|], (starred nm); try apply only_refl.
  - pose proof (HR st (cname_of nm) None) as O1.
    destruct (rec st (cname_of nm) None) as [s1 r]. cbn [fst] in O1. destruct r as [o b|k e].
    + destruct (obj_length (heap s1) o); [destruct (Z.eqb a l)|]; cbn [fst]; auto.
    + destruct (is_singleton_err k); cbn [fst]; auto.
  - pose proof (HR st (cname_of nm) None) as O1.
    destruct (rec st (cname_of nm) None) as [s1 r]. cbn [fst] in O1. destruct r as [o b|k e].
    + destruct (obj_length (heap s1) o); cbn [fst]; auto.
      pose proof (HR (collect s1) (cname_of nm) (Some l)) as O2.
      destruct (rec (collect s1) (cname_of nm) (Some l)) as [s2 r2]. cbn [fst] in O2.
      assert (O2' : Only c st s2) by (eapply only_trans; [apply T; exact O1 | exact O2]).
      destruct r2 as [o2 b2|k2 e2]; cbn [fst]; auto.
      destruct (is_singleton_err k2); cbn [fst]; auto. 
    + destruct (is_singleton_err k); cbn [fst]; auto.
  - pose proof (HR st (cname_of nm) None) as O1.
    destruct (rec st (cname_of nm) None) as [s1 r]. cbn [fst] in O1. destruct r as [o b|k e].
    + destruct (obj_length (heap s1) o); cbn [fst]; auto.
    + destruct (is_singleton_err k); cbn [fst]; auto.
Qed.

Lemma only_dom_body ct c rec st name len prefix dtype :
  RecOnly c rec -> Only c st (fst (dom_body rec ct c st name len prefix dtype)).
Proof.
  intros HR. unfold dom_body. destruct (nth_error ct c); [|apply only_refl].
  destruct (resolve_name _ _ _ _ _ _) as [nm|]; [|apply only_refl].
  destruct (dom_len1 _ _ _) as [len1|]; [|apply only_refl]. destruct (negb _); [apply only_refl|].
  pose proof (only_dom_nested c rec st nm len1 HR) as O1.
  destruct (dom_nested rec st nm len1) as [st1 rl]. cbn [fst] in *. destruct rl as [len2|]; [|exact O1].
  eapply only_trans; [exact O1|]. unfold dom_finish. destruct len2 as [l|]; cbn [option_map].
  - apply only_lookup_create.
  - destruct (sing_lookup _ _ _); apply only_refl.
Qed.

Theorem only_dom_call fuel ct c st name len prefix dtype :
  Only c st (fst (dom_call fuel ct c st name len prefix dtype)).
Proof.
  revert st name len prefix dtype. induction fuel as [|f IH]; intros; [apply only_refl|].
  cbn [dom_call]. apply only_dom_body. intros st' n l. apply IH.
Qed.

Theorem only_cplx_call ct c st seq sst name prefix : Only c st (fst (cplx_call ct c st seq sst name prefix)).
Proof.
  unfold cplx_call. destruct (nth_error ct c); [|apply only_refl]. destruct seq as [es|].
  - destruct (resolve_name _ _ _ _ _ _); [|apply only_refl]. destruct sst; [|apply only_refl].
    destruct (negb _); [apply only_refl|]. destruct (Nat.eqb _ 0); [apply only_refl|].
    destruct (rot_loop _ _ _ _ _ _) as [[ex cdict]|]; [|apply only_refl].
    match goal with |- Only _ _ (fst (match ?y with _ => _ end)) => destruct y as [[cn e]|] end; [|apply only_refl].
    apply only_lookup_create.
  - destruct name; [|apply only_refl]. destruct (sing_lookup _ _ _); apply only_refl.
Qed.

Theorem only_strand_call ct c st seq name prefix : Only c st (fst (strand_call ct c st seq name prefix)).
Proof.
  unfold strand_call. destruct (nth_error ct c); [|apply only_refl]. destruct seq as [es|].
  - destruct (existsb _ _); [apply only_refl|]. destruct (resolve_name _ _ _ _ _ _); [|apply only_refl].
    apply only_lookup_create.
  - destruct name; [|apply only_refl]. destruct (sing_lookup _ _ _); apply only_refl.
Qed.

Theorem only_macro_call ct c st members name : Only c st (fst (macro_call ct c st members name)).
Proof.
  unfold macro_call. destruct members as [ms|].
  - destruct (omap' _ ms); [|apply only_refl].
    match goal with |- Only _ _ (fst (match ?y with _ => _ end)) => destruct y as [nm|] end; [|apply only_refl].
    destruct (find _ ms); [apply only_lookup_create | destruct (sing_lookup _ _ _); apply only_refl].
  - destruct name; [|apply only_refl]. destruct (sing_lookup _ _ _); apply only_refl.
Qed.

Theorem only_reaction_call ct c st rp rtype name : Only c st (fst (reaction_call ct c st rp rtype name)).
Proof.
  unfold reaction_call. destruct rp as [[rs ps]|].
  - destruct (omap' _ rs); [|apply only_refl]. destruct (omap' _ ps); [|apply only_refl].
    match goal with |- Only _ _ (fst (if ?b then _ else _)) => destruct b end; [apply only_refl|].
    apply only_lookup_create.
  - destruct name; [|apply only_refl]. destruct rtype; [apply only_refl|].
    destruct (sing_lookup _ _ _); apply only_refl.
Qed.

(* ---- frame: the registries and the counter of every other class are untouched by the call ---- *)
Theorem frame_of ct c st s b :
  Inv ct s -> Ext st s -> Only c st s -> b <> c ->
  cs_names (cget s b) = cs_names (cget st b) /\ cs_canon (cget s b) = cs_canon (cget st b) /\
  cs_id (cget s b) = cs_id (cget st b).
Proof.
  intros [R _] X O Hb. destruct (ex_regs _ _ X b) as [nn [cc [E1 [E2 [F1 F2]]]]].
  assert (NN : nn = [] /\ cc = []).
  { destruct (Nat.lt_ge_cases b (length ct)) as [L|L].
    - pose proof (ok_cls _ _ R b L) as K. split.
      + destruct nn as [|[n i] r]; [reflexivity|]. exfalso.
        destruct (ok_nv _ _ _ K n i) as [o [[Ho _] [Ec _]]]; [rewrite E1; apply in_or_app; right; left; reflexivity|].
        inversion F1 as [|? ? Hi _]; subst. cbn in Hi. pose proof (on_new _ _ _ O i o Ho Hi). congruence.
      + destruct cc as [|[n i] r]; [reflexivity|]. exfalso.
        destruct (ok_cv _ _ _ K n i) as [o [[Ho _] [Ec _]]]; [rewrite E2; apply in_or_app; right; left; reflexivity|].
        inversion F2 as [|? ? Hi _]; subst. cbn in Hi. pose proof (on_new _ _ _ O i o Ho Hi). congruence.
    - assert (D : cget s b = mkCstate [] [] None).
      { unfold cget. apply nth_overflow. rewrite (ok_len _ _ R). exact L. }
      rewrite D in E1, E2. cbn in E1, E2. split.
      + destruct (cs_names (cget st b)); [cbn in E1; congruence | discriminate].
      + destruct (cs_canon (cget st b)); [cbn in E2; congruence | discriminate]. }
  destruct NN as [-> ->]. rewrite app_nil_r in E1, E2. split; [exact E1 | split; [exact E2 | apply (on_ids _ _ _ O b Hb)]].
Qed.

(* after the step: only what died was purged *)
Definition Framed (st st' : state) (b : nat) : Prop :=
  cs_names (cget st' b) = purge (heap st') (cs_names (cget st b)) /\
  cs_canon (cget st' b) = purge (heap st') (cs_canon (cget st b)) /\
  cs_id (cget st' b) = cs_id (cget st b).

Lemma framed_finish ct c st dst r b :
  CallOK ct r -> Ext st (fst r) -> Only c st (fst r) -> b <> c -> Framed st (fst (finish dst r)) b.
Proof.
  intros [I _] X O Hb. destruct (frame_of ct c st (fst r) b I X O Hb) as [E1 [E2 E3]].
  unfold finish. destruct (snd r) as [id bb|k e]; cbn [fst]; unfold Framed; rewrite cget_collect, heap_collect;
    cbn [purge_class cs_names cs_canon cs_id].
  - change (cget (set_root (fst r) dst (Some id)) b) with (cget (fst r) b). rewrite E1, E2, E3. auto.
  - rewrite E1, E2, E3. auto.
Qed.

(* the class an operation addresses *)
Definition op_class (st : state) (o : op) : option nat :=
  match o with
  | ODomain _ c _ _ _ _ | OComplex _ c _ _ _ _ | OStrand _ c _ _ _ | OMacro _ c _ _ | OReaction _ c _ _ _ => Some c
  | OComplement _ src =>
      match get_root st src with
      | Some i => match hget (heap st) i with Some ob => Some (o_cls ob) | None => None end
      | None => None
      end
  | _ => None
  end.

Lemma framed_refl_collected ct st b : Inv ct st -> Collected st -> Framed st st b.
Proof.
  intros I C. unfold Framed, purge. split; [|split; [|reflexivity]]; symmetry; apply filter_all.
  - intros [n i] Hin. cbn. destruct (Nat.lt_ge_cases b (length ct)) as [L|L].
    + destruct (ok_nv _ _ _ (ok_cls _ _ (proj1 I) b L) n i Hin) as [o [Ho _]]. eapply live_obj_is_live; eauto.
    + exfalso. unfold cget in Hin. rewrite nth_overflow in Hin by (rewrite (ok_len _ _ (proj1 I)); exact L). destruct Hin.
  - intros [n i] Hin. cbn. destruct (Nat.lt_ge_cases b (length ct)) as [L|L].
    + destruct (ok_cv _ _ _ (ok_cls _ _ (proj1 I) b L) n i Hin) as [o [Ho _]]. eapply live_obj_is_live; eauto.
    + exfalso. unfold cget in Hin. rewrite nth_overflow in Hin by (rewrite (ok_len _ _ (proj1 I)); exact L). destruct Hin.
Qed.

Theorem frame_step ct st o a b :
  Inv ct st -> Collected st -> op_class st o = Some a -> b <> a -> Framed st (fst (step ct st o)) b.
Proof.
  intros I C Ea Hb. pose proof (proj2 I) as H. destruct o; cbn [op_class] in Ea; try discriminate; cbn [step].
  - injection Ea as ->. destruct (kind_is ct a KindD); [|apply (framed_refl_collected ct); auto].
    apply (framed_finish ct a); auto; [apply callok_dom_call | apply ext_dom_call | apply only_dom_call]; auto.
  - injection Ea as ->. destruct (kind_is ct a KindC); [|apply (framed_refl_collected ct); auto].
    destruct (resolve_elems st seq) as [es|] eqn:E; [|apply (framed_refl_collected ct); auto].
    apply (framed_finish ct a); auto; [apply callok_cplx_call; [exact I | apply (resolve_elems_live st seq es H E)]
                                      | apply ext_cplx_call; auto | apply only_cplx_call].
  - injection Ea as ->. destruct (kind_is ct a KindS); [|apply (framed_refl_collected ct); auto].
    destruct (resolve_elems st seq) as [es|] eqn:E; [|apply (framed_refl_collected ct); auto].
    apply (framed_finish ct a); auto; [apply callok_strand_call; [exact I | apply (resolve_elems_live st seq es H E)]
                                      | apply ext_strand_call; auto | apply only_strand_call].
  - injection Ea as ->. destruct (kind_is ct a KindM) eqn:EK; [|apply (framed_refl_collected ct); auto]. apply kind_is_lt in EK.
    destruct members as [l|].
    + destruct (resolve_slots st l) as [ids|] eqn:E; [|apply (framed_refl_collected ct); auto].
      apply (framed_finish ct a); auto; [|apply ext_macro_call; auto | apply only_macro_call].
      apply callok_macro_call; [exact I | exact EK|]. intros ms x Ems Hx. injection Ems as <-. eapply resolve_slots_live; eauto.
    + apply (framed_finish ct a); auto; [|apply ext_macro_call; auto | apply only_macro_call].
      apply callok_macro_call; [exact I | exact EK | intros ms x Ems; discriminate].
  - injection Ea as ->. destruct (kind_is ct a KindR) eqn:EK; [|apply (framed_refl_collected ct); auto]. apply kind_is_lt in EK.
    destruct rp as [[r p]|].
    + destruct (resolve_slots st r) as [r'|] eqn:E1; [|apply (framed_refl_collected ct); auto].
      destruct (resolve_slots st p) as [p'|] eqn:E2; [|apply (framed_refl_collected ct); auto].
      apply (framed_finish ct a); auto; [|apply ext_reaction_call; auto | apply only_reaction_call].
      apply callok_reaction_call; [exact I | exact EK|]. intros rs ps x Ers Hx. injection Ers as <- <-. apply in_app_or in Hx.
      destruct Hx as [Hx|Hx]; [apply (resolve_slots_live st r r' H E1 x Hx) | apply (resolve_slots_live st p p' H E2 x Hx)].
    + apply (framed_finish ct a); auto; [|apply ext_reaction_call; auto | apply only_reaction_call].
      apply callok_reaction_call; [exact I | exact EK | intros rs ps x Ers; discriminate].
  - destruct (get_root st src) as [i|]; [|discriminate].
    destruct (hget (heap st) i) as [ob|] eqn:Eo; [|discriminate]. injection Ea as <-.
    destruct (o_data ob) eqn:Ed; try (apply (framed_refl_collected ct); auto).
    unfold dom_complement. rewrite Eo, Ed.
    apply (framed_finish ct (o_cls ob)); auto; [apply callok_dom_call | apply ext_dom_call | apply only_dom_call]; auto.
Qed.

(* ---- a failing user constructor never creates ---- *)
Lemma create_created ct st c auto name k extra children d id :
  snd (create ct st c auto name k extra children d) = CRet id true ->
  exists ci, nth_error ct c = Some ci /\ c_fail ci = FNone.
Proof.
  unfold create. destruct (nth_error ct c) as [ci|]; [|discriminate].
  destruct (c_fail ci) eqn:E; unfold alloc; cbn [snd]; try discriminate. eauto.
Qed.

Lemma tail_created ct st c nm k auto extra children d id :
  snd (match sing_lookup (cget st c) nm (Some k) with
       | LFound o => (st, CRet o false)
       | LRaise e => (st, CErr eSingleton e)
       | LFresh => create ct st c auto nm k extra children d
       end) = CRet id true -> exists ci, nth_error ct c = Some ci /\ c_fail ci = FNone.
Proof. destruct (sing_lookup _ _ _); cbn [snd]; try discriminate. apply create_created. Qed.

Lemma tail_only_created st c nm canon id :
  snd (match sing_lookup (cget st c) nm canon with
       | LFound o => (st, CRet o false)
       | LRaise e => (st, CErr eSingleton e)
       | LFresh => (st, CErr eBadRequest None)
       end) = CRet id true -> False.
Proof. destruct (sing_lookup _ _ _); cbn [snd]; discriminate. Qed.

Theorem dom_created fuel ct c st name len prefix dtype id :
  snd (dom_call fuel ct c st name len prefix dtype) = CRet id true ->
  exists ci, nth_error ct c = Some ci /\ c_fail ci = FNone.
Proof.
  destruct fuel as [|f]; [discriminate|]. cbn [dom_call]. unfold dom_body.
  destruct (nth_error ct c) as [ci|] eqn:Ec; [|discriminate]. destruct (resolve_name _ _ _ _ _ _) as [nm|]; [|discriminate].
  destruct (dom_len1 _ _ _) as [len1|]; [|discriminate]. destruct (negb _); [discriminate|].
  destruct (dom_nested _ st nm len1) as [st1 rl]. destruct rl as [len2|]; [|discriminate].
  unfold dom_finish. destruct len2 as [l|]; cbn [option_map].
  - intros H. apply tail_created in H. rewrite Ec in H. exact H.
  - intros H. apply tail_only_created in H. destruct H.
Qed.

Theorem cplx_created ct c st seq sst name prefix id :
  snd (cplx_call ct c st seq sst name prefix) = CRet id true -> exists ci, nth_error ct c = Some ci /\ c_fail ci = FNone.
Proof.
  unfold cplx_call. destruct (nth_error ct c) as [ci|] eqn:Ec; [|discriminate]. destruct seq as [es|].
  - destruct (resolve_name _ _ _ _ _ _); [|discriminate]. destruct sst; [|discriminate].
    destruct (negb _); [discriminate|]. destruct (Nat.eqb _ 0); [discriminate|].
    destruct (rot_loop _ _ _ _ _ _) as [[ex cdict]|]; [|discriminate].
    match goal with |- snd (match ?y with _ => _ end) = _ -> _ => destruct y as [[cn e]|] end; [|discriminate].
    intros H. apply tail_created in H. rewrite Ec in H. exact H.
  - destruct name; [|discriminate]. intros H. apply tail_only_created in H. destruct H.
Qed.

Theorem strand_created ct c st seq name prefix id :
  snd (strand_call ct c st seq name prefix) = CRet id true -> exists ci, nth_error ct c = Some ci /\ c_fail ci = FNone.
Proof.
  unfold strand_call. destruct (nth_error ct c) as [ci|] eqn:Ec; [|discriminate]. destruct seq as [es|].
  - destruct (existsb _ _); [discriminate|]. destruct (resolve_name _ _ _ _ _ _); [|discriminate].
    intros H. apply tail_created in H. rewrite Ec in H. exact H.
  - destruct name; [|discriminate]. intros H. apply tail_only_created in H. destruct H.
Qed.

Theorem macro_created ct c st members name id :
  snd (macro_call ct c st members name) = CRet id true -> exists ci, nth_error ct c = Some ci /\ c_fail ci = FNone.
Proof.
  unfold macro_call. destruct members as [ms|].
  - destruct (omap' _ ms); [|discriminate].
    match goal with |- snd (match ?y with _ => _ end) = _ -> _ => destruct y as [nm|] end; [|discriminate].
    destruct (find _ ms); [apply tail_created | intros H; apply tail_only_created in H; destruct H].
  - destruct name; [|discriminate]. intros H. apply tail_only_created in H. destruct H.
Qed.

Theorem reaction_created ct c st rp rtype name id :
  snd (reaction_call ct c st rp rtype name) = CRet id true -> exists ci, nth_error ct c = Some ci /\ c_fail ci = FNone.
Proof.
  unfold reaction_call. destruct rp as [[rs ps]|].
  - destruct (omap' _ rs); [|discriminate]. destruct (omap' _ ps); [|discriminate].
    match goal with |- snd (if ?b then _ else _) = _ -> _ => destruct b end; [discriminate|]. apply tail_created.
  - destruct name; [|discriminate]. destruct rtype; [discriminate|]. intros H. apply tail_only_created in H. destruct H.
Qed.

Lemma finish_created dst r st' id : finish dst r = (st', Created id) -> snd r = CRet id true.
Proof.
  unfold finish. destruct (snd r) as [i b|k e]; [|discriminate]. destruct b; [|discriminate].
  intros H. injection H as _ <-. reflexivity.
Qed.

(* an operation on a failing class never yields `Created`; when it raises, nothing is left behind *)
Theorem failing_ctor_no_trace ct st o a ci st' out :
  Inv ct st -> Collected st -> op_class st o = Some a -> nth_error ct a = Some ci -> c_fail ci <> FNone ->
  step ct st o = (st', out) ->
  (forall id, out <> Created id) /\ (forall k e, out = Raised k e -> Junk st st').
Proof.
  intros I C Ea Eci Hf E. split; [|intros k e ->; eapply step_raised_junk; eauto].
  intros id ->. assert (X : exists ci', nth_error ct a = Some ci' /\ c_fail ci' = FNone); [|destruct X as [ci' [E1 E2]]; congruence].
  revert E. destruct o; cbn [op_class] in Ea; try discriminate; cbn [step].
  - injection Ea as ->. destruct (kind_is ct a KindD); [|discriminate]. intros E. apply finish_created in E. eapply dom_created; eauto.
  - injection Ea as ->. destruct (kind_is ct a KindC); [|discriminate]. destruct (resolve_elems st seq); [|discriminate].
    intros E. apply finish_created in E. eapply cplx_created; eauto.
  - injection Ea as ->. destruct (kind_is ct a KindS); [|discriminate]. destruct (resolve_elems st seq); [|discriminate].
    intros E. apply finish_created in E. eapply strand_created; eauto.
  - injection Ea as ->. destruct (kind_is ct a KindM); [|discriminate].
    destruct members as [l|]; [destruct (resolve_slots st l); [|discriminate]|];
      intros E; apply finish_created in E; eapply macro_created; eauto.
  - injection Ea as ->. destruct (kind_is ct a KindR); [|discriminate]. destruct rp as [[r p]|].
    + destruct (resolve_slots st r); [|discriminate]. destruct (resolve_slots st p); [|discriminate].
      intros E; apply finish_created in E; eapply reaction_created; eauto.
    + intros E; apply finish_created in E; eapply reaction_created; eauto.
  - destruct (get_root st src) as [i|]; [|discriminate]. destruct (hget (heap st) i) as [ob|] eqn:Eo; [|discriminate].
    injection Ea as <-. destruct (o_data ob) eqn:Ed; try discriminate. unfold dom_complement. rewrite Eo, Ed.
    intros E. apply finish_created in E. eapply dom_created; eauto.
Qed.
