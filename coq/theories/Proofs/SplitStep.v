(* C09: one step of split_complex_pt on the table of a disconnected tree:
   the scan finds strands i..j between two breaks of one loop (first repeated
   break loop), the spliced block is the table of the forest M between the two
   breaks (connected), the rest is the table of the tree Q without that block. *)
From Coq Require Import List Arith Lia Bool NArith.
From DSD Require Import Base.Str Base.Errors Model.ComplexUtils Dyck.Dyck
  Proofs.Mpt Proofs.Db Proofs.Assoc Proofs.Loops Proofs.LoopsConn Proofs.Split Proofs.SplitCut.
Import ListNotations.

(* ------------------------------------------------------------------ *)
(* rows of an entry list                                                *)

Definition rows (es : list entry) : tab := fst (rowsF es) :: snd (rowsF es).

Lemma tab_of_rows d : tab_of d = rows (ents d (0, 0)).
Proof. apply tab_of_rowsF. Qed.

Lemma rows_app_EB E1 E2 : rows (E1 ++ EB :: E2) = rows E1 ++ rows E2.
Proof.
  unfold rows. induction E1 as [|[|v] r IH]; cbn [app rowsF fst snd].
  - reflexivity.
  - injection IH as H1 H2. rewrite H1, H2. reflexivity.
  - injection IH as H1 H2. rewrite H1, H2. reflexivity.
Qed.

Lemma rows_length es : length (rows es) = S (nEB es).
Proof. unfold rows, nEB. cbn [length]. rewrite rowsF_len. reflexivity. Qed.

Lemma rows_map g es : map (map (option_map g)) (rows es) = rows (map (emap g) es).
Proof.
  unfold rows. induction es as [|[|[v|]] r IH]; cbn [map rowsF fst snd emap option_map] in *.
  - reflexivity.
  - injection IH as H1 H2. rewrite H1, H2. reflexivity.
  - injection IH as H1 H2. rewrite H1, H2. reflexivity.
  - injection IH as H1 H2. rewrite H1, H2. reflexivity.
Qed.

Lemma emap_id (f : loc -> loc) es : (forall v, f v = v) -> map (emap f) es = es.
Proof. intros H. apply emap_id_ext. intros v _. apply H. Qed.

Lemma emap_ext (f g : loc -> loc) es : (forall v, f v = g v) -> map (emap f) es = map (emap g) es.
Proof. intros H. apply map_ext. intros [|[v|]]; cbn [emap]; [reflexivity| |reflexivity]. rewrite H. reflexivity. Qed.

Lemma skipn_app_len {A} (a b : list A) n : length a = n -> skipn n (a ++ b) = b.
Proof. intros <-. rewrite skipn_app, skipn_all, Nat.sub_diag. reflexivity. Qed.

Lemma firstn_app_len {A} (a b : list A) n : length a = n -> firstn n (a ++ b) = a.
Proof. intros <-. rewrite firstn_app, firstn_all, Nat.sub_diag. cbn. apply app_nil_r. Qed.

(* ------------------------------------------------------------------ *)
(* splice at a cut (block not first)                                    *)

Lemma splice_cutm {A} (stab : list (list A)) d a b M Q :
  cutm d a b = Some (M, Q) -> a < b ->
  splice stab (tab_of d) (S a) b =
  ((slice stab (S a) (S b), tab_of M), (firstn (S a) stab ++ skipn (S b) stab, tab_of Q)) /\
  slice (tab_of d) (S a) (S b) = map (map (option_map (up (S a)))) (tab_of M).
Proof.
  intros H Hab.
  destruct (cutm_bound _ _ _ _ _ H Hab) as (Hb & _ & _).
  destruct (cutm_ents d a b M Q (0, 0) H Hab) as (E1 & E2 & H1 & H2 & H3 & _). cbn [fst Nat.add] in *.
  set (w := S (nbreaks M)) in *.
  assert (HT : tab_of d = rows E1 ++ rows (ents M (S a, 0)) ++ rows E2).
  { rewrite tab_of_rows, H1, rows_app_EB, rows_app_EB. reflexivity. }
  assert (L1 : length (rows E1) = S a) by (rewrite rows_length, H2; reflexivity).
  assert (LM : length (rows (ents M (S a, 0))) = S b - S a).
  { rewrite rows_length, nEB_ents. lia. }
  assert (Hin : slice (tab_of d) (S a) (S b) = rows (ents M (S a, 0))).
  { unfold slice. rewrite HT, (skipn_app_len _ _ _ L1). apply firstn_app_len, LM. }
  assert (Hout : firstn (S a) (tab_of d) ++ skipn (S b) (tab_of d) = rows (E1 ++ EB :: E2)).
  { rewrite HT, (firstn_app_len _ _ _ L1), rows_app_EB. f_equal.
    rewrite app_assoc. apply skipn_app_len. rewrite app_length, L1, LM. lia. }
  destruct (ents_up M (S a) (0, 0)) as [HU _]. cbn [fst snd Nat.add] in HU.
  split.
  - unfold splice. rewrite Hin, Hout. f_equal; f_equal.
    + rewrite rows_map, HU, emap_emap, emap_id; [symmetry; apply tab_of_rows|].
      intros [s c]. unfold up. cbn [fst snd]. f_equal. lia.
    + rewrite rows_map, tab_of_rows, H3. f_equal. apply emap_ext.
      intros [s c]. unfold fcut. cbn [fst snd]. replace (S b - S a) with w by (unfold w; lia).
      destruct (s <? S a); reflexivity.
  - rewrite Hin, HU, <- rows_map, <- tab_of_rows. reflexivity.
Qed.

(* splice at the first top-level break (block first) *)
Lemma splice_take {A} (stab : list (list A)) d j M R :
  take_until d j = Some (M, R) ->
  splice stab (tab_of d) 0 j =
  ((slice stab 0 (S j), tab_of M), (firstn 0 stab ++ skipn (S j) stab, tab_of R)) /\
  slice (tab_of d) 0 (S j) = tab_of M /\
  skipn (S j) (tab_of d) = map (map (option_map (up (S j)))) (tab_of R).
Proof.
  intros H. destruct (take_until_spec _ _ _ _ H) as [-> Hn].
  assert (HT : tab_of (dapp M (DB R)) = tab_of M ++ rows (ents R (S j, 0))).
  { rewrite !tab_of_rows, ents_dapp. cbn [ents]. rewrite rows_app_EB.
    pose proof (adv_fst M (0, 0)) as Ha. cbn [fst] in Ha. rewrite Ha, Hn. reflexivity. }
  assert (LM : length (tab_of M) = S j) by (rewrite tab_of_length, Hn; reflexivity).
  assert (Hin : slice (tab_of (dapp M (DB R))) 0 (S j) = tab_of M).
  { unfold slice. cbn [skipn]. rewrite Nat.sub_0_r, HT. apply firstn_app_len, LM. }
  assert (Hout : skipn (S j) (tab_of (dapp M (DB R))) = rows (ents R (S j, 0))).
  { rewrite HT. apply skipn_app_len, LM. }
  destruct (ents_up R (S j) (0, 0)) as [HU _]. cbn [fst snd Nat.add] in HU.
  split; [|split].
  - unfold splice. cbn [firstn app]. rewrite Hin, Hout. f_equal; f_equal.
    + rewrite <- (map_id (tab_of M)) at 2. apply map_ext. intros r.
      rewrite <- (map_id r) at 2. apply map_ext. intros [[s c]|]; cbn [option_map fst snd]; [|reflexivity].
      rewrite Nat.sub_0_r. reflexivity.
    + rewrite rows_map, HU, emap_emap, emap_id; [symmetry; apply tab_of_rows|].
      intros [s c]. unfold up. cbn [fst snd Nat.ltb Nat.leb]. f_equal. lia.
  - exact Hin.
  - rewrite Hout, HU, <- rows_map, <- tab_of_rows. reflexivity.
Qed.

(* ------------------------------------------------------------------ *)
(* what the scan returns                                                *)

Definition seen_inv (seen : list (nat * nat)) (pre : list nat) : Prop :=
  forall x v, lookup x seen = Some v <-> nth_error (0 :: pre) v = Some x.

Lemma seen_inv_start : seen_inv [(0, 0)] [].
Proof.
  intros x v. cbn [lookup]. destruct (x =? 0) eqn:E.
  - apply Nat.eqb_eq in E. subst x. split.
    + intros H; injection H as <-. reflexivity.
    + intros H. destruct v as [|v]; [reflexivity|destruct v; discriminate].
  - apply Nat.eqb_neq in E. split; [discriminate|].
    intros H. destruct v as [|v]; [injection H as H; congruence|destruct v; discriminate].
Qed.

Lemma seen_inv_fr seen pre : seen_inv seen pre -> lookup (last pre 0) seen = Some (length pre).
Proof.
  intros Hinv. apply Hinv. destruct pre as [|x pre] using rev_ind; [reflexivity|].
  rewrite last_last, app_length. cbn [length]. rewrite Nat.add_1_r. cbn [nth_error].
  rewrite nth_error_app2 by lia. rewrite Nat.sub_diag. reflexivity.
Qed.

Lemma seen_inv_new seen pre t : seen_inv seen pre -> lookup t seen = None -> ~ In t (0 :: pre).
Proof.
  intros Hinv Ht Hin. apply In_nth_error in Hin. destruct Hin as [v Hv]. apply Hinv in Hv. congruence.
Qed.

Lemma seen_inv_step seen pre t :
  seen_inv seen pre -> ~ In t (0 :: pre) ->
  seen_inv ((t, S (length pre)) :: seen) (pre ++ [t]).
Proof.
  intros Hinv Hnew x v. cbn [lookup]. destruct (x =? t) eqn:E.
  - apply Nat.eqb_eq in E. subst x. split.
    + intros Hv; injection Hv as <-. cbn [nth_error]. rewrite nth_error_app2 by lia.
      rewrite Nat.sub_diag. reflexivity.
    + intros Hv. f_equal.
      destruct (Nat.lt_trichotomy v (S (length pre))) as [Hlt|[Heq|Hgt]].
      * exfalso. apply Hnew. change (0 :: pre ++ [t]) with ((0 :: pre) ++ [t]) in Hv.
        rewrite nth_error_app1 in Hv by (cbn [length]; lia). eapply nth_error_In, Hv.
      * symmetry. exact Heq.
      * exfalso. assert (Hs : nth_error (0 :: pre ++ [t]) v <> None) by congruence.
        apply nth_error_Some in Hs. cbn [length] in Hs. rewrite app_length in Hs. cbn in Hs. lia.
  - apply Nat.eqb_neq in E. rewrite (Hinv x v). change (0 :: pre ++ [t]) with ((0 :: pre) ++ [t]).
    split.
    + intros Hv. rewrite nth_error_app1; [exact Hv|]. apply nth_error_Some. congruence.
    + intros Hv. destruct (Nat.lt_ge_cases v (length (0 :: pre))) as [Hlt|Hge].
      * rewrite nth_error_app1 in Hv by exact Hlt. exact Hv.
      * rewrite nth_error_app2 in Hv by exact Hge.
        destruct (v - length (0 :: pre)) as [|k]; cbn in Hv; [congruence|destruct k; discriminate].
Qed.

Lemma NoDup_snoc pre t : NoDup (0 :: pre) -> ~ In t (0 :: pre) -> NoDup (0 :: pre ++ [t]).
Proof.
  intros Hnd Hnew. change (0 :: pre ++ [t]) with ((0 :: pre) ++ [t]).
  apply NoDup_app_intro; [exact Hnd|repeat constructor; intros []|].
  intros x Hx [<-|[]]. contradiction.
Qed.

Lemma scan_splice_spec suf : forall pre seen fr n i j,
  seen_inv seen pre -> NoDup (0 :: pre) -> fr = last pre 0 ->
  length pre + length suf = n ->
  split_scan n seen (length pre) (chain fr suf) = SSplice i j ->
  exists mid t rest,
    suf = mid ++ t :: rest /\ rest <> [] /\ j = length pre + length mid /\
    NoDup (0 :: pre ++ mid) /\ nth_error (0 :: pre ++ mid) i = Some t.
Proof.
  induction suf as [|t' suf IH]; intros pre seen fr n i j Hinv Hnd Hfr Hn H; cbn [chain split_scan] in H; [discriminate|].
  subst fr. rewrite (seen_inv_fr _ _ Hinv), Nat.eqb_refl in H. cbn [negb] in H. cbn [length] in Hn.
  destruct (length pre =? n - 1) eqn:En.
  - destruct (lookup t' seen); discriminate.
  - apply Nat.eqb_neq in En.
    destruct (lookup t' seen) as [i'|] eqn:Et.
    + injection H as <- <-. exists [], t', suf. rewrite app_nil_r. cbn [app length].
      split; [reflexivity|]. split; [destruct suf; [cbn in Hn; lia|discriminate]|].
      split; [lia|]. split; [exact Hnd|]. apply Hinv, Et.
    + pose proof (seen_inv_new _ _ _ Hinv Et) as Hnew.
      destruct (IH (pre ++ [t']) ((t', S (length pre)) :: seen) t' n i j) as (mid & t & rest & E1 & E2 & E3 & E4 & E5).
      * apply seen_inv_step; assumption.
      * apply NoDup_snoc; assumption.
      * rewrite last_last. reflexivity.
      * rewrite app_length. cbn [length]. lia.
      * rewrite app_length. cbn [length]. rewrite Nat.add_1_r. exact H.
      * exists (t' :: mid), t, rest. rewrite app_length in E3. cbn [length] in E3.
        rewrite <- app_assoc in E4, E5. cbn [app] in E4, E5.
        split; [cbn [app]; f_equal; exact E1|]. split; [exact E2|]. split; [cbn [length]; lia|].
        split; [exact E4|exact E5].
Qed.

(* on a list of break loops ending with loop 0 the scan never fails: it yields
   (all loops distinct) or splices *)
Lemma scan_total suf : forall pre seen fr n,
  seen_inv seen pre -> NoDup (0 :: pre) -> fr = last pre 0 ->
  length pre + length suf = n -> suf <> [] -> last suf 1 = 0 ->
  (split_scan n seen (length pre) (chain fr suf) = SYield /\ NoDup (0 :: pre ++ removelast suf)) \/
  (exists i j, split_scan n seen (length pre) (chain fr suf) = SSplice i j).
Proof.
  induction suf as [|t' suf IH]; intros pre seen fr n Hinv Hnd Hfr Hn Hne Hlast; [congruence|].
  cbn [chain split_scan]. subst fr. rewrite (seen_inv_fr _ _ Hinv), Nat.eqb_refl. cbn [negb]. cbn [length] in Hn.
  destruct suf as [|t2 suf].
  - cbn in Hlast. subst t'. replace (length pre =? n - 1) with true by (symmetry; apply Nat.eqb_eq; cbn in Hn; lia).
    assert (H0 : lookup 0 seen = Some 0) by (apply Hinv; reflexivity).
    rewrite H0. left. split; [reflexivity|]. cbn [removelast]. rewrite app_nil_r. exact Hnd.
  - replace (length pre =? n - 1) with false by (symmetry; apply Nat.eqb_neq; cbn [length] in Hn; lia).
    destruct (lookup t' seen) as [i'|] eqn:Et; [right; eauto|].
    pose proof (seen_inv_new _ _ _ Hinv Et) as Hnew.
    destruct (IH (pre ++ [t']) ((t', S (length pre)) :: seen) t' n) as [[H1 H2]|H].
    + apply seen_inv_step; assumption.
    + apply NoDup_snoc; assumption.
    + rewrite last_last. reflexivity.
    + rewrite app_length. cbn [length] in *. lia.
    + discriminate.
    + exact Hlast.
    + left. rewrite app_length in H1. cbn [length] in H1. rewrite Nat.add_1_r in H1.
      split; [exact H1|]. rewrite <- app_assoc in H2. exact H2.
    + right. rewrite app_length in H. cbn [length] in H. rewrite Nat.add_1_r in H. exact H.
Qed.

(* ------------------------------------------------------------------ *)
(* break loops of a forest on its own                                   *)

Definition relab (cl nl x : nat) : nat := if x =? 0 then cl else x + nl.

Lemma bl_relab d : forall cl nl, bl d cl nl = map (relab cl nl) (bl d 0 0).
Proof.
  induction d as [|r IH|r IH|i IHi r IHr]; intros cl nl; cbn [bl map].
  - reflexivity.
  - apply IH.
  - rewrite (IH cl nl). reflexivity.
  - rewrite map_app. f_equal.
    + rewrite (IHi (S nl) (S nl)), (IHi 1 1), map_map. apply map_ext.
      intros x. unfold relab. destruct (x =? 0) eqn:E; cbn [Nat.eqb]; [lia|].
      replace (x + 1 =? 0) with false by (symmetry; apply Nat.eqb_neq; lia). lia.
    + rewrite (IHr cl (S nl + npairs i)), (IHr 0 (1 + npairs i)), map_map. apply map_ext.
      intros x. unfold relab. destruct (x =? 0) eqn:E; cbn [Nat.eqb]; [reflexivity|].
      replace (x + (1 + npairs i) =? 0) with false by (symmetry; apply Nat.eqb_neq; lia). lia.
Qed.

Lemma NoDup_map_inv' {A B} (f : A -> B) l : NoDup (map f l) -> NoDup l.
Proof.
  induction l as [|x l IH]; cbn [map]; intros H; [constructor|].
  inversion H as [|? ? Hx Hn]; subst. constructor; [|apply IH, Hn].
  intros Hin. apply Hx. apply in_map, Hin.
Qed.

Lemma ends_of_segment M cl nl :
  NoDup (bl M cl nl) -> ~ In cl (bl M cl nl) -> NoDup (ends M).
Proof.
  intros Hnd Hcl. rewrite bl_relab in Hnd, Hcl. unfold ends.
  apply NoDup_app_intro.
  - eapply NoDup_map_inv', Hnd.
  - repeat constructor. intros [].
  - intros x Hx [<-|[]]. apply Hcl. apply in_map_iff. exists 0. split; [reflexivity|exact Hx].
Qed.

Lemma bl_dapp a b : forall cl nl, bl (dapp a b) cl nl = bl a cl nl ++ bl b cl (nl + npairs a).
Proof.
  induction a as [|r IH|r IH|i _ r IH]; intros cl nl; cbn [dapp bl npairs app].
  - rewrite Nat.add_0_r. reflexivity.
  - apply IH.
  - rewrite IH. reflexivity.
  - rewrite IH, <- app_assoc. do 3 f_equal. lia.
Qed.

(* the break loops around a cut *)
Lemma cutm_bl d : forall a b M Q cl nl,
  cutm d a b = Some (M, Q) -> a < b ->
  exists cl' nl' B1 B2,
    bl d cl nl = B1 ++ cl' :: bl M cl' nl' ++ cl' :: B2 /\ length B1 = a.
Proof.
  induction d as [|r IH|r IH|i IHi r IHr]; intros a b M Q cl nl H Hab; cbn [cutm] in H.
  - discriminate.
  - destruct (cutm r a b) as [[M' Q']|] eqn:E; [|discriminate]. injection H as <- <-.
    cbn [bl]. eapply IH; eauto.
  - destruct a as [|a].
    + destruct (take_until r (b - 1)) as [[M' R']|] eqn:E; [|discriminate]. injection H as <- <-.
      destruct (take_until_spec _ _ _ _ E) as [-> _]. cbn [bl]. rewrite bl_dapp. cbn [bl].
      exists cl, nl, [], (bl R' cl (nl + npairs M')). split; reflexivity.
    + destruct (cutm r a (b - 1)) as [[M' Q']|] eqn:E; [|discriminate]. injection H as <- <-.
      destruct (IH a (b - 1) M' Q' cl nl E ltac:(lia)) as (cl' & nl' & B1 & B2 & H1 & H2).
      cbn [bl]. exists cl', nl', (cl :: B1), B2. rewrite H1. split; [reflexivity|cbn [length]; lia].
  - destruct (a <? nbreaks i) eqn:Ea.
    + destruct (cutm i a b) as [[M' Q']|] eqn:E; [|discriminate]. injection H as <- <-.
      destruct (IHi a b M' Q' (S nl) (S nl) E Hab) as (cl' & nl' & B1 & B2 & H1 & H2).
      cbn [bl]. exists cl', nl', B1, (B2 ++ bl r cl (S nl + npairs i)). rewrite H1.
      split; [|exact H2]. rewrite <- app_assoc. cbn [app]. rewrite <- app_assoc. reflexivity.
    + apply Nat.ltb_ge in Ea.
      destruct (cutm r (a - nbreaks i) (b - nbreaks i)) as [[M' Q']|] eqn:E; [|discriminate]. injection H as <- <-.
      destruct (IHr (a - nbreaks i) (b - nbreaks i) M' Q' cl (S nl + npairs i) E ltac:(lia)) as (cl' & nl' & B1 & B2 & H1 & H2).
      cbn [bl]. exists cl', nl', (bl i (S nl) (S nl) ++ B1), B2. rewrite H1.
      split; [rewrite <- app_assoc; reflexivity|]. rewrite app_length, bl_length. lia.
Qed.

(* ------------------------------------------------------------------ *)
(* the step                                                             *)

Inductive step_result (d : dyck) (i j : nat) (M Q : dyck) : Prop :=
| StepFirst : i = 0 -> take_until d j = Some (M, Q) -> step_result d i j M Q
| StepInner a : i = S a -> a < j -> cutm d a j = Some (M, Q) -> step_result d i j M Q.

Theorem split_step d :
  ~ NoDup (ends d) ->
  exists i j M Q,
    split_scan (length (chain 0 (ends d))) [(0, 0)] 0 (chain 0 (ends d)) = SSplice i j /\
    step_result d i j M Q /\ NoDup (ends M).
Proof.
  intros Hnd.
  assert (Hlen : 0 + length (ends d) = length (chain 0 (ends d))) by (rewrite chain_length; reflexivity).
  assert (Hne : ends d <> []) by (unfold ends; destruct (bl d 0 0); discriminate).
  assert (Hlast : last (ends d) 1 = 0) by (unfold ends; apply last_last).
  destruct (scan_total (ends d) [] [(0, 0)] 0 _ seen_inv_start ltac:(repeat constructor; intros []) eq_refl Hlen Hne Hlast)
    as [[_ Hy]|(i & j & Hs)].
  { exfalso. apply Hnd. cbn [app] in Hy. unfold ends in *. rewrite removelast_last in Hy.
    inversion Hy as [|? ? H0 Hn]; subst.
    apply NoDup_app_intro; [exact Hn|repeat constructor; intros []|]. intros x Hx [<-|[]]. contradiction. }
  destruct (scan_splice_spec (ends d) [] [(0, 0)] 0 _ i j seen_inv_start ltac:(repeat constructor; intros []) eq_refl Hlen Hs)
    as (mid & t & rest & E1 & E2 & E3 & E4 & E5).
  cbn [app length Nat.add] in *.
  (* t is a break loop of d, the j-th one *)
  assert (Hbl : exists rest', bl d 0 0 = mid ++ t :: rest').
  { unfold ends in E1. destruct rest as [|x rest] using rev_ind; [congruence|].
    exists rest. rewrite app_comm_cons, app_assoc in E1. apply app_inj_tail in E1. tauto. }
  destruct Hbl as [rest' Hbl].
  assert (Hj : nth_error (bl d 0 0) j = Some t).
  { rewrite Hbl, E3, nth_error_app2, Nat.sub_diag by lia. reflexivity. }
  assert (Hmid : forall c, c < j -> nth_error (bl d 0 0) c = nth_error mid c).
  { intros c Hc. rewrite Hbl. apply nth_error_app1. lia. }
  inversion E4 as [|? ? H0 Hnm]; subst.
  exists i, (length mid).
  destruct i as [|a].
  - (* the block is first: t = 0 *)
    cbn [nth_error] in E5. injection E5 as <-.
    destruct (take_until_ex d 0 0 (length mid) (le_n _) Hj) as (M & R & ET).
    { intros c Hc H. rewrite (Hmid c Hc) in H. apply H0. eapply nth_error_In, H. }
    exists M, R. split; [exact Hs|]. split; [apply StepFirst; [reflexivity|exact ET]|].
    destruct (take_until_spec _ _ _ _ ET) as [Hd HnM]. rewrite Hd, bl_dapp in Hbl. cbn [bl] in Hbl.
    assert (Hm : mid = bl M 0 0).
    { apply (f_equal (firstn (length mid))) in Hbl.
      rewrite firstn_app_len in Hbl by (rewrite bl_length; exact HnM).
      rewrite firstn_app_len in Hbl by reflexivity. symmetry. exact Hbl. }
    unfold ends. rewrite <- Hm. apply NoDup_app_intro; [exact Hnm|repeat constructor; intros []|].
    intros x Hx [<-|[]]. contradiction.
  - (* breaks a and j lie in the same loop t *)
    cbn [nth_error] in E5.
    assert (Haj : a < length mid) by (apply nth_error_Some; congruence).
    assert (Ha : nth_error (bl d 0 0) a = Some t) by (rewrite (Hmid a Haj); exact E5).
    destruct (cutm_ex d 0 0 a (length mid) t (le_n _) Haj Ha Hj) as (M & Q & EC).
    { intros c [Hc1 Hc2] H. rewrite (Hmid c Hc2) in H.
      (* two occurrences of t in mid *)
      clear - Hnm E5 H Hc1. revert a c E5 H Hc1. induction mid as [|x mid IH]; intros a c E5 H Hc1; [destruct a; discriminate|].
      inversion Hnm as [|? ? Hx Hn]; subst. destruct c as [|c]; [lia|]. cbn [nth_error] in H.
      destruct a as [|a]; cbn [nth_error] in E5.
      - injection E5 as ->. apply Hx. eapply nth_error_In, H.
      - eapply (IH Hn a c); eauto. lia. }
    exists M, Q. split; [exact Hs|]. split; [eapply StepInner; eauto|].
    destruct (cutm_bound _ _ _ _ _ EC Haj) as (Hb1 & _ & _).
    destruct (cutm_bl d a (length mid) M Q 0 0 EC Haj) as (cl' & nl' & B1 & B2 & HB & HL).
    (* mid = B1 ++ cl' :: bl M cl' nl' *)
    assert (Hm : mid = B1 ++ cl' :: bl M cl' nl').
    { rewrite HB in Hbl. apply (f_equal (firstn (length mid))) in Hbl.
      rewrite (firstn_app_len mid) in Hbl by reflexivity.
      replace (B1 ++ cl' :: bl M cl' nl' ++ cl' :: B2) with ((B1 ++ cl' :: bl M cl' nl') ++ cl' :: B2) in Hbl
        by (rewrite <- app_assoc; reflexivity).
      rewrite firstn_app_len in Hbl; [symmetry; exact Hbl|].
      rewrite app_length. cbn [length]. rewrite bl_length. lia. }
    rewrite Hm in Hnm. apply NoDup_app_inv in Hnm. destruct Hnm as (_ & Hn2 & _).
    inversion Hn2 as [|? ? Hc Hn3]; subst. eapply ends_of_segment; eauto.
Qed.
