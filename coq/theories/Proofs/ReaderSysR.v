(* Reader model, C14: reading in a session that already holds objects.
   Part 3: re-declared macrostates and reactions are found. *)
From Coq Require Import List NArith ZArith Bool Arith Lia Permutation.
From DSD Require Import Base.Str Base.Errors Model.ComplexUtils Model.RegStr Model.ReaderStr Model.PyNum
  Model.Peg Model.Kernel Model.DispatchKernel Model.Heap Model.Registry Model.Reader Model.ReaderShape Model.ReaderConsistent
  Proofs.RegHeap Proofs.RegInv Proofs.RegCalls Proofs.RegExt Proofs.ReaderBasic Proofs.ReaderStmt Proofs.ReaderHeap
  Proofs.ReaderInv Proofs.ReaderHoare Proofs.ReaderNoFault Proofs.ReaderThms Proofs.ReaderBuilds Proofs.ReaderKernel
  Proofs.ReaderMore Proofs.ReaderSys Proofs.ReaderSysA Proofs.ReaderSysB Proofs.ReaderSysC Proofs.ReaderSysD
  Proofs.ReaderSysE Proofs.ReaderSysF Proofs.ReaderSysS Proofs.ReaderSysX Proofs.ReaderSysY Proofs.ReaderSysG
  Proofs.ReaderSysH Proofs.ReaderSysI Proofs.ReaderSysP Proofs.ReaderSysQ.
From DSD Require Model.Iupac.
Import ListNotations.

Lemma forall2_fun_eq {A B} (R R' : A -> B -> Prop) xs ys ys' :
  Forall2 R xs ys -> Forall2 R' xs ys' -> (forall x y y', R x y -> R' x y' -> y = y') -> ys = ys'.
Proof.
  intros F. revert ys'. induction F as [|x y xs ys H F IH]; intros ys' F' Hf; inversion F'; subst; [reflexivity|].
  f_equal; [eapply Hf; eauto | apply IH; assumption].
Qed.

Lemma forall2_in_l {A B} (R : A -> B -> Prop) xs ys x : Forall2 R xs ys -> In x xs -> exists y, In y ys /\ R x y.
Proof.
  induction 1 as [|x0 y0 xs ys H F IH]; intros Hin; [destruct Hin|].
  destruct Hin as [<-|Hin]; [exists y0; split; [left; reflexivity | exact H]|].
  destruct (IH Hin) as [y [H1 H2]]. exists y. split; [right; exact H1 | exact H2].
Qed.

Section FoundMR.
  Variable ct : ctable.
  Variables cd cs cc cm cr : nat.
  Hypothesis CO : cfg_okb ct cd cs cc cm cr = true.
  Hypothesis PL : forall c, In c [cd; cs; cc; cm; cr] -> exists ci, nth_error ct c = Some ci /\ c_fail ci = FNone.
  Notation G := (g cd cs cc cm cr).
  Notation cls_of := (cls_of cd cs cc cm cr).
  Notation Core := (Core cd cs cc cm cr ct).
  Notation SInv := (SInv cd cs cc cm cr ct).
  Notation Built := (Built cd cs cc cm cr).
  Notation BuiltRxn := (BuiltRxn cr).
  Notation CplxReg := (CplxReg cc).

  Theorem found_macro world r acc line n xs :
    SInv world r acc -> decode line = Ok (SMac n xs) -> In (SMac n xs) world -> In n xs ->
    exists i, dlookup n (po_macrostates acc) = Some i /\ is_live (heap (r_st r)) i = true /\
      forall accR, read_one ct G None (TList line) accR r =
        (mkR (holds (r_st r) [i]) (r_seq r) (r_conc r) (r_rate r), Ok (apply_delta (FKind KindM n i) accR)).
  Proof.
    intros SI Hdec Hw Hin. pose proof SI as [C B]. pose proof (si_sok _ _ _ _ _ _ _ _ _ C) as OK. pose proof (proj1 OK) as I.
    set (st := r_st r). set (h := heap st).
    destruct (B _ Hw) as [i [mks0 [rep [D1 [Hne [F0 Hh]]]]]]. fold st in Hh, F0. fold h in Hh, F0.
    assert (Li : is_live h i = true) by (unfold is_live; rewrite Hh; reflexivity).
    exists i. split; [exact D1|]. split; [exact Li|]. intros accR.
    assert (Hxs : Forall (fun x => In x (map fst (decl_cplx world))) xs).
    { apply Forall_forall. intros x Hx. destruct (forall2_in_l _ _ _ x F0 Hx) as [mk [_ [H1 _]]].
      apply (si_keys _ _ _ _ _ _ _ _ _ C KindC). eapply dlookup_in_keys; eauto. }
    destruct (members_facts ct cd cs cc cm cr world r acc xs SI Hxs) as [mks F]. fold st in F. fold h in F.
    assert (Emk : mks = mks0).
    { eapply forall2_fun_eq; [exact F | exact F0|]. cbn. intros x [a1 k1] [a2 k2] [A1 [A2 _]] [B1 B2]. cbn [fst snd] in *.
      rewrite A1 in B1. injection B1 as <-. rewrite A2 in B2. injection B2 as <-. reflexivity. }
    subst mks0.
    set (ids := map fst mks) in *.
    assert (F1 : Forall2 (CplxReg (r_st r)) xs ids).
    { unfold ids. clear -F. induction F as [|x mk xs mks H F IH]; cbn [map]; constructor; [tauto | exact IH]. }
    destruct (mapM_lookup ct (complex_by_name ct G) CplxReg (fun st j x i H => H) (cbn_exact ct cd cs cc cm cr PL) xs ids r OK F1) as [Em Lv].
    fold st in Em.
    assert (Eom : omap' (fun j => option_map (fun k => (j, k)) (member_ckey h j)) ids = Some mks).
    { apply omap'_forall2. unfold ids. clear -F. induction F as [|x mk xs mks H F IH]; cbn [map]; constructor; [|exact IH].
      destruct H as [_ [H _]]. rewrite H. destruct mk; reflexivity. }
    set (sorted := sort_by snd ckey_cmp mks) in *. set (key := KMac (map snd sorted)) in *.
    assert (Eex : existsb (fun j => str_eqb n (obj_name h j)) ids = true).
    { apply existsb_exists. clear -F Hin. unfold ids. induction F as [|x mk xs mks H F IH]; [destruct Hin|].
      destruct Hin as [->|Hin].
      - exists (fst mk). split; [left; reflexivity|]. destruct H as [_ [_ [_ [H _]]]]. rewrite H. apply str_eqb_iff. reflexivity.
      - destruct (IH Hin) as [j [H1 H2]]. exists j. split; [right; exact H1 | exact H2]. }
    pose proof (si_reg _ _ _ _ _ _ _ _ _ C KindM ltac:(discriminate)) as RegM. cbn [cls_of ReaderSysA.cls_of dict_of] in RegM.
    destruct (live_reg ct st i _ I Hh eq_refl) as [N1 K1]. cbn [o_name o_key o_cls new_obj] in N1, K1.
    assert (Ec : macro_call ct cm (holds st ids) (Some ids) (Some n) = (holds st ids, CRet i false)).
    { unfold macro_call. change (heap (holds st ids)) with h. rewrite Eom. cbv zeta. fold sorted. rewrite Eex.
      fold key. unfold sing_lookup. change (cget (holds st ids) cm) with (cget st cm). rewrite Hne, N1, K1, Nat.eqb_refl. reflexivity. }
    set (r1 := mkR (holds st (ids ++ [i])) (r_seq r) (r_conc r) (r_rate r)).
    assert (Ex : exec_stmt ct G line (SMac n xs) r = (r1, Ok (RObj i))).
    { cbn [exec_stmt]. unfold bind at 1. unfold key_to_pil, catch. rewrite Em. cbn [gM g slot]. cbv iota beta.
      rewrite bind_ret. unfold bind, call. cbn [r_st with_st]. rewrite Ec. unfold r1. rewrite hold_holds. reflexivity. }
    apply (read_one_found ct cd cs cc cm cr line (SMac n xs) accR r r1 i [i] (ids ++ [i]) _ (r_seq r) (r_conc r) (r_rate r) Hdec OK);
      [| exact Ex | reflexivity |].
    { intros y Hy. rewrite !in_app_iff in Hy. destruct Hy as [[Hy|[<-|[]]]|[<-|[]]]; [apply Lv; exact Hy | exact Li | exact Li]. }
    intros r2 ->. exists []. rewrite app_nil_r.
    apply (file_obj_at ct cd cs cc cm cr CO KindM i n accR r1 _ ltac:(cbn; auto) Hh); reflexivity.
  Qed.

  (* Reaction(reactants, products, rtype) when name and canonical form are registered for one object *)
  Lemma rxn_found_exact st cond t (R3 P3 : list mem3) j :
    Forall (fun m => member_form (heap st) (m_id m) = Some (cond, m_keys m) /\
                     obj_name (heap st) (m_id m) = m_name m) (R3 ++ P3) ->
    R3 <> [] ->
    let sr := sort_by m_keys mkey_cmp R3 in
    let sp := sort_by m_keys mkey_cmp P3 in
    let nm := rxn_name t (map m_name sr) (map m_name sp) in
    let key := KRxn cond (map m_keys sr) (map m_keys sp) t in
    nlookup nm (cs_names (cget st cr)) = Some j -> klookup key (cs_canon (cget st cr)) = Some j ->
    reaction_call ct cr st (Some (map m_id R3, map m_id P3)) t None = (st, CRet j false).
  Proof.
    intros F Hne sr sp nm key Hn Hk.
    apply Forall_app in F. destruct F as [FR FP].
    unfold reaction_call. cbv zeta.
    rewrite (forms_members (heap st) cond R3), (forms_members (heap st) cond P3);
      [| eapply Forall_impl; [|exact FP]; cbn; tauto | eapply Forall_impl; [|exact FR]; cbn; tauto].
    assert (Eflags : map (fun x : nat * (bool * list ckey) => fst (snd x)) (map (m_form cond) R3 ++ map (m_form cond) P3) =
                     map (fun _ => cond) (R3 ++ P3)).
    { rewrite <- map_app, map_map. reflexivity. }
    rewrite Eflags.
    assert (Eism : existsb (fun b : bool => b) (map (fun _ : mem3 => cond) (R3 ++ P3)) = cond).
    { destruct cond; [|apply existsb_const_false]. destruct R3 as [|m0 R3']; [contradiction|]. reflexivity. }
    assert (Eall : cond = true -> forallb (fun b : bool => b) (map (fun _ : mem3 => cond) (R3 ++ P3)) = true).
    { intros ->. apply forallb_const_true. }
    rewrite Eism.
    assert (Eb : cond && negb (forallb (fun b : bool => b) (map (fun _ : mem3 => cond) (R3 ++ P3))) = false).
    { destruct cond; [rewrite (Eall eq_refl)|]; reflexivity. }
    rewrite Eb. rewrite !sorted_forms. fold sr. fold sp. rewrite !map_map. cbn [m_form fst snd].
    assert (Enames : forall M3 S3, (forall m, In m S3 -> In m M3) ->
                     Forall (fun m => member_form (heap st) (m_id m) = Some (cond, m_keys m) /\
                                      obj_name (heap st) (m_id m) = m_name m) M3 ->
                     map (fun x : mem3 => obj_name (heap st) (m_id x)) S3 = map m_name S3).
    { intros M3 S3 Hs FM. apply map_ext_in. intros m Hm. rewrite Forall_forall in FM. apply (FM m (Hs m Hm)). }
    rewrite (Enames R3 sr (fun m => in_sorted _ _ _ m) FR), (Enames P3 sp (fun m => in_sorted _ _ _ m) FP).
    change (map (fun x : mem3 => m_keys x) sr) with (map m_keys sr).
    change (map (fun x : mem3 => m_keys x) sp) with (map m_keys sp).
    fold (rxn_name t (map m_name sr) (map m_name sp)). fold nm. fold key.
    unfold sing_lookup.
    assert (Hnm : nonempty nm = true) by reflexivity.
    rewrite Hnm, Hn, Hk, Nat.eqb_refl. reflexivity.
  Qed.

  (* a reaction statement with the canonical form, the name, the rate constant and the units of a declared one *)
  Theorem found_rxn world r acc line ri ri0 k :
    SInv world r acc -> decode line = Ok (SRxn ri) -> ri_rate ri = Some k ->
    ri_reactants ri <> [] ->
    Forall (fun x => In x (mdecl (is_cond (ri_type ri)) world)) (ri_reactants ri) ->
    Forall (fun x => In x (mdecl (is_cond (ri_type ri)) world)) (ri_products ri) ->
    In (SRxn ri0) world -> rxn_sig world ri0 = rxn_sig world ri ->
    ri_rate ri0 = ri_rate ri -> ri_units ri0 = ri_units ri ->
    exists j rt', In j (po_det acc ++ po_con acc) /\ is_live (heap (r_st r)) j = true /\
      (exists o, hget (heap (r_st r)) j = Some o /\ o_live o = true /\ o_cls o = cr) /\
      (forall i, attr_get i rt' = attr_get i (r_rate r)) /\
      forall accR, read_one ct G None (TList line) accR r =
        (mkR (holds (r_st r) [j]) (r_seq r) (r_conc r) rt',
         Ok (apply_delta (FRxn (is_cond (ri_type ri)) (r_st r) j) accR)).
  Proof.
    intros SI Hdec Hrate Hne HR HP Hw Hsig Hr0 Hu0. pose proof SI as [C B].
    set (cond := is_cond (ri_type ri)) in *. set (t := ri_type ri) in *.
    set (st := r_st r). set (h := heap st).
    pose proof (si_sok _ _ _ _ _ _ _ _ _ C) as OK. pose proof (proj1 OK) as I.
    destruct (side_facts ct cd cs cc cm cr world r acc cond _ SI HR) as [R3 FR].
    destruct (side_facts ct cd cs cc cm cr world r acc cond _ SI HP) as [P3 FP].
    fold st in FR, FP. fold h in FR, FP.
    set (idsR := map m_id R3). set (idsP := map m_id P3).
    assert (FR1 : Forall2 (MemReg cc cm cond (r_st r)) (ri_reactants ri) idsR).
    { unfold idsR. apply forall2_map_r. eapply Forall2_impl'; [|exact FR]. cbn. intros a b [_ [_ [_ [_ [_ H]]]]]. exact H. }
    assert (FP1 : Forall2 (MemReg cc cm cond (r_st r)) (ri_products ri) idsP).
    { unfold idsP. apply forall2_map_r. eapply Forall2_impl'; [|exact FP]. cbn. intros a b [_ [_ [_ [_ [_ H]]]]]. exact H. }
    set (by_name := if cond then macro_by_name ct G else complex_by_name ct G).
    destruct (mapM_lookup ct by_name (MemReg cc cm cond) (fun st j x i H => H)
                (byname_exact ct cd cs cc cm cr CO PL cond) _ idsR r OK FR1) as [EmR LvR]. fold st in EmR.
    set (r1 := with_st r (holds st idsR)) in EmR.
    assert (OK1 : SOK ct (r_st r1)) by (apply sok_holds; assumption).
    destruct (mapM_lookup ct by_name (MemReg cc cm cond) (fun st j x i H => H)
                (byname_exact ct cd cs cc cm cr CO PL cond) _ idsP r1 OK1 FP1) as [EmP LvP].
    set (temps := idsR ++ idsP).
    assert (Emem : key_to_pil (dm re <- mapM by_name (ri_reactants ri);
                               dm pr <- mapM by_name (ri_products ri); ret (re, pr)) r =
                   (with_st r (holds st temps), Ok (idsR, idsP))).
    { unfold key_to_pil, catch. rewrite (bind_ok _ _ _ _ _ EmR), (bind_ok _ _ _ _ _ EmP). unfold ret.
      unfold r1. cbn [r_st with_st]. rewrite holds_app. reflexivity. }
    set (sr := sort_by m_keys mkey_cmp R3). set (sp := sort_by m_keys mkey_cmp P3).
    set (nm := rxn_name t (map m_name sr) (map m_name sp)).
    set (key := KRxn cond (map m_keys sr) (map m_keys sp) t).
    assert (FRm : Forall2 (fun x m => m_name m = x /\ mform world cond x = Some (m_keys m)) (ri_reactants ri) R3)
      by (eapply Forall2_impl'; [|exact FR]; cbn; tauto).
    assert (FPm : Forall2 (fun x m => m_name m = x /\ mform world cond x = Some (m_keys m)) (ri_products ri) P3)
      by (eapply Forall2_impl'; [|exact FP]; cbn; tauto).
    pose proof (rxn_sig_members world ri R3 P3 FRm FPm) as Esig. fold cond in Esig. fold t in Esig.
    fold sr in Esig. fold sp in Esig. fold nm in Esig. fold key in Esig.
    (* the declared reaction *)
    destruct (B _ Hw) as [j Hbj].
    destruct (rxn_sig_built ct cd cs cc cm cr world r acc ri0 j SI Hbj) as [k' [nm' [ch' [d' [E1 E2]]]]].
    rewrite Hsig, Esig in E1. injection E1 as <- <-. fold st in E2. fold h in E2.
    destruct (live_reg ct st j _ I E2 eq_refl) as [N1 K1]. cbn [o_name o_key o_cls new_obj] in N1, K1.
    assert (Lj : is_live h j = true) by (unfold is_live; rewrite E2; reflexivity).
    pose proof Hbj as [R30 [P30 [k0 [Hin0 [_ [_ [Hh0 [Hk0 Ha0]]]]]]]]. cbv zeta in Hh0.
    fold st in Hh0. fold h in Hh0.
    pose proof (eq_trans (eq_sym E2) Hh0) as Eo.
    pose proof (f_equal (option_map o_data) Eo) as Ed. cbn [option_map o_data new_obj] in Ed. injection Ed as Ed.
    pose proof (f_equal (option_map o_key) Eo) as Ek. cbn [option_map o_key new_obj] in Ek.
    assert (Et : ri_type ri0 = t /\ is_cond (ri_type ri0) = cond).
    { unfold key in Ek. injection Ek. intros H1 _ _ H2. split; [symmetry; exact H1 | unfold cond; symmetry; exact H2]. }
    clear Eo.
    pose proof Et as [Et1 Ec].
    set (rt' := attr_set j (k, ri_units ri) (r_rate r)).
    assert (Art : forall i, attr_get i rt' = attr_get i (r_rate r)).
    { intros i. unfold rt'. rewrite attr_get_set. destruct (Nat.eqb i j) eqn:E; [|reflexivity]. apply Nat.eqb_eq in E. subst i.
      rewrite Ha0. rewrite Hr0, Hrate in Hk0. injection Hk0 as <-. rewrite Hu0. reflexivity. }
    exists j, rt'. split.
    { rewrite Ec in Hin0. apply in_or_app. destruct cond; [right | left]; exact Hin0. }
    split; [exact Lj|]. split; [eexists; split; [exact E2 | split; reflexivity]|]. split; [exact Art|]. intros accR.
    assert (Fall : Forall (fun m => member_form h (m_id m) = Some (cond, m_keys m) /\ obj_name h (m_id m) = m_name m) (R3 ++ P3)).
    { apply Forall_app. split.
      - eapply forall2_forall_r; [exact FR|]. cbn. intros x m [H1 [_ [H3 [_ [H5 _]]]]]. split; [exact H3 | congruence].
      - eapply forall2_forall_r; [exact FP|]. cbn. intros x m [H1 [_ [H3 [_ [H5 _]]]]]. split; [exact H3 | congruence]. }
    assert (HR3 : R3 <> []).
    { intros ->. inversion FR as [E|]; subst. apply Hne. symmetry. assumption. }
    pose proof (rxn_found_exact (holds st temps) cond t R3 P3 j Fall HR3 N1 K1) as Ecall0.
    fold idsR in Ecall0. fold idsP in Ecall0.
    set (r1x := mkR (holds st (temps ++ [j])) (r_seq r) (r_conc r) rt').
    assert (Ex : exec_stmt ct G line (SRxn ri) r = (r1x, Ok (RObj j))).
    { cbn [exec_stmt]. fold t. fold cond. change (is_s t sCondensed) with cond. fold by_name.
      rewrite (bind_ok _ _ _ _ _ Emem). cbn [gR g slot]. rewrite bind_ret.
      assert (Ecall : call (fun st' => reaction_call ct cr st' (Some (idsR, idsP)) t None) (with_st r (holds st temps)) =
                      (with_st r (holds st (temps ++ [j])), Ok j)).
      { unfold call. cbn [r_st with_st]. rewrite Ecall0, hold_holds. reflexivity. }
      rewrite (bind_ok _ _ _ _ _ Ecall), Hrate. reflexivity. }
    apply (read_one_found ct cd cs cc cm cr line (SRxn ri) accR r r1x j [j] (temps ++ [j]) _ (r_seq r) (r_conc r) rt' Hdec OK);
      [| exact Ex | reflexivity |].
    { intros y Hy. rewrite !in_app_iff in Hy.
      destruct Hy as [[Hy|[<-|[]]]|[<-|[]]]; [|exact Lj | exact Lj].
      unfold temps in Hy. apply in_app_or in Hy. destruct Hy as [Hy|Hy]; [apply LvR; exact Hy | apply (LvP y Hy)]. }
    intros r2 ->. exists []. rewrite app_nil_r.
    rewrite (file_obj_rxn ct cd cs cc cm cr CO j accR r1x t).
    - reflexivity.
    - unfold ClsAt, cls_at. change (heap (r_st r1x)) with h. rewrite E2. reflexivity.
    - unfold rtype_of. change (heap (r_st r1x)) with h. rewrite E2. cbn [o_data new_obj]. rewrite Ed. destruct Et as [-> _]. reflexivity.
  Qed.
End FoundMR.
