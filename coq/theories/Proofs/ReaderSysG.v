(* Reader model, C14: a consistent system is never refused.
   Part 8: canonical forms of declared complexes; reading a macrostate statement. *)
From Coq Require Import List NArith ZArith Bool Arith Lia.
From DSD Require Import Base.Str Base.Errors Model.ComplexUtils Model.RegStr Model.ReaderStr Model.PyNum
  Model.Peg Model.Kernel Model.DispatchKernel Model.Heap Model.Registry Model.Reader Model.ReaderShape Model.ReaderConsistent
  Proofs.RegHeap Proofs.RegInv Proofs.RegCalls Proofs.RegExt Proofs.ReaderBasic Proofs.ReaderStmt Proofs.ReaderHeap
  Proofs.ReaderInv Proofs.ReaderHoare Proofs.ReaderNoFault Proofs.ReaderThms Proofs.ReaderBuilds Proofs.ReaderKernel
  Proofs.ReaderMore Proofs.ReaderSys Proofs.ReaderSysA Proofs.ReaderSysB Proofs.ReaderSysD Proofs.ReaderSysE
  Proofs.ReaderSysF.
From DSD Require Model.Iupac.
Import ListNotations.

(* sorting commutes with a projection that keeps the key *)
Section SortMap.
  Context {A B K : Type} (g : A -> B) (kf : B -> K) (cmp : K -> K -> comparison).
  Lemma insert_by_map x l :
    map g (insert_by (fun a => kf (g a)) cmp x l) = insert_by kf cmp (g x) (map g l).
  Proof.
    induction l as [|y r IH]; cbn; [reflexivity|].
    destruct (cmp_ltb (cmp (kf (g y)) (kf (g x)))); cbn; [rewrite IH|]; reflexivity.
  Qed.
  Lemma sort_by_map l : map g (sort_by (fun a => kf (g a)) cmp l) = sort_by kf cmp (map g l).
  Proof.
    unfold sort_by. induction l as [|x r IH]; cbn; [reflexivity|]. rewrite insert_by_map, IH. reflexivity.
  Qed.
End SortMap.

Lemma find_of_existsb {A} (p : A -> bool) l : existsb p l = true -> exists x, find p l = Some x.
Proof.
  induction l as [|a r IH]; cbn; [discriminate|]. destruct (p a); [eauto | exact IH].
Qed.

Section StepMacro.
  Variable ct : ctable.
  Variables cd cs cc cm cr : nat.
  Hypothesis CO : cfg_okb ct cd cs cc cm cr = true.
  Hypothesis PL : forall c, In c [cd; cs; cc; cm; cr] -> exists ci, nth_error ct c = Some ci /\ c_fail ci = FNone.
  Notation G := (g cd cs cc cm cr).
  Notation cls_of := (cls_of cd cs cc cm cr).
  Notation Core := (Core cd cs cc cm cr ct).
  Notation SInv := (SInv cd cs cc cm cr ct).
  Notation Built := (Built cd cs cc cm cr).

  (* a declared complex: its object, its name, its canonical form *)
  Lemma cplx_facts prev r acc x :
    SInv prev r acc -> In x (map fst (decl_cplx prev)) ->
    exists j k, dlookup x (po_complexes acc) = Some j /\ nonempty x = true /\ ckey_of prev x = Some k /\
      member_ckey (heap (r_st r)) j = Some k /\ obj_name (heap (r_st r)) j = x /\
      member_form (heap (r_st r)) j = Some (false, [k]).
  Proof.
    intros SI Hx. destruct (assoc_some x _ Hx) as [[names sst] Ea].
    pose proof (assoc_in _ _ _ Ea) as Hin.
    destruct (decl_cplx_built ct cd cs cc cm cr prev r acc x names sst SI Hin)
      as [conc [i [es [cdict [cn [e [D1 [Hne [_ [D3 [D4 [D5 _]]]]]]]]]]]].
    exists i, cn. split; [exact D1|]. split; [exact Hne|].
    split; [unfold ckey_of; rewrite Ea, D3, D4; reflexivity|].
    unfold member_ckey, obj_name, member_form. rewrite D5. cbn. auto.
  Qed.

  Definition CplxReg (st : state) (x : pstr) (j : nat) : Prop :=
    nonempty x = true /\ nlookup x (cs_names (cget st cc)) = Some j.

  Lemma cbn_exact r x j :
    SOK ct (r_st r) -> CplxReg (r_st r) x j ->
    complex_by_name ct G x r = (with_st r (hold (r_st r) j), Ok j) /\ is_live (heap (r_st r)) j = true.
  Proof.
    intros OK [Hne Hn]. destruct (PL cc) as [ci [Hci Hf]]; [cbn; auto 10|].
    assert (Hlt : cc < length ct) by (apply nth_error_Some; congruence).
    split.
    - unfold complex_by_name. cbn [gC g slot]. rewrite bind_ret. unfold call, cplx_call. rewrite Hci.
      unfold sing_lookup. rewrite Hne, Hn. reflexivity.
    - destruct (reg_live ct _ cc x j (proj1 OK) Hlt Hn) as [o [Ho [Hl _]]]. unfold is_live. rewrite Ho. exact Hl.
  Qed.

  (* the members of a macrostate statement *)
  Lemma members_facts prev r acc xs :
    SInv prev r acc -> Forall (fun x => In x (map fst (decl_cplx prev))) xs ->
    exists mks : list (nat * ckey),
      Forall2 (fun x mk => dlookup x (po_complexes acc) = Some (fst mk) /\
                           member_ckey (heap (r_st r)) (fst mk) = Some (snd mk) /\
                           ckey_of prev x = Some (snd mk) /\ obj_name (heap (r_st r)) (fst mk) = x /\
                           CplxReg (r_st r) x (fst mk)) xs mks.
  Proof.
    intros SI Hxs. apply forall_exists_forall2. eapply Forall_impl; [|exact Hxs]. cbn. intros x Hx.
    destruct (cplx_facts prev r acc x SI Hx) as [j [k [H1 [H2 [H3 [H4 [H5 _]]]]]]].
    pose proof SI as [C _].
    pose proof (si_reg _ _ _ _ _ _ _ _ _ C KindC ltac:(discriminate)) as RegC. cbn [cls_of ReaderSysA.cls_of dict_of] in RegC.
    exists (j, k). unfold CplxReg. cbn [fst snd]. rewrite RegC. auto 10.
  Qed.

  Lemma mac_sig_members prev (xs : list pstr) (mks : list (nat * ckey)) :
    Forall2 (fun x mk => ckey_of prev x = Some (snd mk)) xs mks ->
    mac_sig prev xs = Some (map snd (sort_by snd ckey_cmp mks)).
  Proof.
    intros F. unfold mac_sig.
    assert (E : omap' (ckey_of prev) xs = Some (map snd mks)).
    { apply omap'_forall2. clear -F. induction F; cbn; constructor; assumption. }
    rewrite E. cbn [option_map]. f_equal. symmetry.
    exact (sort_by_map (@snd nat ckey) (fun k => k) ckey_cmp mks).
  Qed.

  Theorem step_macro prev r acc line n xs :
    SInv prev r acc -> decode line = Ok (SMac n xs) ->
    nonempty n = true -> In n xs -> ~ In n (map fst (decl_macs prev)) ->
    Forall (fun x => In x (map fst (decl_cplx prev))) xs ->
    (forall n' xs', In (n', xs') (decl_macs prev) -> mac_sig prev xs' <> mac_sig prev xs) ->
    exists r' i, (forall accR, read_one ct G None (TList line) accR r = (r', Ok (apply_delta (FKind KindM n i) accR))) /\
      SInv (prev ++ [SMac n xs]) r' (apply_delta (FKind KindM n i) acc) /\
      Later r acc r' (apply_delta (FKind KindM n i) acc).
  Proof.
    intros SI Hdec Hne Hin Hnew Hxs Hsig. pose proof SI as [C B].
    set (st := r_st r). set (i := length (heap st)). set (h := heap st).
    pose proof (si_sok _ _ _ _ _ _ _ _ _ C) as OK. pose proof (proj1 OK) as I.
    assert (Hcm : cm < length ct) by apply (cls_of_lt ct cd cs cc cm cr CO KindM).
    destruct (members_facts prev r acc xs SI Hxs) as [mks F]. fold st in F. fold h in F.
    set (ids := map fst mks).
    assert (F1 : Forall2 (CplxReg (r_st r)) xs ids).
    { unfold ids. clear -F. induction F as [|x mk xs mks H F IH]; cbn [map]; constructor; [tauto | exact IH]. }
    destruct (mapM_lookup ct (complex_by_name ct G) CplxReg (fun st j x i H => H) cbn_exact xs ids r OK F1) as [Em Lv].
    fold st in Em.
    (* the canonical form *)
    assert (Eom : omap' (fun j => option_map (fun k => (j, k)) (member_ckey h j)) ids = Some mks).
    { apply omap'_forall2. unfold ids. clear -F. induction F as [|x mk xs mks H F IH]; cbn [map]; constructor; [|exact IH].
      destruct H as [_ [H _]]. rewrite H. destruct mk; reflexivity. }
    set (sorted := sort_by snd ckey_cmp mks). set (key := KMac (map snd sorted)).
    assert (Esig : mac_sig prev xs = Some (map snd sorted)).
    { apply mac_sig_members. eapply Forall2_impl'; [|exact F]. cbn. tauto. }
    (* the name of the macrostate is the name of a member *)
    assert (Eex : existsb (fun j => str_eqb n (obj_name h j)) ids = true).
    { apply existsb_exists. clear -F Hin. unfold ids. induction F as [|x mk xs mks H F IH]; [destruct Hin|].
      destruct Hin as [->|Hin].
      - exists (fst mk). split; [left; reflexivity|]. destruct H as [_ [_ [_ [H _]]]]. rewrite H. apply str_eqb_iff. reflexivity.
      - destruct (IH Hin) as [j [H1 H2]]. exists j. split; [right; exact H1 | exact H2]. }
    assert (Efind : exists rep, find (fun j => str_eqb (obj_name h j) n) ids = Some rep).
    { apply find_of_existsb. apply existsb_exists in Eex. destruct Eex as [j [H1 H2]].
      apply existsb_exists. exists j. split; [exact H1|]. apply str_eqb_iff in H2. apply str_eqb_iff. congruence. }
    destruct Efind as [rep Efind].
    (* the name and the canonical form are new *)
    pose proof (si_reg _ _ _ _ _ _ _ _ _ C KindM ltac:(discriminate)) as RegM. cbn [cls_of ReaderSysA.cls_of dict_of] in RegM.
    assert (Nn : nlookup n (cs_names (cget st cm)) = None).
    { unfold st. rewrite RegM. apply dlookup_notin. intros Hk.
      apply (si_keys _ _ _ _ _ _ _ _ _ C KindM) in Hk. contradiction. }
    assert (Kn : klookup key (cs_canon (cget st cm)) = None).
    { destruct (klookup key (cs_canon (cget st cm))) as [j|] eqn:E; [|reflexivity]. exfalso.
      destruct (kreg_live ct _ cm _ j I Hcm E) as [o [Ho [Hl [Hc Hk]]]].
      destruct (live_reg ct _ j o I Ho Hl) as [N1 _]. rewrite Hc in N1. fold st in RegM. rewrite RegM in N1.
      pose proof (dlookup_in_keys _ _ _ N1) as Hk2. apply (si_keys _ _ _ _ _ _ _ _ _ C KindM) in Hk2.
      cbn [declared] in Hk2. apply in_map_iff in Hk2. destruct Hk2 as [[n' xs'] [En Hk2]]. cbn in En.
      pose proof Hk2 as Hk3. apply decl_macs_in in Hk3.
      destruct (B _ Hk3) as [i' [mks' [rep' [D1 [_ [D2 D3]]]]]].
      rewrite En, N1 in D1. injection D1 as <-. pose proof (eq_trans (eq_sym Ho) D3) as Eo. injection Eo as ->.
      cbn [o_keys new_obj] in Hk. destruct Hk as [Hk|[]]. unfold key in Hk. injection Hk as Hk.
      apply (Hsig n' xs' Hk2). rewrite Esig.
      assert (F' : Forall2 (fun x mk => ckey_of prev x = Some (snd mk)) xs' mks').
      { eapply Forall2_impl'; [|exact D2]. cbn. intros x mk [A1 A2].
        destruct (cplx_facts prev r acc x SI (si_keys _ _ _ _ _ _ _ _ _ C KindC x (dlookup_in_keys _ _ _ A1)))
          as [j2 [k2 [B1 [_ [B3 [B4 _]]]]]].
        rewrite A1 in B1. injection B1 as <-. rewrite A2 in B4. injection B4 as <-. exact B3. }
      rewrite (mac_sig_members prev xs' mks' F'). f_equal. exact Hk. }
    (* read_pil_line *)
    assert (Ex : exec_stmt ct G line (SMac n xs) r =
                 (mkR (hold (mk_new (holds st ids) (cls_of KindM) n key [] ids (DMac ids rep)) i) (r_seq r) (r_conc r) (r_rate r),
                  Ok (RObj i))).
    { cbn [exec_stmt]. unfold bind at 1. unfold key_to_pil, catch. rewrite Em. cbn [gM g slot]. cbv iota beta.
      rewrite bind_ret.
      assert (Ec : macro_call ct cm (holds st ids) (Some ids) (Some n) = (mk_new (holds st ids) cm n key [] ids (DMac ids rep), CRet i true)).
      { destruct (PL cm) as [ci [Hci Hf]]; [cbn; auto 10|].
        unfold macro_call. change (heap (holds st ids)) with h. rewrite Eom. cbv zeta. fold sorted. rewrite Eex.
        fold key. unfold sing_lookup. change (cget (holds st ids) cm) with (cget st cm). rewrite Hne, Nn, Kn, Efind.
        apply (create_new ct (holds st ids) cm ci); assumption. }
      unfold bind, call. cbn [r_st with_st]. rewrite Ec. reflexivity. }
    destruct (step_single ct cd cs cc cm cr CO prev r acc line (SMac n xs) KindM n
                key [] ids (DMac ids rep) ids (r_conc r) SI Hdec ltac:(cbn; auto) Ex) as [E3 [SI' L']].
    - split; [exact Nn|]. split; [exact Kn|]. intros k' [].
    - exact Lv.
    - exact Logic.I.
    - intros k' n0 Hn0. destruct k'; cbn in Hn0; try tauto. destruct Hn0 as [<-|[]]. auto.
    - cbn. auto.
    - reflexivity.
    - reflexivity.
    - reflexivity.
    - intros C' L'. cbn [Built ReaderSysA.Built]. exists i, mks, rep.
      split; [cbn [po_macrostates with_dict with_macros dict_of]; rewrite dlookup_dset, (proj2 (str_eqb_iff n n) eq_refl); reflexivity|].
      split; [exact Hne|]. split.
      + eapply Forall2_impl'; [|exact F]. cbn. intros x mk [A1 [A2 _]]. split; [exact A1|].
        exact (later_member_ckey _ _ _ _ _ _ L' A2).
      + cbn [r_st hold heap]. rewrite heap_mk_new. apply hget_new.
    - intros n0 names0 sst0 [].
    - eexists. eexists. split; [exact E3 | split; [exact SI' | exact L']].
  Qed.
End StepMacro.
